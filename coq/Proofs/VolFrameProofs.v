(* VolFrameProofs.v: the FRAME of every image-level operation, as ONE compositional statement, and what C10 / C11 / C13 say
   about it "after every API call" on whole device images of FAT12/16 volumes with a fixed root ([fixed_root_geom]).

   1. C10 on images: [img_copies_equal] (= the extracted Abs.fat_copies_equal the judge runs), [reserved_kept] (the bytes of FAT
      entries 0 and 1 of EVERY copy), [FatKept] = both; kept by every FAT write of the file layer / of free_cluster_chain
      (the store invariant [inv_c10] pushed through the generic file-layer and chain-layer theorems).
   2. C11 on images: [Touch g im0 own status im] - the image [im] differs from [im0] only in the status byte (if [status]), the
      mirrored FAT copies, the root region, and data clusters that were FREE in [im0] (decoder's view) or are in [own] (the
      chains, as of [im0], of the files operated on); and every cluster outside that set keeps its FAT value.  [Touch] is
      TRANSITIVE ([touch_step]) - that is what lifts the per-call facts to whole runs with the classification still taken
      against the PRE-RUN image - and it implies the statement through the extracted classifier ([touch_classified]).
   3. every operation of VolDir / VolChainDir / VolFile / VolSession / VolSession2 / VolRemove / VolStatus is a [Touch] + [FatKept]
      step; runs: vol_run, vols_run, sess_run, sesss_run, mvol_run, s2_run, s2_creates, vol_session2.
   4. C13: a mounted read-only session (lookups, opens, reads and seeks on any handles, drops of handles; mount and unmount
      around it) returns the image it was given - [=], not only pointwise. *)
From Coq Require Import NArith ZArith Lia List Bool FMapPositive.
From FatVerif Require Import Model.Base Model.Str Model.Slot Model.Time Model.Table Model.Fat Model.FileM Model.Name
  Model.ShortName Model.DirSlots Model.Flags Model.VolDir Model.VolChainDir Model.VolFile Model.FlushM Model.VolSession
  Model.VolSession2 Model.VolRemove Model.VolStatus Spec.Image Spec.Abs Spec.Regions Spec.ByteFile
  Proofs.ImageProofs Proofs.TableProofs Proofs.FatProofs Proofs.FileProofs Proofs.CrossProofs Proofs.RegionsProofs
  Proofs.FlagsProofs Proofs.DirSlotsProofs Proofs.VolDirProofs Proofs.VolFileProofs Proofs.VolSessionProofs
  Proofs.VolSession2Proofs Proofs.VolRemoveProofs Proofs.VolStatusProofs Proofs.VolChainDirProofs.
From FatVerif Require Spec.Wf Model.Lfn Proofs.TimeProofs.
Import ListNotations.
Open Scope N_scope.
Ltac Zify.zify_post_hook ::= Z.to_euclidean_division_equations.

(* ================================================================ 1. C10 on images *)
(* every copy of the table holds the bytes of copy 0 *)
Definition img_copies_equal (g : geom) (im : image) : Prop :=
  forall k j, k < g_fats g -> j < g_fat_bytes g -> img_get im (g_fat_off g k + j) = img_get im (g_fat_off g 0 + j).

Lemma bytes_equal_iff im : forall n a b,
  bytes_equal im a b n = true <-> forall j, j < N.of_nat n -> img_get im (a + j) = img_get im (b + j).
Proof.
  induction n as [|n IH]; intros a b; cbn [bytes_equal].
  - split; [intros _ j Hj; lia|reflexivity].
  - rewrite andb_true_iff, N.eqb_eq, IH. split.
    + intros [H0 H] j Hj. destruct (N.eq_dec j 0) as [->|Hne]; [rewrite !N.add_0_r; exact H0|].
      replace (a + j) with (a + 1 + (j - 1)) by lia. replace (b + j) with (b + 1 + (j - 1)) by lia. apply H. lia.
    + intros H. split; [specialize (H 0 ltac:(lia)); rewrite !N.add_0_r in H; exact H|].
      intros j Hj. replace (a + 1 + j) with (a + (j + 1)) by lia. replace (b + 1 + j) with (b + (j + 1)) by lia. apply H. lia.
Qed.

Lemma copies_equal_from_iff g im : forall k, copies_equal_from g im k = true <->
  forall i, 1 <= i <= N.of_nat k -> forall j, j < g_fat_bytes g -> img_get im (g_fat_off g 0 + j) = img_get im (g_fat_off g i + j).
Proof.
  induction k as [|k IH]; cbn [copies_equal_from].
  - split; [intros _ i Hi; lia|reflexivity].
  - rewrite andb_true_iff, bytes_equal_iff, IH, N2Nat.id. split.
    + intros [H0 H] i Hi j Hj. destruct (N.eq_dec i (N.of_nat (S k))) as [->|Hne]; [apply H0; exact Hj|apply H; [lia|exact Hj]].
    + intros H. split; [intros j Hj; apply H; [lia|exact Hj]|intros i Hi j Hj; apply H; [lia|exact Hj]].
Qed.

(* the executable check of the independent decoder (Spec/Abs.v, extracted; the judge's "FAT copies equal") says exactly this *)
Theorem fat_copies_equal_iff g im : fat_copies_equal g im = true <-> img_copies_equal g im.
Proof.
  unfold fat_copies_equal, img_copies_equal. rewrite copies_equal_from_iff. split.
  - intros H k j Hk Hj. destruct (N.eq_dec k 0) as [->|Hne]; [reflexivity|]. symmetry. apply H; [lia|exact Hj].
  - intros H i Hi j Hj. symmetry. apply H; [lia|exact Hj].
Qed.

Lemma fat_off_copy g k : g_fat_off g 0 + k * g_fat_bytes g = g_fat_off g k.
Proof. unfold g_fat_off, g_fat_bytes. nia. Qed.

(* with mirroring (always on FAT12/16) the store of Model/VolFile.v covers all copies: the store-level notion of
   Proofs/FatProofs.v is the image-level one *)
Lemma store_copies_equal_iff g im : g_mirroring g = true -> (copies_equal (store_of g im) <-> img_copies_equal g im).
Proof.
  intros Hm. unfold copies_equal, img_copies_equal, copy_byte, store_of, vol_base, vol_mirrors, g_active. rewrite Hm.
  cbn [fs_img fs_base fs_size fs_mirrors]. rewrite N2Nat.id.
  split; intros H k j Hk Hj.
  - specialize (H k j Hk Hj). rewrite (fat_off_copy g k), (fat_off_copy g 0) in H. exact H.
  - rewrite (fat_off_copy g k), (fat_off_copy g 0). apply H; assumption.
Qed.

Lemma store_copy_byte g im k j : g_mirroring g = true -> copy_byte (store_of g im) k j = img_get im (g_fat_off g k + j).
Proof.
  intros Hm. unfold copy_byte, store_of, vol_base, g_active. rewrite Hm. cbn [fs_img fs_base fs_size].
  rewrite (fat_off_copy g k). reflexivity.
Qed.

(* the bytes that hold FAT entries 0 and 1 (media descriptor / end-of-chain pattern; 3 bytes on FAT12, 4 on FAT16), in
   every copy of the table *)
Definition reserved_kept (g : geom) (im im' : image) : Prop :=
  forall k j, k < g_fats g -> j < reserved_len (ft_of g) -> img_get im' (g_fat_off g k + j) = img_get im (g_fat_off g k + j).

(* C10 for one transition [im] -> [im'] *)
Definition FatKept (g : geom) (im im' : image) : Prop :=
  (img_copies_equal g im -> img_copies_equal g im') /\ reserved_kept g im im'.

Lemma fat_kept_refl g im : FatKept g im im.
Proof. split; [exact (fun H => H)|intros k j _ _; reflexivity]. Qed.

Lemma fat_kept_trans g a b c : FatKept g a b -> FatKept g b c -> FatKept g a c.
Proof.
  intros [H1 R1] [H2 R2]. split; [intros H; exact (H2 (H1 H))|]. intros k j Hk Hj. rewrite (R2 k j Hk Hj). exact (R1 k j Hk Hj).
Qed.

Lemma fat_kept_bool g im im' : FatKept g im im' -> fat_copies_equal g im = true -> fat_copies_equal g im' = true.
Proof. intros [H _] E. apply fat_copies_equal_iff. apply H. apply fat_copies_equal_iff. exact E. Qed.

Lemma reserved_fits g : vgeom_ok g -> reserved_len (ft_of g) <= g_fat_bytes g.
Proof.
  intros (_ & _ & Hf). destruct (ft_of g); cbn [fat_fits reserved_len] in *; unfold off12 in *; lia.
Qed.

(* an operation that writes no byte of the FAT region *)
Lemma fat_kept_same_area g im im' : reserved_len (ft_of g) <= g_fat_bytes g ->
  (forall a, g_fat_off g 0 <= a < g_root_off g -> img_get im' a = img_get im a) -> FatKept g im im'.
Proof.
  intros Hr H.
  assert (forall k j, k < g_fats g -> j < g_fat_bytes g -> g_fat_off g 0 <= g_fat_off g k + j < g_root_off g) as Hin.
  { intros k j Hk Hj. unfold g_fat_off, g_root_off, g_fat_bytes in *.
    assert (k * g_spf g + g_spf g <= g_fats g * g_spf g) by nia. nia. }
  split.
  - intros E k j Hk Hj. rewrite (H _ (Hin k j Hk Hj)), (H _ (Hin 0 j ltac:(lia) Hj)). apply E; assumption.
  - intros k j Hk Hj. apply H. apply Hin; [exact Hk|lia].
Qed.

(* ---------------------------------------------------------------- the store invariant that carries C10 through the generic
   theorems of the chain layer (Proofs/TableProofs.v) and the file layer (Proofs/FileProofs.v, VolFileProofs.v): the store [s]
   of a call that started from [s0] has equal copies if [s0] had, and the reserved bytes of [s0] in every copy *)
Section StoreC10.
Variable ft : fat_type.
Variables (base size : N) (mirrors : nat).
Hypothesis Hmirrors : (1 <= mirrors)%nat.
Variable s0 : fstore.

Definition inv_c10 (s : fstore) : Prop :=
  inv_step ft base size mirrors s0 s /\ (copies_equal s0 -> copies_equal s) /\
  (forall i o, i < N.of_nat mirrors -> o < reserved_len ft -> copy_byte s i o = copy_byte s0 i o).

(* the clusters the layers update: data clusters (never entry 0 or 1) *)
Definition okc_c10 (c : N) : Prop := okcg ft size c /\ 2 <= c.

Lemma inv_c10_refl : inv_g base size mirrors s0 -> inv_c10 s0.
Proof. intros H. split; [apply inv_step_refl; exact H|]. split; [exact (fun E => E)|reflexivity]. Qed.

Lemma law_c10_get t c : inv_c10 t -> okc_c10 c -> fat_get ft t c = Ok (val_ft ft t c).
Proof. intros (H & _) (Hc & _). exact (law_step_get ft base size mirrors s0 t c H Hc). Qed.

Lemma law_c10_set t c v : inv_c10 t -> okc_c10 c -> okv_step ft v ->
  exists t', fat_set ft t c v = Ok t' /\ inv_c10 t' /\ val_ft ft t' c = v /\
             forall c', c' <> c -> okc_c10 c' -> val_ft ft t' c' = val_ft ft t c'.
Proof.
  intros (Hi & Hce & Hres) (Hc & H2) Hv.
  destruct (law_step_set ft base size mirrors Hmirrors s0 t c v Hi Hc Hv) as (t' & E & Hi' & Hval & Hfr).
  exists t'. split; [exact E|]. split; [|split; [exact Hval|intros c' Hne (Hc' & _); exact (Hfr c' Hne Hc')]].
  destruct (inv_step_g ft base size mirrors s0 t Hi) as (B & S & M & _).
  assert (okc_ft ft t c) as Hokc by (apply okcg_okc_ft; rewrite S; exact Hc).
  destruct (fat_set_mirrored ft t c v t' Hokc E) as (_ & _ & _ & Hcp & _).
  split; [exact Hi'|]. split; [intros H0; exact (Hcp (Hce H0))|].
  intros i o Hi0 Ho. rewrite <- (Hres i o Hi0 Ho).
  apply (fat_set_reserved_kept ft t c v t' i o Hokc H2 E); [rewrite M; exact Hi0|exact Ho].
Qed.
End StoreC10.

(* ---------------------------------------------------------------- C10 for the FAT writes of the image-level machines *)
Section StepC10.
Variable g : geom.
Hypothesis Hok : vgeom_ok g.

Let ft := ft_of g.
Let csz := g_cluster_size g.
Let total := g_clusters g.

(* the store-level statement for any sane geometry (all widths; mirroring on or off - with mirroring off the store is the
   active copy alone and the statement is about that copy) *)
Definition StoreKept (im im' : image) : Prop :=
  (copies_equal (store_of g im) -> copies_equal (store_of g im')) /\
  (forall i o, i < N.of_nat (vol_mirrors g) -> o < reserved_len ft ->
     copy_byte (store_of g im') i o = copy_byte (store_of g im) i o).

Lemma store_kept_of_inv im t' im' :
  inv_c10 ft (vol_base g) (g_fat_bytes g) (vol_mirrors g) (store_of g im) t' ->
  (forall a, in_store_area g a -> img_get im' a = img_get (fs_img t') a) -> StoreKept im im'.
Proof.
  intros (Hi & Hce & Hres) Hin.
  destruct (inv_step_g _ _ _ _ _ _ Hi) as (B & S & M & _).
  pose proof (reserved_fits g Hok) as Hrf. fold ft in Hrf.
  assert (forall i o, i < N.of_nat (vol_mirrors g) -> o < g_fat_bytes g ->
            copy_byte (store_of g im') i o = copy_byte t' i o) as Hcb.
  { intros i o Hi0 Ho. unfold copy_byte. rewrite B, S. cbn [store_of fs_img fs_base fs_size]. apply Hin.
    unfold in_store_area. assert (i * g_fat_bytes g + g_fat_bytes g <= N.of_nat (vol_mirrors g) * g_fat_bytes g) by nia. lia. }
  pose proof (vol_mirrors_pos g Hok) as Hmp.
  split.
  - intros E i o Hi0 Ho. cbn [store_of fs_mirrors fs_size] in Hi0, Ho.
    rewrite (Hcb i o Hi0 Ho), (Hcb 0 o ltac:(lia) Ho). apply (Hce E); [rewrite M; exact Hi0|rewrite S; exact Ho].
  - intros i o Hi0 Ho. rewrite (Hcb i o Hi0 ltac:(lia)). exact (Hres i o Hi0 Ho).
Qed.

(* File::{read,write,seek,truncate} on the image *)
Theorem vol_step_store_kept im fi h sz l op im' fi' h' r :
  VolInv g im fi h sz l -> vol_step g (im, fi, h) op = ((im', fi', h'), r) -> StoreKept im im'.
Proof.
  intros (Hb & (Wi & Wf & Wd) & I & NB) Hs.
  pose proof (vol_mirrors_pos g Hok) as Hm. pose proof (cs_pos g Hok) as Hcs. destruct (Hrange g Hok) as (Hokc & Hokd).
  set (s0 := store_of g im).
  assert (forall x, 2 <= x < total + 2 -> okc_c10 ft (g_fat_bytes g) x) as Hokc' by (intros x Hx; split; [exact (Hokc x Hx)|lia]).
  assert (forall n, 2 <= n < total + 2 -> okv_step ft (Data n)) as Hokd'
    by (intros n Hn; split; [exact (Hokd n Hn)|discriminate]).
  assert (FileProofs.WorldInv fstore (val_ft ft) (inv_c10 ft (vol_base g) (g_fat_bytes g) (vol_mirrors g) s0) csz total
            (world_of g im fi)) as W0.
  { split; [|split; [exact Wf|exact Wd]]. apply inv_c10_refl. exact Wi. }
  destruct (file_step_refines_ext fstore (fat_get ft) (fat_set ft) (val_ft ft) (okc_c10 ft (g_fat_bytes g)) (okv_step ft)
              (inv_c10 ft (vol_base g) (g_fat_bytes g) (vol_mirrors g) s0)
              (law_c10_get ft (vol_base g) (g_fat_bytes g) (vol_mirrors g) s0)
              (law_c10_set ft (vol_base g) (g_fat_bytes g) (vol_mirrors g) Hm s0) (okv_step_free ft) (okv_step_eoc ft)
              csz total Hcs Hokc' Hokd' (world_of g im fi) h sz l op W0 I)
    as (w' & h1 & r1 & sz' & l' & Hfs & (Wi' & _) & I' & _ & _ & Hds & _).
  unfold vol_step in Hs. fold ft csz total in Hs. rewrite Hfs in Hs. injection Hs as <- _ _ _.
  apply (store_kept_of_inv im (w_fat fstore w')); [exact Wi'|].
  intros a Ha. apply (data_effect_frame g _ _ _ _ _ _ _ sz' l' a Hds I').
  intros c Hc Hin. apply (cluster_above_area g c a Hok); [|exact Hin|exact Ha].
  exact (proj1 (proj1 (inv_range _ _ _ _ _ _ _ _ I' c Hc))).
Qed.

(* FileSystem::free_cluster_chain on the image (Model/VolRemove.v), for a chain the decoder walks without repetition *)
Theorem vol_free_chain_store_kept im fi c l im1 fi1 :
  FatProofs.bytes_ok im -> fi_inv fstore (val_ft ft) (store_of g im) fi total ->
  c <> 0 -> chain_from g im c (Abs.chain_fuel g) = Some l -> NoDup l ->
  vol_free_chain g im fi c = Ok (im1, fi1) -> StoreKept im im1.
Proof.
  intros Hb Hfi Hc Hch Hnd Hv.
  destruct (chain_from_library g Hok im _ _ _ Hch) as (Lc & Lr & _). fold ft total in Lc, Lr.
  pose proof (vol_mirrors_pos g Hok) as Hm. destruct (Hrange g Hok) as (Hokc & Hokd). fold ft total in Hokc, Hokd.
  set (s0 := store_of g im).
  assert (forall x, 2 <= x < total + 2 -> okc_c10 ft (g_fat_bytes g) x) as Hokc' by (intros x Hx; split; [exact (Hokc x Hx)|lia]).
  assert (inv_c10 ft (vol_base g) (g_fat_bytes g) (vol_mirrors g) s0 s0) as Hinv0.
  { apply inv_c10_refl. unfold inv_g, s0, store_of. cbn [fs_base fs_size fs_mirrors fs_img]. repeat split. exact Hb. }
  assert (length l < FileM.chain_fuel total)%nat as Hfuel.
  { pose proof (nodup_range_length l total Hnd (fun x Hx => proj1 (Lr x Hx))). unfold FileM.chain_fuel. lia. }
  destruct (fs_free_chain_inv fstore (fat_get ft) (fat_set ft) (val_ft ft) (okc_c10 ft (g_fat_bytes g)) (okv_step ft)
              (inv_c10 ft (vol_base g) (g_fat_bytes g) (vol_mirrors g) s0)
              (law_c10_get ft (vol_base g) (g_fat_bytes g) (vol_mirrors g) s0)
              (law_c10_set ft (vol_base g) (g_fat_bytes g) (vol_mirrors g) Hm s0) (okv_step_free ft)
              s0 fi total c l (FileM.chain_fuel total) Hinv0 Hokc' Hfi Lc Hnd
              (fun x Hx => conj (Hokc' x (proj1 (Lr x Hx))) (conj (proj1 (Lr x Hx)) (proj1 (proj2 (Lr x Hx))))) Hfuel)
    as (t' & fi' & Hr & Hinv' & _).
  unfold vol_free_chain in Hv. apply N.eqb_neq in Hc. rewrite Hc in Hv. fold ft total s0 in Hv. rewrite Hr in Hv.
  cbn [bind] in Hv. injection Hv as <- _.
  apply (store_kept_of_inv im t'); [exact Hinv'|]. intros a _. reflexivity.
Qed.

(* on images, with mirroring (every FAT12/16 volume) *)
Lemma store_kept_fat_kept im im' : g_mirroring g = true -> StoreKept im im' -> FatKept g im im'.
Proof.
  intros Hm [H1 H2]. split.
  - intros E. apply (store_copies_equal_iff g im' Hm). apply H1. apply (store_copies_equal_iff g im Hm). exact E.
  - intros k j Hk Hj. rewrite <- !(store_copy_byte g _ k j Hm). apply H2; [|exact Hj].
    unfold vol_mirrors. rewrite Hm, N2Nat.id. exact Hk.
Qed.
End StepC10.

(* ================================================================ 2. C11 on images: what a call / a run may touch *)
Section Touch.
Variable g : geom.
Hypothesis Hg : fixed_root_geom g.

(* the data clusters a run that starts from [im0] may write: free for the decoder in [im0], or in [own] *)
Definition touchable (im0 : image) (own : list N) (x : N) : Prop := fat_val g im0 x = FFree \/ In x own.

Lemma touchable_dec im0 own x : touchable im0 own x \/ ~ touchable im0 own x.
Proof.
  unfold touchable. destruct (in_dec N.eq_dec x own) as [Hin|Hn]; [left; right; exact Hin|].
  destruct (fat_val g im0 x); [left; left; reflexivity|right; intros [C|C]; [discriminate|contradiction]..].
Qed.

Record Touch (im0 : image) (own : list N) (status : bool) (im : image) : Prop := {
  t_fat : forall x, 2 <= x < g_clusters g + 2 -> ~ touchable im0 own x -> fat_val g im x = fat_val g im0 x;
  t_bytes : forall a, a <> g_status_off g -> ~ in_store_area g a ->
              (a < g_root_off g \/ g_root_off g + root_bytes g <= a) ->
              (forall c, 2 <= c < g_clusters g + 2 -> touchable im0 own c -> ~ in_cluster g c a) ->
              img_get im a = img_get im0 a;
  t_status : status = false -> img_get im (g_status_off g) = img_get im0 (g_status_off g) }.

Lemma touch_refl im0 own status : Touch im0 own status im0.
Proof. constructor; reflexivity. Qed.

(* a cluster that is touchable later was touchable at the start: free clusters outside the touchable set stay as they are *)
Lemma touchable_transfer im0 own status im own' : Touch im0 own status im ->
  (forall x, In x own' -> touchable im0 own x) ->
  forall x, 2 <= x < g_clusters g + 2 -> touchable im own' x -> touchable im0 own x.
Proof.
  intros T Hown x R [Hf|Hin]; [|exact (Hown x Hin)].
  destruct (touchable_dec im0 own x) as [Y|Nt]; [exact Y|]. left. rewrite <- (t_fat _ _ _ _ T x R Nt). exact Hf.
Qed.

(* TRANSITIVITY: a step from [im] that touches [own'] (all of it touchable from [im0]) after a run from [im0] *)
Theorem touch_step im0 own status im own' status' im' :
  Touch im0 own status im -> Touch im own' status' im' -> (forall x, In x own' -> touchable im0 own x) ->
  (status' = true -> status = true) -> Touch im0 own status im'.
Proof.
  intros T1 T2 Hown Hst. pose proof (touchable_transfer im0 own status im own' T1 Hown) as Htr. constructor.
  - intros x R Nt. rewrite <- (t_fat _ _ _ _ T1 x R Nt). apply (t_fat _ _ _ _ T2 x R). intros Y. exact (Nt (Htr x R Y)).
  - intros a Hs Ha Hr Hc. rewrite <- (t_bytes _ _ _ _ T1 a Hs Ha Hr Hc). apply (t_bytes _ _ _ _ T2 a Hs Ha Hr).
    intros c R Y. exact (Hc c R (Htr c R Y)).
  - intros E. rewrite <- (t_status _ _ _ _ T1 E). apply (t_status _ _ _ _ T2). destruct status'; [|reflexivity].
    rewrite (Hst eq_refl) in E. discriminate.
Qed.

Lemma touch_weaken im0 own status im own2 : Touch im0 own status im -> (forall x, In x own -> In x own2) -> Touch im0 own2 true im.
Proof.
  intros T Hsub.
  assert (forall x, touchable im0 own x -> touchable im0 own2 x) as Hw by (intros x [F|I]; [left; exact F|right; exact (Hsub x I)]).
  constructor.
  - intros x R Nt. apply (t_fat _ _ _ _ T x R). intros Y. exact (Nt (Hw x Y)).
  - intros a Hs Ha Hr Hc. apply (t_bytes _ _ _ _ T a Hs Ha Hr). intros c R Y. exact (Hc c R (Hw c Y)).
  - discriminate.
Qed.

Lemma touch_own_mono im0 own status im own2 : Touch im0 own status im -> (forall x, In x own -> In x own2) -> Touch im0 own2 status im.
Proof.
  intros T Hsub.
  assert (forall x, touchable im0 own x -> touchable im0 own2 x) as Hw by (intros x [F|I]; [left; exact F|right; exact (Hsub x I)]).
  constructor.
  - intros x R Nt. apply (t_fat _ _ _ _ T x R). intros Y. exact (Nt (Hw x Y)).
  - intros a Hs Ha Hr Hc. apply (t_bytes _ _ _ _ T a Hs Ha Hr). intros c R Y. exact (Hc c R (Hw c Y)).
  - exact (t_status _ _ _ _ T).
Qed.

Lemma touch_status_mono im0 own im : Touch im0 own false im -> Touch im0 own true im.
Proof. intros T. constructor; [exact (t_fat _ _ _ _ T)|exact (t_bytes _ _ _ _ T)|discriminate]. Qed.

(* ---- the three kinds of single steps *)
(* (a) a call on a file with chain [l] (afterwards [l']): Proofs/VolSession2Proofs.OpFrame *)
Lemma op_touch im im' l l' : OpFrame g im im' l l' ->
  Touch im l false im' /\ forall x, In x l' -> touchable im l x.
Proof.
  intros (A1 & A2 & A3 & A4 & A5).
  assert (forall x, In x l' -> touchable im l x) as Hl' by (intros x Hx; destruct (A1 x Hx) as [I|F]; [right; exact I|left; exact F]).
  split; [|exact Hl']. destruct (status_not_store_cluster g Hg) as [N1 N2]. constructor.
  - intros x R Nt. apply (A3 x R); intros Hin; apply Nt; [right; exact Hin|exact (Hl' x Hin)].
  - intros a _ Ha _ Hc. apply (A2 a Ha). intros c Hin. exact (Hc c (A5 c Hin) (Hl' c Hin)).
  - intros _. apply (A2 _ N1). intros c _. exact (N2 c).
Qed.

(* (b) an operation confined to the root region: create / remove / rename in the root, the entry write-back of flush / drop *)
Lemma root_touch im im' : same_outside_root g im im' -> Touch im [] false im'.
Proof.
  intros Hout. constructor.
  - intros x R _. exact (fat_val_frame g im im' x Hg Hout (in_range_intro g x R)).
  - intros a _ _ Hr _. exact (Hout a Hr).
  - intros _. apply Hout. left. exact (status_below_root g Hg).
Qed.

(* (c) the status write of set_dirty_flag *)
Lemma status_touch im im' : status_only g im im' -> Touch im [] true im'.
Proof.
  intros Hso. constructor.
  - intros x _ _. exact (so_fat_val im im' g Hg Hso x).
  - intros a Hs _ _ _. exact (Hso a Hs).
  - discriminate.
Qed.

Lemma same_touch im im' : img_same im im' -> Touch im [] false im'.
Proof. intros H. apply root_touch. intros o _. apply H. Qed.

(* ---------------------------------------------------------------- through the extracted classifier (Spec/Regions.v) *)
(* the regions a byte that changes may be classified as, against the image BEFORE the call / run: the status byte (only for the
   mounted operations), a FAT copy, the fixed root region, a data cluster that was free for the decoder or is in [own] *)
Definition region_allowed (im : image) (own : list N) (status : bool) (r : region) : Prop :=
  match r with
  | RStatus => status = true
  | RFat k => k < g_fats g
  | RRoot => True
  | RCluster c _ => 2 <= c < g_clusters g + 2 /\ (fat_val g im c = FFree \/ In c own)
  | RBoot | RFsInfo | RTail | ROutside => False
  end.

Definition changes_classified (im im' : image) (own : list N) (status : bool) : Prop :=
  forall m o, img_get im' o <> img_get im o -> region_allowed im own status (classify g im m o).

Lemma status_classified im m : classify g im m (g_status_off g) = RStatus.
Proof.
  pose proof (fixed_root_sane g Hg) as Hs. pose proof (layout_order g) as (L1 & L2). destruct Hs as (Hb & Hsp & Hf).
  apply classify_status_iff; [repeat split; assumption| | |reflexivity].
  - rewrite (g_status_off_fixed g (fg_bits g Hg)). pose proof (fg_bps g Hg). pose proof (fg_reserved g Hg). nia.
  - unfold g_volume_bytes. nia.
Qed.

Lemma cluster_of_offset a : g_cluster_off g 2 <= a -> in_cluster g ((a - g_cluster_off g 2) / g_cluster_size g + 2) a.
Proof.
  intros Ha. pose proof (fg_bps g Hg). pose proof (fg_spc g Hg).
  assert (0 < g_cluster_size g) as Hcs by (unfold g_cluster_size; nia).
  set (q := (a - g_cluster_off g 2) / g_cluster_size g).
  pose proof (N.div_mod (a - g_cluster_off g 2) (g_cluster_size g) ltac:(lia)) as Hdm. fold q in Hdm.
  pose proof (N.mod_lt (a - g_cluster_off g 2) (g_cluster_size g) ltac:(lia)) as Hml.
  unfold in_cluster, g_cluster_off, g_cluster_size in *. replace (q + 2 - 2) with q by lia. replace (2 - 2) with 0 in * by lia. nia.
Qed.

Theorem touch_classified im0 own status im : Touch im0 own status im -> changes_classified im0 im own status.
Proof.
  intros T m o Hne. pose proof (fixed_root_vgeom_ok g Hg) as Hok. pose proof (fixed_root_sane g Hg) as Hsane.
  destruct (N.eq_dec o (g_status_off g)) as [->|Hns].
  { rewrite status_classified. cbn [region_allowed]. destruct status; [reflexivity|]. exfalso. apply Hne. exact (t_status _ _ _ _ T eq_refl). }
  destruct (in_store_area_dec g o) as [Ha|Ha].
  { destruct (store_area_classified g Hok im0 m o Ha) as (k & Hk & ->). exact Hk. }
  destruct (N.lt_ge_cases o (g_root_off g)) as [Lo|Lo].
  { exfalso. apply Hne. apply (t_bytes _ _ _ _ T o Hns Ha (or_introl Lo)). intros c _ _.
    apply (root_not_cluster g c o Hg). lia. }
  destruct (N.lt_ge_cases o (g_root_off g + root_bytes g)) as [Hi|Hi].
  { replace o with (g_root_off g + (o - g_root_off g)) by lia. rewrite classify_root_bytes; [exact I|exact Hsane|].
    pose proof (root_sectors_cover g ltac:(pose proof (fg_bps g Hg); lia)). lia. }
  (* the data area *)
  pose proof (cluster_after_root g 2 ltac:(pose proof (fg_bps g Hg); lia)) as Hc2.
  destruct (N.lt_ge_cases o (g_cluster_off g 2)) as [Lc|Lc].
  { exfalso. apply Hne. apply (t_bytes _ _ _ _ T o Hns Ha (or_intror Hi)). intros c R _ [H1 _].
    assert (g_cluster_off g 2 <= g_cluster_off g c) by (unfold g_cluster_off; nia). lia. }
  set (c0 := (o - g_cluster_off g 2) / g_cluster_size g + 2).
  pose proof (cluster_of_offset o Lc) as Hin0. fold c0 in Hin0.
  assert (2 <= c0) as Hc0 by (unfold c0; apply N.le_add_l).
  destruct (N.lt_ge_cases c0 (g_clusters g + 2)) as [Rc|Rc]; [destruct (touchable_dec im0 own c0) as [Y|Nt]|].
  - replace o with (g_cluster_off g c0 + (o - g_cluster_off g c0)) by (destruct Hin0; lia).
    rewrite classify_cluster_bytes; [split; [lia|exact Y]|exact Hsane|lia|destruct Hin0; lia].
  - exfalso. apply Hne. apply (t_bytes _ _ _ _ T o Hns Ha (or_intror Hi)). intros c R Y Hin.
    destruct (N.eq_dec c c0) as [->|Hd]; [exact (Nt Y)|]. exact (clusters_disjoint g c c0 o ltac:(lia) Hc0 Hd Hin Hin0).
  - exfalso. apply Hne. apply (t_bytes _ _ _ _ T o Hns Ha (or_intror Hi)). intros c R Y Hin.
    destruct (N.eq_dec c c0) as [->|Hd]; [lia|]. exact (clusters_disjoint g c c0 o ltac:(lia) Hc0 Hd Hin Hin0).
Qed.

(* what the classification means byte by byte: nothing at or beyond the end of the volume, nothing in the reserved area but
   the status byte, nothing behind the last whole cluster, no byte of a data cluster that was neither free nor in [own] *)
Theorem classified_facts im im' own status : changes_classified im im' own status ->
  (forall o, g_volume_bytes g <= o -> img_get im' o = img_get im o) /\
  (forall o, o < g_reserved g * g_bps g -> o <> g_status_off g -> img_get im' o = img_get im o) /\
  (status = false -> img_get im' (g_status_off g) = img_get im (g_status_off g)) /\
  (forall c o, 2 <= c < g_clusters g + 2 -> in_cluster g c o -> fat_val g im c <> FFree -> ~ In c own ->
     img_get im' o = img_get im o) /\
  (forall o m, classify g im m o = RTail -> img_get im' o = img_get im o).
Proof.
  intros H. pose proof (fixed_root_sane g Hg) as Hsane.
  assert (forall o, (forall m, ~ region_allowed im own status (classify g im m o)) -> img_get im' o = img_get im o) as Hun.
  { intros o Hno. destruct (N.eq_dec (img_get im' o) (img_get im o)) as [E|Hne]; [exact E|].
    exfalso. exact (Hno (PositiveMap.empty owner) (H _ o Hne)). }
  split; [|split; [|split; [|split]]].
  - intros o Ho. apply Hun. intros m. rewrite (proj1 (classify_outside g im m o) Ho). exact (fun F => F).
  - intros o Ho Hs. apply Hun. intros m. unfold classify.
    destruct (g_volume_bytes g <=? o); [exact (fun F => F)|]. apply N.ltb_lt in Ho. rewrite Ho.
    apply N.eqb_neq in Hs. rewrite Hs. destruct (_ && _); exact (fun F => F).
  - intros ->. apply Hun. intros m. rewrite status_classified. cbn [region_allowed]. discriminate.
  - intros c o R [H1 H2] Hnf Hno. apply Hun. intros m.
    replace o with (g_cluster_off g c + (o - g_cluster_off g c)) by lia.
    rewrite classify_cluster_bytes; [|exact Hsane|exact R|lia]. cbn [region_allowed]. intros (_ & [F|I]); contradiction.
  - intros o m Hm. apply Hun. intros m'.
    assert (classify g im m' o = RTail) as ->; [|exact (fun F => F)].
    unfold classify in *. destruct (g_volume_bytes g <=? o); [discriminate|]. destruct (o <? g_reserved g * g_bps g).
    { destruct (o =? g_status_off g); [discriminate|]. destruct (_ && _); discriminate. }
    destruct (o <? g_root_off g); [discriminate|]. destruct (o <? g_first_data g * g_bps g); [discriminate|].
    destruct (_ <? g_clusters g + 2); [discriminate|reflexivity].
Qed.
End Touch.

(* ================================================================ 3. every operation is a step of this kind *)
(* C11 and C10 together: [im] was reached from [im0] touching only what C11 allows, with the FAT copies / reserved entries kept *)
Definition Confined (g : geom) (im0 : image) (own : list N) (status : bool) (im : image) : Prop :=
  Touch g im0 own status im /\ FatKept g im0 im.

Lemma g_mirroring_fixed g : fixed_root_geom g -> g_mirroring g = true.
Proof. intros Hg. unfold g_mirroring. pose proof (fg_bits g Hg) as H. apply N.eqb_neq in H. rewrite H. reflexivity. Qed.

Lemma fat0_ge g : fixed_root_geom g -> 512 <= g_fat_off g 0.
Proof. intros Hg. unfold g_fat_off. pose proof (fg_bps g Hg). pose proof (fg_reserved g Hg). nia. Qed.

Section Steps.
Variable g : geom.
Hypothesis Hg : fixed_root_geom g.

Lemma confined_refl im own status : Confined g im own status im.
Proof. split; [apply touch_refl|apply fat_kept_refl]. Qed.

Theorem confined_step im0 own status im own' status' im' :
  Confined g im0 own status im -> Confined g im own' status' im' -> (forall x, In x own' -> touchable g im0 own x) ->
  (status' = true -> status = true) -> Confined g im0 own status im'.
Proof.
  intros [T1 F1] [T2 F2] Hown Hst. split; [exact (touch_step g im0 own status im own' status' im' T1 T2 Hown Hst)|].
  exact (fat_kept_trans g _ _ _ F1 F2).
Qed.

(* the reading of [Confined] through the extracted classifier and the extracted copies check *)
Theorem confined_spec im0 own status im : Confined g im0 own status im ->
  changes_classified g im0 im own status /\
  (fat_copies_equal g im0 = true -> fat_copies_equal g im = true) /\ reserved_kept g im0 im.
Proof.
  intros [T F]. split; [exact (touch_classified g Hg im0 own status im T)|]. split; [exact (fat_kept_bool g im0 im F)|exact (proj2 F)].
Qed.

Lemma reserved_fits_fixed : reserved_len (ft_of g) <= g_fat_bytes g.
Proof. exact (reserved_fits g (fixed_root_vgeom_ok g Hg)). Qed.

(* operations that stay below / inside the root region *)
Lemma root_step_confined im im' : same_outside_root g im im' -> Confined g im [] false im'.
Proof.
  intros Hout. split; [exact (root_touch g Hg im im' Hout)|].
  apply fat_kept_same_area; [exact reserved_fits_fixed|]. intros a Ha. apply Hout. left. lia.
Qed.

(* the status write *)
Lemma status_step_confined im im' : status_only g im im' -> Confined g im [] true im'.
Proof.
  intros Hso. split; [exact (status_touch g Hg im im' Hso)|].
  apply fat_kept_same_area; [exact reserved_fits_fixed|]. intros a Ha. apply Hso.
  rewrite (g_status_off_fixed g (fg_bits g Hg)). pose proof (fat0_ge g Hg). lia.
Qed.

(* a wrapped operation: the unwrapped one, then (possibly) the status byte *)
Lemma marked_confined im0 own im1 im2 : Confined g im0 own false im1 -> status_only g im1 im2 -> Confined g im0 own true im2.
Proof.
  intros [T F] Hso. apply (confined_step im0 own true im1 [] true im2).
  - split; [exact (touch_status_mono g im0 own im1 T)|exact F].
  - exact (status_step_confined im1 im2 Hso).
  - intros x [].
  - exact (fun E => E).
Qed.

(* ---------------------------------------------------------------- File::{read,write,seek,truncate} *)
Theorem vol_step_confined im fi h sz l op :
  op_ok op -> VolInv g im fi h sz l ->
  exists im' fi' h' r sz' l', vol_step g (im, fi, h) op = ((im', fi', h'), r) /\
    VolInv g im' fi' h' sz' l' /\ OpFrame g im im' l l' /\
    Confined g im l false im' /\ (forall x, In x l' -> touchable g im l x).
Proof.
  intros Ho V. pose proof (fixed_root_vgeom_ok g Hg) as Hok.
  destruct (vol_step_plus g Hok im fi h sz l op Ho V) as (im1 & fi1 & h1 & r & sz1 & l1 & Hs & V1 & _ & A1 & A2 & A3 & A4 & _).
  assert (OpFrame g im im1 l l1) as F.
  { split; [exact A1|]. split; [exact A2|]. split; [exact A3|]. split; [exact A4|].
    intros c Hc. destruct V1 as (_ & _ & I1 & _). exact (proj1 (inv_range _ _ _ _ _ _ _ _ I1 c Hc)). }
  destruct (op_touch g Hg im im1 l l1 F) as [T Hl1].
  exists im1, fi1, h1, r, sz1, l1. split; [exact Hs|]. split; [exact V1|]. split; [exact F|]. split; [|exact Hl1].
  split; [exact T|]. apply (store_kept_fat_kept g im im1 (g_mirroring_fixed g Hg)).
  exact (vol_step_store_kept g Hok im fi h sz l op im1 fi1 h1 r V Hs).
Qed.

(* the same call, mounted (Model/VolStatus.v vols_step) *)
Theorem vols_step_confined im fi h sz l s op :
  op_ok op -> VolInv g im fi h sz l -> StatInv g im s ->
  exists im' fi' h' s' r sz' l', vols_step g (im, fi, h) s op = ((im', fi', h'), s', r) /\
    VolInv g im' fi' h' sz' l' /\ StatInv g im' s' /\
    Confined g im l true im' /\ (forall x, In x l' -> touchable g im l x) /\ (forall x, In x l' -> 2 <= x < g_clusters g + 2).
Proof.
  intros Ho V Hs.
  destruct (vol_step_confined im fi h sz l op Ho V) as (im1 & fi1 & h1 & r & sz1 & l1 & E1 & V1 & F & C & Hl1).
  destruct (vols_step_spec g Hg im fi h sz l s op Ho V Hs) as (im1' & fi1' & h1' & r' & im2 & s2 & _ & _ & E1' & E2 & MO & _).
  rewrite E1 in E1'. injection E1' as <- <- <- <-. destruct MO as (SO & SI & _).
  destruct (so_vol_inv im1 im2 g Hg SO fi1 h1 sz1 l1 (stat_inv_byte_lt g im2 s2 SI) V1) as [V2 _].
  exists im2, fi1, h1, s2, r, sz1, l1. split; [exact E2|]. split; [exact V2|]. split; [exact SI|].
  split; [exact (marked_confined im l im1 im2 C SO)|]. split; [exact Hl1|]. destruct F as (_ & _ & _ & _ & A5). exact A5.
Qed.

(* ---------------------------------------------------------------- operations inside a chain-backed directory with chain [l]
   (Model/VolChainDir.v): clusters of the directory being updated *)
Theorem chain_frame_confined im im' l : parse_geom im = g -> g_cluster_size g mod 32 = 0 -> chain_ok g l ->
  chain_frame im im' l -> Confined g im l false im'.
Proof.
  intros Hpg Hm [_ Hr] (Hout & _ & _ & _ & Hfv & _). rewrite Hpg in Hout, Hfv. rewrite Forall_forall in Hr.
  destruct (status_not_store_cluster g Hg) as [_ N2].
  assert (forall a, (forall c, In c l -> ~ in_cluster g c a) -> img_get im' a = img_get im a) as Hout'.
  { intros a Ha. apply Hout. intros c Hc. specialize (Ha c Hc). unfold in_cluster in Ha. lia. }
  split.
  - constructor.
    + intros x R _. exact (Hfv x (in_range_intro g x R)).
    + intros a _ _ _ Hc. apply Hout'. intros c Hin. exact (Hc c (Hr c Hin) (or_intror Hin)).
    + intros _. apply Hout'. intros c _. exact (N2 c).
  - apply fat_kept_same_area; [exact reserved_fits_fixed|]. intros a Ha. apply Hout'. intros c _.
    apply (root_not_cluster g c a Hg). lia.
Qed.
End Steps.

(* ---------------------------------------------------------------- the root-directory operations of Model/VolDir.v, every outcome *)
Section RootOps.
Variable upper : N -> list N.
Variable oem : N -> N.

Lemma root_confined_confined im im' : fixed_root_geom (parse_geom im) -> root_confined im im' ->
  Confined (parse_geom im) im [] false im'.
Proof. intros Hg (Hout & _). exact (root_step_confined _ Hg im im' Hout). Qed.

Theorem vol_create_confined2 im name now r im' : fixed_root_geom (parse_geom im) ->
  vol_create_empty_file_root upper oem im name now = (r, im') -> Confined (parse_geom im) im [] false im'.
Proof. intros Hg H. exact (root_confined_confined im im' Hg (vol_create_confined upper oem im name now r im' Hg H)). Qed.

Theorem vol_remove_empty_confined im name r im' : fixed_root_geom (parse_geom im) ->
  vol_remove_empty_file_root upper oem im name = Some (r, im') -> Confined (parse_geom im) im [] false im'.
Proof. intros Hg H. exact (root_confined_confined im im' Hg (vol_remove_confined upper oem im name r im' Hg H)). Qed.

Theorem vol_rename_confined2 im src dst r im' : fixed_root_geom (parse_geom im) ->
  vol_rename_in_root upper oem im src dst = Some (r, im') -> Confined (parse_geom im) im [] false im'.
Proof. intros Hg H. exact (root_confined_confined im im' Hg (vol_rename_confined upper oem im src dst r im' Hg H)). Qed.

(* mounted *)
Theorem vols_create_confined im s name now r im' s' : fixed_root_geom (parse_geom im) -> StatInv (parse_geom im) im s ->
  vols_create_empty_file_root upper oem im s name now = (r, im', s') ->
  Confined (parse_geom im) im [] true im' /\ StatInv (parse_geom im) im' s'.
Proof.
  intros Hg Hs H. destruct (vols_create_spec upper oem im s name now Hg Hs) as (r1 & im1 & im2 & s2 & E1 & E2 & SO & SI & _).
  rewrite H in E2. injection E2 as -> -> ->. split; [|exact SI].
  exact (marked_confined _ Hg im [] im1 im2 (vol_create_confined2 im name now r1 im1 Hg E1) SO).
Qed.

Theorem vols_remove_empty_confined im s name r im' s' : fixed_root_geom (parse_geom im) -> StatInv (parse_geom im) im s ->
  vols_remove_empty_file_root upper oem im s name = Some (r, im', s') ->
  Confined (parse_geom im) im [] true im' /\ StatInv (parse_geom im) im' s'.
Proof.
  intros Hg Hs H. unfold vols_remove_empty_file_root in H.
  destruct (vol_remove_empty_file_root upper oem im name) as [[r1 im1]|] eqn:E1; [|discriminate].
  destruct (vols_remove_empty_spec upper oem im s name r1 im1 Hg Hs E1) as (im2 & s2 & E2 & SO & SI & _).
  unfold vols_remove_empty_file_root in E2. rewrite E1 in E2. rewrite E2 in H. injection H as <- <- <-. split; [|exact SI].
  exact (marked_confined _ Hg im [] im1 im2 (vol_remove_empty_confined im name r1 im1 Hg E1) SO).
Qed.

Theorem vols_rename_confined im s src dst r im' s' : fixed_root_geom (parse_geom im) -> StatInv (parse_geom im) im s ->
  vols_rename_in_root upper oem im s src dst = Some (r, im', s') ->
  Confined (parse_geom im) im [] true im' /\ StatInv (parse_geom im) im' s'.
Proof.
  intros Hg Hs H. unfold vols_rename_in_root in H.
  destruct (vol_rename_in_root upper oem im src dst) as [[r1 im1]|] eqn:E1; [|discriminate].
  destruct (vols_rename_spec upper oem im s src dst r1 im1 Hg Hs E1) as (im2 & s2 & wrote & E2 & (SO & SI & _) & _).
  unfold vols_rename_in_root in E2. rewrite E1 in E2. rewrite E2 in H. injection H as <- <- <-. split; [|exact SI].
  exact (marked_confined _ Hg im [] im1 im2 (vol_rename_confined2 im src dst r1 im1 Hg E1) SO).
Qed.

(* operations inside a chain-backed directory *)
Theorem vol_chain_create_confined2 im l name now r im' : chain_geom (parse_geom im) -> chain_ok (parse_geom im) l ->
  vol_create_empty_file_chain upper oem im l name now = Some (r, im') -> Confined (parse_geom im) im l false im'.
Proof.
  intros Hc Hl H. destruct Hc as [Hg Hm].
  exact (chain_frame_confined _ Hg im im' l eq_refl Hm Hl (vol_chain_create_confined upper oem im l name now r im' (conj Hg Hm) Hl H)).
Qed.
Theorem vol_chain_remove_confined2 im l name r im' : chain_geom (parse_geom im) -> chain_ok (parse_geom im) l ->
  vol_remove_empty_file_chain upper oem im l name = Some (r, im') -> Confined (parse_geom im) im l false im'.
Proof.
  intros Hc Hl H. destruct Hc as [Hg Hm].
  exact (chain_frame_confined _ Hg im im' l eq_refl Hm Hl (vol_chain_remove_confined upper oem im l name r im' (conj Hg Hm) Hl H)).
Qed.
Theorem vol_chain_rename_confined2 im l src dst r im' : chain_geom (parse_geom im) -> chain_ok (parse_geom im) l ->
  vol_rename_in_chain upper oem im l src dst = Some (r, im') -> Confined (parse_geom im) im l false im'.
Proof.
  intros Hc Hl H. destruct Hc as [Hg Hm].
  exact (chain_frame_confined _ Hg im im' l eq_refl Hm Hl (vol_chain_rename_confined upper oem im l src dst r im' (conj Hg Hm) Hl H)).
Qed.
End RootOps.

(* ---------------------------------------------------------------- root_dir().remove(name) of a file that owns clusters
   (Model/VolRemove.v), under the premises of C05_vol_remove_reclaims_all: the FAT copies and the root region; no data byte *)
Section RemoveFile.
Variable upper : N -> list N.
Variable oem : N -> N.

Theorem vol_remove_file_confined fold im fi name ev :
  let g := parse_geom im in
  fixed_root_geom g -> FatProofs.bytes_ok im ->
  fi_inv fstore (val_ft (ft_of g)) (store_of g im) fi (g_clusters g) ->
  Wf.wf_issues fold im = [] -> Forall attrs_sane (root_region_slots g im) ->
  root_lookup upper oem im name = Ok ev -> Lfn.ev_is_dir ev = false ->
  list_eqb (Lfn.ev_raw_name ev) DOT || list_eqb (Lfn.ev_raw_name ev) DOTDOT = false ->
  exists im' fi' l,
    vol_remove_file_root upper oem im fi name = Some (Ok tt, im', fi') /\
    (Lfn.ev_cluster_lo ev = 0 -> l = []) /\
    (Lfn.ev_cluster_lo ev <> 0 -> chain_from g im (Lfn.ev_cluster_lo ev) (Abs.chain_fuel g) = Some l) /\
    Confined g im l false im'.
Proof.
  intros g Hg Hb Hfi Hwf Hsane Hlk Hnd Hdot. pose proof (fixed_root_vgeom_ok g Hg) as Hok.
  destruct (vol_remove_file_decodes upper oem fold im fi name ev Hg Hb Hfi Hwf Hsane Hlk Hnd Hdot)
    as (im' & ns1 & e & l & content & ns2 & Q1 & _ & _ & _ & _ & Q6 & _ & Q8 & Q9 & _ & _ & _ & _ & _ & _ & _
        & Q17 & Q18 & Q19 & _ & _ & _ & _ & _ & Q25 & _).
  fold g in Q9, Q18, Q19, Q25. rewrite Q6 in Q8, Q9.
  exists im', (fi_after_remove fi (e_cluster e) (length l)), l. split; [exact Q1|]. split; [exact Q8|]. split; [exact Q9|].
  destruct (status_not_store_cluster g Hg) as [N1 _].
  split.
  - constructor.
    + intros x R Nt. apply (Q19 x R). intros Hin. apply Nt. right. exact Hin.
    + intros a _ Ha Hr _. exact (Q25 a Ha Hr).
    + intros _. apply (Q25 _ N1). left. exact (status_below_root g Hg).
  - (* the FAT copies: free_cluster_chain, then the slot rewrite below which nothing of the FAT region lies *)
    unfold vol_remove_file_root in Q1. cbv zeta in Q1. fold g in Q1. rewrite Hlk, Hnd in Q1. unfold root_entry_cluster in Q1.
    destruct (vol_free_chain g im fi (Lfn.ev_cluster_lo ev)) as [[im1 fi1]| | |] eqn:Ef; try discriminate.
    injection Q1 as <- _.
    apply (fat_kept_trans g im im1).
    + destruct (N.eq_dec (Lfn.ev_cluster_lo ev) 0) as [Z|NZ].
      * unfold vol_free_chain in Ef. rewrite Z in Ef. cbn [N.eqb] in Ef. injection Ef as <- _. apply fat_kept_refl.
      * apply (store_kept_fat_kept g im im1 (g_mirroring_fixed g Hg)).
        exact (vol_free_chain_store_kept g Hok im fi _ l im1 fi1 Hb Hfi NZ (Q9 NZ) Q17 Ef).
    + apply fat_kept_same_area; [exact (reserved_fits g Hok)|]. intros a Ha. unfold put_root_slots.
      apply img_write_outside. left. lia.
Qed.

(* every other outcome the model answers: nothing is written *)
Theorem vol_remove_file_failed_confined im fi name r im' fi' own :
  vol_remove_file_root upper oem im fi name = Some (r, im', fi') -> r <> Ok tt -> Confined (parse_geom im) im own false im'.
Proof.
  intros H Hr. destruct (vol_remove_file_failed_unchanged upper oem im fi name r im' fi' H Hr) as (-> & _). split; [apply touch_refl|apply fat_kept_refl].
Qed.

(* mounted *)
Theorem vols_remove_file_confined fold im fi s name ev :
  let g := parse_geom im in
  fixed_root_geom g -> FatProofs.bytes_ok im ->
  fi_inv fstore (val_ft (ft_of g)) (store_of g im) fi (g_clusters g) ->
  Wf.wf_issues fold im = [] -> Forall attrs_sane (root_region_slots g im) ->
  root_lookup upper oem im name = Ok ev -> Lfn.ev_is_dir ev = false ->
  list_eqb (Lfn.ev_raw_name ev) DOT || list_eqb (Lfn.ev_raw_name ev) DOTDOT = false ->
  StatInv g im s ->
  exists im' fi' s' l,
    vols_remove_file_root upper oem im fi s name = Some (Ok tt, im', fi', s') /\
    (Lfn.ev_cluster_lo ev = 0 -> l = []) /\
    (Lfn.ev_cluster_lo ev <> 0 -> chain_from g im (Lfn.ev_cluster_lo ev) (Abs.chain_fuel g) = Some l) /\
    Confined g im l true im' /\ StatInv g im' s'.
Proof.
  intros g Hg Hb Hfi Hwf Hsane Hlk Hnd Hdot Hs.
  destruct (vol_remove_file_confined fold im fi name ev Hg Hb Hfi Hwf Hsane Hlk Hnd Hdot) as (im1 & fi1 & l & E1 & L0 & L1 & C).
  destruct (vols_remove_file_spec upper oem fold im fi s name ev Hg Hb Hfi Hwf Hsane Hlk Hnd Hdot Hs)
    as (im1' & fi1' & im2 & s2 & E1' & E2 & SO & SI & _).
  rewrite E1 in E1'. injection E1' as <- <-.
  exists im2, fi1, s2, l. split; [exact E2|]. split; [exact L0|]. split; [exact L1|]. split; [|exact SI].
  exact (marked_confined g Hg im l im1 im2 C SO).
Qed.
End RemoveFile.

(* ================================================================ 4. whole runs: the classification is still taken against the
   image BEFORE the run *)
Section Runs.
Variable g : geom.
Hypothesis Hg : fixed_root_geom g.

(* the chain a step leaves was touchable when the run started *)
Lemma chain_touchable im0 own st im l l' :
  Touch g im0 own st im -> (forall x, In x l -> touchable g im0 own x) -> (forall x, In x l' -> touchable g im l x) ->
  (forall x, In x l' -> 2 <= x < g_clusters g + 2) -> forall x, In x l' -> touchable g im0 own x.
Proof. intros T Hl Hl' R x Hx. exact (touchable_transfer g im0 own st im l T Hl x (R x Hx) (Hl' x Hx)). Qed.

(* ---------------------------------------------------------------- one handle: vol_run (Model/VolFile.v) *)
Theorem vol_run_confined_from im0 own : forall ops im fi h sz l,
  Forall op_ok ops -> VolInv g im fi h sz l -> Confined g im0 own false im -> (forall x, In x l -> touchable g im0 own x) ->
  exists im' fi' h' rs sz' l', vol_run g (im, fi, h) ops = ((im', fi', h'), rs) /\ VolInv g im' fi' h' sz' l' /\
    Confined g im0 own false im' /\ (forall x, In x l' -> touchable g im0 own x).
Proof.
  induction ops as [|o ops IH]; intros im fi h sz l Hf V C Hl.
  - exists im, fi, h, [], sz, l. split; [reflexivity|]. split; [exact V|]. split; [exact C|exact Hl].
  - inversion Hf as [|? ? Ho Hf']; subst.
    destruct (vol_step_confined g Hg im fi h sz l o Ho V) as (im1 & fi1 & h1 & r & sz1 & l1 & Hs & V1 & F & C1 & Hl1).
    assert (Confined g im0 own false im1) as C' by (apply (confined_step g im0 own false im l false im1 C C1 Hl); discriminate).
    assert (forall x, In x l1 -> touchable g im0 own x) as Hl1'.
    { destruct F as (_ & _ & _ & _ & A5). exact (chain_touchable im0 own false im l l1 (proj1 C) Hl Hl1 A5). }
    destruct (IH im1 fi1 h1 sz1 l1 Hf' V1 C' Hl1') as (im2 & fi2 & h2 & rs & sz2 & l2 & Hr & V2 & C2 & Hl2).
    exists im2, fi2, h2, (r :: rs), sz2, l2. split; [cbn [vol_run]; rewrite Hs, Hr; reflexivity|]. split; [exact V2|]. split; [exact C2|exact Hl2].
Qed.

Theorem vol_run_confined ops im fi h sz l : Forall op_ok ops -> VolInv g im fi h sz l ->
  exists im' fi' h' rs sz' l', vol_run g (im, fi, h) ops = ((im', fi', h'), rs) /\ VolInv g im' fi' h' sz' l' /\
    Confined g im l false im' /\ (forall x, In x l' -> touchable g im l x).
Proof.
  intros Hf V. apply (vol_run_confined_from im l ops im fi h sz l Hf V (confined_refl g im l false)). intros x Hx. right. exact Hx.
Qed.

(* ---------------------------------------------------------------- one handle, mounted: vols_run (Model/VolStatus.v) *)
Theorem vols_run_confined_from im0 own : forall ops im fi h sz l s,
  Forall op_ok ops -> VolInv g im fi h sz l -> StatInv g im s -> Confined g im0 own true im ->
  (forall x, In x l -> touchable g im0 own x) ->
  exists im' fi' h' s' rs sz' l', vols_run g (im, fi, h) s ops = ((im', fi', h'), s', rs) /\ VolInv g im' fi' h' sz' l' /\
    StatInv g im' s' /\ Confined g im0 own true im' /\ (forall x, In x l' -> touchable g im0 own x).
Proof.
  induction ops as [|o ops IH]; intros im fi h sz l s Hf V Hs C Hl.
  - exists im, fi, h, s, [], sz, l. split; [reflexivity|]. split; [exact V|]. split; [exact Hs|]. split; [exact C|exact Hl].
  - inversion Hf as [|? ? Ho Hf']; subst.
    destruct (vols_step_confined g Hg im fi h sz l s o Ho V Hs) as (im1 & fi1 & h1 & s1 & r & sz1 & l1 & E & V1 & S1 & C1 & Hl1 & R1).
    assert (Confined g im0 own true im1) as C' by (apply (confined_step g im0 own true im l true im1 C C1 Hl); exact (fun E0 => E0)).
    pose proof (chain_touchable im0 own true im l l1 (proj1 C) Hl Hl1 R1) as Hl1'.
    destruct (IH im1 fi1 h1 sz1 l1 s1 Hf' V1 S1 C' Hl1') as (im2 & fi2 & h2 & s2 & rs & sz2 & l2 & Hr & V2 & S2 & C2 & Hl2).
    exists im2, fi2, h2, s2, (r :: rs), sz2, l2. split; [cbn [vols_run]; rewrite E, Hr; reflexivity|].
    split; [exact V2|]. split; [exact S2|]. split; [exact C2|exact Hl2].
Qed.

Theorem vols_run_confined ops im fi h sz l s : Forall op_ok ops -> VolInv g im fi h sz l -> StatInv g im s ->
  exists im' fi' h' s' rs sz' l', vols_run g (im, fi, h) s ops = ((im', fi', h'), s', rs) /\ VolInv g im' fi' h' sz' l' /\
    StatInv g im' s' /\ Confined g im l true im' /\ (forall x, In x l' -> touchable g im l x).
Proof.
  intros Hf V Hs. apply (vols_run_confined_from im l ops im fi h sz l s Hf V Hs (confined_refl g im l true)). intros x Hx. right. exact Hx.
Qed.

(* ---------------------------------------------------------------- the session machine of Model/VolSession.v (the same calls with
   the time stamps of the handle's editor): its image is the image of vol_run / vols_run *)
Lemma sesss_run_proj acc : forall ops st s st' s' rs, clocks_ok ops -> sesss_run g acc st s ops = (st', s', rs) ->
  vols_run g (s_im st, s_fi st, s_h st) s (map fst ops) = ((s_im st', s_fi st', s_h st'), s', rs).
Proof.
  induction ops as [|[o now] ops IH]; intros st s st' s' rs Hc H.
  - cbn [sesss_run] in H. injection H as <- <- <-. reflexivity.
  - inversion Hc as [|? ? Hnow Hc']; subst. cbn [snd] in Hnow. cbn [sesss_run map fst vols_run] in *.
    unfold sesss_step, sess_step in H. unfold vols_step. cbn [fst snd] in *.
    destruct (vol_step g (s_im st, s_fi st, s_h st) o) as [[[im1 fi1] h1] r] eqn:Hs.
    destruct (stamp_after_ok acc (s_en st) o r now Hnow) as (en1 & E1 & _). rewrite E1 in H. cbn [s_im s_fi s_h s_en] in H.
    destruct (marked g (step_marks (g_cluster_size g) (s_h st) o r) im1 s) as [im2 s2].
    destruct (sesss_run g acc {| s_im := im2; s_fi := fi1; s_h := h1; s_en := en1 |} s2 ops) as [[st3 s3] rs3] eqn:Hr.
    injection H as <- <- <-. pose proof (IH _ _ _ _ _ Hc' Hr) as R. cbn [s_im s_fi s_h] in R. rewrite R. reflexivity.
Qed.

Theorem sess_run_confined acc ops st st' rs sz l : Forall op_ok (map fst ops) -> clocks_ok ops ->
  VolInv g (s_im st) (s_fi st) (s_h st) sz l -> sess_run g acc st ops = (st', rs) ->
  exists sz' l', VolInv g (s_im st') (s_fi st') (s_h st') sz' l' /\ Confined g (s_im st) l false (s_im st') /\
    (forall x, In x l' -> touchable g (s_im st) l x).
Proof.
  intros Hf Hc V H. destruct (sess_run_proj g acc ops st st' rs Hc H) as [P _].
  destruct (vol_run_confined (map fst ops) _ _ _ sz l Hf V) as (im' & fi' & h' & rs' & sz' & l' & E & V' & C & Hl').
  rewrite P in E. injection E as <- <- <- _. exists sz', l'. split; [exact V'|]. split; [exact C|exact Hl'].
Qed.

Theorem sesss_run_confined acc ops st s st' s' rs sz l : Forall op_ok (map fst ops) -> clocks_ok ops ->
  VolInv g (s_im st) (s_fi st) (s_h st) sz l -> StatInv g (s_im st) s -> sesss_run g acc st s ops = (st', s', rs) ->
  exists sz' l', VolInv g (s_im st') (s_fi st') (s_h st') sz' l' /\ StatInv g (s_im st') s' /\
    Confined g (s_im st) l true (s_im st') /\ (forall x, In x l' -> touchable g (s_im st) l x).
Proof.
  intros Hf Hc V Hs H. pose proof (sesss_run_proj acc ops st s st' s' rs Hc H) as P.
  destruct (vols_run_confined (map fst ops) _ _ _ sz l s Hf V Hs) as (im' & fi' & h' & s1 & rs' & sz' & l' & E & V' & S' & C & Hl').
  rewrite P in E. injection E as <- <- <- <- _. exists sz', l'. split; [exact V'|]. split; [exact S'|]. split; [exact C|exact Hl'].
Qed.
End Runs.

(* ---------------------------------------------------------------- several handles on one image (Model/VolSession2.v): calls in any
   interleaving, flushes / drops in any order, create_file while handles are open *)
Section Runs2.
Variable g : geom.
Hypothesis Hg : fixed_root_geom g.
Variable acc : bool.

(* the image of a call on handle [i] is the image of Model/VolFile.vol_step on the shared image with that handle *)
Lemma s2_step_op_vol st i o now x : nth_error (s2_hs st) i = Some x ->
  exists fi' h' r, vol_step g (s2_im st, s2_fi st, sh_h x) o = ((s2_im (fst (s2_step g acc st (SOp i o now))), fi', h'), r).
Proof.
  intros Hx. unfold s2_step. rewrite Hx. unfold sess_step, sstate_of. cbn [s_im s_fi s_h s_en].
  destruct (vol_step g (s2_im st, s2_fi st, sh_h x) o) as [[[im1 fi1] h1] r].
  destruct (stamp_after acc (sh_en x) o r now); cbn [fst s2_put s2_im s_im]; eexists _, _, _; reflexivity.
Qed.

(* every chain of the session lies in what was touchable when the run started *)
Definition chains_touchable (im0 : image) (own : list N) (gs : list ghost) : Prop :=
  forall gh x, In gh gs -> In x (gh_l gh) -> touchable g im0 own x.

Theorem s2_step_confined im0 own st gs es ls op :
  s2op_ok op -> Sess2Inv g st gs es ls -> Confined g im0 own false (s2_im st) -> chains_touchable im0 own gs ->
  exists gs' es', Sess2Inv g (fst (s2_step g acc st op)) gs' es' ls /\
    Confined g im0 own false (s2_im (fst (s2_step g acc st op))) /\ chains_touchable im0 own gs'.
Proof.
  intros Hop Si C Hch. pose proof (fixed_root_vgeom_ok g Hg) as Hok. pose proof (si_len g st gs es ls Si) as HL.
  destruct op as [i o now|i].
  - destruct (nth_error (s2_hs st) i) as [x|] eqn:Hx.
    2:{ unfold s2_step. rewrite Hx. exists gs, es. split; [exact Si|]. split; [exact C|exact Hch]. }
    destruct (nth_error gs i) as [gh|] eqn:Hgh.
    2:{ apply nth_error_None in Hgh. apply nth_error_Some_len in Hx. lia. }
    destruct Hop as [Ho Hnow].
    destruct (s2_op_step g Hg acc st gs es ls i o now x gh Si Ho Hnow Hx Hgh) as (st1 & r & sz1 & l1 & x1 & v1 & Hs & Si1 & _ & _ & F & _).
    destruct (s2_step_op_vol st i o now x Hx) as (fi' & h' & r' & Hv). rewrite Hs in *. cbn [fst] in *.
    destruct (op_touch g Hg (s2_im st) (s2_im st1) (gh_l gh) l1 F) as [T1 Hl1].
    assert (VolInv g (s2_im st) (s2_fi st) (sh_h x) (gh_sz gh) (gh_l gh)) as V.
    { exact (mvol_inv_vol g _ _ _ _ i (sh_h x) (gview gh) (si_mv _ _ _ _ _ Si) (nth_error_map_some sh_h _ _ _ Hx)
               (nth_error_map_some gview _ _ _ Hgh)). }
    assert (FatKept g (s2_im st) (s2_im st1)) as FK.
    { apply (store_kept_fat_kept g _ _ (g_mirroring_fixed g Hg)).
      exact (vol_step_store_kept g Hok _ _ _ _ _ o _ _ _ _ V Hv). }
    assert (forall y, In y (gh_l gh) -> touchable g im0 own y) as Hgl by (intros y Hy; exact (Hch gh y (nth_error_In _ _ Hgh) Hy)).
    eexists _, es. split; [exact Si1|]. split.
    + apply (confined_step g im0 own false (s2_im st) (gh_l gh) false (s2_im st1) C (conj T1 FK) Hgl). discriminate.
    + intros gh' y Hin Hy. destruct (in_list_set _ _ _ _ Hin) as [->|Hold]; [|exact (Hch gh' y Hold Hy)].
      cbn [gh_l] in Hy. destruct F as (_ & _ & _ & _ & A5).
      exact (chain_touchable g im0 own false (s2_im st) (gh_l gh) l1 (proj1 C) Hgl Hl1 A5 y Hy).
  - destruct (nth_error (s2_hs st) i) as [x|] eqn:Hx.
    2:{ unfold s2_step. rewrite Hx. exists gs, es. split; [exact Si|]. split; [exact C|exact Hch]. }
    destruct (nth_error gs i) as [gh|] eqn:Hgh.
    2:{ apply nth_error_None in Hgh. apply nth_error_Some_len in Hx. lia. }
    destruct (s2_flush_step g Hg acc st gs es ls i x gh Si Hx Hgh) as (st1 & e1 & es1 & x1 & Hs & Si1 & Hout & _).
    rewrite Hs. cbn [fst]. eexists _, es1. split; [exact Si1|]. split.
    + apply (confined_step g im0 own false (s2_im st) [] false (s2_im st1) C (root_step_confined g Hg _ _ Hout)); [intros y []|discriminate].
    + intros gh' y Hin Hy. destruct (in_list_set _ _ _ _ Hin) as [->|Hold]; [|exact (Hch gh' y Hold Hy)].
      cbn [gh_l] in Hy. exact (Hch gh y (nth_error_In _ _ Hgh) Hy).
Qed.

Theorem s2_run_confined_from im0 own : forall ops st gs es ls,
  Forall s2op_ok ops -> Sess2Inv g st gs es ls -> Confined g im0 own false (s2_im st) -> chains_touchable im0 own gs ->
  exists gs' es', Sess2Inv g (fst (s2_run g acc st ops)) gs' es' ls /\
    Confined g im0 own false (s2_im (fst (s2_run g acc st ops))) /\ chains_touchable im0 own gs'.
Proof.
  induction ops as [|op ops IH]; intros st gs es ls Hf Si C Hch.
  - exists gs, es. split; [exact Si|]. split; [exact C|exact Hch].
  - inversion Hf as [|? ? Hop Hf']; subst. rewrite s2_run_cons_fst.
    destruct (s2_step_confined im0 own st gs es ls op Hop Si C Hch) as (gs1 & es1 & Si1 & C1 & Hch1).
    exact (IH _ gs1 es1 ls Hf' Si1 C1 Hch1).
Qed.

(* from any state of a session: what the run may touch are the chains the handles have NOW, and clusters that are free NOW *)
Theorem s2_run_confined ops st gs es ls : Forall s2op_ok ops -> Sess2Inv g st gs es ls ->
  exists gs' es', Sess2Inv g (fst (s2_run g acc st ops)) gs' es' ls /\
    Confined g (s2_im st) (concat (map gh_l gs)) false (s2_im (fst (s2_run g acc st ops))).
Proof.
  intros Hf Si.
  destruct (s2_run_confined_from (s2_im st) (concat (map gh_l gs)) ops st gs es ls Hf Si (confined_refl g _ _ _)) as (gs' & es' & Si' & C & _).
  - intros gh x Hin Hx. right. apply in_concat. exists (gh_l gh). split; [apply in_map; exact Hin|exact Hx].
  - exists gs', es'. split; [exact Si'|exact C].
Qed.

(* ... hence after EVERY call of the run, not only at its end *)
Corollary s2_run_confined_every_call ops st gs es ls n : Forall s2op_ok ops -> Sess2Inv g st gs es ls ->
  Confined g (s2_im st) (concat (map gh_l gs)) false (s2_im (fst (s2_run g acc st (firstn n ops)))).
Proof.
  intros Hf Si. destruct (s2_run_confined (firstn n ops) st gs es ls (Forall_firstn_ _ n ops Hf) Si) as (_ & _ & _ & C). exact C.
Qed.

Variable upper : N -> list N.
Variable oem : N -> N.

Theorem s2_create_confined im0 own st gs es ls name now st' :
  TimeProofs.datetime_valid now = true -> Sess2Inv g st gs es ls -> Confined g im0 own false (s2_im st) ->
  chains_touchable im0 own gs -> s2_create upper oem st name now = Some st' ->
  exists gs' es', Sess2Inv g st' gs' es' ls /\ Confined g im0 own false (s2_im st') /\ chains_touchable im0 own gs'.
Proof.
  intros Hnow Si C Hch Hc. destruct (s2_create_some upper oem st name now st' Hc) as (range & im1 & Hv).
  destruct (s2_create_step g Hg upper oem st gs es ls name now range im1 Si Hnow Hv)
    as (st1 & ne & es1 & es2 & x1 & Hc1 & Him & _ & _ & Si1 & Hout & _).
  rewrite Hc in Hc1. injection Hc1 as <-. eexists _, _. split; [exact Si1|]. split.
  - rewrite Him. apply (confined_step g im0 own false (s2_im st) [] false im1 C (root_step_confined g Hg _ _ Hout)); [intros y []|discriminate].
  - intros gh y Hin Hy. apply in_app_or in Hin. destruct Hin as [Hin|[<-|[]]]; [exact (Hch gh y Hin Hy)|destruct Hy].
Qed.

Theorem s2_creates_confined im0 own : forall reqs st gs es ls st',
  Forall (fun q => TimeProofs.datetime_valid (snd q) = true) reqs -> Sess2Inv g st gs es ls ->
  Confined g im0 own false (s2_im st) -> chains_touchable im0 own gs -> s2_creates upper oem st reqs = Some st' ->
  exists gs' es', Sess2Inv g st' gs' es' ls /\ Confined g im0 own false (s2_im st') /\ chains_touchable im0 own gs'.
Proof.
  induction reqs as [|q reqs IH]; intros st gs es ls st' Hv Si C Hch H; cbn [s2_creates] in H.
  - injection H as <-. exists gs, es. split; [exact Si|]. split; [exact C|exact Hch].
  - inversion Hv as [|? ? Hq Hv']; subst. destruct (s2_create upper oem st (fst q) (snd q)) as [st1|] eqn:Hc; [|discriminate].
    destruct (s2_create_confined im0 own st gs es ls (fst q) (snd q) st1 Hq Si C Hch Hc) as (gs1 & es1 & Si1 & C1 & Hch1).
    exact (IH st1 gs1 es1 ls st' Hv' Si1 C1 Hch1 H).
Qed.

(* THE WHOLE SESSION from mount: create_file for every request ; any steps.  Everything it wrote lies in the FAT copies, in the
   root region and in clusters that were FREE before the session ([own] = []) *)
Theorem vol_session2_confined im fi reqs ops st rs :
  parse_geom im = g -> FatProofs.bytes_ok im -> fi_inv fstore (val_ft (ft_of g)) (store_of g im) fi (g_clusters g) ->
  v_root_issues (abs im) = [] ->
  Forall (fun q => TimeProofs.datetime_valid (snd q) = true) reqs -> Forall s2op_ok ops ->
  vol_session2 upper oem acc im fi reqs ops = Some (st, rs) -> Confined g im [] false (s2_im st).
Proof.
  intros Hpg Hb Hfi Hiss Hrq Hops H.
  destruct (abs_scan_of im ltac:(rewrite Hpg; exact (fg_bits g Hg))) as (es0 & ls & iss & Hscan & Habs). rewrite Hpg in Hscan, Habs.
  rewrite Habs in Hiss. cbn [abs_fixed v_root_issues] in Hiss. subst iss.
  pose proof (ri_inv _ _ _ _ _ _ _ (run_inv_start g Hg im fi es0 ls Hpg Hb Hfi Hscan)) as Si0.
  unfold vol_session2 in H. rewrite Hpg in H.
  destruct (s2_creates upper oem {| s2_im := im; s2_fi := fi; s2_hs := [] |} reqs) as [st1|] eqn:Hc; [|discriminate].
  destruct (s2_creates_confined im [] reqs _ [] es0 ls st1 Hrq Si0 (confined_refl g im [] false) ltac:(intros gh x []) Hc)
    as (gs1 & es1 & Si1 & C1 & Hch1).
  destruct (s2_run_confined_from im [] ops st1 gs1 es1 ls Hops Si1 C1 Hch1) as (_ & _ & _ & C2 & _).
  injection H as H. rewrite H in C2. exact C2.
Qed.
End Runs2.

(* ================================================================ 5. C13: a mounted read-only session writes nothing *)
(* File::read and File::seek return the world they were given and leave the handle's DirEntryEditor (first cluster, size,
   dirty) alone - for every argument and every outcome, no premise *)
Lemma file_step_ro_entry (T : Type) get set cs total (w : fworld T) h o w' h' r :
  file_step T get set cs total w h o = (w', h', r) -> read_only_op o = true -> w' = w /\ h_entry h' = h_entry h.
Proof.
  destruct o as [n|d|p|]; try discriminate; unfold file_step; intros H _.
  - unfold file_read in H.
    destruct (if h_off h mod cs =? 0 then next_cluster_of T get (w_fat T w) h else Ok (h_cur h)) as [[cc|]| | |];
      cbn [bind of_res] in H; try (injection H as <- <- _; split; reflexivity).
    destruct (match h_size h with Some s => u32_sub s (h_off h) | None => Ok (cs - h_off h mod cs) end) as [blf| | |];
      cbn [bind of_res] in H; try (injection H as <- <- _; split; reflexivity).
    destruct (N.min (N.min n (cs - h_off h mod cs)) blf =? 0); cbn [of_res] in H; [injection H as <- <- _; split; reflexivity|].
    destruct (len_N _ =? 0); cbn [of_res] in H; injection H as <- <- _; split; reflexivity.
  - unfold file_seek in H.
    match type of H with context [match ?X with Some new => _ | None => Err EInvalidInput end] => destruct X as [new|] end;
      cbn [of_res] in H; [|injection H as <- <- _; split; reflexivity].
    destruct (new =? h_off h); cbn [of_res] in H; [injection H as <- <- _; split; reflexivity|].
    match type of H with context [bind ?X _] => destruct X as [[new' cl]| | |] end;
      cbn [bind of_res] in H; injection H as <- <- _; split; reflexivity.
Qed.

(* the calls of a read-only session on a mounted FAT12/16 volume (access-date updating disabled: [acc] = false) *)
Inductive ro_call :=
| RoLookup (name : str)                          (* path resolution / exists / metadata of a root entry: VolDir.root_lookup *)
| RoOpen (k : N)                                 (* a File on the entry whose short slot is root slot k: VolSession.sess_open *)
| RoCall (i : nat) (o : fop) (now : datetime)    (* a call on handle i, mounted: VolStatus.sesss_step *)
| RoDrop (i : nat).                              (* File::flush / drop of handle i: VolStatus.sesss_flush *)

Inductive ro_out := OLookup (r : res Lfn.entry_view) | OOpen (ok : bool) | OCall (r : fresult) | ONone.

Definition ro_ok (c : ro_call) : bool := match c with RoCall _ o _ => read_only_op o | _ => true end.

(* device image, FS-info latch, open handles, status latch *)
Record rostate := { ro_im : image; ro_fi : fsinfo; ro_hs : list shandle; ro_s : fstat }.

Section ReadOnly.
Variable g : geom.
Variable upper : N -> list N.
Variable oem : N -> N.

Definition ro_sstate (st : rostate) (x : shandle) : sstate :=
  {| s_im := ro_im st; s_fi := ro_fi st; s_h := sh_h x; s_en := sh_en x |}.

Definition ro_step (st : rostate) (c : ro_call) : rostate * ro_out :=
  match c with
  | RoLookup name => (st, OLookup (root_lookup upper oem (ro_im st) name))
  | RoOpen k =>
    match sess_open g (ro_im st) k with
    | Some (h, en) => ({| ro_im := ro_im st; ro_fi := ro_fi st; ro_hs := ro_hs st ++ [{| sh_h := h; sh_en := en |}]; ro_s := ro_s st |},
                       OOpen true)
    | None => (st, OOpen false)
    end
  | RoCall i o now =>
    match nth_error (ro_hs st) i with
    | Some x => let '(s1, s', r) := sesss_step g false (ro_sstate st x) (ro_s st) (o, now) in
                ({| ro_im := s_im s1; ro_fi := s_fi s1; ro_hs := list_set (ro_hs st) i {| sh_h := s_h s1; sh_en := s_en s1 |};
                    ro_s := s' |}, OCall r)
    | None => (st, ONone)
    end
  | RoDrop i =>
    match nth_error (ro_hs st) i with
    | Some x => let '(s1, s') := sesss_flush g (ro_sstate st x) (ro_s st) in
                ({| ro_im := s_im s1; ro_fi := s_fi s1; ro_hs := list_set (ro_hs st) i {| sh_h := s_h s1; sh_en := s_en s1 |};
                    ro_s := s' |}, ONone)
    | None => (st, ONone)
    end
  end.

Fixpoint ro_run (st : rostate) (cs : list ro_call) : rostate * list ro_out :=
  match cs with
  | [] => (st, [])
  | c :: r => let '(st1, o) := ro_step st c in let '(st2, os) := ro_run st1 r in (st2, o :: os)
  end.

(* mount ; the calls ; unmount: the device afterwards *)
Definition ro_session (im : image) (fi : fsinfo) (cs : list ro_call) : image * fsinfo * list ro_out :=
  let '(st, os) := ro_run {| ro_im := im; ro_fi := fi; ro_hs := []; ro_s := vol_mount_status g im |} cs in
  (fst (vol_unmount g (ro_im st) (ro_s st)), ro_fi st, os).

Lemma sess_open_clean im k h en : sess_open g im k = Some (h, en) -> s2_dirty {| sh_h := h; sh_en := en |} = false.
Proof.
  unfold sess_open. destruct (slot_decode (root_slot_bytes g im k)) as [e|]; [|discriminate].
  destruct (sfn_is_dir e); [discriminate|]. intros H. injection H as <- <-. reflexivity.
Qed.

(* one read-only call: image, FS-info latch and status latch are returned as they were; every handle is still clean *)
Lemma ro_step_untouched st c : ro_ok c = true -> Forall (fun x => s2_dirty x = false) (ro_hs st) ->
  let st' := fst (ro_step st c) in
  ro_im st' = ro_im st /\ ro_fi st' = ro_fi st /\ ro_s st' = ro_s st /\ Forall (fun x => s2_dirty x = false) (ro_hs st').
Proof.
  intros Hok Hcl. cbv zeta. destruct c as [name|k|i o now|i]; cbn [ro_step].
  - repeat split. exact Hcl.
  - destruct (sess_open g (ro_im st) k) as [[h en]|] eqn:E; cbn [fst ro_im ro_fi ro_s ro_hs]; [|repeat split; exact Hcl].
    repeat split. apply Forall_app. split; [exact Hcl|]. constructor; [exact (sess_open_clean _ _ _ _ E)|constructor].
  - cbn [ro_ok] in Hok. destruct (nth_error (ro_hs st) i) as [x|] eqn:Hx; [|repeat split; exact Hcl].
    unfold sesss_step, sess_step, ro_sstate. cbn [s_im s_fi s_h s_en fst snd].
    destruct (vol_step g (ro_im st, ro_fi st, sh_h x) o) as [[[im1 fi1] h1] r] eqn:Ev.
    assert (forall r', step_marks (g_cluster_size g) (sh_h x) o r' = false) as Hm by (intros r'; destruct o; try discriminate; reflexivity).
    destruct (vol_step_unmarked g _ _ _ _ _ _ _ _ Ev (Hm r)) as [-> ->].
    assert (h_entry h1 = h_entry (sh_h x)) as He.
    { unfold vol_step in Ev.
      destruct (file_step fstore (fat_get (ft_of g)) (fat_set (ft_of g)) (g_cluster_size g) (g_clusters g)
                  (world_of g (ro_im st) (ro_fi st)) (sh_h x) o) as [[w' h'] r'] eqn:Ef.
      injection Ev as _ _ <- _. exact (proj2 (file_step_ro_entry _ _ _ _ _ _ _ _ _ _ _ Ef Hok)). }
    assert (forall en', (en' = sh_en x \/ en_tdirty en' = en_tdirty (sh_en x)) ->
              Forall (fun y => s2_dirty y = false) (list_set (ro_hs st) i {| sh_h := h1; sh_en := en' |})) as Hclean.
    { intros en' Hen. apply Forall_forall. intros y Hy. rewrite Forall_forall in Hcl.
      destruct (in_list_set _ _ _ _ Hy) as [->|Hold]; [|exact (Hcl y Hold)].
      pose proof (Hcl x (nth_error_In _ _ Hx)) as Dx. unfold s2_dirty, sess_dirty in *.
      cbn [sh_h sh_en]. rewrite He. destruct Hen as [-> | ->]; exact Dx. }
    destruct (stamp_after false (sh_en x) o r now) as [en1| | |] eqn:Es; cbn [fst snd s_im s_fi s_h s_en]; rewrite Hm;
      cbn [marked fst ro_im ro_fi ro_s ro_hs s_im s_fi s_h s_en]; (split; [reflexivity|]); (split; [reflexivity|]); (split; [reflexivity|]);
      try (apply Hclean; left; reflexivity).
    apply Hclean. unfold stamp_after in Es. destruct o as [n|d|p|]; try discriminate.
    + destruct r as [bs| | | | | |]; try (injection Es as <-; left; reflexivity).
      destruct bs as [|b bs]; [injection Es as <-; left; reflexivity|].
      unfold stamp_read in Es. cbn [bind] in Es. injection Es as <-. right. reflexivity.
    + destruct r; injection Es as <-; left; reflexivity.
  - destruct (nth_error (ro_hs st) i) as [x|] eqn:Hx; [|repeat split; exact Hcl].
    unfold sesss_flush. cbn [fst ro_im ro_fi ro_s ro_hs].
    rewrite Forall_forall in Hcl. pose proof (Hcl x (nth_error_In _ _ Hx)) as Dx. unfold s2_dirty in Dx.
    rewrite flush_image_eq. unfold ro_sstate. cbn [s_im s_fi s_h s_en]. rewrite Dx.
    split; [reflexivity|]. split; [reflexivity|]. split; [reflexivity|].
    apply Forall_forall. intros y Hy. destruct (in_list_set _ _ _ _ Hy) as [->|Hold]; [|exact (Hcl y Hold)].
    unfold s2_dirty, sess_dirty, vol_flush_entry, clear_dirty, ro_sstate. cbn [sh_h sh_en s_h s_en h_entry en_tdirty].
    destruct (h_entry (sh_h x)); reflexivity.
Qed.

Theorem ro_run_untouched : forall cs st, forallb ro_ok cs = true -> Forall (fun x => s2_dirty x = false) (ro_hs st) ->
  let st' := fst (ro_run st cs) in ro_im st' = ro_im st /\ ro_fi st' = ro_fi st /\ ro_s st' = ro_s st.
Proof.
  induction cs as [|c cs IH]; intros st Hok Hcl; cbv zeta; [repeat split|].
  cbn [forallb] in Hok. apply andb_true_iff in Hok. destruct Hok as [Hc Hok].
  destruct (ro_step_untouched st c Hc Hcl) as (E1 & E2 & E3 & Hcl1). cbv zeta in *.
  cbn [ro_run]. destruct (ro_step st c) as [st1 o] eqn:Es. cbn [fst] in *.
  specialize (IH st1 Hok Hcl1). cbv zeta in IH. destruct (ro_run st1 cs) as [st2 os]. cbn [fst] in *.
  destruct IH as (I1 & I2 & I3). rewrite I1, I2, I3. repeat split; assumption.
Qed.

(* unmounting a volume on which no marked operation happened writes nothing *)
Lemma unmount_after_mount im : vol_unmount g im (vol_mount_status g im) = (im, vol_mount_status g im).
Proof.
  unfold vol_unmount, vol_set_dirty_flag, vol_mount_status.
  assert (flags_change (st_mount (img_get im (g_status_off g))) false = false) as F.
  { unfold flags_change, st_mount. cbn [mount_byte current]. rewrite orb_false_r.
    destruct (sf_decode (img_get im (g_status_off g))) as [[|] [|]]; reflexivity. }
  rewrite F. rewrite (flags_change_false _ _ F). reflexivity.
Qed.

(* THE READ-ONLY SESSION: mount ; lookups, opens, reads and seeks on any handles with any arguments and outcomes, drops of
   handles, in any order ; unmount - the image is the image that was mounted (the same value: not one write, not even of an
   equal byte), the FS-info latch is unchanged.  No premise on the image: any geometry, any content. *)
Theorem ro_session_no_write im fi cs : forallb ro_ok cs = true ->
  fst (fst (ro_session im fi cs)) = im /\ snd (fst (ro_session im fi cs)) = fi.
Proof.
  intros Hok. unfold ro_session.
  pose proof (ro_run_untouched cs {| ro_im := im; ro_fi := fi; ro_hs := []; ro_s := vol_mount_status g im |} Hok (Forall_nil _)) as H.
  cbv zeta in H. destruct (ro_run _ cs) as [st os]. cbn [fst snd ro_im ro_fi ro_s] in *. destruct H as (-> & -> & ->).
  rewrite unmount_after_mount. split; reflexivity.
Qed.
End ReadOnly.

(* ================================================================ 6. further operations and runs *)
(* ---------------------------------------------------------------- the file layer alone with several handles (mvol_run) *)
Section RunsM.
Variable g : geom.
Hypothesis Hg : fixed_root_geom g.

Definition mchains_touchable (im0 : image) (own : list N) (gs : list (N * list N)) : Prop :=
  forall gh x, In gh gs -> In x (snd gh) -> touchable g im0 own x.

Theorem mvol_run_confined_from im0 own : forall ops im fi hs gs,
  Forall (fun io => op_ok (snd io)) ops -> MVolInv g im fi hs gs -> Confined g im0 own false im -> mchains_touchable im0 own gs ->
  exists im' fi' hs' rs gs', mvol_run g (im, fi, hs) ops = ((im', fi', hs'), rs) /\ MVolInv g im' fi' hs' gs' /\
    Confined g im0 own false im' /\ mchains_touchable im0 own gs'.
Proof.
  pose proof (fixed_root_vgeom_ok g Hg) as Hok.
  induction ops as [|[i o] ops IH]; intros im fi hs gs Hf M C Hch.
  - exists im, fi, hs, [], gs. split; [reflexivity|]. split; [exact M|]. split; [exact C|exact Hch].
  - inversion Hf as [|? ? Ho Hf']; subst. cbn [snd] in Ho. cbn [mvol_run]. unfold mvol_step. cbn [fst snd].
    destruct (nth_error hs i) as [h|] eqn:Eh.
    2:{ destruct (IH im fi hs gs Hf' M C Hch) as (im' & fi' & hs' & rs & gs' & Hr & H). exists im', fi', hs', rs, gs'.
        rewrite Hr. split; [reflexivity|exact H]. }
    pose proof M as (_ & _ & ML & _).
    destruct (nth_error gs i) as [gh|] eqn:Eg.
    2:{ apply nth_error_None in Eg. apply nth_error_Some_len in Eh. lia. }
    pose proof (mvol_inv_vol g im fi hs gs i h gh M Eh Eg) as V.
    destruct (mvol_step_refines g Hok im fi hs gs i h gh o Ho M Eh Eg)
      as (im1 & fi1 & h1 & r & sz1 & l1 & Hs & M1 & _ & _ & A1 & A2 & A3 & A4 & _ & V1).
    assert (OpFrame g im im1 (snd gh) l1) as F.
    { split; [exact A1|]. split; [exact A2|]. split; [exact A3|]. split; [exact A4|].
      intros c Hc. destruct V1 as (_ & _ & I1 & _). exact (proj1 (inv_range _ _ _ _ _ _ _ _ I1 c Hc)). }
    destruct (op_touch g Hg im im1 (snd gh) l1 F) as [T1 Hl1].
    assert (FatKept g im im1) as FK.
    { apply (store_kept_fat_kept g _ _ (g_mirroring_fixed g Hg)). exact (vol_step_store_kept g Hok _ _ _ _ _ o _ _ _ _ V Hs). }
    assert (forall y, In y (snd gh) -> touchable g im0 own y) as Hgl by (intros y Hy; exact (Hch gh y (nth_error_In _ _ Eg) Hy)).
    assert (Confined g im0 own false im1) as C1
      by (apply (confined_step g im0 own false im (snd gh) false im1 C (conj T1 FK) Hgl); discriminate).
    assert (mchains_touchable im0 own (list_set gs i (sz1, l1))) as Hch1.
    { intros gh' y Hin Hy. destruct (in_list_set _ _ _ _ Hin) as [->|Hold]; [|exact (Hch gh' y Hold Hy)].
      cbn [snd] in Hy. destruct F as (_ & _ & _ & _ & A5).
      exact (chain_touchable g im0 own false im (snd gh) l1 (proj1 C) Hgl Hl1 A5 y Hy). }
    destruct (IH im1 fi1 (list_set hs i h1) (list_set gs i (sz1, l1)) Hf' M1 C1 Hch1) as (im2 & fi2 & hs2 & rs & gs2 & Hr & M2 & C2 & Hch2).
    exists im2, fi2, hs2, (r :: rs), gs2. rewrite Hs, Hr. split; [reflexivity|]. split; [exact M2|]. split; [exact C2|exact Hch2].
Qed.

Theorem mvol_run_confined ops im fi hs gs : Forall (fun io => op_ok (snd io)) ops -> MVolInv g im fi hs gs ->
  exists im' fi' hs' rs gs', mvol_run g (im, fi, hs) ops = ((im', fi', hs'), rs) /\ MVolInv g im' fi' hs' gs' /\
    Confined g im (concat (map snd gs)) false im'.
Proof.
  intros Hf M.
  destruct (mvol_run_confined_from im (concat (map snd gs)) ops im fi hs gs Hf M (confined_refl g _ _ _)) as (im' & fi' & hs' & rs & gs' & E & M' & C & _).
  - intros gh x Hin Hx. right. apply in_concat. exists (snd gh). split; [apply in_map; exact Hin|exact Hx].
  - exists im', fi', hs', rs, gs'. split; [exact E|]. split; [exact M'|exact C].
Qed.
End RunsM.

(* ---------------------------------------------------------------- set_dirty_flag / unmount; create_file with its handle and
   File::flush / drop of Model/VolSession.v, unmounted and mounted *)
Section Mounted.
Variable g : geom.
Hypothesis Hg : fixed_root_geom g.

Theorem set_dirty_flag_confined im s d : StatInv g im s ->
  Confined g im [] true (fst (vol_set_dirty_flag g im s d)) /\ StatInv g (fst (vol_set_dirty_flag g im s d)) (snd (vol_set_dirty_flag g im s d)).
Proof.
  intros Hs. destruct (vol_set_dirty_flag_spec g im s d Hs) as (SO & SI & _). cbv zeta in *.
  split; [exact (status_step_confined g Hg _ _ SO)|exact SI].
Qed.

Theorem unmount_confined im s : StatInv g im s -> Confined g im [] true (fst (vol_unmount g im s)).
Proof. intros Hs. exact (proj1 (set_dirty_flag_confined im s false Hs)). Qed.

Lemma sess_entry_name h en : se_name (sess_entry g h en) = se_name (en_data en).
Proof. unfold sess_entry. destruct (h_entry h) as [ed|]; [|reflexivity]. destruct (ed_size ed); reflexivity. Qed.

(* File::flush / drop: 32 bytes at the remembered position of the short slot, iff the editor is dirty.  For a handle whose
   slot lies in the root region and whose record carries an 11-byte name (every handle sess_open / create_file returns) *)
Theorem vol_flush_confined st : (N.to_nat (en_slot (s_en st)) < root_slot_count g)%nat ->
  length (se_name (en_data (s_en st))) = 11%nat -> Confined g (s_im st) [] false (s_im (vol_flush_entry g st)).
Proof.
  intros Hk Hn. apply (root_step_confined g Hg). intros o Ho. rewrite flush_image_eq.
  destruct (sess_dirty (s_h st) (s_en st)); [|reflexivity].
  assert (length (se_name (sess_entry g (s_h st) (s_en st))) = 11%nat) as Hn' by (rewrite sess_entry_name; exact Hn).
  destruct (sfn_encode_readback _ Hn') as (_ & _ & _ & RL). cbv zeta in RL.
  apply img_write_outside. rewrite RL. unfold root_slot_off, root_bytes, root_slot_count in *. lia.
Qed.

Theorem sesss_flush_confined st s : (N.to_nat (en_slot (s_en st)) < root_slot_count g)%nat ->
  length (se_name (en_data (s_en st))) = 11%nat ->
  Confined g (s_im st) [] false (s_im (fst (sesss_flush g st s))) /\ snd (sesss_flush g st s) = s.
Proof. intros Hk Hn. split; [exact (vol_flush_confined st Hk Hn)|reflexivity]. Qed.

Variable upper : N -> list N.
Variable oem : N -> N.

Lemma sess_create_image im fi name now st : sess_create upper oem im fi name now = Some st ->
  exists range, vol_create_empty_file_root upper oem im name now = (Ok (Some range), s_im st).
Proof.
  unfold sess_create. destruct (vol_create_empty_file_root upper oem im name now) as [r im1].
  destruct r as [[[p q]|]| | |]; try discriminate.
  destruct (sess_open (parse_geom im1) im1 (q - 1)) as [[h en]|]; [|discriminate]. intros H. injection H as <-. exists (p, q). reflexivity.
Qed.

Theorem sess_create_confined im fi name now st : parse_geom im = g -> sess_create upper oem im fi name now = Some st ->
  Confined g im [] false (s_im st).
Proof.
  intros Hpg H. destruct (sess_create_image im fi name now st H) as (range & E). rewrite <- Hpg.
  apply (vol_create_confined2 upper oem im name now _ _ ltac:(rewrite Hpg; exact Hg) E).
Qed.

Theorem sesss_create_confined im fi s name now st s' : parse_geom im = g -> StatInv g im s ->
  sesss_create upper oem im fi s name now = Some (st, s') -> Confined g im [] true (s_im st) /\ StatInv g (s_im st) s'.
Proof.
  intros Hpg Hs H. unfold sesss_create in H. destruct (sess_create upper oem im fi name now) as [st1|] eqn:E; [|discriminate].
  rewrite Hpg in H. destruct (marked g true (s_im st1) s) as [im2 s2] eqn:M. injection H as <- <-. cbn [s_im].
  pose proof (sess_create_confined im fi name now st1 Hpg E) as C1.
  assert (MarkedOK g im (s_im st1) im2 s s2 true) as (SO & SI & _).
  { apply (marked_ok g true im (s_im st1) s im2 s2 Hs); [|discriminate|exact M].
    destruct (proj1 C1) as [_ _ Tst]. exact (Tst eq_refl). }
  split; [exact (marked_confined g Hg im [] (s_im st1) im2 C1 SO)|exact SI].
Qed.
End Mounted.

(* ================================================================ 7. the ownership map of Spec/Regions.v never names a free cluster *)
(* [Regions.owners (abs im)] is the map the judge classifies every device write with.  Every cluster it assigns to a file or
   directory lies on a chain the decoder walked, and such a chain has no free entry: so a cluster that is free for the decoder
   is classified [RCluster c OFree] - "a data cluster that was free before the call" in the classifier's own words. *)
Section Owners.
Variable g : geom.
Variable im : image.

Definition nonfree (c : N) : Prop := fat_val g im c <> FFree.

Lemma chain_from_nonfree : forall fuel c l, chain_from g im c fuel = Some l -> Forall nonfree l.
Proof.
  induction fuel as [|fuel IH]; intros c l H; cbn [chain_from] in H; [discriminate|].
  destruct (in_range g c); [|discriminate]. destruct (fat_val g im c) as [| | |n] eqn:E; try discriminate.
  - injection H as <-. constructor; [unfold nonfree; rewrite E; discriminate|constructor].
  - destruct (chain_from g im n fuel) as [l'|] eqn:E2; [|discriminate]. injection H as <-.
    constructor; [unfold nonfree; rewrite E; discriminate|exact (IH _ _ E2)].
Qed.

Definition map_nonfree (m : PositiveMap.t owner) : Prop :=
  forall c ow, PositiveMap.find (N.succ_pos c) m = Some ow -> nonfree c.

Lemma own_list_nonfree : forall l o m, Forall nonfree l -> map_nonfree m -> map_nonfree (own_list l o m).
Proof.
  induction l as [|a l IH]; intros o m Hl Hm; cbn [own_list]; [exact Hm|]. inversion Hl as [|? ? Ha Hl']; subst.
  apply IH; [exact Hl'|]. intros c ow Hf. destruct (N.eq_dec c a) as [->|Hne]; [exact Ha|].
  rewrite PositiveMap.gso in Hf; [exact (Hm c ow Hf)|]. intros E. apply Hne. exact (succ_pos_inj _ _ E).
Qed.

(* every cluster on a chain of the node *)
Definition node_chains_nonfree (n : node) : Prop := forall c, In c (concat (Wf.node_chains n)) -> nonfree c.

Fixpoint node_owners_nonfree (n : node) {struct n} : forall m, node_chains_nonfree n -> map_nonfree m -> map_nonfree (node_owners n m).
Proof.
  destruct n as [e ch content|e ch children iss labels|e]; intros m Hn Hm.
  - destruct ch as [l|]; cbn [node_owners]; [|exact Hm]. apply own_list_nonfree; [|exact Hm].
    apply Forall_forall. intros c Hc. apply Hn. cbn [Wf.node_chains concat]. rewrite app_nil_r. exact Hc.
  - cbn [node_owners]. unfold node_chains_nonfree in Hn. rewrite VolRemoveProofs.node_chains_dir, concat_app in Hn.
    set (m1 := match ch with Some l => own_list l (ODir (e_cluster e)) m | None => m end).
    assert (map_nonfree m1) as Hm1.
    { unfold m1. destruct ch as [l|]; [|exact Hm]. apply own_list_nonfree; [|exact Hm].
      apply Forall_forall. intros c Hc. apply Hn. apply in_or_app. left. cbn [concat]. rewrite app_nil_r. exact Hc. }
    assert (forall c, In c (concat (Wf.nodes_chains children)) -> nonfree c) as Hch
      by (intros c Hc; apply Hn; apply in_or_app; right; exact Hc).
    clear Hn. generalize dependent m1. induction children as [|c cr IH]; intros m1 Hm1; [exact Hm1|].
    apply IH.
    + intros x Hx. apply Hch. rewrite nodes_chains_cons, concat_app. apply in_or_app. right. exact Hx.
    + apply (node_owners_nonfree c); [|exact Hm1].
      intros x Hx. apply Hch. rewrite nodes_chains_cons, concat_app. apply in_or_app. left. exact Hx.
  - exact Hm.
Qed.

Lemma decode_entries_nonfree_chains : forall d es n, In n (decode_entries g im d es) -> node_chains_nonfree n.
Proof.
  induction d as [|d IH]; intros es n Hin.
  - cbn [decode_entries] in Hin. apply in_map_iff in Hin. destruct Hin as (e & <- & _). intros c [].
  - rewrite decode_entries_S in Hin. apply in_map_iff in Hin. destruct Hin as (e & <- & _). unfold node_of.
    destruct (e_is_dot e); [intros c []|].
    destruct (e_is_dir e).
    + destruct (if e_cluster e =? 0 then None else chain_from g im (e_cluster e) (chain_fuel g)) as [l|] eqn:Ech; [|intros c []].
      destruct (dir_scan (slots_of (chain_bytes g im l)) 0 [] (g_bits g =? 32)) as [[ces labels] iss].
      unfold node_chains_nonfree. rewrite VolRemoveProofs.node_chains_dir, concat_app. intros c Hc. apply in_app_or in Hc.
      destruct Hc as [Hc|Hc].
      * cbn [concat] in Hc. rewrite app_nil_r in Hc. destruct (e_cluster e =? 0); [discriminate|].
        pose proof (chain_from_nonfree _ _ _ Ech) as F. rewrite Forall_forall in F. exact (F c Hc).
      * apply in_concat in Hc. destruct Hc as (x & Hx & Hcx). unfold Wf.nodes_chains in Hx. apply in_flat_map in Hx.
        destruct Hx as (n' & Hn' & Hx). apply (IH ces n' Hn' c). apply in_concat. exists x. split; assumption.
    + destruct (if e_cluster e =? 0 then None else chain_from g im (e_cluster e) (chain_fuel g)) as [l|] eqn:Ech; [|intros c []].
      intros c Hc. cbn [Wf.node_chains concat] in Hc. rewrite app_nil_r in Hc. destruct (e_cluster e =? 0); [discriminate|].
      pose proof (chain_from_nonfree _ _ _ Ech) as F. rewrite Forall_forall in F. exact (F c Hc).
Qed.

Lemma fold_owners_nonfree : forall ns m, (forall n, In n ns -> node_chains_nonfree n) -> map_nonfree m ->
  map_nonfree (fold_left (fun m n => node_owners n m) ns m).
Proof.
  induction ns as [|n ns IH]; intros m Hn Hm; cbn [fold_left]; [exact Hm|].
  apply IH; [intros n' Hn'; apply Hn; right; exact Hn'|]. apply node_owners_nonfree; [apply Hn; left; reflexivity|exact Hm].
Qed.
End Owners.

Theorem owners_nonfree im : map_nonfree (parse_geom im) im (owners (abs im)).
Proof.
  set (g := parse_geom im). unfold owners, abs. fold g.
  destruct (root_slots g im) as [rc ss] eqn:Er. destruct (dir_scan ss 0 [] (g_bits g =? 32)) as [[es labels] iss].
  cbn [v_root_chain v_root v_geom]. apply fold_owners_nonfree.
  - intros n Hn. exact (decode_entries_nonfree_chains g im _ _ n Hn).
  - destruct rc as [l|]; [|intros c ow Hf; rewrite PositiveMap.gempty in Hf; discriminate].
    apply own_list_nonfree; [|intros c ow Hf; rewrite PositiveMap.gempty in Hf; discriminate].
    unfold root_slots in Er. destruct (g_bits g =? 32); [|discriminate].
    destruct (chain_from g im (g_root_cluster g) (chain_fuel g)) as [l'|] eqn:Ec; [|discriminate]. injection Er as <- _.
    exact (chain_from_nonfree g im _ _ _ Ec).
Qed.

Theorem free_cluster_owner im c : fat_val (parse_geom im) im c = FFree ->
  cluster_owner (parse_geom im) im (owners (abs im)) c = OFree.
Proof.
  intros Hf. unfold cluster_owner. destruct (PositiveMap.find (N.succ_pos c) (owners (abs im))) as [ow|] eqn:E.
  - exfalso. exact (owners_nonfree im c ow E Hf).
  - rewrite Hf. reflexivity.
Qed.

(* the classification with the judge's own ownership map: a changed data byte is in a cluster the map calls FREE, or in a
   cluster of [own] *)
Definition region_allowed_owner (g : geom) (im : image) (own : list N) (status : bool) (r : region) : Prop :=
  match r with
  | RStatus => status = true
  | RFat k => k < g_fats g
  | RRoot => True
  | RCluster c ow => 2 <= c < g_clusters g + 2 /\ ((ow = OFree /\ fat_val g im c = FFree) \/ In c own)
  | RBoot | RFsInfo | RTail | ROutside => False
  end.

Theorem classified_owner g im im' own status : fixed_root_geom g -> parse_geom im = g ->
  changes_classified g im im' own status ->
  forall o, img_get im' o <> img_get im o -> region_allowed_owner g im own status (classify g im (owners (abs im)) o).
Proof.
  intros Hg Hpg H o Hne. specialize (H (owners (abs im)) o Hne).
  destruct (classify g im (owners (abs im)) o) as [| | |k| |c ow| |] eqn:E; cbn [region_allowed region_allowed_owner] in *; try exact H.
  destruct H as [R [F|I]]; split; try exact R; [left|right; exact I]. split; [|exact F].
  destruct (classify_cluster_inv g im _ o c ow (fixed_root_sane g Hg) E) as (_ & _ & _ & ->).
  subst g. exact (free_cluster_owner im c F).
Qed.

(* ================================================================ 8. any sane geometry (all three widths, mirroring on or off):
   a file call writes no byte of the FAT REGION outside the store's copies - with mirroring disabled (FAT32 ext_flags bit 7)
   every copy but the active one keeps every byte *)
Section Inactive.
Variable g : geom.
Hypothesis Hok : vgeom_ok g.

Theorem vol_step_fat_region_frame im fi h sz l op im' fi' h' r :
  op_ok op -> VolInv g im fi h sz l -> vol_step g (im, fi, h) op = ((im', fi', h'), r) ->
  forall a, a < g_root_off g -> ~ in_store_area g a -> img_get im' a = img_get im a.
Proof.
  intros Ho V Hs a Ha Hns.
  destruct (vol_step_refines g Hok im fi h sz l op Ho V) as (im1 & fi1 & h1 & r1 & sz1 & l1 & Hs1 & V1 & _ & _ & Hfr & _).
  rewrite Hs in Hs1. injection Hs1 as <- <- <- <-. apply (Hfr a Hns). intros c Hc [H1 _].
  destruct V1 as (_ & _ & I1 & _). pose proof (proj1 (proj1 (inv_range _ _ _ _ _ _ _ _ I1 c Hc))) as R.
  pose proof (layout_order g) as (_ & L2). unfold g_cluster_off in H1. nia.
Qed.

Theorem vol_step_inactive_copies_untouched im fi h sz l op im' fi' h' r :
  op_ok op -> VolInv g im fi h sz l -> vol_step g (im, fi, h) op = ((im', fi', h'), r) ->
  g_mirroring g = false -> forall k j, k < g_fats g -> k <> g_active g -> j < g_fat_bytes g ->
  img_get im' (g_fat_off g k + j) = img_get im (g_fat_off g k + j).
Proof.
  intros Ho V Hs Hm k j Hk Hne Hj. apply (vol_step_fat_region_frame im fi h sz l op im' fi' h' r Ho V Hs).
  - unfold g_fat_off, g_root_off, g_fat_bytes in *. assert (k * g_spf g + g_spf g <= g_fats g * g_spf g) by nia. nia.
  - unfold in_store_area, vol_base, vol_mirrors. rewrite Hm. change (N.of_nat 1) with 1.
    unfold g_fat_off, g_fat_bytes in *. intros [H1 H2].
    destruct (N.lt_trichotomy k (g_active g)) as [L|[E|L]]; [|contradiction|].
    + assert (k * g_spf g + g_spf g <= g_active g * g_spf g) by nia. nia.
    + assert (g_active g * g_spf g + g_spf g <= k * g_spf g) by nia. nia.
Qed.
End Inactive.

(* ================================================================ 9. the statements read per property *)
(* C11: everything [Confined] says about the bytes, in one place *)
Theorem confined_means g im0 own status im : fixed_root_geom g -> Confined g im0 own status im ->
  (* through the extracted classifier, asked with ANY ownership map, against the image before the call / run *)
  (forall m o, img_get im o <> img_get im0 o ->
     match classify g im0 m o with
     | RStatus => status = true
     | RFat k => k < g_fats g
     | RRoot => True
     | RCluster c _ => 2 <= c < g_clusters g + 2 /\ (fat_val g im0 c = FFree \/ In c own)
     | RBoot | RFsInfo | RTail | ROutside => False
     end) /\
  (* byte by byte *)
  (forall o, g_volume_bytes g <= o -> img_get im o = img_get im0 o) /\
  (forall o, o < g_reserved g * g_bps g -> o <> g_status_off g -> img_get im o = img_get im0 o) /\
  (status = false -> img_get im (g_status_off g) = img_get im0 (g_status_off g)) /\
  (forall c o, 2 <= c < g_clusters g + 2 -> in_cluster g c o -> fat_val g im0 c <> FFree -> ~ In c own ->
     img_get im o = img_get im0 o) /\
  (forall o m, classify g im0 m o = RTail -> img_get im o = img_get im0 o) /\
  (* every cluster that was neither free nor in [own] keeps its FAT value *)
  (forall x, 2 <= x < g_clusters g + 2 -> fat_val g im0 x <> FFree -> ~ In x own -> fat_val g im x = fat_val g im0 x) /\
  (* C10 *)
  (fat_copies_equal g im0 = true -> fat_copies_equal g im = true) /\ reserved_kept g im0 im.
Proof.
  intros Hg C. destruct (confined_spec g Hg im0 own status im C) as (Hc & Hce & Hres).
  destruct (classified_facts g Hg im0 im own status Hc) as (F1 & F2 & F3 & F4 & F5).
  split; [exact Hc|]. split; [exact F1|]. split; [exact F2|]. split; [exact F3|]. split; [exact F4|]. split; [exact F5|].
  split; [|split; [exact Hce|exact Hres]].
  intros x R Hnf Hno. apply (t_fat _ _ _ _ _ (proj1 C) x R). intros [F|I]; contradiction.
Qed.

Lemma confined_fat_kept g im0 own status im : Confined g im0 own status im -> FatKept g im0 im.
Proof. intros [_ F]. exact F. Qed.

Theorem fat_kept_means g im im' : FatKept g im im' <->
  ((forall k j, k < g_fats g -> j < g_fat_bytes g -> img_get im (g_fat_off g k + j) = img_get im (g_fat_off g 0 + j)) ->
   (forall k j, k < g_fats g -> j < g_fat_bytes g -> img_get im' (g_fat_off g k + j) = img_get im' (g_fat_off g 0 + j))) /\
  (forall k j, k < g_fats g -> j < reserved_len (ft_of g) -> img_get im' (g_fat_off g k + j) = img_get im (g_fat_off g k + j)).
Proof. split; exact (fun H => H). Qed.

(* C10, function by function (the [FatKept] half of the [Confined] theorems above) *)
Section FatKeptOps.
Variable upper : N -> list N.
Variable oem : N -> N.

Theorem vol_create_fat_kept im name now r im' : fixed_root_geom (parse_geom im) ->
  vol_create_empty_file_root upper oem im name now = (r, im') -> FatKept (parse_geom im) im im'.
Proof. intros Hg H. exact (confined_fat_kept _ _ _ _ _ (vol_create_confined2 upper oem im name now r im' Hg H)). Qed.

Theorem vol_remove_empty_fat_kept im name r im' : fixed_root_geom (parse_geom im) ->
  vol_remove_empty_file_root upper oem im name = Some (r, im') -> FatKept (parse_geom im) im im'.
Proof. intros Hg H. exact (confined_fat_kept _ _ _ _ _ (vol_remove_empty_confined upper oem im name r im' Hg H)). Qed.

Theorem vol_rename_fat_kept im src dst r im' : fixed_root_geom (parse_geom im) ->
  vol_rename_in_root upper oem im src dst = Some (r, im') -> FatKept (parse_geom im) im im'.
Proof. intros Hg H. exact (confined_fat_kept _ _ _ _ _ (vol_rename_confined2 upper oem im src dst r im' Hg H)). Qed.

Theorem vol_step_fat_kept g im fi h sz l op im' fi' h' r : fixed_root_geom g ->
  VolInv g im fi h sz l -> vol_step g (im, fi, h) op = ((im', fi', h'), r) -> FatKept g im im'.
Proof.
  intros Hg V Hs. apply (store_kept_fat_kept g im im' (g_mirroring_fixed g Hg)).
  exact (vol_step_store_kept g (fixed_root_vgeom_ok g Hg) im fi h sz l op im' fi' h' r V Hs).
Qed.

Theorem s2_run_fat_kept g acc ops st gs es ls : fixed_root_geom g -> Forall s2op_ok ops -> Sess2Inv g st gs es ls ->
  FatKept g (s2_im st) (s2_im (fst (s2_run g acc st ops))).
Proof. intros Hg Hf Si. destruct (s2_run_confined g Hg acc ops st gs es ls Hf Si) as (_ & _ & _ & C). exact (proj2 C). Qed.

Theorem vol_session2_fat_kept g acc im fi reqs ops st rs : fixed_root_geom g ->
  parse_geom im = g -> FatProofs.bytes_ok im -> fi_inv fstore (val_ft (ft_of g)) (store_of g im) fi (g_clusters g) ->
  v_root_issues (abs im) = [] ->
  Forall (fun q => TimeProofs.datetime_valid (snd q) = true) reqs -> Forall s2op_ok ops ->
  vol_session2 upper oem acc im fi reqs ops = Some (st, rs) -> FatKept g im (s2_im st).
Proof.
  intros Hg Hpg Hb Hfi Hiss Hrq Hops H.
  exact (proj2 (vol_session2_confined g Hg acc upper oem im fi reqs ops st rs Hpg Hb Hfi Hiss Hrq Hops H)).
Qed.
End FatKeptOps.

(* ================================================================ 10. one mounted session of Model/VolStatus.v as ONE statement:
   mount ; create_file ; any calls on the handle ; flush (or drop) ; unmount *)
Section MountedSession.
Variable g : geom.
Hypothesis Hg : fixed_root_geom g.
Variable upper : N -> list N.
Variable oem : N -> N.

Lemma sesss_run_ident acc : forall ops st s st' s' rs, clocks_ok ops -> sesss_run g acc st s ops = (st', s', rs) ->
  same_ident (s_en st) (s_en st').
Proof.
  induction ops as [|[o now] ops IH]; intros st s st' s' rs Hc H.
  - cbn [sesss_run] in H. injection H as <- _ _. apply same_ident_refl.
  - inversion Hc as [|? ? Hnow Hc']; subst. cbn [snd] in Hnow. cbn [sesss_run] in H.
    unfold sesss_step, sess_step in H. cbn [fst snd] in H.
    destruct (vol_step g (s_im st, s_fi st, s_h st) o) as [[[im1 fi1] h1] r] eqn:Hs.
    destruct (stamp_after_ok acc (s_en st) o r now Hnow) as (en1 & E1 & S1). rewrite E1 in H. cbn [s_im s_fi s_h s_en] in H.
    destruct (marked g (step_marks (g_cluster_size g) (s_h st) o r) im1 s) as [im2 s2].
    destruct (sesss_run g acc {| s_im := im2; s_fi := fi1; s_h := h1; s_en := en1 |} s2 ops) as [[st3 s3] rs3] eqn:Hr.
    injection H as <- _ _. pose proof (IH _ _ _ _ _ Hc' Hr) as S2. cbn [s_en] in S2. exact (same_ident_trans _ _ _ S1 S2).
Qed.

Theorem mounted_session_confined acc im fi name now ops st1 s1 st2 s2 rs :
  parse_geom im = g -> FatProofs.bytes_ok im -> fi_inv fstore (val_ft (ft_of g)) (store_of g im) fi (g_clusters g) ->
  v_root_issues (abs im) = [] -> TimeProofs.datetime_valid now = true -> Forall op_ok (map fst ops) -> clocks_ok ops ->
  sesss_create upper oem im fi (vol_mount_status g im) name now = Some (st1, s1) ->
  sesss_run g acc st1 s1 ops = (st2, s2, rs) ->
  let st3 := fst (sesss_flush g st2 s2) in
  let im4 := fst (vol_unmount g (s_im st3) s2) in
  (* after every call of the session the image differs from the mounted one only in the status byte, the FAT copies, the root
     region and clusters that were free at mount; FAT copies and reserved entries are kept *)
  Confined g im [] true (s_im st1) /\ Confined g im [] true (s_im st2) /\ Confined g im [] true (s_im st3) /\
  Confined g im [] true im4.
Proof.
  intros Hpg Hb Hfi Hiss Hnow Hops Hclk Hcr Hrun. cbv zeta. pose proof (fixed_root_vgeom_ok g Hg) as Hok.
  pose proof (mount_stat_inv g im (Hb _)) as Hs0.
  destruct (sesss_create_confined g Hg upper oem im fi _ name now st1 s1 Hpg Hs0 Hcr) as [C1 S1].
  (* the created handle, through the several-files invariant with one handle *)
  unfold sesss_create in Hcr. destruct (sess_create upper oem im fi name now) as [stc|] eqn:Ec; [|discriminate].
  rewrite Hpg in Hcr. destruct (marked g true (s_im stc) (vol_mount_status g im)) as [im2 s1'] eqn:M. injection Hcr as <- <-.
  cbn [s_im s_fi s_h s_en] in *.
  destruct (abs_scan_of im ltac:(rewrite Hpg; exact (fg_bits g Hg))) as (es0 & ls & iss & Hscan & Habs). rewrite Hpg in Hscan, Habs.
  rewrite Habs in Hiss. cbn [abs_fixed v_root_issues] in Hiss. subst iss.
  pose proof (ri_inv _ _ _ _ _ _ _ (run_inv_start g Hg im fi es0 ls Hpg Hb Hfi Hscan)) as Si0.
  set (x := {| sh_h := s_h stc; sh_en := s_en stc |}).
  assert (s2_create upper oem {| s2_im := im; s2_fi := fi; s2_hs := [] |} name now =
          Some {| s2_im := s_im stc; s2_fi := s_fi stc; s2_hs := [x] |}) as Hc2.
  { unfold s2_create. cbn [s2_im s2_fi s2_hs]. rewrite Ec. reflexivity. }
  destruct (s2_create_some upper oem _ name now _ Hc2) as (range & im1 & Hv).
  destruct (s2_create_step g Hg upper oem _ [] es0 ls name now range im1 Si0 Hnow Hv)
    as (st' & ne & es1 & es2 & x' & Hc1 & _ & _ & _ & Si1 & _).
  rewrite Hc2 in Hc1. injection Hc1 as <-. cbn [app] in Si1.
  set (gh0 := {| gh_sz := 0; gh_l := []; gh_e := ne |}) in *.
  assert (VolInv g (s_im stc) (s_fi stc) (s_h stc) 0 []) as Vc.
  { exact (mvol_inv_vol g _ _ _ _ 0%nat (s_h stc) (gview gh0) (si_mv _ _ _ _ _ Si1) eq_refl eq_refl). }
  destruct (si_ent _ _ _ _ _ Si1 0%nat x gh0 eq_refl eq_refl) as [_ Eslot _ _ _ Elegal _ _ _].
  cbn [gh0 gh_e hslot sh_en] in Eslot, Elegal. unfold hslot, x in Eslot. cbn [sh_en] in Eslot.
  destruct (dir_scan_rewrite false _ 0 [] _ _ _ (si_scan _ _ _ _ _ Si1) es1 ne es2 eq_refl) as (k & pk & Hk & Hslot & _).
  rewrite (proj1 (proj1 (root_region_shape g _))) in Hk. rewrite N.add_0_l in Hslot.
  assert (MarkedOK g im (s_im stc) im2 (vol_mount_status g im) s1' true) as (SO & _).
  { apply (marked_ok g true im (s_im stc) _ im2 s1' Hs0); [|discriminate|exact M].
    destruct (proj1 (sess_create_confined g Hg upper oem im fi name now stc Hpg Ec)) as [_ _ Tst]. exact (Tst eq_refl). }
  destruct (so_vol_inv (s_im stc) im2 g Hg SO (s_fi stc) (s_h stc) 0 [] (stat_inv_byte_lt g im2 s1' S1) Vc) as [V1 _].
  (* the calls *)
  destruct (sesss_run_confined g Hg acc ops {| s_im := im2; s_fi := s_fi stc; s_h := s_h stc; s_en := s_en stc |} s1' st2 s2 rs 0 [] Hops Hclk V1 S1 Hrun) as (sz2 & l2 & V2 & S2 & C2 & _).
  cbn [s_im] in C2.
  assert (Confined g im [] true (s_im st2)) as C2' by (apply (confined_step g im [] true im2 [] true (s_im st2) C1 C2); [intros y []|exact (fun E => E)]).
  (* the flush *)
  destruct (sesss_run_ident acc ops {| s_im := im2; s_fi := s_fi stc; s_h := s_h stc; s_en := s_en stc |} s1' st2 s2 rs Hclk Hrun) as (Il & In_ & _). cbn [s_en] in Il, In_.
  assert (Confined g (s_im st2) [] false (s_im (vol_flush_entry g st2))) as C3.
  { apply (vol_flush_confined g Hg st2); [rewrite Il, <- Eslot, Hslot; lia|rewrite In_; exact (sfn_legal_len _ Elegal)]. }
  assert (Confined g im [] true (s_im (vol_flush_entry g st2))) as C3'
    by (apply (confined_step g im [] true (s_im st2) [] false _ C2' C3); [intros y []|discriminate]).
  split; [exact C1|]. split; [exact C2'|]. unfold sesss_flush. cbn [fst]. split; [exact C3'|].
  (* unmount *)
  assert (StatInv g (s_im (vol_flush_entry g st2)) s2) as S3.
  { destruct S2 as (A & B & D). split; [|split; assumption]. rewrite <- A. destruct (proj1 C3) as [_ _ Tst]. exact (Tst eq_refl). }
  apply (confined_step g im [] true _ [] true _ C3' (unmount_confined g Hg _ s2 S3)); [intros y []|exact (fun E => E)].
Qed.
End MountedSession.

(* the classification of [Confined] with the judge's own ownership map of the image before *)
Theorem confined_classified_owner g im0 own status im : fixed_root_geom g -> parse_geom im0 = g -> Confined g im0 own status im ->
  forall o, img_get im o <> img_get im0 o ->
    match classify g im0 (owners (abs im0)) o with
    | RStatus => status = true
    | RFat k => k < g_fats g
    | RRoot => True
    | RCluster c ow => 2 <= c < g_clusters g + 2 /\ ((ow = OFree /\ fat_val g im0 c = FFree) \/ In c own)
    | RBoot | RFsInfo | RTail | ROutside => False
    end.
Proof.
  intros Hg Hpg C. exact (classified_owner g im0 im own status Hg Hpg (touch_classified g Hg im0 own status im (proj1 C))).
Qed.

(* C10 for remove of a file with clusters and for the mounted session *)
Theorem vol_remove_file_fat_kept upper oem fold im fi name ev :
  let g := parse_geom im in
  fixed_root_geom g -> FatProofs.bytes_ok im ->
  fi_inv fstore (val_ft (ft_of g)) (store_of g im) fi (g_clusters g) ->
  Wf.wf_issues fold im = [] -> Forall attrs_sane (root_region_slots g im) ->
  root_lookup upper oem im name = Ok ev -> Lfn.ev_is_dir ev = false ->
  list_eqb (Lfn.ev_raw_name ev) DOT || list_eqb (Lfn.ev_raw_name ev) DOTDOT = false ->
  exists im' fi', vol_remove_file_root upper oem im fi name = Some (Ok tt, im', fi') /\ FatKept g im im'.
Proof.
  intros g Hg Hb Hfi Hwf Hsane Hlk Hnd Hdot.
  destruct (vol_remove_file_confined upper oem fold im fi name ev Hg Hb Hfi Hwf Hsane Hlk Hnd Hdot) as (im' & fi' & l & E & _ & _ & C).
  exists im', fi'. split; [exact E|exact (proj2 C)].
Qed.

Theorem mounted_session_fat_kept g upper oem acc im fi name now ops st1 s1 st2 s2 rs :
  fixed_root_geom g -> parse_geom im = g -> FatProofs.bytes_ok im ->
  fi_inv fstore (val_ft (ft_of g)) (store_of g im) fi (g_clusters g) ->
  v_root_issues (abs im) = [] -> TimeProofs.datetime_valid now = true -> Forall op_ok (map fst ops) -> clocks_ok ops ->
  sesss_create upper oem im fi (vol_mount_status g im) name now = Some (st1, s1) ->
  sesss_run g acc st1 s1 ops = (st2, s2, rs) ->
  FatKept g im (s_im st1) /\ FatKept g im (s_im st2) /\ FatKept g im (s_im (fst (sesss_flush g st2 s2))) /\
  FatKept g im (fst (vol_unmount g (s_im (fst (sesss_flush g st2 s2))) s2)).
Proof.
  intros Hg Hpg Hb Hfi Hiss Hnow Hops Hclk Hcr Hrun.
  destruct (mounted_session_confined g Hg upper oem acc im fi name now ops st1 s1 st2 s2 rs Hpg Hb Hfi Hiss Hnow Hops Hclk Hcr Hrun)
    as (C1 & C2 & C3 & C4).
  split; [exact (proj2 C1)|]. split; [exact (proj2 C2)|]. split; [exact (proj2 C3)|exact (proj2 C4)].
Qed.

(* ================================================================ 11. the one-file session of Model/VolSession.v (unmounted):
   create_file ; any calls ; flush *)
Section Session1.
Variable g : geom.
Hypothesis Hg : fixed_root_geom g.
Variable upper : N -> list N.
Variable oem : N -> N.

(* the handle create_file returns: an empty file in the invariant of the file layer, bound to a short slot of the root region,
   its record carrying an 11-byte name *)
Lemma sess_create_handle im fi name now stc :
  parse_geom im = g -> FatProofs.bytes_ok im -> fi_inv fstore (val_ft (ft_of g)) (store_of g im) fi (g_clusters g) ->
  v_root_issues (abs im) = [] -> TimeProofs.datetime_valid now = true -> sess_create upper oem im fi name now = Some stc ->
  VolInv g (s_im stc) (s_fi stc) (s_h stc) 0 [] /\ (N.to_nat (en_slot (s_en stc)) < root_slot_count g)%nat /\
  length (se_name (en_data (s_en stc))) = 11%nat.
Proof.
  intros Hpg Hb Hfi Hiss Hnow Ec.
  destruct (abs_scan_of im ltac:(rewrite Hpg; exact (fg_bits g Hg))) as (es0 & ls & iss & Hscan & Habs). rewrite Hpg in Hscan, Habs.
  rewrite Habs in Hiss. cbn [abs_fixed v_root_issues] in Hiss. subst iss.
  pose proof (ri_inv _ _ _ _ _ _ _ (run_inv_start g Hg im fi es0 ls Hpg Hb Hfi Hscan)) as Si0.
  set (x := {| sh_h := s_h stc; sh_en := s_en stc |}).
  assert (s2_create upper oem {| s2_im := im; s2_fi := fi; s2_hs := [] |} name now =
          Some {| s2_im := s_im stc; s2_fi := s_fi stc; s2_hs := [x] |}) as Hc2.
  { unfold s2_create. cbn [s2_im s2_fi s2_hs]. rewrite Ec. reflexivity. }
  destruct (s2_create_some upper oem _ name now _ Hc2) as (range & im1 & Hv).
  destruct (s2_create_step g Hg upper oem _ [] es0 ls name now range im1 Si0 Hnow Hv)
    as (st' & ne & es1 & es2 & x' & Hc1 & _ & _ & _ & Si1 & _).
  rewrite Hc2 in Hc1. injection Hc1 as <-. cbn [app] in Si1.
  set (gh0 := {| gh_sz := 0; gh_l := []; gh_e := ne |}) in *.
  split; [exact (mvol_inv_vol g _ _ _ _ 0%nat (s_h stc) (gview gh0) (si_mv _ _ _ _ _ Si1) eq_refl eq_refl)|].
  destruct (si_ent _ _ _ _ _ Si1 0%nat x gh0 eq_refl eq_refl) as [_ Eslot _ _ _ Elegal _ _ _].
  cbn [gh0 gh_e hslot sh_en] in Eslot, Elegal. unfold hslot, x in Eslot. cbn [sh_en] in Eslot.
  destruct (dir_scan_rewrite false _ 0 [] _ _ _ (si_scan _ _ _ _ _ Si1) es1 ne es2 eq_refl) as (k & pk & Hk & Hslot & _).
  rewrite (proj1 (proj1 (root_region_shape g _))) in Hk. rewrite N.add_0_l in Hslot.
  split; [rewrite <- Eslot, Hslot; lia|exact (sfn_legal_len _ Elegal)].
Qed.

Theorem vol_session_confined acc im fi name now ops st rs :
  parse_geom im = g -> FatProofs.bytes_ok im -> fi_inv fstore (val_ft (ft_of g)) (store_of g im) fi (g_clusters g) ->
  v_root_issues (abs im) = [] -> TimeProofs.datetime_valid now = true -> Forall op_ok (map fst ops) -> clocks_ok ops ->
  vol_session upper oem acc im fi name now ops = Some (st, rs) -> Confined g im [] false (s_im st).
Proof.
  intros Hpg Hb Hfi Hiss Hnow Hops Hclk H. unfold vol_session in H.
  destruct (sess_create upper oem im fi name now) as [stc|] eqn:Ec; [|discriminate].
  destruct (sess_create_handle im fi name now stc Hpg Hb Hfi Hiss Hnow Ec) as (Vc & Hk & Hn).
  pose proof (sess_create_confined g Hg upper oem im fi name now stc Hpg Ec) as C1.
  assert (parse_geom (s_im stc) = g) as Hpg1.
  { destruct (sess_create_image upper oem im fi name now stc Ec) as (range & E).
    destruct (vol_create_confined upper oem im name now _ _ ltac:(rewrite Hpg; exact Hg) E) as (_ & _ & P & _). rewrite P. exact Hpg. }
  rewrite Hpg1 in H. destruct (sess_run g acc stc ops) as [st2 rs2] eqn:Er. injection H as <- <-.
  destruct (sess_run_confined g Hg acc ops stc st2 rs2 0 [] Hops Hclk Vc Er) as (sz2 & l2 & _ & C2 & _).
  destruct (sess_run_proj g acc ops stc st2 rs2 Hclk Er) as (_ & (Il & In_ & _)).
  assert (Confined g (s_im st2) [] false (s_im (vol_flush_entry g st2))) as C3
    by (apply (vol_flush_confined g Hg st2); [rewrite Il; exact Hk|rewrite In_; exact Hn]).
  apply (confined_step g im [] false (s_im st2) [] false _); [|exact C3|intros y []|discriminate].
  apply (confined_step g im [] false (s_im stc) [] false _ C1 C2); [intros y []|discriminate].
Qed.
End Session1.
