(* VolDirTreeExamples.v: Model/VolDirTree.v evaluated on a concrete image - the freshly formatted 64-sector FAT12 volume of
   Proofs/VolDirFormat.v (16 root entries at 1536..2047, label in slot 0, two FAT copies at 512 and 1024, 60 clusters of 512
   bytes from 2048 on, device fill byte 0xD1).  Every fact is COMPUTED from the model and the independent decoder (Spec/Abs.v,
   Spec/Wf.v).  These are the statements of the (partial) C01 / C03 / C05 directory theorems on one volume. *)
From Coq Require Import NArith List Bool.
From FatVerif Require Import Model.Base Model.Str Model.Time Model.Table Model.Fat Model.Name Model.DirSlots
  Model.VolDir Model.VolFile Model.VolChainDir Model.VolRemove Model.VolDirTree Spec.Image Spec.Abs
  Proofs.VolDirFormat Proofs.VolSessionExamples.
From FatVerif Require Spec.Wf Model.Lfn.
Import ListNotations.
Open Scope N_scope.

Definition ex_dname : str := [83; 117; 98; 32; 68; 105; 114].          (* "Sub Dir": a long-name slot and the alias SUBDIR~1 *)
Definition ex_g : geom := parse_geom ex_vol_im.

Definition ex_mk := vol_create_dir_root ex_U ex_O ex_vol_im ex_sfi ex_dname ex_vol_now.
Definition ex_mk_im : image := fst (snd ex_mk).
Definition ex_mk_fi : fsinfo := snd (snd ex_mk).

(* create_dir succeeds: root slots 1 .. 2, cluster 2 (free before); the latch: hint 3, no cached count on this FAT12 mount *)
Example ex_mkdir_outcome :
  fst ex_mk = Ok (Some (1, 3, 2)) /\ fat_val ex_g ex_vol_im 2 = FFree /\ fat_val ex_g ex_mk_im 2 = FEoc /\
  ex_mk_fi = {| fi_free := None; fi_next := Some 3; fi_dirty := true |}.
Proof. vm_compute. repeat split; reflexivity. Qed.

(* it decodes: exactly one node, a directory with chain [2], no scan issue, no label inside, whose only children are the "." entry
   (slot 0, cluster 2 = the directory itself, DIRECTORY) and the ".." entry (slot 1, cluster 0 = the root, DIRECTORY) - the C03
   dot clauses; the entry carries the long name, the generated alias, the DIRECTORY attribute, size 0, the stamps of the clock *)
Example ex_mkdir_decodes :
  v_root (abs ex_vol_im) = [] /\
  match v_root (abs ex_mk_im) with
  | [NDir e (Some [2]) [NDot d1; NDot d2] [] []] =>
    e_lfn e = [83; 117; 98; 32; 68; 105; 114] /\ e_sfn e = [83; 85; 66; 68; 73; 82; 126; 49; 32; 32; 32] /\
    e_attr e = 16 /\ e_cluster e = 2 /\ e_size e = 0 /\ e_first_slot e = 1 /\ e_sfn_slot e = 2 /\
    e_sfn d1 = DOT /\ e_cluster d1 = 2 /\ e_attr d1 = 16 /\ e_sfn_slot d1 = 0 /\ e_lfn d1 = [] /\
    e_sfn d2 = DOTDOT /\ e_cluster d2 = 0 /\ e_attr d2 = 16 /\ e_sfn_slot d2 = 1 /\ e_lfn d2 = [] /\
    (e_ctime e, e_cdate e, e_mtime e, e_mdate e) = (e_ctime d1, e_cdate d1, e_mtime d1, e_mdate d1) /\
    (e_ctime e, e_cdate e, e_mtime e, e_mdate e) = (e_ctime d2, e_cdate d2, e_mtime d2, e_mdate d2)
  | _ => False
  end /\
  v_root_issues (abs ex_mk_im) = [] /\ v_labels (abs ex_mk_im) = v_labels (abs ex_vol_im) /\
  v_geom (abs ex_mk_im) = v_geom (abs ex_vol_im) /\ v_status (abs ex_mk_im) = v_status (abs ex_vol_im).
Proof. vm_compute. repeat split; reflexivity. Qed.

(* accounting and well-formedness: one cluster fewer is free; no issue before, none after *)
Example ex_mkdir_accounting :
  count_free ex_g ex_vol_im = 60 /\ count_free ex_g ex_mk_im = 59 /\
  Wf.wf_issues (fun l => l) ex_vol_im = [] /\ Wf.wf_issues (fun l => l) ex_mk_im = [].
Proof. vm_compute. repeat split; reflexivity. Qed.

(* frame: bytes below the first FAT copy, between the end of the second copy's first 6 bytes .. (the FAT entry of cluster 2 lives in
   bytes 3..4 of each copy), the label slot, the root slots behind the entry and every cluster but 2 are as before; the new
   cluster is zero behind its two entries *)
Example ex_mkdir_frame :
  img_read ex_mk_im 0 515 = img_read ex_vol_im 0 515 /\ img_read ex_mk_im 517 510 = img_read ex_vol_im 517 510 /\
  img_read ex_mk_im 1029 539 = img_read ex_vol_im 1029 539 /\
  img_read ex_mk_im 1632 416 = img_read ex_vol_im 1632 416 /\
  img_read ex_mk_im 2560 (59 * 512) = img_read ex_vol_im 2560 (59 * 512) /\
  img_read ex_mk_im 515 2 = [255; 15] /\ img_read ex_mk_im 1027 2 = [255; 15] /\
  img_read ex_mk_im (2048 + 64) 448 = repeat 0 448 /\ img_read ex_vol_im 2048 512 = repeat 209 512.
Proof. vm_compute. repeat split; reflexivity. Qed.

(* create_dir of the same name in another spelling: the directory exists - Ok, nothing written *)
Example ex_mkdir_exists :
  vol_create_dir_root ex_U ex_O ex_mk_im ex_mk_fi [115; 117; 98; 32; 100; 105; 114] ex_clock2 = (Ok None, (ex_mk_im, ex_mk_fi)).
Proof. vm_compute. reflexivity. Qed.

(* remove of the empty directory: node gone, cluster 2 free again, 60 free, no issue; the image DECODES as the formatted one and
   differs from it exactly in: root slots 1, 2 (0xE5 + the old bytes), the zeroed cluster *)
Definition ex_rd := vol_remove_dir_root ex_U ex_O ex_mk_im ex_mk_fi ex_dname.
Definition ex_rd_im : image := match ex_rd with Some (_, im, _) => im | None => img_empty 0 end.

Example ex_rmdir_empty :
  match ex_rd with
  | Some (r, im', fi') =>
    r = Ok tt /\ abs im' = abs ex_vol_im /\ fat_val ex_g im' 2 = FFree /\ count_free ex_g im' = 60 /\
    Wf.wf_issues (fun l => l) im' = [] /\ fi' = ex_mk_fi /\
    img_read im' 0 1568 = img_read ex_vol_im 0 1568 /\ img_read im' 1632 416 = img_read ex_vol_im 1632 416 /\
    img_read im' 2560 (59 * 512) = img_read ex_vol_im 2560 (59 * 512) /\
    map (fun k => img_get im' (1536 + 32 * k)) [0; 1; 2; 3] = [65; 229; 229; 0] /\
    img_read im' 2048 2 = [46; 32] /\ img_read im' (2048 + 64) 448 = repeat 0 448
  | None => False
  end.
Proof. vm_compute. repeat split; reflexivity. Qed.

(* a file inside the directory (Model/VolChainDir.v, chain [2]) makes it non-empty: DirectoryIsNotEmpty, the image and the latch are
   handed back untouched; after the file is removed again (a deleted slot stays inside) the directory is empty for the code *)
Definition ex_inner : str := [105; 110].
Definition ex_ne_im : image :=
  match vol_create_empty_file_chain ex_U ex_O ex_mk_im [2] ex_inner ex_vol_now with Some (_, im) => im | None => img_empty 0 end.
Definition ex_ne2_im : image :=
  match vol_remove_empty_file_chain ex_U ex_O ex_ne_im [2] ex_inner with Some (_, im) => im | None => img_empty 0 end.

Example ex_rmdir_nonempty :
  vol_create_empty_file_chain ex_U ex_O ex_mk_im [2] ex_inner ex_vol_now = Some (Ok (Some (2, 4)), ex_ne_im) /\
  dir_is_empty ex_O ex_g ex_ne_im [2] = Ok false /\
  vol_remove_dir_root ex_U ex_O ex_ne_im ex_mk_fi ex_dname = Some (Err EDirectoryIsNotEmpty, ex_ne_im, ex_mk_fi).
Proof. vm_compute. repeat split; reflexivity. Qed.

Example ex_rmdir_emptied :
  vol_remove_empty_file_chain ex_U ex_O ex_ne_im [2] ex_inner = Some (Ok tt, ex_ne2_im) /\
  img_get ex_ne2_im (2048 + 64) = 229 /\ dir_is_empty ex_O ex_g ex_ne2_im [2] = Ok true /\
  match vol_remove_dir_root ex_U ex_O ex_ne2_im ex_mk_fi ex_dname with
  | Some (r, im', _) => r = Ok tt /\ abs im' = abs ex_vol_im /\ count_free ex_g im' = 60 /\ Wf.wf_issues (fun l => l) im' = []
  | None => False
  end.
Proof. vm_compute. repeat split; reflexivity. Qed.

(* the special entries and unknown names: "." inside ... is not reachable from the root; an unknown name is NotFound *)
Example ex_rmdir_not_found :
  vol_remove_dir_root ex_U ex_O ex_mk_im ex_mk_fi [120] = Some (Err ENotFound, ex_mk_im, ex_mk_fi).
Proof. vm_compute. reflexivity. Qed.

(* D25 on the image.  A 200-character name needs 16 long-name slots + 1: more than the 15 free slots of this root.  The code
   allocates cluster 2 FIRST (FAT entry, zero fill, latch), then write_entry answers NotEnoughSpace before it writes a slot, and
   the cluster is given back.  What holds afterwards, exactly: the error is NotEnoughSpace; every byte of the device outside
   cluster 2 is as before - in particular both FAT copies and the root -, so the image decodes as before, 60 clusters are free;
   cluster 2 itself stays ZEROED (it held the fill byte); the latch keeps the moved hint (next = 3) and is marked dirty. *)
Definition ex_long : str := repeat 113 200.
Definition ex_full := vol_create_dir_root ex_U ex_O ex_vol_im ex_sfi ex_long ex_vol_now.

Example ex_mkdir_full_root_gives_back :
  fst ex_full = Err ENotEnoughSpace /\
  img_read (fst (snd ex_full)) 0 2048 = img_read ex_vol_im 0 2048 /\
  img_read (fst (snd ex_full)) 2560 (59 * 512) = img_read ex_vol_im 2560 (59 * 512) /\
  img_read (fst (snd ex_full)) 2048 512 = repeat 0 512 /\ img_read ex_vol_im 2048 512 = repeat 209 512 /\
  fat_val ex_g (fst (snd ex_full)) 2 = FFree /\ count_free ex_g (fst (snd ex_full)) = 60 /\
  abs (fst (snd ex_full)) = abs ex_vol_im /\ Wf.wf_issues (fun l => l) (fst (snd ex_full)) = [] /\
  snd (snd ex_full) = {| fi_free := None; fi_next := Some 3; fi_dirty := true |}.
Proof. vm_compute. repeat split; reflexivity. Qed.

(* failures before the allocation hand the image back: an invalid name; a FILE of that name *)
Definition ex_file_im : image := snd (vol_create_empty_file_root ex_U ex_O ex_vol_im [102] ex_vol_now).
Example ex_mkdir_early_failures :
  vol_create_dir_root ex_U ex_O ex_vol_im ex_sfi [97; 58] ex_vol_now = (Err EUnsupportedFileNameCharacter, (ex_vol_im, ex_sfi)) /\
  vol_create_dir_root ex_U ex_O ex_vol_im ex_sfi [] ex_vol_now = (Err EInvalidFileNameLength, (ex_vol_im, ex_sfi)) /\
  vol_create_dir_root ex_U ex_O ex_file_im ex_sfi [70] ex_vol_now = (Err EInvalidInput, (ex_file_im, ex_sfi)).
Proof. vm_compute. repeat split; reflexivity. Qed.

(* the premises of VolDirTreeProofs.vol_remove_dir_empty_reclaims hold for the directory just created *)
Example ex_rmdir_hyps :
  exists ev, root_lookup ex_U ex_O ex_mk_im ex_dname = Ok ev /\ Lfn.ev_is_dir ev = true /\ is_special ev = false /\
    root_entry_cluster ev = 2 /\ chain_from ex_g ex_mk_im 2 (Abs.chain_fuel ex_g) = Some [2] /\
    dir_is_empty ex_O ex_g ex_mk_im [2] = Ok true.
Proof. eexists. split; [vm_compute; reflexivity|]. vm_compute. repeat split; reflexivity. Qed.
