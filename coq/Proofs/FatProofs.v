(* FatProofs.v: the byte-level FAT stores of Model/Fat.v (FAT12/16/32 entries over a mirrored DiskSlice)
   satisfy the get/set laws of Proofs/TableProofs.v, replicate every write to all mirrored copies and to
   nothing else, keep the two reserved entries, and keep the reserved high nibble of FAT32 entries (C10). *)
From Coq Require Import NArith ZArith Lia List Bool.
From FatVerif Require Import Model.Base Model.Slot Model.Table Spec.Image Model.Fat
  Proofs.BaseProofs Proofs.ImageProofs Proofs.TableProofs.
Open Scope N_scope.
Ltac Zify.zify_post_hook ::= Z.to_euclidean_division_equations.

Lemma Ok_inj {A} (a b : A) : Ok a = Ok b -> a = b.
Proof. intros H. injection H as H. exact H. Qed.

(* ------------------------------------------------------------------ bytes *)
Definition bytes_ok (im : image) : Prop := forall o, img_get im o < 256.
Definition blist_ok (bs : list N) : Prop := forall b, In b bs -> b < 256.

Lemma img_set_bytes_ok im off b : bytes_ok im -> b < 256 -> bytes_ok (img_set im off b).
Proof.
  intros H Hb o. destruct (N.eq_dec off o) as [->|Hne].
  - rewrite img_get_set_same. exact Hb.
  - rewrite img_get_set_other by exact Hne. apply H.
Qed.

Lemma img_write_bytes_ok bs : forall im off, bytes_ok im -> blist_ok bs -> bytes_ok (img_write im off bs).
Proof.
  induction bs as [|b r IH]; intros im off H Hb; cbn [img_write]; [exact H|].
  apply IH.
  - apply img_set_bytes_ok; [exact H|]. apply Hb. left; reflexivity.
  - intros x Hx. apply Hb. right; exact Hx.
Qed.

Lemma img_empty_bytes_ok f : f < 256 -> bytes_ok (img_empty f).
Proof. intros H o. unfold img_get, img_empty; cbn. rewrite FMapPositive.PositiveMap.gempty. exact H. Qed.

Lemma u16_bytes_ok v : blist_ok (u16_bytes v).
Proof. intros b [<-|[<-|[]]]; apply N.mod_lt; discriminate. Qed.
Lemma u32_bytes_ok v : blist_ok (u32_bytes v).
Proof. intros b [<-|[<-|[<-|[<-|[]]]]]; apply N.mod_lt; discriminate. Qed.

(* ------------------------------------------------------------------ write_mirrors *)
Lemma mul_lt_step a b s : a < b -> a * s + s <= b * s.
Proof. intros H. replace (a * s + s) with ((a + 1) * s) by lia. apply N.mul_le_mono_r. lia. Qed.

Lemma write_mirrors_bytes_ok bs : blist_ok bs -> forall k im pos size i,
  bytes_ok im -> bytes_ok (write_mirrors im pos size bs k i).
Proof.
  intros Hb. induction k as [|k IH]; intros im pos size i H; cbn [write_mirrors]; [exact H|].
  apply IH. apply img_write_bytes_ok; assumption.
Qed.

(* frame: an address outside every written range keeps its byte *)
Lemma wm_outside bs pos size : forall k im i0 a,
  (forall i, i0 <= i < i0 + N.of_nat k -> a < pos + i * size \/ pos + i * size + len_N bs <= a) ->
  img_get (write_mirrors im pos size bs k i0) a = img_get im a.
Proof.
  induction k as [|k IH]; intros im i0 a H; cbn [write_mirrors]; [reflexivity|].
  rewrite IH by (intros i Hi; apply H; lia).
  apply img_write_outside. unfold len_N in H. apply (H i0). lia.
Qed.

(* inside copy i the bytes are the written ones (the copies do not overlap: len bs <= size) *)
Lemma wm_inside bs pos size : len_N bs <= size -> forall k im i0 i j,
  i0 <= i < i0 + N.of_nat k -> (j < length bs)%nat ->
  img_get (write_mirrors im pos size bs k i0) (pos + i * size + N.of_nat j) = nth j bs 0.
Proof.
  intros Hlen. induction k as [|k IH]; intros im i0 i j Hi Hj; [lia|].
  cbn [write_mirrors]. destruct (N.eq_dec i i0) as [->|Hne].
  - rewrite wm_outside.
    + apply img_write_inside. exact Hj.
    + intros i Hi'. left. pose proof (mul_lt_step i0 i size ltac:(lia)) as Hm.
      unfold len_N in Hlen. lia.
  - apply IH; [lia|exact Hj].
Qed.

(* ------------------------------------------------------------------ slice_read / slice_write *)
Definition copy_byte (s : fstore) (i o : N) : N := img_get (fs_img s) (fs_base s + i * fs_size s + o).

Definition geom_eq (s s' : fstore) : Prop :=
  fs_base s' = fs_base s /\ fs_size s' = fs_size s /\ fs_mirrors s' = fs_mirrors s.

Definition sw_img (s : fstore) (off : N) (bs : list N) : image :=
  write_mirrors (fs_img s) (fs_base s + off) (fs_size s) bs (fs_mirrors s) 0.

Lemma slice_read_ok s off n : off + N.of_nat n <= fs_size s ->
  slice_read s off n = Ok (img_read (fs_img s) (fs_base s + off) n).
Proof.
  intros H. unfold slice_read.
  destruct (fs_size s <? off) eqn:E1; [apply N.ltb_lt in E1; lia|].
  destruct (off + N.of_nat n <=? fs_size s) eqn:E2; [reflexivity|apply N.leb_gt in E2; lia].
Qed.

Lemma slice_write_ok s off bs : off + len_N bs <= fs_size s ->
  slice_write s off bs = Ok (with_img s (sw_img s off bs)).
Proof.
  intros H. unfold slice_write, sw_img.
  destruct (fs_size s <? off) eqn:E1; [apply N.ltb_lt in E1; lia|].
  destruct (off + len_N bs <=? fs_size s) eqn:E2; [reflexivity|apply N.leb_gt in E2; lia].
Qed.

(* the byte at relative offset o of copy i after a write of bs at relative offset off *)
Lemma sw_copy_byte s off bs i o :
  off + len_N bs <= fs_size s -> i < N.of_nat (fs_mirrors s) -> o < fs_size s ->
  img_get (sw_img s off bs) (fs_base s + i * fs_size s + o) =
    if (off <=? o) && (o <? off + len_N bs) then nth (N.to_nat (o - off)) bs 0 else copy_byte s i o.
Proof.
  intros Hlen Hi Ho. unfold sw_img, copy_byte.
  destruct ((off <=? o) && (o <? off + len_N bs)) eqn:E.
  - apply andb_true_iff in E. destruct E as [E1 E2]. apply N.leb_le in E1. apply N.ltb_lt in E2.
    replace (fs_base s + i * fs_size s + o) with (fs_base s + off + i * fs_size s + N.of_nat (N.to_nat (o - off))) by lia.
    apply wm_inside; [lia|lia|]. unfold len_N in E2. lia.
  - apply wm_outside. intros i' Hi'.
    destruct (N.lt_trichotomy i' i) as [Hlt|[->|Hgt]].
    + right. pose proof (mul_lt_step i' i (fs_size s) Hlt). lia.
    + apply andb_false_iff in E. destruct E as [E|E]; [apply N.leb_gt in E; lia|apply N.ltb_ge in E; lia].
    + left. pose proof (mul_lt_step i i' (fs_size s) Hgt). lia.
Qed.

(* frame of a slice write: only the ranges [base + i*size + off, + len) for i < mirrors change *)
Lemma sw_frame s off bs a :
  (forall i, i < N.of_nat (fs_mirrors s) ->
     a < fs_base s + i * fs_size s + off \/ fs_base s + i * fs_size s + off + len_N bs <= a) ->
  img_get (sw_img s off bs) a = img_get (fs_img s) a.
Proof.
  intros H. unfold sw_img. apply wm_outside. intros i Hi. specialize (H i ltac:(lia)). lia.
Qed.

Lemma sw_bytes_ok s off bs : bytes_ok (fs_img s) -> blist_ok bs -> bytes_ok (sw_img s off bs).
Proof. intros H Hb. unfold sw_img. apply write_mirrors_bytes_ok; assumption. Qed.

(* all copies agree on the written range, and equality of copies is preserved *)
Definition copies_equal (s : fstore) : Prop :=
  forall i o, i < N.of_nat (fs_mirrors s) -> o < fs_size s -> copy_byte s i o = copy_byte s 0 o.

Lemma sw_copies_equal s off bs :
  off + len_N bs <= fs_size s -> copies_equal s -> copies_equal (with_img s (sw_img s off bs)).
Proof.
  intros Hlen Heq i o Hi Ho. unfold copy_byte. cbn [with_img fs_img fs_base fs_size fs_mirrors] in *.
  rewrite (sw_copy_byte s off bs i o Hlen Hi Ho).
  rewrite (sw_copy_byte s off bs 0 o Hlen ltac:(lia) Ho).
  destruct ((off <=? o) && (o <? off + len_N bs)); [reflexivity|]. apply Heq; assumption.
Qed.

(* ------------------------------------------------------------------ a mirrored entry write, generically *)
Definition ebyte (s : fstore) (o : N) : N := img_get (fs_img s) (fs_base s + o).   (* first copy *)

Lemma copy_byte_0 s o : copy_byte s 0 o = ebyte s o.
Proof. unfold copy_byte, ebyte. rewrite N.mul_0_l, N.add_0_r. reflexivity. Qed.

Definition sw_store (s : fstore) (off : N) (bs : list N) : fstore := with_img s (sw_img s off bs).

Lemma sw_ebyte_at s off bs j :
  off + len_N bs <= fs_size s -> (1 <= fs_mirrors s)%nat -> (j < length bs)%nat ->
  ebyte (sw_store s off bs) (off + N.of_nat j) = nth j bs 0.
Proof.
  intros Hlen Hm Hj. rewrite <- copy_byte_0. unfold copy_byte, sw_store. cbn [with_img fs_img fs_base fs_size].
  rewrite sw_copy_byte by (unfold len_N in *; lia).
  assert ((off <=? off + N.of_nat j) && (off + N.of_nat j <? off + len_N bs) = true) as ->.
  { apply andb_true_iff. split; [apply N.leb_le; lia|apply N.ltb_lt; unfold len_N; lia]. }
  f_equal. lia.
Qed.

Lemma sw_ebyte_other s off bs o :
  off + len_N bs <= fs_size s -> (1 <= fs_mirrors s)%nat -> o < fs_size s -> (o < off \/ off + len_N bs <= o) ->
  ebyte (sw_store s off bs) o = ebyte s o.
Proof.
  intros Hlen Hm Ho Hout. rewrite <- !copy_byte_0. unfold copy_byte at 1, sw_store. cbn [with_img fs_img fs_base fs_size].
  rewrite sw_copy_byte by lia.
  assert ((off <=? o) && (o <? off + len_N bs) = false) as ->; [|reflexivity].
  apply andb_false_iff. destruct Hout; [left; apply N.leb_gt; lia|right; apply N.ltb_ge; lia].
Qed.

(* what a replicated write of [len] bytes at relative offset [off] guarantees (C10: mirroring and frame) *)
Definition mirrored_write (s s' : fstore) (off len : N) : Prop :=
  geom_eq s s' /\
  (forall i j, i < N.of_nat (fs_mirrors s) -> j < len -> copy_byte s' i (off + j) = copy_byte s' 0 (off + j)) /\
  (forall a, (forall i, i < N.of_nat (fs_mirrors s) ->
                a < fs_base s + i * fs_size s + off \/ fs_base s + i * fs_size s + off + len <= a) ->
             img_get (fs_img s') a = img_get (fs_img s) a) /\
  (copies_equal s -> copies_equal s') /\
  (bytes_ok (fs_img s) -> bytes_ok (fs_img s')).

Lemma sw_mirrored s off bs :
  off + len_N bs <= fs_size s -> blist_ok bs -> mirrored_write s (sw_store s off bs) off (len_N bs).
Proof.
  intros Hlen Hb. unfold mirrored_write, sw_store. split; [repeat split|]. split; [|split; [|split]].
  - intros i j Hi Hj. unfold copy_byte. cbn [with_img fs_img fs_base fs_size].
    rewrite (sw_copy_byte s off bs i (off + j)) by lia.
    rewrite (sw_copy_byte s off bs 0 (off + j)) by lia.
    assert ((off <=? off + j) && (off + j <? off + len_N bs) = true) as ->; [|reflexivity].
    apply andb_true_iff. split; [apply N.leb_le; lia|apply N.ltb_lt; lia].
  - intros a Ha. cbn [with_img fs_img]. apply sw_frame. exact Ha.
  - apply sw_copies_equal. exact Hlen.
  - intros H. cbn [with_img fs_img]. apply sw_bytes_ok; assumption.
Qed.

(* reserved leading bytes: a write at relative offset >= k leaves the first k bytes of every copy alone *)
Lemma sw_leading_kept s off bs i o :
  off + len_N bs <= fs_size s -> i < N.of_nat (fs_mirrors s) -> o < off ->
  copy_byte (sw_store s off bs) i o = copy_byte s i o.
Proof.
  intros Hlen Hi Ho. unfold copy_byte at 1, sw_store. cbn [with_img fs_img fs_base fs_size].
  rewrite sw_copy_byte by lia.
  assert ((off <=? o) && (o <? off + len_N bs) = false) as ->; [|reflexivity].
  apply andb_false_iff. left. apply N.leb_gt. exact Ho.
Qed.

Lemma read2 im a : img_read im a 2 = [img_get im a; img_get im (a + 1)].
Proof. reflexivity. Qed.
Lemma read4 im a : img_read im a 4 = [img_get im a; img_get im (a + 1); img_get im (a + 2); img_get im (a + 3)].
Proof.
  cbn [img_read]. replace (a + 1 + 1) with (a + 2) by lia. replace (a + 2 + 1) with (a + 3) by lia. reflexivity.
Qed.
Lemma le2 a b : le_decode [a; b] = a + 256 * b.
Proof. cbn [le_decode]. lia. Qed.
Lemma le4 a b c d : le_decode [a; b; c; d] = a + 256 * b + 65536 * c + 16777216 * d.
Proof. cbn [le_decode]. lia. Qed.

(* ================================================================== FAT16 *)
Definition okc16 (s : fstore) (c : N) : Prop := 2 * c + 2 <= fs_size s /\ c < 2147483648.
Definition okv16 (v : fatv) : Prop := match v with Data n => 0 < n < 65527 | _ => True end.
Definition word16 (s : fstore) (c : N) : N := ebyte s (2 * c) + 256 * ebyte s (2 * c + 1).
Definition val16 (s : fstore) (c : N) : fatv := classify16 (word16 s c).
Definition new16 (v : fatv) : list N := u16_bytes (raw16 v mod 65536).

Lemma get16_val s c : okc16 s c -> get16 s c = Ok (val16 s c).
Proof.
  intros [H1 H2]. unfold get16, u32_mul, u32_max.
  destruct (c * 2 <=? 4294967295) eqn:E; [|apply N.leb_gt in E; lia]. cbn [bind].
  rewrite slice_read_ok by (change (N.of_nat 2) with 2; lia). cbn [bind].
  rewrite read2, le2. unfold val16, word16, ebyte.
  replace (c * 2) with (2 * c) by lia. replace (fs_base s + (2 * c + 1)) with (fs_base s + 2 * c + 1) by lia.
  reflexivity.
Qed.

Lemma set16_eq s c v : okc16 s c -> set16 s c v = Ok (sw_store s (2 * c) (new16 v)).
Proof.
  intros [H1 H2]. unfold set16, u32_mul, u32_max.
  destruct (c * 2 <=? 4294967295) eqn:E; [|apply N.leb_gt in E; lia]. cbn [bind].
  replace (c * 2) with (2 * c) by lia. apply slice_write_ok. change (len_N _) with 2. lia.
Qed.

Lemma classify16_raw v : okv16 v -> classify16 (raw16 v) = v.
Proof.
  destruct v as [| | |n]; try reflexivity. cbn [okv16 raw16]. intros H. unfold classify16.
  destruct (n =? 0) eqn:E1; [apply N.eqb_eq in E1; lia|].
  destruct (n =? 65527) eqn:E2; [apply N.eqb_eq in E2; lia|].
  destruct (65528 <=? n) eqn:E3; [apply N.leb_le in E3; lia|reflexivity].
Qed.

Lemma raw16_small v : okv16 v -> raw16 v < 65536.
Proof. destruct v as [| | |n]; cbn [okv16 raw16]; lia. Qed.

Lemma u16_word x : x < 65536 -> x mod 256 + 256 * ((x / 256) mod 256) = x.
Proof. intros H. lia. Qed.

Theorem set16_ok s c v : (1 <= fs_mirrors s)%nat -> okc16 s c -> okv16 v ->
  exists s', set16 s c v = Ok s' /\ geom_eq s s' /\ (bytes_ok (fs_img s) -> bytes_ok (fs_img s')) /\
             val16 s' c = v /\ forall c', c' <> c -> okc16 s c' -> val16 s' c' = val16 s c'.
Proof.
  intros Hm Hc Hv. exists (sw_store s (2 * c) (new16 v)). split; [apply set16_eq; exact Hc|].
  destruct Hc as [Hc1 Hc2].
  assert (2 * c + len_N (new16 v) <= fs_size s) as Hlen by (change (len_N _) with 2; lia).
  split; [repeat split|]. split; [intros H; apply sw_bytes_ok; [exact H|apply u16_bytes_ok]|]. split.
  - unfold val16, word16.
    pose proof (sw_ebyte_at s (2 * c) (new16 v) 0 Hlen Hm ltac:(cbn; lia)) as E0.
    pose proof (sw_ebyte_at s (2 * c) (new16 v) 1 Hlen Hm ltac:(cbn; lia)) as E1.
    change (N.of_nat 0) with 0 in E0. rewrite N.add_0_r in E0. change (N.of_nat 1) with 1 in E1.
    rewrite E0, E1. unfold new16, u16_bytes. cbn [nth].
    pose proof (raw16_small v Hv) as Hs. rewrite (N.mod_small _ _ Hs).
    rewrite (u16_word _ Hs). apply classify16_raw. exact Hv.
  - intros c' Hne [Hc1' Hc2']. unfold val16, word16.
    assert (forall o, o < 2 * c \/ 2 * c + len_N (new16 v) <= o <-> o < 2 * c \/ 2 * c + 2 <= o) as Hl
      by (intros o; change (len_N _) with 2; tauto).
    rewrite (sw_ebyte_other s (2 * c) (new16 v) (2 * c')) by (try assumption; try apply Hl; lia).
    rewrite (sw_ebyte_other s (2 * c) (new16 v) (2 * c' + 1)) by (try assumption; try apply Hl; lia).
    reflexivity.
Qed.

Theorem set16_mirrored s c v s' : okc16 s c -> set16 s c v = Ok s' -> mirrored_write s s' (2 * c) 2.
Proof.
  intros Hc E. rewrite (set16_eq s c v Hc) in E. apply Ok_inj in E. subst s'.
  apply (sw_mirrored s (2 * c) (new16 v)); [change (len_N _) with 2; destruct Hc; lia|apply u16_bytes_ok].
Qed.

(* the two reserved entries occupy bytes 0..3 of every copy *)
Theorem reserved_entries_kept16 s c v s' i o :
  okc16 s c -> 2 <= c -> set16 s c v = Ok s' -> i < N.of_nat (fs_mirrors s) -> o < 4 ->
  copy_byte s' i o = copy_byte s i o.
Proof.
  intros Hc H2 E Hi Ho. rewrite (set16_eq s c v Hc) in E. apply Ok_inj in E. subst s'.
  apply sw_leading_kept; [change (len_N _) with 2; destruct Hc; lia|exact Hi|lia].
Qed.

(* ================================================================== FAT32 *)
Definition okc32 (s : fstore) (c : N) : Prop := 4 * c + 4 <= fs_size s /\ c < 268435447.
Definition okv32 (v : fatv) : Prop := match v with Data n => 0 < n < 268435447 | _ => True end.
(* the raw 32-bit word of entry c in the first copy *)
Definition word32 (s : fstore) (c : N) : N :=
  ebyte s (4 * c) + 256 * ebyte s (4 * c + 1) + 65536 * ebyte s (4 * c + 2) + 16777216 * ebyte s (4 * c + 3).
Definition val32 (s : fstore) (c : N) : fatv := classify32 c (word32 s c mod 268435456).
Definition new32 (s : fstore) (c : N) (v : fatv) : list N :=
  u32_bytes (N.lor (raw32 v mod two32) ((word32 s c / 268435456) * 268435456)).

Lemma read32_word s c : 4 * c + 4 <= fs_size s ->
  slice_read s (4 * c) 4 = Ok (img_read (fs_img s) (fs_base s + 4 * c) 4) /\
  le_decode (img_read (fs_img s) (fs_base s + 4 * c) 4) = word32 s c.
Proof.
  intros H. split; [apply slice_read_ok; change (N.of_nat 4) with 4; lia|].
  rewrite read4, le4. unfold word32, ebyte.
  replace (fs_base s + (4 * c + 1)) with (fs_base s + 4 * c + 1) by lia.
  replace (fs_base s + (4 * c + 2)) with (fs_base s + 4 * c + 2) by lia.
  replace (fs_base s + (4 * c + 3)) with (fs_base s + 4 * c + 3) by lia. reflexivity.
Qed.

Lemma get32_val s c : okc32 s c -> get32 s c = Ok (val32 s c).
Proof.
  intros [H1 H2]. unfold get32, u32_mul, u32_max.
  destruct (c * 4 <=? 4294967295) eqn:E; [|apply N.leb_gt in E; lia]. cbn [bind].
  replace (c * 4) with (4 * c) by lia.
  destruct (read32_word s c H1) as [-> Hw]. cbn [bind]. rewrite Hw. reflexivity.
Qed.

Lemma special32_small c : c < 268435447 -> special32 c = false.
Proof. intros H. unfold special32. destruct (268435447 <=? c) eqn:E; [apply N.leb_le in E; lia|reflexivity]. Qed.

Lemma set32_eq s c v : okc32 s c -> set32 s c v = Ok (sw_store s (4 * c) (new32 s c v)).
Proof.
  intros [H1 H2]. unfold set32, u32_mul, u32_max.
  destruct (c * 4 <=? 4294967295) eqn:E; [|apply N.leb_gt in E; lia]. cbn [bind].
  replace (c * 4) with (4 * c) by lia.
  destruct (read32_word s c H1) as [-> Hw]. cbn [bind]. rewrite Hw.
  rewrite (special32_small c H2), andb_false_r.
  apply slice_write_ok. change (len_N _) with 4. lia.
Qed.

Lemma classify32_raw c v : c < 268435447 -> okv32 v -> classify32 c (raw32 v) = v.
Proof.
  intros Hc. unfold classify32. rewrite (special32_small c Hc).
  destruct v as [| | |n]; try reflexivity. cbn [okv32 raw32]. intros H.
  destruct (n =? 0) eqn:E1; [apply N.eqb_eq in E1; lia|].
  destruct (n =? 268435447) eqn:E2; [apply N.eqb_eq in E2; lia|].
  destruct (268435448 <=? n) eqn:E3; [apply N.leb_le in E3; lia|reflexivity].
Qed.

Lemma raw32_small v : okv32 v -> raw32 v < 268435456.
Proof. destruct v as [| | |n]; cbn [okv32 raw32]; lia. Qed.

Lemma word32_lt s c : bytes_ok (fs_img s) -> word32 s c < 4294967296.
Proof.
  intros H. unfold word32, ebyte.
  pose proof (H (fs_base s + 4 * c)). pose proof (H (fs_base s + (4 * c + 1))).
  pose proof (H (fs_base s + (4 * c + 2))). pose proof (H (fs_base s + (4 * c + 3))). lia.
Qed.

(* (old & 0xF000_0000) | raw  with raw < 2^28 *)
Lemma merge32 w r : r < 268435456 ->
  N.lor (r mod two32) ((w / 268435456) * 268435456) = (w / 268435456) * 268435456 + r.
Proof.
  intros Hr. unfold two32. rewrite (N.mod_small r 4294967296) by lia. rewrite N.lor_comm.
  change 268435456 with (2 ^ 28) at 2 4. apply lor_mul_pow2_add. exact Hr.
Qed.

Lemma u32_word x : x < 4294967296 ->
  x mod 256 + 256 * ((x / 256) mod 256) + 65536 * ((x / 65536) mod 256) + 16777216 * ((x / 16777216) mod 256) = x.
Proof. intros H. lia. Qed.

(* the word stored by set32, as a number *)
Lemma word32_after s c v : (1 <= fs_mirrors s)%nat -> 4 * c + 4 <= fs_size s ->
  let x := N.lor (raw32 v mod two32) ((word32 s c / 268435456) * 268435456) in
  word32 (sw_store s (4 * c) (new32 s c v)) c =
    x mod 256 + 256 * ((x / 256) mod 256) + 65536 * ((x / 65536) mod 256) + 16777216 * ((x / 16777216) mod 256).
Proof.
  intros Hm H1 x.
  assert (4 * c + len_N (new32 s c v) <= fs_size s) as Hlen by (change (len_N _) with 4; lia).
  pose proof (sw_ebyte_at s (4 * c) (new32 s c v) 0 Hlen Hm ltac:(cbn; lia)) as E0.
  pose proof (sw_ebyte_at s (4 * c) (new32 s c v) 1 Hlen Hm ltac:(cbn; lia)) as E1.
  pose proof (sw_ebyte_at s (4 * c) (new32 s c v) 2 Hlen Hm ltac:(cbn; lia)) as E2.
  pose proof (sw_ebyte_at s (4 * c) (new32 s c v) 3 Hlen Hm ltac:(cbn; lia)) as E3.
  change (N.of_nat 0) with 0 in E0. rewrite N.add_0_r in E0. change (N.of_nat 1) with 1 in E1.
  change (N.of_nat 2) with 2 in E2. change (N.of_nat 3) with 3 in E3.
  unfold word32 at 1. rewrite E0, E1, E2, E3. reflexivity.
Qed.

(* C10: the reserved top four bits of a FAT32 entry survive the update; the low 28 bits are the new value *)
Theorem fat32_set_keeps_high_nibble s c v s' :
  (1 <= fs_mirrors s)%nat -> bytes_ok (fs_img s) -> okc32 s c -> raw32 v < 268435456 -> set32 s c v = Ok s' ->
  word32 s' c / 268435456 = word32 s c / 268435456 /\ word32 s' c mod 268435456 = raw32 v.
Proof.
  intros Hm Hb Hc Hr E. rewrite (set32_eq s c v Hc) in E. apply Ok_inj in E. subst s'.
  destruct Hc as [H1 H2]. rewrite (word32_after s c v Hm H1). cbv zeta.
  rewrite (merge32 (word32 s c) (raw32 v) Hr).
  pose proof (word32_lt s c Hb) as Hw.
  set (w := word32 s c) in *. set (r := raw32 v) in *.
  assert (w / 268435456 * 268435456 + r < 4294967296) as Hx by lia.
  rewrite (u32_word _ Hx). split; lia.
Qed.

Theorem set32_ok s c v : (1 <= fs_mirrors s)%nat -> bytes_ok (fs_img s) -> okc32 s c -> okv32 v ->
  exists s', set32 s c v = Ok s' /\ geom_eq s s' /\ bytes_ok (fs_img s') /\
             val32 s' c = v /\ forall c', c' <> c -> okc32 s c' -> val32 s' c' = val32 s c'.
Proof.
  intros Hm Hb Hc Hv. exists (sw_store s (4 * c) (new32 s c v)). split; [apply set32_eq; exact Hc|].
  split; [repeat split|]. split; [apply sw_bytes_ok; [exact Hb|apply u32_bytes_ok]|]. split.
  - pose proof (raw32_small v Hv) as Hr.
    destruct (fat32_set_keeps_high_nibble s c v _ Hm Hb Hc Hr (set32_eq s c v Hc)) as [_ Hlow].
    unfold val32. rewrite Hlow. apply classify32_raw; [destruct Hc; assumption|exact Hv].
  - destruct Hc as [Hc1 Hc2]. intros c' Hne [Hc1' Hc2']. unfold val32, word32.
    assert (4 * c + len_N (new32 s c v) <= fs_size s) as Hlen by (change (len_N _) with 4; lia).
    assert (forall o, o < 4 * c \/ 4 * c + len_N (new32 s c v) <= o <-> o < 4 * c \/ 4 * c + 4 <= o) as Hl
      by (intros o; change (len_N _) with 4; tauto).
    rewrite (sw_ebyte_other s (4 * c) (new32 s c v) (4 * c')) by (try assumption; try apply Hl; lia).
    rewrite (sw_ebyte_other s (4 * c) (new32 s c v) (4 * c' + 1)) by (try assumption; try apply Hl; lia).
    rewrite (sw_ebyte_other s (4 * c) (new32 s c v) (4 * c' + 2)) by (try assumption; try apply Hl; lia).
    rewrite (sw_ebyte_other s (4 * c) (new32 s c v) (4 * c' + 3)) by (try assumption; try apply Hl; lia).
    reflexivity.
Qed.

Theorem set32_mirrored s c v s' : okc32 s c -> set32 s c v = Ok s' -> mirrored_write s s' (4 * c) 4.
Proof.
  intros Hc E. rewrite (set32_eq s c v Hc) in E. apply Ok_inj in E. subst s'.
  apply (sw_mirrored s (4 * c) (new32 s c v)); [change (len_N _) with 4; destruct Hc; lia|apply u32_bytes_ok].
Qed.

(* the two reserved entries occupy bytes 0..7 of every copy *)
Theorem reserved_entries_kept32 s c v s' i o :
  okc32 s c -> 2 <= c -> set32 s c v = Ok s' -> i < N.of_nat (fs_mirrors s) -> o < 8 ->
  copy_byte s' i o = copy_byte s i o.
Proof.
  intros Hc H2 E Hi Ho. rewrite (set32_eq s c v Hc) in E. apply Ok_inj in E. subst s'.
  apply sw_leading_kept; [change (len_N _) with 4; destruct Hc; lia|exact Hi|lia].
Qed.

(* ================================================================== FAT12 *)
Definition off12 (c : N) : N := c + c / 2.
Definition okc12 (s : fstore) (c : N) : Prop := off12 c + 2 <= fs_size s /\ off12 c <= 4294967295.
Definition okv12 (v : fatv) : Prop := match v with Data n => 0 < n < 4087 | _ => True end.
Definition word12 (s : fstore) (c : N) : N := ebyte s (off12 c) + 256 * ebyte s (off12 c + 1).
(* the raw 12 bits of entry c in the first copy *)
Definition raw12_at (s : fstore) (c : N) : N := if c mod 2 =? 0 then word12 s c mod 4096 else word12 s c / 16.
Definition val12 (s : fstore) (c : N) : fatv := classify12 (raw12_at s c).
Definition packed12 (old c raw : N) : N :=
  if c mod 2 =? 0 then N.lor ((old / 4096) * 4096) raw else N.lor (old mod 16) ((raw * 16) mod 65536).
Definition new12 (s : fstore) (c : N) (v : fatv) : list N := u16_bytes (packed12 (word12 s c) c (raw12 v mod 65536)).

Lemma read12_word s c : off12 c + 2 <= fs_size s ->
  slice_read s (off12 c) 2 = Ok (img_read (fs_img s) (fs_base s + off12 c) 2) /\
  le_decode (img_read (fs_img s) (fs_base s + off12 c) 2) = word12 s c.
Proof.
  intros H. split; [apply slice_read_ok; change (N.of_nat 2) with 2; lia|].
  rewrite read2, le2. unfold word12, ebyte.
  replace (fs_base s + (off12 c + 1)) with (fs_base s + off12 c + 1) by lia. reflexivity.
Qed.

Lemma get12_val s c : okc12 s c -> get12 s c = Ok (val12 s c).
Proof.
  intros [H1 H2]. unfold get12, get12_raw, u32_add, u32_max. fold (off12 c).
  destruct (off12 c <=? 4294967295) eqn:E; [|apply N.leb_gt in E; lia]. cbn [bind].
  destruct (read12_word s c H1) as [-> Hw]. cbn [bind]. rewrite Hw. reflexivity.
Qed.

Lemma set12_eq s c v : okc12 s c -> set12 s c v = Ok (sw_store s (off12 c) (new12 s c v)).
Proof.
  intros [H1 H2]. unfold set12, u32_add, u32_max. fold (off12 c).
  destruct (off12 c <=? 4294967295) eqn:E; [|apply N.leb_gt in E; lia]. cbn [bind].
  destruct (read12_word s c H1) as [-> Hw]. cbn [bind]. rewrite Hw.
  apply slice_write_ok. change (len_N _) with 2. lia.
Qed.

Lemma classify12_raw v : okv12 v -> classify12 (raw12 v) = v.
Proof.
  destruct v as [| | |n]; try reflexivity. cbn [okv12 raw12]. intros H. unfold classify12.
  destruct (n =? 0) eqn:E1; [apply N.eqb_eq in E1; lia|].
  destruct (n =? 4087) eqn:E2; [apply N.eqb_eq in E2; lia|].
  destruct (4088 <=? n) eqn:E3; [apply N.leb_le in E3; lia|reflexivity].
Qed.

Lemma raw12_small v : okv12 v -> raw12 v < 4096.
Proof. destruct v as [| | |n]; cbn [okv12 raw12]; lia. Qed.

(* packing arithmetic: (old & 0xF000) | raw  and  (old & 0x000F) | (raw << 4), bytes b0 b1 < 256, raw < 4096 *)
Lemma packed12_even b0 b1 r c : c mod 2 = 0 -> r < 4096 ->
  packed12 (b0 + 256 * b1) c r = ((b0 + 256 * b1) / 4096) * 4096 + r.
Proof.
  intros Hc Hr. unfold packed12. rewrite Hc. cbn [N.eqb]. apply lor_mul_4096_add. exact Hr.
Qed.
Lemma packed12_odd b0 b1 r c : c mod 2 <> 0 -> r < 4096 ->
  packed12 (b0 + 256 * b1) c r = r * 16 + (b0 + 256 * b1) mod 16.
Proof.
  intros Hc Hr. unfold packed12. destruct (c mod 2 =? 0) eqn:E; [apply N.eqb_eq in E; contradiction|].
  rewrite (N.mod_small (r * 16) 65536) by lia. rewrite N.lor_comm. apply lor_mul_16_add. lia.
Qed.

Lemma pack_even_facts b0 b1 r : b0 < 256 -> b1 < 256 -> r < 4096 ->
  let p := ((b0 + 256 * b1) / 4096) * 4096 + r in
  p < 65536 /\ p mod 4096 = r /\ ((p / 256) mod 256) / 16 = b1 / 16.
Proof. intros H0 H1 Hr p. unfold p. repeat split; lia. Qed.

Lemma pack_odd_facts b0 b1 r : b0 < 256 -> b1 < 256 -> r < 4096 ->
  let p := r * 16 + (b0 + 256 * b1) mod 16 in
  p < 65536 /\ p / 16 = r /\ (p mod 256) mod 16 = b0 mod 16.
Proof. intros H0 H1 Hr p. unfold p. repeat split; lia. Qed.

(* a two-byte replicated write seen from the first copy *)
Lemma sw2 s o n0 n1 : o + 2 <= fs_size s -> (1 <= fs_mirrors s)%nat ->
  ebyte (sw_store s o [n0; n1]) o = n0 /\ ebyte (sw_store s o [n0; n1]) (o + 1) = n1 /\
  forall x, x < fs_size s -> (x < o \/ o + 2 <= x) -> ebyte (sw_store s o [n0; n1]) x = ebyte s x.
Proof.
  intros Hlen Hm.
  assert (o + len_N [n0; n1] <= fs_size s) as Hl by (change (len_N _) with 2; exact Hlen).
  pose proof (sw_ebyte_at s o [n0; n1] 0 Hl Hm ltac:(cbn; lia)) as E0.
  pose proof (sw_ebyte_at s o [n0; n1] 1 Hl Hm ltac:(cbn; lia)) as E1.
  change (N.of_nat 0) with 0 in E0. rewrite N.add_0_r in E0. change (N.of_nat 1) with 1 in E1.
  split; [exact E0|]. split; [exact E1|]. intros x Hx Hout.
  apply sw_ebyte_other; [exact Hl|exact Hm|exact Hx|]. change (len_N _) with 2. exact Hout.
Qed.

Lemma off12_even_next c : c mod 2 = 0 -> off12 (c + 1) = off12 c + 1.
Proof. intros H. unfold off12. lia. Qed.
Lemma off12_odd_prev c' : (c' + 1) mod 2 <> 0 -> off12 (c' + 1) = off12 c' + 1.
Proof. intros H. unfold off12. lia. Qed.
Lemma off12_disjoint_even c c' : c mod 2 = 0 -> c' <> c -> c' <> c + 1 ->
  off12 c' + 2 <= off12 c \/ off12 c + 2 <= off12 c'.
Proof. intros H H1 H2. unfold off12. lia. Qed.
Lemma off12_disjoint_odd c c' : c mod 2 <> 0 -> c' <> c -> c' + 1 <> c ->
  off12 c' + 2 <= off12 c \/ off12 c + 2 <= off12 c'.
Proof. intros H H1 H2. unfold off12. lia. Qed.

Theorem set12_ok s c v : (1 <= fs_mirrors s)%nat -> bytes_ok (fs_img s) -> okc12 s c -> okv12 v ->
  exists s', set12 s c v = Ok s' /\ geom_eq s s' /\ bytes_ok (fs_img s') /\
             val12 s' c = v /\ forall c', c' <> c -> okc12 s c' -> val12 s' c' = val12 s c'.
Proof.
  intros Hm Hb Hc Hv. exists (sw_store s (off12 c) (new12 s c v)). split; [apply set12_eq; exact Hc|].
  split; [repeat split|]. split; [apply sw_bytes_ok; [exact Hb|apply u16_bytes_ok]|].
  destruct Hc as [Hc1 Hc2].
  pose proof (raw12_small v Hv) as Hr.
  remember (ebyte s (off12 c)) as b0 eqn:Eb0. remember (ebyte s (off12 c + 1)) as b1 eqn:Eb1.
  assert (b0 < 256) as Hb0 by (subst b0; apply Hb). assert (b1 < 256) as Hb1 by (subst b1; apply Hb).
  remember (packed12 (b0 + 256 * b1) c (raw12 v)) as p eqn:Ep.
  assert (new12 s c v = [p mod 256; (p / 256) mod 256]) as Enew.
  { unfold new12, u16_bytes, word12. rewrite (N.mod_small (raw12 v) 65536) by lia. subst; reflexivity. }
  rewrite Enew. clear Enew.
  destruct (sw2 s (off12 c) (p mod 256) ((p / 256) mod 256) Hc1 Hm) as (E0 & E1 & Eo).
  remember (sw_store s (off12 c) [p mod 256; (p / 256) mod 256]) as s' eqn:Es'.
  destruct (N.eq_dec (c mod 2) 0) as [Hpar|Hpar].
  - (* even entry: low byte and low nibble of the next byte *)
    rewrite (packed12_even b0 b1 (raw12 v) c Hpar Hr) in Ep.
    destruct (pack_even_facts b0 b1 (raw12 v) Hb0 Hb1 Hr) as (P1 & P2 & P3). cbv zeta in P1, P2, P3.
    rewrite <- Ep in P1, P2, P3.
    split.
    + unfold val12, raw12_at, word12. rewrite E0, E1, Hpar. cbn [N.eqb].
      rewrite (u16_word p P1), P2. apply classify12_raw. exact Hv.
    + intros c' Hne [Hc1' Hc2']. destruct (N.eq_dec c' (c + 1)) as [->|Hne2].
      * (* the odd neighbour shares the second byte: its 12 bits are the high nibble and the next byte *)
        unfold val12, raw12_at, word12.
        assert ((c + 1) mod 2 =? 0 = false) as -> by (apply N.eqb_neq; lia).
        rewrite (off12_even_next c Hpar) in *.
        rewrite E1. rewrite (Eo (off12 c + 1 + 1)) by lia. rewrite <- Eb1.
        f_equal. pose proof (Hb (fs_base s + (off12 c + 1 + 1))) as Hb2. unfold ebyte. lia.
      * pose proof (off12_disjoint_even c c' Hpar Hne Hne2) as Hd.
        unfold val12, raw12_at, word12. rewrite (Eo (off12 c')) by lia. rewrite (Eo (off12 c' + 1)) by lia.
        reflexivity.
  - (* odd entry: high nibble of the first byte and the whole second byte *)
    rewrite (packed12_odd b0 b1 (raw12 v) c Hpar Hr) in Ep.
    destruct (pack_odd_facts b0 b1 (raw12 v) Hb0 Hb1 Hr) as (P1 & P2 & P3). cbv zeta in P1, P2, P3.
    rewrite <- Ep in P1, P2, P3.
    split.
    + unfold val12, raw12_at, word12. rewrite E0, E1.
      assert (c mod 2 =? 0 = false) as -> by (apply N.eqb_neq; exact Hpar).
      rewrite (u16_word p P1), P2. apply classify12_raw. exact Hv.
    + intros c' Hne [Hc1' Hc2']. destruct (N.eq_dec (c' + 1) c) as [<-|Hne2].
      * (* the even neighbour shares the first byte: its 12 bits are its own byte and our low nibble *)
        unfold val12, raw12_at, word12.
        assert (c' mod 2 =? 0 = true) as -> by (apply N.eqb_eq; lia).
        rewrite (off12_odd_prev c' Hpar) in *.
        rewrite E0. rewrite (Eo (off12 c')) by lia. rewrite <- Eb0.
        f_equal. pose proof (Hb (fs_base s + off12 c')) as Hb2. unfold ebyte. lia.
      * pose proof (off12_disjoint_odd c c' Hpar Hne Hne2) as Hd.
        unfold val12, raw12_at, word12. rewrite (Eo (off12 c')) by lia. rewrite (Eo (off12 c' + 1)) by lia.
        reflexivity.
Qed.

Theorem set12_mirrored s c v s' : okc12 s c -> set12 s c v = Ok s' -> mirrored_write s s' (off12 c) 2.
Proof.
  intros Hc E. rewrite (set12_eq s c v Hc) in E. apply Ok_inj in E. subst s'.
  apply (sw_mirrored s (off12 c) (new12 s c v)); [change (len_N _) with 2; destruct Hc; lia|apply u16_bytes_ok].
Qed.

(* the two reserved entries occupy bytes 0..2 of every copy (entry 2 starts at byte 3) *)
Theorem reserved_entries_kept12 s c v s' i o :
  okc12 s c -> 2 <= c -> set12 s c v = Ok s' -> i < N.of_nat (fs_mirrors s) -> o < 3 ->
  copy_byte s' i o = copy_byte s i o.
Proof.
  intros Hc H2 E Hi Ho. rewrite (set12_eq s c v Hc) in E. apply Ok_inj in E. subst s'.
  apply sw_leading_kept; [change (len_N _) with 2; destruct Hc; lia|exact Hi|unfold off12; lia].
Qed.

(* in particular the raw 12 bits of entries 0 and 1 of the first copy *)
Corollary reserved_raw12_kept s c v s' :
  (1 <= fs_mirrors s)%nat -> okc12 s c -> 2 <= c -> set12 s c v = Ok s' ->
  raw12_at s' 0 = raw12_at s 0 /\ raw12_at s' 1 = raw12_at s 1.
Proof.
  intros Hm Hc H2 E.
  assert (forall o, o < 3 -> ebyte s' o = ebyte s o) as Hk.
  { intros o Ho. rewrite <- !copy_byte_0. apply (reserved_entries_kept12 s c v s' 0 o Hc H2 E); lia. }
  unfold raw12_at, word12, off12. change (0 / 2) with 0. change (1 / 2) with 0.
  change (0 + 0) with 0. change (1 + 0) with 1. change (0 + 1) with 1. change (1 + 1) with 2.
  rewrite (Hk 0), (Hk 1), (Hk 2) by lia. split; reflexivity.
Qed.

(* ================================================================== the TableProofs laws, per width,
   for a fixed slice geometry (only the image varies) *)
Section Geometry.
Variables (base size : N) (mirrors : nat).
Hypothesis Hmirrors : (1 <= mirrors)%nat.

Definition inv_g (s : fstore) : Prop :=
  fs_base s = base /\ fs_size s = size /\ fs_mirrors s = mirrors /\ bytes_ok (fs_img s).

Definition okc16_g (c : N) : Prop := 2 * c + 2 <= size /\ c < 2147483648.
Definition okc32_g (c : N) : Prop := 4 * c + 4 <= size /\ c < 268435447.
Definition okc12_g (c : N) : Prop := off12 c + 2 <= size /\ off12 c <= 4294967295.

Lemma inv_g_geom s s' : inv_g s -> geom_eq s s' -> bytes_ok (fs_img s') -> inv_g s'.
Proof.
  intros (B & S & M & _) (G1 & G2 & G3) Hb. unfold inv_g. rewrite G1, G2, G3. repeat split; assumption.
Qed.

Lemma law16_get t c : inv_g t -> okc16_g c -> get16 t c = Ok (val16 t c).
Proof. intros (B & S & M & Hb) Hc. apply get16_val. unfold okc16. rewrite S. exact Hc. Qed.

Lemma law16_set t c v : inv_g t -> okc16_g c -> okv16 v ->
  exists t', set16 t c v = Ok t' /\ inv_g t' /\ val16 t' c = v /\
             forall c', c' <> c -> okc16_g c' -> val16 t' c' = val16 t c'.
Proof.
  intros Hi Hc Hv. pose proof Hi as (B & S & M & Hb).
  destruct (set16_ok t c v) as (t' & E & G & Hb' & Hval & Hfr);
    [rewrite M; exact Hmirrors|unfold okc16; rewrite S; exact Hc|exact Hv|].
  exists t'. split; [exact E|]. split; [exact (inv_g_geom t t' Hi G (Hb' Hb))|]. split; [exact Hval|].
  intros c' Hne Hc'. apply Hfr; [exact Hne|]. unfold okc16. rewrite S. exact Hc'.
Qed.

Lemma law32_get t c : inv_g t -> okc32_g c -> get32 t c = Ok (val32 t c).
Proof. intros (B & S & M & Hb) Hc. apply get32_val. unfold okc32. rewrite S. exact Hc. Qed.

Lemma law32_set t c v : inv_g t -> okc32_g c -> okv32 v ->
  exists t', set32 t c v = Ok t' /\ inv_g t' /\ val32 t' c = v /\
             forall c', c' <> c -> okc32_g c' -> val32 t' c' = val32 t c'.
Proof.
  intros Hi Hc Hv. pose proof Hi as (B & S & M & Hb).
  destruct (set32_ok t c v) as (t' & E & G & Hb' & Hval & Hfr);
    [rewrite M; exact Hmirrors|exact Hb|unfold okc32; rewrite S; exact Hc|exact Hv|].
  exists t'. split; [exact E|]. split; [exact (inv_g_geom t t' Hi G Hb')|]. split; [exact Hval|].
  intros c' Hne Hc'. apply Hfr; [exact Hne|]. unfold okc32. rewrite S. exact Hc'.
Qed.

Lemma law12_get t c : inv_g t -> okc12_g c -> get12 t c = Ok (val12 t c).
Proof. intros (B & S & M & Hb) Hc. apply get12_val. unfold okc12. rewrite S. exact Hc. Qed.

Lemma law12_set t c v : inv_g t -> okc12_g c -> okv12 v ->
  exists t', set12 t c v = Ok t' /\ inv_g t' /\ val12 t' c = v /\
             forall c', c' <> c -> okc12_g c' -> val12 t' c' = val12 t c'.
Proof.
  intros Hi Hc Hv. pose proof Hi as (B & S & M & Hb).
  destruct (set12_ok t c v) as (t' & E & G & Hb' & Hval & Hfr);
    [rewrite M; exact Hmirrors|exact Hb|unfold okc12; rewrite S; exact Hc|exact Hv|].
  exists t'. split; [exact E|]. split; [exact (inv_g_geom t t' Hi G Hb')|]. split; [exact Hval|].
  intros c' Hne Hc'. apply Hfr; [exact Hne|]. unfold okc12. rewrite S. exact Hc'.
Qed.

(* which clusters / link values a table of [total] data clusters needs *)
Lemma range16 total : 2 * (total + 2) <= size -> total + 2 <= 65527 ->
  (forall x, 2 <= x < total + 2 -> okc16_g x) /\ (forall n, 2 <= n < total + 2 -> okv16 (Data n)).
Proof. intros H1 H2. split; [intros x Hx; unfold okc16_g; lia|intros n Hn; cbn [okv16]; lia]. Qed.
Lemma range32 total : 4 * (total + 2) <= size -> total + 2 <= 268435447 ->
  (forall x, 2 <= x < total + 2 -> okc32_g x) /\ (forall n, 2 <= n < total + 2 -> okv32 (Data n)).
Proof. intros H1 H2. split; [intros x Hx; unfold okc32_g; lia|intros n Hn; cbn [okv32]; lia]. Qed.
(* FAT12: entry total+1 ends at byte off12 (total+1) + 2 *)
Lemma range12 total : off12 (total + 1) + 2 <= size -> total + 2 <= 4087 ->
  (forall x, 2 <= x < total + 2 -> okc12_g x) /\ (forall n, 2 <= n < total + 2 -> okv12 (Data n)).
Proof.
  intros H1 H2. split; [|intros n Hn; cbn [okv12]; lia].
  intros x Hx. unfold okc12_g, off12 in *. split; lia.
Qed.

(* ---------------------------------------------------------------- FAT16: the chain layer over get16/set16 *)
Theorem alloc_ok16 t prev hint total t' c :
  inv_g t -> hint_ok hint -> 2 * (total + 2) <= size -> total + 2 <= 65527 ->
  (match prev with Some p => okc16_g p | None => True end) ->
  alloc_cluster fstore get16 set16 t prev hint total = Ok (t', c) ->
  inv_g t' /\ 2 <= c < total + 2 /\ val16 t c = Free /\
  (match prev with
   | Some p => val16 t' p = Data c /\ (p <> c -> val16 t' c = Eoc) /\
               forall x, x <> c -> x <> p -> okc16_g x -> val16 t' x = val16 t x
   | None => val16 t' c = Eoc /\ forall x, x <> c -> okc16_g x -> val16 t' x = val16 t x
   end).
Proof.
  intros Hi Hh H1 H2 Hp E. destruct (range16 total H1 H2) as [Hokc Hokd].
  apply (alloc_ok fstore get16 set16 val16 okc16_g okv16 inv_g law16_get law16_set I t prev hint total t' c Hi Hh Hokc);
    [|exact E]. destruct prev; [split; assumption|exact I].
Qed.

(* padding entries past the last cluster are never handed out *)
Corollary alloc_range16 t prev hint total t' c :
  inv_g t -> hint_ok hint -> 2 * (total + 2) <= size -> total + 2 <= 65527 ->
  (match prev with Some p => okc16_g p | None => True end) ->
  alloc_cluster fstore get16 set16 t prev hint total = Ok (t', c) -> 2 <= c < total + 2.
Proof. intros Hi Hh H1 H2 Hp E. exact (proj1 (proj2 (alloc_ok16 t prev hint total t' c Hi Hh H1 H2 Hp E))). Qed.

Theorem fs_alloc_inv16 t fi prev total :
  inv_g t -> fi_inv fstore val16 t fi total -> 2 * (total + 2) <= size -> total + 2 <= 65527 ->
  (match prev with Some p => okc16_g p /\ val16 t p <> Free | None => True end) ->
  match fs_alloc fstore get16 set16 t fi prev total with
  | Ok (t', fi', c) => inv_g t' /\ fi_inv fstore val16 t' fi' total /\ 2 <= c < total + 2 /\ val16 t c = Free /\
                       (exists h, fi_next fi' = Some h /\ 2 <= h < total + 2)
  | Err e => e = ENotEnoughSpace /\ forall x, 2 <= x < total + 2 -> val16 t x <> Free
  | Panic => False
  | OutOfFuel => False
  end.
Proof.
  intros Hi Hfi H1 H2 Hp. destruct (range16 total H1 H2) as [Hokc Hokd].
  apply (fs_alloc_inv fstore get16 set16 val16 okc16_g okv16 inv_g law16_get law16_set I t fi prev total Hi Hfi Hokc).
  destruct prev; [|exact I]. destruct Hp as [Hp1 Hp2]. split; [exact Hp1|]. split; [exact Hokd|exact Hp2].
Qed.

Theorem fs_free_chain_inv16 t fi total c l fuel :
  inv_g t -> 2 * (total + 2) <= size -> total + 2 <= 65527 ->
  fi_inv fstore val16 t fi total -> chain fstore val16 t c l -> NoDup l ->
  (forall x, In x l -> 2 <= x < total + 2 /\ val16 t x <> Free) -> (length l < fuel)%nat ->
  exists t' fi', fs_free_chain fstore get16 set16 t fi c fuel = Ok (t', fi') /\ inv_g t' /\ fi_inv fstore val16 t' fi' total /\
    count_spec fstore val16 t' 2 (N.to_nat total) = count_spec fstore val16 t 2 (N.to_nat total) + N.of_nat (length l) /\
    (forall x, In x l -> val16 t' x = Free) /\ (forall x, ~ In x l -> okc16_g x -> val16 t' x = val16 t x).
Proof.
  intros Hi H1 H2 Hfi Hc Hnd Hin Hfuel. destruct (range16 total H1 H2) as [Hokc Hokd].
  apply (fs_free_chain_inv fstore get16 set16 val16 okc16_g okv16 inv_g law16_get law16_set I t fi total c l fuel
           Hi Hokc Hfi Hc Hnd); [|exact Hfuel].
  intros x Hx. destruct (Hin x Hx) as [Hr Hnf]. split; [apply Hokc; exact Hr|split; assumption].
Qed.

Theorem fs_truncate_chain_inv16 t fi total c l fuel :
  inv_g t -> 2 * (total + 2) <= size -> total + 2 <= 65527 ->
  fi_inv fstore val16 t fi total -> chain fstore val16 t c (c :: l) -> NoDup (c :: l) ->
  (forall x, In x (c :: l) -> 2 <= x < total + 2 /\ val16 t x <> Free) -> (length l < fuel)%nat ->
  exists t' fi', fs_truncate_chain fstore get16 set16 t fi c fuel = Ok (t', fi') /\ inv_g t' /\ fi_inv fstore val16 t' fi' total /\
    val16 t' c = Eoc /\ (forall x, In x l -> val16 t' x = Free) /\
    (forall x, ~ In x (c :: l) -> okc16_g x -> val16 t' x = val16 t x) /\
    count_spec fstore val16 t' 2 (N.to_nat total) = count_spec fstore val16 t 2 (N.to_nat total) + N.of_nat (length l).
Proof.
  intros Hi H1 H2 Hfi Hc Hnd Hin Hfuel. destruct (range16 total H1 H2) as [Hokc Hokd].
  apply (fs_truncate_chain_inv fstore get16 set16 val16 okc16_g okv16 inv_g law16_get law16_set I I t fi total c l fuel
           Hi Hokc Hfi Hc Hnd); [|exact Hfuel].
  intros x Hx. destruct (Hin x Hx) as [Hr Hnf]. split; [apply Hokc; exact Hr|split; assumption].
Qed.

Theorem fs_stats_exact16 t fi total :
  inv_g t -> fi_inv fstore val16 t fi total -> 2 * (total + 2) <= size -> total + 2 <= 65527 ->
  exists fi', fs_stats fstore get16 t fi total = Ok (fi', count_spec fstore val16 t 2 (N.to_nat total)) /\
              fi_inv fstore val16 t fi' total.
Proof.
  intros Hi Hfi H1 H2. destruct (range16 total H1 H2) as [Hokc _].
  exact (fs_stats_exact fstore get16 val16 okc16_g inv_g law16_get t fi total Hi Hfi Hokc).
Qed.

(* ---------------------------------------------------------------- FAT32 *)
Theorem alloc_ok32 t prev hint total t' c :
  inv_g t -> hint_ok hint -> 4 * (total + 2) <= size -> total + 2 <= 268435447 ->
  (match prev with Some p => okc32_g p | None => True end) ->
  alloc_cluster fstore get32 set32 t prev hint total = Ok (t', c) ->
  inv_g t' /\ 2 <= c < total + 2 /\ val32 t c = Free /\
  (match prev with
   | Some p => val32 t' p = Data c /\ (p <> c -> val32 t' c = Eoc) /\
               forall x, x <> c -> x <> p -> okc32_g x -> val32 t' x = val32 t x
   | None => val32 t' c = Eoc /\ forall x, x <> c -> okc32_g x -> val32 t' x = val32 t x
   end).
Proof.
  intros Hi Hh H1 H2 Hp E. destruct (range32 total H1 H2) as [Hokc Hokd].
  apply (alloc_ok fstore get32 set32 val32 okc32_g okv32 inv_g law32_get law32_set I t prev hint total t' c Hi Hh Hokc);
    [|exact E]. destruct prev; [split; assumption|exact I].
Qed.

Corollary alloc_range32 t prev hint total t' c :
  inv_g t -> hint_ok hint -> 4 * (total + 2) <= size -> total + 2 <= 268435447 ->
  (match prev with Some p => okc32_g p | None => True end) ->
  alloc_cluster fstore get32 set32 t prev hint total = Ok (t', c) -> 2 <= c < total + 2.
Proof. intros Hi Hh H1 H2 Hp E. exact (proj1 (proj2 (alloc_ok32 t prev hint total t' c Hi Hh H1 H2 Hp E))). Qed.

Theorem fs_alloc_inv32 t fi prev total :
  inv_g t -> fi_inv fstore val32 t fi total -> 4 * (total + 2) <= size -> total + 2 <= 268435447 ->
  (match prev with Some p => okc32_g p /\ val32 t p <> Free | None => True end) ->
  match fs_alloc fstore get32 set32 t fi prev total with
  | Ok (t', fi', c) => inv_g t' /\ fi_inv fstore val32 t' fi' total /\ 2 <= c < total + 2 /\ val32 t c = Free /\
                       (exists h, fi_next fi' = Some h /\ 2 <= h < total + 2)
  | Err e => e = ENotEnoughSpace /\ forall x, 2 <= x < total + 2 -> val32 t x <> Free
  | Panic => False
  | OutOfFuel => False
  end.
Proof.
  intros Hi Hfi H1 H2 Hp. destruct (range32 total H1 H2) as [Hokc Hokd].
  apply (fs_alloc_inv fstore get32 set32 val32 okc32_g okv32 inv_g law32_get law32_set I t fi prev total Hi Hfi Hokc).
  destruct prev; [|exact I]. destruct Hp as [Hp1 Hp2]. split; [exact Hp1|]. split; [exact Hokd|exact Hp2].
Qed.

Theorem fs_free_chain_inv32 t fi total c l fuel :
  inv_g t -> 4 * (total + 2) <= size -> total + 2 <= 268435447 ->
  fi_inv fstore val32 t fi total -> chain fstore val32 t c l -> NoDup l ->
  (forall x, In x l -> 2 <= x < total + 2 /\ val32 t x <> Free) -> (length l < fuel)%nat ->
  exists t' fi', fs_free_chain fstore get32 set32 t fi c fuel = Ok (t', fi') /\ inv_g t' /\ fi_inv fstore val32 t' fi' total /\
    count_spec fstore val32 t' 2 (N.to_nat total) = count_spec fstore val32 t 2 (N.to_nat total) + N.of_nat (length l) /\
    (forall x, In x l -> val32 t' x = Free) /\ (forall x, ~ In x l -> okc32_g x -> val32 t' x = val32 t x).
Proof.
  intros Hi H1 H2 Hfi Hc Hnd Hin Hfuel. destruct (range32 total H1 H2) as [Hokc Hokd].
  apply (fs_free_chain_inv fstore get32 set32 val32 okc32_g okv32 inv_g law32_get law32_set I t fi total c l fuel
           Hi Hokc Hfi Hc Hnd); [|exact Hfuel].
  intros x Hx. destruct (Hin x Hx) as [Hr Hnf]. split; [apply Hokc; exact Hr|split; assumption].
Qed.

Theorem fs_stats_exact32 t fi total :
  inv_g t -> fi_inv fstore val32 t fi total -> 4 * (total + 2) <= size -> total + 2 <= 268435447 ->
  exists fi', fs_stats fstore get32 t fi total = Ok (fi', count_spec fstore val32 t 2 (N.to_nat total)) /\
              fi_inv fstore val32 t fi' total.
Proof.
  intros Hi Hfi H1 H2. destruct (range32 total H1 H2) as [Hokc _].
  exact (fs_stats_exact fstore get32 val32 okc32_g inv_g law32_get t fi total Hi Hfi Hokc).
Qed.

(* ---------------------------------------------------------------- FAT12 *)
Theorem alloc_ok12 t prev hint total t' c :
  inv_g t -> hint_ok hint -> off12 (total + 1) + 2 <= size -> total + 2 <= 4087 ->
  (match prev with Some p => okc12_g p | None => True end) ->
  alloc_cluster fstore get12 set12 t prev hint total = Ok (t', c) ->
  inv_g t' /\ 2 <= c < total + 2 /\ val12 t c = Free /\
  (match prev with
   | Some p => val12 t' p = Data c /\ (p <> c -> val12 t' c = Eoc) /\
               forall x, x <> c -> x <> p -> okc12_g x -> val12 t' x = val12 t x
   | None => val12 t' c = Eoc /\ forall x, x <> c -> okc12_g x -> val12 t' x = val12 t x
   end).
Proof.
  intros Hi Hh H1 H2 Hp E. destruct (range12 total H1 H2) as [Hokc Hokd].
  apply (alloc_ok fstore get12 set12 val12 okc12_g okv12 inv_g law12_get law12_set I t prev hint total t' c Hi Hh Hokc);
    [|exact E]. destruct prev; [split; assumption|exact I].
Qed.

Corollary alloc_range12 t prev hint total t' c :
  inv_g t -> hint_ok hint -> off12 (total + 1) + 2 <= size -> total + 2 <= 4087 ->
  (match prev with Some p => okc12_g p | None => True end) ->
  alloc_cluster fstore get12 set12 t prev hint total = Ok (t', c) -> 2 <= c < total + 2.
Proof. intros Hi Hh H1 H2 Hp E. exact (proj1 (proj2 (alloc_ok12 t prev hint total t' c Hi Hh H1 H2 Hp E))). Qed.

Theorem fs_alloc_inv12 t fi prev total :
  inv_g t -> fi_inv fstore val12 t fi total -> off12 (total + 1) + 2 <= size -> total + 2 <= 4087 ->
  (match prev with Some p => okc12_g p /\ val12 t p <> Free | None => True end) ->
  match fs_alloc fstore get12 set12 t fi prev total with
  | Ok (t', fi', c) => inv_g t' /\ fi_inv fstore val12 t' fi' total /\ 2 <= c < total + 2 /\ val12 t c = Free /\
                       (exists h, fi_next fi' = Some h /\ 2 <= h < total + 2)
  | Err e => e = ENotEnoughSpace /\ forall x, 2 <= x < total + 2 -> val12 t x <> Free
  | Panic => False
  | OutOfFuel => False
  end.
Proof.
  intros Hi Hfi H1 H2 Hp. destruct (range12 total H1 H2) as [Hokc Hokd].
  apply (fs_alloc_inv fstore get12 set12 val12 okc12_g okv12 inv_g law12_get law12_set I t fi prev total Hi Hfi Hokc).
  destruct prev; [|exact I]. destruct Hp as [Hp1 Hp2]. split; [exact Hp1|]. split; [exact Hokd|exact Hp2].
Qed.

Theorem fs_free_chain_inv12 t fi total c l fuel :
  inv_g t -> off12 (total + 1) + 2 <= size -> total + 2 <= 4087 ->
  fi_inv fstore val12 t fi total -> chain fstore val12 t c l -> NoDup l ->
  (forall x, In x l -> 2 <= x < total + 2 /\ val12 t x <> Free) -> (length l < fuel)%nat ->
  exists t' fi', fs_free_chain fstore get12 set12 t fi c fuel = Ok (t', fi') /\ inv_g t' /\ fi_inv fstore val12 t' fi' total /\
    count_spec fstore val12 t' 2 (N.to_nat total) = count_spec fstore val12 t 2 (N.to_nat total) + N.of_nat (length l) /\
    (forall x, In x l -> val12 t' x = Free) /\ (forall x, ~ In x l -> okc12_g x -> val12 t' x = val12 t x).
Proof.
  intros Hi H1 H2 Hfi Hc Hnd Hin Hfuel. destruct (range12 total H1 H2) as [Hokc Hokd].
  apply (fs_free_chain_inv fstore get12 set12 val12 okc12_g okv12 inv_g law12_get law12_set I t fi total c l fuel
           Hi Hokc Hfi Hc Hnd); [|exact Hfuel].
  intros x Hx. destruct (Hin x Hx) as [Hr Hnf]. split; [apply Hokc; exact Hr|split; assumption].
Qed.

Theorem fs_stats_exact12 t fi total :
  inv_g t -> fi_inv fstore val12 t fi total -> off12 (total + 1) + 2 <= size -> total + 2 <= 4087 ->
  exists fi', fs_stats fstore get12 t fi total = Ok (fi', count_spec fstore val12 t 2 (N.to_nat total)) /\
              fi_inv fstore val12 t fi' total.
Proof.
  intros Hi Hfi H1 H2. destruct (range12 total H1 H2) as [Hokc _].
  exact (fs_stats_exact fstore get12 val12 okc12_g inv_g law12_get t fi total Hi Hfi Hokc).
Qed.

End Geometry.

(* Fat12::find_free tests the end after the increment; for start < end it is the loop of Fat16/Fat32
   (which [alloc_cluster] of Model/Table.v uses), for any store *)
Lemma find_free12_from_eq T (get : T -> N -> res fatv) t : forall n c end_ fuel,
  N.to_nat (end_ - c) = S n -> (S n <= fuel)%nat ->
  find_free12_from T get t c end_ fuel = find_free_from T get t c (S n).
Proof.
  induction n as [|n IH]; intros c end_ fuel Hn Hf; (destruct fuel as [|k]; [lia|]);
    cbn [find_free12_from find_free_from]; destruct (get t c) as [v|e| |]; cbn [bind]; try reflexivity.
  - assert (c + 1 =? end_ = true) as -> by (apply N.eqb_eq; lia). destruct v; reflexivity.
  - assert (c + 1 =? end_ = false) as -> by (apply N.eqb_neq; lia).
    rewrite (IH (c + 1) end_ k) by lia. destruct v; reflexivity.
Qed.

(* ================================================================== DiskSlice::write as such, and histories *)
(* slice_write_spec: buf is written at begin + offset + i*size for every i < mirrors and nowhere else *)
Theorem slice_write_spec s off bs s' : blist_ok bs -> slice_write s off bs = Ok s' ->
  off + len_N bs <= fs_size s /\ mirrored_write s s' off (len_N bs) /\
  (forall i j, i < N.of_nat (fs_mirrors s) -> (j < length bs)%nat ->
     img_get (fs_img s') (fs_base s + off + i * fs_size s + N.of_nat j) = nth j bs 0).
Proof.
  intros Hb E. unfold slice_write in E.
  destruct (fs_size s <? off); [discriminate|].
  destruct (off + len_N bs <=? fs_size s) eqn:E2; [|discriminate]. apply N.leb_le in E2.
  apply Ok_inj in E. subst s'. split; [exact E2|]. split; [apply sw_mirrored; assumption|].
  intros i j Hi Hj. cbn [with_img fs_img]. apply wm_inside; [lia|lia|exact Hj].
Qed.

(* mirroring disabled = a one-copy slice placed on the active copy: nothing outside the written range of
   that copy changes, in particular no byte of any other copy *)
Lemma single_copy_frame s s' off len a :
  mirrored_write s s' off len -> fs_mirrors s = 1%nat ->
  (a < fs_base s + off \/ fs_base s + off + len <= a) -> img_get (fs_img s') a = img_get (fs_img s) a.
Proof.
  intros (_ & _ & Hfr & _) Hm Ha. apply Hfr. intros i Hi. rewrite Hm in Hi.
  assert (i = 0) as -> by lia. rewrite N.mul_0_l, N.add_0_r. exact Ha.
Qed.

Definition okc_ft (ft : fat_type) (s : fstore) (c : N) : Prop :=
  match ft with Fat12 => okc12 s c | Fat16 => okc16 s c | Fat32 => okc32 s c end.
Definition entry_off (ft : fat_type) (c : N) : N :=
  match ft with Fat12 => off12 c | Fat16 => 2 * c | Fat32 => 4 * c end.
Definition entry_len (ft : fat_type) : N := match ft with Fat32 => 4 | _ => 2 end.
(* bytes of every copy holding the two reserved entries *)
Definition reserved_len (ft : fat_type) : N := match ft with Fat12 => 3 | Fat16 => 4 | Fat32 => 8 end.

Theorem fat_set_mirrored ft s c v s' :
  okc_ft ft s c -> fat_set ft s c v = Ok s' -> mirrored_write s s' (entry_off ft c) (entry_len ft).
Proof.
  destruct ft; cbn [okc_ft fat_set entry_off entry_len].
  - apply set12_mirrored. - apply set16_mirrored. - apply set32_mirrored.
Qed.

Theorem fat_set_reserved_kept ft s c v s' i o :
  okc_ft ft s c -> 2 <= c -> fat_set ft s c v = Ok s' -> i < N.of_nat (fs_mirrors s) -> o < reserved_len ft ->
  copy_byte s' i o = copy_byte s i o.
Proof.
  destruct ft; cbn [okc_ft fat_set reserved_len].
  - apply reserved_entries_kept12. - apply reserved_entries_kept16. - apply reserved_entries_kept32.
Qed.

Lemma okc_ft_geom ft s s' c : geom_eq s s' -> okc_ft ft s c -> okc_ft ft s' c.
Proof.
  intros (_ & G & _). destruct ft; cbn [okc_ft]; unfold okc12, okc16, okc32; rewrite G; exact (fun H => H).
Qed.

(* any sequence of table updates (what one API call, or a whole history, does to the table) *)
Fixpoint run_sets (ft : fat_type) (s : fstore) (l : list (N * fatv)) : res fstore :=
  match l with
  | [] => Ok s
  | (c, v) :: r => do s1 <- fat_set ft s c v; run_sets ft s1 r
  end.

Theorem run_sets_inv ft : forall l s s',
  (forall c v, In (c, v) l -> okc_ft ft s c) -> run_sets ft s l = Ok s' ->
  geom_eq s s' /\
  (copies_equal s -> copies_equal s') /\
  ((forall c v, In (c, v) l -> 2 <= c) ->
   forall i o, i < N.of_nat (fs_mirrors s) -> o < reserved_len ft -> copy_byte s' i o = copy_byte s i o) /\
  (* frame: only bytes of updated entries, in the mirrored copies, can change *)
  (forall a, (forall c v i, In (c, v) l -> i < N.of_nat (fs_mirrors s) ->
                a < fs_base s + i * fs_size s + entry_off ft c \/
                fs_base s + i * fs_size s + entry_off ft c + entry_len ft <= a) ->
             img_get (fs_img s') a = img_get (fs_img s) a).
Proof.
  induction l as [|[c v] r IH]; intros s s' Hok E; cbn [run_sets] in E.
  - apply Ok_inj in E. subst s'. split; [repeat split|]. split; [exact (fun H => H)|]. split; reflexivity.
  - destruct (fat_set ft s c v) as [s1| | |] eqn:E1; cbn [bind] in E; try discriminate.
    assert (okc_ft ft s c) as Hc by (apply (Hok c v); left; reflexivity).
    pose proof (fat_set_mirrored ft s c v s1 Hc E1) as Hmw.
    destruct Hmw as (G & Hmir & Hfr & Hce & Hby).
    destruct (IH s1 s') as (G' & Hce' & Hres' & Hfr').
    { intros c0 v0 Hin. apply (okc_ft_geom ft s s1 c0 G). apply (Hok c0 v0). right; exact Hin. }
    { exact E. }
    destruct G as (G1 & G2 & G3). destruct G' as (G1' & G2' & G3').
    split; [unfold geom_eq; rewrite G1', G2', G3'; repeat split; assumption|].
    split; [intros H; apply Hce'; apply Hce; exact H|]. split.
    + intros H2 i o Hi Ho. rewrite Hres'.
      * apply (fat_set_reserved_kept ft s c v s1 i o Hc); [apply (H2 c v); left; reflexivity|exact E1|exact Hi|exact Ho].
      * intros c0 v0 Hin. apply (H2 c0 v0). right; exact Hin.
      * rewrite G3. exact Hi.
      * exact Ho.
    + intros a Ha. rewrite Hfr'.
      * apply Hfr. intros i Hi. apply (Ha c v i); [left; reflexivity|exact Hi].
      * intros c0 v0 i Hin Hi. rewrite G1, G2. rewrite G3 in Hi. apply (Ha c0 v0 i); [right; exact Hin|exact Hi].
Qed.
