(* FindFreeProofs.v: Dir::find_free_entries is first-fit and refuses a fixed root only when no sufficient run of free
   slots remains (the directory clause of C05).  A run of free slots is either a run of deleted slots before the end of
   the used part, or deleted slots directly before the end marker together with everything from the marker to the end
   of the region. *)
From Coq Require Import NArith ZArith List Lia.
From FatVerif Require Import Model.Base Model.Slot Model.DirSlots Spec.Abs Proofs.DirSlotsProofs.
Import ListNotations.
Open Scope N_scope.

Definition endhead (c : slots) : Prop := c = [] \/ exists z r, c = z :: r /\ zfirst z.
Definition no_del_run (l : slots) (num : N) : Prop :=
  forall a b c, l = a ++ b ++ c -> Forall isdel b -> len_N b < num.
(* the deleted run in front of the end cannot be extended to the left *)
Definition boundary (pre : slots) : Prop := pre = [] \/ exists q x, pre = q ++ [x] /\ ~ isdel x.

(* room for [num] consecutive slots in a region that cannot grow *)
Definition has_room (ss : slots) (num : N) : Prop :=
  (exists a b c, ss = a ++ b ++ c /\ Forall nonend a /\ Forall isdel b /\ len_N b = num) \/
  (exists a b c, ss = a ++ b ++ c /\ Forall nonend a /\ Forall isdel b /\ endhead c /\ num <= len_N b + len_N c).

Lemma isdel_nonend s : isdel s -> nonend s.
Proof. unfold isdel, nonend. intros ->. discriminate. Qed.
Lemma Forall_isdel_nonend l : Forall isdel l -> Forall nonend l.
Proof. intros H. eapply Forall_impl; [|exact H]. exact isdel_nonend. Qed.

Lemma len_N_cons {A} (x : A) l : len_N (x :: l) = len_N l + 1.
Proof. unfold len_N. cbn [length]. lia. Qed.
Lemma len_N_nil {A} : len_N (@nil A) = 0.
Proof. reflexivity. Qed.

(* the split at the first end marker is unique *)
Lemma prefix_before_end : forall a c l post, a ++ c = l ++ post -> Forall nonend a -> Forall nonend l -> endhead post ->
  exists c', l = a ++ c'.
Proof.
  induction a as [|x a IH]; intros c l post E Ha Hl Hp.
  - exists l. reflexivity.
  - destruct l as [|y l].
    + cbn [app] in E. destruct Hp as [->|(z & r & -> & Hz)]; [discriminate|].
      injection E as <- _. inversion Ha as [|? ? Hx _]. unfold nonend, zfirst in *. congruence.
    + cbn [app] in E. injection E as <- E. inversion Ha; inversion Hl; subst.
      destruct (IH c l post E) as (c' & ->); try assumption. exists c'. reflexivity.
Qed.

Lemma split_first_end : forall l1 c1 l2 c2, l1 ++ c1 = l2 ++ c2 -> Forall nonend l1 -> Forall nonend l2 ->
  endhead c1 -> endhead c2 -> l1 = l2 /\ c1 = c2.
Proof.
  intros l1 c1 l2 c2 E H1 H2 E1 E2.
  destruct (prefix_before_end l1 c1 l2 c2 E H1 H2 E2) as (d & Hd).
  destruct (prefix_before_end l2 c2 l1 c1 (eq_sym E) H2 H1 E1) as (d' & Hd').
  assert (d = []) as ->.
  { rewrite Hd' in Hd. rewrite <- app_assoc in Hd. apply (f_equal (@length _)) in Hd. rewrite !app_length in Hd.
    destruct d; [reflexivity|cbn [length] in Hd; lia]. }
  rewrite app_nil_r in Hd. subst l2. split; [reflexivity|]. apply app_inv_head in E. exact E.
Qed.

(* a deleted suffix is not longer than the maximal one *)
Lemma del_suffix_le q x m a b : q ++ x :: m = a ++ b -> Forall isdel b -> ~ isdel x -> len_N b <= len_N m.
Proof.
  intros E Hb Hx. destruct (app_eq_app _ _ _ _ E) as (l & [(-> & ->)|(-> & Hm)]).
  - (* q = a ++ l, b = l ++ x :: m *) exfalso. apply Hx. rewrite Forall_forall in Hb. apply Hb.
    apply in_or_app. right. left. reflexivity.
  - (* a = q ++ l, x :: m = l ++ b *) destruct l as [|y l].
    + cbn [app] in Hm. subst b. exfalso. apply Hx. inversion Hb. assumption.
    + cbn [app] in Hm. injection Hm as _ ->. rewrite len_N_app. lia.
Qed.

Lemma no_del_run_snoc_used l x num : 1 <= num -> no_del_run l num -> ~ isdel x -> no_del_run (l ++ [x]) num.
Proof.
  intros Hn H Hx a b c E Hb.
  destruct b as [|b0 b]; [rewrite len_N_nil; lia|].
  (* either the run ends before x, or x is in it *)
  destruct (app_eq_app _ _ _ _ E) as (d & [(El & Ec)|(Ea & Ex)]).
  - (* l = a ++ d, (b0::b) ++ c = d ++ [x] *)
    destruct (app_eq_app _ _ _ _ Ec) as (d2 & [(Eb & Ex)|(Ed & Ec2)]).
    + (* b0::b = d ++ d2, [x] = d2 ++ c *)
      destruct d2 as [|y d2].
      * rewrite app_nil_r in Eb. apply (H a (b0 :: b) []); [rewrite app_nil_r, El, Eb; reflexivity|exact Hb].
      * cbn [app] in Ex. injection Ex as -> _. exfalso. apply Hx. rewrite Eb in Hb. apply Forall_app in Hb.
        destruct Hb as (_ & Hb). inversion Hb. assumption.
    + (* d = (b0::b) ++ d2 *) apply (H a (b0 :: b) d2); [rewrite El, Ed; reflexivity|exact Hb].
  - (* a = l ++ d, [x] = d ++ (b0::b) ++ c *)
    destruct d as [|y d].
    + cbn [app] in Ex. injection Ex as -> _. exfalso. apply Hx. inversion Hb. assumption.
    + cbn [app] in Ex. injection Ex as _ Ex. destruct d; discriminate.
Qed.

Lemma no_del_run_snoc_del pre mid s num : boundary pre -> Forall isdel mid -> no_del_run (pre ++ mid) num ->
  len_N mid + 1 < num -> no_del_run (pre ++ mid ++ [s]) num.
Proof.
  intros Hb Hmid H Hlt a b c E Hdel.
  (* a run inside pre ++ mid ++ [s]: either it avoids s, or it is a deleted suffix and so within mid ++ [s] *)
  rewrite app_assoc in E.
  destruct (app_eq_app _ _ _ _ (eq_sym E)) as (d & [(Ea & Es)|(Epm & Ebc)]).
  - (* a = (pre++mid) ++ d, [s] = d ++ b ++ c *)
    destruct d as [|y d].
    + cbn [app] in Es. destruct b as [|b0 b]; [rewrite len_N_nil; lia|]. cbn [app] in Es. injection Es as _ Es.
      destruct b; [|discriminate]. rewrite len_N_cons, len_N_nil. lia.
    + cbn [app] in Es. injection Es as _ Es. destruct d; [|discriminate]. cbn [app] in Es.
      destruct b; [rewrite len_N_nil; lia|discriminate].
  - (* pre ++ mid = a ++ d, b ++ c = d ++ [s] *)
    destruct (app_eq_app _ _ _ _ Ebc) as (d2 & [(Eb & Es)|(Ed & Ec)]).
    + (* b = d ++ d2, [s] = d2 ++ c *)
      destruct d2 as [|y d2].
      * rewrite app_nil_r in Eb. subst b. apply (H a d []); [rewrite app_nil_r; exact Epm|exact Hdel].
      * cbn [app] in Es. injection Es as -> Es. destruct d2; [|discriminate].
        (* b = d ++ [s]: d is a deleted suffix of pre ++ mid *)
        subst b. apply Forall_app in Hdel. destruct Hdel as (Hd & _).
        rewrite len_N_app, len_N_cons, len_N_nil.
        destruct Hb as [->|(q & x & -> & Hx)].
        -- cbn [app] in Epm. assert (len_N d <= len_N mid).
           { apply (f_equal (@length _)) in Epm. rewrite app_length in Epm. unfold len_N. lia. }
           lia.
        -- rewrite <- app_assoc in Epm. cbn [app] in Epm.
           pose proof (del_suffix_le q x mid a d Epm Hd Hx). lia.
    + (* d = b ++ d2 *) subst d. apply (H a b d2); [exact Epm|exact Hdel].
Qed.

(* one-step equations of the scan (kept as separate small lemmas: the kernel re-checks them quickly) *)
Lemma go_nil num ff nf i : find_free_go [] num ff nf i = Ok (true, if nf =? 0 then i else ff).
Proof. reflexivity. Qed.
Lemma go_cons_end s r num ff nf i : byte_at s 0 = 0 ->
  find_free_go (s :: r) num ff nf i = Ok (true, if nf =? 0 then i else ff).
Proof. intros E. cbn [find_free_go]. rewrite is_end_decode, E. reflexivity. Qed.
Lemma go_cons_del s r num ff nf i : byte_at s 0 = 229 -> nf + 1 <= 4294967295 -> i + 1 <= 4294967295 ->
  find_free_go (s :: r) num ff nf i =
  if nf + 1 =? num then Ok (false, if nf =? 0 then i else ff)
  else find_free_go r num (if nf =? 0 then i else ff) (nf + 1) (i + 1).
Proof.
  intros E H1 H2. cbn [find_free_go]. rewrite is_end_decode, is_deleted_decode, E. cbn [N.eqb Pos.eqb].
  unfold u32_add, u32_max. apply N.leb_le in H1. apply N.leb_le in H2. rewrite H1. cbn [bind].
  destruct (nf + 1 =? num); [reflexivity|]. rewrite H2. reflexivity.
Qed.
Lemma go_cons_used s r num ff nf i : byte_at s 0 <> 0 -> byte_at s 0 <> 229 -> i + 1 <= 4294967295 ->
  find_free_go (s :: r) num ff nf i = find_free_go r num ff 0 (i + 1).
Proof.
  intros E0 E5 H2. cbn [find_free_go]. rewrite is_end_decode, is_deleted_decode.
  apply N.eqb_neq in E0. apply N.eqb_neq in E5. rewrite E0, E5.
  unfold u32_add, u32_max. apply N.leb_le in H2. rewrite H2. reflexivity.
Qed.

(* the scan: first fit.  [pre ++ mid] is what has been looked at, [mid] the current deleted run *)
Lemma find_free_go_first num : 1 <= num -> forall cur pre mid ff nf i ae p,
  Forall nonend pre -> Forall isdel mid -> len_N mid < num -> boundary pre -> no_del_run (pre ++ mid) num ->
  (mid <> [] -> ff = len_N pre) -> nf = len_N mid -> i = len_N pre + len_N mid ->
  len_N (pre ++ mid ++ cur) < 134217728 ->
  find_free_go cur num ff nf i = Ok (ae, p) ->
  exists pre' mid' post', pre ++ mid ++ cur = pre' ++ mid' ++ post' /\ len_N pre' = p /\
    Forall nonend pre' /\ Forall isdel mid' /\ boundary pre' /\
    (if ae then len_N mid' < num /\ endhead post' /\ no_del_run (pre' ++ mid') num
     else len_N mid' = num /\ no_del_run (pre' ++ removelast mid') num).
Proof.
  intros Hnum. induction cur as [|s r IH]; intros pre mid ff nf i ae p Hpre Hmid Hlt Hb Hnr Hff Hnf Hi Hbound Hgo.
  - rewrite go_nil in Hgo.
    assert ((if nf =? 0 then i else ff) = len_N pre) as Eff.
    { subst nf i. destruct mid as [|m0 mid']; [rewrite len_N_nil; rewrite N.eqb_refl; lia|].
      replace (len_N (m0 :: mid') =? 0) with false by (symmetry; apply N.eqb_neq; rewrite len_N_cons; lia).
      apply Hff. discriminate. }
    rewrite Eff in Hgo. injection Hgo as <- <-. exists pre, mid, []. split; [reflexivity|].
    split; [reflexivity|]. split; [assumption|]. split; [assumption|]. split; [assumption|].
    split; [assumption|]. split; [left; reflexivity|assumption].
  - assert ((if nf =? 0 then i else ff) = len_N pre) as Eff.
    { subst nf i. destruct mid as [|m0 mid']; [rewrite len_N_nil; rewrite N.eqb_refl; lia|].
      replace (len_N (m0 :: mid') =? 0) with false by (symmetry; apply N.eqb_neq; rewrite len_N_cons; lia).
      apply Hff. discriminate. }
    assert (len_N pre + len_N mid + 1 <= 134217728) as Hbd.
    { rewrite !len_N_app, len_N_cons in Hbound. lia. }
    destruct (N.eq_dec (byte_at s 0) 0) as [E0|E0].
    + rewrite (go_cons_end s r num ff nf i E0), Eff in Hgo. injection Hgo as <- <-. exists pre, mid, (s :: r).
      split; [reflexivity|]. split; [reflexivity|]. split; [assumption|]. split; [assumption|]. split; [assumption|].
      split; [assumption|]. split; [right; exists s, r; split; [reflexivity|exact E0]|assumption].
    + destruct (N.eq_dec (byte_at s 0) 229) as [E5|E5].
      * rewrite (go_cons_del s r num ff nf i E5) in Hgo by lia. rewrite Eff in Hgo.
        assert (pre ++ mid ++ s :: r = pre ++ (mid ++ [s]) ++ r) as Eapp by (rewrite <- !app_assoc; reflexivity).
        assert (Forall isdel (mid ++ [s])) as Hmid' by (apply Forall_app; split; [assumption|constructor; [exact E5|constructor]]).
        destruct (nf + 1 =? num) eqn:En.
        -- apply N.eqb_eq in En. injection Hgo as <- <-. exists pre, (mid ++ [s]), r.
           split; [exact Eapp|]. split; [reflexivity|]. split; [assumption|]. split; [assumption|]. split; [assumption|].
           split; [rewrite len_N_app, len_N_cons, len_N_nil; lia|]. rewrite removelast_last. exact Hnr.
        -- apply N.eqb_neq in En. rewrite Eapp.
           apply (IH pre (mid ++ [s]) (len_N pre) (nf + 1) (i + 1) ae p).
           ++ assumption.
           ++ assumption.
           ++ rewrite len_N_app, len_N_cons, len_N_nil. lia.
           ++ assumption.
           ++ apply no_del_run_snoc_del; try assumption. lia.
           ++ intros _. reflexivity.
           ++ rewrite len_N_app, len_N_cons, len_N_nil. lia.
           ++ rewrite len_N_app, len_N_cons, len_N_nil. lia.
           ++ rewrite <- Eapp. exact Hbound.
           ++ exact Hgo.
      * rewrite (go_cons_used s r num ff nf i E0 E5) in Hgo by lia.
        assert (pre ++ mid ++ s :: r = (pre ++ mid ++ [s]) ++ [] ++ r) as Eapp by (rewrite <- !app_assoc; reflexivity).
        rewrite Eapp. apply (IH (pre ++ mid ++ [s]) [] ff 0 (i + 1) ae p).
        -- apply Forall_app. split; [assumption|]. apply Forall_app. split; [apply Forall_isdel_nonend; assumption|].
           constructor; [exact E0|constructor].
        -- constructor.
        -- rewrite len_N_nil. lia.
        -- right. exists (pre ++ mid), s. split; [rewrite app_assoc; reflexivity|unfold isdel; exact E5].
        -- rewrite app_nil_r, app_assoc. apply no_del_run_snoc_used; [exact Hnum|exact Hnr|unfold isdel; exact E5].
        -- intros C. congruence.
        -- reflexivity.
        -- rewrite !len_N_app, len_N_cons, !len_N_nil. lia.
        -- rewrite <- Eapp. exact Hbound.
        -- exact Hgo.
Qed.

(* ---------------------------------------------------------------- the theorems *)
Lemma go_first_from_start num ss ae ff : 1 <= num -> len_N ss < 134217728 -> find_free_go ss num 0 0 0 = Ok (ae, ff) ->
  exists pre mid post, ss = pre ++ mid ++ post /\ len_N pre = ff /\
    Forall nonend pre /\ Forall isdel mid /\ boundary pre /\
    (if ae then len_N mid < num /\ endhead post /\ no_del_run (pre ++ mid) num
     else len_N mid = num /\ no_del_run (pre ++ removelast mid) num).
Proof.
  intros Hn Hb Ego. apply (find_free_go_first num Hn ss [] [] 0 0 0 ae ff).
  - constructor.
  - constructor.
  - rewrite len_N_nil. lia.
  - left. reflexivity.
  - intros a b c Ea Hd. destruct a; [|discriminate]. destruct b; [rewrite len_N_nil; lia|discriminate].
  - intros C. congruence.
  - reflexivity.
  - reflexivity.
  - exact Hb.
  - exact Ego.
Qed.

Lemma find_free_entries_eq k ss num ae ff : find_free_go ss num 0 0 0 = Ok (ae, ff) -> ff * 32 <= 4294967295 ->
  find_free_entries k ss num =
  if ae && is_fixed k && (len_N ss * 32 <? ff * 32 + num * 32) then Err ENotEnoughSpace else Ok ff.
Proof.
  intros E Hle. unfold find_free_entries. rewrite E. cbn [bind]. unfold u32_mul, DIR_ENTRY_SIZE, u32_max.
  apply N.leb_le in Hle. rewrite Hle. reflexivity.
Qed.

Lemma find_free_go_total ss num : 1 <= num -> len_N ss < 134217728 -> exists ae ff, find_free_go ss num 0 0 0 = Ok (ae, ff).
Proof.
  intros Hn Hb.
  assert (len_N (@nil (list N)) < num) as H1 by (rewrite len_N_nil; lia).
  assert ((@nil (list N)) <> [] -> 0 = len_N (@nil (list N))) as H2 by (intros C; congruence).
  destruct (find_free_go_spec num ss [] [] 0 0 0 (Forall_nil _) (Forall_nil _) H1 H2 eq_refl eq_refl Hb)
    as [ae [p [pre [mid [post [E _]]]]]].
  exists ae, p. exact E.
Qed.

(* first fit: the position returned is the start of the FIRST run of [num] deleted slots, or - when there is none before
   the end of the used part - the start of the deleted slots directly in front of the end marker *)
Theorem find_free_entries_first_fit k ss num p : 1 <= num -> len_N ss < 134217728 ->
  find_free_entries k ss num = Ok p ->
  exists pre mid post, ss = pre ++ mid ++ post /\ len_N pre = p /\ Forall nonend pre /\ Forall isdel mid /\ boundary pre /\
    ((len_N mid = num /\ no_del_run (pre ++ removelast mid) num) \/
     (len_N mid < num /\ endhead post /\ no_del_run (pre ++ mid) num /\ (is_fixed k = true -> p + num <= len_N ss))).
Proof.
  intros Hn Hb H. destruct (find_free_go_total ss num Hn Hb) as (ae & ff & Ego).
  destruct (go_first_from_start num ss ae ff Hn Hb Ego) as (pre & mid & post & E & Hp & Hpre & Hmid & Hbd & Hcase).
  assert (ff <= len_N ss) as Hle by (rewrite E, <- Hp, !len_N_app; lia).
  rewrite (find_free_entries_eq k ss num ae ff Ego) in H by lia.
  exists pre, mid, post. destruct ae.
  - destruct Hcase as (Hl & He & Hnr). cbn [andb] in H. destruct (is_fixed k) eqn:Ek; cbn [andb] in H.
    + destruct (len_N ss * 32 <? ff * 32 + num * 32) eqn:Ec; [discriminate|]. apply N.ltb_ge in Ec.
      injection H as <-. split; [exact E|]. split; [exact Hp|]. split; [assumption|]. split; [assumption|]. split; [assumption|].
      right. split; [assumption|]. split; [assumption|]. split; [assumption|]. intros _. lia.
    + injection H as <-. split; [exact E|]. split; [exact Hp|]. split; [assumption|]. split; [assumption|]. split; [assumption|].
      right. split; [assumption|]. split; [assumption|]. split; [assumption|]. intros C. discriminate.
  - destruct Hcase as (Hl & Hnr). cbn [andb] in H. injection H as <-.
    split; [exact E|]. split; [exact Hp|]. split; [assumption|]. split; [assumption|]. split; [assumption|].
    left. split; assumption.
Qed.

(* the refusal: NotEnoughSpace comes only from a fixed root in which no run of [num] free slots remains *)
Theorem find_free_entries_nospace_no_room k ss num : 1 <= num -> len_N ss < 134217728 ->
  find_free_entries k ss num = Err ENotEnoughSpace -> is_fixed k = true /\ ~ has_room ss num.
Proof.
  intros Hn Hb H. destruct (find_free_go_total ss num Hn Hb) as (ae & ff & Ego).
  destruct (go_first_from_start num ss ae ff Hn Hb Ego) as (pre & mid & post & E & Hp & Hpre & Hmid & Hbd & Hcase).
  assert (ff <= len_N ss) as Hle by (rewrite E, <- Hp, !len_N_app; lia).
  rewrite (find_free_entries_eq k ss num ae ff Ego) in H by lia.
  destruct ae; [|cbn [andb] in H; discriminate]. cbn [andb] in H.
  destruct (is_fixed k) eqn:Ek; cbn [andb] in H; [|discriminate].
  destruct (len_N ss * 32 <? ff * 32 + num * 32) eqn:Ec; [|discriminate]. apply N.ltb_lt in Ec.
  split; [reflexivity|]. destruct Hcase as (Hl & He & Hnr).
  assert (len_N mid + len_N post < num) as Hroom by (rewrite E, !len_N_app in Ec; lia).
  assert (Forall nonend (pre ++ mid)) as Hpm by (apply Forall_app; split; [assumption|apply Forall_isdel_nonend; assumption]).
  intros [(a & b & c & Ea & Ha & Hdb & Hlen)|(a & b & c & Ea & Ha & Hdb & Hec & Hlen)].
  - (* a run of deleted slots: it lies before the first end marker, i.e. inside pre ++ mid *)
    assert (Forall nonend (a ++ b)) as Hab by (apply Forall_app; split; [assumption|apply Forall_isdel_nonend; assumption]).
    destruct (prefix_before_end (a ++ b) c (pre ++ mid) post) as (c' & Ec'); try assumption.
    { rewrite <- !app_assoc. rewrite <- Ea, <- E. reflexivity. }
    assert (len_N b < num) as Hlt; [|lia].
    apply (Hnr a b c'); [rewrite Ec', <- app_assoc; reflexivity|exact Hdb].
  - (* the tail: a ++ b is the part before the first end marker, b a deleted suffix of it *)
    assert (Forall nonend (a ++ b)) as Hab by (apply Forall_app; split; [assumption|apply Forall_isdel_nonend; assumption]).
    destruct (split_first_end (a ++ b) c (pre ++ mid) post) as (E1 & E2); try assumption.
    { rewrite <- !app_assoc. rewrite <- Ea, <- E. reflexivity. }
    subst c. assert (len_N b <= len_N mid) as Hbm; [|lia].
    destruct Hbd as [->|(q & x & -> & Hx)].
    + cbn [app] in E1. apply (f_equal (@length _)) in E1. rewrite app_length in E1. unfold len_N. lia.
    + rewrite <- app_assoc in E1. cbn [app] in E1. exact (del_suffix_le q x mid a b (eq_sym E1) Hdb Hx).
Qed.

(* a directory that can grow is never refused here *)
Theorem find_free_entries_chained_never_nospace cs ss num : 1 <= num -> len_N ss < 134217728 ->
  find_free_entries (Chained cs) ss num <> Err ENotEnoughSpace.
Proof.
  intros Hn Hb H. destruct (find_free_entries_nospace_no_room (Chained cs) ss num Hn Hb H) as (C & _). discriminate.
Qed.
