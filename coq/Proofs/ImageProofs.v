From Coq Require Import FMapPositive NArith Lia.
From FatVerif Require Import Model.Base Spec.Image.
Open Scope N_scope.

Lemma succ_pos_inj a b : N.succ_pos a = N.succ_pos b -> a = b.
Proof.
  intros H. apply (f_equal Npos) in H. rewrite !N.succ_pos_spec in H. lia.
Qed.

Lemma img_get_set_same im off b : img_get (img_set im off b) off = b.
Proof. unfold img_get, img_set; cbn. rewrite PositiveMap.gss. reflexivity. Qed.

Lemma img_get_set_other im off off' b : off <> off' -> img_get (img_set im off b) off' = img_get im off'.
Proof.
  intros H. unfold img_get, img_set; cbn. rewrite PositiveMap.gso; [reflexivity|].
  intro E. apply H. symmetry. apply succ_pos_inj. exact E.
Qed.

Lemma img_fill_set im off b : img_fill (img_set im off b) = img_fill im.
Proof. reflexivity. Qed.

(* frame: a write changes exactly the bytes of its range *)
Lemma img_write_outside bs : forall im off o,
  (o < off \/ off + N.of_nat (length bs) <= o) -> img_get (img_write im off bs) o = img_get im o.
Proof.
  induction bs as [|b r IH]; intros im off o H; cbn [img_write]; [reflexivity|].
  cbn [length] in H. rewrite IH by lia. apply img_get_set_other. lia.
Qed.

Lemma img_write_inside bs : forall im off i,
  (i < length bs)%nat -> img_get (img_write im off bs) (off + N.of_nat i) = nth i bs 0.
Proof.
  induction bs as [|b r IH]; intros im off i H; cbn [length] in H; [lia|].
  cbn [img_write]. destruct i as [|i].
  - rewrite N.add_0_r. rewrite img_write_outside by lia. apply img_get_set_same.
  - replace (off + N.of_nat (S i)) with (off + 1 + N.of_nat i) by lia.
    rewrite IH by lia. reflexivity.
Qed.
