(* VolSession2Proofs.v: SEVERAL FILES PER SESSION at image level (Model/VolSession2.v).

   Contents:
   1. the file layer alone, several handles on one image: [MVolInv] (Proofs/FileProofs.MultiInv lifted to images),
      one step with every frame clause, [mvol_run_refines] (= C02_image_interleaved_refines): any interleaving is a run of
      the multi-file byte-array machine whose state is the DECODER's content of every file; chains stay pairwise disjoint
   2. images that differ in the root region only keep [MVolInv] and every decoded content
   3. the root scan: short-slot indices of the entries of one scan are pairwise different
   4. the session invariant [Sess2Inv] (every handle bound to ITS entry of the root scan; "clean handle => the entry on the
      device holds the handle's first cluster and size"); preserved by a call on a handle, by flush / drop of a handle, by
      create_file; the frame relative to the image the session started from
   5. what the decoder shows: the node of a clean handle; all handles clean => the old nodes and one file node per handle
   6. runs: [s2_run_inv]; "flushed and not addressed again" ([settled]); durability (C14) *)
From Coq Require Import NArith ZArith Lia List Bool Permutation FMapPositive.
From FatVerif Require Import Model.Base Model.Str Model.Slot Model.Time Model.Table Model.Fat Model.FileM Model.Name
  Model.ShortName Model.DirSlots Model.VolDir Model.VolFile Model.FlushM Model.VolSession Model.VolSession2
  Spec.Image Spec.Abs Spec.ByteFile
  Proofs.ImageProofs Proofs.TableProofs Proofs.FatProofs Proofs.FileProofs Proofs.CrossProofs Proofs.RegionsProofs
  Proofs.DirSlotsProofs Proofs.VolDirProofs Proofs.VolFileProofs Proofs.VolSessionProofs.
From FatVerif Require Spec.Wf Proofs.TimeProofs Proofs.FlushProofs.
Import ListNotations.
Open Scope N_scope.
Ltac Zify.zify_post_hook ::= Z.to_euclidean_division_equations.

(* ================================================================ 0. lists *)
Lemma map_list_set {A B} (f : A -> B) x : forall l i, map f (list_set l i x) = list_set (map f l) i (f x).
Proof. induction l as [|a l IH]; intros [|i]; cbn [list_set map]; try reflexivity. rewrite IH. reflexivity. Qed.

Lemma list_set_same {A} : forall (l : list A) i x, nth_error l i = Some x -> list_set l i x = l.
Proof.
  induction l as [|a l IH]; intros [|i] x H; cbn [list_set nth_error] in *; try discriminate.
  - injection H as ->. reflexivity.
  - rewrite (IH i x H). reflexivity.
Qed.

Lemma nth_error_map_some {A B} (f : A -> B) l i x : nth_error l i = Some x -> nth_error (map f l) i = Some (f x).
Proof. intros H. rewrite nth_error_map, H. reflexivity. Qed.

Lemma nth_error_map_inv {A B} (f : A -> B) l i y : nth_error (map f l) i = Some y -> exists x, nth_error l i = Some x /\ y = f x.
Proof. rewrite nth_error_map. destruct (nth_error l i) as [x|]; [|discriminate]. intros H. injection H as <-. exists x. split; reflexivity. Qed.

(* ================================================================ 1. the file layer, several handles on one image *)
Section MVol.
Variable g : geom.
Hypothesis Hok : vgeom_ok g.

Let ft := ft_of g.
Let csz := g_cluster_size g.
Let total := g_clusters g.

(* ONE STEP of one handle with every clause of Proofs/VolFileProofs.vol_step_refines (other files of the image) and of
   Proofs/VolSessionProofs.vol_step_plus (FAT values outside the chain, released clusters, editor) together *)
Theorem vol_step_full im fi h sz l op :
  op_ok op -> VolInv g im fi h sz l ->
  exists im' fi' h' r sz' l', vol_step g (im, fi, h) op = ((im', fi', h'), r) /\
    VolInv g im' fi' h' sz' l' /\
    bf_step (vol_content g im l sz, h_off h) op r = Some (vol_content g im' l' sz', h_off h') /\
    (forall x, In x l' -> In x l \/ fat_val g im x = FFree) /\
    (forall a, ~ in_store_area g a -> (forall c, In c l' -> ~ in_cluster g c a) -> img_get im' a = img_get im a) /\
    (forall x, 2 <= x < total + 2 -> ~ In x l -> ~ In x l' -> fat_val g im' x = fat_val g im x) /\
    (forall x, In x l -> ~ In x l' -> fat_val g im' x = FFree) /\
    emono (h_entry h) (h_entry h') /\
    (forall h2 sz2 l2, VFileInv g (world_of g im fi) h2 sz2 l2 -> NoBad g (world_of g im fi) l2 -> disjoint l l2 ->
       VFileInv g (world_of g im' fi') h2 sz2 l2 /\ NoBad g (world_of g im' fi') l2 /\
       vol_content g im' l2 sz2 = vol_content g im l2 sz2 /\ disjoint l' l2).
Proof.
  intros Ho V.
  destruct (vol_step_plus g Hok im fi h sz l op Ho V) as (im1 & fi1 & h1 & r1 & sz1 & l1 & Hs & V1 & Hb & A1 & A2 & A3 & A4 & A5).
  destruct (vol_step_refines g Hok im fi h sz l op Ho V) as (im2 & fi2 & h2 & r2 & sz2 & l2 & Hs2 & V2 & _ & _ & _ & Hoth).
  rewrite Hs in Hs2. injection Hs2 as <- <- <- <-.
  assert (l2 = l1) as ->.
  { destruct V1 as (_ & _ & I1 & _). destruct V2 as (_ & _ & I2 & _).
    exact (FileInv_chain_unique fstore (val_ft (ft_of g)) (g_cluster_size g) (g_clusters g) _ _ _ _ _ _ I2 I1). }
  exists im1, fi1, h1, r1, sz1, l1.
  split; [exact Hs|]. split; [exact V1|]. split; [exact Hb|]. split; [exact A1|]. split; [exact A2|]. split; [exact A3|].
  split; [exact A4|]. split; [exact A5|exact Hoth].
Qed.

(* ghost state per handle: (size, chain), as in Proofs/FileProofs.MultiInv; the world is the one read off the image *)
Definition MVolInv (im : image) (fi : fsinfo) (hs : list fhandle) (gs : list (N * list N)) : Prop :=
  FatProofs.bytes_ok im /\ VWorldInv g (world_of g im fi) /\ length hs = length gs /\
  (forall i h gh, nth_error hs i = Some h -> nth_error gs i = Some gh ->
     VFileInv g (world_of g im fi) h (fst gh) (snd gh) /\ NoBad g (world_of g im fi) (snd gh)) /\
  (forall i j g1 g2, i <> j -> nth_error gs i = Some g1 -> nth_error gs j = Some g2 -> disjoint (snd g1) (snd g2)).

(* the abstraction: what the independent decoder reads as the content of every file, and the handle's position *)
Fixpoint vviews (im : image) (hs : list fhandle) (gs : list (N * list N)) : list (list N * N) :=
  match hs, gs with
  | h :: hs', gh :: gs' => (vol_content g im (snd gh) (fst gh), h_off h) :: vviews im hs' gs'
  | _, _ => []
  end.

Lemma nth_error_vviews im : forall hs gs i,
  nth_error (vviews im hs gs) i =
  match nth_error hs i, nth_error gs i with
  | Some h, Some gh => Some (vol_content g im (snd gh) (fst gh), h_off h)
  | _, _ => None
  end.
Proof.
  induction hs as [|h hs IH]; intros [|gh gs] [|i]; cbn [vviews nth_error]; try reflexivity.
  - destruct (nth_error hs i); reflexivity.
  - apply IH.
Qed.

Lemma mvol_inv_vol im fi hs gs i h gh : MVolInv im fi hs gs -> nth_error hs i = Some h -> nth_error gs i = Some gh ->
  VolInv g im fi h (fst gh) (snd gh).
Proof.
  intros (Hb & W & _ & MI & _) Hh Hg. destruct (MI i h gh Hh Hg) as [I NB].
  split; [exact Hb|]. split; [exact W|]. split; [exact I|exact NB].
Qed.

(* one step of handle [i] *)
Theorem mvol_step_refines im fi hs gs i h gh op :
  op_ok op -> MVolInv im fi hs gs -> nth_error hs i = Some h -> nth_error gs i = Some gh ->
  exists im' fi' h' r sz' l', vol_step g (im, fi, h) op = ((im', fi', h'), r) /\
    MVolInv im' fi' (list_set hs i h') (list_set gs i (sz', l')) /\
    bf_step (vol_content g im (snd gh) (fst gh), h_off h) op r = Some (vol_content g im' l' sz', h_off h') /\
    (forall j gj, j <> i -> nth_error gs j = Some gj -> vol_content g im' (snd gj) (fst gj) = vol_content g im (snd gj) (fst gj)) /\
    (forall x, In x l' -> In x (snd gh) \/ fat_val g im x = FFree) /\
    (forall a, ~ in_store_area g a -> (forall c, In c l' -> ~ in_cluster g c a) -> img_get im' a = img_get im a) /\
    (forall x, 2 <= x < total + 2 -> ~ In x (snd gh) -> ~ In x l' -> fat_val g im' x = fat_val g im x) /\
    (forall x, In x (snd gh) -> ~ In x l' -> fat_val g im' x = FFree) /\
    emono (h_entry h) (h_entry h') /\ VolInv g im' fi' h' sz' l'.
Proof.
  intros Ho M Hh Hg. pose proof (mvol_inv_vol im fi hs gs i h gh M Hh Hg) as V.
  destruct M as (Hb & W & ML & MI & MD).
  destruct (vol_step_full im fi h (fst gh) (snd gh) op Ho V)
    as (im1 & fi1 & h1 & r & sz1 & l1 & Hs & V1 & Hbf & A1 & A2 & A3 & A4 & A5 & Hoth).
  assert (i < length hs)%nat as Hi by (apply nth_error_Some; congruence).
  exists im1, fi1, h1, r, sz1, l1.
  split; [exact Hs|]. split.
  { destruct V1 as (Hb1 & W1 & I1 & NB1).
    split; [exact Hb1|]. split; [exact W1|]. split; [rewrite !list_set_length; exact ML|]. split.
    - intros j h' g' Hh' Hg'. destruct (Nat.eq_dec i j) as [<-|Hij].
      + rewrite nth_error_list_set_eq in Hh' by lia. rewrite nth_error_list_set_eq in Hg' by lia.
        injection Hh' as <-. injection Hg' as <-. split; [exact I1|exact NB1].
      + rewrite nth_error_list_set_neq in Hh' by exact Hij. rewrite nth_error_list_set_neq in Hg' by exact Hij.
        destruct (MI j h' g' Hh' Hg') as [Ij NBj].
        destruct (Hoth h' (fst g') (snd g') Ij NBj (MD i j gh g' Hij Hg Hg')) as (P1 & P2 & _). split; assumption.
    - intros j k g1 g2 Hjk Hg1 Hg2.
      destruct (Nat.eq_dec i j) as [<-|Hij]; [|destruct (Nat.eq_dec i k) as [<-|Hik]].
      + rewrite nth_error_list_set_eq in Hg1 by lia. injection Hg1 as <-. rewrite nth_error_list_set_neq in Hg2 by exact Hjk.
        destruct (nth_error hs k) as [hk|] eqn:Ehk; [|apply nth_error_None in Ehk; apply nth_error_Some_len in Hg2; lia].
        destruct (MI k hk g2 Ehk Hg2) as [Ik NBk].
        exact (proj2 (proj2 (proj2 (Hoth hk (fst g2) (snd g2) Ik NBk (MD i k gh g2 Hjk Hg Hg2))))).
      + rewrite nth_error_list_set_eq in Hg2 by lia. injection Hg2 as <-. rewrite nth_error_list_set_neq in Hg1 by exact Hij.
        destruct (nth_error hs j) as [hj|] eqn:Ehj; [|apply nth_error_None in Ehj; apply nth_error_Some_len in Hg1; lia].
        destruct (MI j hj g1 Ehj Hg1) as [Ij NBj].
        apply disjoint_sym. exact (proj2 (proj2 (proj2 (Hoth hj (fst g1) (snd g1) Ij NBj (MD i j gh g1 Hij Hg Hg1))))).
      + rewrite nth_error_list_set_neq in Hg1 by assumption. rewrite nth_error_list_set_neq in Hg2 by assumption.
        exact (MD j k g1 g2 Hjk Hg1 Hg2). }
  split; [exact Hbf|]. split.
  { intros j gj Hji Hgj.
    destruct (nth_error hs j) as [hj|] eqn:Ehj; [|apply nth_error_None in Ehj; apply nth_error_Some_len in Hgj; lia].
    destruct (MI j hj gj Ehj Hgj) as [Ij NBj].
    exact (proj1 (proj2 (proj2 (Hoth hj (fst gj) (snd gj) Ij NBj (MD i j gh gj (fun E => Hji (eq_sym E)) Hg Hgj))))). }
  split; [exact A1|]. split; [exact A2|]. split; [exact A3|]. split; [exact A4|]. split; [exact A5|exact V1].
Qed.

Lemma vviews_step im im' hs gs i h' sz' l' :
  (i < length hs)%nat -> length hs = length gs ->
  (forall j gj, j <> i -> nth_error gs j = Some gj -> vol_content g im' (snd gj) (fst gj) = vol_content g im (snd gj) (fst gj)) ->
  list_set (vviews im hs gs) i (vol_content g im' l' sz', h_off h') = vviews im' (list_set hs i h') (list_set gs i (sz', l')).
Proof.
  intros Hi HL Hc. apply nth_error_ext_eq. intros j. rewrite nth_error_vviews. destruct (Nat.eq_dec i j) as [<-|Hij].
  - rewrite !nth_error_list_set_eq; [reflexivity|lia|lia|].
    assert (nth_error (vviews im hs gs) i <> None) as Hv.
    { rewrite nth_error_vviews. destruct (nth_error hs i) eqn:E1; [|apply nth_error_None in E1; lia].
      destruct (nth_error gs i) eqn:E2; [discriminate|apply nth_error_None in E2; lia]. }
    apply nth_error_Some in Hv. exact Hv.
  - rewrite !nth_error_list_set_neq by exact Hij. rewrite nth_error_vviews.
    destruct (nth_error hs j) as [hj|] eqn:Ehj; [|reflexivity]. destruct (nth_error gs j) as [gj|] eqn:Egj; [|reflexivity].
    rewrite (Hc j gj (fun E => Hij (eq_sym E)) Egj). reflexivity.
Qed.

(* INTERLEAVED HISTORIES over one image: the image-level form of Proofs/FileProofs.multi_run_refines *)
Theorem mvol_run_refines : forall ops im fi hs gs,
  Forall (fun io => op_ok (snd io)) ops -> MVolInv im fi hs gs ->
  exists im' fi' hs' rs gs', mvol_run g (im, fi, hs) ops = ((im', fi', hs'), rs) /\
    MVolInv im' fi' hs' gs' /\
    bf_multi (vviews im hs gs) ops rs = Some (vviews im' hs' gs').
Proof.
  induction ops as [|[i o] ops IH]; intros im fi hs gs Hf M.
  - exists im, fi, hs, [], gs. split; [reflexivity|]. split; [exact M|reflexivity].
  - inversion Hf as [|? ? Ho Hf']; subst. cbn [snd] in Ho.
    cbn [mvol_run bf_multi]. unfold mvol_step. cbn [fst snd]. rewrite nth_error_vviews.
    destruct (nth_error hs i) as [h|] eqn:Eh.
    2:{ destruct (IH im fi hs gs Hf' M) as (im' & fi' & hs' & rs & gs' & Hr & H). exists im', fi', hs', rs, gs'.
        rewrite Hr. split; [reflexivity|exact H]. }
    assert (i < length hs)%nat as Hi by (apply nth_error_Some; congruence).
    pose proof M as (_ & _ & ML & _).
    destruct (nth_error gs i) as [gh|] eqn:Eg; [|apply nth_error_None in Eg; lia].
    destruct (mvol_step_refines im fi hs gs i h gh o Ho M Eh Eg)
      as (im1 & fi1 & h1 & r & sz1 & l1 & Hs & M1 & Hb & Hc & _).
    destruct (IH im1 fi1 (list_set hs i h1) (list_set gs i (sz1, l1)) Hf' M1) as (im2 & fi2 & hs2 & rs & gs2 & Hr & M2 & Hbr).
    exists im2, fi2, hs2, (r :: rs), gs2. rewrite Hs, Hr. split; [reflexivity|]. split; [exact M2|].
    rewrite Hb. rewrite (vviews_step im im1 hs gs i h1 sz1 l1 Hi ML Hc). exact Hbr.
Qed.
End MVol.

(* ================================================================ 2. images that differ in the root region only *)
Lemma vfile_empty g (Hok : vgeom_ok g) im fi : FatProofs.bytes_ok im -> VWorldInv g (world_of g im fi) ->
  VFileInv g (world_of g im fi) empty_file 0 [].
Proof.
  intros Hb (_ & Wf & _). destruct (vol_inv_empty g Hok im fi Hb Wf) as (_ & _ & I & _). exact I.
Qed.

Section RootFrame.
Variable g : geom.
Hypothesis Hg : fixed_root_geom g.

Lemma embeds_root_frame im im' fi : same_outside_root g im im' -> Embeds g im' (world_of g im fi).
Proof.
  intros Hout. constructor; try reflexivity.
  - intros a Ha. cbn [world_of w_fat store_of fs_img]. symmetry. apply Hout. left.
    pose proof (store_area_before_root g a Hg Ha). lia.
  - intros c _. cbn [world_of w_data]. symmetry. apply (cluster_bytes_frame g im im' c); [pose proof (fg_bps g Hg); lia|exact Hout].
Qed.

Lemma vol_content_root_frame im im' l sz : same_outside_root g im im' -> vol_content g im' l sz = vol_content g im l sz.
Proof.
  intros Hout. unfold vol_content. rewrite (chain_bytes_frame g im im' l); [reflexivity|pose proof (fg_bps g Hg); lia|exact Hout].
Qed.

(* every handle keeps its invariant; the decoder reads the same content *)
Lemma mvol_inv_root_frame im im' fi hs gs : same_outside_root g im im' -> FatProofs.bytes_ok im' ->
  MVolInv g im fi hs gs -> MVolInv g im' fi hs gs.
Proof.
  intros Hout Hb' (Hb & W & ML & MI & MD). pose proof (fixed_root_vgeom_ok g Hg) as Hok.
  pose proof (embeds_root_frame im im' fi Hout) as E.
  assert (VWorldInv g (world_of g im' fi)) as W'.
  { destruct (embeds_transfer g Hok im' (world_of g im fi) empty_file 0 [] Hb' E W (vfile_empty g Hok im fi Hb W)) as (X & _).
    exact X. }
  split; [exact Hb'|]. split; [exact W'|]. split; [exact ML|]. split; [|exact MD].
  intros i h gh Hh Hgh. destruct (MI i h gh Hh Hgh) as [I NB].
  destruct (embeds_transfer g Hok im' (world_of g im fi) h (fst gh) (snd gh) Hb' E W I) as (_ & I' & _ & NB').
  split; [exact I'|exact (NB' NB)].
Qed.

Lemma vviews_root_frame im im' : same_outside_root g im im' -> forall hs gs, vviews g im' hs gs = vviews g im hs gs.
Proof.
  intros Hout. induction hs as [|h hs IH]; intros [|gh gs]; cbn [vviews]; try reflexivity.
  rewrite IH, (vol_content_root_frame im im' _ _ Hout). reflexivity.
Qed.
End RootFrame.

(* replacing one handle by one with the same first cluster, position and entry fields *)
Lemma FileInv_clear_dirty T val cs total w h sz l :
  FileInv T val cs total w h sz l -> FileInv T val cs total w (clear_dirty h) sz l.
Proof.
  intros [(e & He & E1 & E2) I2 I3 I4 I5 I6 I7 I8]. constructor; cbn [clear_dirty h_first h_cur h_off h_entry]; try assumption.
  rewrite He. eexists. split; [reflexivity|]. cbn [ed_first ed_size]. split; assumption.
Qed.

Lemma mvol_inv_set_handle g im fi hs gs i h h' :
  MVolInv g im fi hs gs -> nth_error hs i = Some h ->
  (forall sz l, VFileInv g (world_of g im fi) h sz l -> VFileInv g (world_of g im fi) h' sz l) ->
  MVolInv g im fi (list_set hs i h') gs.
Proof.
  intros (Hb & W & ML & MI & MD) Hh Hx.
  assert (i < length hs)%nat as Hi by (apply nth_error_Some; congruence).
  split; [exact Hb|]. split; [exact W|]. split; [rewrite list_set_length; exact ML|]. split; [|exact MD].
  intros j hj gj Hhj Hgj. destruct (Nat.eq_dec i j) as [<-|Hij].
  - rewrite nth_error_list_set_eq in Hhj by lia. injection Hhj as <-. destruct (MI i h gj Hh Hgj) as [I NB].
    split; [exact (Hx _ _ I)|exact NB].
  - rewrite nth_error_list_set_neq in Hhj by exact Hij. exact (MI j hj gj Hhj Hgj).
Qed.

Lemma mvol_inv_snoc_empty g (Hok : vgeom_ok g) im fi hs gs :
  MVolInv g im fi hs gs -> MVolInv g im fi (hs ++ [empty_file]) (gs ++ [(0, [])]).
Proof.
  intros (Hb & W & ML & MI & MD). split; [exact Hb|]. split; [exact W|]. split; [rewrite !app_length, ML; reflexivity|]. split.
  - intros i h gh Hh Hgh. destruct (Nat.lt_ge_cases i (length hs)) as [Hi|Hi].
    + rewrite nth_error_app1 in Hh by exact Hi. rewrite nth_error_app1 in Hgh by (rewrite <- ML; exact Hi). exact (MI i h gh Hh Hgh).
    + rewrite nth_error_app2 in Hh by exact Hi. rewrite nth_error_app2 in Hgh by (rewrite <- ML; exact Hi). rewrite <- ML in Hgh.
      destruct (i - length hs)%nat as [|d]; [|destruct d; discriminate]. cbn [nth_error] in Hh, Hgh.
      injection Hh as <-. injection Hgh as <-. cbn [fst snd]. split; [|intros x []].
      exact (vfile_empty g Hok im fi Hb W).
  - intros i j g1 g2 Hij H1 H2.
    destruct (Nat.lt_ge_cases i (length gs)) as [Hi|Hi]; destruct (Nat.lt_ge_cases j (length gs)) as [Hj|Hj].
    + rewrite nth_error_app1 in H1 by exact Hi. rewrite nth_error_app1 in H2 by exact Hj. exact (MD i j g1 g2 Hij H1 H2).
    + rewrite nth_error_app2 in H2 by exact Hj. destruct (j - length gs)%nat as [|d]; [|destruct d; discriminate].
      injection H2 as <-. intros x _ [].
    + rewrite nth_error_app2 in H1 by exact Hi. destruct (i - length gs)%nat as [|d]; [|destruct d; discriminate].
      injection H1 as <-. intros x [].
    + rewrite nth_error_app2 in H1 by exact Hi. destruct (i - length gs)%nat as [|d]; [|destruct d; discriminate].
      injection H1 as <-. intros x [].
Qed.

(* ================================================================ 3. one scan lists every short slot at most once *)
Lemma dir_scan_slots f : forall ss idx pend es ls iss, dir_scan ss idx pend f = (es, ls, iss) ->
  Forall (fun e => idx <= e_sfn_slot e) es /\ NoDup (map e_sfn_slot es).
Proof.
  induction ss as [|s r IH]; intros idx pend es ls iss H; cbn [dir_scan] in H.
  - injection H as <- _ _. split; constructor.
  - assert (forall pend' es', (exists ls' iss', dir_scan r (idx + 1) pend' f = (es', ls', iss')) ->
              Forall (fun e => idx <= e_sfn_slot e) es' /\ NoDup (map e_sfn_slot es')) as REC.
    { intros pend' es' (ls' & iss' & Hr). destruct (IH _ _ _ _ _ Hr) as [F ND]. split; [|exact ND].
      eapply Forall_impl; [|exact F]. intros e He. cbn beta in He. lia. }
    destruct (byte_at s 0 =? 0). { injection H as <- _ _. split; constructor. }
    destruct (byte_at s 0 =? 229).
    { destruct (dir_scan r (idx + 1) [] f) as [[es' ls'] iss'] eqn:Hr. injection H as <- _ _. apply (REC []). eauto. }
    destruct (is_lfn_slot s).
    { destruct (lfn_starts s && match pend with [] => false | _ => true end).
      - destruct (dir_scan r (idx + 1) [s] f) as [[es' ls'] iss'] eqn:Hr. injection H as <- _ _. apply (REC [s]). eauto.
      - apply (REC (s :: pend)). eauto. }
    destruct (is_label_slot s).
    { destruct (dir_scan r (idx + 1) [] f) as [[es' ls'] iss'] eqn:Hr. injection H as <- _ _. apply (REC []). eauto. }
    destruct (dir_scan r (idx + 1) [] f) as [[es' ls'] iss'] eqn:Hr. injection H as <- _ _.
    destruct (IH _ _ _ _ _ Hr) as [F ND]. split.
    + constructor; [cbn [mk_entry e_sfn_slot]; lia|]. eapply Forall_impl; [|exact F]. intros e He. cbn beta in He. lia.
    + cbn [map]. constructor; [|exact ND]. cbn [mk_entry e_sfn_slot]. intros Hin. apply in_map_iff in Hin.
      destruct Hin as (e & E & Hin). rewrite Forall_forall in F. specialize (F e Hin). cbn beta in F. lia.
Qed.

Lemma scan_slot_unique f ss es ls iss e1 e2 : dir_scan ss 0 [] f = (es, ls, iss) ->
  In e1 es -> In e2 es -> e_sfn_slot e1 = e_sfn_slot e2 -> e1 = e2.
Proof.
  intros H H1 H2 E. destruct (dir_scan_slots f ss 0 [] es ls iss H) as [_ ND]. clear H.
  induction es as [|e es IH]; [destruct H1|]. cbn [map] in ND. inversion ND as [|? ? N1 N2]; subst.
  destruct H1 as [<-|H1]; destruct H2 as [<-|H2]; try reflexivity.
  - exfalso. apply N1. rewrite E. apply in_map. exact H2.
  - exfalso. apply N1. rewrite <- E. apply in_map. exact H1.
  - exact (IH H1 H2 N2).
Qed.

(* ================================================================ 4. the session invariant *)
(* ghost state per handle: size, chain, and the entry the decoder's root scan lists for the handle's short slot *)
Record ghost := { gh_sz : N; gh_l : list N; gh_e : entry }.
Definition gview (gh : ghost) : N * list N := (gh_sz gh, gh_l gh).
Definition hslot (x : shandle) : N := en_slot (sh_en x).

(* entries that differ at most in what a rewritten short slot may change (stamps, first cluster, size) *)
Definition same_id (e e' : entry) : Prop :=
  e_lfn e' = e_lfn e /\ e_lfn_ok e' = e_lfn_ok e /\ e_sfn e' = e_sfn e /\ e_attr e' = e_attr e /\
  e_first_slot e' = e_first_slot e /\ e_sfn_slot e' = e_sfn_slot e.
Lemma same_id_refl e : same_id e e. Proof. repeat split. Qed.
Lemma same_id_trans a b c : same_id a b -> same_id b c -> same_id a c.
Proof. intros (A1 & A2 & A3 & A4 & A5 & A6) (B1 & B2 & B3 & B4 & B5 & B6). repeat split; congruence. Qed.

(* handle [x] is bound to the entry [gh_e gh] of the root scan [es]: same short slot, same name and attribute bytes (a plain
   file with a legal short name); and - the write-back discipline of DirEntryEditor - as long as the handle's editor is
   not dirty the entry ON THE DEVICE holds the handle's first cluster and size *)
Record EntInv (es : list entry) (x : shandle) (gh : ghost) : Prop := {
  ei_in : In (gh_e gh) es;
  ei_slot : e_sfn_slot (gh_e gh) = hslot x;
  ei_sfn : e_sfn (gh_e gh) = se_name (en_data (sh_en x));
  ei_attr : e_attr (gh_e gh) = 0;
  ei_attrs : se_attrs (en_data (sh_en x)) = 0;
  ei_legal : sfn_legal_b (se_name (en_data (sh_en x))) = true;
  ei_res : se_reserved_0 (en_data (sh_en x)) < 256;
  ei_ct0 : se_create_time_0 (en_data (sh_en x)) < 256;
  ei_clean : s2_dirty x = false -> e_cluster (gh_e gh) = first_field (sh_h x) /\ e_size (gh_e gh) = gh_sz gh }.

(* ---- stamping: what a call leaves alone in the handle's entry record *)
Lemma ed_set_modified_props ed now ed' : ed_set_modified ed now = Ok ed' ->
  create_time_0 (ed_st ed') = create_time_0 (ed_st ed) /\ (Time.ed_dirty ed = true -> Time.ed_dirty ed' = true).
Proof.
  unfold ed_set_modified. destruct (datetime_eqb _ _); [intros H; injection H as <-; split; auto|].
  unfold st_set_modified. destruct (date_encode (dt_date now)) as [d| | |]; cbn [bind]; try discriminate.
  destruct (time_encode (dt_time now)) as [w hi]. cbn [bind]. intros H. injection H as <-. split; reflexivity.
Qed.

Lemma ed_set_accessed_props ed d ed' : ed_set_accessed ed d = Ok ed' ->
  create_time_0 (ed_st ed') = create_time_0 (ed_st ed) /\ (Time.ed_dirty ed = true -> Time.ed_dirty ed' = true).
Proof.
  unfold ed_set_accessed. destruct (date_eqb _ _); [intros H; injection H as <-; split; auto|].
  unfold st_set_accessed. destruct (date_encode d) as [w| | |]; cbn [bind]; try discriminate.
  intros H. injection H as <-. split; reflexivity.
Qed.

Lemma stamp_after_props acc en o r now en' : stamp_after acc en o r now = Ok en' ->
  same_ident en en' /\ se_reserved_0 (en_data en') = se_reserved_0 (en_data en) /\
  se_create_time_0 (en_data en') = se_create_time_0 (en_data en) /\ (en_tdirty en = true -> en_tdirty en' = true).
Proof.
  assert (same_ident en en /\ se_reserved_0 (en_data en) = se_reserved_0 (en_data en) /\
          se_create_time_0 (en_data en) = se_create_time_0 (en_data en) /\ (en_tdirty en = true -> en_tdirty en = true)) as Same
    by (repeat split; auto).
  set (ed := {| ed_st := stamps_of (en_data en); Time.ed_dirty := en_tdirty en |}).
  assert (forall x : res editor_t,
            (forall ed', x = Ok ed' -> create_time_0 (ed_st ed') = create_time_0 (ed_st ed) /\
                                       (Time.ed_dirty ed = true -> Time.ed_dirty ed' = true)) ->
            (do ed' <- x; Ok {| en_slot := en_slot en; en_data := with_stamps (en_data en) (ed_st ed');
                                en_tdirty := Time.ed_dirty ed' |}) = Ok en' ->
            same_ident en en' /\ se_reserved_0 (en_data en') = se_reserved_0 (en_data en) /\
            se_create_time_0 (en_data en') = se_create_time_0 (en_data en) /\ (en_tdirty en = true -> en_tdirty en' = true)) as U.
  { intros x Hx H. destruct x as [ed'| | |]; cbn [bind] in H; try discriminate. injection H as <-.
    destruct (Hx ed' eq_refl) as [C D]. cbn [en_slot en_data en_tdirty with_stamps se_name se_attrs se_reserved_0 se_create_time_0].
    split; [repeat split|]. split; [reflexivity|]. split; [exact C|exact D]. }
  unfold stamp_after. fold ed. destruct o as [n|d|p|]; try (destruct r; intros H; injection H as <-; exact Same).
  - destruct r as [bs| | | | | |]; try (intros H; injection H as <-; exact Same).
    destruct bs as [|b bs]; [intros H; injection H as <-; exact Same|].
    apply U. intros ed' H. unfold stamp_read in H. destruct acc; [exact (ed_set_accessed_props _ _ _ H)|].
    injection H as <-. split; auto.
  - destruct r as [|k| | | | |]; try (intros H; injection H as <-; exact Same).
    destruct (k =? 0); [intros H; injection H as <-; exact Same|].
    apply U. intros ed' H. exact (ed_set_modified_props _ _ _ H).
Qed.

Lemma sess_step_eq g acc s o now im1 fi1 h1 r en1 :
  vol_step g (s_im s, s_fi s, s_h s) o = ((im1, fi1, h1), r) -> stamp_after acc (s_en s) o r now = Ok en1 ->
  sess_step g acc s (o, now) = ({| s_im := im1; s_fi := fi1; s_h := h1; s_en := en1 |}, r).
Proof. intros H1 H2. unfold sess_step. rewrite H1, H2. reflexivity. Qed.

Lemma in_list_set {A} (x y : A) : forall l i, In y (list_set l i x) -> y = x \/ In y l.
Proof.
  induction l as [|a l IH]; intros [|i] H; cbn [list_set] in H; try (right; exact H).
  - destruct H as [<-|H]; [left; reflexivity|right; right; exact H].
  - destruct H as [<-|H]; [right; left; reflexivity|]. destruct (IH i H) as [->|H']; [left; reflexivity|right; right; exact H'].
Qed.

Lemma in_list_set_old {A} (x y : A) : forall l i, In y l -> nth_error l i = Some y \/ In y (list_set l i x).
Proof.
  induction l as [|a l IH]; intros [|i] H; cbn [list_set nth_error]; try (destruct H; fail).
  - destruct H as [<-|H]; [left; reflexivity|right; right; exact H].
  - destruct H as [<-|H]; [right; left; reflexivity|]. destruct (IH i H) as [E|H']; [left; exact E|right; right; exact H'].
Qed.

Section Sess2.
Variable g : geom.
Hypothesis Hg : fixed_root_geom g.
Variable acc : bool.

Record Sess2Inv (st : s2state) (gs : list ghost) (es : list entry) (ls : list (list N)) : Prop := {
  si_geom : parse_geom (s2_im st) = g;
  si_mv : MVolInv g (s2_im st) (s2_fi st) (map sh_h (s2_hs st)) (map gview gs);
  si_scan : dir_scan (root_region_slots g (s2_im st)) 0 [] false = (es, ls, []);
  si_ent : forall i x gh, nth_error (s2_hs st) i = Some x -> nth_error gs i = Some gh -> EntInv es x gh;
  si_slots : NoDup (map hslot (s2_hs st)) }.

Definition s2_views (st : s2state) (gs : list ghost) : list (list N * N) :=
  vviews g (s2_im st) (map sh_h (s2_hs st)) (map gview gs).

Lemma si_len st gs es ls : Sess2Inv st gs es ls -> length (s2_hs st) = length gs.
Proof. intros [_ (_ & _ & ML & _) _ _ _]. rewrite !map_length in ML. exact ML. Qed.

(* what one call on a handle with chain [l] (afterwards [l']) does to the image *)
Definition OpFrame (im im' : image) (l l' : list N) : Prop :=
  (forall x, In x l' -> In x l \/ fat_val g im x = FFree) /\
  (forall a, ~ in_store_area g a -> (forall c, In c l' -> ~ in_cluster g c a) -> img_get im' a = img_get im a) /\
  (forall x, 2 <= x < g_clusters g + 2 -> ~ In x l -> ~ In x l' -> fat_val g im' x = fat_val g im x) /\
  (forall x, In x l -> ~ In x l' -> fat_val g im' x = FFree) /\
  (forall x, In x l' -> 2 <= x < g_clusters g + 2).

Lemma op_frame_low im im' l l' : OpFrame im im' l l' ->
  forall a, a < g_root_off g + root_bytes g -> ~ in_store_area g a -> img_get im' a = img_get im a.
Proof. intros (_ & A2 & _) a Ha Hns. apply A2; [exact Hns|]. intros c _. exact (root_not_cluster g c a Hg Ha). Qed.

Lemma op_frame_geom im im' l l' : OpFrame im im' l l' -> parse_geom im' = parse_geom im.
Proof.
  intros F. apply parse_geom_low. intros o Ho. pose proof (root_off_ge g Hg). apply (op_frame_low im im' l l' F); [lia|].
  intros Hs. pose proof (store_area_before_root g o Hg Hs). lia.
Qed.

Lemma op_frame_root im im' l l' : OpFrame im im' l l' -> root_region_slots g im' = root_region_slots g im.
Proof.
  intros F. unfold root_region_slots. f_equal. apply img_read_ext. intros i Hi.
  apply (op_frame_low im im' l l' F); [lia|]. apply (root_not_store g _ Hg). lia.
Qed.

(* ---------------------------------------------------------------- 4a. a call on handle [i] *)
Theorem s2_op_step st gs es ls i o now x gh :
  Sess2Inv st gs es ls -> op_ok o -> TimeProofs.datetime_valid now = true ->
  nth_error (s2_hs st) i = Some x -> nth_error gs i = Some gh ->
  exists st' r sz' l' x' v',
    s2_step g acc st (SOp i o now) = (st', Some r) /\
    Sess2Inv st' (list_set gs i {| gh_sz := sz'; gh_l := l'; gh_e := gh_e gh |}) es ls /\
    bf_step (vol_content g (s2_im st) (gh_l gh) (gh_sz gh), h_off (sh_h x)) o r = Some v' /\
    list_set (s2_views st gs) i v' = s2_views st' (list_set gs i {| gh_sz := sz'; gh_l := l'; gh_e := gh_e gh |}) /\
    OpFrame (s2_im st) (s2_im st') (gh_l gh) l' /\
    (forall j gj, j <> i -> nth_error gs j = Some gj ->
       vol_content g (s2_im st') (gh_l gj) (gh_sz gj) = vol_content g (s2_im st) (gh_l gj) (gh_sz gj)) /\
    s2_hs st' = list_set (s2_hs st) i x' /\ hslot x' = hslot x.
Proof.
  intros [Sg Sm Ss Se Sn] Ho Hnow Hx Hgh.
  pose proof (fixed_root_vgeom_ok g Hg) as Hok.
  pose proof (nth_error_map_some sh_h _ _ _ Hx) as Hx'. pose proof (nth_error_map_some gview _ _ _ Hgh) as Hgh'.
  destruct (mvol_step_refines g Hok (s2_im st) (s2_fi st) _ _ i (sh_h x) (gview gh) o Ho Sm Hx' Hgh')
    as (im1 & fi1 & h1 & r & sz1 & l1 & Hs & M1 & Hbf & Hc & A1 & A2 & A3 & A4 & A5 & V1).
  cbn [gview fst snd] in Hbf, A1, A3, A4.
  destruct (stamp_after_ok acc (sh_en x) o r now Hnow) as (en1 & E1 & _).
  destruct (stamp_after_props acc (sh_en x) o r now en1 E1) as ((Sl & Sname & Sattr) & Sres & Sct & Std).
  set (x1 := {| sh_h := h1; sh_en := en1 |}).
  set (st1 := {| s2_im := im1; s2_fi := fi1; s2_hs := list_set (s2_hs st) i x1 |}).
  set (gh1 := {| gh_sz := sz1; gh_l := l1; gh_e := gh_e gh |}).
  assert (OpFrame (s2_im st) im1 (gh_l gh) l1) as F.
  { split; [exact A1|]. split; [exact A2|]. split; [exact A3|]. split; [exact A4|].
    intros c Hc'. destruct V1 as (_ & _ & I1 & _). exact (proj1 (inv_range _ _ _ _ _ _ _ _ I1 c Hc')). }
  assert (i < length (s2_hs st))%nat as Hi by (apply nth_error_Some; congruence).
  assert (length (s2_hs st) = length gs) as HL.
  { destruct Sm as (_ & _ & ML & _). rewrite !map_length in ML. exact ML. }
  exists st1, r, sz1, l1, x1, (vol_content g im1 l1 sz1, h_off h1).
  split.
  { unfold s2_step. rewrite Hx. rewrite (sess_step_eq g acc (sstate_of st x) o now im1 fi1 h1 r en1 Hs E1). reflexivity. }
  split.
  { constructor.
    - cbn [st1 s2_im]. rewrite (op_frame_geom _ _ _ _ F). exact Sg.
    - cbn [st1 s2_im s2_fi s2_hs]. rewrite !map_list_set. exact M1.
    - cbn [st1 s2_im]. rewrite (op_frame_root _ _ _ _ F). exact Ss.
    - cbn [st1 s2_hs]. intros j xj gj Hxj Hgj. destruct (Nat.eq_dec i j) as [<-|Hij].
      + rewrite nth_error_list_set_eq in Hxj by lia. rewrite nth_error_list_set_eq in Hgj by lia.
        injection Hxj as <-. injection Hgj as <-. destruct (Se i x gh Hx Hgh) as [I1 I2 I3 I4 I5 I6 I7 I8 I9].
        constructor; unfold hslot; cbn [gh1 gh_e gh_sz x1 sh_en sh_h]; try assumption.
        * rewrite Sl. exact I2.
        * rewrite Sname. exact I3.
        * rewrite Sattr. exact I5.
        * rewrite Sname. exact I6.
        * rewrite Sres. exact I7.
        * rewrite Sct. exact I8.
        * (* still clean: the editor has not changed at all *)
          unfold s2_dirty, sess_dirty. cbn [x1 sh_h sh_en]. intros D. apply orb_false_iff in D. destruct D as [D1 D2].
          assert (h_entry h1 = h_entry (sh_h x)) as Same.
          { destruct A5 as [E|(e & E & D)]; [exact E|]. rewrite E, D in D1. discriminate. }
          assert (en_tdirty (sh_en x) = false) as D3.
          { destruct (en_tdirty (sh_en x)); [|reflexivity]. rewrite (Std eq_refl) in D2. discriminate. }
          assert (s2_dirty x = false) as D0.
          { unfold s2_dirty, sess_dirty. rewrite <- Same, D1, D3. reflexivity. }
          destruct (I9 D0) as [C1 C2].
          pose proof (mvol_inv_vol g _ _ _ _ i (sh_h x) (gview gh) Sm Hx' Hgh') as (_ & _ & I0 & _).
          destruct V1 as (_ & _ & I1' & _).
          destruct (inv_entry _ _ _ _ _ _ _ _ I0) as (e0 & He0 & Hf0 & Hs0).
          destruct (inv_entry _ _ _ _ _ _ _ _ I1') as (e1 & He1 & Hf1 & Hs1).
          rewrite Same, He0 in He1. injection He1 as <-. cbn [gview fst] in Hs0.
          split.
          -- rewrite C1. unfold first_field. rewrite <- Hf0, <- Hf1. reflexivity.
          -- rewrite C2. congruence.
      + rewrite nth_error_list_set_neq in Hxj by exact Hij. rewrite nth_error_list_set_neq in Hgj by exact Hij.
        exact (Se j xj gj Hxj Hgj).
    - cbn [st1 s2_hs]. rewrite map_list_set.
      replace (hslot x1) with (hslot x) by (unfold hslot; cbn [x1 sh_en]; symmetry; exact Sl).
      rewrite (list_set_same (map hslot (s2_hs st)) i (hslot x)); [exact Sn|].
      exact (nth_error_map_some hslot _ _ _ Hx). }
  split; [exact Hbf|]. split.
  { unfold s2_views. cbn [st1 s2_im s2_hs]. rewrite !map_list_set.
    apply (vviews_step g (s2_im st) im1 (map sh_h (s2_hs st)) (map gview gs) i h1 sz1 l1).
    - rewrite map_length. exact Hi.
    - rewrite !map_length. exact HL.
    - exact Hc. }
  split; [exact F|]. split.
  { intros j gj Hji Hgj. exact (Hc j (gview gj) Hji (nth_error_map_some gview _ _ _ Hgj)). }
  split; [reflexivity|]. unfold hslot. cbn [x1 sh_en]. exact Sl.
Qed.

(* ---------------------------------------------------------------- 4b. File::flush / drop of handle [i] *)
Lemma sfn_encode_blist e : Forall (fun b : N => b < 256) (se_name e) -> se_attrs e < 256 -> se_reserved_0 e < 256 ->
  se_create_time_0 e < 256 -> FatProofs.blist_ok (sfn_encode e).
Proof.
  intros Hn H1 H2 H3. unfold FatProofs.blist_ok. apply Forall_forall. unfold sfn_encode.
  repeat (apply Forall_app; split); try apply u16_bytes_lt; try apply u32_bytes_lt; try exact Hn.
  repeat constructor; assumption.
Qed.

(* the record the library serialises, for a handle in its invariant *)
Lemma sess_entry_fields h en ed sz : h_entry h = Some ed -> ed_first ed = h_first h -> ed_size ed = Some sz ->
  let e' := sess_entry g h en in
  se_name e' = se_name (en_data en) /\ se_attrs e' = se_attrs (en_data en) /\
  se_reserved_0 e' = se_reserved_0 (en_data en) /\ se_create_time_0 e' = se_create_time_0 (en_data en) /\
  se_first_cluster_lo e' = first_field h mod 65536 /\ se_size e' = sz.
Proof.
  intros He Hf Hs. cbv zeta. unfold sess_entry. rewrite He, Hs, Hf. unfold sfn_set_size, sfn_set_first, first_field.
  cbn [se_name se_attrs se_reserved_0 se_create_time_0 se_first_cluster_lo se_size]. repeat split.
Qed.

Lemma s2_flush_eq st i x :
  nth_error (s2_hs st) i = Some x ->
  s2_step g acc st (SFlush i) =
  ({| s2_im := if s2_dirty x
               then img_write (s2_im st) (root_slot_off g (hslot x)) (sfn_encode (sess_entry g (sh_h x) (sh_en x)))
               else s2_im st;
      s2_fi := s2_fi st;
      s2_hs := list_set (s2_hs st) i
                 {| sh_h := clear_dirty (sh_h x);
                    sh_en := {| en_slot := hslot x; en_data := sess_entry g (sh_h x) (sh_en x); en_tdirty := false |} |} |}, None).
Proof.
  intros Hx. unfold s2_step. rewrite Hx. unfold s2_put. rewrite flush_image_eq. reflexivity.
Qed.

Lemma in_mid_other {A} (a b y : A) l1 l2 : In y (l1 ++ a :: l2) -> y <> a -> In y (l1 ++ b :: l2).
Proof.
  intros H Hne. apply in_app_or in H. apply in_or_app. destruct H as [H|[H|H]]; [left; exact H|congruence|right; right; exact H].
Qed.

Theorem s2_flush_step st gs es ls i x gh :
  Sess2Inv st gs es ls -> nth_error (s2_hs st) i = Some x -> nth_error gs i = Some gh ->
  exists st' e' es' x',
    s2_step g acc st (SFlush i) = (st', None) /\
    Sess2Inv st' (list_set gs i {| gh_sz := gh_sz gh; gh_l := gh_l gh; gh_e := e' |}) es' ls /\
    same_outside_root g (s2_im st) (s2_im st') /\
    (exists es1 es2, es = es1 ++ gh_e gh :: es2 /\ es' = es1 ++ e' :: es2) /\
    same_id (gh_e gh) e' /\
    (s2_dirty x = false -> s2_im st' = s2_im st /\ e' = gh_e gh) /\
    s2_hs st' = list_set (s2_hs st) i x' /\ s2_dirty x' = false /\ hslot x' = hslot x /\ h_off (sh_h x') = h_off (sh_h x).
Proof.
  intros [Sg Sm Ss Se Sn] Hx Hgh.
  pose proof (fixed_root_vgeom_ok g Hg) as Hok.
  pose proof (nth_error_map_some sh_h _ _ _ Hx) as Hx'. pose proof (nth_error_map_some gview _ _ _ Hgh) as Hgh'.
  pose proof (mvol_inv_vol g _ _ _ _ i (sh_h x) (gview gh) Sm Hx' Hgh') as (Hb & _ & I0 & _). cbn [gview fst snd] in I0.
  destruct (inv_entry _ _ _ _ _ _ _ _ I0) as (ed & Hed & Hef & Hes).
  pose proof (inv_size _ _ _ _ _ _ _ _ I0) as Hsz. unfold u32_max in Hsz.
  assert (first_field (sh_h x) < 65536) as Hff.
  { unfold first_field. pose proof (inv_head fstore _ _ _ _ _ _ _ I0) as Hh. destruct (h_first (sh_h x)) as [f|]; [|lia].
    assert (In f (gh_l gh)) as Hin by (eapply nth_error_In; symmetry; exact Hh).
    destruct (inv_range _ _ _ _ _ _ _ _ I0 f Hin) as (R & _). pose proof (fixed_clusters_small g Hg). lia. }
  destruct (Se i x gh Hx Hgh) as [I1 I2 I3 I4 I5 I6 I7 I8 I9].
  destruct (sess_entry_fields (sh_h x) (sh_en x) ed (gh_sz gh) Hed Hef Hes) as (Nm & At & Rs & Ct & Lo & Sz). cbv zeta in Nm, At, Rs, Ct, Lo, Sz.
  set (e2 := sess_entry g (sh_h x) (sh_en x)) in *.
  set (x1 := {| sh_h := clear_dirty (sh_h x); sh_en := {| en_slot := hslot x; en_data := e2; en_tdirty := false |} |}).
  assert (s2_dirty x1 = false) as Hclean.
  { unfold s2_dirty, sess_dirty. cbn [x1 sh_h sh_en en_tdirty]. unfold clear_dirty. cbn [h_entry]. rewrite Hed. reflexivity. }
  assert (first_field (sh_h x1) = first_field (sh_h x)) as Hff1 by reflexivity.
  (* the static part of the handle's binding, whatever entry [e'] the scan lists for its slot afterwards *)
  assert (forall es' e', In e' es' -> e_sfn_slot e' = hslot x -> e_sfn e' = se_name (en_data (sh_en x)) -> e_attr e' = 0 ->
            e_cluster e' = first_field (sh_h x) -> e_size e' = gh_sz gh ->
            EntInv es' x1 {| gh_sz := gh_sz gh; gh_l := gh_l gh; gh_e := e' |}) as Mk.
  { intros es' e' Q1 Q2 Q3 Q4 Q5 Q6. constructor; unfold hslot; cbn [x1 sh_h sh_en gh_e gh_sz en_slot en_data].
    - exact Q1.
    - exact Q2.
    - rewrite Nm. exact Q3.
    - exact Q4.
    - rewrite At. exact I5.
    - rewrite Nm. exact I6.
    - rewrite Rs. exact I7.
    - rewrite Ct. exact I8.
    - intros _. split; [exact Q5|exact Q6]. }
  assert (i < length (s2_hs st))%nat as Hi by (apply nth_error_Some; congruence).
  assert (map gview (list_set gs i {| gh_sz := gh_sz gh; gh_l := gh_l gh; gh_e := gh_e gh |}) = map gview gs) as Hgv0.
  { rewrite map_list_set. apply list_set_same. exact Hgh'. }
  destruct (in_split _ _ I1) as (es1 & es2 & Ees).
  rewrite (s2_flush_eq st i x Hx). fold e2. fold x1.
  destruct (s2_dirty x) eqn:Dirty.
  - (* the entry is written *)
    destruct (dir_scan_rewrite false _ 0 [] _ _ _ Ss es1 (gh_e gh) es2 Ees) as (k & pk & Hk & Hslot & He & Hrw).
    rewrite N.add_0_l in Hslot, He, Hrw.
    destruct (root_region_shape g (s2_im st)) as [Hsh _]. rewrite (proj1 Hsh) in Hk.
    set (ss := root_region_slots g (s2_im st)) in *. set (s := nth k ss []) in *.
    assert (length s = 32%nat) as Hls.
    { destruct Hsh as [S1 S2]. rewrite Forall_forall in S2. apply S2. apply nth_In. lia. }
    assert (hslot x = N.of_nat k) as Hkx by (rewrite <- I2; exact Hslot).
    assert (length (se_name e2) = 11%nat) as Ln by (rewrite Nm; exact (sfn_legal_len _ I6)).
    destruct (sfn_encode_readback e2 Ln) as (R12 & R26 & R28 & RL). cbv zeta in R12, R26, R28, RL.
    set (s' := sfn_encode e2) in *.
    assert (e_sfn (gh_e gh) = firstn 11 s) as Hsfn by (rewrite He; reflexivity).
    assert (e_attr (gh_e gh) = byte_at s 11) as Hat by (rewrite He; reflexivity).
    assert (firstn 12 s' = firstn 12 s) as X2.
    { rewrite R12, Nm, At, I5, (firstn_12_split s Hls), <- Hsfn, <- Hat, I3, I4. reflexivity. }
    set (e' := mk_entry pk s' (N.of_nat k) false).
    destruct (mk_entry_same_id pk s s' (N.of_nat k) false X2) as (J1 & J2 & J3 & J4 & J5 & J6). cbv zeta in J1, J2, J3, J4, J5, J6.
    fold e' in J1, J2, J3, J4, J5, J6. rewrite <- He in J1, J2, J3, J4, J5, J6.
    set (im' := img_write (s2_im st) (root_slot_off g (hslot x)) s').
    assert (img_same (put_root_slots g (s2_im st) (set_nth k s' ss)) im') as X5.
    { unfold im'. rewrite Hkx. apply write_slot_is_put; [exact Hk|exact RL]. }
    pose proof (set_nth_shape (root_slot_count g) s' RL ss k Hsh) as Hsh3.
    assert (same_outside_root g (s2_im st) im') as Hout.
    { intros o Ho. rewrite (X5 o). apply put_root_slots_outside; [exact Hsh3|exact Ho]. }
    assert (root_region_slots g im' = set_nth k s' ss) as Hrs.
    { rewrite (root_region_same g _ im' X5). apply root_region_put. exact Hsh3. }
    assert (FatProofs.bytes_ok im') as Hb'.
    { unfold im'. apply img_write_bytes_ok; [exact Hb|]. apply sfn_encode_blist.
      - rewrite Nm. exact (sfn_legal_lt _ I6).
      - rewrite At, I5. lia.
      - rewrite Rs. exact I7.
      - rewrite Ct. exact I8. }
    exists {| s2_im := im'; s2_fi := s2_fi st; s2_hs := list_set (s2_hs st) i x1 |}, e', (es1 ++ e' :: es2), x1.
    split; [reflexivity|]. split.
    { constructor; cbn [s2_im s2_fi s2_hs].
      - rewrite <- Sg. apply (parse_geom_frame g (s2_im st) im'); [pose proof (root_off_ge g Hg); lia|exact Hout].
      - rewrite !map_list_set.
        replace (gview {| gh_sz := gh_sz gh; gh_l := gh_l gh; gh_e := e' |}) with (gview gh) by reflexivity.
        rewrite (list_set_same (map gview gs) i (gview gh) Hgh').
        apply (mvol_inv_set_handle g im' (s2_fi st) (map sh_h (s2_hs st)) (map gview gs) i (sh_h x)); [|exact Hx'|].
        + exact (mvol_inv_root_frame g Hg _ _ _ _ _ Hout Hb' Sm).
        + intros sz l J. exact (FileInv_clear_dirty _ _ _ _ _ _ _ _ J).
      - rewrite Hrs. exact (Hrw s' X2).
      - intros j xj gj Hxj Hgj. destruct (Nat.eq_dec i j) as [<-|Hij].
        + rewrite nth_error_list_set_eq in Hxj by lia. rewrite nth_error_list_set_eq in Hgj by (rewrite <- (si_len st gs es ls); [lia|constructor; assumption]).
          injection Hxj as <-. injection Hgj as <-. apply Mk.
          * apply in_or_app. right. left. reflexivity.
          * rewrite J6. exact I2.
          * rewrite J3. exact I3.
          * rewrite J4. exact I4.
          * unfold e', mk_entry. cbn [e_cluster]. rewrite R26, Lo. lia.
          * unfold e', mk_entry. cbn [e_size]. rewrite R28, Sz. lia.
        + rewrite nth_error_list_set_neq in Hxj by exact Hij. rewrite nth_error_list_set_neq in Hgj by exact Hij.
          destruct (Se j xj gj Hxj Hgj) as [K1 K2 K3 K4 K5 K6 K7 K8 K9]. constructor; try assumption.
          rewrite Ees in K1. apply (in_mid_other (gh_e gh) e' _ _ _ K1). intros C.
          (* two handles, two slots *)
          assert (hslot xj = hslot x) as Eq by (rewrite <- K2, <- I2, C; reflexivity).
          apply Hij. apply (NoDup_nth_error (map hslot (s2_hs st))) ; [exact Sn| |].
          * rewrite map_length. exact Hi.
          * rewrite (nth_error_map_some hslot _ _ _ Hx), (nth_error_map_some hslot _ _ _ Hxj), Eq. reflexivity.
      - rewrite map_list_set. replace (hslot x1) with (hslot x) by reflexivity.
        rewrite (list_set_same (map hslot (s2_hs st)) i (hslot x)); [exact Sn|exact (nth_error_map_some hslot _ _ _ Hx)]. }
    split; [exact Hout|]. split; [exists es1, es2; split; [exact Ees|reflexivity]|].
    split; [repeat split; assumption|]. split; [discriminate|]. split; [reflexivity|]. split; [exact Hclean|]. split; reflexivity.
  - (* nothing is written: the device already holds the handle's first cluster and size *)
    destruct (I9 eq_refl) as [C1 C2].
    exists {| s2_im := s2_im st; s2_fi := s2_fi st; s2_hs := list_set (s2_hs st) i x1 |}, (gh_e gh), es, x1.
    split; [reflexivity|]. split.
    { constructor; cbn [s2_im s2_fi s2_hs].
      - exact Sg.
      - rewrite map_list_set, Hgv0.
        apply (mvol_inv_set_handle g (s2_im st) (s2_fi st) (map sh_h (s2_hs st)) (map gview gs) i (sh_h x)); [exact Sm|exact Hx'|].
        intros sz l J. exact (FileInv_clear_dirty _ _ _ _ _ _ _ _ J).
      - exact Ss.
      - intros j xj gj Hxj Hgj. destruct (Nat.eq_dec i j) as [<-|Hij].
        + rewrite nth_error_list_set_eq in Hxj by lia. rewrite nth_error_list_set_eq in Hgj by (rewrite <- (si_len st gs es ls); [lia|constructor; assumption]).
          injection Hxj as <-. injection Hgj as <-. apply Mk; assumption.
        + rewrite nth_error_list_set_neq in Hxj by exact Hij. rewrite nth_error_list_set_neq in Hgj by exact Hij.
          exact (Se j xj gj Hxj Hgj).
      - rewrite map_list_set. replace (hslot x1) with (hslot x) by reflexivity.
        rewrite (list_set_same (map hslot (s2_hs st)) i (hslot x)); [exact Sn|exact (nth_error_map_some hslot _ _ _ Hx)]. }
    split; [intros o _; reflexivity|]. split; [exists es1, es2; split; [exact Ees|exact Ees]|].
    split; [apply same_id_refl|]. split; [intros _; split; reflexivity|]. split; [reflexivity|]. split; [exact Hclean|]. split; reflexivity.
Qed.

(* ---------------------------------------------------------------- 4c. root_dir().create_file while other handles are open *)
Variable upper : N -> list N.
Variable oem : N -> N.

Lemma sess_open_empty2 im k s : root_slot_bytes g im k = s ->
  byte_at s 11 = 0 -> u16_at s 26 = 0 -> u32_at s 28 = 0 ->
  exists e0, sess_open g im k = Some (empty_file, {| en_slot := k; en_data := e0; en_tdirty := false |}) /\
             se_name e0 = firstn 11 s /\ se_attrs e0 = 0 /\ se_reserved_0 e0 = byte_at s 12 /\ se_create_time_0 e0 = byte_at s 13.
Proof.
  intros Hs H11 H26 H28. unfold sess_open. rewrite Hs. unfold slot_decode, attrs_truncate. rewrite H11.
  change (N.land (0 mod 64) ATTR_LFN =? ATTR_LFN) with false. cbv iota.
  unfold sfn_is_dir, sfn_first_cluster. cbn [se_attrs se_first_cluster_hi se_first_cluster_lo se_size].
  change (negb (N.land (0 mod 64) ATTR_DIRECTORY =? 0)) with false. cbv iota.
  rewrite (is32_fixed g Hg), H26, H28. cbn [N.mul N.add N.eqb].
  eexists. split; [reflexivity|]. repeat split.
Qed.

Theorem s2_create_step st gs es ls name now range im1 :
  Sess2Inv st gs es ls -> TimeProofs.datetime_valid now = true ->
  vol_create_empty_file_root upper oem (s2_im st) name now = (Ok (Some range), im1) ->
  exists st' ne es1 es2 x',
    s2_create upper oem st name now = Some st' /\ s2_im st' = im1 /\ s2_fi st' = s2_fi st /\ es = es1 ++ es2 /\
    Sess2Inv st' (gs ++ [{| gh_sz := 0; gh_l := []; gh_e := ne |}]) (es1 ++ ne :: es2) ls /\
    same_outside_root g (s2_im st) im1 /\
    s2_hs st' = s2_hs st ++ [x'] /\ s2_dirty x' = false /\ hslot x' = e_sfn_slot ne /\ sh_h x' = empty_file /\
    e_lfn ne = stored_lfn name /\ e_lfn_ok ne = true /\ e_attr ne = 0 /\ e_size ne = 0 /\ e_cluster ne = 0 /\
    sfn_legal_b (e_sfn ne) = true /\ ~ In (e_sfn ne) (map e_sfn es) /\
    e_first_slot ne = fst range /\ e_sfn_slot ne + 1 = snd range /\ ~ In (e_sfn_slot ne) (map e_sfn_slot es).
Proof.
  intros [Sg Sm Ss Se Sn] Hnow Hc.
  pose proof (fixed_root_vgeom_ok g Hg) as Hok.
  set (im := s2_im st) in *. set (fi := s2_fi st) in *.
  assert (fixed_root_geom (parse_geom im)) as Hgp by (rewrite Sg; exact Hg).
  assert (abs im = abs_fixed g im es ls []) as Habs0.
  { rewrite <- Sg. apply abs_fixed_root; rewrite Sg; [exact (fg_bits g Hg)|exact Ss]. }
  assert (v_root_issues (abs im) = []) as Hiss by (rewrite Habs0; reflexivity).
  destruct (create_scan upper oem im name now range im1 Hgp Hiss Hnow Hc)
    as (es' & ls' & es1 & es2 & ne & ss' & k & pk & Habs & Ees & Hsh & Him1 & Hscan1 & Hk & Hslot & Hne & Hrw
        & L1 & L2 & A1 & S1 & C1 & HL & HU & P1 & P2 & Hsf).
  rewrite Sg in Habs, Hsh, Him1, Hk, Hsf.
  (* the scan create_file started from is the scan of the invariant *)
  assert (es' = es /\ ls' = ls) as [-> ->].
  { rewrite Habs0 in Habs. split.
    - assert (v_root (abs_fixed g im es ls []) = v_root (abs_fixed g im es' ls' [])) as X by (rewrite Habs; reflexivity).
      cbn [abs_fixed v_root] in X. change MAX_DEPTH with (S 23) in X. rewrite !decode_entries_S in X.
      apply (f_equal (map node_entry)) in X. rewrite !map_node_entry in X. symmetry. exact X.
    - assert (v_labels (abs_fixed g im es ls []) = v_labels (abs_fixed g im es' ls' [])) as X by (rewrite Habs; reflexivity).
      symmetry. exact X. }
  pose proof (vol_create_confined upper oem im name now _ im1 Hgp Hc) as (Hout & _ & Hpg1 & _). rewrite Sg in Hout, Hpg1.
  destruct Sm as (Hb & W & ML & MI & MD).
  pose proof (vol_create_bytes_ok upper oem im name now _ im1 Hnow Hb Hc) as Hb1.
  assert (root_region_slots g im1 = ss') as Hrs1 by (rewrite Him1; apply root_region_put; exact Hsh).
  set (s := nth k ss' []) in *.
  assert (length s = 32%nat) as Hls.
  { destruct Hsh as [S1' S2]. rewrite Forall_forall in S2. apply S2. apply nth_In. lia. }
  assert (root_slot_bytes g im1 (N.of_nat k) = s) as Hsb.
  { unfold root_slot_bytes, root_slot_off. apply img_read_eq; [exact Hls|]. intros j Hj.
    pose proof (root_region_slot_bytes g im1 k j Hk Hj) as X. rewrite Hrs1 in X. fold s in X. rewrite X. f_equal. lia. }
  assert (byte_at s 11 = 0) as B11 by (rewrite <- A1, Hne; reflexivity).
  assert (u16_at s 26 = 0) as B26 by (rewrite <- C1, Hne; reflexivity).
  assert (u32_at s 28 = 0) as B28 by (rewrite <- S1, Hne; reflexivity).
  assert (e_sfn ne = firstn 11 s) as Hsfn by (rewrite Hne; reflexivity).
  destruct (sess_open_empty2 im1 (N.of_nat k) s Hsb B11 B26 B28) as (e0 & Hopen & N0 & At0 & Rs0 & Ct0).
  assert (forall j, (j < 32)%nat -> byte_at s j < 256) as Hbyte.
  { intros j Hj. unfold byte_at. rewrite <- Hsb. unfold root_slot_bytes.
    apply (img_read_bytes_ok im1 Hb1 32 (root_slot_off g (N.of_nat k))). apply nth_In. rewrite img_read_length. exact Hj. }
  set (x1 := {| sh_h := empty_file; sh_en := {| en_slot := N.of_nat k; en_data := e0; en_tdirty := false |} |}).
  set (st1 := {| s2_im := im1; s2_fi := fi; s2_hs := s2_hs st ++ [x1] |}).
  assert (s2_create upper oem st name now = Some st1) as Hcreate.
  { unfold s2_create, sess_create. fold im fi. rewrite Hc. destruct range as [p q]. cbn [snd] in P2. rewrite Hpg1.
    replace (q - 1) with (N.of_nat k) by lia. rewrite Hopen. reflexivity. }
  assert (length (s2_hs st) = length gs) as HL' by (rewrite !map_length in ML; exact ML).
  assert (NoDup (map e_sfn_slot (es1 ++ ne :: es2))) as NDs by exact (proj2 (dir_scan_slots false ss' 0 [] _ _ _ Hscan1)).
  assert (~ In (e_sfn_slot ne) (map e_sfn_slot es)) as Hfresh.
  { rewrite Ees, map_app. rewrite map_app in NDs. cbn [map] in NDs. exact (NoDup_remove_2 _ _ _ NDs). }
  exists st1, ne, es1, es2, x1.
  split; [exact Hcreate|]. split; [reflexivity|]. split; [reflexivity|]. split; [exact Ees|]. split.
  { constructor; cbn [st1 s2_im s2_fi s2_hs].
    - exact Hpg1.
    - rewrite !map_app. cbn [map x1 sh_h gview gh_sz gh_l]. apply (mvol_inv_snoc_empty g Hok).
      apply (mvol_inv_root_frame g Hg im im1 fi _ _ Hout Hb1). split; [exact Hb|]. split; [exact W|]. split; [exact ML|]. split; assumption.
    - rewrite Hrs1. exact Hscan1.
    - intros j xj gj Hxj Hgj. destruct (Nat.lt_ge_cases j (length (s2_hs st))) as [Hj|Hj].
      + rewrite nth_error_app1 in Hxj by exact Hj. rewrite nth_error_app1 in Hgj by (rewrite <- HL'; exact Hj).
        destruct (Se j xj gj Hxj Hgj) as [K1 K2 K3 K4 K5 K6 K7 K8 K9]. constructor; try assumption.
        rewrite Ees in K1. apply in_app_or in K1. apply in_or_app. destruct K1 as [K1|K1]; [left; exact K1|right; right; exact K1].
      + rewrite nth_error_app2 in Hxj by exact Hj. rewrite nth_error_app2 in Hgj by (rewrite <- HL'; exact Hj). rewrite <- HL' in Hgj.
        destruct (j - length (s2_hs st))%nat as [|d]; [|destruct d; discriminate]. cbn [nth_error] in Hxj, Hgj.
        injection Hxj as <-. injection Hgj as <-.
        constructor; unfold hslot; cbn [x1 sh_h sh_en gh_e gh_sz en_slot en_data].
        * apply in_or_app. right. left. reflexivity.
        * exact Hslot.
        * rewrite N0. exact Hsfn.
        * exact A1.
        * exact At0.
        * rewrite N0, <- Hsfn. exact HL.
        * rewrite Rs0. apply Hbyte. lia.
        * rewrite Ct0. apply Hbyte. lia.
        * intros _. split; [exact C1|exact S1].
    - rewrite map_app. cbn [map]. replace (hslot x1) with (e_sfn_slot ne) by (symmetry; exact Hslot).
      apply NoDup_insert with (a := map hslot (s2_hs st)) (b := @nil N); rewrite app_nil_r; [exact Sn|].
      intros Hin. apply in_map_iff in Hin. destruct Hin as (xj & Eq & Hin).
      apply In_nth_error in Hin. destruct Hin as (j & Hxj).
      destruct (nth_error gs j) as [gj|] eqn:Hgj.
      2:{ apply nth_error_None in Hgj. apply nth_error_Some_len in Hxj. lia. }
      destruct (Se j xj gj Hxj Hgj) as [K1 K2 _ _ _ _ _ _ _]. apply Hfresh. rewrite <- Eq, <- K2. apply in_map. exact K1. }
  split; [exact Hout|]. split; [reflexivity|]. split; [reflexivity|]. split; [symmetry; exact Hslot|]. split; [reflexivity|].
  split; [exact L1|]. split; [exact L2|]. split; [exact A1|]. split; [exact S1|]. split; [exact C1|]. split; [exact HL|].
  split; [exact HU|]. split; [exact P1|]. split; [exact P2|exact Hfresh].
Qed.

(* ---------------------------------------------------------------- 4d. the frame relative to the image [im0] the session
   started from: the session allocates only clusters that were FREE in [im0]; every other cluster keeps its FAT value and
   its data; outside the FAT copies, the root region and those clusters no byte changes; a cluster that was free and is in
   no chain of the session is free *)
Definition free_in (im0 : image) (x : N) : Prop := fat_val g im0 x = FFree.

Record Frame2 (im0 im : image) (chains : list (list N)) : Prop := {
  f2_chain : forall l x, In l chains -> In x l -> free_in im0 x;
  f2_fat : forall x, 2 <= x < g_clusters g + 2 -> ~ free_in im0 x -> fat_val g im x = fat_val g im0 x;
  f2_bytes : forall a, ~ in_store_area g a -> (a < g_root_off g \/ g_root_off g + root_bytes g <= a) ->
               (forall c, 2 <= c < g_clusters g + 2 -> free_in im0 c -> ~ in_cluster g c a) -> img_get im a = img_get im0 a;
  f2_else : forall x, 2 <= x < g_clusters g + 2 -> (forall l, In l chains -> ~ In x l) -> free_in im0 x -> free_in im x }.

Lemma frame2_start im0 : Frame2 im0 im0 [].
Proof. constructor; [intros l x []|reflexivity|reflexivity|]. intros x _ _ H. exact H. Qed.

Lemma free_in_dec im0 x : free_in im0 x \/ ~ free_in im0 x.
Proof. unfold free_in. destruct (fat_val g im0 x); [left; reflexivity|right; discriminate..]. Qed.

Lemma frame2_op im0 im im' chains i l l' :
  Frame2 im0 im chains -> nth_error chains i = Some l -> OpFrame im im' l l' -> Frame2 im0 im' (list_set chains i l').
Proof.
  intros [F1 F2 F3 F4] Hl (A1 & A2 & A3 & A4 & A5).
  assert (In l chains) as Hlin by (eapply nth_error_In; exact Hl).
  assert (i < length chains)%nat as Hi by (apply nth_error_Some; congruence).
  assert (forall x, In x l' -> free_in im0 x) as F1'.
  { intros x Hx. destruct (A1 x Hx) as [Hin|Hf]; [exact (F1 l x Hlin Hin)|].
    destruct (free_in_dec im0 x) as [Y|Nf]; [exact Y|]. exfalso. apply Nf. unfold free_in. rewrite <- (F2 x (A5 x Hx) Nf). exact Hf. }
  constructor.
  - intros l2 x Hl2 Hx. destruct (in_list_set _ _ _ _ Hl2) as [->|Hl2']; [exact (F1' x Hx)|exact (F1 l2 x Hl2' Hx)].
  - intros x R Hn. rewrite <- (F2 x R Hn). apply A3; [exact R| |]; intros Hin; apply Hn; [exact (F1 l x Hlin Hin)|exact (F1' x Hin)].
  - intros a Ha Hr Hc. rewrite <- (F3 a Ha Hr Hc). apply A2; [exact Ha|]. intros c Hin. exact (Hc c (A5 c Hin) (F1' c Hin)).
  - intros x R Hn H0.
    assert (~ In x l') as Hnl'.
    { apply (Hn l'). eapply nth_error_In. apply nth_error_list_set_eq. exact Hi. }
    destruct (in_dec N.eq_dec x l) as [Hin|Hnin].
    + exact (A4 x Hin Hnl').
    + unfold free_in. rewrite (A3 x R Hnin Hnl'). apply (F4 x R); [|exact H0].
      intros l2 Hl2. destruct (in_list_set_old l' l2 chains i Hl2) as [E|Hl2'].
      * rewrite Hl in E. injection E as <-. exact Hnin.
      * exact (Hn l2 Hl2').
Qed.

Lemma frame2_root im0 im im' chains : Frame2 im0 im chains -> same_outside_root g im im' -> Frame2 im0 im' chains.
Proof.
  intros [F1 F2 F3 F4] Hout. constructor.
  - exact F1.
  - intros x R Hn. rewrite (fat_val_frame g im im' x Hg Hout (in_range_intro g x R)). exact (F2 x R Hn).
  - intros a Ha Hr Hc. rewrite (Hout a Hr). exact (F3 a Ha Hr Hc).
  - intros x R Hn H0. unfold free_in. rewrite (fat_val_frame g im im' x Hg Hout (in_range_intro g x R)). exact (F4 x R Hn H0).
Qed.

Lemma frame2_snoc im0 im chains : Frame2 im0 im chains -> Frame2 im0 im (chains ++ [[]]).
Proof.
  intros [F1 F2 F3 F4]. constructor; try assumption.
  - intros l x Hl Hx. apply in_app_or in Hl. destruct Hl as [Hl|[<-|[]]]; [exact (F1 l x Hl Hx)|destruct Hx].
  - intros x R Hn H0. apply (F4 x R); [|exact H0]. intros l Hl. apply Hn. apply in_or_app. left. exact Hl.
Qed.

(* what the decoder needs of the old clusters (Proofs/VolSessionProofs.same_nonfree) *)
Lemma frame2_nonfree im0 im chains : Frame2 im0 im chains -> same_nonfree g im0 im.
Proof.
  intros [F1 F2 F3 _] x R Hn. apply in_range_iff in R. pose proof (fixed_root_vgeom_ok g Hg) as Hok. split; [exact (F2 x R Hn)|].
  unfold cluster_bytes. apply img_read_ext. intros i Hi. rewrite N2Nat.id in Hi.
  assert (in_cluster g x (g_cluster_off g x + i)) as Hin by (unfold in_cluster; lia).
  apply F3.
  - exact (cluster_above_area g x _ Hok ltac:(lia) Hin).
  - right. pose proof (cluster_after_root g x ltac:(pose proof (fg_bps g Hg); lia)). lia.
  - intros c Rc Fc Hc. apply (clusters_disjoint g c x (g_cluster_off g x + i)); [lia|lia| |exact Hc|exact Hin].
    intros ->. exact (Hn Fc).
Qed.

(* ---------------------------------------------------------------- 4e. the entries that belong to no handle *)
Definition is_hslot (slots : list N) (e : entry) : bool := existsb (N.eqb (e_sfn_slot e)) slots.
Definition old_part (slots : list N) (es : list entry) : list entry := filter (fun e => negb (is_hslot slots e)) es.

Lemma is_hslot_in slots e : In (e_sfn_slot e) slots -> is_hslot slots e = true.
Proof. intros H. unfold is_hslot. apply existsb_exists. exists (e_sfn_slot e). split; [exact H|apply N.eqb_refl]. Qed.

Lemma is_hslot_true slots e : is_hslot slots e = true -> In (e_sfn_slot e) slots.
Proof. unfold is_hslot. intros H. apply existsb_exists in H. destruct H as (s & Hs & E). apply N.eqb_eq in E. subst s. exact Hs. Qed.

Lemma old_part_flush slots es1 e e' es2 : e_sfn_slot e' = e_sfn_slot e -> In (e_sfn_slot e) slots ->
  old_part slots (es1 ++ e' :: es2) = old_part slots (es1 ++ e :: es2).
Proof.
  intros E Hin. unfold old_part. rewrite !filter_app. cbn [filter].
  rewrite (is_hslot_in slots e Hin), (is_hslot_in slots e' ltac:(rewrite E; exact Hin)). reflexivity.
Qed.

Lemma old_part_create slots es1 ne es2 : ~ In (e_sfn_slot ne) (map e_sfn_slot (es1 ++ es2)) ->
  old_part (slots ++ [e_sfn_slot ne]) (es1 ++ ne :: es2) = old_part slots (es1 ++ es2).
Proof.
  intros Hn. unfold old_part. rewrite !filter_app. cbn [filter].
  rewrite (is_hslot_in (slots ++ [e_sfn_slot ne]) ne ltac:(apply in_or_app; right; left; reflexivity)). cbn [negb].
  assert (forall l, (forall e, In e l -> In e (es1 ++ es2)) ->
            filter (fun e => negb (is_hslot (slots ++ [e_sfn_slot ne]) e)) l = filter (fun e => negb (is_hslot slots e)) l) as X.
  { intros l Hl. apply filter_ext_in. intros e He. f_equal. unfold is_hslot. rewrite existsb_app. cbn [existsb].
    destruct (N.eqb_spec (e_sfn_slot e) (e_sfn_slot ne)) as [E|_]; [|rewrite !orb_false_r; reflexivity].
    exfalso. apply Hn. rewrite <- E. apply in_map. exact (Hl e He). }
  rewrite (X es1), (X es2); [reflexivity| |]; intros e He; apply in_or_app; [right|left]; exact He.
Qed.

(* ---------------------------------------------------------------- 4f. the invariant of a session that started from [im0],
   whose root scan listed [es0] *)
Record RunInv (im0 : image) (es0 : list entry) (st : s2state) (gs : list ghost) (es : list entry) (ls : list (list N)) : Prop := {
  ri_inv : Sess2Inv st gs es ls;
  ri_frame : Frame2 im0 (s2_im st) (map gh_l gs);
  ri_old : old_part (map hslot (s2_hs st)) es = es0 }.

Definition gs_rel (gs gs' : list ghost) : Prop := Forall2 (fun a b => same_id (gh_e a) (gh_e b)) gs gs'.

Lemma gs_rel_refl gs : gs_rel gs gs.
Proof. induction gs; constructor; [apply same_id_refl|assumption]. Qed.

Lemma gs_rel_trans a b c : gs_rel a b -> gs_rel b c -> gs_rel a c.
Proof.
  intros H. revert c. induction H as [|x y l l' R H IH]; intros c Hc; inversion Hc; subst; constructor.
  - eapply same_id_trans; eassumption.
  - apply IH. assumption.
Qed.

Lemma gs_rel_set gs i gh gh' : nth_error gs i = Some gh -> same_id (gh_e gh) (gh_e gh') -> gs_rel gs (list_set gs i gh').
Proof.
  revert i. induction gs as [|a gs IH]; intros [|i] H S; cbn [nth_error list_set] in *; try discriminate.
  - injection H as ->. constructor; [exact S|apply gs_rel_refl].
  - constructor; [apply same_id_refl|exact (IH i H S)].
Qed.

Lemma vviews_ext im : forall hs hs' gs, map h_off hs = map h_off hs' -> vviews g im hs gs = vviews g im hs' gs.
Proof.
  induction hs as [|h hs IH]; intros [|h' hs'] gs H; try discriminate; [reflexivity|].
  cbn [map] in H. injection H as E H. destruct gs as [|gh gs]; [reflexivity|]. cbn [vviews]. rewrite E, (IH hs' gs H). reflexivity.
Qed.

Definition s2op_ok (op : s2op) : Prop :=
  match op with SOp _ o now => op_ok o /\ TimeProofs.datetime_valid now = true | SFlush _ => True end.

(* ANY RUN of calls on the handles and flushes / drops of handles, in any order *)
Theorem s2_run_inv im0 es0 : forall ops st gs es ls,
  Forall s2op_ok ops -> RunInv im0 es0 st gs es ls ->
  exists st' rs gs' es', s2_run g acc st ops = (st', rs) /\ RunInv im0 es0 st' gs' es' ls /\
    bf_multi (s2_views st gs) (file_ops ops) rs = Some (s2_views st' gs') /\
    gs_rel gs gs' /\ map hslot (s2_hs st') = map hslot (s2_hs st) /\
    map e_sfn es' = map e_sfn es /\ map e_lfn es' = map e_lfn es.
Proof.
  induction ops as [|op ops IH]; intros st gs es ls Hf R.
  - exists st, [], gs, es. split; [reflexivity|]. split; [exact R|]. split; [reflexivity|]. split; [apply gs_rel_refl|]. repeat split.
  - inversion Hf as [|? ? Hop Hf']; subst. destruct R as [Si Fr Ol]. pose proof (si_len st gs es ls Si) as HL.
    destruct op as [i o now|i]; cbn [s2_run file_ops flat_map app].
    + (* a call *)
      destruct (nth_error (s2_hs st) i) as [x|] eqn:Hx.
      2:{ cbn [s2_step]. rewrite Hx. cbn [bf_multi]. unfold s2_views at 1. rewrite nth_error_vviews, nth_error_map, Hx. cbn [option_map].
          destruct (IH st gs es ls Hf' (Build_RunInv _ _ _ _ _ _ Si Fr Ol)) as (st' & rs & gs' & es' & Hr & H).
          exists st', rs, gs', es'. rewrite Hr. split; [reflexivity|exact H]. }
      destruct (nth_error gs i) as [gh|] eqn:Hgh.
      2:{ apply nth_error_None in Hgh. apply nth_error_Some_len in Hx. lia. }
      destruct Hop as [Ho Hnow].
      destruct (s2_op_step st gs es ls i o now x gh Si Ho Hnow Hx Hgh)
        as (st1 & r & sz1 & l1 & x1 & v1 & Hs & Si1 & Hbf & Hv & F & _ & Hhs & Hsl).
      set (gh1 := {| gh_sz := sz1; gh_l := l1; gh_e := gh_e gh |}) in *.
      assert (map hslot (s2_hs st1) = map hslot (s2_hs st)) as Hslots.
      { rewrite Hhs, map_list_set, Hsl. apply list_set_same. exact (nth_error_map_some hslot _ _ _ Hx). }
      assert (RunInv im0 es0 st1 (list_set gs i gh1) es ls) as R1.
      { constructor; [exact Si1| |rewrite Hslots; exact Ol].
        rewrite map_list_set. cbn [gh1 gh_l]. apply (frame2_op im0 (s2_im st) _ _ i (gh_l gh)); [exact Fr| |exact F].
        exact (nth_error_map_some gh_l _ _ _ Hgh). }
      destruct (IH st1 _ es ls Hf' R1) as (st2 & rs & gs2 & es2 & Hr & R2 & Hbr & G2 & S2 & N2).
      exists st2, (r :: rs), gs2, es2. rewrite Hs, Hr. split; [reflexivity|]. split; [exact R2|]. split.
      * cbn [bf_multi]. unfold s2_views at 1. rewrite nth_error_vviews.
        rewrite (nth_error_map_some sh_h _ _ _ Hx), (nth_error_map_some gview _ _ _ Hgh). cbn [gview fst snd].
        rewrite Hbf. fold (s2_views st gs). rewrite Hv. exact Hbr.
      * split; [|split; [rewrite S2; exact Hslots|exact N2]].
        apply (gs_rel_trans gs (list_set gs i gh1) gs2); [|exact G2]. apply (gs_rel_set gs i gh gh1 Hgh). apply same_id_refl.
    + (* flush / drop *)
      destruct (nth_error (s2_hs st) i) as [x|] eqn:Hx.
      2:{ cbn [s2_step]. rewrite Hx.
          destruct (IH st gs es ls Hf' (Build_RunInv _ _ _ _ _ _ Si Fr Ol)) as (st' & rs & gs' & es' & Hr & H).
          exists st', rs, gs', es'. rewrite Hr. split; [reflexivity|exact H]. }
      destruct (nth_error gs i) as [gh|] eqn:Hgh.
      2:{ apply nth_error_None in Hgh. apply nth_error_Some_len in Hx. lia. }
      destruct (s2_flush_step st gs es ls i x gh Si Hx Hgh)
        as (st1 & e1 & es1 & x1 & Hs & Si1 & Hout & (ea & eb & Ees & Ees1) & Sid & _ & Hhs & _ & Hsl & Hoff).
      set (gh1 := {| gh_sz := gh_sz gh; gh_l := gh_l gh; gh_e := e1 |}) in *.
      assert (map hslot (s2_hs st1) = map hslot (s2_hs st)) as Hslots.
      { rewrite Hhs, map_list_set, Hsl. apply list_set_same. exact (nth_error_map_some hslot _ _ _ Hx). }
      assert (RunInv im0 es0 st1 (list_set gs i gh1) es1 ls) as R1.
      { constructor; [exact Si1| |].
        - rewrite map_list_set. cbn [gh1 gh_l]. rewrite (list_set_same (map gh_l gs) i (gh_l gh) (nth_error_map_some gh_l _ _ _ Hgh)).
          exact (frame2_root im0 _ _ _ Fr Hout).
        - rewrite Hslots, Ees1, <- Ol, Ees. apply old_part_flush; [exact (proj2 (proj2 (proj2 (proj2 (proj2 Sid)))))|].
          destruct (si_ent _ _ _ _ Si i x gh Hx Hgh) as [_ K2 _ _ _ _ _ _ _]. rewrite K2. apply in_map. eapply nth_error_In. exact Hx. }
      assert (s2_views st1 (list_set gs i gh1) = s2_views st gs) as Hv.
      { unfold s2_views. rewrite (vviews_root_frame g Hg _ _ Hout).
        rewrite map_list_set. replace (gview gh1) with (gview gh) by reflexivity.
        rewrite (list_set_same (map gview gs) i (gview gh) (nth_error_map_some gview _ _ _ Hgh)).
        apply vviews_ext. rewrite Hhs, !map_list_set, Hoff. apply list_set_same.
        rewrite map_map. exact (nth_error_map_some (fun y => h_off (sh_h y)) _ _ _ Hx). }
      destruct (IH st1 _ es1 ls Hf' R1) as (st2 & rs & gs2 & es2 & Hr & R2 & Hbr & G2 & S2 & N2a & N2b).
      exists st2, rs, gs2, es2. rewrite Hs, Hr. split; [reflexivity|]. split; [exact R2|]. split; [rewrite <- Hv; exact Hbr|].
      split; [apply (gs_rel_trans gs (list_set gs i gh1) gs2); [|exact G2]; exact (gs_rel_set gs i gh gh1 Hgh Sid)|].
      split; [rewrite S2; exact Hslots|].
      destruct Sid as (Q1 & _ & Q3 & _).
      rewrite N2a, N2b, Ees1, Ees, !map_app. cbn [map]. rewrite Q1, Q3. split; reflexivity.
Qed.

(* ---------------------------------------------------------------- 4g. create_file keeps the run invariant *)
Lemma s2_create_some st name now st' : s2_create upper oem st name now = Some st' ->
  exists range im1, vol_create_empty_file_root upper oem (s2_im st) name now = (Ok (Some range), im1).
Proof.
  unfold s2_create, sess_create. destruct (vol_create_empty_file_root upper oem (s2_im st) name now) as [r im1].
  destruct r as [[[p q]|]| | |]; try discriminate. intros _. exists (p, q), im1. reflexivity.
Qed.

(* what is known about the entry of a file just created for the request [q] *)
Definition new_ghost (q : str * datetime) (gh : ghost) : Prop :=
  gh_sz gh = 0 /\ gh_l gh = [] /\ e_lfn (gh_e gh) = stored_lfn (fst q) /\ e_lfn_ok (gh_e gh) = true /\ e_attr (gh_e gh) = 0 /\
  sfn_legal_b (e_sfn (gh_e gh)) = true.

Theorem s2_create_run_inv im0 es0 st gs es ls name now st' :
  RunInv im0 es0 st gs es ls -> TimeProofs.datetime_valid now = true -> s2_create upper oem st name now = Some st' ->
  exists gh es' x',
    RunInv im0 es0 st' (gs ++ [gh]) es' ls /\ new_ghost (name, now) gh /\
    same_outside_root g (s2_im st) (s2_im st') /\ s2_fi st' = s2_fi st /\
    s2_hs st' = s2_hs st ++ [x'] /\ sh_h x' = empty_file /\ s2_dirty x' = false /\
    ~ In (e_sfn (gh_e gh)) (map e_sfn es) /\ (exists es1 es2, es = es1 ++ es2 /\ es' = es1 ++ gh_e gh :: es2).
Proof.
  intros [Si Fr Ol] Hnow Hc. destruct (s2_create_some st name now st' Hc) as (range & im1 & Hv).
  destruct (s2_create_step st gs es ls name now range im1 Si Hnow Hv)
    as (st1 & ne & es1 & es2 & x1 & Hc1 & Him & Hfi & Ees & Si1 & Hout & Hhs & Hcl & Hsl & Hem & L1 & L2 & A1 & S1 & C1 & HL & HU & _ & _ & Hfresh).
  rewrite Hc in Hc1. injection Hc1 as <-.
  exists {| gh_sz := 0; gh_l := []; gh_e := ne |}, (es1 ++ ne :: es2), x1.
  split.
  { constructor; [exact Si1| |].
    - rewrite map_app. cbn [map gh_l]. apply frame2_snoc. rewrite Him. exact (frame2_root im0 _ _ _ Fr Hout).
    - rewrite Hhs, map_app. cbn [map]. rewrite Hsl. rewrite old_part_create; [rewrite <- Ees; exact Ol|rewrite <- Ees; exact Hfresh]. }
  split; [repeat split; assumption|]. split; [rewrite Him; exact Hout|]. split; [exact Hfi|]. split; [exact Hhs|].
  split; [exact Hem|]. split; [exact Hcl|]. split; [exact HU|]. exists es1, es2. split; [exact Ees|reflexivity].
Qed.

Theorem s2_creates_inv im0 es0 : forall reqs st gs es ls st1,
  Forall (fun q => TimeProofs.datetime_valid (snd q) = true) reqs -> RunInv im0 es0 st gs es ls ->
  s2_creates upper oem st reqs = Some st1 ->
  exists news es1 xs,
    RunInv im0 es0 st1 (gs ++ news) es1 ls /\ Forall2 new_ghost reqs news /\
    same_outside_root g (s2_im st) (s2_im st1) /\ s2_fi st1 = s2_fi st /\
    s2_hs st1 = s2_hs st ++ xs /\ Forall (fun x => sh_h x = empty_file /\ s2_dirty x = false) xs /\ length xs = length reqs.
Proof.
  induction reqs as [|q reqs IH]; intros st gs es ls st1 Hv R H; cbn [s2_creates] in H.
  - injection H as <-. exists [], es, []. rewrite !app_nil_r. split; [exact R|]. split; [constructor|].
    split; [intros o _; reflexivity|]. split; [reflexivity|]. split; [reflexivity|]. split; [constructor|reflexivity].
  - inversion Hv as [|? ? Hq Hv']; subst.
    destruct (s2_create upper oem st (fst q) (snd q)) as [st'|] eqn:Hc; [|discriminate].
    destruct (s2_create_run_inv im0 es0 st gs es ls (fst q) (snd q) st' R Hq Hc)
      as (gh & es' & x' & R' & Ng & Hout & Hfi & Hhs & Hem & Hcl & _).
    destruct (IH st' (gs ++ [gh]) es' ls st1 Hv' R' H) as (news & es1 & xs & R1 & N1 & Hout1 & Hfi1 & Hhs1 & Hxs & Hlen).
    exists (gh :: news), es1, (x' :: xs). rewrite <- app_assoc in R1. cbn [app] in R1.
    split; [exact R1|]. split; [constructor; [destruct q; exact Ng|exact N1]|].
    split; [intros o Ho; rewrite (Hout1 o Ho); exact (Hout o Ho)|]. split; [rewrite Hfi1; exact Hfi|].
    split; [rewrite Hhs1, Hhs, <- app_assoc; reflexivity|]. split; [constructor; [split; assumption|exact Hxs]|].
    cbn [length]. rewrite Hlen. reflexivity.
Qed.

(* ================================================================ 5. what the decoder shows *)
Lemma abs_of_inv st gs es ls : Sess2Inv st gs es ls -> abs (s2_im st) = abs_fixed g (s2_im st) es ls [].
Proof.
  intros [Sg _ Ss _ _]. rewrite <- Sg. apply abs_fixed_root; rewrite Sg; [exact (fg_bits g Hg)|exact Ss].
Qed.

Lemma v_root_of_inv st gs es ls : Sess2Inv st gs es ls -> v_root (abs (s2_im st)) = map (node_of g (s2_im st) 23) es.
Proof. intros SI. rewrite (abs_of_inv st gs es ls SI). cbn [abs_fixed v_root]. change MAX_DEPTH with (S 23). apply decode_entries_S. Qed.

(* the file node of a handle with ghost [gh], as the decoder shows it on [im] when the handle is clean *)
Definition hnode (im : image) (gh : ghost) : node :=
  NFile (gh_e gh) (if e_cluster (gh_e gh) =? 0 then None else Some (gh_l gh)) (vol_content g im (gh_l gh) (gh_sz gh)).

(* THE NODE OF A CLEAN HANDLE: the decoder shows the file with exactly the content the byte-array machine holds for the
   handle, the size field is its length, the chain is the decoder's walk *)
Theorem handle_node st gs es ls i x gh :
  Sess2Inv st gs es ls -> nth_error (s2_hs st) i = Some x -> nth_error gs i = Some gh -> s2_dirty x = false ->
  In (gh_e gh) es /\ node_of g (s2_im st) 23 (gh_e gh) = hnode (s2_im st) gh /\
  e_size (gh_e gh) = gh_sz gh /\ len_N (vol_content g (s2_im st) (gh_l gh) (gh_sz gh)) = gh_sz gh /\
  (e_cluster (gh_e gh) = 0 <-> gh_sz gh = 0) /\
  (e_cluster (gh_e gh) <> 0 ->
     chain_from g (s2_im st) (e_cluster (gh_e gh)) (Abs.chain_fuel g) = Some (gh_l gh) /\ nth_error (gh_l gh) 0 = Some (e_cluster (gh_e gh))) /\
  N.of_nat (length (gh_l gh)) = cdiv (g_cluster_size g) (gh_sz gh) /\ NoDup (gh_l gh) /\
  (forall c, In c (gh_l gh) -> 2 <= c < g_clusters g + 2 /\ fat_val g (s2_im st) c <> FFree).
Proof.
  intros SI Hx Hgh Hcl. pose proof (fixed_root_vgeom_ok g Hg) as Hok.
  destruct (si_ent _ _ _ _ SI i x gh Hx Hgh) as [I1 I2 I3 I4 I5 I6 I7 I8 I9]. destruct (I9 Hcl) as [C1 C2].
  pose proof (mvol_inv_vol g _ _ _ _ i (sh_h x) (gview gh) (si_mv _ _ _ _ SI)
                (nth_error_map_some sh_h _ _ _ Hx) (nth_error_map_some gview _ _ _ Hgh)) as V. cbn [gview fst snd] in V.
  assert (e_is_dot (gh_e gh) = false) as Hdot.
  { unfold e_is_dot. rewrite I3. destruct (sfn_legal_not_dot _ I6) as [-> ->]. reflexivity. }
  assert (e_is_dir (gh_e gh) = false) as Hdir by (unfold e_is_dir; rewrite I4; reflexivity).
  destruct (file_node g Hok (s2_im st) (s2_fi st) (sh_h x) (gh_sz gh) (gh_l gh) 23 (gh_e gh) (fixed_clusters_small g Hg) V Hdot Hdir C1 C2)
    as (Hnode & Hz & Hch).
  pose proof (vol_content_length g Hok _ _ _ _ _ V) as Hlen.
  destruct V as (_ & _ & I & _).
  split; [exact I1|]. split; [exact Hnode|]. split; [exact C2|]. split; [exact Hlen|]. split; [exact Hz|]. split; [exact Hch|].
  split; [exact (inv_len _ _ _ _ _ _ _ _ I)|]. split; [exact (inv_nodup _ _ _ _ _ _ _ _ I)|].
  intros c Hc. destruct (inv_range _ _ _ _ _ _ _ _ I c Hc) as (R & NF). split; [exact R|].
  intros E. apply NF. cbn [world_of w_fat]. rewrite <- (fat_val_store g _ c (range_small g c Hok R)), E. reflexivity.
Qed.

Lemma filter_split_perm {A} (f : A -> bool) : forall l, Permutation l (filter (fun x => negb (f x)) l ++ filter f l).
Proof.
  induction l as [|a l IH]; [constructor|]. cbn [filter]. destruct (f a); cbn [negb app].
  - apply Permutation_cons_app. exact IH.
  - constructor. exact IH.
Qed.

Lemma ghost_handle st gs es ls gh : Sess2Inv st gs es ls -> In gh gs ->
  exists i x, nth_error (s2_hs st) i = Some x /\ nth_error gs i = Some gh.
Proof.
  intros SI Hin. apply In_nth_error in Hin. destruct Hin as (i & Hi). exists i.
  destruct (nth_error (s2_hs st) i) as [x|] eqn:Hx; [exists x; split; [reflexivity|exact Hi]|].
  apply nth_error_None in Hx. apply nth_error_Some_len in Hi. rewrite (si_len _ _ _ _ SI) in Hx. lia.
Qed.

Lemma ghost_slots st gs es ls : Sess2Inv st gs es ls -> map e_sfn_slot (map gh_e gs) = map hslot (s2_hs st).
Proof.
  intros SI. apply nth_error_ext_eq. intros i. rewrite !nth_error_map.
  destruct (nth_error gs i) as [gh|] eqn:Hgh; destruct (nth_error (s2_hs st) i) as [x|] eqn:Hx; cbn [option_map]; try reflexivity.
  - destruct (si_ent _ _ _ _ SI i x gh Hx Hgh) as [_ K2 _ _ _ _ _ _ _]. rewrite K2. reflexivity.
  - apply nth_error_None in Hx. apply nth_error_Some_len in Hgh. rewrite (si_len _ _ _ _ SI) in Hx. lia.
  - apply nth_error_None in Hgh. apply nth_error_Some_len in Hx. rewrite (si_len _ _ _ _ SI) in Hx. lia.
Qed.

(* the entries of the scan at the handles' slots are exactly the handles' entries *)
Lemma handle_part_perm st gs es ls : Sess2Inv st gs es ls ->
  Permutation (filter (is_hslot (map hslot (s2_hs st))) es) (map gh_e gs).
Proof.
  intros SI. destruct (dir_scan_slots false _ 0 [] es ls [] (si_scan _ _ _ _ SI)) as [_ NDs].
  apply NoDup_Permutation.
  - apply NoDup_filter. exact (NoDup_map_inv _ _ NDs).
  - apply (NoDup_map_inv e_sfn_slot). rewrite (ghost_slots st gs es ls SI). exact (si_slots _ _ _ _ SI).
  - intros e. rewrite filter_In. split.
    + intros [He Hs]. apply is_hslot_true in Hs. rewrite <- (ghost_slots st gs es ls SI) in Hs.
      apply in_map_iff in Hs. destruct Hs as (e' & E & He'). apply in_map_iff in He'. destruct He' as (gh & <- & Hgh).
      destruct (ghost_handle st gs es ls gh SI Hgh) as (i & x & Hx & Hg').
      destruct (si_ent _ _ _ _ SI i x gh Hx Hg') as [K1 _ _ _ _ _ _ _ _].
      rewrite (scan_slot_unique false _ es ls [] e (gh_e gh) (si_scan _ _ _ _ SI) He K1 (eq_sym E)). apply in_map. exact Hgh.
    + intros He. apply in_map_iff in He. destruct He as (gh & <- & Hgh).
      destruct (ghost_handle st gs es ls gh SI Hgh) as (i & x & Hx & Hg').
      destruct (si_ent _ _ _ _ SI i x gh Hx Hg') as [K1 K2 _ _ _ _ _ _ _]. split; [exact K1|].
      apply is_hslot_in. rewrite K2. apply in_map. eapply nth_error_In. exact Hx.
Qed.

(* ALL HANDLES CLEAN (each flushed / dropped after its last modification): the decoder shows the nodes that were in the
   root before the session, decoded exactly as before, and one file node per handle *)
Theorem s2_decode_all im0 es0 st gs es ls :
  RunInv im0 es0 st gs es ls -> forallb node_intact (decode_entries g im0 MAX_DEPTH es0) = true ->
  Forall (fun x => s2_dirty x = false) (s2_hs st) ->
  Permutation (v_root (abs (s2_im st))) (decode_entries g im0 MAX_DEPTH es0 ++ map (hnode (s2_im st)) gs).
Proof.
  intros [SI Fr Ol] Hint Hcl. rewrite (v_root_of_inv st gs es ls SI).
  eapply Permutation_trans; [apply Permutation_map; apply (filter_split_perm (is_hslot (map hslot (s2_hs st))))|].
  rewrite map_app. apply Permutation_app.
  - fold (old_part (map hslot (s2_hs st)) es). rewrite Ol. rewrite <- decode_entries_S. change (S 23) with MAX_DEPTH.
    rewrite (decode_entries_nonfree g im0 (s2_im st) (frame2_nonfree im0 _ _ Fr) MAX_DEPTH es0 Hint). apply Permutation_refl.
  - eapply Permutation_trans; [apply Permutation_map; exact (handle_part_perm st gs es ls SI)|].
    rewrite map_map. replace (map (fun x => node_of g (s2_im st) 23 (gh_e x)) gs) with (map (hnode (s2_im st)) gs); [apply Permutation_refl|].
    apply map_ext_in. intros gh Hgh. destruct (ghost_handle st gs es ls gh SI Hgh) as (i & x & Hx & Hg').
    rewrite Forall_forall in Hcl. symmetry. exact (proj1 (proj2 (handle_node st gs es ls i x gh SI Hx Hg' (Hcl x (nth_error_In _ _ Hx))))).
Qed.

(* ================================================================ 6. flushed, and not addressed again *)
(* [settled i ops c]: after the steps [ops] the last step that addressed handle [i] was its flush / drop (or none did and
   [c] = it was clean before) - the syntactic reading of "every handle has been flushed, in any order, with any later calls
   on OTHER handles" *)
Fixpoint settled (i : nat) (ops : list s2op) (clean : bool) : bool :=
  match ops with
  | [] => clean
  | SOp j _ _ :: r => settled i r (if Nat.eqb j i then false else clean)
  | SFlush j :: r => settled i r (if Nat.eqb j i then true else clean)
  end.

Lemma s2_step_other st op i :
  match op with SOp j _ _ => j <> i | SFlush j => j <> i end ->
  nth_error (s2_hs (fst (s2_step g acc st op))) i = nth_error (s2_hs st) i.
Proof.
  destruct op as [j o now|j]; intros Hji; cbn [s2_step]; destruct (nth_error (s2_hs st) j) as [x|]; try reflexivity.
  - destruct (sess_step g acc (sstate_of st x) (o, now)) as [s1 r]. cbn [fst s2_put s2_hs]. apply nth_error_list_set_neq. exact Hji.
  - cbn [fst s2_put s2_hs]. apply nth_error_list_set_neq. exact Hji.
Qed.

Lemma s2_step_flush_clean st i x' : nth_error (s2_hs (fst (s2_step g acc st (SFlush i)))) i = Some x' -> s2_dirty x' = false.
Proof.
  cbn [s2_step]. destruct (nth_error (s2_hs st) i) as [x|] eqn:Hx.
  - cbn [fst s2_put s2_hs]. rewrite nth_error_list_set_eq by (apply nth_error_Some; congruence). intros H. injection H as <-.
    unfold s2_dirty, sess_dirty, vol_flush_entry, clear_dirty. cbn [sh_h sh_en s_h s_en h_entry en_tdirty sstate_of].
    destruct (h_entry (sh_h x)); reflexivity.
  - cbn [fst]. rewrite Hx. discriminate.
Qed.

Lemma s2_run_cons_fst st op ops : fst (s2_run g acc st (op :: ops)) = fst (s2_run g acc (fst (s2_step g acc st op)) ops).
Proof. cbn [s2_run]. destruct (s2_step g acc st op) as [st1 r]. cbn [fst]. destruct (s2_run g acc st1 ops) as [st2 rs]. reflexivity. Qed.

Theorem settled_clean : forall ops st i c,
  (c = true -> forall x, nth_error (s2_hs st) i = Some x -> s2_dirty x = false) -> settled i ops c = true ->
  forall x, nth_error (s2_hs (fst (s2_run g acc st ops))) i = Some x -> s2_dirty x = false.
Proof.
  induction ops as [|op ops IH]; intros st i c Hc Hs x Hx.
  - cbn [s2_run fst] in Hx. cbn [settled] in Hs. exact (Hc Hs x Hx).
  - rewrite s2_run_cons_fst in Hx. set (st1 := fst (s2_step g acc st op)) in *.
    destruct op as [j o now|j]; cbn [settled] in Hs; destruct (Nat.eqb_spec j i) as [->|Hji].
    + apply (IH st1 i false); [discriminate|exact Hs|exact Hx].
    + apply (IH st1 i c); [|exact Hs|exact Hx]. intros Hct y Hy. unfold st1 in Hy. rewrite (s2_step_other st (SOp j o now) i Hji) in Hy. exact (Hc Hct y Hy).
    + apply (IH st1 i true); [|exact Hs|exact Hx]. intros _ y Hy. exact (s2_step_flush_clean st i y Hy).
    + apply (IH st1 i c); [|exact Hs|exact Hx]. intros Hct y Hy. unfold st1 in Hy. rewrite (s2_step_other st (SFlush j) i Hji) in Hy. exact (Hc Hct y Hy).
Qed.

(* ---------------------------------------------------------------- C14 at image level: a clean handle's node survives every
   step that is not a call on that handle *)
Definition not_op_on (i : nat) (op : s2op) : Prop := match op with SOp j _ _ => j <> i | SFlush _ => True end.

Lemma ghost_eta gh : {| gh_sz := gh_sz gh; gh_l := gh_l gh; gh_e := gh_e gh |} = gh.
Proof. destruct gh; reflexivity. Qed.

Lemma s2_step_keeps_clean st gs es ls op i x gh :
  Sess2Inv st gs es ls -> s2op_ok op -> not_op_on i op ->
  nth_error (s2_hs st) i = Some x -> nth_error gs i = Some gh -> s2_dirty x = false ->
  exists gs' es' x',
    Sess2Inv (fst (s2_step g acc st op)) gs' es' ls /\
    nth_error (s2_hs (fst (s2_step g acc st op))) i = Some x' /\ nth_error gs' i = Some gh /\ s2_dirty x' = false /\
    vol_content g (s2_im (fst (s2_step g acc st op))) (gh_l gh) (gh_sz gh) = vol_content g (s2_im st) (gh_l gh) (gh_sz gh).
Proof.
  intros SI Hop Hno Hx Hgh Hcl. destruct op as [j o now|j].
  - cbn [not_op_on] in Hno. destruct (nth_error (s2_hs st) j) as [y|] eqn:Hy.
    2:{ cbn [s2_step]. rewrite Hy. cbn [fst]. exists gs, es, x. split; [exact SI|]. split; [exact Hx|]. split; [exact Hgh|]. split; [exact Hcl|reflexivity]. }
    destruct (nth_error gs j) as [gj|] eqn:Hgj.
    2:{ apply nth_error_None in Hgj. apply nth_error_Some_len in Hy. rewrite (si_len _ _ _ _ SI) in Hy. lia. }
    destruct Hop as [Ho Hnow].
    destruct (s2_op_step st gs es ls j o now y gj SI Ho Hnow Hy Hgj) as (st1 & r & sz1 & l1 & y1 & v1 & Hs & SI1 & _ & _ & _ & Hc & Hhs & _).
    rewrite Hs. cbn [fst]. exists (list_set gs j {| gh_sz := sz1; gh_l := l1; gh_e := gh_e gj |}), es, x.
    split; [exact SI1|]. split; [rewrite Hhs, nth_error_list_set_neq by exact Hno; exact Hx|].
    split; [rewrite nth_error_list_set_neq by exact Hno; exact Hgh|]. split; [exact Hcl|].
    exact (Hc i gh (fun E => Hno (eq_sym E)) Hgh).
  - destruct (nth_error (s2_hs st) j) as [y|] eqn:Hy.
    2:{ cbn [s2_step]. rewrite Hy. cbn [fst]. exists gs, es, x. split; [exact SI|]. split; [exact Hx|]. split; [exact Hgh|]. split; [exact Hcl|reflexivity]. }
    destruct (nth_error gs j) as [gj|] eqn:Hgj.
    2:{ apply nth_error_None in Hgj. apply nth_error_Some_len in Hy. rewrite (si_len _ _ _ _ SI) in Hy. lia. }
    destruct (s2_flush_step st gs es ls j y gj SI Hy Hgj) as (st1 & e1 & es1 & y1 & Hs & SI1 & Hout & _ & _ & Hsame & Hhs & Hcl1 & _).
    rewrite Hs. cbn [fst]. exists (list_set gs j {| gh_sz := gh_sz gj; gh_l := gh_l gj; gh_e := e1 |}), es1.
    destruct (Nat.eq_dec j i) as [->|Hji].
    + rewrite Hx in Hy. injection Hy as <-. rewrite Hgh in Hgj. injection Hgj as <-.
      destruct (Hsame Hcl) as [Him He1]. exists y1.
      split; [exact SI1|]. split; [rewrite Hhs; apply nth_error_list_set_eq; apply nth_error_Some; congruence|].
      split; [rewrite He1, ghost_eta; apply nth_error_list_set_eq; apply nth_error_Some; congruence|]. split; [exact Hcl1|].
      rewrite Him. reflexivity.
    + exists x. split; [exact SI1|]. split; [rewrite Hhs, nth_error_list_set_neq by exact Hji; exact Hx|].
      split; [rewrite nth_error_list_set_neq by exact Hji; exact Hgh|]. split; [exact Hcl|].
      exact (vol_content_root_frame g Hg _ _ _ _ Hout).
Qed.

(* once handle [i] is clean (it has been flushed) its node - entry, chain, content - is in the decoded root of the image
   after ANY later steps that are not calls on handle [i]: calls on the other handles, their flushes and drops *)
Theorem s2_flushed_survives : forall ops st gs es ls i x gh,
  Sess2Inv st gs es ls -> nth_error (s2_hs st) i = Some x -> nth_error gs i = Some gh -> s2_dirty x = false ->
  Forall s2op_ok ops -> Forall (not_op_on i) ops ->
  let im' := s2_im (fst (s2_run g acc st ops)) in
  hnode im' gh = hnode (s2_im st) gh /\ In (hnode (s2_im st) gh) (v_root (abs im')) /\
  In (hnode (s2_im st) gh) (v_root (abs (s2_im st))).
Proof.
  induction ops as [|op ops IH]; intros st gs es ls i x gh SI Hx Hgh Hcl Hf Hn; cbv zeta.
  - cbn [s2_run fst]. destruct (handle_node st gs es ls i x gh SI Hx Hgh Hcl) as (Hin & Hnode & _).
    assert (In (hnode (s2_im st) gh) (v_root (abs (s2_im st)))) as X.
    { rewrite (v_root_of_inv st gs es ls SI), <- Hnode. apply in_map. exact Hin. }
    split; [reflexivity|]. split; exact X.
  - inversion Hf as [|? ? Hop Hf']; subst. inversion Hn as [|? ? Hno Hn']; subst.
    destruct (s2_step_keeps_clean st gs es ls op i x gh SI Hop Hno Hx Hgh Hcl) as (gs1 & es1 & x1 & SI1 & Hx1 & Hgh1 & Hcl1 & Hc1).
    cbn [s2_run]. destruct (s2_step g acc st op) as [st1 r] eqn:E1. cbn [fst] in SI1, Hx1, Hc1.
    destruct (s2_run g acc st1 ops) as [st2 rs] eqn:E2. cbn [fst].
    pose proof (IH st1 gs1 es1 ls i x1 gh SI1 Hx1 Hgh1 Hcl1 Hf' Hn') as X. cbv zeta in X. rewrite E2 in X. cbn [fst] in X.
    destruct X as (X1 & X2 & _).
    assert (hnode (s2_im st1) gh = hnode (s2_im st) gh) as Y by (unfold hnode; rewrite Hc1; reflexivity).
    split; [rewrite X1; exact Y|]. split; [rewrite <- Y; exact X2|].
    destruct (handle_node st gs es ls i x gh SI Hx Hgh Hcl) as (Hin & Hnode & _).
    rewrite (v_root_of_inv st gs es ls SI), <- Hnode. apply in_map. exact Hin.
Qed.

(* the session invariant alone is kept by every run *)
Lemma s2_step_sess_inv st gs es ls op : s2op_ok op -> Sess2Inv st gs es ls ->
  exists gs' es', Sess2Inv (fst (s2_step g acc st op)) gs' es' ls.
Proof.
  intros Hop SI. destruct op as [j o now|j]; (destruct (nth_error (s2_hs st) j) as [y|] eqn:Hy;
    [|cbn [s2_step]; rewrite Hy; cbn [fst]; exists gs, es; exact SI]);
    (destruct (nth_error gs j) as [gj|] eqn:Hgj;
      [|apply nth_error_None in Hgj; apply nth_error_Some_len in Hy; rewrite (si_len _ _ _ _ SI) in Hy; lia]).
  - destruct Hop as [Ho Hnow].
    destruct (s2_op_step st gs es ls j o now y gj SI Ho Hnow Hy Hgj) as (st1 & r & sz1 & l1 & y1 & v1 & Hs & SI1 & _).
    rewrite Hs. cbn [fst]. eexists _, _. exact SI1.
  - destruct (s2_flush_step st gs es ls j y gj SI Hy Hgj) as (st1 & e1 & es1 & y1 & Hs & SI1 & _).
    rewrite Hs. cbn [fst]. eexists _, _. exact SI1.
Qed.

Lemma s2_run_sess_inv : forall ops st gs es ls, Forall s2op_ok ops -> Sess2Inv st gs es ls ->
  exists gs' es', Sess2Inv (fst (s2_run g acc st ops)) gs' es' ls.
Proof.
  induction ops as [|op ops IH]; intros st gs es ls Hf SI; [exists gs, es; exact SI|].
  inversion Hf as [|? ? Hop Hf']; subst. rewrite s2_run_cons_fst.
  destruct (s2_step_sess_inv st gs es ls op Hop SI) as (gs1 & es1 & SI1). exact (IH _ gs1 es1 ls Hf' SI1).
Qed.

(* ================================================================ 7. the whole session: create k files ; any steps *)
Lemma Forall2_compose {A B C} (P : A -> B -> Prop) (Q : B -> C -> Prop) (R : A -> C -> Prop) :
  forall la lb lc, Forall2 P la lb -> Forall2 Q lb lc -> (forall a b c, P a b -> Q b c -> In c lc -> R a c) -> Forall2 R la lc.
Proof.
  intros la lb lc H. revert lc. induction H as [|a b la lb Hab H IH]; intros lc H2 HR; inversion H2; subst; constructor.
  - apply (HR a b); [exact Hab|assumption|left; reflexivity].
  - apply IH; [assumption|]. intros a' b' c' Pa Qb Hin. apply (HR a' b' c' Pa Qb). right. exact Hin.
Qed.

Lemma filter_all {A} (f : A -> bool) l : (forall x, In x l -> f x = true) -> filter f l = l.
Proof.
  induction l as [|a l IH]; intros H; [reflexivity|]. cbn [filter]. rewrite (H a (or_introl eq_refl)), IH; [reflexivity|].
  intros x Hx. apply H. right. exact Hx.
Qed.

(* the state right after mount: no handle open *)
Lemma run_inv_start im fi es0 ls :
  parse_geom im = g -> FatProofs.bytes_ok im -> fi_inv fstore (val_ft (ft_of g)) (store_of g im) fi (g_clusters g) ->
  dir_scan (root_region_slots g im) 0 [] false = (es0, ls, []) ->
  RunInv im es0 {| s2_im := im; s2_fi := fi; s2_hs := [] |} [] es0 ls.
Proof.
  intros Hpg Hb Hfi Hscan. pose proof (fixed_root_vgeom_ok g Hg) as Hok.
  destruct (vol_inv_empty g Hok im fi Hb Hfi) as (_ & W & _).
  constructor.
  - constructor; cbn [s2_im s2_fi s2_hs map].
    + exact Hpg.
    + split; [exact Hb|]. split; [exact W|]. split; [reflexivity|]. split.
      * intros i h gh Hh. destruct i; discriminate.
      * intros i j g1 g2 _ H1. destruct i; discriminate.
    + exact Hscan.
    + intros i x gh Hx. destruct i; discriminate.
    + constructor.
  - cbn [map s2_im]. apply frame2_start.
  - cbn [s2_hs map]. unfold old_part. apply filter_all. intros e _. reflexivity.
Qed.

Lemma views_empty im : forall reqs xs news,
  Forall (fun x => sh_h x = empty_file /\ s2_dirty x = false) xs -> Forall2 new_ghost reqs news -> length xs = length reqs ->
  vviews g im (map sh_h xs) (map gview news) = map (fun _ => ([], 0)) reqs.
Proof.
  induction reqs as [|q reqs IH]; intros xs news Hx Hn Hl; inversion Hn as [|? gh ? news' Ng Hn']; subst.
  - destruct xs; [reflexivity|discriminate].
  - destruct xs as [|x xs]; [discriminate|]. inversion Hx as [|? ? [Hx1 _] Hx2]; subst.
    cbn [map vviews]. rewrite (IH xs news' Hx2 Hn' ltac:(cbn [length] in Hl; lia)).
    destruct Ng as (Z1 & Z2 & _). unfold gview. cbn [fst snd]. rewrite Z1, Z2, Hx1. reflexivity.
Qed.

(* what the decoder shows for the file created for request [q], relative to the image [im0] before the session *)
Definition file_decoded (im0 im : image) (q : str * datetime) (gh : ghost) : Prop :=
  let e := gh_e gh in
  let content := vol_content g im (gh_l gh) (gh_sz gh) in
  e_lfn e = stored_lfn (fst q) /\ e_lfn_ok e = true /\ e_attr e = 0 /\ sfn_legal_b (e_sfn e) = true /\
  e_size e = len_N content /\ (e_cluster e = 0 <-> content = []) /\
  (e_cluster e <> 0 -> chain_from g im (e_cluster e) (Abs.chain_fuel g) = Some (gh_l gh) /\ nth_error (gh_l gh) 0 = Some (e_cluster e)) /\
  N.of_nat (length (gh_l gh)) = cdiv (g_cluster_size g) (len_N content) /\ NoDup (gh_l gh) /\
  (forall c, In c (gh_l gh) -> 2 <= c < g_clusters g + 2 /\ fat_val g im0 c = FFree /\ fat_val g im c <> FFree).

Definition chains_disjoint (gs : list ghost) : Prop :=
  forall i j g1 g2, i <> j -> nth_error gs i = Some g1 -> nth_error gs j = Some g2 -> disjoint (gh_l g1) (gh_l g2).

(* (b) mount ; create_file for every request ; ANY steps - calls on the handles in any interleaving under any clocks, flushes
   and drops in any order - after which every handle is clean.  The run is a run of the multi-file byte-array machine from
   empty files; the decoder shows the old root nodes exactly as before and one file node per handle with exactly the
   machine's content for that file, its size, its chain (clusters that were free before, pairwise disjoint); no decode
   issue; labels and geometry as before; the frame [Frame2] relative to the image before the session *)
Theorem session2_decodes im fi reqs ops st1 st2 rs :
  parse_geom im = g -> FatProofs.bytes_ok im -> fi_inv fstore (val_ft (ft_of g)) (store_of g im) fi (g_clusters g) ->
  v_root_issues (abs im) = [] -> forallb node_intact (v_root (abs im)) = true ->
  Forall (fun q => TimeProofs.datetime_valid (snd q) = true) reqs -> Forall s2op_ok ops ->
  s2_creates upper oem {| s2_im := im; s2_fi := fi; s2_hs := [] |} reqs = Some st1 ->
  s2_run g acc st1 ops = (st2, rs) ->
  Forall (fun x => s2_dirty x = false) (s2_hs st2) ->
  exists gs es1 es2 ls,
    RunInv im (map node_entry (v_root (abs im))) st2 gs es2 ls /\
    bf_multi (map (fun _ => ([], 0)) reqs) (file_ops ops) rs = Some (s2_views st2 gs) /\
    Permutation (v_root (abs (s2_im st2))) (v_root (abs im) ++ map (hnode (s2_im st2)) gs) /\
    Forall2 (file_decoded im (s2_im st2)) reqs gs /\ chains_disjoint gs /\
    v_root_issues (abs (s2_im st2)) = [] /\ v_labels (abs (s2_im st2)) = v_labels (abs im) /\ parse_geom (s2_im st2) = g /\
    (* the state after the creates, for the well-formedness argument *)
    (exists gs1, RunInv im (map node_entry (v_root (abs im))) st1 gs1 es1 ls /\
                 map e_sfn es2 = map e_sfn es1 /\ map e_lfn es2 = map e_lfn es1 /\
                 same_outside_root g im (s2_im st1)).
Proof.
  intros Hpg Hb Hfi Hiss Hint Hrq Hops Hcr Hrun Hcl.
  destruct (abs_scan_of im ltac:(rewrite Hpg; exact (fg_bits g Hg))) as (es0 & ls & iss & Hscan & Habs). rewrite Hpg in Hscan, Habs.
  rewrite Habs in Hiss. cbn [abs_fixed v_root_issues] in Hiss. subst iss.
  assert (v_root (abs im) = decode_entries g im MAX_DEPTH es0) as Hroot by (rewrite Habs; reflexivity).
  assert (map node_entry (v_root (abs im)) = es0) as Hes0.
  { rewrite Hroot. change MAX_DEPTH with (S 23). rewrite decode_entries_S. apply map_node_entry. }
  rewrite Hes0.
  pose proof (run_inv_start im fi es0 ls Hpg Hb Hfi Hscan) as R0.
  destruct (s2_creates_inv im es0 reqs _ [] es0 ls st1 Hrq R0 Hcr) as (news & es1 & xs & R1 & N1 & Hout1 & Hfi1 & Hhs1 & Hxs & Hlen).
  cbn [app s2_hs s2_im] in R1, Hhs1, Hout1.
  destruct (s2_run_inv im es0 ops st1 news es1 ls Hops R1) as (st2' & rs' & gs & es2 & Hrun' & R2 & Hbf & Grel & Hsl & Nm1 & Nm2).
  rewrite Hrun in Hrun'. injection Hrun' as <- <-.
  assert (s2_views st1 news = map (fun _ => ([], 0)) reqs) as Hv0.
  { unfold s2_views. rewrite Hhs1. exact (views_empty (s2_im st1) reqs xs news Hxs N1 Hlen). }
  rewrite Hv0 in Hbf.
  pose proof (ri_inv _ _ _ _ _ _ R2) as SI2. pose proof (ri_frame _ _ _ _ _ _ R2) as Fr2.
  exists gs, es1, es2, ls.
  split; [exact R2|]. split; [exact Hbf|]. split.
  { rewrite Hroot in Hint |- *. exact (s2_decode_all im es0 st2 gs es2 ls R2 Hint Hcl). }
  split.
  { apply (Forall2_compose new_ghost (fun a b => same_id (gh_e a) (gh_e b)) _ reqs news gs N1 Grel).
    intros q gh0 gh (Z1 & Z2 & Z3 & Z4 & Z5 & Z6) (Q1 & Q2 & Q3 & Q4 & _) Hin.
    destruct (ghost_handle st2 gs es2 ls gh SI2 Hin) as (i & x & Hx & Hgh).
    rewrite Forall_forall in Hcl.
    destruct (handle_node st2 gs es2 ls i x gh SI2 Hx Hgh (Hcl x (nth_error_In _ _ Hx))) as (_ & _ & K1 & K2 & K3 & K4 & K5 & K6 & K7).
    unfold file_decoded. cbv zeta. rewrite K2.
    split; [rewrite Q1; exact Z3|]. split; [rewrite Q2; exact Z4|]. split; [rewrite Q4; exact Z5|]. split; [rewrite Q3; exact Z6|].
    split; [exact K1|]. split.
    { rewrite K3. split.
      - intros E. destruct (vol_content g (s2_im st2) (gh_l gh) (gh_sz gh)) as [|b r] eqn:V; [reflexivity|].
        exfalso. unfold len_N in K2. cbn [length] in K2. lia.
      - intros E. rewrite E in K2. symmetry. exact K2. }
    split; [exact K4|]. split; [exact K5|]. split; [exact K6|].
    intros c Hc. destruct (K7 c Hc) as [Rg NF]. split; [exact Rg|]. split; [|exact NF].
    apply (f2_chain _ _ _ Fr2 (gh_l gh) c); [apply in_map; exact Hin|exact Hc]. }
  split.
  { intros i j g1 g2 Hij H1 H2. destruct (si_mv _ _ _ _ SI2) as (_ & _ & _ & _ & MD).
    exact (MD i j (gview g1) (gview g2) Hij (nth_error_map_some gview _ _ _ H1) (nth_error_map_some gview _ _ _ H2)). }
  rewrite (abs_of_inv st2 gs es2 ls SI2), Habs. cbn [abs_fixed v_root_issues v_labels].
  split; [reflexivity|]. split; [reflexivity|]. split; [exact (si_geom _ _ _ _ SI2)|].
  exists news. split; [exact R1|]. split; [exact Nm1|]. split; [exact Nm2|exact Hout1].
Qed.
End Sess2.

(* ================================================================ 8. what is DURABLE (C14, with Model/FlushM.v) *)
Section Durable.
Variable g : geom.
Hypothesis Hg : fixed_root_geom g.
Variable acc : bool.

Definition no_flush_step (op : s2op) : Prop := s2_flushes op = false.

(* at the granularity of calls the durable image is the image the session had right after its LAST flush / drop step (or
   the durable image it started with, when no such step occurred) *)
Theorem s2_durable_cases : forall ops st dur,
  (s2_durable g acc st dur ops = dur /\ Forall no_flush_step ops) \/
  (exists n j, (n < length ops)%nat /\ nth_error ops n = Some (SFlush j) /\ Forall no_flush_step (skipn (S n) ops) /\
               s2_durable g acc st dur ops = s2_im (fst (s2_run g acc st (firstn (S n) ops)))).
Proof.
  induction ops as [|op ops IH]; intros st dur; [left; split; [reflexivity|constructor]|].
  cbn [s2_durable]. set (st1 := fst (s2_step g acc st op)).
  destruct (IH st1 (if s2_flushes op then s2_im st1 else dur)) as [[E F]|(n & j & Hn & Hj & Hf & E)].
  - destruct op as [i o now|i]; cbn [s2_flushes] in *.
    + left. split; [exact E|]. constructor; [reflexivity|exact F].
    + right. exists 0%nat, i. split; [cbn [length]; lia|]. split; [reflexivity|]. split; [exact F|].
      rewrite E. cbn [firstn]. rewrite s2_run_cons_fst. reflexivity.
  - right. exists (S n), j. split; [cbn [length]; lia|]. split; [exact Hj|]. split; [exact Hf|].
    rewrite E. change (firstn (S (S n)) (op :: ops)) with (op :: firstn (S n) ops). rewrite s2_run_cons_fst. reflexivity.
Qed.

Lemma Forall_firstn_ {A} (P : A -> Prop) : forall n l, Forall P l -> Forall P (firstn n l).
Proof. induction n as [|n IH]; intros [|a l] H; cbn [firstn]; try constructor; inversion H; subst; [assumption|apply IH; assumption]. Qed.

(* C14: handle [i] is clean - its flush / drop has returned, so the image [s2_im st] is durable -; whatever calls on OTHER
   handles, flushes and drops follow, the DURABLE image at the end (and, the hypotheses being closed under prefixes, at
   every point in between) shows the file's node with the flushed entry, chain and content *)
Theorem s2_flushed_durable ops st gs es ls i x gh dur :
  Sess2Inv g st gs es ls -> nth_error (s2_hs st) i = Some x -> nth_error gs i = Some gh -> s2_dirty x = false ->
  Forall s2op_ok ops -> Forall (not_op_on i) ops ->
  In (hnode g (s2_im st) gh) (v_root (abs dur)) ->
  In (hnode g (s2_im st) gh) (v_root (abs (s2_durable g acc st dur ops))).
Proof.
  intros SI Hx Hgh Hcl Hf Hn Hd. destruct (s2_durable_cases ops st dur) as [[E _]|(n & j & _ & _ & _ & E)]; rewrite E; [exact Hd|].
  exact (proj1 (proj2 (s2_flushed_survives g Hg acc (firstn (S n) ops) st gs es ls i x gh SI Hx Hgh Hcl
                         (Forall_firstn_ _ _ _ Hf) (Forall_firstn_ _ _ _ Hn)))).
Qed.

(* ---- the same through the write-back cache of Model/FlushM.v.  A device log REALISES the steps: one event list per step
   whose writes take the image to the image after the step, with a device flush exactly as the last event of every
   flush / drop step (Proofs/FlushProofs.flush_shape; Model/VolSession.flush_events is such a list) and no device flush
   during a call on a handle *)
Definition writes_only (evs : list dev_event) : Prop := forall e, In e evs -> exists o b, e = DWrite o b.

Fixpoint log_realises (st : s2state) (ops : list s2op) (logs : list (list dev_event)) : Prop :=
  match ops, logs with
  | [], [] => True
  | op :: r, evs :: lr =>
    let st1 := fst (s2_step g acc st op) in
    (exists ws, evs = ws ++ (if s2_flushes op then [DFlush] else []) /\ writes_only ws /\
                img_same (apply_events (s2_im st) ws) (s2_im st1)) /\
    log_realises st1 r lr
  | _, _ => False
  end.

Lemma img_write_same im im' off bs : img_same im im' -> img_same (img_write im off bs) (img_write im' off bs).
Proof.
  intros H o. destruct (N.lt_ge_cases o off) as [Hlo|Hlo]; [rewrite !img_write_outside by (left; exact Hlo); apply H|].
  destruct (N.lt_ge_cases o (off + N.of_nat (length bs))) as [Hhi|Hhi]; [|rewrite !img_write_outside by (right; exact Hhi); apply H].
  replace o with (off + N.of_nat (N.to_nat (o - off))) by lia. rewrite !img_write_inside by lia. reflexivity.
Qed.

Lemma apply_events_same : forall evs im im', img_same im im' -> img_same (apply_events im evs) (apply_events im' evs).
Proof.
  induction evs as [|e evs IH]; intros im im' H; [exact H|]. destruct e as [o b|]; cbn [apply_events]; apply IH; [|exact H].
  apply img_write_same. exact H.
Qed.

Lemma cache_run_writes : forall ws cur dur, writes_only ws -> cache_run cur dur ws = (apply_events cur ws, dur).
Proof.
  induction ws as [|e ws IH]; intros cur dur H; [reflexivity|].
  destruct (H e (or_introl eq_refl)) as (o & b & ->). cbn [cache_run apply_events]. apply IH. intros e' He'. apply H. right. exact He'.
Qed.

Lemma img_same_trans a b c : img_same a b -> img_same b c -> img_same a c.
Proof. intros H1 H2 o. rewrite (H2 o). apply H1. Qed.

(* what the cache holds after the whole log: current = the session's image, durable = [s2_durable] *)
Theorem cache_run_realised : forall ops logs st cur dur dur0,
  log_realises st ops logs -> img_same (s2_im st) cur -> img_same dur0 dur ->
  img_same (s2_im (fst (s2_run g acc st ops))) (fst (cache_run cur dur (concat logs))) /\
  img_same (s2_durable g acc st dur0 ops) (snd (cache_run cur dur (concat logs))).
Proof.
  induction ops as [|op ops IH]; intros [|evs logs] st cur dur dur0 R Hc Hd; cbn [log_realises] in R; try contradiction.
  - cbn [concat cache_run s2_run s2_durable fst snd]. split; assumption.
  - destruct R as [(ws & -> & Hw & Him) R]. rewrite s2_run_cons_fst. cbn [s2_durable concat].
    set (st1 := fst (s2_step g acc st op)) in *.
    rewrite <- app_assoc, FlushProofs.cache_run_app, (cache_run_writes ws cur dur Hw). cbn [fst snd].
    assert (img_same (s2_im st1) (apply_events cur ws)) as Hc1.
    { intros o. rewrite (Him o). exact (apply_events_same ws _ _ Hc o). }
    destruct op as [i o now|i]; cbn [s2_flushes app].
    + exact (IH logs st1 _ dur dur0 R Hc1 Hd).
    + cbn [cache_run]. exact (IH logs st1 _ _ (s2_im st1) R Hc1 Hc1).
Qed.

(* C14 through the cache: after the flush / drop of handle [i] returned (current = durable = the session's image), any
   realised log of later steps that are not calls on handle [i] leaves a DURABLE image - what a power cut at the end of
   the log (hence, prefixes being logs too, after any call) preserves - that shows the file's node as flushed *)
Theorem s2_flushed_durable_cache ops logs st gs es ls i x gh cur :
  Sess2Inv g st gs es ls -> nth_error (s2_hs st) i = Some x -> nth_error gs i = Some gh -> s2_dirty x = false ->
  Forall s2op_ok ops -> Forall (not_op_on i) ops -> log_realises st ops logs -> img_same (s2_im st) cur ->
  In (hnode g (s2_im st) gh) (v_root (abs (snd (cache_run cur cur (concat logs))))).
Proof.
  intros SI Hx Hgh Hcl Hf Hn R Hc.
  destruct (cache_run_realised ops logs st cur cur (s2_im st) R Hc Hc) as [_ Hd].
  assert (fixed_root_geom (parse_geom (s2_durable g acc st (s2_im st) ops))) as Hgd.
  { destruct (s2_durable_cases ops st (s2_im st)) as [[E _]|(n & j & _ & _ & _ & E)]; rewrite E.
    - rewrite (si_geom _ _ _ _ _ SI). exact Hg.
    - destruct (s2_run_sess_inv g Hg acc (firstn (S n) ops) st gs es ls (Forall_firstn_ _ _ _ Hf) SI) as (gs' & es' & SI').
      rewrite (si_geom _ _ _ _ _ SI'). exact Hg. }
  destruct (img_same_abs (fun l => l) _ _ Hgd Hd) as (_ & Habs & _). rewrite Habs.
  apply (s2_flushed_durable ops st gs es ls i x gh (s2_im st) SI Hx Hgh Hcl Hf Hn).
  exact (proj2 (proj2 (s2_flushed_survives g Hg acc [] st gs es ls i x gh SI Hx Hgh Hcl (Forall_nil _) (Forall_nil _)))).
Qed.
End Durable.
