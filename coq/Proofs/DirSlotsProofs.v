(* DirSlotsProofs.v: the directory slot layer (Model/DirSlots.v) against the INDEPENDENT decoder Spec/Abs.v.
   1. codec facts; the run written for an entry is accepted by Abs.run_valid and decodes to the name (written_run_valid)
   2. find_free_entries (find_free_entries_spec: the free spot, and the capacity refusal of a fixed root - 13fd5fe)
   3. write_run / write_entry refine "insert one entry" and keep the slot clauses of C03 (write_entry_refines)
   4. mark_deleted refines "remove one entry" (mark_deleted_refines)
   3'. the decoder's RESTART rule (a long-name slot carrying 0x40 starts a run; what was pending is an orphan run):
      scan_restart, scan_entry_run, scan_orphan_then_entry; write_entry into a directory that holds orphan runs
      (write_entry_refines_gen, write_after_failed_write_refines, create_refines_map_orphans)
   5. failed calls: every outcome of write_entry (write_entry_cases); a fixed root is never changed by a failing call and
      never reports WriteZero (write_entry_fixed_root_total, write_entry_fixed_root_full_unchanged); any failing call keeps
      the decoded entries and the slots in use (failed_write_keeps_entries); the remaining known class, a chain that cannot
      grow (failed_write_unchanged, failed_write_unchanged_chain_refuted)
   6. uniqueness of names in situ (create_entry_refines)
   7. C03 corollaries (slots_wf), rename at the slot level in the code's order WRITE, then DELETE - d9f4de8 -
      (rename_slots_refines), the finite-map view (dir_map)
   8. example directories
   9. the library's own lookup against the decoder (remove_entry_refines, has_exact_name_spec, rename_rewrite_refines,
      rename_in_dir_refines - fresh name / own name in the stored spelling / own name in another spelling -,
      rename_failed_source_kept, rename_across_failed_source_unchanged, ..._insane_refuted) *)
From Coq Require Import NArith ZArith Lia List Bool Arith.
From FatVerif Require Import Model.Base Model.Str Model.Slot Model.Time Model.Name Model.ShortName Model.DirSlots
  Spec.Abs Proofs.NameProofs Proofs.ShortNameProofs.
From FatVerif Require Model.Lfn Spec.LfnSpec Proofs.LfnProofs Spec.Wf Proofs.TimeProofs.
Import ListNotations.
Open Scope N_scope.
Ltac Zify.zify_post_hook ::= Z.to_euclidean_division_equations.

(* ================================================================ 1. codec facts *)

Lemma first_byte_decode s : slot_first_byte (slot_decode s) = byte_at s 0.
Proof.
  unfold slot_decode. destruct (N.land _ _ =? _); cbn [slot_first_byte le_order se_name]; [reflexivity|].
  unfold byte_at. destruct s; reflexivity.
Qed.

Lemma is_end_decode s : slot_is_end (slot_decode s) = (byte_at s 0 =? 0).
Proof. unfold slot_is_end. rewrite first_byte_decode. reflexivity. Qed.
Lemma is_deleted_decode s : slot_is_deleted (slot_decode s) = (byte_at s 0 =? 229).
Proof. unfold slot_is_deleted. rewrite first_byte_decode. reflexivity. Qed.

Lemma list13 (l : list N) : length l = 13%nat ->
  exists a0 a1 a2 a3 a4 a5 a6 a7 a8 a9 a10 a11 a12, l = [a0; a1; a2; a3; a4; a5; a6; a7; a8; a9; a10; a11; a12].
Proof.
  intros H. do 13 (destruct l as [|? l]; [discriminate|]). destruct l; [|discriminate].
  do 13 eexists. reflexivity.
Qed.
Lemma list11 (l : list N) : length l = 11%nat ->
  exists a0 a1 a2 a3 a4 a5 a6 a7 a8 a9 a10, l = [a0; a1; a2; a3; a4; a5; a6; a7; a8; a9; a10].
Proof.
  intros H. do 11 (destruct l as [|? l]; [discriminate|]). destruct l; [|discriminate].
  do 11 eexists. reflexivity.
Qed.

Definition units_ok (us : list N) : Prop := Forall (fun u => u < 65536) us.

Lemma u16_rt a : a < 65536 -> a mod 256 + 256 * ((a / 256) mod 256) = a.
Proof. intros. lia. Qed.

(* the fields Abs reads back from a serialised long-name slot *)
Lemma lfn_encode_fields e : length (le_name e) = 13%nat -> units_ok (le_name e) ->
  byte_at (lfn_encode e) 0 = le_order e /\ byte_at (lfn_encode e) 11 = le_attrs e /\
  byte_at (lfn_encode e) 13 = le_checksum e /\ lfn_units (lfn_encode e) = le_name e /\ length (lfn_encode e) = 32%nat.
Proof.
  intros HL HU. destruct e as [o nm at_ ty ck rs]. cbn [le_name le_order le_attrs le_checksum] in *.
  destruct (list13 nm HL) as [a0 [a1 [a2 [a3 [a4 [a5 [a6 [a7 [a8 [a9 [a10 [a11 [a12 E]]]]]]]]]]]]]. subst nm.
  unfold lfn_encode, lfn_units, u16_at, byte_at.
  cbn [le_name le_order le_attrs le_checksum le_entry_type le_reserved_0 firstn skipn flat_map app u16_bytes nth length].
  repeat split.
  unfold units_ok in HU.
  repeat match goal with H : Forall _ (_ :: _) |- _ => inversion H; clear H; subst end.
  repeat (f_equal; try (apply u16_rt; assumption)).
Qed.

Record sfn_fields_ok (e : sfn_entry) : Prop := {
  fo_name : length (se_name e) = 11%nat;
  fo_attrs : se_attrs e < 64;
  fo_res : se_reserved_0 e < 256; fo_ct0 : se_create_time_0 e < 256;
  fo_ct1 : se_create_time_1 e < 65536; fo_cd : se_create_date e < 65536; fo_ad : se_access_date e < 65536;
  fo_hi : se_first_cluster_hi e < 65536; fo_mt : se_modify_time e < 65536; fo_md : se_modify_date e < 65536;
  fo_lo : se_first_cluster_lo e < 65536; fo_size : se_size e < 4294967296 }.

Lemma u32_rt a : a < 4294967296 ->
  a mod 256 + 256 * ((a / 256) mod 256) + 65536 * ((a / 65536) mod 256 + 256 * ((a / 16777216) mod 256)) = a.
Proof. intros. lia. Qed.

(* the fields Abs reads back from a serialised short slot *)
Lemma sfn_encode_fields e : sfn_fields_ok e ->
  let s := sfn_encode e in
  firstn 11 s = se_name e /\ byte_at s 0 = nth 0 (se_name e) 0 /\ byte_at s 11 = se_attrs e /\
  byte_at s 12 = se_reserved_0 e /\ byte_at s 13 = se_create_time_0 e /\ u16_at s 14 = se_create_time_1 e /\
  u16_at s 16 = se_create_date e /\ u16_at s 18 = se_access_date e /\ u16_at s 20 = se_first_cluster_hi e /\
  u16_at s 22 = se_modify_time e /\ u16_at s 24 = se_modify_date e /\ u16_at s 26 = se_first_cluster_lo e /\
  u32_at s 28 = se_size e /\ length s = 32%nat.
Proof.
  intros [H1 H2 H3 H4 H5 H6 H7 H8 H9 H10 H11 H12].
  destruct e as [nm at_ rs c0 c1 cd ad hi mt md lo sz].
  cbn [se_name se_attrs se_reserved_0 se_create_time_0 se_create_time_1 se_create_date se_access_date
       se_first_cluster_hi se_modify_time se_modify_date se_first_cluster_lo se_size] in *.
  destruct (list11 nm H1) as [a0 [a1 [a2 [a3 [a4 [a5 [a6 [a7 [a8 [a9 [a10 E]]]]]]]]]]]. subst nm.
  cbn zeta. unfold sfn_encode, u32_at, u16_at, byte_at.
  cbn [se_name se_attrs se_reserved_0 se_create_time_0 se_create_time_1 se_create_date se_access_date
       se_first_cluster_hi se_modify_time se_modify_date se_first_cluster_lo se_size
       firstn app u16_bytes u32_bytes nth length].
  repeat split; try (apply u16_rt; assumption).
  apply u32_rt; assumption.
Qed.

(* ---------- the run emitted by LfnEntriesGenerator, newest-first ---------- *)

Fixpoint asc (cs : list (list N)) (k ck : N) : list lfn_entry :=
  match cs with [] => [] | c :: r => lfn_new k ck c :: asc r (k + 1) ck end.

Lemma asc_app a : forall b k ck, asc (a ++ b) k ck = asc a k ck ++ asc b (k + len_N a) ck.
Proof.
  induction a as [|x a IH]; intros b k ck; cbn [app asc].
  - unfold len_N. cbn [length N.of_nat]. rewrite N.add_0_r. reflexivity.
  - rewrite IH. do 3 f_equal. unfold len_N. cbn [length]. lia.
Qed.

Lemma lfn_gen_rev_asc ck : forall cs num index,
  Forall (fun c => length c = 13%nat) cs -> index <> 0 -> num = index + len_N cs -> num < 256 ->
  rev (lfn_gen (rev cs) num index ck) = asc cs 1 ck.
Proof.
  induction cs as [|c cs' IH] using rev_ind; intros num index Hall Hidx Hnum Hlt; [reflexivity|].
  rewrite rev_unit. cbn [lfn_gen]. apply Forall_app in Hall. destruct Hall as [Hall' Hc].
  inversion Hc as [|? ? Hc13 _]; subst. unfold len_N in *. rewrite app_length in *. cbn [length] in *.
  replace (index =? 0) with false by (symmetry; apply N.eqb_neq; exact Hidx).
  cbn [rev]. rewrite (IH (index + N.of_nat (length cs' + 1)) (index + 1)); try assumption; try lia.
  rewrite asc_app. cbn [asc]. f_equal. rewrite (lfn_part_full c Hc13). f_equal. f_equal. unfold len_N. lia.
Qed.

(* the entries of a run, nearest to the short entry first *)
Definition run_desc (u : list N) (ck : N) : list lfn_entry := rev (lfn_entries u ck).

Lemma run_desc_shape u ck : u <> [] -> (length u <= 255)%nat ->
  exists cs cl, Forall (fun c => length c = 13%nat) cs /\ (1 <= length cl <= 13)%nat /\ concat cs ++ cl = u /\
    (length cs < 20)%nat /\
    run_desc u ck = asc cs 1 ck ++ [lfn_new (len_N cs + 1 + 64) ck (lfn_part cl)].
Proof.
  intros Hne Hlen.
  destruct (chunks_decomp (length u) u) as [cs [cl [H1 [H2 [H3 [H4 H5]]]]]]; [lia|exact Hne|].
  exists cs, cl. repeat split; try assumption; try lia.
  unfold run_desc, lfn_entries. rewrite <- chunks13_length. unfold chunks13. rewrite H1.
  rewrite rev_unit, app_length. cbn [length lfn_gen N.eqb rev].
  set (K := N.of_nat (length cs + 1)).
  rewrite (lfn_gen_rev_asc ck cs K (0 + 1)); try assumption; try (unfold K, len_N; lia).
  f_equal. f_equal. replace ((K - 0) mod 256) with K by (unfold K; lia).
  unfold LFN_LAST_FLAG. rewrite lor_64 by (unfold K; lia). f_equal. unfold K, len_N. lia.
Qed.

(* ---------- Abs.run_valid, unfolded once ---------- *)
Lemma run_valid_intro pend sfn first rest :
  rev pend = first :: rest ->
  1 <= len_N pend -> len_N pend <= 20 ->
  byte_at first 0 = len_N pend + 64 ->
  run_ordered pend 1 = true ->
  forallb (fun s => (byte_at s 13 =? lfn_checksum sfn) && (byte_at s 0 <? 128)) pend = true ->
  forallb (fun s => byte_at s 0 <? 64) (removelast pend) = true ->
  match after_nul (flat_map lfn_units pend) with
  | Some pad => forallb (fun u => u =? 65535) pad && (len_N pad <? 13)
  | None => true
  end = true ->
  1 <= len_N (cut_nul (flat_map lfn_units pend)) -> len_N (cut_nul (flat_map lfn_units pend)) <= 255 ->
  run_valid pend sfn = true.
Proof.
  intros Hr H1 H2 H3 H4 H5 H6 H7 H8 H9. unfold run_valid. rewrite Hr.
  rewrite H3, N.eqb_refl, H4, H5, H6, H7.
  apply N.leb_le in H1, H2, H8, H9. rewrite H1, H2, H8, H9. reflexivity.
Qed.

Lemma asc_units cs : forall k ck, flat_map le_name (asc cs k ck) = concat cs.
Proof. induction cs as [|c r IH]; intros; cbn [asc flat_map concat lfn_new le_name]; [reflexivity|rewrite IH; reflexivity]. Qed.

Lemma asc_good cs : forall k ck, Forall (fun c => length c = 13%nat) cs -> units_ok (concat cs) ->
  Forall (fun e => length (le_name e) = 13%nat /\ units_ok (le_name e)) (asc cs k ck).
Proof.
  induction cs as [|c r IH]; intros k ck H1 H2; cbn [asc]; [constructor|].
  inversion H1; subst. cbn [concat] in H2. apply Forall_app in H2. destruct H2 as [H2 H2'].
  constructor; [cbn [lfn_new le_name]; split; assumption|apply IH; assumption].
Qed.

Lemma flat_units_encode es : Forall (fun e => length (le_name e) = 13%nat /\ units_ok (le_name e)) es ->
  flat_map lfn_units (map lfn_encode es) = flat_map le_name es.
Proof.
  induction 1 as [|e r [H1 H2] _ IH]; [reflexivity|]. cbn [map flat_map]. rewrite IH.
  destruct (lfn_encode_fields e H1 H2) as [_ [_ [_ [E _]]]]. rewrite E. reflexivity.
Qed.

Lemma run_ordered_asc cs : forall k ck rest,
  Forall (fun c => length c = 13%nat) cs -> units_ok (concat cs) -> k + len_N cs <= 64 ->
  run_ordered (map lfn_encode (asc cs k ck) ++ rest) k = run_ordered rest (k + len_N cs).
Proof.
  induction cs as [|c r IH]; intros k ck rest H1 H2 Hk; cbn [asc map app].
  - unfold len_N. cbn [length N.of_nat]. rewrite N.add_0_r. reflexivity.
  - inversion H1; subst. cbn [concat] in H2. apply Forall_app in H2. destruct H2 as [H2 H2'].
    unfold len_N in *. cbn [length] in *.
    cbn [run_ordered].
    destruct (lfn_encode_fields (lfn_new k ck c)) as [E _]; [assumption|assumption|]. rewrite E. cbn [lfn_new le_order].
    replace (k mod 64 =? k) with true by (symmetry; apply N.eqb_eq; lia). cbn [andb].
    rewrite IH by (try assumption; lia). f_equal. lia.
Qed.

Lemma forallb_map {A B} (f : B -> bool) (g : A -> B) l : forallb f (map g l) = forallb (fun x => f (g x)) l.
Proof. induction l as [|x r IH]; cbn [map forallb]; [reflexivity|rewrite IH; reflexivity]. Qed.

Lemma forallb_asc (P : lfn_entry -> bool) cs : forall k ck,
  (forall j c, k <= j < k + len_N cs -> In c cs -> P (lfn_new j ck c) = true) -> forallb P (asc cs k ck) = true.
Proof.
  induction cs as [|c r IH]; intros k ck H; cbn [asc forallb]; [reflexivity|].
  unfold len_N in *. cbn [length] in *. rewrite H by (try (left; reflexivity); lia). cbn [andb].
  apply IH. intros j c' Hj Hin. apply H; [lia|right; exact Hin].
Qed.

Lemma after_nul_nonul a : forall b, ~ In 0 a -> after_nul (a ++ b) = after_nul b.
Proof.
  induction a as [|x a IH]; intros b H; [reflexivity|]. cbn [app after_nul].
  destruct (x =? 0) eqn:E; [apply N.eqb_eq in E; subst; exfalso; apply H; left; reflexivity|].
  apply IH. intros C. apply H. right. exact C.
Qed.
Lemma cut_nul_nonul a : forall b, ~ In 0 a -> cut_nul (a ++ b) = a ++ cut_nul b.
Proof.
  induction a as [|x a IH]; intros b H; [reflexivity|]. cbn [app cut_nul].
  destruct (x =? 0) eqn:E; [apply N.eqb_eq in E; subst; exfalso; apply H; left; reflexivity|].
  f_equal. apply IH. intros C. apply H. right. exact C.
Qed.
Lemma forallb_repeat_pad n : forallb (fun u => u =? 65535) (repeat_N LFN_PADDING n) = true.
Proof. induction n; cbn [repeat_N forallb]; [reflexivity|]. rewrite IHn. reflexivity. Qed.

Lemma units_ok_in_concat cs c : units_ok (concat cs) -> In c cs -> units_ok c.
Proof.
  induction cs as [|x r IH]; intros H Hin; [destruct Hin|]. cbn [concat] in H. apply Forall_app in H.
  destruct Hin as [->|Hin]; [apply H|apply IH; [apply H|exact Hin]].
Qed.

(* (a), on UTF-16 units *)
Theorem written_run_valid_units u sfn :
  u <> [] -> (length u <= 255)%nat -> ~ In 0 u -> units_ok u ->
  let pend := map lfn_encode (run_desc u (lfn_checksum sfn)) in
  run_valid pend sfn = true /\ cut_nul (flat_map lfn_units pend) = u /\
  (1 <= length pend <= 20)%nat /\
  Forall (fun s => is_lfn_slot s = true /\ byte_at s 0 <> 0 /\ byte_at s 0 <> 229 /\ length s = 32%nat) pend.
Proof.
  intros Hne Hlen Hnz Hu. cbn zeta. set (ck := lfn_checksum sfn).
  destruct (run_desc_shape u ck Hne Hlen) as [cs [cl [Hcs [Hcl [Hcat [Hk E]]]]]]. rewrite E.
  set (K := len_N cs + 1). set (last := lfn_new (K + 64) ck (lfn_part cl)).
  assert (units_ok (concat cs) /\ units_ok cl) as [Hucs Hucl] by (apply Forall_app; rewrite Hcat; exact Hu).
  assert (~ In 0 (concat cs) /\ ~ In 0 cl) as [Hzcs Hzcl].
  { split; intros C; apply Hnz; rewrite <- Hcat; apply in_or_app; [left|right]; exact C. }
  assert (length (lfn_part cl) = 13%nat) as Hpl by (apply lfn_part_length; lia).
  assert (units_ok (lfn_part cl)) as Hupl.
  { unfold lfn_part. destruct (len_N cl <? LFN_PART_LEN); [|exact Hucl]. apply Forall_app. split; [exact Hucl|].
    constructor; [lia|]. generalize (12 - length cl)%nat. induction n; cbn [repeat_N]; constructor; [unfold LFN_PADDING; lia|assumption]. }
  assert (Forall (fun e => length (le_name e) = 13%nat /\ units_ok (le_name e)) (asc cs 1 ck ++ [last])) as Hgood.
  { apply Forall_app. split; [apply asc_good; assumption|]. constructor; [|constructor]. cbn [last lfn_new le_name]. split; assumption. }
  destruct (lfn_encode_fields last Hpl Hupl) as [L0 [L11 [L13 [LU LL]]]]. cbn [last lfn_new le_order le_attrs le_checksum le_name] in L0, L11, L13.
  assert (len_N (map lfn_encode (asc cs 1 ck ++ [last])) = K) as HN.
  { unfold len_N. rewrite map_length, app_length. cbn [length].
    assert (forall cs k, length (asc cs k ck) = length cs) as AL by (induction cs0; intros; cbn [asc length]; congruence).
    rewrite AL. unfold K, len_N. lia. }
  assert (K <= 20) as HK20 by (unfold K, len_N; lia).
  assert (flat_map lfn_units (map lfn_encode (asc cs 1 ck ++ [last])) = concat cs ++ lfn_part cl) as HU.
  { rewrite flat_units_encode by exact Hgood. rewrite flat_map_app, asc_units. cbn [flat_map last lfn_new le_name].
    rewrite app_nil_r. reflexivity. }
  assert (cut_nul (concat cs ++ lfn_part cl) = u) as HC.
  { rewrite cut_nul_nonul by exact Hzcs. rewrite <- Hcat. f_equal. unfold lfn_part.
    destruct (len_N cl <? LFN_PART_LEN).
    - rewrite cut_nul_nonul by exact Hzcl. cbn [cut_nul N.eqb]. apply app_nil_r.
    - rewrite <- (app_nil_r cl) at 1. rewrite cut_nul_nonul by exact Hzcl. cbn [cut_nul]. apply app_nil_r. }
  split; [|split; [|split]].
  - eapply run_valid_intro.
    + rewrite map_app, rev_app_distr. cbn [map rev app]. reflexivity.
    + rewrite HN. unfold K. lia.
    + rewrite HN. exact HK20.
    + rewrite HN, L0. reflexivity.
    + rewrite map_app. rewrite run_ordered_asc by (try assumption; unfold len_N in *; lia).
      cbn [map run_ordered]. rewrite L0. fold K.
      replace ((K + 64) mod 64 =? 1 + len_N cs) with true by (symmetry; apply N.eqb_eq; unfold K in *; lia). reflexivity.
    + rewrite forallb_map, forallb_app. apply andb_true_iff. split.
      * apply forallb_asc. intros j c Hj Hin.
        assert (length c = 13%nat) as Hc13 by (rewrite Forall_forall in Hcs; apply Hcs; exact Hin).
        assert (units_ok c) as Huc by (eapply units_ok_in_concat; eassumption).
        destruct (lfn_encode_fields (lfn_new j ck c) Hc13 Huc) as [F0 [_ [F13 _]]]. rewrite F0, F13.
        cbn [lfn_new le_order le_checksum]. rewrite N.eqb_refl. apply N.ltb_lt. unfold K, len_N in *. lia.
      * cbn [forallb]. rewrite L0, L13, N.eqb_refl. replace (K + 64 <? 128) with true by (symmetry; apply N.ltb_lt; lia). reflexivity.
    + rewrite map_app. cbn [map]. rewrite removelast_last, forallb_map. apply forallb_asc. intros j c Hj Hin.
      assert (length c = 13%nat) as Hc13 by (rewrite Forall_forall in Hcs; apply Hcs; exact Hin).
      assert (units_ok c) as Huc by (eapply units_ok_in_concat; eassumption).
      destruct (lfn_encode_fields (lfn_new j ck c) Hc13 Huc) as [F0 _]. rewrite F0. cbn [lfn_new le_order].
      apply N.ltb_lt. unfold K, len_N in *. lia.
    + rewrite HU, after_nul_nonul by exact Hzcs. unfold lfn_part.
      destruct (len_N cl <? LFN_PART_LEN) eqn:EL.
      * rewrite after_nul_nonul by exact Hzcl. cbn [after_nul N.eqb]. rewrite forallb_repeat_pad. cbn [andb].
        apply N.ltb_lt. unfold len_N. rewrite NameProofs.repeat_N_length. lia.
      * rewrite <- (app_nil_r cl). rewrite after_nul_nonul by exact Hzcl. reflexivity.
    + rewrite HU, HC. unfold len_N. destruct u; [congruence|cbn [length]; lia].
    + rewrite HU, HC. unfold len_N. lia.
  - rewrite HU. exact HC.
  - unfold K, len_N in *. lia.
  - rewrite Forall_forall. intros s Hs. apply in_map_iff in Hs. destruct Hs as [e [<- He]].
    rewrite Forall_forall in Hgood. destruct (Hgood e He) as [G1 G2].
    destruct (lfn_encode_fields e G1 G2) as [F0 [F11 [_ [_ FL]]]].
    assert (le_attrs e = 15 /\ 1 <= le_order e <= 84) as [Ha Ho].
    { apply in_app_or in He. destruct He as [He|[<-|[]]].
      - clear -He Hk. assert (forall cs k, In e (asc cs k ck) -> le_attrs e = 15 /\ k <= le_order e < k + len_N cs) as A.
        { induction cs0 as [|c r IH]; intros k H; [destruct H|]. unfold len_N in *. cbn [asc length] in *. destruct H as [<-|H].
          - cbn [lfn_new le_attrs le_order]. split; [reflexivity|lia].
          - destruct (IH _ H). split; [assumption|lia]. }
        destruct (A cs 1 He). unfold len_N in *. split; [assumption|lia].
      - cbn [last lfn_new le_attrs le_order]. split; [reflexivity|lia]. }
    unfold is_lfn_slot. rewrite F0, F11, Ha. repeat split; try lia.
Qed.

Lemma map_rev' {A B} (f : A -> B) l : map f (rev l) = rev (map f l).
Proof. induction l as [|x r IH]; [reflexivity|]. cbn [rev map]. rewrite map_app, IH. reflexivity. Qed.

(* what Abs.mk_entry reads back from a short slot serialised by the library *)
Lemma mk_entry_fields pend e idx fat32 : sfn_fields_ok e ->
  let en := mk_entry pend (sfn_encode e) idx fat32 in
  e_sfn en = se_name e /\ e_attr en = se_attrs e /\ e_ntres en = se_reserved_0 e /\
  e_ctime_ms en = se_create_time_0 e /\ e_ctime en = se_create_time_1 e /\ e_cdate en = se_create_date e /\
  e_adate en = se_access_date e /\ e_mtime en = se_modify_time e /\ e_mdate en = se_modify_date e /\
  e_cluster en = (if fat32 then se_first_cluster_hi e * 65536 else 0) + se_first_cluster_lo e /\
  e_size en = se_size e /\ e_first_slot en = idx - len_N pend /\ e_sfn_slot en = idx /\
  e_lfn_ok en = run_valid pend (se_name e) /\
  e_lfn en = (if run_valid pend (se_name e) then cut_nul (flat_map lfn_units pend) else []).
Proof.
  intros H. destruct (sfn_encode_fields e H) as [F0 [_ [F11 [F12 [F13 [F14 [F16 [F18 [F20 [F22 [F24 [F26 [F28 _]]]]]]]]]]]]].
  cbn zeta in *. unfold mk_entry.
  cbn [e_sfn e_attr e_ntres e_ctime_ms e_ctime e_cdate e_adate e_mtime e_mdate e_cluster e_size e_first_slot e_sfn_slot e_lfn_ok e_lfn].
  rewrite F0, F11, F12, F13, F14, F16, F18, F20, F22, F24, F26, F28. repeat split.
Qed.

Definition lfn_live (s : list N) : Prop :=
  is_lfn_slot s = true /\ byte_at s 0 <> 0 /\ byte_at s 0 <> 229 /\ length s = 32%nat.

(* the long-name part of the run written by write_entry, for every accepted name (none for the dot names) *)
Lemma entry_lfn_run_valid n sfn : validate_long_name n = Ok tt ->
  let lf := map lfn_encode (write_entry_lfn_slots n sfn) in
  run_valid (rev lf) sfn = true /\
  cut_nul (flat_map lfn_units (rev lf)) = (if is_dot_name n then [] else utf16_encode n) /\
  (length lf <= 20)%nat /\ (is_dot_name n = false -> (1 <= length lf)%nat) /\ Forall lfn_live lf.
Proof.
  intros V. cbn zeta. unfold write_entry_lfn_slots. destruct (is_dot_name n).
  - cbn [map rev flat_map cut_nul length]. repeat split; try lia; try discriminate. constructor.
  - destruct (validate_spec n) as [[Hok _] _]. destruct (Hok V) as [[H1 H2] Hc].
    destruct (valid_name_units n Hc) as [E NI]. rewrite E.
    pose proof (utf8_len_ge_length n) as HL. unfold MAX_LONG_NAME_LEN in *.
    assert (n <> []) as Hne by (intros C; subst n; cbn [utf8_len] in H1; lia).
    assert (units_ok n) as HU.
    { rewrite forallb_forall in Hc. apply Forall_forall. intros c Hin. apply (lfn_char_ok_bmp c (Hc c Hin)). }
    destruct (written_run_valid_units n sfn Hne ltac:(lia) NI HU) as [R1 [R2 [R3 R4]]].
    unfold run_desc in *. rewrite map_rev' in *. cbn zeta in *.
    repeat split; try assumption.
    + rewrite rev_length in R3. lia.
    + rewrite rev_length in R3. lia.
    + apply Forall_rev in R4. rewrite rev_involutive in R4. exact R4.
Qed.

(* (a) *)
Theorem written_run_valid n e idx fat32 :
  validate_long_name n = Ok tt -> is_dot_name n = false -> sfn_fields_ok e ->
  let lfn_slots := map lfn_encode (lfn_entries (utf16_encode n) (lfn_checksum (se_name e))) in
  let en := mk_entry (rev lfn_slots) (sfn_encode e) idx fat32 in
  run_valid (rev lfn_slots) (se_name e) = true /\ e_lfn en = utf16_encode n /\ e_lfn_ok en = true /\
  e_sfn en = se_name e /\ e_first_slot en = idx - len_N lfn_slots /\ e_sfn_slot en = idx.
Proof.
  intros V D F. cbn zeta.
  destruct (entry_lfn_run_valid n (se_name e) V) as [R1 [R2 _]]. unfold write_entry_lfn_slots in *. rewrite D in *.
  cbn zeta in *.
  destruct (mk_entry_fields (rev (map lfn_encode (lfn_entries (utf16_encode n) (lfn_checksum (se_name e))))) e idx fat32 F)
    as [M1 [_ [_ [_ [_ [_ [_ [_ [_ [_ [_ [M12 [M13 [M14 M15]]]]]]]]]]]]]].
  cbn zeta in *. rewrite M14, M15, R1, R2, M1, M12, M13. unfold len_N. rewrite rev_length. repeat split.
Qed.

(* ================================================================ 2. find_free_entries *)

Definition nonend (s : list N) : Prop := byte_at s 0 <> 0.
Definition isdel (s : list N) : Prop := byte_at s 0 = 229.
Definition zfirst (s : list N) : Prop := byte_at s 0 = 0.

(* [p] splits the directory into [pre] (no end marker inside), a run [mid] of deleted slots starting at index p, and
   the rest; either the deleted run has the requested length, or it is shorter and is followed by the end of the
   directory (no more slots, or a slot whose first byte is 0) *)
Record free_spot (ss : slots) (num p : N) (pre mid post : slots) : Prop := {
  fs_split : ss = pre ++ mid ++ post;
  fs_p : len_N pre = p;
  fs_pre : Forall nonend pre;
  fs_mid : Forall isdel mid;
  fs_case : len_N mid = num \/ (len_N mid < num /\ (post = [] \/ exists z r, post = z :: r /\ zfirst z)) }.

Lemma len_N_app {A} (a b : list A) : len_N (a ++ b) = len_N a + len_N b.
Proof. unfold len_N. rewrite app_length. lia. Qed.

Lemma find_free_go_spec num : forall cur pre mid ff nf i,
  Forall nonend pre -> Forall isdel mid -> len_N mid < num -> (mid <> [] -> ff = len_N pre) ->
  nf = len_N mid -> i = len_N pre + len_N mid ->
  len_N (pre ++ mid ++ cur) < 134217728 ->
  exists ae p pre' mid' post', find_free_go cur num ff nf i = Ok (ae, p) /\ free_spot (pre ++ mid ++ cur) num p pre' mid' post' /\
    ae = (len_N mid' <? num).
Proof.
  induction cur as [|s r IH]; intros pre mid ff nf i Hpre Hmid Hlt Hff Hnf Hi Hbound.
  - cbn [find_free_go]. subst nf i. destruct mid as [|m0 mid'].
    + exists true, (len_N pre + 0), pre, [], []. cbn [len_N length N.of_nat N.eqb]. split; [reflexivity|].
      split; [|symmetry; apply N.ltb_lt; exact Hlt].
      constructor; [reflexivity|lia|assumption|constructor|].
      right. split; [exact Hlt|left; reflexivity].
    + exists true, ff, pre, (m0 :: mid'), []. replace (len_N (m0 :: mid') =? 0) with false
        by (symmetry; apply N.eqb_neq; unfold len_N; cbn [length]; lia).
      split; [reflexivity|]. split; [|symmetry; apply N.ltb_lt; exact Hlt].
      constructor; [reflexivity|symmetry; apply Hff; discriminate|assumption|assumption|].
      right. split; [exact Hlt|left; reflexivity].
  - cbn [find_free_go]. rewrite is_end_decode, is_deleted_decode.
    destruct (byte_at s 0 =? 0) eqn:E0.
    + apply N.eqb_eq in E0. subst nf i. destruct mid as [|m0 mid'].
      * exists true, (len_N pre + 0), pre, [], (s :: r). cbn [len_N length N.of_nat N.eqb]. split; [reflexivity|].
        split; [|symmetry; apply N.ltb_lt; exact Hlt].
        constructor; [reflexivity|lia|assumption|constructor|].
        right. split; [exact Hlt|right; exists s, r; split; [reflexivity|exact E0]].
      * exists true, ff, pre, (m0 :: mid'), (s :: r). replace (len_N (m0 :: mid') =? 0) with false
          by (symmetry; apply N.eqb_neq; unfold len_N; cbn [length]; lia).
        split; [reflexivity|]. split; [|symmetry; apply N.ltb_lt; exact Hlt].
        constructor; [reflexivity|symmetry; apply Hff; discriminate|assumption|assumption|].
        right. split; [exact Hlt|right; exists s, r; split; [reflexivity|exact E0]].
    + apply N.eqb_neq in E0.
      assert (len_N pre + len_N mid + 1 <= 134217728) as Hb.
      { rewrite !len_N_app in Hbound. unfold len_N in *. cbn [length] in Hbound. lia. }
      destruct (byte_at s 0 =? 229) eqn:E5.
      * apply N.eqb_eq in E5.
        assert ((if nf =? 0 then i else ff) = len_N pre) as Eff.
        { subst nf i. destruct mid; [cbn [len_N length N.of_nat N.eqb]; unfold len_N; lia|].
          replace (len_N (l :: mid) =? 0) with false by (symmetry; apply N.eqb_neq; unfold len_N; cbn [length]; lia).
          apply Hff. discriminate. }
        rewrite Eff. unfold u32_add, u32_max.
        replace (nf + 1 <=? 4294967295) with true by (symmetry; apply N.leb_le; lia). cbn [bind].
        assert (pre ++ mid ++ s :: r = pre ++ (mid ++ [s]) ++ r) as Eapp by (rewrite <- !app_assoc; reflexivity).
        assert (Forall isdel (mid ++ [s])) as Hmid' by (apply Forall_app; split; [assumption|constructor; [exact E5|constructor]]).
        destruct (nf + 1 =? num) eqn:En.
        -- apply N.eqb_eq in En. exists false, (len_N pre), pre, (mid ++ [s]), r. split; [reflexivity|].
           assert (len_N (mid ++ [s]) = num) as Elen by (rewrite len_N_app; unfold len_N at 2; cbn [length]; lia).
           split; [|symmetry; apply N.ltb_ge; lia].
           constructor; [exact Eapp|reflexivity|assumption|assumption|]. left. exact Elen.
        -- apply N.eqb_neq in En.
           replace (i + 1 <=? 4294967295) with true by (symmetry; apply N.leb_le; lia). cbn [bind].
           rewrite Eapp. apply IH; try assumption.
           ++ rewrite len_N_app. unfold len_N at 2. cbn [length]. lia.
           ++ intros _. reflexivity.
           ++ rewrite len_N_app. unfold len_N at 2. cbn [length]. lia.
           ++ rewrite len_N_app. unfold len_N at 3. cbn [length]. lia.
           ++ rewrite <- Eapp. exact Hbound.
      * apply N.eqb_neq in E5. unfold u32_add, u32_max.
        replace (i + 1 <=? 4294967295) with true by (symmetry; apply N.leb_le; lia). cbn [bind].
        assert (pre ++ mid ++ s :: r = (pre ++ mid ++ [s]) ++ [] ++ r) as Eapp by (rewrite <- !app_assoc; reflexivity).
        rewrite Eapp. apply IH; try assumption; try constructor.
        -- apply Forall_app. split; [assumption|]. apply Forall_app. split.
           ++ eapply Forall_impl; [|exact Hmid]. intros a Ha. unfold nonend, isdel in *. rewrite Ha. discriminate.
           ++ constructor; [exact E0|constructor].
        -- cbn [len_N length N.of_nat]. lia.
        -- intros C. congruence.
        -- rewrite !len_N_app. cbn [len_N length N.of_nat]. unfold len_N in *. cbn [length]. lia.
        -- rewrite <- Eapp. exact Hbound.
Qed.

(* (b) the run of [num] slots goes to the free spot [p]; the only refusal is that of a FIXED root (13fd5fe): the spot is
   the end of the used part and the run would end behind the last slot of the region - NotEnoughSpace (nothing is written
   by find_free_entries).  A reused run of deleted slots always fits; a chain-backed directory is never refused here. *)
Theorem find_free_entries_spec k ss num : 1 <= num -> len_N ss < 134217728 ->
  exists p pre mid post, free_spot ss num p pre mid post /\
    find_free_entries k ss num = if is_fixed k && (len_N ss <? p + num) then Err ENotEnoughSpace else Ok p.
Proof.
  intros Hn Hb.
  assert (len_N (@nil (list N)) < num) as H1 by (cbn [len_N length N.of_nat]; lia).
  assert ((@nil (list N)) <> [] -> 0 = len_N (@nil (list N))) as H2 by (intros C; congruence).
  destruct (find_free_go_spec num ss [] [] 0 0 0 (Forall_nil _) (Forall_nil _) H1 H2 eq_refl eq_refl Hb)
    as [ae [p [pre [mid [post [E [S Eae]]]]]]].
  exists p, pre, mid, post. cbn [app] in S. split; [exact S|]. unfold find_free_entries. rewrite E. cbn [bind].
  unfold u32_mul, DIR_ENTRY_SIZE, u32_max.
  assert (p + len_N mid <= len_N ss) as Hp.
  { destruct S as [S1 S2 _ _ _]. rewrite S1, <- S2, !len_N_app. lia. }
  replace (p * 32 <=? 4294967295) with true by (symmetry; apply N.leb_le; lia). cbn [bind].
  destruct (is_fixed k); cbn [andb]; [|rewrite andb_false_r; reflexivity]. rewrite andb_true_r. subst ae.
  destruct (len_N mid <? num) eqn:EL.
  - replace (len_N ss * 32 <? p * 32 + num * 32) with (len_N ss <? p + num); [reflexivity|].
    destruct (len_N ss <? p + num) eqn:EC; symmetry; [apply N.ltb_lt in EC; apply N.ltb_lt|apply N.ltb_ge in EC; apply N.ltb_ge]; lia.
  - apply N.ltb_ge in EL. destruct S as [_ _ _ _ [C|[C _]]]; [|lia].
    replace (len_N ss <? p + num) with false by (symmetry; apply N.ltb_ge; lia). reflexivity.
Qed.

Corollary find_free_entries_chained cs ss num : 1 <= num -> len_N ss < 134217728 ->
  exists p pre mid post, find_free_entries (Chained cs) ss num = Ok p /\ free_spot ss num p pre mid post.
Proof.
  intros Hn Hb. destruct (find_free_entries_spec (Chained cs) ss num Hn Hb) as [p [pre [mid [post [S E]]]]].
  exists p, pre, mid, post. split; [exact E|exact S].
Qed.

(* ================================================================ 3. the independent decoder over a split directory *)

Definition orphan (pend : slots) (idx : N) : list dissue := match pend with [] => [] | _ => [DOrphanLfn idx] end.

(* Abs.dir_scan restricted to a prefix without end marker: its entries, labels, issues, and the pending long-name
   slots it leaves *)
Fixpoint scan_pre (pre : slots) (idx : N) (pend : slots) (fat32 : bool)
  : list entry * list (list N) * list dissue * slots :=
  match pre with
  | [] => ([], [], [], pend)
  | s :: r =>
    if byte_at s 0 =? 229 then
      let '(es, ls, iss, p) := scan_pre r (idx + 1) [] fat32 in (es, ls, orphan pend idx ++ iss, p)
    else if is_lfn_slot s then
      if lfn_starts s && (match pend with [] => false | _ => true end) then
        let '(es, ls, iss, p) := scan_pre r (idx + 1) [s] fat32 in (es, ls, DOrphanLfn idx :: iss, p)
      else scan_pre r (idx + 1) (s :: pend) fat32
    else if is_label_slot s then
      let '(es, ls, iss, p) := scan_pre r (idx + 1) [] fat32 in (es, firstn 11 s :: ls, orphan pend idx ++ iss, p)
    else
      let e := mk_entry pend s idx fat32 in
      let '(es, ls, iss, p) := scan_pre r (idx + 1) [] fat32 in
      (e :: es, ls, (if e_lfn_ok e then [] else [DOrphanLfn idx]) ++ iss, p)
  end.

Lemma scan_app fat32 : forall pre rest idx pend, Forall nonend pre ->
  dir_scan (pre ++ rest) idx pend fat32 =
  let '(es1, ls1, iss1, p) := scan_pre pre idx pend fat32 in
  let '(es2, ls2, iss2) := dir_scan rest (idx + len_N pre) p fat32 in
  (es1 ++ es2, ls1 ++ ls2, iss1 ++ iss2).
Proof.
  induction pre as [|s r IH]; intros rest idx pend H.
  - cbn [app scan_pre len_N length N.of_nat]. rewrite N.add_0_r. destruct (dir_scan rest idx pend fat32) as [[a b] c]. reflexivity.
  - inversion H as [|? ? Hs Hr]; subst. cbn [app dir_scan scan_pre].
    replace (byte_at s 0 =? 0) with false by (symmetry; apply N.eqb_neq; exact Hs).
    replace (idx + len_N (s :: r)) with (idx + 1 + len_N r) by (unfold len_N; cbn [length]; lia).
    destruct (byte_at s 0 =? 229).
    { rewrite IH by exact Hr. destruct (scan_pre r (idx + 1) [] fat32) as [[[es1 ls1] iss1] p].
      destruct (dir_scan rest (idx + 1 + len_N r) p fat32) as [[es2 ls2] iss2]. unfold orphan. rewrite app_assoc. reflexivity. }
    destruct (is_lfn_slot s).
    { destruct (lfn_starts s && match pend with [] => false | _ => true end).
      - rewrite IH by exact Hr. destruct (scan_pre r (idx + 1) [s] fat32) as [[[es1 ls1] iss1] p].
        destruct (dir_scan rest (idx + 1 + len_N r) p fat32) as [[es2 ls2] iss2]. reflexivity.
      - rewrite IH by exact Hr. reflexivity. }
    destruct (is_label_slot s).
    { rewrite IH by exact Hr. destruct (scan_pre r (idx + 1) [] fat32) as [[[es1 ls1] iss1] p].
      destruct (dir_scan rest (idx + 1 + len_N r) p fat32) as [[es2 ls2] iss2]. unfold orphan. rewrite app_assoc. reflexivity. }
    rewrite IH by exact Hr. destruct (scan_pre r (idx + 1) [] fat32) as [[[es1 ls1] iss1] p].
    destruct (dir_scan rest (idx + 1 + len_N r) p fat32) as [[es2 ls2] iss2]. rewrite app_assoc. reflexivity.
Qed.

(* a prefix without end marker, scanned alone: what is still pending at its end is an orphan run *)
Lemma scan_pre_alone fat32 pre idx pend : Forall nonend pre ->
  dir_scan pre idx pend fat32 =
  let '(es1, ls1, iss1, p) := scan_pre pre idx pend fat32 in (es1, ls1, iss1 ++ orphan p (idx + len_N pre)).
Proof.
  intros H. rewrite <- (app_nil_r pre) at 1. rewrite scan_app by exact H.
  destruct (scan_pre pre idx pend fat32) as [[[es1 ls1] iss1] p]. cbn [dir_scan]. rewrite !app_nil_r. reflexivity.
Qed.

Lemma orphan_nil pend idx : orphan pend idx = [] -> pend = [].
Proof. destruct pend; [reflexivity|discriminate]. Qed.

Lemma scan_all_zfirst fat32 l idx : Forall zfirst l -> dir_scan l idx [] fat32 = ([], [], []).
Proof.
  intros H. destruct l as [|s r]; [reflexivity|]. inversion H as [|? ? Hs Hr]; subst. cbn [dir_scan].
  unfold zfirst in Hs. rewrite Hs. cbn [N.eqb].
  replace (forallb (fun t => byte_at t 0 =? 0) r) with true; [reflexivity|].
  symmetry. apply forallb_forall. intros t Ht. rewrite Forall_forall in Hr. apply N.eqb_eq. apply Hr. exact Ht.
Qed.

Lemma scan_deleted fat32 : forall mid rest idx, Forall isdel mid ->
  dir_scan (mid ++ rest) idx [] fat32 = dir_scan rest (idx + len_N mid) [] fat32.
Proof.
  induction mid as [|s r IH]; intros rest idx H.
  - cbn [app len_N length N.of_nat]. rewrite N.add_0_r. reflexivity.
  - inversion H as [|? ? Hs Hr]; subst. cbn [app dir_scan]. unfold isdel in Hs. rewrite Hs. cbn [N.eqb Pos.eqb].
    rewrite IH by exact Hr. replace (idx + len_N (s :: r)) with (idx + 1 + len_N r) by (unfold len_N; cbn [length]; lia).
    destruct (dir_scan rest (idx + 1 + len_N r) [] fat32) as [[a b] c]. reflexivity.
Qed.

Definition lfn_like (s : list N) : Prop := is_lfn_slot s = true /\ byte_at s 0 <> 0 /\ byte_at s 0 <> 229.
Lemma lfn_live_like l : Forall lfn_live l -> Forall lfn_like l.
Proof. intros H. eapply Forall_impl; [|exact H]. intros a [A1 [A2 [A3 _]]]. repeat split; assumption. Qed.

(* a long-name slot that does not carry 0x40 continues the pending run *)
Definition nostart (s : list N) : Prop := lfn_starts s = false.

Lemma scan_lfns fat32 : forall lf rest idx pend, Forall lfn_like lf -> Forall nostart lf ->
  dir_scan (lf ++ rest) idx pend fat32 = dir_scan rest (idx + len_N lf) (rev lf ++ pend) fat32.
Proof.
  induction lf as [|s r IH]; intros rest idx pend H Hn.
  - cbn [app len_N length N.of_nat rev]. rewrite N.add_0_r. reflexivity.
  - inversion H as [|? ? [H1 [H2 H3]] Hr]; subst. inversion Hn as [|? ? Hn1 Hnr]; subst. cbn [app dir_scan].
    replace (byte_at s 0 =? 0) with false by (symmetry; apply N.eqb_neq; exact H2).
    replace (byte_at s 0 =? 229) with false by (symmetry; apply N.eqb_neq; exact H3).
    unfold nostart in Hn1. rewrite H1, Hn1. cbn [andb]. rewrite IH by assumption. cbn [rev]. rewrite <- app_assoc. cbn [app].
    replace (idx + len_N (s :: r)) with (idx + 1 + len_N r) by (unfold len_N; cbn [length]; lia). reflexivity.
Qed.

(* a run (0x40 at most on its first stored slot) met while nothing is pending *)
Lemma scan_run fat32 lf rest idx : Forall lfn_like lf -> Forall nostart (tl lf) ->
  dir_scan (lf ++ rest) idx [] fat32 = dir_scan rest (idx + len_N lf) (rev lf) fat32.
Proof.
  intros H Hn. destruct lf as [|f lf'].
  - cbn [app len_N length N.of_nat rev]. rewrite N.add_0_r. reflexivity.
  - inversion H as [|? ? [H1 [H2 H3]] Hr]; subst. cbn [tl] in Hn. cbn [app dir_scan].
    replace (byte_at f 0 =? 0) with false by (symmetry; apply N.eqb_neq; exact H2).
    replace (byte_at f 0 =? 229) with false by (symmetry; apply N.eqb_neq; exact H3).
    rewrite H1, andb_false_r. rewrite scan_lfns by assumption. cbn [rev].
    replace (idx + len_N (f :: lf')) with (idx + 1 + len_N lf') by (unfold len_N; cbn [length]; lia). reflexivity.
Qed.

(* THE RESTART: a run whose first slot carries 0x40, met while other long-name slots are pending: those are reported as
   an orphan run at the index of the restarting slot, and the new run is pending alone *)
Lemma scan_restart fat32 f lf' rest idx pend : Forall lfn_like (f :: lf') -> lfn_starts f = true -> Forall nostart lf' ->
  pend <> [] ->
  dir_scan ((f :: lf') ++ rest) idx pend fat32 =
  let '(es, ls, iss) := dir_scan rest (idx + len_N (f :: lf')) (rev (f :: lf')) fat32 in (es, ls, DOrphanLfn idx :: iss).
Proof.
  intros H Hf Hn Hp. inversion H as [|? ? [H1 [H2 H3]] Hr]; subst. cbn [app dir_scan].
  replace (byte_at f 0 =? 0) with false by (symmetry; apply N.eqb_neq; exact H2).
  replace (byte_at f 0 =? 229) with false by (symmetry; apply N.eqb_neq; exact H3).
  rewrite H1, Hf. destruct pend as [|p0 pend']; [congruence|]. cbn [andb].
  rewrite scan_lfns by assumption. cbn [rev].
  replace (idx + len_N (f :: lf')) with (idx + 1 + len_N lf') by (unfold len_N; cbn [length]; lia). reflexivity.
Qed.

(* a run accepted by run_valid carries 0x40 on its first stored slot and nowhere else *)
Lemma run_valid_starts lf sfn : run_valid (rev lf) sfn = true ->
  Forall nostart (tl lf) /\ (forall f lf', lf = f :: lf' -> lfn_starts f = true).
Proof.
  intros H. unfold run_valid in H. rewrite rev_involutive in H. destruct lf as [|f lf'].
  - split; [constructor|]. intros; discriminate.
  - rewrite !andb_true_iff in H. destruct H as [[[[[[[[H1 H2] H3] _] _] H6] _] _] _].
    apply N.leb_le in H1, H2. apply N.eqb_eq in H3. cbn [rev] in H6. rewrite removelast_last in H6.
    split.
    + cbn [tl]. apply Forall_forall. intros x Hx. rewrite forallb_forall in H6. specialize (H6 x (proj1 (in_rev _ _) Hx)).
      apply N.ltb_lt in H6. unfold nostart, lfn_starts. apply N.eqb_neq. lia.
    + intros f0 l0 E. injection E as <- <-. unfold lfn_starts. apply N.eqb_eq. lia.
Qed.

Lemma Forall_tl_firstn {A} (P : A -> Prop) j (l : list A) : Forall P (tl l) -> Forall P (tl (firstn j l)).
Proof.
  intros H. destruct j as [|j]; [constructor|]. destruct l as [|x l]; [constructor|]. cbn [firstn tl] in *.
  apply LfnProofs.Forall_firstn'. exact H.
Qed.

Definition short_live (s : list N) : Prop :=
  byte_at s 0 <> 0 /\ byte_at s 0 <> 229 /\ is_lfn_slot s = false /\ is_label_slot s = false.

Lemma scan_short fat32 s rest idx pend : short_live s ->
  dir_scan (s :: rest) idx pend fat32 =
  let e := mk_entry pend s idx fat32 in
  let '(es, ls, iss) := dir_scan rest (idx + 1) [] fat32 in
  (e :: es, ls, (if e_lfn_ok e then [] else [DOrphanLfn idx]) ++ iss).
Proof.
  intros [H1 [H2 [H3 H4]]]. cbn [dir_scan].
  replace (byte_at s 0 =? 0) with false by (symmetry; apply N.eqb_neq; exact H1).
  replace (byte_at s 0 =? 229) with false by (symmetry; apply N.eqb_neq; exact H2).
  rewrite H3, H4. reflexivity.
Qed.

(* a directory without issues has no pending long-name slots where a free slot (deleted, end marker, end of the slot
   list) begins *)
Lemma no_issue_free_head fat32 rest idx pend es ls :
  dir_scan rest idx pend fat32 = (es, ls, []) ->
  (rest = [] \/ exists s r, rest = s :: r /\ (zfirst s \/ isdel s)) -> pend = [].
Proof.
  intros H [->|[s [r [-> Hs]]]].
  - cbn [dir_scan] in H. destruct pend; [reflexivity|discriminate].
  - cbn [dir_scan] in H. destruct Hs as [Hs|Hs].
    + unfold zfirst in Hs. rewrite Hs in H. cbn [N.eqb] in H. destruct pend; [reflexivity|discriminate].
    + unfold isdel in Hs. rewrite Hs in H. cbn [N.eqb Pos.eqb] in H.
      destruct (dir_scan r (idx + 1) [] fat32) as [[a b] c]. destruct pend; [reflexivity|discriminate].
Qed.

(* nothing may follow the end marker *)
Lemma no_issue_after_end fat32 z r idx es ls :
  zfirst z -> dir_scan (z :: r) idx [] fat32 = (es, ls, []) -> Forall zfirst (z :: r) /\ es = [] /\ ls = [].
Proof.
  intros Hz H. cbn [dir_scan] in H. unfold zfirst in Hz. rewrite Hz in H. cbn [N.eqb] in H.
  destruct (forallb (fun t => byte_at t 0 =? 0) r) eqn:E; [|discriminate].
  inversion H; subst. split; [|split; reflexivity]. constructor; [exact Hz|].
  apply Forall_forall. intros t Ht. rewrite forallb_forall in E. apply N.eqb_eq. apply E. exact Ht.
Qed.

(* ... nor where a run starts *)
Lemma no_issue_start_head fat32 s r idx pend es ls :
  lfn_like s -> lfn_starts s = true -> dir_scan (s :: r) idx pend fat32 = (es, ls, []) -> pend = [].
Proof.
  intros [H1 [H2 H3]] Hf H. cbn [dir_scan] in H.
  replace (byte_at s 0 =? 0) with false in H by (symmetry; apply N.eqb_neq; exact H2).
  replace (byte_at s 0 =? 229) with false in H by (symmetry; apply N.eqb_neq; exact H3).
  rewrite H1, Hf in H. destruct pend as [|p0 pend']; [reflexivity|]. cbn [andb] in H.
  destruct (dir_scan r (idx + 1) [s] fat32) as [[a b] c]. discriminate.
Qed.

(* directories whose only issues are orphan long-name runs (what a failed write_entry leaves) *)
Definition orphan_issue (i : dissue) : Prop := exists k, i = DOrphanLfn k.
Definition orphans_only (iss : list dissue) : Prop := Forall orphan_issue iss.

Lemma orphans_only_orphan pend idx : orphans_only (orphan pend idx).
Proof. destruct pend; [constructor|]. constructor; [eexists; reflexivity|constructor]. Qed.

Lemma after_end_orphans_only fat32 z r idx pend es ls iss :
  zfirst z -> dir_scan (z :: r) idx pend fat32 = (es, ls, iss) -> orphans_only iss ->
  Forall zfirst (z :: r) /\ es = [] /\ ls = [] /\ iss = orphan pend idx.
Proof.
  intros Hz H Ho. cbn [dir_scan] in H. unfold zfirst in Hz. rewrite Hz in H. cbn [N.eqb] in H.
  destruct (forallb (fun t => byte_at t 0 =? 0) r) eqn:E.
  - inversion H; subst. rewrite app_nil_r. split; [|repeat split]. constructor; [exact Hz|].
    apply Forall_forall. intros t Ht. rewrite forallb_forall in E. apply N.eqb_eq. apply E. exact Ht.
  - exfalso. inversion H; subst. apply Forall_app in Ho. destruct Ho as [_ Ho]. inversion Ho as [|? ? [k Hk] _]. discriminate.
Qed.

(* where a free slot begins (deleted, end marker, end of the list) the pending slots contribute one orphan issue and
   nothing else *)
Lemma scan_free_head fat32 rest idx pend :
  (rest = [] \/ exists s r, rest = s :: r /\ (zfirst s \/ isdel s)) ->
  dir_scan rest idx pend fat32 =
  let '(es, ls, iss) := dir_scan rest idx [] fat32 in (es, ls, orphan pend idx ++ iss).
Proof.
  intros [->|[s [r [-> Hs]]]].
  - cbn [dir_scan]. rewrite app_nil_r. reflexivity.
  - cbn [dir_scan]. destruct Hs as [Hs|Hs].
    + unfold zfirst in Hs. rewrite Hs. cbn [N.eqb app]. reflexivity.
    + unfold isdel in Hs. rewrite Hs. cbn [N.eqb Pos.eqb].
      destruct (dir_scan r (idx + 1) [] fat32) as [[a b] c]. cbn [app]. reflexivity.
Qed.

(* the slots of one entry - a valid run [lf] and its short slot [s] - met with [pend] pending: the entry is decoded from
   its own run; [pend] is an orphan run reported at the index of the run's first slot (restart).  An entry WITHOUT long-name
   slots would take the pending ones for its own: excluded unless nothing is pending. *)
Lemma scan_entry_run fat32 lf s rest idx pend :
  Forall lfn_like lf -> short_live s -> run_valid (rev lf) (firstn 11 s) = true -> (lf <> [] \/ pend = []) ->
  dir_scan (lf ++ s :: rest) idx pend fat32 =
  let '(es, ls, iss) := dir_scan rest (idx + len_N lf + 1) [] fat32 in
  (mk_entry (rev lf) s (idx + len_N lf) fat32 :: es, ls, orphan pend idx ++ iss).
Proof.
  intros Hlf Hs Hrv Hc.
  assert (e_lfn_ok (mk_entry (rev lf) s (idx + len_N lf) fat32) = true) as Eok by (unfold mk_entry; cbn [e_lfn_ok]; exact Hrv).
  destruct (run_valid_starts lf _ Hrv) as [Hn Hf].
  assert (pend = [] \/ exists f lf', lf = f :: lf' /\ pend <> []) as [->|[f [lf' [-> Hp]]]].
  { destruct pend as [|p0 pend']; [left; reflexivity|]. destruct Hc as [Hc|Hc]; [|discriminate].
    destruct lf as [|f lf']; [congruence|]. right. exists f, lf'. split; [reflexivity|discriminate]. }
  - rewrite scan_run by assumption. rewrite scan_short by exact Hs. cbn zeta. rewrite Eok.
    destruct (dir_scan rest (idx + len_N lf + 1) [] fat32) as [[a b] c]. reflexivity.
  - cbn [tl] in Hn. rewrite scan_restart by (try assumption; apply (Hf f lf'); reflexivity).
    rewrite scan_short by exact Hs. cbn zeta. rewrite Eok.
    destruct (dir_scan rest (idx + len_N (f :: lf') + 1) [] fat32) as [[a b] c].
    destruct pend as [|p0 pend']; [congruence|]. reflexivity.
Qed.

(* THE SITUATION THE RESTART RULE IS FOR: an orphan partial run [orph] (live long-name slots, 0x40 at most on the first:
   what a failed write_entry leaves at the end of a directory cluster) directly followed by the complete run [run] of the
   entry [s] (what the next successful write_entry appends).  The entry is decoded from its own run - with its long name -
   and [orph] is reported once, at the index where the new run starts. *)
Theorem scan_orphan_then_entry fat32 pre orph run s post es1 ls1 es2 ls2 iss2 :
  Forall nonend pre -> dir_scan pre 0 [] fat32 = (es1, ls1, []) ->
  orph <> [] -> Forall lfn_like orph -> Forall nostart (tl orph) ->
  run <> [] -> Forall lfn_like run -> short_live s -> run_valid (rev run) (firstn 11 s) = true ->
  dir_scan post (len_N pre + len_N orph + len_N run + 1) [] fat32 = (es2, ls2, iss2) ->
  let e := mk_entry (rev run) s (len_N pre + len_N orph + len_N run) fat32 in
  dir_scan (pre ++ orph ++ run ++ s :: post) 0 [] fat32 =
    (es1 ++ e :: es2, ls1 ++ ls2, DOrphanLfn (len_N pre + len_N orph) :: iss2) /\
  e_lfn_ok e = true /\ e_lfn e = cut_nul (flat_map lfn_units (rev run)) /\
  e_first_slot e = len_N pre + len_N orph /\ e_sfn_slot e = len_N pre + len_N orph + len_N run.
Proof.
  intros Hpre H1 Ho Hol Hon Hr Hrl Hs Hrv H2. cbn zeta.
  rewrite scan_pre_alone in H1 by exact Hpre. rewrite scan_app by exact Hpre.
  destruct (scan_pre pre 0 [] fat32) as [[[a b] c] pd]. injection H1 as -> -> H1.
  apply app_eq_nil in H1. destruct H1 as [-> H1]. apply orphan_nil in H1. subst pd.
  rewrite scan_run by assumption.
  rewrite scan_entry_run; [|exact Hrl|exact Hs|exact Hrv|left; exact Hr].
  replace (0 + len_N pre + len_N orph + len_N run + 1) with (len_N pre + len_N orph + len_N run + 1) by lia. rewrite H2.
  assert (orphan (rev orph) (0 + len_N pre + len_N orph) = [DOrphanLfn (len_N pre + len_N orph)]) as ->.
  { destruct (rev orph) eqn:E; [|cbn [orphan]; rewrite N.add_0_l; reflexivity].
    exfalso. apply Ho. rewrite <- (rev_involutive orph), E. reflexivity. }
  rewrite !N.add_0_l. cbn [app]. split; [reflexivity|].
  unfold mk_entry. cbn [e_lfn_ok e_lfn e_first_slot e_sfn_slot]. rewrite Hrv. repeat split.
  unfold len_N. rewrite rev_length. lia.
Qed.

(* ================================================================ 3b. write_run *)

Lemma set_nth_mid {A} (pre : list A) x t tail : set_nth (length pre) x (pre ++ t :: tail) = pre ++ x :: tail.
Proof. induction pre as [|y pre IH]; cbn [length app set_nth]; [reflexivity|rewrite IH; reflexivity]. Qed.

Lemma repeat_N_app {A} (x : A) a b : repeat_N x a ++ repeat_N x b = repeat_N x (a + b).
Proof. induction a; cbn [repeat_N app plus]; [reflexivity|rewrite IHa; reflexivity]. Qed.
Lemma skipn_repeat_N {A} (x : A) n : forall k, skipn k (repeat_N x n) = repeat_N x (n - k).
Proof. induction n; intros [|k]; cbn [skipn repeat_N minus]; try reflexivity. apply IHn. Qed.

(* a successful write_run: the run replaces what was at its position; a chain-backed directory may have grown by
   zero slots *)
Lemma write_run_ok k : forall run free pre tail ss',
  write_run k free (pre ++ tail) (length pre) run = (Ok tt, ss') ->
  exists m, ss' = pre ++ run ++ skipn (length run) tail ++ repeat_N zero_slot m /\
            ((length run <= length tail)%nat -> m = 0%nat) /\ (k = FixedRoot -> (length run <= length tail)%nat).
Proof.
  induction run as [|s r IH]; intros free pre tail ss' H.
  - cbn [write_run] in H. inversion H; subst. exists 0%nat. cbn [length skipn repeat_N app]. rewrite app_nil_r.
    repeat split; intros; lia.
  - cbn [write_run] in H. destruct tail as [|t tail'].
    + rewrite app_nil_r in H. replace (Nat.ltb (length pre) (length pre)) with false in H by (symmetry; apply Nat.ltb_ge; lia).
      destruct k as [|cs]; [discriminate|]. destruct free as [|free']; [discriminate|].
      replace (pre ++ s :: repeat_N zero_slot (cs - 1)) with ((pre ++ [s]) ++ repeat_N zero_slot (cs - 1)) in H
        by (rewrite <- app_assoc; reflexivity).
      replace (S (length pre)) with (length (pre ++ [s])) in H by (rewrite app_length; cbn [length]; lia).
      destruct (IH _ _ _ _ H) as [m [E [_ _]]]. rewrite skipn_repeat_N, repeat_N_app in E.
      exists ((cs - 1 - length r) + m)%nat. split; [|split].
      * rewrite E, <- app_assoc. cbn [app skipn length]. reflexivity.
      * cbn [length]. intros; lia.
      * discriminate.
    + replace (Nat.ltb (length pre) (length (pre ++ t :: tail'))) with true in H
        by (symmetry; apply Nat.ltb_lt; rewrite app_length; cbn [length]; lia).
      rewrite set_nth_mid in H.
      replace (pre ++ s :: tail') with ((pre ++ [s]) ++ tail') in H by (rewrite <- app_assoc; reflexivity).
      replace (S (length pre)) with (length (pre ++ [s])) in H by (rewrite app_length; cbn [length]; lia).
      destruct (IH _ _ _ _ H) as [m [E [M1 M2]]]. exists m. split; [|split].
      * rewrite E, <- app_assoc. cbn [app skipn length]. reflexivity.
      * cbn [length]. intros; apply M1; lia.
      * cbn [length]. intros Hk. specialize (M2 Hk). lia.
Qed.

(* enough room: success *)
Definition can_hold (k : dkind) (free : nat) (tail_len run_len : nat) : Prop :=
  match k with
  | FixedRoot => (run_len <= tail_len)%nat
  | Chained cs => (run_len - tail_len <= free * cs)%nat
  end.

Lemma write_run_total k : forall run free pre tail,
  can_hold k free (length tail) (length run) -> exists ss', write_run k free (pre ++ tail) (length pre) run = (Ok tt, ss').
Proof.
  induction run as [|s r IH]; intros free pre tail H.
  - eexists. reflexivity.
  - cbn [write_run]. destruct tail as [|t tail'].
    + rewrite app_nil_r. replace (Nat.ltb (length pre) (length pre)) with false by (symmetry; apply Nat.ltb_ge; lia).
      destruct k as [|cs]; cbn [can_hold length] in H; [lia|]. destruct free as [|free']; [cbn [Nat.mul] in H; lia|].
      replace (pre ++ s :: repeat_N zero_slot (cs - 1)) with ((pre ++ [s]) ++ repeat_N zero_slot (cs - 1))
        by (rewrite <- app_assoc; reflexivity).
      replace (S (length pre)) with (length (pre ++ [s])) by (rewrite app_length; cbn [length]; lia).
      apply IH. cbn [can_hold]. rewrite LfnProofs.repeat_N_length. cbn [Nat.mul] in H. lia.
    + replace (Nat.ltb (length pre) (length (pre ++ t :: tail'))) with true
        by (symmetry; apply Nat.ltb_lt; rewrite app_length; cbn [length]; lia).
      rewrite set_nth_mid.
      replace (pre ++ s :: tail') with ((pre ++ [s]) ++ tail') by (rewrite <- app_assoc; reflexivity).
      replace (S (length pre)) with (length (pre ++ [s])) by (rewrite app_length; cbn [length]; lia).
      apply IH. destruct k; cbn [can_hold length] in *; lia.
Qed.

(* a failing write_run (the stream below refuses a write at its end: DiskSlice -> WriteZero, a chain that cannot grow ->
   NotEnoughSpace): what was written is a proper prefix of the run, and it fills the directory exactly to its end *)
Lemma write_run_err k : forall run free pre tail r ss',
  write_run k free (pre ++ tail) (length pre) run = (r, ss') -> r <> Ok tt ->
  exists j, (length tail <= j < length run)%nat /\ ss' = pre ++ firstn j run /\
    r = Err (match k with FixedRoot => EWriteZero | Chained _ => ENotEnoughSpace end) /\
    (k = FixedRoot -> j = length tail).
Proof.
  induction run as [|s r0 IH]; intros free pre tail r ss' H Hr.
  - cbn [write_run] in H. injection H as <- <-. congruence.
  - cbn [write_run] in H. destruct tail as [|t tail'].
    + rewrite app_nil_r in H. replace (Nat.ltb (length pre) (length pre)) with false in H by (symmetry; apply Nat.ltb_ge; lia).
      destruct k as [|cs].
      * injection H as <- <-. exists 0%nat. cbn [length firstn]. rewrite app_nil_r. repeat split; try lia; try discriminate.
      * destruct free as [|free'].
        -- injection H as <- <-. exists 0%nat. cbn [length firstn]. rewrite app_nil_r. repeat split; try lia; try discriminate.
        -- replace (pre ++ s :: repeat_N zero_slot (cs - 1)) with ((pre ++ [s]) ++ repeat_N zero_slot (cs - 1)) in H
             by (rewrite <- app_assoc; reflexivity).
           replace (S (length pre)) with (length (pre ++ [s])) in H by (rewrite app_length; cbn [length]; lia).
           destruct (IH _ _ _ _ _ H Hr) as [j [J1 [J2 [J3 _]]]]. exists (S j). cbn [length firstn].
           split; [lia|]. split; [rewrite J2, <- app_assoc; reflexivity|]. split; [exact J3|discriminate].
    + replace (Nat.ltb (length pre) (length (pre ++ t :: tail'))) with true in H
        by (symmetry; apply Nat.ltb_lt; rewrite app_length; cbn [length]; lia).
      rewrite set_nth_mid in H.
      replace (pre ++ s :: tail') with ((pre ++ [s]) ++ tail') in H by (rewrite <- app_assoc; reflexivity).
      replace (S (length pre)) with (length (pre ++ [s])) in H by (rewrite app_length; cbn [length]; lia).
      destruct (IH _ _ _ _ _ H Hr) as [j [J1 [J2 [J3 J4]]]]. exists (S j). cbn [length firstn].
      split; [lia|]. split; [rewrite J2, <- app_assoc; reflexivity|]. split; [exact J3|].
      intros Hk. rewrite (J4 Hk). reflexivity.
Qed.

(* ================================================================ 3c. inserting one entry *)

Lemma zfirst_zero_slot : zfirst zero_slot.
Proof. reflexivity. Qed.
Lemma Forall_repeat_N {A} (P : A -> Prop) x n : P x -> Forall P (repeat_N x n).
Proof. intros H. induction n; cbn [repeat_N]; constructor; assumption. Qed.

(* Decomposition form (used by write_entry and by both renames): the slots [lf ++ [s]] of a new entry are put where a
   run of deleted slots begins; they replace deleted slots only (first alternative) or run over the end marker
   (second alternative; m zero slots may have been appended).  The directory may hold orphan long-name runs (issues
   DOrphanLfn only, no DAfterEnd): the new entry is decoded from its own run and the issue list is EXACTLY the same - an
   orphan run pending at the free spot was reported by the first free slot and is now reported, at the same index, by the
   restarting first slot of the new run.  (An entry without long-name slots - "." / ".." - needs an issue-free directory.) *)
Lemma insert_run_scan_gen fat32 ss es ls iss pre mid post lf s m :
  dir_scan ss 0 [] fat32 = (es, ls, iss) -> orphans_only iss -> (lf <> [] \/ iss = []) ->
  ss = pre ++ mid ++ post -> Forall nonend pre -> Forall isdel mid ->
  ((length mid = S (length lf) /\ m = 0%nat) \/
   ((length mid < S (length lf))%nat /\ (post = [] \/ exists z r, post = z :: r /\ zfirst z))) ->
  Forall lfn_live lf -> short_live s -> run_valid (rev lf) (firstn 11 s) = true ->
  exists es1 es2, es = es1 ++ es2 /\
    dir_scan (pre ++ (lf ++ [s]) ++ skipn (S (length lf)) (mid ++ post) ++ repeat_N zero_slot m) 0 [] fat32
    = (es1 ++ mk_entry (rev lf) s (len_N pre + len_N lf) fat32 :: es2, ls, iss) /\
    (post = [] \/ (exists z r, post = z :: r /\ zfirst z) -> Forall zfirst post).
Proof.
  intros H0 Ho Hc Hss Hpre Hmid Hcase Hlf Hs Hrv. subst ss.
  rewrite scan_app in H0 by exact Hpre.
  destruct (scan_pre pre 0 [] fat32) as [[[es1 ls1] iss1] pd] eqn:Epre.
  assert (mid ++ post = [] \/ exists s0 r0, mid ++ post = s0 :: r0 /\ (zfirst s0 \/ isdel s0)) as Hhead.
  { destruct mid as [|m0 mid'].
    - destruct Hcase as [[C _]|[_ C]]; [cbn [length] in C; lia|]. cbn [app]. destruct C as [->|[z [r [-> Hz]]]]; [left; reflexivity|].
      right. exists z, r. split; [reflexivity|left; exact Hz].
    - right. exists m0, (mid' ++ post). split; [reflexivity|right]. inversion Hmid; assumption. }
  rewrite (scan_free_head fat32 (mid ++ post) (0 + len_N pre) pd Hhead) in H0.
  rewrite scan_deleted in H0 by exact Hmid.
  destruct (dir_scan post (0 + len_N pre + len_N mid) [] fat32) as [[es2 ls2] iss2] eqn:E2.
  injection H0 as Hes Hls Hiss.
  assert (orphans_only iss2) as Ho2.
  { rewrite <- Hiss in Ho. apply Forall_app in Ho. destruct Ho as [_ Ho]. apply Forall_app in Ho. apply Ho. }
  assert (lf <> [] \/ pd = []) as Hc'.
  { destruct Hc as [Hc|Hc]; [left; exact Hc|right]. rewrite Hc in Hiss. apply app_eq_nil in Hiss. destruct Hiss as [_ Hiss].
    apply app_eq_nil in Hiss. destruct Hiss as [Hiss _]. eapply orphan_nil. exact Hiss. }
  assert (post = [] \/ (exists z r, post = z :: r /\ zfirst z) -> Forall zfirst post /\ es2 = [] /\ ls2 = [] /\ iss2 = []) as Hend.
  { intros [->|[z [r [-> Hz]]]].
    - cbn [dir_scan] in E2. inversion E2. repeat split; constructor.
    - destruct (after_end_orphans_only _ _ _ _ _ _ _ _ Hz E2 Ho2) as [Q1 [Q2 [Q3 Q4]]]. repeat split; assumption. }
  exists es1, es2. split; [symmetry; exact Hes|]. split; [|intros C; apply Hend; exact C].
  rewrite scan_app by exact Hpre. rewrite Epre. rewrite <- app_assoc. cbn [app].
  rewrite scan_entry_run; [|apply lfn_live_like; exact Hlf|exact Hs|exact Hrv|exact Hc'].
  assert (dir_scan (skipn (S (length lf)) (mid ++ post) ++ repeat_N zero_slot m) (0 + len_N pre + len_N lf + 1) [] fat32
          = (es2, ls2, iss2)) as ->.
  { destruct Hcase as [[C ->]|[C1 C2]].
    - cbn [repeat_N]. rewrite app_nil_r. rewrite LfnProofs.skipn_app_exact by exact C.
      replace (0 + len_N pre + len_N lf + 1) with (0 + len_N pre + len_N mid) by (unfold len_N; lia). exact E2.
    - destruct (Hend C2) as [Hz [-> [-> ->]]].
      apply scan_all_zfirst. apply Forall_app. split.
      + rewrite skipn_app. rewrite skipn_all2 by lia. cbn [app]. apply LfnProofs.Forall_skipn'. exact Hz.
      + apply Forall_repeat_N. exact zfirst_zero_slot. }
  rewrite <- Hls, <- Hiss. rewrite N.add_0_l. reflexivity.
Qed.

Record sfn_live (e : sfn_entry) : Prop := {
  sl_fields : sfn_fields_ok e;
  sl_first0 : nth 0 (se_name e) 0 <> 0;
  sl_first5 : nth 0 (se_name e) 0 <> 229;
  sl_novol : N.land (se_attrs e) 8 = 0 }.

Lemma short_live_encode e : sfn_live e -> short_live (sfn_encode e).
Proof.
  intros [F H0 H5 Hv]. destruct (sfn_encode_fields e F) as [_ [B0 [B11 _]]]. cbn zeta in *.
  unfold short_live, is_lfn_slot, is_label_slot. rewrite B0, B11, Hv. repeat split; try assumption.
  destruct F as [_ Ha _ _ _ _ _ _ _ _ _ _]. replace (se_attrs e mod 64) with (se_attrs e) by lia.
  apply N.eqb_neq. intros C. rewrite C in Hv. discriminate.
Qed.

Definition free_slot (s : list N) : Prop := byte_at s 0 = 0 \/ byte_at s 0 = 229.

(* (c), for a directory that may hold orphan long-name runs (issues DOrphanLfn only): the issue list is unchanged *)
Theorem write_entry_refines_gen k free fat32 ss n e es ls iss p q ss' :
  dir_scan ss 0 [] fat32 = (es, ls, iss) -> orphans_only iss -> (is_dot_name n = false \/ iss = []) ->
  len_N ss < 134217728 -> sfn_live e ->
  write_entry k free ss n e = (Ok (p, q), ss') ->
  exists es1 es2 ne,
    (* the decoding gains exactly one entry, at the position of the reused run; the issues are exactly the same *)
    es = es1 ++ es2 /\ dir_scan ss' 0 [] fat32 = (es1 ++ ne :: es2, ls, iss) /\
    (* the new entry *)
    e_lfn ne = (if is_dot_name n then [] else utf16_encode n) /\ e_lfn_ok ne = true /\
    e_sfn ne = se_name e /\ e_attr ne = se_attrs e /\ e_ntres ne = se_reserved_0 e /\
    e_ctime_ms ne = se_create_time_0 e /\ e_ctime ne = se_create_time_1 e /\ e_cdate ne = se_create_date e /\
    e_adate ne = se_access_date e /\ e_mtime ne = se_modify_time e /\ e_mdate ne = se_modify_date e /\
    e_cluster ne = (if fat32 then se_first_cluster_hi e * 65536 else 0) + se_first_cluster_lo e /\
    e_size ne = se_size e /\ e_first_slot ne = p /\ e_sfn_slot ne + 1 = q /\
    q = p + len_N (entry_run n e) /\
    (* frame: slots outside [p, q) are untouched, slots inside were free (deleted or behind the end marker) *)
    (forall i, (i < length ss)%nat -> (N.of_nat i < p \/ q <= N.of_nat i) -> nth_error ss' i = nth_error ss i) /\
    (forall i s, p <= N.of_nat i < q -> nth_error ss i = Some s -> free_slot s) /\
    (length ss <= length ss')%nat /\ (k = FixedRoot -> length ss' = length ss).
Proof.
  intros H0 Ho Hc Hb He H. unfold write_entry, lift in H.
  destruct (validate_long_name n) as [[]| | |] eqn:V; try discriminate.
  set (lf := map lfn_encode (write_entry_lfn_slots n (se_name e))) in *.
  assert (entry_run n e = lf ++ [sfn_encode e]) as Erun by reflexivity.
  destruct (entry_lfn_run_valid n (se_name e) V) as [R1 [R2 [R3 [R4 R5]]]]. fold lf in R1, R2, R3, R4, R5.
  assert (lf <> [] \/ iss = []) as Hc'.
  { destruct Hc as [Hc|Hc]; [left|right; exact Hc]. specialize (R4 Hc). intros C. rewrite C in R4. cbn [length] in R4. lia. }
  assert (len_N (entry_run n e) = len_N lf + 1) as Elen by (rewrite Erun, len_N_app; reflexivity).
  destruct (find_free_entries_spec k ss (len_N (entry_run n e))) as [p0 [pre [mid [post [S Ef]]]]]; [lia|exact Hb|].
  rewrite Ef in H. destruct (is_fixed k && (len_N ss <? p0 + len_N (entry_run n e))); [discriminate|].
  destruct S as [S1 S2 S3 S4 S5].
  assert (N.to_nat p0 = length pre) as Ep by (rewrite <- S2; unfold len_N; apply Nat2N.id).
  rewrite Ep in H.
  destruct (write_run k free ss (length pre) (entry_run n e)) as [r ss''] eqn:W.
  destruct r as [[]| | |]; try discriminate. cbn [bind] in H. inversion H; subst p q ss''. clear H.
  rewrite S1 in W. destruct (write_run_ok k _ _ _ _ _ W) as [m [Ess' [M1 M2]]].
  assert (length (entry_run n e) = S (length lf)) as ElenN by (rewrite Erun, app_length; cbn [length]; lia).
  rewrite ElenN in *.
  pose proof (short_live_encode e He) as Hs.
  destruct He as [Hf Hn0 Hn5 Hv].
  destruct (sfn_encode_fields e Hf) as [F0 _]. cbn zeta in F0.
  assert (((length mid = S (length lf) /\ m = 0%nat) \/
           ((length mid < S (length lf))%nat /\ (post = [] \/ exists z r, post = z :: r /\ zfirst z)))) as Hcase.
  { destruct S5 as [C|[C1 C2]].
    - left. assert (length mid = S (length lf)) as C' by (unfold len_N in *; lia). split; [exact C'|].
      apply M1. rewrite app_length. lia.
    - right. split; [unfold len_N in *; lia|exact C2]. }
  destruct (insert_run_scan_gen fat32 ss es ls iss pre mid post lf (sfn_encode e) m H0 Ho Hc' S1 S3 S4 Hcase R5 Hs)
    as [es1 [es2 [Ees [Escan Hzp]]]].
  { rewrite F0. exact R1. }
  exists es1, es2, (mk_entry (rev lf) (sfn_encode e) (len_N pre + len_N lf) fat32).
  destruct (mk_entry_fields (rev lf) e (len_N pre + len_N lf) fat32 Hf)
    as [G1 [G2 [G3 [G4 [G5 [G6 [G7 [G8 [G9 [G10 [G11 [G12 [G13 [G14 G15]]]]]]]]]]]]]].
  cbn zeta in *. rewrite R1 in G14, G15. rewrite R2 in G15.
  assert (ss' = pre ++ (lf ++ [sfn_encode e]) ++ skipn (S (length lf)) (mid ++ post) ++ repeat_N zero_slot m) as Ess2
    by (rewrite Ess', Erun; reflexivity).
  split; [exact Ees|]. split; [rewrite Ess2; exact Escan|].
  repeat (split; [assumption|]).
  split. { rewrite G12. unfold len_N. rewrite rev_length. lia. }
  split. { rewrite G13, Elen. lia. }
  split. { reflexivity. }
  (* frame *)
  set (tail := mid ++ post) in *. set (L := S (length lf)) in *.
  assert (length ss = (length pre + length tail)%nat) as Lss by (rewrite S1, app_length; reflexivity).
  assert (length ss' = (length pre + (L + (length tail - L) + m))%nat) as Lss'.
  { rewrite Ess2, !app_length, skipn_length, LfnProofs.repeat_N_length. cbn [length]. unfold L. lia. }
  split; [|split; [|split]].
  - intros i Hi [Hlo|Hhi].
    + rewrite Ess2, S1. rewrite !nth_error_app1 by (unfold len_N in *; lia). reflexivity.
    + assert (L <= length tail)%nat as HL by (unfold len_N in *; lia).
      specialize (M1 HL). subst m. rewrite Ess2, S1. cbn [repeat_N]. rewrite app_nil_r.
      rewrite !nth_error_app2 by (try rewrite app_length; cbn [length]; unfold len_N in *; lia).
      rewrite <- (firstn_skipn L tail) at 2.
      rewrite nth_error_app2 by (rewrite firstn_length; unfold len_N in *; lia).
      f_equal. rewrite app_length, firstn_length. cbn [length]. unfold L. lia.
  - intros i s Hi Hn. rewrite S1 in Hn. rewrite nth_error_app2 in Hn by (unfold len_N in *; lia).
    assert (Forall free_slot (firstn L tail)) as Hfree.
    { destruct Hcase as [[C _]|[C1 C2]].
      - unfold tail. rewrite LfnProofs.firstn_app_exact by exact C. eapply Forall_impl; [|exact S4]. intros a Ha. right. exact Ha.
      - apply LfnProofs.Forall_firstn'. apply Forall_app. split.
        + eapply Forall_impl; [|exact S4]. intros a Ha. right. exact Ha.
        + eapply Forall_impl; [|exact (Hzp C2)]. intros a Ha. left. exact Ha. }
    rewrite <- (firstn_skipn L tail) in Hn.
    assert (i - length pre < length tail)%nat as Hlt.
    { apply nth_error_Some. rewrite <- (firstn_skipn L tail). rewrite Hn. discriminate. }
    rewrite nth_error_app1 in Hn by (rewrite firstn_length; unfold L, len_N in *; lia).
    apply nth_error_In in Hn. rewrite Forall_forall in Hfree. apply Hfree. exact Hn.
  - lia.
  - intros Hk. specialize (M2 Hk). assert (m = 0%nat) by (apply M1; exact M2). unfold L in *. lia.
Qed.

(* (c) *)
Theorem write_entry_refines k free fat32 ss n e es ls p q ss' :
  dir_scan ss 0 [] fat32 = (es, ls, []) -> len_N ss < 134217728 -> sfn_live e ->
  write_entry k free ss n e = (Ok (p, q), ss') ->
  exists es1 es2 ne,
    (* the decoding gains exactly one entry, at the position of the reused run; no issue appears *)
    es = es1 ++ es2 /\ dir_scan ss' 0 [] fat32 = (es1 ++ ne :: es2, ls, []) /\
    (* the new entry *)
    e_lfn ne = (if is_dot_name n then [] else utf16_encode n) /\ e_lfn_ok ne = true /\
    e_sfn ne = se_name e /\ e_attr ne = se_attrs e /\ e_ntres ne = se_reserved_0 e /\
    e_ctime_ms ne = se_create_time_0 e /\ e_ctime ne = se_create_time_1 e /\ e_cdate ne = se_create_date e /\
    e_adate ne = se_access_date e /\ e_mtime ne = se_modify_time e /\ e_mdate ne = se_modify_date e /\
    e_cluster ne = (if fat32 then se_first_cluster_hi e * 65536 else 0) + se_first_cluster_lo e /\
    e_size ne = se_size e /\ e_first_slot ne = p /\ e_sfn_slot ne + 1 = q /\
    q = p + len_N (entry_run n e) /\
    (* frame: slots outside [p, q) are untouched, slots inside were free (deleted or behind the end marker) *)
    (forall i, (i < length ss)%nat -> (N.of_nat i < p \/ q <= N.of_nat i) -> nth_error ss' i = nth_error ss i) /\
    (forall i s, p <= N.of_nat i < q -> nth_error ss i = Some s -> free_slot s) /\
    (length ss <= length ss')%nat /\ (k = FixedRoot -> length ss' = length ss).
Proof.
  intros H0 Hb He H.
  exact (write_entry_refines_gen k free fat32 ss n e es ls [] p q ss' H0 (Forall_nil _) (or_intror eq_refl) Hb He H).
Qed.

(* ================================================================ 4. deleting one entry *)

Lemma mark_deleted_slot_first s : byte_at (mark_deleted_slot s) 0 = 229.
Proof.
  unfold mark_deleted_slot. destruct (slot_decode s) as [e|e]; cbn [set_deleted slot_encode].
  - unfold sfn_encode. cbn [se_name app]. reflexivity.
  - unfold lfn_encode. cbn [le_order app]. reflexivity.
Qed.

Lemma scan_pre_pend_step fat32 s r idx pend : byte_at s 0 <> 0 ->
  snd (scan_pre (s :: r) idx pend fat32) =
  snd (scan_pre r (idx + 1) (if byte_at s 0 =? 229 then [] else if is_lfn_slot s then
                               (if lfn_starts s && (match pend with [] => false | _ => true end) then [s] else s :: pend)
                             else []) fat32).
Proof.
  intros _. cbn [scan_pre]. destruct (byte_at s 0 =? 229).
  { destruct (scan_pre r (idx + 1) [] fat32) as [[[a b] c] d]. reflexivity. }
  destruct (is_lfn_slot s).
  { destruct (lfn_starts s && match pend with [] => false | _ => true end); [|reflexivity].
    destruct (scan_pre r (idx + 1) [s] fat32) as [[[a b] c] d]. reflexivity. }
  destruct (is_label_slot s); destruct (scan_pre r (idx + 1) [] fat32) as [[[a b] c] d]; reflexivity.
Qed.

(* every decoded entry sits at a definite place: [pre0], its long-name slots [lf] (0x40 at most on the first), its short
   slot [s].  Either the run continues the slots pending at the start of the scan, or it began inside: after [pre0]
   nothing was pending, or the first slot of [lf] carries 0x40 (a restart: what was pending is not part of the entry) *)
Lemma scan_In_split fat32 : forall ss idx pend es ls iss e,
  dir_scan ss idx pend fat32 = (es, ls, iss) -> In e es ->
  exists pre0 lf s post, ss = pre0 ++ lf ++ s :: post /\ Forall nonend pre0 /\ Forall lfn_like lf /\ short_live s /\
    Forall nostart (tl lf) /\
    ((pre0 = [] /\ (pend <> [] -> Forall nostart lf) /\ e = mk_entry (rev lf ++ pend) s (idx + len_N lf) fat32) \/
     ((snd (scan_pre pre0 idx pend fat32) = [] \/ exists f lf', lf = f :: lf' /\ lfn_starts f = true) /\
      e = mk_entry (rev lf) s (idx + len_N pre0 + len_N lf) fat32)).
Proof.
  induction ss as [|s0 r IH]; intros idx pend es ls iss e H Hin.
  - cbn [dir_scan] in H. inversion H; subst. destruct Hin.
  - cbn [dir_scan] in H.
    destruct (byte_at s0 0 =? 0) eqn:E0; [inversion H; subst; destruct Hin|]. apply N.eqb_neq in E0.
    (* the continuation after a slot that resets the pending run *)
    assert (forall es' ls' iss', dir_scan r (idx + 1) [] fat32 = (es', ls', iss') -> In e es' ->
              (byte_at s0 0 =? 229) = true \/ ((byte_at s0 0 =? 229) = false /\ is_lfn_slot s0 = false) ->
              exists pre0 lf s post, s0 :: r = pre0 ++ lf ++ s :: post /\ Forall nonend pre0 /\ Forall lfn_like lf /\ short_live s /\
                Forall nostart (tl lf) /\
                ((pre0 = [] /\ (pend <> [] -> Forall nostart lf) /\ e = mk_entry (rev lf ++ pend) s (idx + len_N lf) fat32) \/
                 ((snd (scan_pre pre0 idx pend fat32) = [] \/ exists f lf', lf = f :: lf' /\ lfn_starts f = true) /\
                  e = mk_entry (rev lf) s (idx + len_N pre0 + len_N lf) fat32))) as Reset.
    { intros es' ls' iss' Hr Hin' Hkind.
      destruct (IH _ _ _ _ _ _ Hr Hin') as [pre0 [lf [s [post [E1 [E2 [E3 [E4 [E4' E5]]]]]]]]].
      exists (s0 :: pre0), lf, s, post. split; [rewrite E1; reflexivity|]. split; [constructor; assumption|].
      split; [exact E3|]. split; [exact E4|]. split; [exact E4'|]. right.
      assert (snd (scan_pre (s0 :: pre0) idx pend fat32) = snd (scan_pre pre0 (idx + 1) [] fat32)) as Esnd.
      { rewrite scan_pre_pend_step by exact E0. destruct Hkind as [->|[-> ->]]; reflexivity. }
      rewrite Esnd. destruct E5 as [[-> [_ E5]]|[S5 E5]].
      - split; [left; reflexivity|]. rewrite E5, app_nil_r. f_equal; cbn [len_N length N.of_nat]; lia.
      - split; [exact S5|]. rewrite E5. f_equal; unfold len_N; cbn [length]; lia. }
    destruct (byte_at s0 0 =? 229) eqn:E5.
    { destruct (dir_scan r (idx + 1) [] fat32) as [[es' ls'] iss'] eqn:Hr. inversion H; subst.
      eapply Reset; [reflexivity|exact Hin|left; reflexivity]. }
    destruct (is_lfn_slot s0) eqn:EL.
    { apply N.eqb_neq in E5.
      assert (lfn_like s0) as Hlike by (repeat split; assumption).
      destruct (lfn_starts s0 && match pend with [] => false | _ => true end) eqn:ER.
      - (* restart *)
        apply andb_true_iff in ER. destruct ER as [ER1 ER2].
        destruct (dir_scan r (idx + 1) [s0] fat32) as [[es' ls'] iss'] eqn:Hr. inversion H; subst.
        destruct (IH _ _ _ _ _ _ Hr Hin) as [pre0 [lf [s [post [E1 [E2 [E3 [E4 [E4' E5']]]]]]]]].
        destruct E5' as [[-> [N6 E6]]|[S6 E6]].
        + exists [], (s0 :: lf), s, post. split; [rewrite E1; reflexivity|]. split; [constructor|].
          split; [constructor; assumption|]. split; [exact E4|]. split; [cbn [tl]; apply N6; discriminate|]. right.
          split; [right; exists s0, lf; split; [reflexivity|exact ER1]|].
          rewrite E6. cbn [rev]. f_equal; unfold len_N; cbn [length]; lia.
        + exists (s0 :: pre0), lf, s, post. split; [rewrite E1; reflexivity|]. split; [constructor; assumption|].
          split; [exact E3|]. split; [exact E4|]. split; [exact E4'|]. right.
          rewrite scan_pre_pend_step by exact E0. apply N.eqb_neq in E5. rewrite E5, EL, ER1, ER2. cbn [andb].
          split; [exact S6|]. rewrite E6. f_equal; unfold len_N; cbn [length]; lia.
      - (* continuation *)
        destruct (IH _ _ _ _ _ _ H Hin) as [pre0 [lf [s [post [E1 [E2 [E3 [E4 [E4' E5']]]]]]]]].
        destruct E5' as [[-> [N6 E6]]|[S6 E6]].
        + exists [], (s0 :: lf), s, post. split; [rewrite E1; reflexivity|]. split; [constructor|].
          split; [constructor; assumption|]. split; [exact E4|]. split; [cbn [tl]; apply N6; discriminate|]. left.
          split; [reflexivity|]. split.
          * intros Hp. constructor; [|apply N6; discriminate]. unfold nostart.
            destruct pend as [|p0 pend']; [congruence|]. rewrite andb_true_r in ER. exact ER.
          * rewrite E6. cbn [rev]. rewrite <- app_assoc. cbn [app]. f_equal; unfold len_N; cbn [length]; lia.
        + exists (s0 :: pre0), lf, s, post. split; [rewrite E1; reflexivity|]. split; [constructor; assumption|].
          split; [exact E3|]. split; [exact E4|]. split; [exact E4'|]. right.
          rewrite scan_pre_pend_step by exact E0. apply N.eqb_neq in E5. rewrite E5, EL, ER.
          split; [exact S6|]. rewrite E6. f_equal; unfold len_N; cbn [length]; lia. }
    destruct (is_label_slot s0) eqn:EV.
    { destruct (dir_scan r (idx + 1) [] fat32) as [[es' ls'] iss'] eqn:Hr. inversion H; subst.
      eapply Reset; [reflexivity|exact Hin|right; split; reflexivity]. }
    destruct (dir_scan r (idx + 1) [] fat32) as [[es' ls'] iss'] eqn:Hr. inversion H; subst.
    destruct Hin as [<-|Hin].
    + exists [], [], s0, r. split; [reflexivity|]. split; [constructor|]. split; [constructor|].
      split; [apply N.eqb_neq in E5; repeat split; assumption|]. split; [constructor|]. left. split; [reflexivity|].
      split; [intros; constructor|].
      cbn [rev app len_N length N.of_nat]. rewrite N.add_0_r. reflexivity.
    + eapply Reset; [reflexivity|exact Hin|right; split; reflexivity].
Qed.

(* ... for a whole directory (nothing pending at the start) *)
Lemma scan_In_split0 fat32 ss es ls iss e :
  dir_scan ss 0 [] fat32 = (es, ls, iss) -> In e es ->
  exists pre0 lf s post, ss = pre0 ++ lf ++ s :: post /\ Forall nonend pre0 /\ Forall lfn_like lf /\ short_live s /\
    Forall nostart (tl lf) /\
    (snd (scan_pre pre0 0 [] fat32) = [] \/ exists f lf', lf = f :: lf' /\ lfn_starts f = true) /\
    e = mk_entry (rev lf) s (len_N pre0 + len_N lf) fat32.
Proof.
  intros H0 Hin.
  destruct (scan_In_split fat32 ss 0 [] es ls iss e H0 Hin) as [pre0 [lf [s [post [E1 [E2 [E3 [E4 [E4' E5]]]]]]]]].
  exists pre0, lf, s, post. repeat (split; [assumption|]).
  destruct E5 as [[-> [_ E5]]|[S5 E5]].
  - split; [left; reflexivity|]. rewrite E5, app_nil_r. f_equal.
  - split; [exact S5|]. rewrite E5. f_equal.
Qed.

(* ... without issues: nothing is pending where the entry's slots begin *)
Lemma scan_In_split_wf fat32 ss es ls e :
  dir_scan ss 0 [] fat32 = (es, ls, []) -> In e es ->
  exists pre0 lf s post, ss = pre0 ++ lf ++ s :: post /\ Forall nonend pre0 /\ Forall lfn_like lf /\ short_live s /\
    Forall nostart (tl lf) /\ snd (scan_pre pre0 0 [] fat32) = [] /\
    e = mk_entry (rev lf) s (len_N pre0 + len_N lf) fat32.
Proof.
  intros H0 Hin.
  destruct (scan_In_split0 fat32 ss es ls [] e H0 Hin) as [pre0 [lf [s [post [E1 [E2 [E3 [E4 [E4' [E5 E6]]]]]]]]]].
  exists pre0, lf, s, post. repeat (split; [assumption|]). split; [|exact E6].
  destruct E5 as [E5|[f [lf' [-> Hf]]]]; [exact E5|].
  rewrite E1 in H0. rewrite scan_app in H0 by exact E2.
  destruct (scan_pre pre0 0 [] fat32) as [[[es1 ls1] iss1] pd]. cbn [snd].
  destruct (dir_scan ((f :: lf') ++ s :: post) (0 + len_N pre0) pd fat32) as [[es2 ls2] iss2] eqn:E2'.
  injection H0 as _ _ Q3. apply app_eq_nil in Q3. destruct Q3 as [_ ->].
  cbn [app] in E2'. eapply no_issue_start_head; [|exact Hf|exact E2']. inversion E3; assumption.
Qed.

(* (d) *)
Theorem mark_deleted_refines fat32 ss es ls e :
  dir_scan ss 0 [] fat32 = (es, ls, []) -> In e es ->
  let ss' := mark_deleted ss (e_first_slot e) (e_sfn_slot e + 1) in
  exists es1 es2,
    es = es1 ++ e :: es2 /\ dir_scan ss' 0 [] fat32 = (es1 ++ es2, ls, []) /\
    length ss' = length ss /\
    (forall i, (N.of_nat i < e_first_slot e \/ e_sfn_slot e < N.of_nat i) -> nth_error ss' i = nth_error ss i) /\
    (forall i s, e_first_slot e <= N.of_nat i <= e_sfn_slot e -> nth_error ss i = Some s ->
                 nth_error ss' i = Some (mark_deleted_slot s)).
Proof.
  intros H0 Hin. cbn zeta.
  destruct (scan_In_split_wf fat32 ss es ls e H0 Hin) as [pre0 [lf [s [post [E1 [E2 [E3 [E4 [E4' [Sp Ee]]]]]]]]]].
  assert (e_first_slot e = len_N pre0) as Ef.
  { rewrite Ee. unfold mk_entry. cbn [e_first_slot]. unfold len_N. rewrite rev_length. lia. }
  assert (e_sfn_slot e = len_N pre0 + len_N lf) as Es by (rewrite Ee; reflexivity).
  rewrite Ef, Es.
  assert (mark_deleted ss (len_N pre0) (len_N pre0 + len_N lf + 1) = pre0 ++ map mark_deleted_slot (lf ++ [s]) ++ post) as Em.
  { unfold mark_deleted.
    replace (N.to_nat (len_N pre0)) with (length pre0) by (unfold len_N; rewrite Nat2N.id; reflexivity).
    replace (N.to_nat (len_N pre0 + len_N lf + 1)) with (length pre0 + length (lf ++ [s]))%nat
      by (rewrite app_length; cbn [length]; unfold len_N; lia).
    rewrite E1.
    rewrite LfnProofs.firstn_app_exact by reflexivity.
    replace (length pre0 + length (lf ++ [s]) - length pre0)%nat with (length (lf ++ [s])) by lia.
    rewrite LfnProofs.skipn_app_exact by reflexivity.
    replace (lf ++ s :: post) with ((lf ++ [s]) ++ post) by (rewrite <- app_assoc; reflexivity).
    rewrite LfnProofs.firstn_app_exact by reflexivity.
    replace (pre0 ++ (lf ++ [s]) ++ post) with ((pre0 ++ (lf ++ [s])) ++ post) by (rewrite <- app_assoc; reflexivity).
    rewrite LfnProofs.skipn_app_exact by (rewrite app_length; reflexivity). reflexivity. }
  rewrite Em.
  (* the old decoding, split at the entry *)
  pose proof H0 as H0'. rewrite E1 in H0'. rewrite scan_app in H0' by exact E2.
  destruct (scan_pre pre0 0 [] fat32) as [[[es1 ls1] iss1] pd] eqn:Epre. cbn [snd] in Sp. subst pd.
  rewrite scan_run in H0' by assumption. rewrite scan_short in H0' by exact E4. cbn zeta in H0'.
  destruct (dir_scan post (0 + len_N pre0 + len_N lf + 1) [] fat32) as [[es2 ls2] iss2] eqn:E2'.
  rewrite N.add_0_l in H0'. rewrite <- Ee in H0'.
  injection H0' as Q1 Q2 Q3. apply app_eq_nil in Q3. destruct Q3 as [Q3a Q3]. apply app_eq_nil in Q3. destruct Q3 as [_ Q3b].
  subst iss1 iss2 es ls.
  exists es1, es2. split; [reflexivity|]. split; [|split; [|split]].
  - rewrite scan_app by exact E2. rewrite Epre.
    rewrite scan_deleted.
    + replace (0 + len_N pre0 + len_N (map mark_deleted_slot (lf ++ [s]))) with (0 + len_N pre0 + len_N lf + 1)
        by (unfold len_N; rewrite map_length, app_length; cbn [length]; lia).
      rewrite E2'. rewrite app_nil_r. reflexivity.
    + apply Forall_forall. intros x Hx. apply in_map_iff in Hx. destruct Hx as [y [<- _]]. apply mark_deleted_slot_first.
  - rewrite E1. rewrite !app_length, map_length, app_length. cbn [length]. lia.
  - intros i [Hi|Hi].
    + rewrite E1. rewrite !nth_error_app1 by (unfold len_N in *; lia). reflexivity.
    + rewrite E1. replace (lf ++ s :: post) with ((lf ++ [s]) ++ post) by (rewrite <- app_assoc; reflexivity).
      rewrite !nth_error_app2 by (try rewrite map_length; try rewrite app_length; cbn [length]; unfold len_N in *; lia).
      rewrite map_length. reflexivity.
  - intros i x Hi Hx. rewrite E1 in Hx. replace (lf ++ s :: post) with ((lf ++ [s]) ++ post) in Hx by (rewrite <- app_assoc; reflexivity).
    rewrite nth_error_app2 in Hx by (unfold len_N in *; lia).
    rewrite nth_error_app1 in Hx by (rewrite app_length; cbn [length]; unfold len_N in *; lia).
    rewrite nth_error_app2 by (unfold len_N in *; lia).
    rewrite nth_error_app1 by (rewrite map_length, app_length; cbn [length]; unfold len_N in *; lia).
    apply map_nth_error. exact Hx.
Qed.

(* ================================================================ 5. failed calls *)

Lemma can_hold_dec k free a b : {can_hold k free a b} + {~ can_hold k free a b}.
Proof. destruct k; cbn [can_hold]; apply le_dec. Qed.

Lemma validate_ok_or_err n : validate_long_name n = Ok tt \/ exists x, validate_long_name n = Err x.
Proof.
  unfold validate_long_name. destruct (utf8_len n =? 0); [right; eexists; reflexivity|].
  destruct (MAX_LONG_NAME_LEN <? utf8_len n); [right; eexists; reflexivity|].
  destruct (validate_chars_cases n) as [H|H]; rewrite H; [left; reflexivity|right; eexists; reflexivity].
Qed.
Lemma validate_err_kinds n x : validate_long_name n = Err x -> x = EInvalidFileNameLength \/ x = EUnsupportedFileNameCharacter.
Proof.
  unfold validate_long_name. destruct (utf8_len n =? 0); [intros H; injection H as <-; left; reflexivity|].
  destruct (MAX_LONG_NAME_LEN <? utf8_len n); [intros H; injection H as <-; left; reflexivity|].
  destruct (validate_chars_cases n) as [H|H]; rewrite H; [discriminate|]. intros H'. injection H' as <-. right. reflexivity.
Qed.

(* (e) the part that holds without exception: a rejected name changes nothing *)
Theorem failed_write_unchanged_partial k free ss n e x :
  validate_long_name n = Err x -> write_entry k free ss n e = (Err x, ss).
Proof. intros H. unfold write_entry, lift. rewrite H. reflexivity. Qed.

Lemma entry_run_len n e : 1 <= len_N (entry_run n e) /\ (1 <= length (entry_run n e))%nat.
Proof. unfold entry_run, len_N. rewrite app_length. cbn [length]. lia. Qed.

(* (e) EVERY outcome of write_entry (no Panic, no OutOfFuel, no WriteZero):
   1. success;
   2. a rejected name: nothing changed;
   3. a FIXED root without room for the run at the chosen spot: NotEnoughSpace and nothing changed (13fd5fe; before: the
      slots that still fitted were written, then WriteZero - D5);
   4. a CHAIN-backed directory that cannot grow (no free cluster): NotEnoughSpace after a proper prefix of the run - only
      long-name slots - was written over the free slots at the end of the directory (finding "nospace during entry
      write", unchanged). *)
Theorem write_entry_cases k free ss n e : len_N ss < 134217728 ->
  (exists range ss', write_entry k free ss n e = (Ok range, ss')) \/
  (exists x, validate_long_name n = Err x /\ write_entry k free ss n e = (Err x, ss)) \/
  (k = FixedRoot /\ validate_long_name n = Ok tt /\ write_entry k free ss n e = (Err ENotEnoughSpace, ss) /\
   exists p pre mid post, free_spot ss (len_N (entry_run n e)) p pre mid post /\ len_N ss < p + len_N (entry_run n e)) \/
  (exists cs p pre mid post j, k = Chained cs /\ validate_long_name n = Ok tt /\
     free_spot ss (len_N (entry_run n e)) p pre mid post /\
     (length (mid ++ post) <= j < length (entry_run n e))%nat /\
     ~ can_hold k free (length ss - N.to_nat p) (length (entry_run n e)) /\
     find_free_entries k ss (len_N (entry_run n e)) = Ok p /\
     write_entry k free ss n e = (Err ENotEnoughSpace, pre ++ firstn j (entry_run n e))).
Proof.
  intros Hb. destruct (validate_ok_or_err n) as [V|[x V]].
  2:{ right. left. exists x. split; [exact V|]. apply failed_write_unchanged_partial. exact V. }
  destruct (entry_run_len n e) as [H1 H1'].
  destruct (find_free_entries_spec k ss (len_N (entry_run n e)) H1 Hb) as [p [pre [mid [post [S Ef]]]]].
  pose proof S as [S1 S2 _ _ _].
  assert (N.to_nat p = length pre) as Ep by (rewrite <- S2; unfold len_N; apply Nat2N.id).
  assert (length ss = (length pre + length (mid ++ post))%nat) as Lss by (rewrite S1, app_length; reflexivity).
  unfold write_entry, lift. rewrite V, Ef.
  destruct k as [|cs]; cbn [is_fixed andb].
  - destruct (len_N ss <? p + len_N (entry_run n e)) eqn:EC.
    + apply N.ltb_lt in EC. right. right. left. split; [reflexivity|]. split; [reflexivity|]. split; [reflexivity|].
      exists p, pre, mid, post. split; [exact S|exact EC].
    + apply N.ltb_ge in EC. left. rewrite Ep, S1.
      destruct (write_run_total FixedRoot (entry_run n e) free pre (mid ++ post)) as [ss' W].
      { cbn [can_hold]. unfold len_N in *. lia. }
      rewrite W. cbn [bind]. eauto.
  - rewrite Ep.
    destruct (write_run (Chained cs) free ss (length pre) (entry_run n e)) as [r ss''] eqn:W.
    assert (r = Ok tt \/ r <> Ok tt) as [->|Hr] by (destruct r as [[]| | |]; [left; reflexivity|right; discriminate..]).
    { left. cbn [bind]. eauto. }
    assert (~ can_hold (Chained cs) free (length ss - length pre) (length (entry_run n e))) as C.
    { intros C. rewrite Lss in C. replace (length pre + length (mid ++ post) - length pre)%nat with (length (mid ++ post)) in C by lia.
      destruct (write_run_total (Chained cs) (entry_run n e) free pre (mid ++ post) C) as [ss' W'].
      rewrite <- S1, W in W'. injection W' as -> _. apply Hr. reflexivity. }
    + rewrite S1 in W. destruct (write_run_err _ _ _ _ _ _ _ W Hr) as [j [J1 [J2 [J3 _]]]].
      right. right. right. exists cs, p, pre, mid, post, j. subst r ss''. cbn [bind]. rewrite Ep.
      repeat (split; [first [reflexivity|assumption]|]). reflexivity.
Qed.

(* (e) a fixed root: creating an entry either succeeds or changes NOTHING; the only errors are the two name errors and
   NotEnoughSpace, the latter exactly when the run does not fit behind the free spot.  Never WriteZero, never a partial
   run (D5/D20 fixed by 13fd5fe). *)
Theorem write_entry_fixed_root_total free ss n e : len_N ss < 134217728 ->
  (exists range ss', write_entry FixedRoot free ss n e = (Ok range, ss')) \/
  (exists x, validate_long_name n = Err x /\ write_entry FixedRoot free ss n e = (Err x, ss)) \/
  (validate_long_name n = Ok tt /\ write_entry FixedRoot free ss n e = (Err ENotEnoughSpace, ss) /\
   exists p pre mid post, free_spot ss (len_N (entry_run n e)) p pre mid post /\ len_N ss < p + len_N (entry_run n e)).
Proof.
  intros Hb. destruct (write_entry_cases FixedRoot free ss n e Hb) as [H|[H|[[_ H]|H]]]; [left; exact H|right; left; exact H|right; right; exact H|].
  destruct H as [cs [? [? [? [? [? [C _]]]]]]]. discriminate.
Qed.

Theorem write_entry_fixed_root_full_unchanged free ss n e r ss' : len_N ss < 134217728 ->
  write_entry FixedRoot free ss n e = (r, ss') -> (forall range, r <> Ok range) ->
  ss' = ss /\ exists x, r = Err x /\ x <> EWriteZero /\ (x = ENotEnoughSpace \/ validate_long_name n = Err x).
Proof.
  intros Hb H Hr. destruct (write_entry_fixed_root_total free ss n e Hb) as [[rg [s1 E]]|[[x [V E]]|[V [E _]]]]; rewrite E in H.
  - injection H as <- _. exfalso. apply (Hr rg). reflexivity.
  - injection H as <- <-. split; [reflexivity|]. exists x. split; [reflexivity|]. split; [|right; exact V].
    destruct (validate_err_kinds n x V) as [->| ->]; discriminate.
  - injection H as <- <-. split; [reflexivity|]. exists ENotEnoughSpace. split; [reflexivity|]. split; [discriminate|left; reflexivity].
Qed.

(* the class of the remaining recorded finding ("nospace during entry write"): a CHAIN-backed directory that would have to
   grow for the run, and not enough free clusters *)
Definition write_known_class (k : dkind) (free : nat) (ss : slots) (n : str) (e : sfn_entry) : Prop :=
  exists cs p, k = Chained cs /\ find_free_entries k ss (len_N (entry_run n e)) = Ok p /\
               ~ can_hold k free (length ss - N.to_nat p) (length (entry_run n e)).

(* (e) outside the known class a call that does not succeed has changed nothing: it is a rejected name, or NotEnoughSpace
   of a fixed root (no Panic, no WriteZero) *)
Theorem failed_write_unchanged k free ss n e :
  len_N ss < 134217728 -> ~ write_known_class k free ss n e ->
  (exists range ss', write_entry k free ss n e = (Ok range, ss')) \/
  (exists x, validate_long_name n = Err x /\ write_entry k free ss n e = (Err x, ss)) \/
  (k = FixedRoot /\ write_entry k free ss n e = (Err ENotEnoughSpace, ss)).
Proof.
  intros Hb Hk. destruct (write_entry_cases k free ss n e Hb) as [H|[H|[[K [_ [E _]]]|H]]];
    [left; exact H|right; left; exact H|right; right; split; assumption|].
  destruct H as [cs [p [pre [mid [post [j [K [_ [_ [_ [C [F _]]]]]]]]]]]]. exfalso. apply Hk. exists cs, p. repeat split; assumption.
Qed.

(* what a call that does NOT succeed leaves behind, for every kind of directory: the decoding still has exactly the same
   entries and labels (at most one orphan long-name run was added at the end: chain case 4 above), no slot that was in use
   has changed, the directory did not shrink; a fixed root is byte-identical *)
Theorem failed_write_keeps_entries k free fat32 ss n e es ls r ss' :
  dir_scan ss 0 [] fat32 = (es, ls, []) -> len_N ss < 134217728 ->
  write_entry k free ss n e = (r, ss') -> (forall range, r <> Ok range) ->
  (exists x, r = Err x /\ x <> EWriteZero) /\
  (k = FixedRoot -> ss' = ss) /\
  (exists iss, dir_scan ss' 0 [] fat32 = (es, ls, iss) /\ (iss = [] \/ exists i, iss = [DOrphanLfn i])) /\
  (length ss <= length ss')%nat /\
  (forall i s, nth_error ss i = Some s -> ~ free_slot s -> nth_error ss' i = Some s).
Proof.
  intros H0 Hb H Hr.
  assert (forall x, x <> EWriteZero -> r = Err x -> ss' = ss ->
            (exists x, r = Err x /\ x <> EWriteZero) /\ (k = FixedRoot -> ss' = ss) /\
            (exists iss, dir_scan ss' 0 [] fat32 = (es, ls, iss) /\ (iss = [] \/ exists i, iss = [DOrphanLfn i])) /\
            (length ss <= length ss')%nat /\
            (forall i s, nth_error ss i = Some s -> ~ free_slot s -> nth_error ss' i = Some s)) as Same.
  { intros x Hx -> ->. split; [exists x; split; [reflexivity|exact Hx]|]. split; [reflexivity|].
    split; [exists []; split; [exact H0|left; reflexivity]|]. split; [lia|]. intros i s Hi _. exact Hi. }
  destruct (write_entry_cases k free ss n e Hb) as [[rg [s1 E]]|[[x [V E]]|[[K [V [E _]]]|C4]]].
  - rewrite E in H. injection H as <- _. exfalso. apply (Hr rg). reflexivity.
  - rewrite E in H. injection H as <- <-. apply (Same x); try reflexivity.
    destruct (validate_err_kinds n x V) as [->| ->]; discriminate.
  - rewrite E in H. injection H as <- <-. apply (Same ENotEnoughSpace); try reflexivity. discriminate.
  - destruct C4 as [cs [p [pre [mid [post [j [K [V [S [J [_ [_ E]]]]]]]]]]]]. rewrite E in H. injection H as <- <-. subst k.
    destruct S as [S1 S2 S3 S4 S5].
    set (lf := map lfn_encode (write_entry_lfn_slots n (se_name e))) in *.
    assert (entry_run n e = lf ++ [sfn_encode e]) as Erun by reflexivity.
    destruct (entry_lfn_run_valid n (se_name e) V) as [R1 [_ [_ [_ R5]]]]. fold lf in R1, R5.
    destruct (run_valid_starts lf _ R1) as [Rn _].
    assert (length (entry_run n e) = S (length lf)) as ElenN by (rewrite Erun, app_length; cbn [length]; lia).
    assert (firstn j (entry_run n e) = firstn j lf) as Efj.
    { rewrite Erun, firstn_app. replace (j - length lf)%nat with 0%nat by lia. cbn [firstn]. apply app_nil_r. }
    rewrite Efj.
    (* the run did not fit: the free spot is the end of the used part *)
    assert (post = [] \/ exists z r, post = z :: r /\ zfirst z) as Hpost.
    { destruct S5 as [C|[_ C]]; [|exact C]. exfalso. rewrite app_length in J. unfold len_N in C. lia. }
    (* the old decoding, split at the free spot *)
    pose proof H0 as H0'. rewrite S1 in H0'. rewrite scan_app in H0' by exact S3.
    destruct (scan_pre pre 0 [] fat32) as [[[es1 ls1] iss1] pd] eqn:Epre.
    destruct (dir_scan (mid ++ post) (0 + len_N pre) pd fat32) as [[es2 ls2] iss2] eqn:E2.
    injection H0' as Q1 Q2 Q3. apply app_eq_nil in Q3. destruct Q3 as [-> ->].
    assert (pd = []) as ->.
    { eapply no_issue_free_head; [exact E2|]. destruct mid as [|m0 mid'].
      - cbn [app]. destruct Hpost as [->|[z [r [-> Hz]]]]; [left; reflexivity|right; exists z, r; split; [reflexivity|left; exact Hz]].
      - right. exists m0, (mid' ++ post). split; [reflexivity|right]. inversion S4; assumption. }
    rewrite scan_deleted in E2 by exact S4.
    assert (Forall zfirst post /\ es2 = [] /\ ls2 = []) as [Hz [-> ->]].
    { destruct Hpost as [->|[z [r [-> Hz]]]].
      - cbn [dir_scan] in E2. inversion E2. repeat split; constructor.
      - eapply no_issue_after_end; [exact Hz|exact E2]. }
    rewrite !app_nil_r in *. subst es1 ls1.
    split; [exists ENotEnoughSpace; split; [reflexivity|discriminate]|]. split; [discriminate|].
    split; [|split].
    + rewrite scan_app by exact S3. rewrite Epre.
      rewrite <- (app_nil_r (firstn j lf)).
      rewrite scan_run by (first [apply lfn_live_like; apply LfnProofs.Forall_firstn'; exact R5|apply Forall_tl_firstn; exact Rn]).
      cbn [dir_scan]. rewrite !app_nil_r. cbn [app]. eexists. split; [reflexivity|].
      destruct (rev (firstn j lf)); [left; reflexivity|right; eexists; reflexivity].
    + rewrite S1, !app_length, firstn_length. rewrite app_length in J. lia.
    + intros i s Hi Hs. rewrite S1 in Hi.
      destruct (Nat.lt_ge_cases i (length pre)) as [L|L].
      * rewrite nth_error_app1 in Hi by exact L. rewrite nth_error_app1 by exact L. exact Hi.
      * exfalso. apply Hs. rewrite nth_error_app2 in Hi by exact L. apply nth_error_In in Hi.
        apply in_app_or in Hi. destruct Hi as [Hi|Hi].
        -- right. rewrite Forall_forall in S4. apply S4. exact Hi.
        -- left. rewrite Forall_forall in Hz. apply Hz. exact Hi.
Qed.

Definition ex_sfn (name : list N) : sfn_entry :=
  {| se_name := name; se_attrs := 32; se_reserved_0 := 0; se_create_time_0 := 0; se_create_time_1 := 0;
     se_create_date := 33; se_access_date := 33; se_first_cluster_hi := 0; se_modify_time := 0; se_modify_date := 33;
     se_first_cluster_lo := 0; se_size := 0 |}.
Definition ex_alias : list N := [65; 65; 65; 65; 65; 65; 126; 49; 32; 32; 32].   (* "AAAAAA~1   " *)

(* (e) the unrestricted statement
     forall k free ss n e x ss', write_entry k free ss n e = (Err x, ss') -> ss' = ss
   is still FALSE for a CHAIN-backed directory (finding "nospace during entry write"): a 14-character name needs 3 slots; a
   directory whose only cluster has 2 free slots left takes the two long-name slots, then the chain cannot grow (no free
   cluster): NotEnoughSpace, and the directory is left with an orphan run.  (For a fixed root it is now TRUE:
   write_entry_fixed_root_full_unchanged.) *)
Theorem failed_write_unchanged_chain_refuted :
  exists k free ss n e x ss',
    write_entry k free ss n e = (Err x, ss') /\ ss' <> ss /\
    len_N ss < 134217728 /\ sfn_live e /\ write_known_class k free ss n e /\
    dir_scan ss 0 [] false = ([], [], []) /\ dir_scan ss' 0 [] false = ([], [], [DOrphanLfn 2]).
Proof.
  exists (Chained 2), 0%nat, [zero_slot; zero_slot], (repeat_N 97 14), (ex_sfn ex_alias), ENotEnoughSpace.
  eexists. split; [vm_compute; reflexivity|]. split; [discriminate|]. split; [reflexivity|].
  split; [|split; [|split; reflexivity]].
  - constructor; [constructor; vm_compute; reflexivity| | |]; vm_compute; try reflexivity; discriminate.
  - exists 2%nat, 0. split; [reflexivity|]. split; [reflexivity|]. vm_compute. lia.
Qed.

(* ================================================================ 6. uniqueness of names in situ *)

Lemma land_mod64_8 b : N.land (b mod 64) 8 = N.land b 8.
Proof. change 64 with (2 ^ 6). rewrite <- N.land_ones, <- N.land_assoc. reflexivity. Qed.
Lemma land15_8 x : N.land x 15 = 15 -> N.land x 8 = 8.
Proof. intros H. change 8 with (N.land 15 8) at 1. rewrite N.land_assoc, H. reflexivity. Qed.

(* The library's iterator (skipping volume labels) and the independent decoder list the same short slots: the raw
   short names find_entry feeds to the alias generator are exactly the e_sfn of the decoded entries.  (They classify
   slots with attribute low nibble 0xF and bit 4 or 5 set differently - long-name slot for the library, label for the
   decoder - but neither lists such a slot.) *)
Lemma scan_sfns_eq fat32 oem : forall ss before idx pend,
  map Lfn.ev_raw_name (LfnSpec.spec_list oem true before ss) = map e_sfn (fst (fst (dir_scan ss idx pend fat32))).
Proof.
  induction ss as [|bs r IH]; intros before idx pend; [reflexivity|].
  cbn [LfnSpec.spec_list dir_scan]. rewrite is_end_decode.
  destruct (byte_at bs 0 =? 0); [reflexivity|].
  destruct (slot_decode bs) as [e|e] eqn:ED.
  - assert (slot_is_deleted (SFile e) = (byte_at bs 0 =? 229)) as Edel by (rewrite <- ED; apply is_deleted_decode).
    unfold slot_decode in ED. destruct (N.land (attrs_truncate (byte_at bs 11)) ATTR_LFN =? ATTR_LFN) eqn:EL; [discriminate|].
    injection ED as ED. unfold LfnSpec.is_entry. rewrite Edel.
    destruct (byte_at bs 0 =? 229).
    { cbn [negb andb]. rewrite (IH _ (idx + 1) []). destruct (dir_scan r (idx + 1) [] fat32) as [[a b] c]. reflexivity. }
    assert (is_lfn_slot bs = false) as NL.
    { unfold is_lfn_slot. apply N.eqb_neq. intros C. unfold attrs_truncate, ATTR_LFN in EL. rewrite C in EL. discriminate. }
    rewrite NL.
    assert (sfn_is_volume e = is_label_slot bs) as EV.
    { unfold sfn_is_volume, is_label_slot, ATTR_VOLUME_ID. rewrite <- ED. cbn [se_attrs]. unfold attrs_truncate.
      rewrite land_mod64_8. reflexivity. }
    rewrite EV. destruct (is_label_slot bs).
    { cbn [negb andb]. rewrite (IH _ (idx + 1) []). destruct (dir_scan r (idx + 1) [] fat32) as [[a b] c]. reflexivity. }
    cbn [negb andb map]. rewrite (IH _ (idx + 1) []). destruct (dir_scan r (idx + 1) [] fat32) as [[a b] c].
    cbn [fst map]. f_equal. unfold Lfn.mk_view, mk_entry. cbn [Lfn.ev_raw_name e_sfn]. rewrite <- ED. reflexivity.
  - unfold slot_decode in ED. destruct (N.land (attrs_truncate (byte_at bs 11)) ATTR_LFN =? ATTR_LFN) eqn:EL; [|discriminate].
    apply N.eqb_eq in EL. unfold attrs_truncate, ATTR_LFN in EL.
    destruct (byte_at bs 0 =? 229).
    { rewrite (IH _ (idx + 1) []). destruct (dir_scan r (idx + 1) [] fat32) as [[a b] c]. reflexivity. }
    destruct (is_lfn_slot bs).
    { destruct (lfn_starts bs && match pend with [] => false | _ => true end); [|apply IH].
      rewrite (IH _ (idx + 1) [bs]). destruct (dir_scan r (idx + 1) [bs] fat32) as [[a b] c]. reflexivity. }
    assert (is_label_slot bs = true) as EV.
    { unfold is_label_slot. apply land15_8 in EL. rewrite land_mod64_8 in EL. rewrite EL. reflexivity. }
    rewrite EV. rewrite (IH _ (idx + 1) []). destruct (dir_scan r (idx + 1) [] fat32) as [[a b] c]. reflexivity.
Qed.

Lemma dir_entries_sfns fat32 oem ss l es ls iss :
  dir_entries oem ss = Ok l -> dir_scan ss 0 [] fat32 = (es, ls, iss) -> map Lfn.ev_raw_name l = map e_sfn es.
Proof.
  intros H1 H2. unfold dir_entries in H1. rewrite LfnProofs.read_dir_sound in H1. injection H1 as <-.
  unfold LfnSpec.spec_dir. rewrite (scan_sfns_eq fat32 oem ss [] 0 []). rewrite H2. reflexivity.
Qed.

Lemma list_eqb_eq a : forall b, list_eqb a b = true <-> a = b.
Proof.
  induction a as [|x a IH]; intros [|y b]; cbn [list_eqb]; split; intros H; try reflexivity; try discriminate.
  - apply andb_true_iff in H. destruct H as [H1 H2]. apply N.eqb_eq in H1. apply IH in H2. congruence.
  - injection H as -> ->. rewrite N.eqb_refl. apply IH. reflexivity.
Qed.

(* Wf's duplicate test (the WDupShort clause applies it to the e_sfn of a directory's entries) *)
Lemma has_dup_NoDup l : Wf.has_dup list_eqb l = false <-> NoDup l.
Proof.
  induction l as [|x r IH]; cbn [Wf.has_dup]; split; intros H; try reflexivity; try constructor.
  - apply orb_false_iff in H. destruct H as [H1 H2]. intros C.
    assert (existsb (list_eqb x) r = true) as E by (apply existsb_exists; exists x; split; [exact C|apply list_eqb_eq; reflexivity]).
    congruence.
  - apply IH. apply orb_false_iff in H. apply H.
  - inversion H as [|? ? N1 N2]; subst. apply orb_false_iff. split; [|apply IH; exact N2].
    destruct (existsb (list_eqb x) r) eqn:E; [|reflexivity]. apply existsb_exists in E. destruct E as [y [Y1 Y2]].
    apply list_eqb_eq in Y2. subst y. contradiction.
Qed.

Lemma sfn_byte_ok_live b : sfn_byte_ok b = true -> b <> 0 /\ b <> 229.
Proof. intros H. split; intros C; subst b; vm_compute in H; discriminate. Qed.

Lemma sfn_legal_first a : sfn_legal_b a = true -> length a = 11%nat /\ nth 0 a 0 <> 0 /\ nth 0 a 0 <> 229.
Proof.
  unfold sfn_legal_b. rewrite !andb_true_iff. intros [[[H1 H2] _] H4]. apply Nat.eqb_eq in H1. split; [exact H1|].
  destruct a as [|b a']; [discriminate|]. cbn [firstn sfn_part_ok byte_nth nth] in *.
  apply negb_true_iff in H4. rewrite H4 in H2. apply andb_true_iff in H2. apply sfn_byte_ok_live. apply H2.
Qed.

Lemma stamp_create_ranges now st : TimeProofs.datetime_valid now = true -> stamp_create now = Ok st ->
  create_time_0 st < 256 /\ create_time_1 st < 65536 /\ create_date st < 65536 /\ access_date st < 65536 /\
  modify_time st < 65536 /\ modify_date st < 65536.
Proof.
  intros Hv H. unfold TimeProofs.datetime_valid in Hv. apply andb_true_iff in Hv. destruct Hv as [Hd Ht].
  unfold stamp_create, st_set_created, st_set_accessed, st_set_modified in H.
  rewrite (TimeProofs.date_encode_arith _ Hd), (TimeProofs.time_encode_arith _ Ht) in H. cbn [bind] in H.
  cbn [create_time_0 create_time_1 create_date access_date modify_time modify_date stamps_zero] in H.
  injection H as <-. cbn [create_time_0 create_time_1 create_date access_date modify_time modify_date].
  apply TimeProofs.date_valid_bounds in Hd. apply TimeProofs.time_valid_bounds in Ht.
  repeat split; lia.
Qed.

Lemma create_sfn_entry_live fat32 a attrs cl st :
  sfn_legal_b a = true -> attrs < 64 -> N.land attrs 8 = 0 ->
  create_time_0 st < 256 /\ create_time_1 st < 65536 /\ create_date st < 65536 /\ access_date st < 65536 /\
  modify_time st < 65536 /\ modify_date st < 65536 ->
  sfn_live (create_sfn_entry fat32 a attrs cl st).
Proof.
  intros HL Ha Hv [T0 [T1 [T2 [T3 [T4 T5]]]]]. destruct (sfn_legal_first a HL) as [L1 [L2 L3]].
  constructor; [constructor| | |]; unfold create_sfn_entry;
    cbn [se_name se_attrs se_reserved_0 se_create_time_0 se_create_time_1 se_create_date se_access_date
         se_first_cluster_hi se_modify_time se_modify_date se_first_cluster_lo se_size]; try assumption; try lia.
  destruct fat32; lia.
Qed.

(* (f) create_file / create_dir at the slot layer: one new entry; its short name is new in the directory (so the
   WDupShort clause cannot appear), and - relative to the library's own matching DirEntry::eq_name - no existing entry
   matches the new name by long or by short name *)
(* ... stated for a directory that may hold orphan long-name runs (then the name must have a long-name run: not "." / "..") *)
Theorem create_entry_refines_gen upper oem fat32 k free ss n attrs cl now wd es ls iss range ss' :
  dir_scan ss 0 [] fat32 = (es, ls, iss) -> orphans_only iss -> (is_dot_name n = false \/ iss = []) ->
  len_N ss < 134217728 ->
  attrs < 64 -> N.land attrs 8 = 0 -> TimeProofs.datetime_valid now = true ->
  create_entry upper oem fat32 k free ss n attrs cl now wd = (Ok (Some range), ss') ->
  exists es1 es2 ne,
    es = es1 ++ es2 /\ dir_scan ss' 0 [] fat32 = (es1 ++ ne :: es2, ls, iss) /\
    e_lfn ne = (if is_dot_name n then [] else utf16_encode n) /\ e_lfn_ok ne = true /\ e_attr ne = attrs /\ e_size ne = 0 /\
    sfn_legal_b (e_sfn ne) = true /\
    ~ In (e_sfn ne) (map e_sfn es) /\
    (Wf.has_dup list_eqb (map e_sfn es) = false -> Wf.has_dup list_eqb (map e_sfn (es1 ++ ne :: es2)) = false) /\
    (forall l, dir_entries oem ss = Ok l -> forall ev, In ev l -> matches upper oem n ev = false) /\
    (forall i, (i < length ss)%nat -> (N.of_nat i < fst range \/ snd range <= N.of_nat i) -> nth_error ss' i = nth_error ss i).
Proof.
  intros H0 Ho Hc Hb Ha Hv Hnow H. unfold create_entry, lift in H.
  destruct (check_for_existence upper oem ss n (Some wd)) as [[ev|a]| | |] eqn:C; try discriminate.
  unfold check_for_existence in C.
  destruct (validate_long_name n) as [[]| | |] eqn:V; try discriminate. cbn [bind] in C.
  destruct (dir_entries oem ss) as [l| | |] eqn:DE; try discriminate. cbn [bind] in C.
  destruct (find (matches upper oem n) l) as [ev|] eqn:F.
  { destruct (kind_check ev (Some wd)); discriminate. }
  destruct (alias_for n (map Lfn.ev_raw_name l) (S (length l / 9))) as [a'| | |] eqn:AF; try discriminate.
  cbn [bind] in C. injection C as ->.
  destruct (stamp_create now) as [st| | |] eqn:ST; try discriminate.
  destruct (write_entry k free ss n (create_sfn_entry fat32 a attrs cl st)) as [w ss''] eqn:W.
  destruct w as [rg| | |]; try discriminate. cbn [bind] in H. injection H as <- <-.
  pose proof (sfn_legal _ _ _ _ AF) as HL. pose proof (sfn_unique _ _ _ _ AF) as HU.
  pose proof (create_sfn_entry_live fat32 a attrs cl st HL Ha Hv (stamp_create_ranges now st Hnow ST)) as Hlive.
  destruct rg as [p q].
  destruct (write_entry_refines_gen k free fat32 ss n _ es ls iss p q ss'' H0 Ho Hc Hb Hlive W)
    as [es1 [es2 [ne [E1 [E2 [E3 [E4 [E5 [E6 [_ [_ [_ [_ [_ [_ [_ [_ [E15 [_ [_ [_ [Fr _]]]]]]]]]]]]]]]]]]]]]].
  exists es1, es2, ne. cbn [create_sfn_entry se_name se_attrs se_size] in E5, E6, E15.
  rewrite (dir_entries_sfns fat32 oem ss l es ls iss DE H0) in HU.
  split; [exact E1|]. split; [exact E2|]. split; [exact E3|]. split; [exact E4|]. split; [exact E6|]. split; [exact E15|].
  split; [rewrite E5; exact HL|]. split; [rewrite E5; exact HU|]. split; [|split].
  - intros ND. apply has_dup_NoDup. apply has_dup_NoDup in ND. rewrite map_app. cbn [map].
    rewrite E1, map_app in ND, HU.
    apply (NoDup_Add (Add_app (e_sfn ne) (map e_sfn es1) (map e_sfn es2))). split; [exact ND|]. rewrite E5. exact HU.
  - intros l' Hl' ev Hin. assert (l' = l) as -> by congruence.
    destruct (matches upper oem n ev) eqn:M; [|reflexivity].
    exfalso. pose proof (find_none _ _ F ev Hin). congruence.
  - exact Fr.
Qed.


Theorem create_entry_refines upper oem fat32 k free ss n attrs cl now wd es ls range ss' :
  dir_scan ss 0 [] fat32 = (es, ls, []) -> len_N ss < 134217728 ->
  attrs < 64 -> N.land attrs 8 = 0 -> TimeProofs.datetime_valid now = true ->
  create_entry upper oem fat32 k free ss n attrs cl now wd = (Ok (Some range), ss') ->
  exists es1 es2 ne,
    es = es1 ++ es2 /\ dir_scan ss' 0 [] fat32 = (es1 ++ ne :: es2, ls, []) /\
    e_lfn ne = (if is_dot_name n then [] else utf16_encode n) /\ e_lfn_ok ne = true /\ e_attr ne = attrs /\ e_size ne = 0 /\
    sfn_legal_b (e_sfn ne) = true /\
    ~ In (e_sfn ne) (map e_sfn es) /\
    (Wf.has_dup list_eqb (map e_sfn es) = false -> Wf.has_dup list_eqb (map e_sfn (es1 ++ ne :: es2)) = false) /\
    (forall l, dir_entries oem ss = Ok l -> forall ev, In ev l -> matches upper oem n ev = false) /\
    (forall i, (i < length ss)%nat -> (N.of_nat i < fst range \/ snd range <= N.of_nat i) -> nth_error ss' i = nth_error ss i).
Proof.
  intros H0 Hb Ha Hv Hnow H.
  exact (create_entry_refines_gen upper oem fat32 k free ss n attrs cl now wd es ls [] range ss' H0 (Forall_nil _)
           (or_intror eq_refl) Hb Ha Hv Hnow H).
Qed.

(* ================================================================ 7. C03 corollaries, rename, finite-map view *)

(* the slot-level clauses of C03 for one directory: the independent decoder reports no issue (nothing after the end
   marker; every long-name run complete, ordered, padded, checksummed against its short entry) *)
Definition slots_wf (fat32 : bool) (ss : slots) : Prop := snd (dir_scan ss 0 [] fat32) = [].

Lemma slots_wf_inv fat32 ss : slots_wf fat32 ss -> exists es ls, dir_scan ss 0 [] fat32 = (es, ls, []).
Proof. unfold slots_wf. destruct (dir_scan ss 0 [] fat32) as [[es ls] iss]. cbn [snd]. intros ->. eauto. Qed.

Theorem write_entry_keeps_wf k free fat32 ss n e range ss' :
  slots_wf fat32 ss -> len_N ss < 134217728 -> sfn_live e ->
  write_entry k free ss n e = (Ok range, ss') ->
  slots_wf fat32 ss' /\ snd (fst (dir_scan ss' 0 [] fat32)) = snd (fst (dir_scan ss 0 [] fat32)).
Proof.
  intros Hw Hb He H. destruct (slots_wf_inv _ _ Hw) as [es [ls H0]]. destruct range as [p q].
  destruct (write_entry_refines k free fat32 ss n e es ls p q ss' H0 Hb He H) as [es1 [es2 [ne [_ [E2 _]]]]].
  unfold slots_wf. rewrite E2, H0. split; reflexivity.
Qed.

Theorem mark_deleted_keeps_wf fat32 ss e :
  slots_wf fat32 ss -> In e (fst (fst (dir_scan ss 0 [] fat32))) ->
  slots_wf fat32 (mark_deleted ss (e_first_slot e) (e_sfn_slot e + 1)) /\
  snd (fst (dir_scan (mark_deleted ss (e_first_slot e) (e_sfn_slot e + 1)) 0 [] fat32)) = snd (fst (dir_scan ss 0 [] fat32)).
Proof.
  intros Hw Hin. destruct (slots_wf_inv _ _ Hw) as [es [ls H0]]. rewrite H0 in Hin. cbn [fst] in Hin.
  destruct (mark_deleted_refines fat32 ss es ls e H0 Hin) as [es1 [es2 [_ [E2 _]]]]. cbn zeta in E2.
  unfold slots_wf. rewrite E2, H0. split; reflexivity.
Qed.

(* where a decoded entry sits: its long-name slots [lf] and its short slot [s]; all of them are in use *)
Lemma decoded_entry_slots fat32 ss es ls iss e :
  dir_scan ss 0 [] fat32 = (es, ls, iss) -> In e es ->
  exists pre0 lf s post, ss = pre0 ++ lf ++ s :: post /\ Forall nonend pre0 /\ Forall lfn_like lf /\ short_live s /\
    e_first_slot e = len_N pre0 /\ e_sfn_slot e = len_N pre0 + len_N lf.
Proof.
  intros H0 Hin.
  destruct (scan_In_split0 fat32 ss es ls iss e H0 Hin) as [pre0 [lf [s [post [E1 [E2 [E3 [E4 [_ [_ Ee]]]]]]]]]].
  exists pre0, lf, s, post. repeat (split; [assumption|]).
  rewrite Ee. unfold mk_entry. cbn [e_first_slot e_sfn_slot]. unfold len_N. rewrite rev_length. split; lia.
Qed.

Lemma decoded_entry_in_use fat32 ss es ls iss e i :
  dir_scan ss 0 [] fat32 = (es, ls, iss) -> In e es -> e_first_slot e <= N.of_nat i <= e_sfn_slot e ->
  exists t, nth_error ss i = Some t /\ ~ free_slot t.
Proof.
  intros H0 Hin Hi.
  destruct (decoded_entry_slots fat32 ss es ls iss e H0 Hin) as [pre0 [lf [s [post [E1 [_ [E3 [E4 [Ef Es]]]]]]]]].
  rewrite Ef, Es in Hi. unfold len_N in Hi.
  assert (Forall (fun t => ~ free_slot t) (lf ++ [s])) as Huse.
  { apply Forall_app. split.
    - eapply Forall_impl; [|exact E3]. intros t [_ [T1 T2]] [C|C]; contradiction.
    - constructor; [|constructor]. destruct E4 as [T1 [T2 _]]. intros [C|C]; contradiction. }
  replace (pre0 ++ lf ++ s :: post) with (pre0 ++ (lf ++ [s]) ++ post) in E1 by (rewrite <- !app_assoc; reflexivity).
  assert (i - length pre0 < length (lf ++ [s]))%nat as Hlt by (rewrite app_length; cbn [length]; lia).
  destruct (nth_error (lf ++ [s]) (i - length pre0)) as [t|] eqn:En; [|apply nth_error_None in En; lia].
  exists t. split.
  - rewrite E1. rewrite nth_error_app2 by lia. rewrite nth_error_app1 by exact Hlt. exact En.
  - rewrite Forall_forall in Huse. apply Huse. eapply nth_error_In. exact En.
Qed.

Lemma app_mid_split {A} (u v : A) : forall l1 l2 x y, l1 ++ u :: l2 = x ++ v :: y -> u <> v ->
  (exists m, x = l1 ++ u :: m /\ l2 = m ++ v :: y) \/ (exists m, l1 = x ++ v :: m /\ y = m ++ u :: l2).
Proof.
  induction l1 as [|h l1 IH]; intros l2 x y H Hne.
  - destruct x as [|h' x]; cbn [app] in H.
    + injection H as H1 H2. contradiction.
    + injection H as H1 H2. left. exists x. subst. split; reflexivity.
  - destruct x as [|h' x]; cbn [app] in H.
    + injection H as H1 H2. right. exists l1. subst. split; reflexivity.
    + injection H as H1 H2. destruct (IH _ _ _ H2 Hne) as [[m [E1 E2]]|[m [E1 E2]]]; [left|right]; exists m; subst; split; reflexivity.
Qed.

(* rename at the slot layer with the code's order (since d9f4de8): the new entry is written FIRST - into free slots, so it
   never overlaps the slots of the decoded source entry [e], which are still in use at that time -, then the slots of [e]
   are deleted in the directory as it is after the write; on success the decoding loses exactly e and gains exactly the
   new entry *)
Theorem rename_slots_refines k free fat32 ss n se es ls e p q ss1 :
  dir_scan ss 0 [] fat32 = (es, ls, []) -> len_N ss < 134217728 -> In e es -> sfn_live se ->
  write_entry k free ss n se = (Ok (p, q), ss1) ->
  let ss' := mark_deleted ss1 (e_first_slot e) (e_sfn_slot e + 1) in
  exists a b c d ne,
    es = a ++ e :: b /\ a ++ b = c ++ d /\ dir_scan ss' 0 [] fat32 = (c ++ ne :: d, ls, []) /\
    e_lfn ne = (if is_dot_name n then [] else utf16_encode n) /\ e_lfn_ok ne = true /\ e_sfn ne = se_name se /\
    e_attr ne = se_attrs se /\ e_size ne = se_size se /\
    e_cluster ne = (if fat32 then se_first_cluster_hi se * 65536 else 0) + se_first_cluster_lo se /\
    e_first_slot ne = p /\ e_sfn_slot ne + 1 = q /\
    (* the new entry lies entirely before or entirely behind the slots of the source *)
    (q <= e_first_slot e \/ e_sfn_slot e < p) /\
    (* frame: a slot outside both entries is untouched *)
    (forall i, (i < length ss)%nat -> (N.of_nat i < p \/ q <= N.of_nat i) ->
               (N.of_nat i < e_first_slot e \/ e_sfn_slot e < N.of_nat i) -> nth_error ss' i = nth_error ss i).
Proof.
  intros H0 Hb Hin Hl W. cbn zeta.
  destruct (write_entry_refines k free fat32 ss n se es ls p q ss1 H0 Hb Hl W)
    as [es1 [es2 [ne [F1 [F2 [F3 [F4 [F5 [F6 [_ [_ [_ [_ [_ [_ [_ [F14 [F15 [F16 [F17 [F18 [Fr1 [Fr2 _]]]]]]]]]]]]]]]]]]]]]]].
  (* the new entry and the source do not overlap *)
  assert (q <= e_first_slot e \/ e_sfn_slot e < p) as Hdisj.
  { destruct (N.le_gt_cases q (e_first_slot e)) as [L|L]; [left; exact L|].
    destruct (N.lt_ge_cases (e_sfn_slot e) p) as [G|G]; [right; exact G|]. exfalso.
    set (i := N.to_nat (N.max p (e_first_slot e))).
    assert (N.of_nat i = N.max p (e_first_slot e)) as Ei by (unfold i; apply N2Nat.id).
    destruct (entry_run_len n se) as [R1 _].
    assert (e_first_slot e <= e_sfn_slot e) as Hfe.
    { destruct (decoded_entry_slots fat32 ss es ls [] e H0 Hin) as [? [? [? [? [_ [_ [_ [_ [Q1 Q2]]]]]]]]]. rewrite Q1, Q2. lia. }
    destruct (decoded_entry_in_use fat32 ss es ls [] e i H0 Hin) as [t [T1 T2]]; [rewrite Ei; lia|].
    apply T2. apply (Fr2 i t); [rewrite Ei; lia|exact T1]. }
  assert (e <> ne) as Hne.
  { intros ->. destruct (entry_run_len n se) as [R1 _]. destruct Hdisj; lia. }
  assert (In e (es1 ++ ne :: es2)) as Hin'.
  { rewrite F1 in Hin. apply in_app_or in Hin. apply in_or_app. destruct Hin; [left|right; right]; assumption. }
  destruct (mark_deleted_refines fat32 ss1 _ ls e F2 Hin') as [x [y [G1 [G2 [_ [G4 _]]]]]]. cbn zeta in G2, G4.
  assert (ne <> e) as Hne' by congruence.
  assert (exists a b c d, es = a ++ e :: b /\ a ++ b = c ++ d /\ x ++ y = c ++ ne :: d) as [a [b [c [d [A1 [A2 A3]]]]]].
  { destruct (app_mid_split ne e es1 es2 x y G1 Hne') as [[m [-> ->]]|[m [-> ->]]].
    - exists (es1 ++ m), y, es1, (m ++ y). rewrite F1, <- !app_assoc. repeat split.
    - exists x, (m ++ es2), (x ++ m), es2. rewrite F1, <- !app_assoc. repeat split. }
  exists a, b, c, d, ne. split; [exact A1|]. split; [exact A2|]. split; [rewrite G2, A3; reflexivity|].
  do 8 (split; [assumption|]). split; [exact Hdisj|].
  intros i Hi Hout1 Hout2. rewrite G4 by exact Hout2. apply Fr1; assumption.
Qed.

(* ---------- (g) the decoding as a finite map keyed by the raw short name ---------- *)
Definition dir_map (es : list entry) (key : list N) : option entry := find (fun e => list_eqb (e_sfn e) key) es.

Lemma dir_map_app a b key : dir_map (a ++ b) key = match dir_map a key with Some e => Some e | None => dir_map b key end.
Proof. unfold dir_map. induction a as [|x a IH]; cbn [app find]; [reflexivity|]. destruct (list_eqb (e_sfn x) key); [reflexivity|exact IH]. Qed.

Lemma dir_map_none es key : ~ In key (map e_sfn es) -> dir_map es key = None.
Proof.
  unfold dir_map. induction es as [|x r IH]; intros H; cbn [find]; [reflexivity|].
  destruct (list_eqb (e_sfn x) key) eqn:E; [apply list_eqb_eq in E; exfalso; apply H; left; exact E|].
  apply IH. intros C. apply H. right. exact C.
Qed.

(* insertion anywhere in the list is map update, when the key is new *)
Lemma dir_map_insert a b ne key : ~ In (e_sfn ne) (map e_sfn (a ++ b)) ->
  dir_map (a ++ ne :: b) key = if list_eqb (e_sfn ne) key then Some ne else dir_map (a ++ b) key.
Proof.
  intros H. rewrite !dir_map_app. unfold dir_map at 2. cbn [find]. fold (dir_map b key).
  destruct (list_eqb (e_sfn ne) key) eqn:E; [|reflexivity].
  apply list_eqb_eq in E. subst key. rewrite dir_map_none; [reflexivity|].
  intros C. apply H. rewrite map_app. apply in_or_app. left. exact C.
Qed.

(* removal anywhere in the list is map removal, when keys are unique *)
Lemma dir_map_remove a b e key : NoDup (map e_sfn (a ++ e :: b)) ->
  dir_map (a ++ b) key = if list_eqb (e_sfn e) key then None else dir_map (a ++ e :: b) key.
Proof.
  intros ND. rewrite !dir_map_app. unfold dir_map at 4. cbn [find]. fold (dir_map b key).
  rewrite map_app in ND. cbn [map] in ND. apply NoDup_remove_2 in ND.
  destruct (list_eqb (e_sfn e) key) eqn:E; [|reflexivity].
  apply list_eqb_eq in E. subst key.
  rewrite (dir_map_none a), (dir_map_none b); [reflexivity| |]; intros C; apply ND; apply in_or_app; [right|left]; exact C.
Qed.

(* (g) create commutes with the finite-map view: the new directory maps the alias to the new entry and every other
   key as before (all other entries are unchanged records, including their slot positions) *)
Theorem create_refines_map upper oem fat32 k free ss n attrs cl now wd es ls range ss' :
  dir_scan ss 0 [] fat32 = (es, ls, []) -> len_N ss < 134217728 ->
  attrs < 64 -> N.land attrs 8 = 0 -> TimeProofs.datetime_valid now = true ->
  create_entry upper oem fat32 k free ss n attrs cl now wd = (Ok (Some range), ss') ->
  exists es' ne, dir_scan ss' 0 [] fat32 = (es', ls, []) /\
    e_lfn ne = (if is_dot_name n then [] else utf16_encode n) /\ dir_map es (e_sfn ne) = None /\
    forall key, dir_map es' key = if list_eqb (e_sfn ne) key then Some ne else dir_map es key.
Proof.
  intros H0 Hb Ha Hv Hn H.
  destruct (create_entry_refines upper oem fat32 k free ss n attrs cl now wd es ls range ss' H0 Hb Ha Hv Hn H)
    as [es1 [es2 [ne [E1 [E2 [E3 [_ [_ [_ [_ [E8 _]]]]]]]]]]].
  exists (es1 ++ ne :: es2), ne. split; [exact E2|]. split; [exact E3|]. split; [apply dir_map_none; exact E8|].
  intros key. rewrite E1 in *. apply dir_map_insert. exact E8.
Qed.

(* (g) remove commutes with the finite-map view (keys unique, i.e. no WDupShort) *)
Theorem remove_refines_map fat32 ss es ls e :
  dir_scan ss 0 [] fat32 = (es, ls, []) -> In e es -> NoDup (map e_sfn es) ->
  exists es', dir_scan (mark_deleted ss (e_first_slot e) (e_sfn_slot e + 1)) 0 [] fat32 = (es', ls, []) /\
    forall key, dir_map es' key = if list_eqb (e_sfn e) key then None else dir_map es key.
Proof.
  intros H0 Hin ND. destruct (mark_deleted_refines fat32 ss es ls e H0 Hin) as [a [b [E1 [E2 _]]]]. cbn zeta in E2.
  exists (a ++ b). split; [exact E2|]. intros key. rewrite E1 in *. apply dir_map_remove. exact ND.
Qed.

(* (g) rename in place (write the new entry, then delete the old one) = remove the old key and add the new one (new key
   not among the REMAINING ones: it may be the key of the source itself) *)
Theorem rename_refines_map k free fat32 ss n se es ls e p q ss1 :
  dir_scan ss 0 [] fat32 = (es, ls, []) -> len_N ss < 134217728 -> In e es -> NoDup (map e_sfn es) -> sfn_live se ->
  (forall x, In x es -> x <> e -> e_sfn x <> se_name se) ->
  write_entry k free ss n se = (Ok (p, q), ss1) ->
  let ss' := mark_deleted ss1 (e_first_slot e) (e_sfn_slot e + 1) in
  exists es' ne, dir_scan ss' 0 [] fat32 = (es', ls, []) /\ e_sfn ne = se_name se /\
    e_lfn ne = (if is_dot_name n then [] else utf16_encode n) /\
    (forall key, dir_map es' key =
       if list_eqb (se_name se) key then Some ne else if list_eqb (e_sfn e) key then None else dir_map es key) /\
    e_lfn_ok ne = true /\ e_attr ne = se_attrs se /\ e_size ne = se_size se /\
    e_cluster ne = (if fat32 then se_first_cluster_hi se * 65536 else 0) + se_first_cluster_lo se.
Proof.
  intros H0 Hb Hin ND Hl Hnew W. cbn zeta.
  destruct (rename_slots_refines k free fat32 ss n se es ls e p q ss1 H0 Hb Hin Hl W)
    as [a [b [c [d [ne [E1 [E2 [E3 [E4 [E5 [E6 [E7 [E8 [E9 _]]]]]]]]]]]]]]. cbn zeta in E3.
  exists (c ++ ne :: d), ne. split; [exact E3|]. split; [exact E6|]. split; [exact E4|].
  split; [|repeat split; assumption].
  intros key. rewrite E1 in *.
  assert (~ In (e_sfn ne) (map e_sfn (c ++ d))) as Hfresh.
  { rewrite <- E2, E6. intros C. apply in_map_iff in C. destruct C as [x [X1 X2]].
    assert (In x (a ++ e :: b)) as Hx by (apply in_app_or in X2; apply in_or_app; destruct X2; [left|right; right]; assumption).
    apply (Hnew x Hx); [|exact X1]. intros ->.
    rewrite map_app in ND. cbn [map] in ND. apply NoDup_remove_2 in ND. apply ND. rewrite <- map_app. apply in_map. exact X2. }
  rewrite dir_map_insert by exact Hfresh. rewrite E6, <- E2. rewrite (dir_map_remove a b e key ND). reflexivity.
Qed.

(* ---------- the payoff of the decoder's restart rule: a directory after a FAILED write_entry is still usable ----------
   A write_entry that does not succeed leaves the decoding with the same entries and labels and at most one orphan run
   (failed_write_keeps_entries).  A later successful write_entry into that directory - typically appended directly
   behind the orphan run - still refines "insert one entry": the new entry is decoded with its long name, the entries
   and labels are the old ones plus the new one, the issue list is exactly the one the failed call left, and (new short
   name) the finite-map view is the map update. *)
Theorem write_after_failed_write_refines k free1 free2 fat32 ss n1 e1 r1 ss1 n2 e2 p q ss2 es ls :
  dir_scan ss 0 [] fat32 = (es, ls, []) -> len_N ss < 134217728 ->
  write_entry k free1 ss n1 e1 = (r1, ss1) -> (forall range, r1 <> Ok range) ->
  len_N ss1 < 134217728 -> sfn_live e2 -> is_dot_name n2 = false ->
  write_entry k free2 ss1 n2 e2 = (Ok (p, q), ss2) ->
  exists iss es1 es2 ne,
    dir_scan ss1 0 [] fat32 = (es, ls, iss) /\ (iss = [] \/ exists i, iss = [DOrphanLfn i]) /\
    es = es1 ++ es2 /\ dir_scan ss2 0 [] fat32 = (es1 ++ ne :: es2, ls, iss) /\
    e_lfn ne = utf16_encode n2 /\ e_lfn_ok ne = true /\ e_sfn ne = se_name e2 /\
    e_attr ne = se_attrs e2 /\ e_size ne = se_size e2 /\
    e_cluster ne = (if fat32 then se_first_cluster_hi e2 * 65536 else 0) + se_first_cluster_lo e2 /\
    e_first_slot ne = p /\ e_sfn_slot ne + 1 = q /\
    (forall i, (i < length ss1)%nat -> (N.of_nat i < p \/ q <= N.of_nat i) -> nth_error ss2 i = nth_error ss1 i) /\
    (~ In (se_name e2) (map e_sfn es) ->
     forall key, dir_map (es1 ++ ne :: es2) key = if list_eqb (se_name e2) key then Some ne else dir_map es key).
Proof.
  intros H0 Hb W1 Hr1 Hb1 Hl D2 W2.
  destruct (failed_write_keeps_entries k free1 fat32 ss n1 e1 es ls r1 ss1 H0 Hb W1 Hr1) as [_ [_ [[iss [H1 Hi]] _]]].
  assert (orphans_only iss) as Ho.
  { destruct Hi as [->|[i ->]]; [constructor|]. constructor; [exists i; reflexivity|constructor]. }
  destruct (write_entry_refines_gen k free2 fat32 ss1 n2 e2 es ls iss p q ss2 H1 Ho (or_introl D2) Hb1 Hl W2)
    as [es1 [es2 [ne [F1 [F2 [F3 [F4 [F5 [F6 [_ [_ [_ [_ [_ [_ [_ [F14 [F15 [F16 [F17 [_ [Fr1 _]]]]]]]]]]]]]]]]]]]]]].
  rewrite D2 in F3.
  exists iss, es1, es2, ne. repeat (split; [assumption|]).
  intros Hnew key. rewrite <- F5. rewrite F1. apply dir_map_insert. rewrite <- F1, F5. exact Hnew.
Qed.

(* the same for the whole create_file / create_dir step (existence check with the library's own matching over what its
   iterator lists, alias generation, write): in a directory whose only issues are orphan long-name runs, a successful
   create commutes with the finite-map view and leaves the issue list as it was *)
Theorem create_refines_map_orphans upper oem fat32 k free ss n attrs cl now wd es ls iss range ss' :
  dir_scan ss 0 [] fat32 = (es, ls, iss) -> orphans_only iss -> is_dot_name n = false -> len_N ss < 134217728 ->
  attrs < 64 -> N.land attrs 8 = 0 -> TimeProofs.datetime_valid now = true ->
  create_entry upper oem fat32 k free ss n attrs cl now wd = (Ok (Some range), ss') ->
  exists es' ne, dir_scan ss' 0 [] fat32 = (es', ls, iss) /\
    e_lfn ne = utf16_encode n /\ e_lfn_ok ne = true /\ dir_map es (e_sfn ne) = None /\
    forall key, dir_map es' key = if list_eqb (e_sfn ne) key then Some ne else dir_map es key.
Proof.
  intros H0 Ho D Hb Ha Hv Hn H.
  destruct (create_entry_refines_gen upper oem fat32 k free ss n attrs cl now wd es ls iss range ss' H0 Ho (or_introl D) Hb Ha Hv Hn H)
    as [es1 [es2 [ne [E1 [E2 [E3 [E4 [_ [_ [_ [E8 _]]]]]]]]]]].
  rewrite D in E3.
  exists (es1 ++ ne :: es2), ne. split; [exact E2|]. split; [exact E3|]. split; [exact E4|]. split; [apply dir_map_none; exact E8|].
  intros key. rewrite E1 in *. apply dir_map_insert. exact E8.
Qed.

(* ================================================================ 8. concrete directories for the Examples in Props/ *)
Definition ex_name1 : str := [104; 101; 108; 108; 111; 32; 119; 111; 114; 108; 100; 46; 116; 120; 116].  (* "hello world.txt" *)
Definition ex_alias1 : list N := [72; 69; 76; 76; 79; 87; 126; 49; 84; 88; 84].                            (* "HELLOW~1TXT" *)
Definition ex_alias2 : list N := [66; 32; 32; 32; 32; 32; 32; 32; 32; 32; 32].                              (* "B          " *)
Definition ex_del : list N := 229 :: repeat_N 0 31.
Definition ex_live : list N := sfn_encode (ex_sfn ex_alias2).
(* an 8-slot fixed root holding "hello world.txt" (2 long-name slots + short slot) *)
Definition ex_dir1 : slots := snd (write_entry FixedRoot 0 (repeat_N zero_slot 8) ex_name1 (ex_sfn ex_alias1)).
(* ... and then "b" (1 + 1 slots) *)
Definition ex_dir2 : slots := snd (write_entry FixedRoot 0 ex_dir1 [98] (ex_sfn ex_alias2)).

(* an orphan partial run followed by a complete entry: "hello world.txt" (slots 0-2), the first slot (0x42) of the run of a
   14-character name, then the run (0x41) and the short slot of "b", then the end marker *)
Definition ex_orph : slots := firstn 1 (entry_run (repeat_N 97 14) (ex_sfn ex_alias)).
Definition ex_run_b : slots := map lfn_encode (write_entry_lfn_slots [98] ex_alias2).
Definition ex_dir_restart : slots := firstn 3 ex_dir1 ++ ex_orph ++ ex_run_b ++ ex_live :: [zero_slot].
(* a chain-backed directory of ONE 4-slot cluster holding "hello world.txt" and one free slot; the 3-slot run of a
   14-character name does not fit and the chain cannot grow (no free cluster): its first slot stays (ex_chain1); then
   a cluster is free again and "b" is created: the directory grows by one cluster (ex_chain2) *)
Definition ex_chain0 : slots := firstn 3 ex_dir1 ++ [zero_slot].
Definition ex_chain1 : slots := snd (write_entry (Chained 4) 0 ex_chain0 (repeat_N 97 14) (ex_sfn ex_alias)).
Definition ex_chain2 : slots := snd (write_entry (Chained 4) 1 ex_chain1 [98] (ex_sfn ex_alias2)).

(* ================================================================ 9. the library's own lookup (find_entry) against the decoder *)

(* The library calls a slot "long-name" when the low nibble of its (truncated) attribute byte is 0xF; the decoder
   (specification) when the six attribute bits are exactly 0x0F.  They differ on attribute bytes 0x1F/0x2F/0x3F (+0x40,
   +0x80), which no writer produces.  [attrs_sane]: the two tests agree on this slot. *)
Definition attrs_sane (s : list N) : Prop :=
  (N.land (attrs_truncate (byte_at s 11)) ATTR_LFN =? ATTR_LFN) = is_lfn_slot s.
Definition bytes_ok (s : list N) : Prop := Forall (fun b => b < 256) s.

Lemma bytes_ok_b ss : forallb (forallb (fun b => b <? 256)) ss = true -> Forall bytes_ok ss.
Proof.
  intros H. apply Forall_forall. intros s Hs. rewrite forallb_forall in H. specialize (H s Hs).
  apply Forall_forall. intros b Hb. rewrite forallb_forall in H. apply N.ltb_lt. apply H. exact Hb.
Qed.

Lemma decode_file_facts bs e : slot_decode bs = SFile e ->
  (N.land (attrs_truncate (byte_at bs 11)) ATTR_LFN =? ATTR_LFN) = false /\ is_lfn_slot bs = false /\
  se_name e = firstn 11 bs /\ sfn_is_volume e = is_label_slot bs.
Proof.
  intros ED. unfold slot_decode in ED.
  destruct (N.land (attrs_truncate (byte_at bs 11)) ATTR_LFN =? ATTR_LFN) eqn:EL; [discriminate|]. injection ED as ED.
  split; [reflexivity|]. split; [|split].
  - unfold is_lfn_slot. apply N.eqb_neq. intros C. unfold attrs_truncate, ATTR_LFN in EL. rewrite C in EL. discriminate.
  - rewrite <- ED. reflexivity.
  - unfold sfn_is_volume, is_label_slot, ATTR_VOLUME_ID. rewrite <- ED. cbn [se_attrs]. unfold attrs_truncate.
    rewrite land_mod64_8. reflexivity.
Qed.

(* without issues inside the prefix no restart drops pending slots: every live long-name slot stays pending *)
Lemma scan_pre_step_noissue fat32 s r idx pend :
  snd (fst (scan_pre (s :: r) idx pend fat32)) = [] ->
  snd (scan_pre (s :: r) idx pend fat32) =
    snd (scan_pre r (idx + 1) (if byte_at s 0 =? 229 then [] else if is_lfn_slot s then s :: pend else []) fat32) /\
  snd (fst (scan_pre r (idx + 1) (if byte_at s 0 =? 229 then [] else if is_lfn_slot s then s :: pend else []) fat32)) = [].
Proof.
  cbn [scan_pre]. destruct (byte_at s 0 =? 229).
  { destruct (scan_pre r (idx + 1) [] fat32) as [[[a b] c] d]. cbn [fst snd]. intros H. apply app_eq_nil in H. split; [reflexivity|apply H]. }
  destruct (is_lfn_slot s).
  { destruct (lfn_starts s && match pend with [] => false | _ => true end); [|intros H; split; [reflexivity|exact H]].
    destruct (scan_pre r (idx + 1) [s] fat32) as [[[a b] c] d]. cbn [fst snd]. discriminate. }
  destruct (is_label_slot s); destruct (scan_pre r (idx + 1) [] fat32) as [[[a b] c] d]; cbn [fst snd]; intros H;
    apply app_eq_nil in H; (split; [reflexivity|apply H]).
Qed.

(* pending long-name slots of the decoder = the live long-name slots the library's iterator counts back from an entry
   (in a prefix that decodes without issue: the iterator's offset range also covers an orphan run directly before a
   restarting slot, which the decoder reports instead) *)
Lemma pend_len fat32 : forall pre idx pend before,
  Forall nonend pre -> Forall attrs_sane pre ->
  snd (fst (scan_pre pre idx pend fat32)) = [] ->
  len_N (LfnSpec.take_while LfnSpec.is_live_lfn before) = len_N pend ->
  len_N (snd (scan_pre pre idx pend fat32)) =
  len_N (LfnSpec.take_while LfnSpec.is_live_lfn (rev (map slot_decode pre) ++ before)).
Proof.
  induction pre as [|s r IH]; intros idx pend before Hne Hs Hni Hinv.
  - cbn [scan_pre snd map rev app]. symmetry. exact Hinv.
  - inversion Hne as [|? ? Hn1 Hn2]; subst. inversion Hs as [|? ? Hs1 Hs2]; subst.
    destruct (scan_pre_step_noissue fat32 s r idx pend Hni) as [-> Hni']. cbn [map rev]. rewrite <- app_assoc. cbn [app].
    apply IH; try assumption.
    cbn [LfnSpec.take_while]. unfold attrs_sane in Hs1.
    destruct (slot_decode s) as [e|e] eqn:ED.
    + destruct (decode_file_facts s e ED) as [_ [NL _]]. cbn [LfnSpec.is_live_lfn]. rewrite NL.
      destruct (byte_at s 0 =? 229); reflexivity.
    + cbn [LfnSpec.is_live_lfn]. unfold LfnSpec.lfn_is_deleted, DELETED_FLAG.
      assert (le_order e = byte_at s 0) as Eo by (rewrite <- (first_byte_decode s), ED; reflexivity). rewrite Eo.
      destruct (byte_at s 0 =? 229); cbn [negb]; [reflexivity|].
      unfold slot_decode in ED. destruct (N.land (attrs_truncate (byte_at s 11)) ATTR_LFN =? ATTR_LFN) eqn:EL; [|discriminate].
      rewrite <- Hs1. unfold len_N in *. cbn [length]. lia.
Qed.

(* an entry the library lists is an entry the decoder lists, at the same slots *)
Lemma listed_is_decoded fat32 oem ss es ls ev :
  dir_scan ss 0 [] fat32 = (es, ls, []) -> Forall attrs_sane ss ->
  LfnSpec.listed_at oem true [] ss ev ->
  exists e se, In e es /\ Lfn.ev_raw_name ev = e_sfn e /\
    Lfn.ev_begin ev / 32 = e_first_slot e /\ Lfn.ev_end ev / 32 = e_sfn_slot e + 1 /\
    slot_decode (nth (N.to_nat (e_sfn_slot e)) ss []) = SFile se /\ sfn_is_volume se = false /\
    nth 0 (se_name se) 0 <> 0 /\ nth 0 (se_name se) 0 <> 229 /\
    e_attr e mod 64 = se_attrs se /\ e_size e = se_size se /\
    e_cluster e = (if fat32 then se_first_cluster_hi se * 65536 else 0) + se_first_cluster_lo se /\
    e_sfn e = se_name se.
Proof.
  intros H0 Hsane (pre & bs & post & se & Hss & Hpre & Hdec & Hne & Hent & Hev).
  assert (Forall nonend pre) as Hpre'.
  { eapply Forall_impl; [|exact Hpre]. intros a Ha. cbn beta in Ha. rewrite is_end_decode in Ha. apply N.eqb_neq. exact Ha. }
  destruct (decode_file_facts bs se Hdec) as [_ [NL [Nm Vol]]].
  assert (byte_at bs 0 <> 0) as B0 by (rewrite <- Hdec, is_end_decode in Hne; apply N.eqb_neq; exact Hne).
  unfold LfnSpec.is_entry in Hent. apply andb_true_iff in Hent. destruct Hent as [Hd Hv].
  rewrite <- Hdec, is_deleted_decode in Hd. apply negb_true_iff in Hd. apply N.eqb_neq in Hd.
  cbn [andb] in Hv. apply negb_true_iff in Hv.
  assert (short_live bs) as Hsl by (repeat split; try assumption; rewrite <- Vol; exact Hv).
  pose proof H0 as H0'. rewrite Hss in H0'. rewrite scan_app in H0' by exact Hpre'.
  destruct (scan_pre pre 0 [] fat32) as [[[es1 ls1] iss1] pd] eqn:Epre.
  rewrite scan_short in H0' by exact Hsl. cbn zeta in H0'.
  destruct (dir_scan post (0 + len_N pre + 1) [] fat32) as [[es2 ls2] iss2].
  injection H0' as Q1 Q2 Q3.
  set (e := mk_entry pd bs (0 + len_N pre) fat32) in *.
  assert (len_N pd = len_N (LfnSpec.take_while LfnSpec.is_live_lfn (rev (map slot_decode pre) ++ []))) as Hpl.
  { replace pd with (snd (scan_pre pre 0 [] fat32)) by (rewrite Epre; reflexivity). apply pend_len; try assumption.
    - rewrite Hss in Hsane. apply Forall_app in Hsane. apply Hsane.
    - rewrite Epre. cbn [fst snd]. apply app_eq_nil in Q3. apply Q3.
    - reflexivity. }
  exists e, se. split; [rewrite <- Q1; apply in_or_app; right; left; reflexivity|].
  subst ev. unfold LfnSpec.entry_at, Lfn.mk_view. cbn [Lfn.ev_raw_name Lfn.ev_begin Lfn.ev_end].
  unfold e, mk_entry. cbn [e_sfn e_first_slot e_sfn_slot e_attr e_size e_cluster].
  assert (len_N (rev (map slot_decode pre) ++ []) = len_N pre) as HL
    by (unfold len_N; rewrite app_nil_r, rev_length, map_length; reflexivity).
  rewrite HL, <- Hpl.
  split; [exact Nm|]. split; [rewrite N.mul_comm, N.div_mul by discriminate; lia|].
  split; [rewrite N.mul_comm, N.div_mul by discriminate; lia|].
  replace (N.to_nat (0 + len_N pre)) with (length pre) by (unfold len_N; lia).
  rewrite Hss, nth_middle. split; [exact Hdec|]. split; [exact Hv|].
  assert (nth 0 (se_name se) 0 = byte_at bs 0) as N0 by (rewrite <- (first_byte_decode bs), Hdec; reflexivity).
  rewrite N0. split; [exact B0|]. split; [exact Hd|].
  unfold slot_decode in Hdec. destruct (N.land (attrs_truncate (byte_at bs 11)) ATTR_LFN =? ATTR_LFN); [discriminate|].
  injection Hdec as <-. cbn [se_name se_attrs se_size se_first_cluster_hi se_first_cluster_lo]. repeat split.
Qed.

Lemma find_entry_listed upper oem ss name kind ev :
  find_entry upper oem ss name kind = Ok ev -> LfnSpec.listed_at oem true [] ss ev /\ matches upper oem name ev = true.
Proof.
  unfold find_entry, dir_entries. intros H.
  destruct (Lfn.read_dir Lfn.VecBuf oem true ss) as [l| | |] eqn:R; try discriminate. cbn [bind] in H.
  destruct (find (matches upper oem name) l) as [ev'|] eqn:F; [|discriminate].
  apply find_some in F. destruct F as [F1 F2].
  assert (ev' = ev) as -> by (unfold kind_check in H; destruct kind as [d|]; [destruct (Bool.eqb _ d); [|discriminate]|]; congruence).
  split; [|exact F2]. apply (LfnProofs.read_dir_listed _ _ _ _ _ R). exact F1.
Qed.

(* Dir::remove at the slot layer: the library finds an entry by its own matching, and what it deletes is exactly the slot
   range of ONE decoded entry; the decoding loses exactly that entry, no issue appears *)
Theorem remove_entry_refines upper oem fat32 ss name ne es ls ss' :
  dir_scan ss 0 [] fat32 = (es, ls, []) -> Forall attrs_sane ss ->
  remove_entry upper oem ss name ne = (Ok tt, ss') ->
  exists ev e es1 es2,
    find_entry upper oem ss name None = Ok ev /\ matches upper oem name ev = true /\ Lfn.ev_raw_name ev = e_sfn e /\
    es = es1 ++ e :: es2 /\ ss' = mark_deleted ss (e_first_slot e) (e_sfn_slot e + 1) /\
    dir_scan ss' 0 [] fat32 = (es1 ++ es2, ls, []) /\
    (NoDup (map e_sfn es) -> forall key, dir_map (es1 ++ es2) key = if list_eqb (e_sfn e) key then None else dir_map es key).
Proof.
  intros H0 Hs H. unfold remove_entry, lift in H.
  destruct (find_entry upper oem ss name None) as [ev| | |] eqn:F; try discriminate.
  destruct (is_special ev); [discriminate|]. destruct (Lfn.ev_is_dir ev && ne); [discriminate|].
  injection H as <-.
  destruct (find_entry_listed _ _ _ _ _ _ F) as [HL HM].
  destruct (listed_is_decoded fat32 oem ss es ls ev H0 Hs HL) as [e [se [Hin [Hn [Hb [He _]]]]]].
  destruct (mark_deleted_refines fat32 ss es ls e H0 Hin) as [es1 [es2 [E1 [E2 _]]]]. cbn zeta in E2.
  exists ev, e, es1, es2. split; [reflexivity|]. split; [exact HM|]. split; [exact Hn|]. split; [exact E1|].
  unfold delete_entry, DIR_ENTRY_SIZE. rewrite Hb, He. split; [reflexivity|]. split; [exact E2|].
  intros ND key. rewrite E1 in *. apply dir_map_remove. exact ND.
Qed.

Lemma decoded_fields_ok bs se : bytes_ok bs -> slot_decode bs = SFile se -> forall a, length a = 11%nat ->
  sfn_fields_ok (renamed se a).
Proof.
  intros Hb Hd a Ha. unfold slot_decode in Hd.
  destruct (N.land (attrs_truncate (byte_at bs 11)) ATTR_LFN =? ATTR_LFN); [discriminate|]. injection Hd as <-.
  assert (forall i, byte_at bs i < 256) as B by (intros i; apply LfnProofs.byte_at_lt; exact Hb).
  assert (forall i, u16_at bs i < 65536) as W by (intros i; apply LfnProofs.u16_at_lt; exact Hb).
  constructor; unfold renamed;
    cbn [se_name se_attrs se_reserved_0 se_create_time_0 se_create_time_1 se_create_date se_access_date
         se_first_cluster_hi se_modify_time se_modify_date se_first_cluster_lo se_size]; auto.
  - unfold attrs_truncate. lia.
  - apply LfnProofs.u32_at_lt. exact Hb.
Qed.

(* in a directory of 32-byte slots every decoded entry has its 11 short-name bytes (the premise of the rewrite case of
   rename_in_dir_refines) *)
Lemma decoded_sfn_length fat32 ss es ls iss e :
  dir_scan ss 0 [] fat32 = (es, ls, iss) -> Forall (fun s => length s = 32%nat) ss -> In e es -> length (e_sfn e) = 11%nat.
Proof.
  intros H0 H32 Hin.
  destruct (scan_In_split0 fat32 ss es ls iss e H0 Hin) as [pre0 [lf [s [post [E1 [_ [_ [_ [_ [_ E5]]]]]]]]]].
  assert (length s = 32%nat) as Ls.
  { rewrite Forall_forall in H32. apply H32. rewrite E1. apply in_or_app. right. apply in_or_app. right. left. reflexivity. }
  assert (e_sfn e = firstn 11 s) as -> by (rewrite E5; reflexivity).
  rewrite firstn_length, Ls. reflexivity.
Qed.

(* DirEntry::has_exact_name, spelled out *)
Lemma has_exact_name_spec ev name :
  has_exact_name ev name = true <->
  (Lfn.ev_lfn ev <> [] /\ Lfn.ev_lfn ev = utf16_encode name) \/
  (Lfn.ev_lfn ev = [] /\ Lfn.ev_short ev = utf8_encode name).
Proof.
  unfold has_exact_name. destruct (Lfn.ev_lfn ev) as [|u us]; rewrite str_eqb_spec; split.
  - intros H. right. split; [reflexivity|exact H].
  - intros [[C _]|[_ H]]; [congruence|exact H].
  - intros H. left. split; [discriminate|exact H].
  - intros [[_ H]|[C _]]; [exact H|discriminate].
Qed.

(* the tail of rename_internal (write_entry of the renamed short entry, then the deletion loop over the slots of the listed
   source entry) for a source entry [ev] that is the decoded entry [e] with short slot [se], and a short name [a] that no
   OTHER entry of the directory carries ([a] may be the source's own short name) *)
Lemma rename_rewrite_refines k free fat32 ss ev dst a es ls ss' e se :
  dir_scan ss 0 [] fat32 = (es, ls, []) -> len_N ss < 134217728 -> Forall bytes_ok ss -> NoDup (map e_sfn es) ->
  In e es -> Lfn.ev_begin ev / 32 = e_first_slot e -> Lfn.ev_end ev / 32 = e_sfn_slot e + 1 ->
  slot_decode (nth (N.to_nat (e_sfn_slot e)) ss []) = SFile se -> sfn_is_volume se = false ->
  e_attr e mod 64 = se_attrs se -> e_size e = se_size se ->
  e_cluster e = (if fat32 then se_first_cluster_hi se * 65536 else 0) + se_first_cluster_lo se ->
  length a = 11%nat -> nth 0 a 0 <> 0 -> nth 0 a 0 <> 229 ->
  (forall x, In x es -> x <> e -> e_sfn x <> a) ->
  rename_rewrite k free ss ev dst a = (Ok tt, ss') ->
  exists ne es',
    dir_scan ss' 0 [] fat32 = (es', ls, []) /\
    e_lfn ne = (if is_dot_name dst then [] else utf16_encode dst) /\ e_lfn_ok ne = true /\ e_sfn ne = a /\
    e_attr ne = e_attr e mod 64 /\ e_size ne = e_size e /\ e_cluster ne = e_cluster e /\
    forall key, dir_map es' key =
      if list_eqb a key then Some ne else if list_eqb (e_sfn e) key then None else dir_map es key.
Proof.
  intros H0 Hb Hby ND Hin Hbg Hen Hdec Hvol Hat Hsz Hcl L1 L2 L3 Hnew H. unfold rename_rewrite in H.
  assert (entry_data ss ev = se) as Ed.
  { unfold entry_data, DIR_ENTRY_SIZE. rewrite Hen. replace (e_sfn_slot e + 1 - 1) with (e_sfn_slot e) by lia.
    rewrite Hdec. reflexivity. }
  assert (forall s1, delete_entry s1 ev = mark_deleted s1 (e_first_slot e) (e_sfn_slot e + 1)) as Edel
    by (intros s1; unfold delete_entry, DIR_ENTRY_SIZE; rewrite Hbg, Hen; reflexivity).
  rewrite Ed in H.
  destruct (write_entry k free ss dst (renamed se a)) as [w ss2] eqn:W.
  destruct w as [[p q]| | |]; cbn [lift] in H; try discriminate. rewrite Edel in H. injection H as <-.
  assert (bytes_ok (nth (N.to_nat (e_sfn_slot e)) ss [])) as Hbs.
  { destruct (nth_in_or_default (N.to_nat (e_sfn_slot e)) ss []) as [I|D].
    - rewrite Forall_forall in Hby. apply Hby. exact I.
    - rewrite D. constructor. }
  assert (sfn_live (renamed se a)) as Hlive.
  { constructor; [apply (decoded_fields_ok _ _ Hbs Hdec a L1)| | |]; unfold renamed; cbn [se_name se_attrs]; try assumption.
    unfold sfn_is_volume, ATTR_VOLUME_ID in Hvol. apply negb_false_iff in Hvol. apply N.eqb_eq in Hvol. exact Hvol. }
  destruct (rename_refines_map k free fat32 ss dst (renamed se a) es ls e p q ss2 H0 Hb Hin ND Hlive Hnew W)
    as [es' [ne [G1 [G2 [G3 [G4 [G5 [G6 [G7 G8]]]]]]]]]. cbn zeta in G1.
  cbn [renamed se_name se_attrs se_size se_first_cluster_hi se_first_cluster_lo] in *.
  exists ne, es'. split; [exact G1|]. split; [exact G3|]. split; [exact G5|]. split; [exact G2|].
  split; [rewrite G6; symmetry; exact Hat|]. split; [rewrite G7; symmetry; exact Hsz|].
  split; [rewrite G8; symmetry; exact Hcl|]. exact G4.
Qed.

(* the scan added by 7e5011a (D27): what its two answers mean *)
Lemma other_match_false upper oem ss ev dst : other_match upper oem ss ev dst = Ok false ->
  forall l other, dir_entries oem ss = Ok l -> In other l -> Lfn.ev_end other <> Lfn.ev_end ev ->
    matches upper oem dst other = false.
Proof.
  unfold other_match. intros H l other DE Hin Hne. rewrite DE in H. cbn [bind] in H. injection H as H.
  destruct (matches upper oem dst other) eqn:M; [|reflexivity]. exfalso.
  assert (existsb (fun o => negb (Lfn.ev_end o =? Lfn.ev_end ev) && matches upper oem dst o) l = true) as X.
  { apply existsb_exists. exists other. split; [exact Hin|]. rewrite M. apply N.eqb_neq in Hne. rewrite Hne. reflexivity. }
  congruence.
Qed.
Lemma other_match_true upper oem ss ev dst : other_match upper oem ss ev dst = Ok true ->
  exists l other, dir_entries oem ss = Ok l /\ In other l /\ Lfn.ev_end other <> Lfn.ev_end ev /\
    matches upper oem dst other = true.
Proof.
  unfold other_match. intros H. destruct (dir_entries oem ss) as [l| | |]; try discriminate. cbn [bind] in H. injection H as H.
  apply existsb_exists in H. destruct H as (other & Hin & H). apply andb_true_iff in H. destruct H as [H1 H2].
  exists l, other. split; [reflexivity|]. split; [exact Hin|]. split; [|exact H2].
  apply negb_true_iff in H1. apply N.eqb_neq. exact H1.
Qed.
Lemma other_match_total upper oem ss ev dst : exists b, other_match upper oem ss ev dst = Ok b.
Proof.
  unfold other_match, dir_entries. destruct (LfnProofs.read_dir_total Lfn.VecBuf oem true ss) as [l ->]. cbn [bind]. eexists. reflexivity.
Qed.

(* Dir::rename within one directory (rename_internal with dst_dir = self), on success.  The source [ev] found by the
   library's own matching is ONE decoded entry [e], and exactly one of three things happened:
   - the destination name is not in use: the decoding loses exactly e and gains exactly one entry with the new long name,
     a fresh legal alias [a], and the source's attributes, size and first cluster;
   - the destination name resolves to the source entry itself and the entry is stored under exactly this spelling
     (has_exact_name): nothing changed;
   - it resolves to the source entry itself under ANOTHER spelling (other case of the long name, or the entry's alias):
     the entry is rewritten - the map key (raw short name) of e now holds an entry with the new long name, the SAME
     short name and the source's attributes, size and first cluster; every other key is as before - and NO OTHER listed
     entry matches the new spelling (the scan added by 7e5011a, D27: otherwise the call fails with AlreadyExists).
     (Before 46d26a5 this case was a no-op: D22.)  [length (e_sfn e) = 11]: the source's short slot has its 11 name bytes, true of every
     32-byte slot. *)
Theorem rename_in_dir_refines upper oem k free fat32 ss src dst es ls ss' :
  dir_scan ss 0 [] fat32 = (es, ls, []) -> len_N ss < 134217728 -> Forall attrs_sane ss -> Forall bytes_ok ss ->
  NoDup (map e_sfn es) ->
  rename_in_dir upper oem k free ss src dst = (Ok tt, ss') ->
  exists ev e,
    find_entry upper oem ss src None = Ok ev /\ In e es /\ Lfn.ev_raw_name ev = e_sfn e /\
    ((exists a ne es',
        check_for_existence upper oem ss dst None = Ok (Fresh a) /\
        dir_scan ss' 0 [] fat32 = (es', ls, []) /\
        e_lfn ne = (if is_dot_name dst then [] else utf16_encode dst) /\ e_lfn_ok ne = true /\
        e_sfn ne = a /\ sfn_legal_b a = true /\ ~ In a (map e_sfn es) /\
        e_attr ne = e_attr e mod 64 /\ e_size ne = e_size e /\ e_cluster ne = e_cluster e /\
        forall key, dir_map es' key =
          if list_eqb a key then Some ne else if list_eqb (e_sfn e) key then None else dir_map es key) \/
     (exists dv,
        check_for_existence upper oem ss dst None = Ok (Exists dv) /\ Lfn.ev_end dv = Lfn.ev_end ev /\
        (has_exact_name ev dst = true -> ss' = ss) /\
        (has_exact_name ev dst = false -> length (e_sfn e) = 11%nat ->
         exists ne es',
           dir_scan ss' 0 [] fat32 = (es', ls, []) /\
           e_lfn ne = (if is_dot_name dst then [] else utf16_encode dst) /\ e_lfn_ok ne = true /\
           e_sfn ne = e_sfn e /\
           e_attr ne = e_attr e mod 64 /\ e_size ne = e_size e /\ e_cluster ne = e_cluster e /\
           forall key, dir_map es' key = if list_eqb (e_sfn e) key then Some ne else dir_map es key) /\
        (has_exact_name ev dst = false ->
         forall l other, dir_entries oem ss = Ok l -> In other l -> Lfn.ev_end other <> Lfn.ev_end ev ->
           matches upper oem dst other = false))).
Proof.
  intros H0 Hb Hs Hby ND H. unfold rename_in_dir, lift in H.
  destruct (find_entry upper oem ss src None) as [ev| | |] eqn:F; try discriminate.
  destruct (is_special ev); [discriminate|].
  (* the source entry *)
  destruct (find_entry_listed _ _ _ _ _ _ F) as [HLi _].
  destruct (listed_is_decoded fat32 oem ss es ls ev H0 Hs HLi)
    as [e [se [Hin [Hn [Hbg [Hen [Hdec [Hvol [Hf0 [Hf5 [Hat [Hsz [Hcl Hnm]]]]]]]]]]]]].
  exists ev, e. split; [reflexivity|]. split; [exact Hin|]. split; [exact Hn|].
  destruct (check_for_existence upper oem ss dst None) as [[dv|a]| | |] eqn:C; try discriminate.
  - (* the destination exists *)
    right. exists dv. destruct (Lfn.ev_end ev =? Lfn.ev_end dv) eqn:EE; cbn [negb] in H; [|discriminate].
    apply N.eqb_eq in EE. split; [reflexivity|]. split; [symmetry; exact EE|].
    destruct (has_exact_name ev dst) eqn:HX.
    + injection H as <-. split; [reflexivity|]. split; discriminate.
    + split; [discriminate|].
      destruct (other_match upper oem ss ev dst) as [[|]| | |] eqn:OM; try discriminate.
      split; [|intros _; exact (other_match_false upper oem ss ev dst OM)].
      intros _ L1. rewrite Hn in H.
      assert (forall x, In x es -> x <> e -> e_sfn x <> e_sfn e) as Hnew.
      { intros x Hx Hne C'. destruct (in_split _ _ Hin) as [l1 [l2 ->]].
        rewrite map_app in ND. cbn [map] in ND. apply NoDup_remove_2 in ND. apply ND. rewrite <- C', <- map_app.
        apply in_map. apply in_app_or in Hx. apply in_or_app. destruct Hx as [Hx|[Hx|Hx]]; [left; exact Hx|congruence|right; exact Hx]. }
      destruct (rename_rewrite_refines k free fat32 ss ev dst (e_sfn e) es ls ss' e se H0 Hb Hby ND Hin Hbg Hen Hdec Hvol
                  Hat Hsz Hcl) as [ne [es' [G1 [G2 [G3 [G4 [G5 [G6 [G7 G8]]]]]]]]]; try (rewrite Hnm; assumption); try assumption.
      exists ne, es'. repeat (split; [assumption|]).
      intros key. rewrite G8. destruct (list_eqb (e_sfn e) key); reflexivity.
  - (* a fresh name: the alias *)
    left.
    pose proof C as C0. unfold check_for_existence in C.
    destruct (validate_long_name dst) as [[]| | |] eqn:V; try discriminate. cbn [bind] in C.
    destruct (dir_entries oem ss) as [l| | |] eqn:DE; try discriminate. cbn [bind] in C.
    destruct (find (matches upper oem dst) l) as [xv|] eqn:Fd.
    { destruct (kind_check xv None); discriminate. }
    destruct (alias_for dst (map Lfn.ev_raw_name l) (S (length l / 9))) as [a'| | |] eqn:AF; try discriminate.
    cbn [bind] in C. injection C as ->.
    pose proof (sfn_legal _ _ _ _ AF) as HL. pose proof (sfn_unique _ _ _ _ AF) as HU.
    rewrite (dir_entries_sfns fat32 oem ss l es ls [] DE H0) in HU.
    destruct (sfn_legal_first a HL) as [L1 [L2 L3]].
    assert (forall x, In x es -> x <> e -> e_sfn x <> a) as Hnew.
    { intros x Hx _ C'. apply HU. rewrite <- C'. apply in_map. exact Hx. }
    destruct (rename_rewrite_refines k free fat32 ss ev dst a es ls ss' e se H0 Hb Hby ND Hin Hbg Hen Hdec Hvol
                Hat Hsz Hcl L1 L2 L3 Hnew H) as [ne [es' [G1 [G2 [G3 [G4 [G5 [G6 [G7 G8]]]]]]]]].
    exists a, ne, es'. split; [reflexivity|]. repeat (split; [assumption|]). exact G8.
Qed.

(* D20 at this layer, FIXED by d9f4de8 (write first, delete afterwards): a rename within one directory that does not
   succeed - whatever the reason: source not found, "." / "..", destination in use, rejected name, NotEnoughSpace of the
   write - leaves the decoding with exactly the same entries and labels, in particular the source entry; no slot that was in
   use has changed; a fixed root is byte-identical (a chain-backed directory that could not grow may have gained an orphan
   long-name run at its end: finding "nospace during entry write") *)
Theorem rename_failed_source_kept upper oem k free fat32 ss src dst es ls r ss' :
  dir_scan ss 0 [] fat32 = (es, ls, []) -> len_N ss < 134217728 ->
  rename_in_dir upper oem k free ss src dst = (r, ss') -> r <> Ok tt ->
  (k = FixedRoot -> ss' = ss) /\
  (exists iss, dir_scan ss' 0 [] fat32 = (es, ls, iss) /\ (iss = [] \/ exists i, iss = [DOrphanLfn i])) /\
  (length ss <= length ss')%nat /\
  (forall i s, nth_error ss i = Some s -> ~ free_slot s -> nth_error ss' i = Some s).
Proof.
  intros H0 Hb H Hr.
  assert (ss' = ss ->
          (k = FixedRoot -> ss' = ss) /\
          (exists iss, dir_scan ss' 0 [] fat32 = (es, ls, iss) /\ (iss = [] \/ exists i, iss = [DOrphanLfn i])) /\
          (length ss <= length ss')%nat /\
          (forall i s, nth_error ss i = Some s -> ~ free_slot s -> nth_error ss' i = Some s)) as Same.
  { intros ->. split; [reflexivity|]. split; [exists []; split; [exact H0|left; reflexivity]|]. split; [lia|]. intros i s Hi _. exact Hi. }
  assert (forall e a, rename_rewrite k free ss e dst a = (r, ss') ->
          (k = FixedRoot -> ss' = ss) /\
          (exists iss, dir_scan ss' 0 [] fat32 = (es, ls, iss) /\ (iss = [] \/ exists i, iss = [DOrphanLfn i])) /\
          (length ss <= length ss')%nat /\
          (forall i s, nth_error ss i = Some s -> ~ free_slot s -> nth_error ss' i = Some s)) as Rew.
  { intros e a HR. unfold rename_rewrite in HR.
    destruct (write_entry k free ss dst (renamed (entry_data ss e) a)) as [w ss1] eqn:W.
    assert (forall range, w <> Ok range) as Hw.
    { intros rg ->. cbn [lift] in HR. injection HR as <- _. apply Hr. reflexivity. }
    destruct (failed_write_keeps_entries k free fat32 ss dst _ es ls w ss1 H0 Hb W Hw) as [_ K].
    destruct w as [rg| | |]; [exfalso; apply (Hw rg); reflexivity| | |]; cbn [lift] in HR; injection HR as _ <-; exact K. }
  unfold rename_in_dir, lift in H.
  destruct (find_entry upper oem ss src None) as [ev| | |]; try (injection H as _ <-; apply Same; reflexivity).
  destruct (is_special ev); [injection H as _ <-; apply Same; reflexivity|].
  destruct (check_for_existence upper oem ss dst None) as [[dv|a]| | |]; try (injection H as _ <-; apply Same; reflexivity).
  - destruct (negb (Lfn.ev_end ev =? Lfn.ev_end dv)); [injection H as _ <-; apply Same; reflexivity|].
    destruct (has_exact_name ev dst); [injection H as _ <-; apply Same; reflexivity|].
    destruct (other_match upper oem ss ev dst) as [[|]| | |]; try (injection H as _ <-; apply Same; reflexivity).
    eapply Rew. exact H.
  - eapply Rew. exact H.
Qed.

(* ... and a move into another directory that does not succeed leaves the SOURCE directory byte-identical, and the
   destination directory as a failed write_entry leaves it *)
Theorem rename_across_failed_source_unchanged upper oem kd freed fat32 src_ss dst_ss src dst es ls r src' dst' :
  dir_scan dst_ss 0 [] fat32 = (es, ls, []) -> len_N dst_ss < 134217728 ->
  rename_across upper oem kd freed src_ss dst_ss src dst = (r, (src', dst')) -> r <> Ok tt ->
  src' = src_ss /\ (kd = FixedRoot -> dst' = dst_ss) /\
  (exists iss, dir_scan dst' 0 [] fat32 = (es, ls, iss) /\ (iss = [] \/ exists i, iss = [DOrphanLfn i])) /\
  (forall i s, nth_error dst_ss i = Some s -> ~ free_slot s -> nth_error dst' i = Some s).
Proof.
  intros H0 Hb H Hr.
  assert (src' = src_ss -> dst' = dst_ss ->
          src' = src_ss /\ (kd = FixedRoot -> dst' = dst_ss) /\
          (exists iss, dir_scan dst' 0 [] fat32 = (es, ls, iss) /\ (iss = [] \/ exists i, iss = [DOrphanLfn i])) /\
          (forall i s, nth_error dst_ss i = Some s -> ~ free_slot s -> nth_error dst' i = Some s)) as Same.
  { intros -> ->. split; [reflexivity|]. split; [reflexivity|]. split; [exists []; split; [exact H0|left; reflexivity]|].
    intros i s Hi _. exact Hi. }
  unfold rename_across in H.
  destruct (find_entry upper oem src_ss src None) as [ev| | |]; try (injection H as _ <- <-; apply Same; reflexivity).
  destruct (is_special ev); [injection H as _ <- <-; apply Same; reflexivity|].
  destruct (check_for_existence upper oem dst_ss dst None) as [[dv|a]| | |]; try (injection H as _ <- <-; apply Same; reflexivity).
  destruct (write_entry kd freed dst_ss dst (renamed (entry_data src_ss ev) a)) as [w d1] eqn:W.
  assert (forall range, w <> Ok range) as Hw.
  { intros rg ->. injection H as <- _ _. apply Hr. reflexivity. }
  destruct (failed_write_keeps_entries kd freed fat32 dst_ss dst _ es ls w d1 H0 Hb W Hw) as [_ [K1 [K2 [_ K4]]]].
  destruct w as [rg| | |]; [exfalso; apply (Hw rg); reflexivity| | |]; injection H as _ <- <-; repeat split; assumption.
Qed.

(* the three finite-map statements as one theorem, and the two slot-clause statements as one (Props/ states them in full) *)
Definition dir_refines_map := conj create_refines_map (conj remove_entry_refines rename_in_dir_refines).

(* without [attrs_sane] the library's remove takes a neighbouring slot with it: a slot with attribute byte 0x1F is a
   volume label for the decoder (bit 3) but a long-name slot for the library (low nibble 0xF), so it lies inside the
   offset range of the entry that follows it *)
Definition ex_weird : list N := [88; 32; 32; 32; 32; 32; 32; 32; 32; 32; 32; 31] ++ repeat_N 0 20.
Theorem remove_entry_insane_refuted :
  exists ss name ss' es ls,
    dir_scan ss 0 [] false = (es, ls, []) /\ ls <> [] /\
    remove_entry upper_ascii oem_decode_lossy ss name false = (Ok tt, ss') /\
    dir_scan ss' 0 [] false = ([], [], []) /\ ~ Forall attrs_sane ss.
Proof.
  exists [ex_weird; ex_live; zero_slot], [98]. eexists. eexists. eexists.
  split; [vm_compute; reflexivity|]. split; [discriminate|]. split; [vm_compute; reflexivity|]. split; [vm_compute; reflexivity|].
  intros C. inversion C as [|? ? C1 _]; subst. vm_compute in C1. discriminate.
Qed.
Definition slot_clauses_preserved := conj write_entry_keeps_wf mark_deleted_keeps_wf.
