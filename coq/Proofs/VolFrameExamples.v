(* VolFrameExamples.v: the frame theorems of Proofs/VolFrameProofs.v on the 64-sector FAT12 volume of Proofs/VolSessionExamples.v /
   VolSession2Examples.v (boot sector 0..511 with the status byte at 37, FAT copies at 512 and 1024, root region 1536..2047, data
   area from 2048, 60 clusters of 512 bytes, volume end at 32768; device fill byte 0xD1 behind it).
   For concrete sessions: the hypotheses of the theorems hold, and the EXTRACTED classifier (Spec/Regions.v classify, asked with
   the judge's own ownership map Regions.owners (abs im) of the image BEFORE the session) names, for the bytes that really
   differ, exactly the classes the theorems allow. *)
From Coq Require Import NArith ZArith List Lia Bool FMapPositive.
From FatVerif Require Import Model.Base Model.Str Model.Time Model.Table Model.Fat Model.FileM Model.Flags
  Model.VolDir Model.VolFile Model.VolSession Model.VolSession2 Model.VolRemove Model.VolStatus Spec.Image Spec.Abs Spec.Regions
  Proofs.TableProofs Proofs.FatProofs Proofs.FileProofs Proofs.VolDirProofs Proofs.VolDirFormat Proofs.VolFileProofs Proofs.VolSessionProofs
  Proofs.VolSessionExamples Proofs.VolSession2Proofs Proofs.VolSession2Examples Proofs.VolRemoveProofs Proofs.VolRemoveExamples
  Proofs.VolStatusProofs Proofs.VolStatusExamples Proofs.VolFrameProofs.
From FatVerif Require Spec.Wf Model.Lfn Proofs.TimeProofs.
Import ListNotations.
Open Scope N_scope.

(* ---------------------------------------------------------------- which bytes differ, and what the classifier calls them *)
Fixpoint offs_from (n : nat) (o : N) : list N := match n with O => [] | S k => o :: offs_from k (o + 1) end.

(* the offsets below [n] at which two images differ *)
Definition changed_offs (im im' : image) (n : nat) : list N :=
  filter (fun o => negb (img_get im' o =? img_get im o)) (offs_from n 0).

Fixpoint squeeze {A} (eqb : A -> A -> bool) (l : list A) : list A :=      (* consecutive duplicates removed *)
  match l with
  | a :: ((b :: _) as r) => if eqb a b then squeeze eqb r else a :: squeeze eqb r
  | _ => l
  end.

Definition owner_eqb (a b : owner) : bool :=
  match a, b with
  | OFree, OFree | OBad, OBad | OUnowned, OUnowned => true
  | ODir x, ODir y | OFile x, OFile y => x =? y
  | _, _ => false
  end.
Definition region_eqb (a b : region) : bool :=
  match a, b with
  | RStatus, RStatus | RBoot, RBoot | RFsInfo, RFsInfo | RRoot, RRoot | RTail, RTail | ROutside, ROutside => true
  | RFat x, RFat y => x =? y
  | RCluster c o, RCluster d p => (c =? d) && owner_eqb o p
  | _, _ => false
  end.

(* the regions, in device order, the classifier names for the bytes that differ - against the image BEFORE and its ownership map.
   35000 offsets: the whole volume and 2232 bytes of the device behind it *)
Definition changed_regions (im im' : image) : list region :=
  squeeze region_eqb (map (classify (parse_geom im) im (owners (abs im))) (changed_offs im im' 35000)).

(* ---------------------------------------------------------------- 1. two files written alternately, flushed (VolSession2Examples) *)
Definition ex2_final : image :=
  match vol_session2 ex_U ex_O false ex_vol_im ex_sfi ex2_reqs ex2_ops with Some (st, _) => s2_im st | None => img_empty 0 end.

(* the hypotheses of vol_session2_confined hold; its conclusion for this session *)
Example exf_session2_confined : Confined (parse_geom ex_vol_im) ex_vol_im [] false ex2_final.
Proof.
  destruct ex2_hyps as (Hg & Hb & Hfi & Hiss & _ & Hrq & Hops & _). cbv zeta in *.
  destruct (vol_session2 ex_U ex_O false ex_vol_im ex_sfi ex2_reqs ex2_ops) as [[st rs]|] eqn:E; [|vm_compute in E; discriminate].
  assert (ex2_final = s2_im st) as -> by (unfold ex2_final; rewrite E; reflexivity).
  apply (vol_session2_confined _ Hg false ex_U ex_O ex_vol_im ex_sfi ex2_reqs ex2_ops st rs eq_refl Hb Hfi Hiss); [|exact Hops|exact E].
  eapply Forall_impl; [|exact Hrq]. intros q [_ H]. exact H.
Qed.

(* what really changed: 1133 bytes, classified FAT copy 0, FAT copy 1, root region, clusters 2 3 4 5 - each FREE before the
   session for the judge's ownership map; nothing in the boot sector, nothing behind the volume; the copies are equal before and after *)
Example exf_session2_regions :
  changed_regions ex_vol_im ex2_final =
    [RFat 0; RFat 1; RRoot; RCluster 2 OFree; RCluster 3 OFree; RCluster 4 OFree; RCluster 5 OFree] /\
  length (changed_offs ex_vol_im ex2_final 35000) = 1133%nat /\
  fat_copies_equal (parse_geom ex_vol_im) ex_vol_im = true /\ fat_copies_equal (parse_geom ex_vol_im) ex2_final = true /\
  img_read ex2_final 512 3 = img_read ex_vol_im 512 3 /\ img_read ex2_final 1024 3 = img_read ex_vol_im 1024 3 /\
  g_volume_bytes (parse_geom ex_vol_im) = 32768 /\ reserved_len (ft_of (parse_geom ex_vol_im)) = 3.
Proof. vm_compute. repeat split; reflexivity. Qed.

(* ---------------------------------------------------------------- 2. a run from a state with OPEN, NON-EMPTY files: the session
   invariant holds after the four writes (a = 2 -> 4, b = 3 -> 5), so s2_run_confined applies to what follows with
   [own] = [2; 4; 3; 5]: a fills cluster 4 and grows into cluster 6 (free), b is truncated to 100 bytes (cluster 5 is freed), both are flushed *)
Definition exf_more : list s2op :=
  [SOp 0 (FWrite (repeat 8 600)) ex_clock2; SOp 0 (FWrite (repeat 8 600)) ex_clock2; SOp 1 (FSeek (FromStart 100)) ex_clock2; SOp 1 FTruncate ex_clock2; SFlush 0; SFlush 1].

Definition exf_st0 : s2state :=
  match s2_creates ex_U ex_O {| s2_im := ex_vol_im; s2_fi := ex_sfi; s2_hs := [] |} ex2_reqs with
  | Some st => st | None => {| s2_im := ex_vol_im; s2_fi := ex_sfi; s2_hs := [] |} end.
Definition exf_st1 : s2state := fst (s2_run (parse_geom ex_vol_im) false exf_st0 ex2_writes).
Definition exf_h (i : nat) : fhandle := nth i (map sh_h (s2_hs exf_st1)) empty_file.

(* closed facts about the two states, each checked by computation alone *)
Lemma exf_st0_eq : s2_creates ex_U ex_O {| s2_im := ex_vol_im; s2_fi := ex_sfi; s2_hs := [] |} ex2_reqs = Some exf_st0.
Proof. vm_compute. reflexivity. Qed.
Lemma exf_len : length (s2_hs exf_st1) = 2%nat.
Proof. vm_compute. reflexivity. Qed.
Lemma exf_nth i : (i < 2)%nat -> nth_error (map sh_h (s2_hs exf_st1)) i = Some (exf_h i).
Proof. intros H. destruct i as [|[|i]]; [vm_compute; reflexivity|vm_compute; reflexivity|lia]. Qed.
Lemma exf_first : h_first (exf_h 0) = Some 2 /\ h_first (exf_h 1) = Some 3.
Proof. vm_compute. split; reflexivity. Qed.
Lemma exf_chains :
  chain_from (parse_geom ex_vol_im) (s2_im exf_st1) 2 (Abs.chain_fuel (parse_geom ex_vol_im)) = Some [2; 4] /\
  chain_from (parse_geom ex_vol_im) (s2_im exf_st1) 3 (Abs.chain_fuel (parse_geom ex_vol_im)) = Some [3; 5].
Proof. vm_compute. split; reflexivity. Qed.
Lemma exf_clusters : g_clusters (parse_geom ex_vol_im) <= 131072.
Proof. vm_compute. discriminate. Qed.

(* (no conversion on the computed states: the kernel would evaluate the whole run lazily) *)
Lemma pair_fst_eq (A B : Type) (a a' : A) (b b' : B) : (a, b) = (a', b') -> a = a'.
Proof. intros H. exact (f_equal fst H). Qed.

Lemma exf_run_eq : s2_run (parse_geom ex_vol_im) false exf_st0 ex2_writes =
                   (exf_st1, snd (s2_run (parse_geom ex_vol_im) false exf_st0 ex2_writes)).
Proof. vm_compute. reflexivity. Qed.

Example exf_open_files_confined :
  exists gs es ls, Sess2Inv (parse_geom ex_vol_im) exf_st1 gs es ls /\ Forall s2op_ok exf_more /\ map gh_l gs = [[2; 4]; [3; 5]] /\
    Confined (parse_geom ex_vol_im) (s2_im exf_st1) [2; 4; 3; 5] false
             (s2_im (fst (s2_run (parse_geom ex_vol_im) false exf_st1 exf_more))).
Proof.
  destruct ex2_run_inv as (st0 & gs0 & es0 & ls & E & R0 & _).
  rewrite exf_st0_eq in E. pose proof (f_equal (fun o => match o with Some x => x | None => exf_st0 end) E) as E2.
  cbv beta iota in E2. subst st0. clear E.
  destruct ex2_hyps as (Hg & _ & _ & _ & _ & _ & Hops & _).
  assert (Forall s2op_ok ex2_writes) as Hw.
  { unfold ex2_ops in Hops. apply Forall_app in Hops. exact (proj1 Hops). }
  destruct (s2_run_inv (parse_geom ex_vol_im) Hg false ex_vol_im [] ex2_writes exf_st0 gs0 es0 ls Hw R0)
    as (st1 & rs & gs1 & es1 & Hr & R1 & _).
  rewrite exf_run_eq in Hr. pose proof (pair_fst_eq _ _ _ _ _ _ Hr) as E3. subst st1. clear Hr.
  pose proof (ri_inv _ _ _ _ _ _ _ R1) as Si1.
  assert (Forall s2op_ok exf_more) as Hm.
  { assert (TimeProofs.datetime_valid ex_clock2 = true) as Hc2 by (vm_compute; reflexivity).
    repeat constructor; try exact Hc2; intros b Hb; apply repeat_spec in Hb; subst b; reflexivity. }
  assert (map gh_l gs1 = [[2; 4]; [3; 5]]) as Hch.
  { (* the chains of the invariant are the chains the decoder walks from the handles' first clusters *)
    pose proof (si_mv _ _ _ _ _ Si1) as (_ & _ & ML & MI & _). rewrite !map_length in ML. rewrite exf_len in ML.
    destruct gs1 as [|g0 [|g1 [|g2 r]]]; try discriminate ML.
    assert (forall i gh f l, (i < 2)%nat -> nth_error (map gview [g0; g1]) i = Some (gview gh) -> h_first (exf_h i) = Some f ->
              chain_from (parse_geom ex_vol_im) (s2_im exf_st1) f (Abs.chain_fuel (parse_geom ex_vol_im)) = Some l -> gh_l gh = l) as Hdec.
    { intros i gh f l Hi Hgh Hfx Hcf. destruct (MI i _ _ (exf_nth i Hi) Hgh) as [I NB]. cbn [gview fst snd] in I, NB.
      destruct (decode_static _ (fixed_root_vgeom_ok _ Hg) (s2_im exf_st1) _ (exf_h i) (gh_sz gh) (gh_l gh) (embeds_world_of _ _ _) I NB) as [D _].
      rewrite Hfx in D.     (* (before unfolding: a match on a term that mentions the computed state would be evaluated at Qed) *)
      pose proof (chain_fuel_enough _ _ _ _ _ I (or_introl exf_clusters)) as Hfu. pose proof (D _ Hfu) as D'.
      assert (Some (gh_l gh) = Some l) as X by (rewrite <- D'; exact Hcf).
      exact (f_equal (fun o => match o with Some x => x | None => [] end) X). }
    cbn [map]. f_equal; [|f_equal].
    - exact (Hdec 0%nat g0 2 [2; 4] ltac:(lia) eq_refl (proj1 exf_first) (proj1 exf_chains)).
    - exact (Hdec 1%nat g1 3 [3; 5] ltac:(lia) eq_refl (proj2 exf_first) (proj2 exf_chains)). }
  exists gs1, es1, ls. split; [exact Si1|]. split; [exact Hm|]. split; [exact Hch|].
  destruct (s2_run_confined _ Hg false exf_more exf_st1 gs1 es1 ls Hm Si1) as (_ & _ & _ & C). rewrite Hch in C. exact C.
Qed.

(* ... and what the classifier says about that run, against the image and the decode BEFORE it (the files are still dirty there:
   the entries show size 0, so the ownership map does not know clusters 2..5 - they are allocated but unowned; the theorem's
   [own] is the handles' chains): FAT copies, root region, cluster 2 5 untouched, 4 (a's last cluster) and 6 (free) written *)
Example exf_open_files_regions :
  changed_regions (s2_im exf_st1) (s2_im (fst (s2_run (parse_geom ex_vol_im) false exf_st1 exf_more))) =
    [RFat 0; RFat 1; RRoot; RCluster 4 OUnowned; RCluster 6 OFree].
Proof. vm_compute. reflexivity. Qed.

(* ---------------------------------------------------------------- 2b. the one-file session of VolSessionExamples (create ; three writes
   straddling clusters 2 and 3 ; flush): the hypotheses of vol_session_confined hold *)
Example exf_session_confined :
  match vol_session ex_U ex_O false ex_vol_im ex_sfi ex_sname ex_vol_now ex_sops with
  | Some (st, _) => Confined (parse_geom ex_vol_im) ex_vol_im [] false (s_im st)
  | None => False
  end.
Proof.
  destruct ex_session_hyps as (Hg & Hb & Hfi & Hiss & _ & Hnow & Hops & Hclk & _). cbv zeta in *.
  destruct (vol_session ex_U ex_O false ex_vol_im ex_sfi ex_sname ex_vol_now ex_sops) as [[st rs]|] eqn:E; [|vm_compute in E; discriminate].
  exact (vol_session_confined _ Hg ex_U ex_O false ex_vol_im ex_sfi ex_sname ex_vol_now ex_sops st rs eq_refl Hb Hfi Hiss Hnow Hops Hclk E).
Qed.

(* ---------------------------------------------------------------- 3. the mounted session of VolStatusExamples: create ; three writes ;
   flush ; unmount - the hypotheses of mounted_session_confined hold; classes after each stage (the status byte while mounted,
   restored by unmount) *)
Definition exf_mounted (im0 : image) : option (image * image * image * image) :=
  match sesss_create ex_U ex_O im0 ex_sfi (vol_mount_status ex_g im0) ex_sname ex_vol_now with
  | Some (st1, s1) =>
    let '(st2, s2, _) := sesss_run ex_g false st1 s1 ex_sops in
    let st3 := fst (sesss_flush ex_g st2 s2) in
    Some (s_im st1, s_im st2, s_im st3, fst (vol_unmount ex_g (s_im st3) s2))
  | None => None
  end.

Example exf_mounted_confined :
  match exf_mounted ex_vol_im with
  | Some (a, b, c, d) => Confined ex_g ex_vol_im [] true a /\ Confined ex_g ex_vol_im [] true b /\
                         Confined ex_g ex_vol_im [] true c /\ Confined ex_g ex_vol_im [] true d
  | None => False
  end.
Proof.
  destruct ex_session_hyps as (Hg & Hb & Hfi & Hiss & _ & Hnow & Hops & Hclk & _). cbv zeta in *. fold ex_g in Hg, Hfi.
  unfold exf_mounted.
  destruct (sesss_create ex_U ex_O ex_vol_im ex_sfi (vol_mount_status ex_g ex_vol_im) ex_sname ex_vol_now) as [[st1 s1]|] eqn:E;
    [|vm_compute in E; discriminate].
  destruct (sesss_run ex_g false st1 s1 ex_sops) as [[st2 s2] rs] eqn:Er.
  exact (mounted_session_confined ex_g Hg ex_U ex_O false ex_vol_im ex_sfi ex_sname ex_vol_now ex_sops st1 s1 st2 s2 rs
           eq_refl Hb Hfi Hiss Hnow Hops Hclk E Er).
Qed.

Example exf_mounted_regions :
  match exf_mounted ex_vol_im with
  | Some (a, b, c, d) =>
    changed_regions ex_vol_im a = [RStatus; RRoot] /\
    changed_regions ex_vol_im b = [RStatus; RFat 0; RFat 1; RRoot; RCluster 2 OFree; RCluster 3 OFree] /\
    changed_regions ex_vol_im c = [RStatus; RFat 0; RFat 1; RRoot; RCluster 2 OFree; RCluster 3 OFree] /\
    changed_regions ex_vol_im d = [RFat 0; RFat 1; RRoot; RCluster 2 OFree; RCluster 3 OFree]
  | None => False
  end.
Proof. vm_compute. repeat split; reflexivity. Qed.

(* ---------------------------------------------------------------- 4. an EXISTING file (a.txt = clusters 2 -> 3, 515 bytes, on ex_rm_im):
   overwritten in place across the cluster boundary and grown by two write calls, mounted; then removed.  The classifier names the
   file's own clusters "owned by the file whose first cluster is 2", the new one "free"; remove touches the FAT copies and the root *)
Definition exf_over : option image :=
  match sess_open ex_g ex_rm_im 2 with
  | Some (h, _) =>
    let '((im1, _, _), _, _) := vols_run ex_g (ex_rm_im, ex_rm_fi, h) (vol_mount_status ex_g ex_rm_im)
        [FSeek (FromStart 510); FWrite [9; 9; 9; 9]; FSeek (FromEnd 0%Z); FWrite (repeat 8 600); FWrite (repeat 8 600)] in Some im1
  | None => None
  end.

Example exf_existing_file_regions :
  (match exf_over with
   | Some im1 => changed_regions ex_rm_im im1 = [RStatus; RFat 0; RFat 1; RCluster 2 (OFile 2); RCluster 3 (OFile 2); RCluster 4 OFree]
   | None => False end) /\
  (match vol_remove_file_root ex_U ex_O ex_rm_im ex_rm_fi ex_sname with
   | Some (Ok _, im', _) => changed_regions ex_rm_im im' = [RFat 0; RFat 1; RRoot]
   | _ => False end).
Proof. vm_compute. split; reflexivity. Qed.

(* the hypotheses of vol_remove_file_confined hold there (Proofs/VolRemoveExamples.ex_remove_hyps); its conclusion *)
Example exf_remove_confined :
  exists im' fi' l, vol_remove_file_root ex_U ex_O ex_rm_im ex_rm_fi ex_sname = Some (Ok tt, im', fi') /\
    chain_from (parse_geom ex_rm_im) ex_rm_im 2 (Abs.chain_fuel (parse_geom ex_rm_im)) = Some l /\
    Confined (parse_geom ex_rm_im) ex_rm_im l false im'.
Proof.
  destruct ex_remove_hyps as (Hg & Hb & Hfi & Hwf & Hsane & (ev & Hlk & Hnd & Hdot & Hcl & _) & _). cbv zeta in *.
  destruct (vol_remove_file_confined ex_U ex_O (fun l => l) ex_rm_im ex_rm_fi ex_sname ev Hg Hb Hfi Hwf Hsane Hlk Hnd Hdot)
    as (im' & fi' & l & E & _ & L1 & C).
  exists im', fi', l. split; [exact E|]. split; [rewrite <- Hcl; apply L1; rewrite Hcl; discriminate|exact C].
Qed.

(* ---------------------------------------------------------------- 5. C13: a read-only session on the volume with a.txt: two lookups (one
   fails), open, read 600 (gets the 512 bytes up to the cluster boundary), seek, read, drop, a call on a handle that does not exist - the image handed back IS the
   mounted image (ro_session_no_write; here also by computation), the reads returned the file *)
Definition exf_ro_calls : list ro_call :=
  [RoLookup ex_sname; RoLookup [98]; RoOpen 2; RoCall 0 (FRead 600) ex_clock2; RoCall 0 (FSeek (FromStart 3)) ex_clock2;
   RoCall 0 (FRead 5) ex_clock2; RoDrop 0; RoCall 3 (FRead 1) ex_clock2; RoOpen 1].

Example exf_read_only_session :
  forallb ro_ok exf_ro_calls = true /\
  (let '(im', fi', outs) := ro_session ex_g ex_U ex_O ex_rm_im ex_rm_fi exf_ro_calls in
   im' = ex_rm_im /\ fi' = ex_rm_fi /\
   (exists ev, outs = [OLookup (Ok ev); OLookup (Err ENotFound); OOpen true; OCall (RBytes (repeat 7 509 ++ [1; 2; 3]));
                       OCall (RPos 3); OCall (RBytes [7; 7; 7; 7; 7]); ONone; ONone; OOpen false])).
Proof.
  split; [reflexivity|].
  pose proof (ro_session_no_write ex_g ex_U ex_O ex_rm_im ex_rm_fi exf_ro_calls eq_refl) as [H1 H2].
  destruct (ro_session ex_g ex_U ex_O ex_rm_im ex_rm_fi exf_ro_calls) as [[im' fi'] outs] eqn:E. cbn [fst snd] in H1, H2.
  split; [exact H1|]. split; [exact H2|].
  assert (outs = snd (ro_session ex_g ex_U ex_O ex_rm_im ex_rm_fi exf_ro_calls)) as -> by (rewrite E; reflexivity).
  vm_compute. eexists. reflexivity.
Qed.
