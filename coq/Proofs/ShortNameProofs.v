(* ShortNameProofs.v: proofs about Model/ShortName.v (alias generator and the check_for_existence loop). *)
From Coq Require Import NArith ZArith Lia List Bool Arith.
From FatVerif Require Import Model.Base Model.Str Model.Slot Model.Name Model.ShortName Proofs.BaseProofs Proofs.NameProofs.
Import ListNotations.
Open Scope N_scope.
Ltac Zify.zify_post_hook ::= Z.to_euclidean_division_equations.

(* ---------- &str helpers: rfind returns a char boundary, slicing there cannot panic ------ *)

Lemma str_rfind_from_spec s c : forall off i,
  str_rfind_from s c off = Some i ->
  exists a b, s = a ++ c :: b /\ i = off + utf8_len a.
Proof.
  induction s as [|x r IH]; intros off i H; cbn [str_rfind_from] in H; [discriminate|].
  destruct (str_rfind_from r c (off + utf8_char_len x)) as [j|] eqn:E.
  - inversion H; subst j. destruct (IH _ _ E) as [a [b [H1 H2]]].
    exists (x :: a), b. split; [cbn [app]; congruence|]. cbn [utf8_len]. lia.
  - destruct (x =? c) eqn:Ex; [|discriminate]. apply N.eqb_eq in Ex. inversion H; subst.
    exists [], r. split; [reflexivity|]. cbn [utf8_len]. lia.
Qed.

Lemma str_split_at_app a : forall b, str_split_at (a ++ b) (utf8_len a) = Ok (a, b).
Proof.
  induction a as [|x a IH]; intros b.
  - cbn [app utf8_len]. destruct b; reflexivity.
  - cbn [app utf8_len str_split_at]. pose proof (utf8_char_len_pos x).
    replace (utf8_char_len x + utf8_len a =? 0) with false by (symmetry; apply N.eqb_neq; lia).
    replace (utf8_char_len x + utf8_len a <? utf8_char_len x) with false by (symmetry; apply N.ltb_ge; lia).
    replace (utf8_char_len x + utf8_len a - utf8_char_len x) with (utf8_len a) by lia.
    rewrite IH. reflexivity.
Qed.

Lemma utf8_len_app a b : utf8_len (a ++ b) = utf8_len a + utf8_len b.
Proof. induction a as [|x a IH]; cbn [app utf8_len]; [reflexivity|rewrite IH; lia]. Qed.

Lemma utf8_len_zero a : utf8_len a = 0 -> a = [].
Proof. destruct a as [|x a]; [reflexivity|]. cbn [utf8_len]. pose proof (utf8_char_len_pos x). lia. Qed.

(* ---------- copy_short_name_part ---------------------------------------------------------- *)

Lemma sfn_char_ok_ascii c : sfn_char_ok c = true -> c < 128.
Proof.
  unfold sfn_char_ok, sfn_punct. cbn [existsb]. intros H.
  repeat (apply orb_true_iff in H; destruct H as [H|H]);
    repeat (apply andb_true_iff in H; destruct H as [H ?]);
    repeat match goal with
           | [ X : (_ <=? _) = true |- _ ] => apply N.leb_le in X
           | [ X : (_ =? _) = true |- _ ] => apply N.eqb_eq in X
           end; try lia; try discriminate.
Qed.

Definition below (n : nat) : list N := map N.of_nat (seq 0 n).
Lemma below_In n c : c < N.of_nat n -> In c (below n).
Proof.
  intros H. unfold below. apply in_map_iff. exists (N.to_nat c). split; [lia|]. apply in_seq. lia.
Qed.

Lemma copied_byte_ok_table :
  forallb (fun c => implb (sfn_char_ok c) (sfn_byte_ok ((ascii_upper c) mod 256))) (below 128) = true.
Proof. vm_compute. reflexivity. Qed.

Lemma copied_byte_ok c :
  sfn_byte_ok ((ascii_upper (if sfn_char_ok c then c else 95)) mod 256) = true.
Proof.
  destruct (sfn_char_ok c) eqn:E; [|vm_compute; reflexivity].
  pose proof (sfn_char_ok_ascii c E) as Hc.
  pose proof copied_byte_ok_table as T. rewrite forallb_forall in T.
  specialize (T c (below_In 128 c Hc)). rewrite E in T. exact T.
Qed.

Lemma copy_part_spec src : forall room lossy,
  let '(bs, fits, l) := copy_part room src lossy in
  Forall (fun b => sfn_byte_ok b = true) bs /\ (length bs <= room)%nat /\ (lossy = true -> l = true).
Proof.
  induction src as [|c r IH]; intros room lossy; cbn [copy_part].
  - repeat split; [constructor|cbn [length]; lia|auto].
  - destruct room as [|room'].
    + repeat split; [constructor|cbn [length]; lia|auto].
    + destruct ((c =? 32) || (c =? 46)).
      * specialize (IH (S room') true). destruct (copy_part (S room') r true) as [[bs fits] l].
        destruct IH as [H1 [H2 H3]]. repeat split; auto.
      * specialize (IH room' (lossy || negb ((if sfn_char_ok c then c else 95) =? c))).
        destruct (copy_part room' r _) as [[bs fits] l].
        destruct IH as [H1 [H2 H3]]. repeat split.
        -- constructor; [apply copied_byte_ok|exact H1].
        -- cbn [length]. lia.
        -- intros Hl. apply H3. rewrite Hl. reflexivity.
Qed.

(* a non-empty source converted without loss leaves at least one byte *)
Lemma copy_part_nonempty src room :
  src <> [] -> let '(bs, fits, l) := copy_part (S room) src false in l = false -> bs <> [].
Proof.
  destruct src as [|c r]; [congruence|]. intros _. cbn [copy_part].
  destruct ((c =? 32) || (c =? 46)).
  - pose proof (copy_part_spec r (S room) true) as H. destruct (copy_part (S room) r true) as [[bs fits] l].
    destruct H as [_ [_ H]]. intros Hl. rewrite (H eq_refl) in Hl. discriminate.
  - destruct (copy_part room r _) as [[bs fits] l]. intros _. discriminate.
Qed.

(* ---------- ShortNameGenerator::new never panics; shape of its result ---------------------- *)

Definition byte_ok_list (l : list N) : Prop := Forall (fun b => sfn_byte_ok b = true) l.

Record sng_shape (g : sng) (bb eb : list N) : Prop := {
  sh_short : g_short g = pad_to 8 bb ++ pad_to 3 eb;
  sh_bb : byte_ok_list bb; sh_eb : byte_ok_list eb;
  sh_bl : (length bb <= 8)%nat; sh_el : (length eb <= 3)%nat;
  sh_len : g_basename_len g = len_N bb;
  sh_ck : g_chksum g < 65536 }.

Lemma sng_checksum_bound name : sng_checksum name < 65536.
Proof.
  unfold sng_checksum.
  assert (forall l a, a < 65536 ->
    fold_left (fun ck c => (ck / 2 + (ck * 32768) mod 65536 + c mod 65536) mod 65536) l a < 65536) as H.
  { induction l as [|c l IH]; intros x Hx; cbn [fold_left]; [exact Hx|]. apply IH. lia. }
  apply H. lia.
Qed.

Lemma sng_new_nodot name base :
  base = name ->
  exists g bb eb,
    (let '(bb, bfits, blossy) := copy_part 8 base false in
     do ext <- Ok (@None (list N * bool * bool));
     let '(eb, fits, lossy) := match ext with
                               | Some (eb, efits, elossy) => (eb, bfits && efits, blossy || elossy)
                               | None => ([], bfits, blossy)
                               end in
     Ok {| g_chksum := sng_checksum name; g_long_bitmap := 0; g_chk_bitmap := 0;
           g_name_fits := fits; g_lossy := lossy; g_exact := false;
           g_basename_len := len_N bb; g_short := pad_to 8 bb ++ pad_to 3 eb |}) = Ok g /\
    sng_shape g bb eb /\ g_long_bitmap g = 0 /\ g_chk_bitmap g = 0 /\ g_exact g = false /\
    (name <> [] -> g_lossy g = false -> bb <> []).
Proof.
  intros ->. pose proof (copy_part_spec name 8 false) as Hs.
  pose proof (copy_part_nonempty name 7) as Hn.
  destruct (copy_part 8 name false) as [[bb bf] bl]. cbn [bind].
  destruct Hs as [H1 [H2 _]].
  eexists. exists bb, []. split; [reflexivity|]. cbn [g_long_bitmap g_chk_bitmap g_exact g_lossy].
  repeat split; try reflexivity; try assumption; try constructor; cbn [length]; try lia.
  apply sng_checksum_bound.
Qed.

Theorem sng_new_total n :
  exists g bb eb, sng_new n = Ok g /\ sng_shape g bb eb /\
    g_long_bitmap g = 0 /\ g_chk_bitmap g = 0 /\ g_exact g = false /\
    (n <> [] -> g_lossy g = false -> bb <> []).
Proof.
  unfold sng_new. destruct (str_rfind n 46) as [i|] eqn:E.
  2:{ cbn [bind]. apply sng_new_nodot. reflexivity. }
  destruct (0 <? i) eqn:Ei.
  2:{ cbn [bind]. apply sng_new_nodot. reflexivity. }
  apply N.ltb_lt in Ei. unfold str_rfind in E.
  destruct (str_rfind_from_spec _ _ _ _ E) as [a [b [Hn Hi]]]. rewrite N.add_0_l in Hi.
  assert (a <> []) as Ha by (intros C; subst a; cbn [utf8_len] in Hi; lia).
  assert (str_split_at n i = Ok (a, 46 :: b)) as S1 by (subst n i; apply str_split_at_app).
  assert (str_split_at n (i + 1) = Ok (a ++ [46], b)) as S2.
  { subst n i. replace (utf8_len a + 1) with (utf8_len (a ++ [46])) by (rewrite utf8_len_app; reflexivity).
    replace (a ++ 46 :: b) with ((a ++ [46]) ++ b) by (rewrite <- app_assoc; reflexivity).
    apply str_split_at_app. }
  rewrite S1, S2. cbn [bind fst snd].
  pose proof (copy_part_spec a 8 false) as Hs. pose proof (copy_part_nonempty a 7 Ha) as Hne.
  destruct (copy_part 8 a false) as [[bb bf] bl]. cbn [bind].
  pose proof (copy_part_spec b 3 false) as He.
  destruct (copy_part 3 b false) as [[eb ef] el].
  destruct Hs as [H1 [H2 _]]. destruct He as [H3 [H4 _]].
  eexists. exists bb, eb. split; [reflexivity|]. cbn [g_long_bitmap g_chk_bitmap g_exact g_lossy].
  repeat split; try reflexivity; try assumption.
  - apply sng_checksum_bound.
  - intros _ Hl. apply orb_false_iff in Hl. destruct Hl as [Hl _]. apply Hne. exact Hl.
Qed.

(* ---------- add_existing in normal form --------------------------------------------------- *)

Definition long_digit (bl : N) (short sn : list N) : option N :=
  let lp := N.to_nat (N.min 6 bl) in
  if negb (byte_nth sn lp =? 126) then None
  else match to_digit10 (byte_nth sn (lp + 1)) with
       | None => None
       | Some d => if str_eqb (firstn lp sn) (firstn lp short) && str_eqb (skipn 8 sn) (skipn 8 short)
                   then Some d else None
       end.

Definition chk_digit (bl ck : N) (short sn : list N) : option N :=
  let sp := N.to_nat (N.min 2 bl) in
  if negb (byte_nth sn (sp + 4) =? 126) then None
  else match to_digit10 (byte_nth sn (sp + 5)) with
       | None => None
       | Some d => if str_eqb (firstn sp sn) (firstn sp short) && str_eqb (skipn 8 sn) (skipn 8 short)
                   then match parse_hex4 (sub sn sp 4) with
                        | Some v => if v =? ck then Some d else None
                        | None => None
                        end
                   else None
       end.

Definition upd (bm : N) (o : option N) : N := match o with Some d => set_bit bm d | None => bm end.

Lemma add_existing_eq g sn : add_existing g sn =
  {| g_chksum := g_chksum g;
     g_long_bitmap := upd (g_long_bitmap g) (long_digit (g_basename_len g) (g_short g) sn);
     g_chk_bitmap := upd (g_chk_bitmap g) (chk_digit (g_basename_len g) (g_chksum g) (g_short g) sn);
     g_name_fits := g_name_fits g; g_lossy := g_lossy g;
     g_exact := (if str_eqb sn (g_short g) then true else g_exact g);
     g_basename_len := g_basename_len g; g_short := g_short g |}.
Proof.
  destruct g as [ck lb cb nf lo ex bl sh].
  unfold add_existing, check_short, check_long, long_digit, chk_digit, upd.
  cbn [g_chksum g_long_bitmap g_chk_bitmap g_name_fits g_lossy g_exact g_basename_len g_short].
  destruct (str_eqb sn sh);
    cbn [g_chksum g_long_bitmap g_chk_bitmap g_name_fits g_lossy g_exact g_basename_len g_short];
    destruct (negb (byte_nth sn (N.to_nat (N.min 6 bl)) =? 126));
    cbn [g_chksum g_long_bitmap g_chk_bitmap g_name_fits g_lossy g_exact g_basename_len g_short];
    try destruct (to_digit10 (byte_nth sn (N.to_nat (N.min 6 bl) + 1)));
    cbn [g_chksum g_long_bitmap g_chk_bitmap g_name_fits g_lossy g_exact g_basename_len g_short];
    try destruct (str_eqb (firstn (N.to_nat (N.min 6 bl)) sn) (firstn (N.to_nat (N.min 6 bl)) sh) &&
                  str_eqb (skipn 8 sn) (skipn 8 sh));
    cbn [g_chksum g_long_bitmap g_chk_bitmap g_name_fits g_lossy g_exact g_basename_len g_short];
    destruct (negb (byte_nth sn (N.to_nat (N.min 2 bl) + 4) =? 126));
    cbn [g_chksum g_long_bitmap g_chk_bitmap g_name_fits g_lossy g_exact g_basename_len g_short];
    try reflexivity;
    destruct (to_digit10 (byte_nth sn (N.to_nat (N.min 2 bl) + 5)));
    cbn [g_chksum g_long_bitmap g_chk_bitmap g_name_fits g_lossy g_exact g_basename_len g_short];
    try reflexivity;
    destruct (str_eqb (firstn (N.to_nat (N.min 2 bl)) sn) (firstn (N.to_nat (N.min 2 bl)) sh) &&
              str_eqb (skipn 8 sn) (skipn 8 sh));
    cbn [g_chksum g_long_bitmap g_chk_bitmap g_name_fits g_lossy g_exact g_basename_len g_short];
    try reflexivity;
    destruct (parse_hex4 (sub sn (N.to_nat (N.min 2 bl)) 4));
    cbn [g_chksum g_long_bitmap g_chk_bitmap g_name_fits g_lossy g_exact g_basename_len g_short];
    try reflexivity;
    match goal with |- context [?v =? ck] => destruct (v =? ck) end; reflexivity.
Qed.

Lemma testbit_set_bit bm d i : N.testbit (set_bit bm d) i = N.testbit bm i || (d =? i).
Proof. unfold set_bit. rewrite N.lor_spec, N.pow2_bits_eqb. reflexivity. Qed.

Definition hits (o : option N) (i : N) : bool := match o with Some d => d =? i | None => false end.

Lemma testbit_upd bm o i : N.testbit (upd bm o) i = N.testbit bm i || hits o i.
Proof. destruct o; cbn [upd hits]; [apply testbit_set_bit|rewrite orb_false_r; reflexivity]. Qed.

(* the state after find_entry has fed all existing short names to add_existing *)
Lemma fold_add_existing ex : forall g,
  let G := fold_left add_existing ex g in
  g_chksum G = g_chksum g /\ g_short G = g_short g /\ g_basename_len G = g_basename_len g /\
  g_lossy G = g_lossy g /\ g_name_fits G = g_name_fits g /\
  (forall i, N.testbit (g_long_bitmap G) i =
             N.testbit (g_long_bitmap g) i ||
             existsb (fun sn => hits (long_digit (g_basename_len g) (g_short g) sn) i) ex) /\
  (forall i, N.testbit (g_chk_bitmap G) i =
             N.testbit (g_chk_bitmap g) i ||
             existsb (fun sn => hits (chk_digit (g_basename_len g) (g_chksum g) (g_short g) sn) i) ex) /\
  g_exact G = g_exact g || existsb (fun sn => str_eqb sn (g_short g)) ex.
Proof.
  induction ex as [|sn ex IH]; intros g; cbn zeta; cbn [fold_left existsb].
  - repeat split; intros; rewrite ?orb_false_r; reflexivity.
  - specialize (IH (add_existing g sn)). cbn zeta in IH.
    rewrite add_existing_eq in *.
    destruct IH as [H1 [H2 [H3 [H4 [H5 [H6 [H7 H8]]]]]]].
    cbn [g_chksum g_long_bitmap g_chk_bitmap g_name_fits g_lossy g_exact g_basename_len g_short] in *.
    repeat split; try assumption.
    + intros i. rewrite H6, testbit_upd, orb_assoc. reflexivity.
    + intros i. rewrite H7, testbit_upd, orb_assoc. reflexivity.
    + rewrite H8. destruct (str_eqb sn (g_short g)); cbn [orb]; [rewrite orb_true_r|]; reflexivity.
Qed.

(* ---------- legality of generated aliases ------------------------------------------------ *)

Lemma byte_ok_not_space b : sfn_byte_ok b = true -> (b =? SFN_PADDING) = false.
Proof.
  intros H. destruct (b =? SFN_PADDING) eqn:E; [|reflexivity].
  apply N.eqb_eq in E. subst b. vm_compute in H. discriminate.
Qed.

Lemma forallb_spaces k : forallb (N.eqb SFN_PADDING) (repeat_N SFN_PADDING k) = true.
Proof. induction k; cbn [repeat_N forallb]; [reflexivity|rewrite IHk; reflexivity]. Qed.

Lemma part_ok_pad l k : byte_ok_list l -> sfn_part_ok (l ++ repeat_N SFN_PADDING k) = true.
Proof.
  induction 1 as [|b l Hb Hl IH]; cbn [app].
  - destruct k; cbn [repeat_N sfn_part_ok]; [reflexivity|]. rewrite N.eqb_refl. apply forallb_spaces.
  - cbn [sfn_part_ok]. rewrite (byte_ok_not_space b Hb), Hb, IH. reflexivity.
Qed.

Lemma pad_to_length n l : (length l <= n)%nat -> length (pad_to n l) = n.
Proof. intros H. unfold pad_to. rewrite app_length, repeat_N_length. lia. Qed.

Lemma firstn_app_exact {A} (a b : list A) : firstn (length a) (a ++ b) = a.
Proof. rewrite firstn_app, firstn_all, Nat.sub_diag. cbn [firstn]. apply app_nil_r. Qed.

Lemma skipn_app_exact {A} (a b : list A) : skipn (length a) (a ++ b) = b.
Proof. rewrite skipn_app, skipn_all, Nat.sub_diag. reflexivity. Qed.

Lemma legal_of_parts X Y :
  byte_ok_list X -> byte_ok_list Y -> (1 <= length X <= 8)%nat -> (length Y <= 3)%nat ->
  sfn_legal_b (pad_to 8 X ++ pad_to 3 Y) = true.
Proof.
  intros HX HY HlX HlY. unfold sfn_legal_b.
  pose proof (pad_to_length 8 X ltac:(lia)) as L8. pose proof (pad_to_length 3 Y HlY) as L3.
  rewrite app_length, L8, L3. cbn [Nat.add Nat.eqb andb].
  rewrite <- L8 at 1. rewrite firstn_app_exact.
  rewrite <- L8 at 2. rewrite skipn_app_exact.
  unfold pad_to at 1 2. rewrite !part_ok_pad by assumption. cbn [andb].
  destruct X as [|x X]; [cbn [length] in HlX; lia|].
  inversion HX; subst. unfold pad_to, byte_nth. cbn [app nth].
  rewrite byte_ok_not_space by assumption. reflexivity.
Qed.

Lemma byte_ok_firstn n l : byte_ok_list l -> byte_ok_list (firstn n l).
Proof.
  intros H. revert n. induction H as [|b l Hb Hl IH]; intros [|n]; cbn [firstn]; try constructor; auto.
  apply IH.
Qed.

Lemma firstn_short_prefix g bb eb p :
  sng_shape g bb eb -> (p <= length bb)%nat -> firstn p (g_short g) = firstn p bb.
Proof.
  intros S Hp. rewrite (sh_short g bb eb S). unfold pad_to.
  rewrite firstn_app. rewrite app_length. replace (p - (length bb + length (repeat_N SFN_PADDING (8 - length bb))))%nat with 0%nat by lia.
  cbn [firstn]. rewrite app_nil_r. rewrite firstn_app. replace (p - length bb)%nat with 0%nat by lia.
  cbn [firstn]. apply app_nil_r.
Qed.

Lemma skipn8_short g bb eb : sng_shape g bb eb -> skipn 8 (g_short g) = pad_to 3 eb.
Proof.
  intros S. rewrite (sh_short g bb eb S).
  pose proof (pad_to_length 8 bb (sh_bl g bb eb S)) as L8.
  rewrite <- L8 at 1. apply skipn_app_exact.
Qed.

Lemma hex_digit_ok_table : forallb (fun d => sfn_byte_ok (hex_digit d)) (below 16) = true.
Proof. vm_compute. reflexivity. Qed.

Lemma hex_digit_ok d : d < 16 -> sfn_byte_ok (hex_digit d) = true.
Proof.
  intros H. pose proof hex_digit_ok_table as T. rewrite forallb_forall in T. apply T. apply below_In. exact H.
Qed.

Lemma u16_to_hex_ok x : byte_ok_list (u16_to_hex x).
Proof. unfold u16_to_hex. repeat constructor; apply hex_digit_ok; lia. Qed.

Lemma tail_digit_ok i : 1 <= i <= 9 -> sfn_byte_ok (48 + i) = true.
Proof.
  intros H. assert (forallb (fun i => sfn_byte_ok (48 + i)) (below 10) = true) as T by (vm_compute; reflexivity).
  rewrite forallb_forall in T. apply T. apply below_In. lia.
Qed.

Lemma first_free_range bm cands i : first_free bm cands = Some i -> In i cands /\ N.testbit bm i = false.
Proof.
  unfold first_free. intros H. apply find_some in H. destruct H as [H1 H2].
  split; [exact H1|]. apply negb_true_iff in H2. exact H2.
Qed.

Lemma first_free_none bm cands : first_free bm cands = None -> forall i, In i cands -> N.testbit bm i = true.
Proof.
  unfold first_free. intros H i Hi. pose proof (find_none _ _ H i Hi) as X. cbn beta in X.
  apply negb_false_iff in X. exact X.
Qed.

Lemma build_legal g bb eb i w :
  sng_shape g bb eb -> 1 <= i <= 9 -> sfn_legal_b (build_prefixed_name g i w) = true.
Proof.
  intros S Hi. unfold build_prefixed_name. rewrite (skipn8_short g bb eb S).
  rewrite (sh_len g bb eb S). unfold len_N.
  pose proof (sh_bb g bb eb S) as Hbb.
  destruct w.
  - rewrite (firstn_short_prefix g bb eb _ S) by lia.
    apply legal_of_parts; [| exact (sh_eb g bb eb S) | | exact (sh_el g bb eb S)].
    + unfold byte_ok_list. rewrite !Forall_app. repeat split.
      * apply byte_ok_firstn. exact Hbb.
      * apply u16_to_hex_ok.
      * apply Forall_cons; [vm_compute; reflexivity|]. apply Forall_cons; [apply tail_digit_ok; exact Hi|constructor].
    + rewrite !app_length, firstn_length. unfold u16_to_hex. cbn [length]. lia.
  - rewrite (firstn_short_prefix g bb eb _ S) by lia.
    apply legal_of_parts; [| exact (sh_eb g bb eb S) | | exact (sh_el g bb eb S)].
    + unfold byte_ok_list. rewrite !Forall_app. repeat split.
      * apply byte_ok_firstn. exact Hbb.
      * apply Forall_cons; [vm_compute; reflexivity|]. apply Forall_cons; [apply tail_digit_ok; exact Hi|constructor].
    + rewrite !app_length, firstn_length. cbn [length]. lia.
Qed.

Lemma cands_range i : In i [1; 2; 3; 4] \/ In i [1; 2; 3; 4; 5; 6; 7; 8; 9] -> 1 <= i <= 9.
Proof. cbn [In]. intros H. repeat (destruct H as [H|H]); subst; try lia; try contradiction. Qed.

(* static fields are the same in every state of the loop *)
Lemma shape_transfer g g' bb eb :
  sng_shape g bb eb -> g_short g' = g_short g -> g_basename_len g' = g_basename_len g -> g_chksum g' < 65536 ->
  sng_shape g' bb eb.
Proof.
  intros S H1 H2 H3. destruct S. constructor; try assumption; congruence.
Qed.

Lemma generate_legal g bb eb a :
  sng_shape g bb eb -> (g_lossy g = false -> bb <> []) -> sng_generate g = Some a -> sfn_legal_b a = true.
Proof.
  intros S Hd. unfold sng_generate.
  destruct (negb (g_lossy g) && g_name_fits g && negb (g_exact g)) eqn:E.
  - intros H. inversion H; subst a. rewrite (sh_short g bb eb S).
    apply andb_true_iff in E. destruct E as [E _]. apply andb_true_iff in E. destruct E as [E _].
    apply negb_true_iff in E. specialize (Hd E).
    apply legal_of_parts; try apply S.
    pose proof (sh_bl g bb eb S). destruct bb; [congruence|cbn [length] in *; lia].
  - destruct (first_free (g_long_bitmap g) [1; 2; 3; 4]) as [i|] eqn:F1.
    + intros H. inversion H; subst a. apply first_free_range in F1.
      eapply build_legal; [exact S|apply cands_range; left; tauto].
    + destruct (first_free (g_chk_bitmap g) [1; 2; 3; 4; 5; 6; 7; 8; 9]) as [i|] eqn:F2; [|discriminate].
      intros H. inversion H; subst a. apply first_free_range in F2.
      eapply build_legal; [exact S|apply cands_range; right; tauto].
Qed.

Lemma alias_loop_legal ex bb eb a : forall fuel g,
  sng_shape g bb eb -> (g_lossy g = false -> bb <> []) ->
  alias_loop g ex fuel = Ok a -> sfn_legal_b a = true.
Proof.
  induction fuel as [|f IH]; intros g S Hd; cbn [alias_loop]; [discriminate|].
  destruct (fold_add_existing ex g) as [H1 [H2 [H3 [H4 [H5 _]]]]]. cbn zeta in *.
  set (G := fold_left add_existing ex g) in *.
  assert (sng_shape G bb eb) as SG by (apply (shape_transfer g); try assumption; rewrite H1; apply S).
  destruct (sng_generate G) as [a'|] eqn:EG.
  - intros H. inversion H; subst a'. eapply generate_legal; [exact SG| |exact EG]. rewrite H4. exact Hd.
  - apply IH.
    + apply (shape_transfer G); try assumption; try reflexivity. cbn [next_iteration g_chksum]. lia.
    + cbn [next_iteration g_lossy]. rewrite H4. exact Hd.
Qed.

Theorem sfn_legal n ex fuel a : alias_for n ex fuel = Ok a -> sfn_legal_b a = true.
Proof.
  unfold alias_for. destruct (validate_long_name n) as [[]| | |] eqn:V; cbn [bind]; try discriminate.
  destruct (sng_new_total n) as [g [bb [eb [Hg [S [_ [_ [_ Hd]]]]]]]]. rewrite Hg. cbn [bind].
  assert (n <> []) as Hne.
  { intros C. subst n. vm_compute in V. discriminate. }
  apply (alias_loop_legal ex bb eb a fuel g S (Hd Hne)).
Qed.

(* ---------- uniqueness: an alias equal to an existing name would have set the bit tested -- *)

Lemma str_eqb_refl a : str_eqb a a = true.
Proof. apply str_eqb_spec. reflexivity. Qed.

Lemma to_digit10_tail i : 1 <= i <= 9 -> to_digit10 (48 + i) = Some i.
Proof.
  intros H. unfold to_digit10.
  replace (48 <=? 48 + i) with true by (symmetry; apply N.leb_le; lia).
  replace (48 + i <=? 57) with true by (symmetry; apply N.leb_le; lia).
  cbn [andb]. f_equal. lia.
Qed.

Lemma at_prefix (P : list N) x y T :
  byte_nth (P ++ x :: y :: T) (length P) = x /\
  byte_nth (P ++ x :: y :: T) (length P + 1) = y /\
  firstn (length P) (P ++ x :: y :: T) = P.
Proof.
  unfold byte_nth. repeat split.
  - replace (length P) with (length P + 0)%nat at 1 by lia. rewrite app_nth2_plus. reflexivity.
  - rewrite app_nth2_plus. reflexivity.
  - apply firstn_app_exact.
Qed.

Lemma at_prefix4 (P : list N) h0 h1 h2 h3 x y T :
  let a := P ++ [h0; h1; h2; h3] ++ x :: y :: T in
  byte_nth a (length P + 4) = x /\ byte_nth a (length P + 5) = y /\
  firstn (length P) a = P /\ sub a (length P) 4 = [h0; h1; h2; h3].
Proof.
  cbn zeta. unfold byte_nth, sub. repeat split.
  - rewrite app_nth2_plus. reflexivity.
  - rewrite app_nth2_plus. reflexivity.
  - apply firstn_app_exact.
  - rewrite skipn_app_exact. reflexivity.
Qed.

Lemma build_long_hits g bb eb i :
  sng_shape g bb eb -> 1 <= i <= 9 ->
  long_digit (g_basename_len g) (g_short g) (build_prefixed_name g i false) = Some i.
Proof.
  intros S Hi. unfold build_prefixed_name, long_digit.
  set (lp := N.to_nat (N.min 6 (g_basename_len g))).
  assert (lp <= length bb)%nat as Hlp by (unfold lp; rewrite (sh_len g bb eb S); unfold len_N; lia).
  assert (lp <= 6)%nat as Hlp6 by (unfold lp; lia).
  rewrite (firstn_short_prefix g bb eb lp S Hlp).
  remember (firstn lp bb) as P eqn:HP.
  assert (length P = lp) as HL by (subst P; rewrite firstn_length; lia).
  pose proof (sh_bl g bb eb S) as Hbl.
  assert (skipn 8 (pad_to 8 (P ++ [126; 48 + i]) ++ skipn 8 (g_short g)) = skipn 8 (g_short g)) as Hext.
  { rewrite <- (pad_to_length 8 (P ++ [126; 48 + i])) at 1 by (rewrite app_length; cbn [length]; lia).
    apply skipn_app_exact. }
  rewrite Hext.
  unfold pad_to. rewrite <- !app_assoc. cbn [app].
  rewrite <- HL.
  destruct (at_prefix P 126 (48 + i) (repeat_N SFN_PADDING (8 - length (P ++ [126; 48 + i])) ++ skipn 8 (g_short g)))
    as [A1 [A2 A3]].
  rewrite A1, A2, A3. cbn [N.eqb Pos.eqb negb]. rewrite to_digit10_tail by exact Hi.
  rewrite !str_eqb_refl. reflexivity.
Qed.

Lemma to_digit16_hex d : d < 16 -> to_digit16 (hex_digit d) = Some d.
Proof.
  intros H. unfold hex_digit, to_digit16. destruct (d <? 10) eqn:E.
  - apply N.ltb_lt in E.
    replace (48 <=? 48 + d) with true by (symmetry; apply N.leb_le; lia).
    replace (48 + d <=? 57) with true by (symmetry; apply N.leb_le; lia).
    cbn [andb]. f_equal. lia.
  - apply N.ltb_ge in E.
    replace (48 <=? 55 + d) with true by (symmetry; apply N.leb_le; lia).
    replace (55 + d <=? 57) with false by (symmetry; apply N.leb_gt; lia).
    replace (65 <=? 55 + d) with true by (symmetry; apply N.leb_le; lia).
    replace (55 + d <=? 70) with true by (symmetry; apply N.leb_le; lia).
    cbn [andb]. f_equal. lia.
Qed.

Lemma hex_digit_not_plus d : d < 16 -> (hex_digit d =? 43) = false.
Proof. intros H. unfold hex_digit. apply N.eqb_neq. destruct (d <? 10); lia. Qed.

(* parse_hex (u16_to_hex c) = c *)
Lemma parse_hex4_u16_to_hex c : c < 65536 -> parse_hex4 (u16_to_hex c) = Some c.
Proof.
  intros H. unfold u16_to_hex, parse_hex4.
  rewrite hex_digit_not_plus by lia. cbn [andb hex_digits].
  rewrite !to_digit16_hex by lia. f_equal. lia.
Qed.

Lemma build_chk_hits g bb eb i :
  sng_shape g bb eb -> 1 <= i <= 9 ->
  chk_digit (g_basename_len g) (g_chksum g) (g_short g) (build_prefixed_name g i true) = Some i.
Proof.
  intros S Hi. unfold build_prefixed_name, chk_digit.
  set (sp := N.to_nat (N.min 2 (g_basename_len g))).
  assert (sp <= length bb)%nat as Hsp by (unfold sp; rewrite (sh_len g bb eb S); unfold len_N; lia).
  assert (sp <= 2)%nat as Hsp2 by (unfold sp; lia).
  rewrite (firstn_short_prefix g bb eb sp S Hsp).
  remember (firstn sp bb) as P eqn:HP.
  assert (length P = sp) as HL by (subst P; rewrite firstn_length; lia).
  assert (skipn 8 (pad_to 8 ((P ++ u16_to_hex (g_chksum g)) ++ [126; 48 + i]) ++ skipn 8 (g_short g)) = skipn 8 (g_short g)) as Hext.
  { rewrite <- (pad_to_length 8 ((P ++ u16_to_hex (g_chksum g)) ++ [126; 48 + i])) at 1
      by (rewrite !app_length; unfold u16_to_hex; cbn [length]; lia).
    apply skipn_app_exact. }
  rewrite Hext.
  pose proof (parse_hex4_u16_to_hex (g_chksum g) (sh_ck g bb eb S)) as HPx.
  unfold u16_to_hex in *. unfold pad_to. rewrite <- !app_assoc. cbn [app].
  rewrite <- HL.
  match goal with |- context [P ++ ?h0 :: ?h1 :: ?h2 :: ?h3 :: 126 :: (48 + i) :: ?T] =>
    destruct (at_prefix4 P h0 h1 h2 h3 126 (48 + i) T) as [A1 [A2 [A3 A4]]] end.
  cbn [app] in A1, A2, A3, A4.
  rewrite A1, A2, A3, A4. cbn [N.eqb Pos.eqb negb]. rewrite to_digit10_tail by exact Hi.
  rewrite !str_eqb_refl. cbn [andb]. rewrite HPx, N.eqb_refl. reflexivity.
Qed.

Lemma existsb_In {A} (f : A -> bool) l x : In x l -> f x = true -> existsb f l = true.
Proof. intros H1 H2. apply existsb_exists. exists x. split; assumption. Qed.

Lemma generate_fresh g G ex bb eb a :
  sng_shape g bb eb -> G = fold_left add_existing ex g ->
  sng_generate G = Some a -> ~ In a ex.
Proof.
  intros S HG Hgen Hin.
  destruct (fold_add_existing ex g) as [H1 [H2 [H3 [H4 [H5 [H6 [H7 H8]]]]]]]. cbn zeta in *. rewrite <- HG in *.
  assert (sng_shape G bb eb) as SG by (apply (shape_transfer g); try assumption; rewrite H1; apply S).
  unfold sng_generate in Hgen.
  destruct (negb (g_lossy G) && g_name_fits G && negb (g_exact G)) eqn:E.
  - inversion Hgen; subst a. apply andb_true_iff in E. destruct E as [_ E]. apply negb_true_iff in E.
    rewrite H8 in E. apply orb_false_iff in E. destruct E as [_ E].
    rewrite (existsb_In _ ex (g_short G) Hin) in E; [discriminate|]. rewrite H2. apply str_eqb_refl.
  - destruct (first_free (g_long_bitmap G) [1; 2; 3; 4]) as [i|] eqn:F1.
    + inversion Hgen; subst a. apply first_free_range in F1. destruct F1 as [Fi Fb].
      rewrite H6 in Fb. apply orb_false_iff in Fb. destruct Fb as [_ Fb].
      rewrite (existsb_In _ ex _ Hin) in Fb; [discriminate|].
      rewrite <- H3, <- H2. rewrite (build_long_hits G bb eb i SG) by (apply cands_range; left; exact Fi).
      cbn [hits]. apply N.eqb_refl.
    + destruct (first_free (g_chk_bitmap G) [1; 2; 3; 4; 5; 6; 7; 8; 9]) as [i|] eqn:F2; [|discriminate].
      inversion Hgen; subst a. apply first_free_range in F2. destruct F2 as [Fi Fb].
      rewrite H7 in Fb. apply orb_false_iff in Fb. destruct Fb as [_ Fb].
      rewrite (existsb_In _ ex _ Hin) in Fb; [discriminate|].
      rewrite <- H3, <- H2, <- H1. rewrite (build_chk_hits G bb eb i SG) by (apply cands_range; right; exact Fi).
      cbn [hits]. apply N.eqb_refl.
Qed.

Lemma alias_loop_unique ex bb eb a : forall fuel g,
  sng_shape g bb eb -> alias_loop g ex fuel = Ok a -> ~ In a ex.
Proof.
  induction fuel as [|f IH]; intros g S; cbn [alias_loop]; [discriminate|].
  destruct (fold_add_existing ex g) as [H1 [H2 [H3 _]]]. cbn zeta in *.
  destruct (sng_generate (fold_left add_existing ex g)) as [a'|] eqn:EG.
  - intros H. inversion H; subst a'. eapply generate_fresh; [exact S|reflexivity|exact EG].
  - apply IH. apply (shape_transfer g); try assumption.
    cbn [next_iteration g_chksum]. lia.
Qed.

Theorem sfn_unique n ex fuel a : alias_for n ex fuel = Ok a -> ~ In a ex.
Proof.
  unfold alias_for. destruct (validate_long_name n) as [[]| | |]; cbn [bind]; try discriminate.
  destruct (sng_new_total n) as [g [bb [eb [Hg [S _]]]]]. rewrite Hg. cbn [bind].
  apply (alias_loop_unique ex bb eb a fuel g S).
Qed.

(* ---------- termination: every failed iteration needs nine existing names of its own ------ *)

(* what an existing name can contribute to the checksum-form bitmap: (parsed hex field, tail digit);
   it depends only on the prefix length, which never changes *)
Definition chk_key (bl : N) (sn : list N) : option (N * N) :=
  let sp := N.to_nat (N.min 2 bl) in
  match parse_hex4 (sub sn sp 4), to_digit10 (byte_nth sn (sp + 5)) with
  | Some v, Some d => Some (v, d)
  | _, _ => None
  end.

Lemma chk_digit_key bl ck short sn i :
  hits (chk_digit bl ck short sn) i = true -> chk_key bl sn = Some (ck, i).
Proof.
  unfold chk_digit, chk_key.
  destruct (negb (byte_nth sn (N.to_nat (N.min 2 bl) + 4) =? 126)); [discriminate|].
  destruct (to_digit10 (byte_nth sn (N.to_nat (N.min 2 bl) + 5))) as [d|]; [|discriminate].
  destruct (str_eqb _ _ && str_eqb _ _); [|discriminate].
  destruct (parse_hex4 (sub sn (N.to_nat (N.min 2 bl)) 4)) as [v|]; [|discriminate].
  destruct (v =? ck) eqn:E; [|discriminate]. cbn [hits]. intros H.
  apply N.eqb_eq in E. apply N.eqb_eq in H. congruence.
Qed.

Lemma alias_loop_not_err ex : forall fuel g, (exists a, alias_loop g ex fuel = Ok a) \/ alias_loop g ex fuel = OutOfFuel.
Proof.
  induction fuel as [|f IH]; intros g; cbn [alias_loop]; [right; reflexivity|].
  destruct (sng_generate _); [left; eexists; reflexivity|apply IH].
Qed.

Lemma alias_loop_fuel_mono ex a : forall fuel fuel' g,
  alias_loop g ex fuel = Ok a -> (fuel <= fuel')%nat -> alias_loop g ex fuel' = Ok a.
Proof.
  induction fuel as [|f IH]; intros fuel' g; cbn [alias_loop]; [discriminate|].
  intros H Hle. destruct fuel' as [|f']; [lia|]. cbn [alias_loop].
  destruct (sng_generate _); [exact H|]. apply IH; [exact H|lia].
Qed.

(* failed iterations: for every j < fuel and every tail digit 1..9 some existing name carries
   (checksum + j, digit) *)
Lemma out_of_fuel_witnesses ex : forall fuel g,
  g_chk_bitmap g = 0 -> g_chksum g < 65536 ->
  alias_loop g ex fuel = OutOfFuel ->
  forall j i, (j < fuel)%nat -> 1 <= i <= 9 ->
  exists sn, In sn ex /\ chk_key (g_basename_len g) sn = Some ((g_chksum g + N.of_nat j) mod 65536, i).
Proof.
  induction fuel as [|f IH]; intros g Hz Hc Hout j i Hj Hi; [lia|].
  cbn [alias_loop] in Hout.
  destruct (fold_add_existing ex g) as [H1 [H2 [H3 [_ [_ [_ [H7 _]]]]]]]. cbn zeta in *.
  set (G := fold_left add_existing ex g) in *.
  destruct (sng_generate G) as [a|] eqn:EG; [discriminate|].
  destruct j as [|j].
  - (* this iteration failed: all nine checksum tails are taken *)
    unfold sng_generate in EG.
    destruct (negb (g_lossy G) && g_name_fits G && negb (g_exact G)); [discriminate|].
    destruct (first_free (g_long_bitmap G) [1; 2; 3; 4]); [discriminate|].
    destruct (first_free (g_chk_bitmap G) [1; 2; 3; 4; 5; 6; 7; 8; 9]) eqn:F; [discriminate|].
    assert (In i [1; 2; 3; 4; 5; 6; 7; 8; 9]) as Hin.
    { assert (i = 1 \/ i = 2 \/ i = 3 \/ i = 4 \/ i = 5 \/ i = 6 \/ i = 7 \/ i = 8 \/ i = 9) as X by lia.
      cbn [In]. intuition. }
    pose proof (first_free_none _ _ F i Hin) as Hb.
    rewrite H7, Hz, N.bits_0 in Hb. cbn [orb] in Hb.
    apply existsb_exists in Hb. destruct Hb as [sn [Hsn Hh]].
    exists sn. split; [exact Hsn|]. apply chk_digit_key in Hh.
    rewrite Hh. f_equal. f_equal. cbn [N.of_nat]. rewrite N.add_0_r. symmetry. apply N.mod_small. exact Hc.
  - destruct (IH (next_iteration G)) with (j := j) (i := i) as [sn [Hsn Hk]]; try assumption; try lia.
    + reflexivity.
    + cbn [next_iteration g_chksum]. lia.
    + exists sn. split; [exact Hsn|]. cbn [next_iteration g_basename_len g_chksum] in Hk.
      rewrite H3 in Hk. rewrite Hk. f_equal. f_equal. rewrite H1. lia.
Qed.

(* counting *)
Definition omap {A B} (f : A -> option B) (l : list A) : list B :=
  flat_map (fun x => match f x with Some y => [y] | None => [] end) l.

Lemma omap_In {A B} (f : A -> option B) l x y : In x l -> f x = Some y -> In y (omap f l).
Proof.
  intros H1 H2. unfold omap. apply in_flat_map. exists x. split; [exact H1|]. rewrite H2. left. reflexivity.
Qed.

Lemma omap_length {A B} (f : A -> option B) l : (length (omap f l) <= length l)%nat.
Proof.
  induction l as [|x l IH]; cbn [omap flat_map length]; [lia|].
  rewrite app_length. fold (omap f l). destruct (f x); cbn [length]; lia.
Qed.

Lemma NoDup_map_inj_on {A B} (h : A -> B) l :
  (forall x y, In x l -> In y l -> h x = h y -> x = y) -> NoDup l -> NoDup (map h l).
Proof.
  intros Hinj Hnd. induction Hnd as [|x l Hx Hnd IH]; cbn [map]; constructor.
  - intros C. apply in_map_iff in C. destruct C as [y [Hy Hin]].
    assert (y = x) by (apply Hinj; [right; exact Hin|left; reflexivity|exact Hy]). subst y. contradiction.
  - apply IH. intros a b Ha Hb. apply Hinj; right; assumption.
Qed.

Lemma out_of_fuel_count ex fuel g :
  g_chk_bitmap g = 0 -> g_chksum g < 65536 -> N.of_nat fuel <= 65536 ->
  alias_loop g ex fuel = OutOfFuel -> (9 * fuel <= length ex)%nat.
Proof.
  intros Hz Hc Hf Hout.
  pose proof (out_of_fuel_witnesses ex fuel g Hz Hc Hout) as W.
  set (c := g_chksum g) in *. set (bl := g_basename_len g) in *.
  set (h := fun m : nat => ((c + N.of_nat (m / 9)) mod 65536, 1 + N.of_nat (m mod 9))).
  assert (NoDup (map h (seq 0 (9 * fuel)))) as ND.
  { apply NoDup_map_inj_on; [|apply seq_NoDup].
    intros x y Hx Hy E. apply in_seq in Hx. apply in_seq in Hy. unfold h in E.
    pose proof (f_equal fst E) as E1. pose proof (f_equal snd E) as E2. cbn [fst snd] in E1, E2.
    assert (x / 9 < fuel)%nat as Qx by (apply Nat.div_lt_upper_bound; lia).
    assert (y / 9 < fuel)%nat as Qy by (apply Nat.div_lt_upper_bound; lia).
    pose proof (Nat.div_mod x 9 ltac:(discriminate)) as Dx. pose proof (Nat.div_mod y 9 ltac:(discriminate)) as Dy.
    apply N.add_cancel_l in E2. apply Nat2N.inj in E2.
    remember (x / 9)%nat as qx. remember (y / 9)%nat as qy. remember (x mod 9)%nat as rx. remember (y mod 9)%nat as ry.
    assert (N.of_nat qx = N.of_nat qy) as E3 by lia.
    apply Nat2N.inj in E3. lia. }
  assert (incl (map h (seq 0 (9 * fuel))) (omap (chk_key bl) ex)) as IN.
  { intros p Hp. apply in_map_iff in Hp. destruct Hp as [m [Hm Hin]]. apply in_seq in Hin. subst p.
    destruct (W (m / 9)%nat (1 + N.of_nat (m mod 9))) as [sn [Hsn Hk]].
    - apply Nat.div_lt_upper_bound; lia.
    - pose proof (Nat.mod_upper_bound m 9). lia.
    - eapply omap_In; [exact Hsn|exact Hk]. }
  pose proof (NoDup_incl_length ND IN) as L. rewrite map_length, seq_length in L.
  pose proof (omap_length (chk_key bl) ex). lia.
Qed.

(* with at most 589823 entries in the directory the loop finds an alias within len/9 + 1 iterations *)
Theorem gen_terminates n ex :
  validate_long_name n = Ok tt -> N.of_nat (length ex) < 589824 ->
  exists a, alias_for n ex (S (length ex / 9)%nat) = Ok a.
Proof.
  intros V Hl. unfold alias_for. rewrite V. cbn [bind].
  destruct (sng_new_total n) as [g [bb [eb [Hg [Sh [_ [Hz _]]]]]]]. rewrite Hg. cbn [bind].
  destruct (alias_loop_not_err ex (S (length ex / 9)%nat) g) as [H|H]; [exact H|exfalso].
  pose proof (Nat.div_mod (length ex) 9%nat ltac:(discriminate)) as D.
  pose proof (Nat.mod_upper_bound (length ex) 9%nat ltac:(discriminate)) as M.
  remember (length ex / 9)%nat as q. remember (length ex mod 9)%nat as r.
  assert (N.of_nat (S q) <= 65536) as B by lia.
  pose proof (out_of_fuel_count ex _ g Hz (sh_ck g bb eb Sh) B H) as C.
  lia.
Qed.

Theorem alias_for_fuel_mono n ex fuel fuel' a :
  alias_for n ex fuel = Ok a -> (fuel <= fuel')%nat -> alias_for n ex fuel' = Ok a.
Proof.
  unfold alias_for. destruct (validate_long_name n) as [[]| | |]; cbn [bind]; try discriminate.
  destruct (sng_new n) as [g| | |]; cbn [bind]; try discriminate.
  apply alias_loop_fuel_mono.
Qed.

(* the whole name pipeline of create/rename never panics: validation is total, the generator's constructor is total
   on every string (empty, multi-byte first character, only dots...), and the loop result is an alias or fuel *)
Theorem name_pipeline_total n ex fuel :
  (validate_long_name n = Ok tt \/ validate_long_name n = Err EInvalidFileNameLength \/
   validate_long_name n = Err EUnsupportedFileNameCharacter) /\
  (exists g, sng_new n = Ok g) /\
  alias_for n ex fuel <> Panic /\
  (forall e, validate_long_name n = Err e -> alias_for n ex fuel = Err e).
Proof.
  split; [apply validate_spec|]. split.
  { destruct (sng_new_total n) as [g [bb [eb [Hg _]]]]. exists g. exact Hg. }
  unfold alias_for. split.
  - destruct (validate_spec n) as [_ [_ [_ [V|[V|V]]]]]; rewrite V; cbn [bind]; try discriminate.
    destruct (sng_new_total n) as [g [bb [eb [Hg _]]]]. rewrite Hg. cbn [bind].
    destruct (alias_loop_not_err ex fuel g) as [[a H]|H]; rewrite H; discriminate.
  - intros e V. rewrite V. reflexivity.
Qed.
