(* VolChainGrowExamples.v: concrete images for Proofs/VolChainGrowProofs.v (closed by vm_compute).
   ex_sub_im (Proofs/VolChainDirProofs.v): the 64-sector FAT12 volume (60 clusters of 512 bytes = 16 slots, device fill 0xD1) with a
   directory "D" in root slot 1, chain [2], holding "." and "..".
   ex_full_im: the same volume with a file "F" in root slot 2 that owns the chain 3 -> 4 -> ... -> 61 (every other cluster): no free
   cluster, no well-formedness issue. *)
From Coq Require Import NArith List Bool.
From FatVerif Require Import Model.Base Model.Str Model.Slot Model.Time Model.Table Model.Fat Model.Name Model.ShortName Model.DirSlots
  Model.VolDir Model.VolFile Model.VolChainDir Model.VolChainGrow Spec.Image Spec.Abs
  Proofs.TableProofs Proofs.FatProofs Proofs.VolDirProofs Proofs.VolDirFormat Proofs.VolFileProofs Proofs.VolChainDirProofs Proofs.VolChainGrowProofs.
From FatVerif Require Spec.Wf Proofs.TimeProofs.
Import ListNotations.
Open Scope N_scope.

Definition ex_fi0 : fsinfo := {| fi_free := None; fi_next := None; fi_dirty := false |}.     (* the latch after a FAT12/16 mount *)
Definition ex_long_name : str := repeat_N 120 200.                                            (* 200 x 'x': 16 long-name slots + 1 *)

(* a file F (root slot 2) owning clusters 3 .. 61 *)
Fixpoint ex_link (s : fstore) (c : N) (n : nat) : fstore :=
  match n with
  | O => match fat_set Fat12 s c Eoc with Ok s' => s' | _ => s end
  | S k => match fat_set Fat12 s c (Data (c + 1)) with Ok s' => ex_link s' (c + 1) k | _ => s end
  end.
Definition ex_file_slot : list N :=
  [70; 32; 32; 32; 32; 32; 32; 32; 32; 32; 32; 32; 0; 0; 0; 0; 33; 0; 33; 0; 0; 0; 0; 0; 33; 0; 3; 0; 0; 118; 0; 0].   (* size 59 * 512 = 0x7600 *)
Definition ex_full_im : image :=
  img_write (fs_img (ex_link (store_of (parse_geom ex_sub_im) ex_sub_im) 3 58)) (1536 + 64) ex_file_slot.

Definition ex_kids (im : image) :=
  map (fun n => match n with
                | NDir _ ch cs iss _ => (ch, map (fun c => len_N (e_lfn (node_entry c))) cs, iss)
                | NFile _ ch _ => (ch, [], [])
                | _ => (None, [], [])
                end) (v_root (abs im)).

(* ---- growth by one cluster: the 17-slot run starts at slot 2 of the 16-slot directory; cluster 3 is allocated (first free from
   the start: no hint), zeroed, linked behind cluster 2; the run straddles the two clusters (14 + 3 slots) *)
Lemma ex_grow_premises :
  chain_geom (parse_geom ex_sub_im) /\ FatProofs.bytes_ok ex_sub_im /\
  fi_inv fstore (val_ft (ft_of (parse_geom ex_sub_im))) (store_of (parse_geom ex_sub_im) ex_sub_im) ex_fi0 (g_clusters (parse_geom ex_sub_im)) /\
  Wf.wf_issues (fun x => x) ex_sub_im = [] /\
  (exists ed d1 d2, v_root (abs ex_sub_im) = [] ++ NDir ed (Some [2]) [NDot d1; NDot d2] [] [] :: []) /\
  chain_small (parse_geom ex_sub_im) [2] /\ TimeProofs.datetime_valid ex_vol_now = true /\ str_valid ex_long_name = true.
Proof.
  destruct ex_sub_premises as (Hg & _ & Hsm & Hwf & ed & d1 & d2 & Hr & _).
  split; [exact Hg|]. split; [apply bytes_ok_check; vm_compute; reflexivity|]. split; [split; exact I|]. split; [exact Hwf|].
  split; [exists ed, d1, d2; exact Hr|]. split; [exact Hsm|]. split; vm_compute; reflexivity.
Qed.

Example ex_grow_success :
  match vol_create_file_grow upper_ascii oem_decode_lossy ex_sub_im ex_fi0 [2] ex_long_name ex_vol_now with
  | (r, (im', fi', l')) =>
    r = Ok (Some (2, 19)) /\ l' = [2; 3] /\ fi' = {| fi_free := None; fi_next := Some 4; fi_dirty := true |} /\
    ex_kids ex_sub_im = [(Some [2], [0; 0], [])] /\ ex_kids im' = [(Some [2; 3], [0; 0; 200], [])] /\
    Wf.wf_issues (fun x => x) im' = [] /\
    count_free (parse_geom ex_sub_im) ex_sub_im = 59 /\ count_free (parse_geom ex_sub_im) im' = 58 /\
    fat_val (parse_geom ex_sub_im) ex_sub_im 3 = FFree /\ fat_val (parse_geom ex_sub_im) im' 2 = FNext 3 /\
    fat_val (parse_geom ex_sub_im) im' 3 = FEoc /\
    (* cluster 3 (device bytes 2560 ..): three written slots, then zeros (was the device fill 0xD1) *)
    map (fun k => img_get im' (2560 + 32 * k)) [0; 1; 2; 3; 15] = [2; 1; 88; 0; 0] /\ img_get ex_sub_im 2560 = 209 /\
    img_read im' 3072 4 = img_read ex_sub_im 3072 4
  end.
Proof. vm_compute. repeat split. Qed.

(* ---- the full volume: premises of vol_grow_nospace_residue, and what the call leaves *)
Lemma ex_full_premises :
  chain_geom (parse_geom ex_full_im) /\ FatProofs.bytes_ok ex_full_im /\
  fi_inv fstore (val_ft (ft_of (parse_geom ex_full_im))) (store_of (parse_geom ex_full_im) ex_full_im) ex_fi0 (g_clusters (parse_geom ex_full_im)) /\
  Wf.wf_issues (fun x => x) ex_full_im = [] /\
  (exists ed d1 d2 rb, v_root (abs ex_full_im) = [] ++ NDir ed (Some [2]) [NDot d1; NDot d2] [] [] :: rb) /\
  chain_small (parse_geom ex_full_im) [2] /\ TimeProofs.datetime_valid ex_vol_now = true /\
  count_free (parse_geom ex_full_im) ex_full_im = 0.
Proof.
  destruct ex_sub_premises as (Hg & _ & Hsm & _).
  assert (parse_geom ex_full_im = parse_geom ex_sub_im) as Epg by (vm_compute; reflexivity). rewrite Epg.
  split; [exact Hg|]. split; [apply bytes_ok_check; vm_compute; reflexivity|]. split; [split; exact I|].
  split; [vm_compute; reflexivity|]. split; [do 4 eexists; vm_compute; reflexivity|]. split; [exact Hsm|]. split; vm_compute; reflexivity.
Qed.

Example ex_grow_nospace :
  match vol_create_file_grow upper_ascii oem_decode_lossy ex_full_im ex_fi0 [2] ex_long_name ex_vol_now with
  | (r, (im', fi', l')) =>
    r = Err ENotEnoughSpace /\ l' = [2] /\ fi' = ex_fi0 /\
    ex_kids im' = [(Some [2], [0; 0], [DOrphanLfn 16]); (Some [3; 4; 5; 6; 7; 8; 9; 10; 11; 12; 13; 14; 15; 16; 17; 18; 19; 20; 21; 22; 23; 24; 25; 26; 27; 28; 29; 30;
                                                          31; 32; 33; 34; 35; 36; 37; 38; 39; 40; 41; 42; 43; 44; 45; 46; 47; 48; 49; 50; 51; 52; 53; 54; 55; 56; 57; 58; 59; 60; 61], [], [])] /\
    Wf.wf_issues (fun x => x) im' = [Wf.WOrphanLfn 2 16] /\
    count_free (parse_geom ex_full_im) im' = 0 /\
    img_read im' 512 1536 = img_read ex_full_im 512 1536 /\            (* both FAT copies and the root region *)
    (* slots 2 .. 15 of cluster 2 (device bytes 2048 ..): the first 14 long-name slots, orders 0x50, 15, .., 3 *)
    map (fun k => img_get im' (2048 + 32 * k)) [0; 1; 2; 3; 15] = [46; 46; 80; 15; 3] /\
    img_get ex_full_im (2048 + 64) = 0 /\
    (* a name of two slots ("a": one long-name slot + the short slot) fits into the free tail: nothing of the kind happens *)
    fst (vol_create_file_grow upper_ascii oem_decode_lossy ex_full_im ex_fi0 [2] [97] ex_vol_now) = Ok (Some (2, 4))
  end.
Proof. vm_compute. repeat split. Qed.

(* the claim "a failed create leaves the image unchanged" is FALSE of the faithful model: the witness *)
Theorem grow_nospace_unchanged_refuted :
  exists im fi l name now im' fi' l',
    chain_geom (parse_geom im) /\ FatProofs.bytes_ok im /\
    fi_inv fstore (val_ft (ft_of (parse_geom im))) (store_of (parse_geom im) im) fi (g_clusters (parse_geom im)) /\
    Wf.wf_issues (fun x => x) im = [] /\ chain_small (parse_geom im) l /\ TimeProofs.datetime_valid now = true /\
    (exists ra ed children labels rb, v_root (abs im) = ra ++ NDir ed (Some l) children [] labels :: rb) /\
    count_free (parse_geom im) im = 0 /\
    vol_create_file_grow upper_ascii oem_decode_lossy im fi l name now = (Err ENotEnoughSpace, (im', fi', l')) /\
    img_get im' (2048 + 64) <> img_get im (2048 + 64) /\ Wf.wf_issues (fun x => x) im' = [Wf.WOrphanLfn 2 16].
Proof.
  destruct ex_full_premises as (P1 & P2 & P3 & P4 & (ed & d1 & d2 & rb & P5) & P6 & P7 & P8).
  exists ex_full_im, ex_fi0, [2], ex_long_name, ex_vol_now.
  destruct (vol_create_file_grow upper_ascii oem_decode_lossy ex_full_im ex_fi0 [2] ex_long_name ex_vol_now) as [r [[im' fi'] l']] eqn:E.
  exists im', fi', l'.
  split; [exact P1|]. split; [exact P2|]. split; [exact P3|]. split; [exact P4|]. split; [exact P6|]. split; [exact P7|].
  split; [exists [], ed, [NDot d1; NDot d2], [], rb; exact P5|]. split; [exact P8|].
  pose proof ex_grow_nospace as X. rewrite E in X. destruct X as (-> & _ & _ & _ & W & _ & _ & B & Z & _).
  split; [reflexivity|]. split; [|exact W].
  assert (img_get im' (2048 + 64) = 80) as -> by (cbn [map] in B; injection B as _ _ B _ _; exact B). rewrite Z. discriminate.
Qed.

(* ---- NotEnoughSpace AFTER a partial growth: ex_part_im = the volume with D filled to 14 of 16 slots (four 3-slot entries) and the
   file F owning clusters 4 .. 61: exactly ONE cluster (3) is free.  A 255-character name needs 21 slots = the 2 free tail slots,
   a whole new cluster and 3 slots of a second one.  The first allocation succeeds (cluster 3: zeroed, linked, 16 long-name slots
   written), the second one fails: NotEnoughSpace - and the directory KEEPS the new cluster: chain [2; 3], free count 1 -> 0, the
   hint moved; the one finding is the orphan run of 18 slots. *)
Definition ex_file_slot4 : list N :=
  [70; 32; 32; 32; 32; 32; 32; 32; 32; 32; 32; 32; 0; 0; 0; 0; 33; 0; 33; 0; 0; 0; 0; 0; 33; 0; 4; 0; 0; 116; 0; 0].   (* cluster 4, size 58 * 512 *)
Definition ex_name3 (d : N) : str := repeat_N 97 13 ++ [48 + d].                                  (* 14 characters: 2 + 1 slots *)
Definition ex_part_im : image :=
  let im0 := img_write (fs_img (ex_link (store_of (parse_geom ex_sub_im) ex_sub_im) 4 57)) (1536 + 64) ex_file_slot4 in
  fold_left (fun im d => fst (fst (snd (vol_create_file_grow upper_ascii oem_decode_lossy im ex_fi0 [2] (ex_name3 d) ex_vol_now))))
            [0; 1; 2; 3] im0.
Definition ex_name255 : str := repeat_N 120 255.

Lemma ex_part_premises :
  chain_geom (parse_geom ex_part_im) /\ FatProofs.bytes_ok ex_part_im /\
  fi_inv fstore (val_ft (ft_of (parse_geom ex_part_im))) (store_of (parse_geom ex_part_im) ex_part_im) ex_fi0 (g_clusters (parse_geom ex_part_im)) /\
  Wf.wf_issues (fun x => x) ex_part_im = [] /\
  (exists ed children rb, v_root (abs ex_part_im) = [] ++ NDir ed (Some [2]) children [] [] :: rb) /\
  chain_small (parse_geom ex_part_im) [2] /\ TimeProofs.datetime_valid ex_vol_now = true /\
  count_free (parse_geom ex_part_im) ex_part_im = 1.
Proof.
  destruct ex_sub_premises as (Hg & _ & Hsm & _).
  assert (parse_geom ex_part_im = parse_geom ex_sub_im) as Epg by (vm_compute; reflexivity). rewrite Epg.
  split; [exact Hg|]. split; [apply bytes_ok_check; vm_compute; reflexivity|]. split; [split; exact I|].
  split; [vm_compute; reflexivity|]. split; [do 3 eexists; vm_compute; reflexivity|]. split; [exact Hsm|]. split; vm_compute; reflexivity.
Qed.

Example ex_grow_partial_nospace :
  match vol_create_file_grow upper_ascii oem_decode_lossy ex_part_im ex_fi0 [2] ex_name255 ex_vol_now with
  | (r, (im', fi', l')) =>
    r = Err ENotEnoughSpace /\ l' = [2; 3] /\ fi' = {| fi_free := None; fi_next := Some 4; fi_dirty := true |} /\
    count_free (parse_geom ex_part_im) im' = 0 /\
    fat_val (parse_geom ex_part_im) ex_part_im 3 = FFree /\ fat_val (parse_geom ex_part_im) im' 2 = FNext 3 /\
    fat_val (parse_geom ex_part_im) im' 3 = FEoc /\
    Wf.wf_issues (fun x => x) im' = [Wf.WOrphanLfn 2 32] /\
    map (fun x => snd (fst x)) (ex_kids im') = map (fun x => snd (fst x)) (ex_kids ex_part_im)
  end.
Proof. vm_compute. repeat split. Qed.

Theorem grow_nospace_keeps_count_refuted :
  exists im fi l name now im' fi' l',
    chain_geom (parse_geom im) /\ FatProofs.bytes_ok im /\
    fi_inv fstore (val_ft (ft_of (parse_geom im))) (store_of (parse_geom im) im) fi (g_clusters (parse_geom im)) /\
    Wf.wf_issues (fun x => x) im = [] /\ chain_small (parse_geom im) l /\ TimeProofs.datetime_valid now = true /\
    (exists ra ed children labels rb, v_root (abs im) = ra ++ NDir ed (Some l) children [] labels :: rb) /\
    vol_create_file_grow upper_ascii oem_decode_lossy im fi l name now = (Err ENotEnoughSpace, (im', fi', l')) /\
    count_free (parse_geom im) im = 1 /\ count_free (parse_geom im) im' = 0 /\ l' = l ++ [3] /\
    Wf.wf_issues (fun x => x) im' = [Wf.WOrphanLfn 2 32].
Proof.
  destruct ex_part_premises as (P1 & P2 & P3 & P4 & (ed & ch & rb & P5) & P6 & P7 & P8).
  exists ex_part_im, ex_fi0, [2], ex_name255, ex_vol_now.
  destruct (vol_create_file_grow upper_ascii oem_decode_lossy ex_part_im ex_fi0 [2] ex_name255 ex_vol_now) as [r [[im' fi'] l']] eqn:E.
  exists im', fi', l'.
  split; [exact P1|]. split; [exact P2|]. split; [exact P3|]. split; [exact P4|]. split; [exact P6|]. split; [exact P7|].
  split; [exists [], ed, ch, [], rb; exact P5|].
  pose proof ex_grow_partial_nospace as X. rewrite E in X. destruct X as (-> & -> & _ & C & _ & _ & _ & W & _).
  split; [reflexivity|]. split; [exact P8|]. split; [exact C|]. split; [reflexivity|exact W].
Qed.
