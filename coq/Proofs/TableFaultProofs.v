(* TableFaultProofs.v: error transparency of the chain layer (C09) for ANY store whose accesses may fail:
   a failing access is reported as that I/O error; NotEnoughSpace is produced only by a scan that really
   saw every entry occupied; a failing access never makes free/truncate spin. *)
From Coq Require Import NArith ZArith Lia List Bool.
From FatVerif Require Import Model.Base Model.Table Proofs.TableProofs.
Open Scope N_scope.

Section AnyStore.
Variable T : Type.
Variable get : T -> N -> res fatv.
Variable set : T -> N -> fatv -> res T.
(* the device reports I/O errors only; it never panics and has no fuel *)
Hypothesis get_kind : forall t c, match get t c with Ok _ => True | Err e => e = EIo | Panic => False | OutOfFuel => False end.
Hypothesis set_kind : forall t c v, match set t c v with Ok _ => True | Err e => e = EIo | Panic => False | OutOfFuel => False end.

Definition all_occupied (t : T) (lo hi : N) : Prop :=
  forall x, lo <= x < hi -> exists v, get t x = Ok v /\ v <> Free.

Lemma find_free_from_faulty t : forall n c,
  match find_free_from T get t c n with
  | Ok r => c <= r < c + N.of_nat n /\ get t r = Ok Free
  | Err e => e = EIo \/ (e = ENotEnoughSpace /\ all_occupied t c (c + N.of_nat n))
  | Panic => False
  | OutOfFuel => False
  end.
Proof.
  induction n as [|n IH]; intros c; cbn [find_free_from].
  - right. split; [reflexivity|]. intros x Hx. lia.
  - pose proof (get_kind t c) as Hg. destruct (get t c) as [v|e| |] eqn:Eg; cbn [bind]; try contradiction.
    + assert (v = Free \/ v <> Free) as [->|Hnf] by (destruct v; auto; right; discriminate).
      * split; [lia|exact Eg].
      * specialize (IH (c + 1)).
        assert (match v with Free => Ok c | _ => find_free_from T get t (c + 1) n end = find_free_from T get t (c + 1) n) as ->
          by (destruct v; try reflexivity; contradiction).
        destruct (find_free_from T get t (c + 1) n) as [r|e| |]; try exact IH.
        -- destruct IH as (Hr & Hf). split; [lia|exact Hf].
        -- destruct IH as [->|(-> & Hocc)]; [left; reflexivity|right]. split; [reflexivity|].
           intros x Hx. destruct (N.eq_dec x c) as [->|Hne]; [exists v; split; assumption|]. apply Hocc. lia.
    + left. exact Hg.
Qed.

Lemma find_free_faulty t s e :
  match find_free T get t s e with
  | Ok r => s <= r < e /\ get t r = Ok Free
  | Err er => er = EIo \/ (er = ENotEnoughSpace /\ all_occupied t s e)
  | Panic => False
  | OutOfFuel => False
  end.
Proof.
  unfold find_free. pose proof (find_free_from_faulty t (N.to_nat (e - s)) s) as H.
  destruct (find_free_from T get t s (N.to_nat (e - s))) as [r|er| |]; try exact H.
  - destruct H as (Hr & Hf). split; [lia|exact Hf].
  - destruct H as [H|(H & Hocc)]; [left; exact H|right]. split; [exact H|]. intros x Hx. apply Hocc. lia.
Qed.

(* alloc_cluster: an error is the device's I/O error, or NotEnoughSpace - and then every entry of the data
   range was read successfully and found occupied (an I/O error is never turned into NotEnoughSpace) *)
Theorem alloc_error_transparent t prev hint total e :
  hint_ok hint ->
  alloc_cluster T get set t prev hint total = Err e ->
  e = EIo \/ (e = ENotEnoughSpace /\ all_occupied t 2 (total + 2)).
Proof.
  intros Hh. unfold alloc_cluster, RESERVED_FAT_ENTRIES.
  set (start := match hint with Some n => if n <? total + 2 then n else 2 | None => 2 end).
  assert (2 <= start /\ (start < total + 2 \/ start = 2)) as [Hs2 Hse].
  { unfold start. destruct hint as [n|]; [|lia]. cbn [hint_ok] in Hh.
    destruct (n <? total + 2) eqn:E; [apply N.ltb_lt in E; lia|lia]. }
  pose proof (find_free_faulty t start (total + 2)) as H1.
  destruct (find_free T get t start (total + 2)) as [r|e1| |]; try contradiction.
  - cbn [bind]. pose proof (set_kind t r Eoc) as Hs. destruct (set t r Eoc) as [t1|e2| |]; cbn [bind]; try contradiction.
    + destruct prev as [p|]; cbn [bind]; [|discriminate].
      pose proof (set_kind t1 p (Data r)) as Hs2'. destruct (set t1 p (Data r)) as [t2|e3| |]; cbn [bind]; try contradiction; [discriminate|].
      intros E; injection E as <-. left; exact Hs2'.
    + intros E; injection E as <-. left; exact Hs.
  - destruct H1 as [->|(-> & Hocc1)].
    + cbn [bind]. intros E; injection E as <-. left; reflexivity.
    + destruct (2 <? start) eqn:E2.
      * apply N.ltb_lt in E2. pose proof (find_free_faulty t 2 start) as H2.
        destruct (find_free T get t 2 start) as [r|e2| |]; try contradiction.
        -- cbn [bind]. pose proof (set_kind t r Eoc) as Hs. destruct (set t r Eoc) as [t1|e3| |]; cbn [bind]; try contradiction.
           ++ destruct prev as [p|]; cbn [bind]; [|discriminate].
              pose proof (set_kind t1 p (Data r)) as Hs2'. destruct (set t1 p (Data r)) as [t2|e4| |]; cbn [bind]; try contradiction; [discriminate|].
              intros E; injection E as <-. left; exact Hs2'.
           ++ intros E; injection E as <-. left; exact Hs.
        -- cbn [bind]. intros E; injection E as <-.
           destruct H2 as [->|(-> & Hocc2)]; [left; reflexivity|right]. split; [reflexivity|].
           intros x Hx. destruct (N.lt_ge_cases x start); [apply Hocc2; lia|apply Hocc1; lia].
      * apply N.ltb_ge in E2. cbn [bind]. intros E; injection E as <-. right. split; [reflexivity|].
        intros x Hx. apply Hocc1. lia.
Qed.

Theorem alloc_never_panics t prev hint total :
  alloc_cluster T get set t prev hint total <> Panic /\ alloc_cluster T get set t prev hint total <> OutOfFuel.
Proof.
  unfold alloc_cluster, RESERVED_FAT_ENTRIES.
  set (start := match hint with Some n => if n <? total + 2 then n else 2 | None => 2 end).
  pose proof (find_free_faulty t start (total + 2)) as H1.
  assert (forall r, (do t1 <- set t r Eoc; do t2 <- match prev with Some p => set t1 p (Data r) | None => Ok t1 end; Ok (t2, r)) <> Panic
                 /\ (do t1 <- set t r Eoc; do t2 <- match prev with Some p => set t1 p (Data r) | None => Ok t1 end; Ok (t2, r)) <> OutOfFuel) as Htail.
  { intros r. pose proof (set_kind t r Eoc) as Hs. destruct (set t r Eoc) as [t1|e2| |]; cbn [bind]; try contradiction; [|split; discriminate].
    destruct prev as [p|]; cbn [bind]; [|split; discriminate].
    pose proof (set_kind t1 p (Data r)) as Hs2. destruct (set t1 p (Data r)) as [t2|e3| |]; cbn [bind]; try contradiction; split; discriminate. }
  destruct (find_free T get t start (total + 2)) as [r|e1| |]; try contradiction.
  - cbn [bind]. apply Htail.
  - destruct e1; cbn [bind]; try (split; discriminate).
    destruct (2 <? start); [|cbn [bind]; split; discriminate].
    pose proof (find_free_faulty t 2 start) as H2.
    destruct (find_free T get t 2 start) as [r|e2| |]; try contradiction; cbn [bind]; [apply Htail|split; discriminate].
Qed.

(* freeing / truncating a chain: a failing FAT read of the current cluster is returned at once (no entry is
   written, nothing spins), whatever the fuel *)
Theorem ci_free_head_error t c k e :
  get t c = Err e -> ci_free T get set t (ci_new c) (S k) = Err e.
Proof.
  intros Hg. unfold ci_new. cbn [ci_free ci_cluster]. unfold ci_next. cbn [ci_err ci_cluster].
  unfold get_next. rewrite Hg. cbn [bind]. reflexivity.
Qed.

Theorem ci_truncate_head_error t c k e :
  get t c = Err e -> ci_truncate T get set t (ci_new c) k = Err e.
Proof.
  intros Hg. unfold ci_truncate, ci_new. cbn [ci_cluster]. unfold ci_next. cbn [ci_err ci_cluster].
  unfold get_next. rewrite Hg. cbn [bind]. reflexivity.
Qed.

(* every error of free is the device's *)
Theorem ci_free_error_kind : forall fuel t it e,
  ci_err it = false -> ci_free T get set t it fuel = Err e -> e = EIo.
Proof.
  induction fuel as [|k IH]; intros t it e Hne; cbn [ci_free]; [discriminate|].
  destruct (ci_cluster it) as [n|] eqn:Ec; [|discriminate].
  unfold ci_next. rewrite Hne, Ec. unfold get_next.
  pose proof (get_kind t n) as Hg. destruct (get t n) as [v|e1| |]; cbn [bind]; try contradiction.
  - pose proof (set_kind t n Free) as Hs.
    assert (forall it', ci_err it' = false ->
              (do t1 <- set t n Free; do (t2, cnt) <- ci_free T get set t1 it' k; Ok (t2, cnt + 1)) = Err e -> e = EIo) as Hrest.
    { intros it' Hne'. destruct (set t n Free) as [t1|e2| |]; cbn [bind]; try contradiction.
      - destruct (ci_free T get set t1 it' k) as [[t2 cnt]|e3| |] eqn:Er; cbn [bind]; try discriminate.
        intros E; injection E as <-. eapply IH; [exact Hne'|exact Er].
      - intros E; injection E as <-. exact Hs. }
    destruct v; cbn; apply Hrest; reflexivity.
  - intros E; injection E as <-. exact Hg.
Qed.

End AnyStore.
