(* RegionsProofs.v: the region classifier of Spec/Regions.v (extracted; it names the structure every device write of
   the implementation lands in: C11, C12, C13) is sound and complete with respect to the layout of the volume, and the
   data-cluster case agrees with the address arithmetic of the library (Model/Offsets.v). *)
From Coq Require Import NArith ZArith List Lia FMapPositive.
From FatVerif Require Import Model.Base Model.Offsets Spec.Image Spec.Abs Spec.Regions Proofs.OffsetsProofs.
Open Scope N_scope.
Ltac Zify.zify_post_hook ::= Z.to_euclidean_division_equations.

(* what the layout needs: non-degenerate sizes and a data area that starts inside the declared volume.
   (Both hold for every volume the library mounts: C07_mount_ok_coherent.) *)
Definition geom_sane (g : geom) : Prop :=
  0 < g_bps g /\ 0 < g_spc g /\ g_first_data g <= g_total_sectors g.

Lemma clusters_fit g : geom_sane g -> g_first_data g + g_clusters g * g_spc g <= g_total_sectors g.
Proof.
  intros (Hb & Hs & Hf). unfold g_clusters.
  pose proof (N.mul_div_le (g_total_sectors g - g_first_data g) (g_spc g) ltac:(lia)). lia.
Qed.

Lemma layout_order g : g_reserved g * g_bps g <= g_root_off g /\ g_root_off g <= g_first_data g * g_bps g.
Proof. unfold g_root_off, g_first_data. split; nia. Qed.

(* ---------------------------------------------------------------- data clusters *)
Theorem classify_cluster_bytes g im m c i : geom_sane g -> 2 <= c < g_clusters g + 2 -> i < g_cluster_size g ->
  classify g im m (g_cluster_off g c + i) = RCluster c (cluster_owner g im m c).
Proof.
  intros Hs Hc Hi. pose proof Hs as (Hb & Hsp & Hf). pose proof (clusters_fit g Hs) as Hfit.
  pose proof (layout_order g) as (L1 & L2).
  unfold classify, g_cluster_off, g_cluster_size, g_volume_bytes in *.
  set (fd := g_first_data g) in *. set (bps := g_bps g) in *. set (spc := g_spc g) in *.
  assert ((fd + (c - 2) * spc) * bps + i < g_total_sectors g * bps) as Hin.
  { assert (fd + (c - 2) * spc + spc <= g_total_sectors g) by nia. nia. }
  assert (fd * bps <= (fd + (c - 2) * spc) * bps + i) as Hge by nia.
  destruct (g_total_sectors g * bps <=? (fd + (c - 2) * spc) * bps + i) eqn:E1; [apply N.leb_le in E1; lia|].
  destruct ((fd + (c - 2) * spc) * bps + i <? g_reserved g * bps) eqn:E2; [apply N.ltb_lt in E2; lia|].
  destruct ((fd + (c - 2) * spc) * bps + i <? g_root_off g) eqn:E3; [apply N.ltb_lt in E3; lia|].
  destruct ((fd + (c - 2) * spc) * bps + i <? fd * bps) eqn:E4; [apply N.ltb_lt in E4; lia|].
  assert (((fd + (c - 2) * spc) * bps + i - fd * bps) / (bps * spc) + 2 = c) as ->.
  { replace ((fd + (c - 2) * spc) * bps + i - fd * bps) with ((c - 2) * (bps * spc) + i) by nia.
    rewrite N.div_add_l by nia. rewrite N.div_small by exact Hi. lia. }
  destruct (c <? g_clusters g + 2) eqn:E5; [reflexivity|apply N.ltb_ge in E5; lia].
Qed.

(* conversely: a byte classified as belonging to cluster c lies in the byte range of cluster c *)
Theorem classify_cluster_inv g im m off c o : geom_sane g -> classify g im m off = RCluster c o ->
  2 <= c < g_clusters g + 2 /\ g_cluster_off g c <= off < g_cluster_off g c + g_cluster_size g /\
  off < g_volume_bytes g /\ o = cluster_owner g im m c.
Proof.
  intros Hs H. pose proof Hs as (Hb & Hsp & Hf). unfold classify in H.
  destruct (g_volume_bytes g <=? off) eqn:E1; [discriminate|]. apply N.leb_gt in E1.
  destruct (off <? g_reserved g * g_bps g) eqn:E2.
  { destruct (off =? g_status_off g); [discriminate|].
    destruct ((g_bits g =? 32) && (g_fsinfo_sector g * g_bps g <=? off) && (off <? (g_fsinfo_sector g + 1) * g_bps g)); discriminate. }
  destruct (off <? g_root_off g) eqn:E3; [discriminate|].
  destruct (off <? g_first_data g * g_bps g) eqn:E4; [discriminate|]. apply N.ltb_ge in E4.
  set (q := (off - g_first_data g * g_bps g) / g_cluster_size g) in *.
  destruct (q + 2 <? g_clusters g + 2) eqn:E5; [|discriminate]. apply N.ltb_lt in E5.
  injection H as Hc Ho. subst c. split; [lia|]. split; [|split; [exact E1|symmetry; exact Ho]].
  unfold g_cluster_off. replace (q + 2 - 2) with q by lia.
  assert (0 < g_cluster_size g) as Hcs by (unfold g_cluster_size; nia).
  pose proof (N.div_mod (off - g_first_data g * g_bps g) (g_cluster_size g) ltac:(lia)) as Hdm.
  pose proof (N.mod_lt (off - g_first_data g * g_bps g) (g_cluster_size g) ltac:(lia)) as Hml.
  fold q in Hdm. unfold g_cluster_size in *. nia.
Qed.

(* the library addresses cluster c at the same offset (Model/Offsets.v: u32 sector arithmetic, u64 byte offsets) *)
Definition ogeom_of (g : geom) : ogeom :=
  {| o_bps := g_bps g; o_spc := g_spc g; o_first_data := g_first_data g; o_total_sectors := g_total_sectors g;
     o_clusters := g_clusters g |}.

Theorem library_cluster_offset_classified g im m c i :
  ogeom_ok (ogeom_of g) -> g_first_data g <= g_total_sectors g -> 2 <= c < g_clusters g + 2 -> i < g_cluster_size g ->
  exists off, offset_from_cluster (ogeom_of g) c = Ok off /\
    classify g im m (off + i) = RCluster c (cluster_owner g im m c).
Proof.
  intros Hok Hf Hc Hi. destruct (offset_arith_exact (ogeom_of g) c Hok Hc) as (off & E & Hoff & _).
  exists off. split; [exact E|]. cbn [ogeom_of o_first_data o_spc o_bps] in Hoff. subst off.
  apply classify_cluster_bytes; [|exact Hc|exact Hi].
  destruct Hok as (Hb & Hs & _). cbn [ogeom_of o_bps o_spc] in Hb, Hs. repeat split; [lia|lia|exact Hf].
Qed.

(* ---------------------------------------------------------------- FAT copies *)
Theorem classify_fat_bytes g im m k j : geom_sane g -> k < g_fats g -> j < g_fat_bytes g ->
  classify g im m (g_fat_off g k + j) = RFat k.
Proof.
  intros Hs Hk Hj. pose proof Hs as (Hb & Hsp & Hf). pose proof (layout_order g) as (L1 & L2).
  unfold classify, g_fat_off, g_fat_bytes, g_volume_bytes, g_root_off in *.
  set (bps := g_bps g) in *. set (spf := g_spf g) in *. set (res := g_reserved g) in *.
  assert ((res + k * spf) * bps + j < (res + g_fats g * spf) * bps) as Hlt.
  { assert (k * spf + spf <= g_fats g * spf) by nia. nia. }
  assert ((res + g_fats g * spf) * bps <= g_total_sectors g * bps) as Hv.
  { unfold g_first_data in Hf. fold res spf in Hf. nia. }
  destruct (g_total_sectors g * bps <=? (res + k * spf) * bps + j) eqn:E1; [apply N.leb_le in E1; lia|].
  destruct ((res + k * spf) * bps + j <? res * bps) eqn:E2; [apply N.ltb_lt in E2; nia|].
  destruct ((res + k * spf) * bps + j <? (res + g_fats g * spf) * bps) eqn:E3; [|apply N.ltb_ge in E3; lia].
  f_equal. replace ((res + k * spf) * bps + j - res * bps) with (k * (spf * bps) + j) by nia.
  rewrite N.div_add_l by nia. rewrite N.div_small by exact Hj. lia.
Qed.

Theorem classify_fat_inv g im m off k : geom_sane g -> classify g im m off = RFat k ->
  0 < g_fat_bytes g -> k < g_fats g /\ g_fat_off g k <= off < g_fat_off g k + g_fat_bytes g.
Proof.
  intros Hs H Hfb. pose proof Hs as (Hb & Hsp & Hf). unfold classify in H.
  destruct (g_volume_bytes g <=? off) eqn:E1; [discriminate|].
  destruct (off <? g_reserved g * g_bps g) eqn:E2.
  { destruct (off =? g_status_off g); [discriminate|].
    destruct ((g_bits g =? 32) && (g_fsinfo_sector g * g_bps g <=? off) && (off <? (g_fsinfo_sector g + 1) * g_bps g)); discriminate. }
  apply N.ltb_ge in E2.
  destruct (off <? g_root_off g) eqn:E3.
  2:{ destruct (off <? g_first_data g * g_bps g); [discriminate|].
      destruct ((off - g_first_data g * g_bps g) / g_cluster_size g + 2 <? g_clusters g + 2); discriminate. }
  apply N.ltb_lt in E3. injection H as Hk. subst k.
  set (q := (off - g_reserved g * g_bps g) / g_fat_bytes g).
  pose proof (N.div_mod (off - g_reserved g * g_bps g) (g_fat_bytes g) ltac:(lia)) as Hdm.
  pose proof (N.mod_lt (off - g_reserved g * g_bps g) (g_fat_bytes g) ltac:(lia)) as Hml.
  fold q in Hdm. unfold g_fat_off, g_root_off, g_fat_bytes in *. split; [|nia].
  destruct (N.lt_ge_cases q (g_fats g)) as [Hq|Hq]; [exact Hq|exfalso]. nia.
Qed.

(* ---------------------------------------------------------------- the fixed root and the reserved area *)
Theorem classify_root_bytes g im m j : geom_sane g -> j < g_root_sectors g * g_bps g ->
  classify g im m (g_root_off g + j) = RRoot.
Proof.
  intros Hs Hj. pose proof Hs as (Hb & Hsp & Hf). pose proof (layout_order g) as (L1 & L2).
  unfold classify, g_volume_bytes.
  assert (g_root_off g + j < g_first_data g * g_bps g) as Hlt by (unfold g_root_off, g_first_data in *; nia).
  assert (g_first_data g * g_bps g <= g_total_sectors g * g_bps g) by nia.
  destruct (g_total_sectors g * g_bps g <=? g_root_off g + j) eqn:E1; [apply N.leb_le in E1; lia|].
  destruct (g_root_off g + j <? g_reserved g * g_bps g) eqn:E2; [apply N.ltb_lt in E2; lia|].
  destruct (g_root_off g + j <? g_root_off g) eqn:E3; [apply N.ltb_lt in E3; lia|].
  destruct (g_root_off g + j <? g_first_data g * g_bps g) eqn:E4; [reflexivity|apply N.ltb_ge in E4; lia].
Qed.

Theorem classify_outside g im m off : g_volume_bytes g <= off <-> classify g im m off = ROutside.
Proof.
  unfold classify. split.
  - intros H. apply N.leb_le in H. rewrite H. reflexivity.
  - intros H. destruct (g_volume_bytes g <=? off) eqn:E1; [apply N.leb_le; exact E1|exfalso].
    destruct (off <? g_reserved g * g_bps g).
    { destruct (off =? g_status_off g); [discriminate|].
      destruct ((g_bits g =? 32) && (g_fsinfo_sector g * g_bps g <=? off) && (off <? (g_fsinfo_sector g + 1) * g_bps g)); discriminate. }
    destruct (off <? g_root_off g); [discriminate|].
    destruct (off <? g_first_data g * g_bps g); [discriminate|].
    destruct ((off - g_first_data g * g_bps g) / g_cluster_size g + 2 <? g_clusters g + 2); discriminate.
Qed.

Theorem classify_status_iff g im m off : geom_sane g -> g_status_off g < g_reserved g * g_bps g ->
  g_reserved g * g_bps g <= g_volume_bytes g ->
  (classify g im m off = RStatus <-> off = g_status_off g).
Proof.
  intros Hs Hst Hv. unfold classify. split.
  - intros H. destruct (g_volume_bytes g <=? off); [discriminate|].
    destruct (off <? g_reserved g * g_bps g).
    + destruct (off =? g_status_off g) eqn:E; [apply N.eqb_eq; exact E|].
      destruct ((g_bits g =? 32) && (g_fsinfo_sector g * g_bps g <=? off) && (off <? (g_fsinfo_sector g + 1) * g_bps g)); discriminate.
    + destruct (off <? g_root_off g); [discriminate|].
      destruct (off <? g_first_data g * g_bps g); [discriminate|].
      destruct ((off - g_first_data g * g_bps g) / g_cluster_size g + 2 <? g_clusters g + 2); discriminate.
  - intros ->. destruct (g_volume_bytes g <=? g_status_off g) eqn:E1; [apply N.leb_le in E1; lia|].
    destruct (g_status_off g <? g_reserved g * g_bps g) eqn:E2; [|apply N.ltb_ge in E2; lia].
    rewrite N.eqb_refl. reflexivity.
Qed.
