From Coq Require Import NArith ZArith Lia List Bool.
From FatVerif Require Import Model.Base Model.Flags Proofs.BaseProofs.
Open Scope N_scope.
Ltac Zify.zify_post_hook ::= Z.to_euclidean_division_equations.

Lemma odd_mod2 b : N.odd b = (b mod 2 =? 1).
Proof.
  rewrite <- N.bit0_odd. pose proof (N.bit0_mod b) as H.
  destruct (N.testbit b 0); cbn [N.b2n] in H; rewrite <- H; reflexivity.
Qed.

Lemma encode_lt4 f : sf_encode f < 4.
Proof. unfold sf_encode. destruct (sf_dirty f), (sf_io_error f); lia. Qed.

(* the byte written: known flags in bits 0-1, bits 2-7 as read at mount *)
Lemma status_byte_arith f m : N.lor (sf_encode f) ((m / 4) * 4) = sf_encode f + (m / 4) * 4.
Proof.
  rewrite N.lor_comm. change 4 with (2 ^ 2) at 2. rewrite lor_mul_pow2_add; [lia|].
  change (2 ^ 2) with 4. apply encode_lt4.
Qed.

Lemma decode_encode f : sf_decode (sf_encode f) = f.
Proof. destruct f as [[|] [|]]; reflexivity. Qed.

Lemma encode_decode_low b : sf_encode (sf_decode b) = b mod 4.
Proof.
  unfold sf_encode, sf_decode; cbn [sf_dirty sf_io_error]. rewrite !odd_mod2.
  destruct (N.eqb_spec (b mod 2) 1), (N.eqb_spec ((b / 2) mod 2) 1); lia.
Qed.

Lemma sf_eqb_eq a b : sf_eqb a b = true -> a = b.
Proof.
  unfold sf_eqb. rewrite andb_true_iff. intros [H1 H2]. apply eqb_prop in H1, H2.
  destruct a, b; cbn in *. subst. reflexivity.
Qed.

(* invariant of every state reachable from a mount *)
Definition st_inv (s : fstat) : Prop :=
  disk_byte s = sf_encode (current s) + (mount_byte s / 4) * 4 /\
  sf_io_error (current s) = sf_io_error (sf_decode (mount_byte s)) /\
  (sf_dirty (sf_decode (mount_byte s)) = true -> sf_dirty (current s) = true).

Lemma st_mount_inv b : st_inv (st_mount b).
Proof.
  unfold st_inv, st_mount; cbn [disk_byte current mount_byte]. split; [|split; [reflexivity|tauto]].
  rewrite encode_decode_low. lia.
Qed.

Lemma set_dirty_flag_inv s d : st_inv s -> st_inv (set_dirty_flag s d).
Proof.
  intros (H1 & H2 & H3). unfold set_dirty_flag.
  destruct (sf_eqb _ (current s)) eqn:E; [split; [exact H1|split; assumption]|].
  unfold st_inv; cbn [disk_byte current mount_byte sf_io_error sf_dirty].
  split; [apply status_byte_arith|]. split; [reflexivity|]. intros ->. reflexivity.
Qed.

Theorem run_inv b evs : st_inv (fold_left st_step evs (st_mount b)).
Proof.
  assert (forall s, st_inv s -> st_inv (fold_left st_step evs s)) as H.
  { induction evs as [|e evs IH]; intros s Hs; [exact Hs|]. cbn [fold_left]. apply IH.
    destruct e; apply set_dirty_flag_inv; exact Hs. }
  apply H, st_mount_inv.
Qed.

Lemma mount_byte_const evs : forall s, mount_byte (fold_left st_step evs s) = mount_byte s.
Proof.
  induction evs as [|e evs IH]; intros s; [reflexivity|]. cbn [fold_left]. rewrite IH.
  destruct e; unfold st_step, set_dirty_flag; destruct (sf_eqb _ _); reflexivity.
Qed.

(* after a structural change the on-disk byte has the dirty bit and the session knows it *)
Theorem dirty_after_structural s : st_inv s ->
  let s' := set_dirty_flag s true in
  sf_dirty (current s') = true /\ N.odd (disk_byte s') = true.
Proof.
  intros Hs. pose proof (set_dirty_flag_inv s true Hs) as (H1 & _ & _).
  assert (sf_dirty (current (set_dirty_flag s true)) = true) as Hd.
  { unfold set_dirty_flag. destruct (sf_eqb _ (current s)) eqn:E.
    - apply sf_eqb_eq in E. rewrite <- E. cbn [sf_dirty]. apply orb_true_r.
    - cbn [current sf_dirty]. apply orb_true_r. }
  split; [exact Hd|]. cbv zeta. rewrite H1. rewrite odd_mod2.
  unfold sf_encode. rewrite Hd. destruct (sf_io_error _); apply N.eqb_eq; lia.
Qed.

(* the dirty mark persists until unmount: later structural writes do not clear it *)
Theorem dirty_persists s : st_inv s -> sf_dirty (current s) = true ->
  sf_dirty (current (set_dirty_flag s true)) = true.
Proof. intros Hs _. apply (dirty_after_structural s Hs). Qed.

(* a clean unmount restores the byte read at mount, whatever happened in between *)
Theorem unmount_restores b evs : b < 256 ->
  disk_byte (set_dirty_flag (fold_left st_step evs (st_mount b)) false) = b.
Proof.
  intros Hb. set (s := fold_left st_step evs (st_mount b)).
  pose proof (run_inv b evs) as Hs. fold s in Hs.
  assert (mount_byte s = b) as Hm by (unfold s; rewrite mount_byte_const; reflexivity).
  pose proof (set_dirty_flag_inv s false Hs) as (H1 & H2 & H3).
  assert (current (set_dirty_flag s false) = sf_decode b) as Hc.
  { unfold set_dirty_flag. rewrite Hm. destruct (sf_eqb _ (current s)) eqn:E.
    - apply sf_eqb_eq in E. rewrite <- E. rewrite orb_false_r. destruct (sf_decode b); reflexivity.
    - cbn [current]. rewrite orb_false_r. destruct (sf_decode b); reflexivity. }
  rewrite H1, Hc. assert (mount_byte (set_dirty_flag s false) = b) as ->.
  { unfold set_dirty_flag. destruct (sf_eqb _ _); cbn [mount_byte]; exact Hm. }
  rewrite encode_decode_low. lia.
Qed.

(* bits that were set at mount are never cleared while the volume is mounted *)
Theorem mount_bits_kept b evs : b < 256 ->
  let s := fold_left st_step evs (st_mount b) in
  disk_byte s / 4 = b / 4 /\ (N.odd b = true -> N.odd (disk_byte s) = true) /\
  (N.odd (b / 2) = true -> N.odd (disk_byte s / 2) = true).
Proof.
  intros Hb s. pose proof (run_inv b evs) as (H1 & H2 & H3). fold s in H1, H2, H3.
  assert (mount_byte s = b) as Hm by (unfold s; rewrite mount_byte_const; reflexivity).
  rewrite Hm in *. pose proof (encode_lt4 (current s)) as Hlt.
  split; [rewrite H1; lia|]. split.
  - intros Ho. specialize (H3 Ho). rewrite H1, odd_mod2. unfold sf_encode. rewrite H3.
    destruct (sf_io_error (current s)); apply N.eqb_eq; lia.
  - intros Ho. cbn [sf_decode sf_io_error] in H2. rewrite Ho in H2. rewrite H1, odd_mod2.
    unfold sf_encode. rewrite H2. destruct (sf_dirty (current s)); apply N.eqb_eq; lia.
Qed.

Example status_example :
  disk_byte (fold_left st_step [EvStructural; EvStructural; EvUnmount] (st_mount 132)) = 132 /\
  disk_byte (fold_left st_step [EvStructural] (st_mount 132)) = 133.
Proof. split; vm_compute; reflexivity. Qed.
