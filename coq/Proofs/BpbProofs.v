(* BpbProofs.v: mounting is total and accepts only coherent geometry (C07). *)
From Coq Require Import NArith ZArith Lia List Bool.
From FatVerif Require Import Model.Base Model.Bpb Spec.BpbSpec.
Import ListNotations.
Open Scope N_scope.
Ltac Zify.zify_post_hook ::= Z.to_euclidean_division_equations.

(* ------------------------------------------------------------------ booleans to propositions *)
Ltac b2p := repeat match goal with
  | H : _ && _ = true |- _ => apply andb_true_iff in H; destruct H
  | H : _ || _ = false |- _ => apply orb_false_iff in H; destruct H
  | H : negb _ = true |- _ => apply negb_true_iff in H
  | H : negb _ = false |- _ => apply negb_false_iff in H
  | H : N.eqb _ _ = true |- _ => apply N.eqb_eq in H
  | H : N.eqb _ _ = false |- _ => apply N.eqb_neq in H
  | H : N.ltb _ _ = true |- _ => apply N.ltb_lt in H
  | H : N.ltb _ _ = false |- _ => apply N.ltb_ge in H
  | H : N.leb _ _ = true |- _ => apply N.leb_le in H
  | H : N.leb _ _ = false |- _ => apply N.leb_gt in H
  end.

(* ------------------------------------------------------------------ bytes and little-endian fields *)
Definition bytes (l : list N) : Prop := Forall (fun b => b < 256) l.

Lemma byte_at_lt bs i : bytes bs -> byte_at bs i < 256.
Proof.
  unfold byte_at. intros H. revert i. induction H; intros [|i]; cbn [nth]; auto; lia.
Qed.

Lemma u16_at_lt bs i : bytes bs -> u16_at bs i < 65536.
Proof.
  intros H. unfold u16_at. pose proof (byte_at_lt bs i H). pose proof (byte_at_lt bs (i + 1) H). lia.
Qed.

Lemma u32_at_lt bs i : bytes bs -> u32_at bs i < 4294967296.
Proof.
  intros H. unfold u32_at. pose proof (byte_at_lt bs i H). pose proof (byte_at_lt bs (i + 1) H).
  pose proof (byte_at_lt bs (i + 2) H). pose proof (byte_at_lt bs (i + 3) H). lia.
Qed.

(* ------------------------------------------------------------------ profile arithmetic inside its range *)
Lemma p_add_ok p a b : a + b <= 4294967295 -> p_add p a b = Ok (a + b).
Proof.
  intros H. destruct p; unfold p_add, u32_add, w32_add, u32_max, two32.
  - destruct (a + b <=? 4294967295) eqn:E; [reflexivity|]. b2p. lia.
  - f_equal. apply N.mod_small. lia.
Qed.

Lemma p_mul_ok p a b : a * b <= 4294967295 -> p_mul p a b = Ok (a * b).
Proof.
  intros H. destruct p; unfold p_mul, u32_mul, w32_mul, u32_max, two32.
  - destruct (a * b <=? 4294967295) eqn:E; [reflexivity|]. b2p. lia.
  - f_equal. apply N.mod_small. lia.
Qed.

Lemma p_sub_ok p a b : b <= a -> a < 4294967296 -> p_sub p a b = Ok (a - b).
Proof.
  intros H Ha. destruct p; unfold p_sub, u32_sub, w32_sub, two32.
  - destruct (b <=? a) eqn:E; [reflexivity|]. b2p. lia.
  - f_equal. rewrite (N.mod_small b) by lia.
    replace (a + 4294967296 - b) with ((a - b) + 1 * 4294967296) by lia.
    rewrite N.mod_add by lia. apply N.mod_small. lia.
Qed.

Lemma p64_add_ok p a b : a + b <= 18446744073709551615 -> p64_add p a b = Ok (a + b).
Proof.
  intros H. destruct p; unfold p64_add, u64_max, two64.
  - destruct (a + b <=? 18446744073709551615) eqn:E; [reflexivity|]. b2p. lia.
  - f_equal. apply N.mod_small. lia.
Qed.

Lemma p64_mul_ok p a b : a * b <= 18446744073709551615 -> p64_mul p a b = Ok (a * b).
Proof.
  intros H. destruct p; unfold p64_mul, u64_max, two64.
  - destruct (a * b <=? 18446744073709551615) eqn:E; [reflexivity|]. b2p. lia.
  - f_equal. apply N.mod_small. lia.
Qed.

Lemma p_div_ok a b : b <> 0 -> p_div a b = Ok (a / b).
Proof. intros H. unfold p_div. destruct (b =? 0) eqn:E; [b2p; contradiction|reflexivity]. Qed.

Lemma p_rem_ok a b : b <> 0 -> p_rem a b = Ok (a mod b).
Proof. intros H. unfold p_rem. destruct (b =? 0) eqn:E; [b2p; contradiction|reflexivity]. Qed.

Lemma mul_le_bound a b x y : a <= x -> b <= y -> a * b <= x * y.
Proof. intros. apply N.mul_le_mono; assumption. Qed.

Lemma div_le_self a b : b <> 0 -> a / b <= a.
Proof.
  intros H. rewrite <- (N.div_1_r a) at 2. apply N.div_le_compat_l. lia.
Qed.

(* ------------------------------------------------------------------ powers of two (finite check) *)
Definition all_below (k : N) (f : N -> bool) : bool :=
  N.peano_rect (fun _ => bool) true (fun i acc => f i && acc) k.

Lemma all_below_spec k f : all_below k f = true -> forall n, n < k -> f n = true.
Proof.
  unfold all_below. induction k using N.peano_ind; intros H n Hn.
  - lia.
  - rewrite N.peano_rect_succ in H. apply andb_true_iff in H. destruct H as [H1 H2].
    destruct (N.eq_dec n k) as [->|Hne]; [assumption|]. apply IHk; [assumption|lia].
Qed.

Definition memN (x : N) (l : list N) : bool := existsb (N.eqb x) l.

Lemma memN_In x l : memN x l = true -> In x l.
Proof.
  unfold memN. intros H. apply existsb_exists in H. destruct H as [y [Hy E]]. b2p. subst. assumption.
Qed.

Lemma pow2_u16 n : n < 65536 -> is_pow2 n = true -> 512 <= n <= 4096 -> In n [512; 1024; 2048; 4096].
Proof.
  intros Hn Hp [H1 H2]. apply memN_In.
  assert (A : all_below 65536 (fun n => implb (is_pow2 n && (512 <=? n) && (n <=? 4096)) (memN n [512; 1024; 2048; 4096])) = true)
    by (vm_compute; reflexivity).
  pose proof (all_below_spec _ _ A n Hn) as B. cbv beta in B.
  rewrite Hp in B. apply N.leb_le in H1, H2. rewrite H1, H2 in B. exact B.
Qed.

Lemma pow2_u8 n : n < 256 -> is_pow2 n = true -> In n [1; 2; 4; 8; 16; 32; 64; 128].
Proof.
  intros Hn Hp. apply memN_In.
  assert (A : all_below 256 (fun n => implb (is_pow2 n) (memN n [1; 2; 4; 8; 16; 32; 64; 128])) = true)
    by (vm_compute; reflexivity).
  pose proof (all_below_spec _ _ A n Hn) as B. cbv beta in B. rewrite Hp in B. exact B.
Qed.

(* ------------------------------------------------------------------ field ranges of a deserialized BPB *)
Record bounded (b : bpb) : Prop := {
  bd_bps : bytes_per_sector b < 65536;
  bd_spc : sectors_per_cluster b < 256;
  bd_res : reserved_sectors b < 65536;
  bd_fats : fats b < 256;
  bd_re : root_entries b < 65536;
  bd_ts16 : total_sectors_16 b < 65536;
  bd_spf16 : sectors_per_fat_16 b < 65536;
  bd_ts32 : total_sectors_32 b < 4294967296;
  bd_spf32 : sectors_per_fat_32 b < 4294967296;
  bd_root : root_dir_first_cluster b < 4294967296;
  bd_fsi : fs_info_sector b < 65536;
  bd_bk : backup_boot_sector b < 65536;
  bd_r1 : reserved_1 b < 256
}.

Lemma bounded_deserialize bs : bytes bs -> bounded (bpb_deserialize bs).
Proof.
  intros H. unfold bpb_deserialize.
  constructor;
    cbn [bytes_per_sector sectors_per_cluster reserved_sectors fats root_entries total_sectors_16
         sectors_per_fat_16 total_sectors_32 sectors_per_fat_32 root_dir_first_cluster fs_info_sector
         backup_boot_sector reserved_1];
    try destruct (u16_at bs 22 =? 0);
    first [apply u16_at_lt; assumption | apply u32_at_lt; assumption | apply byte_at_lt; assumption | lia].
Qed.

Lemma spf_lt b : bounded b -> sectors_per_fat b < 4294967296.
Proof.
  intros [] . unfold sectors_per_fat. destruct (is_fat32 b); lia.
Qed.

Lemma ts_lt b : bounded b -> total_sectors b < 4294967296.
Proof.
  intros []. unfold total_sectors. destruct (total_sectors_16 b =? 0); lia.
Qed.

(* ------------------------------------------------------------------ geometry without machine arithmetic *)
Definition rds_v (b : bpb) : N := (root_entries b * 32 + bytes_per_sector b - 1) / bytes_per_sector b.
Definition fds_v (b : bpb) : N := reserved_sectors b + fats b * sectors_per_fat b + rds_v b.
Definition tc_v (b : bpb) : N := (total_sectors b - fds_v b) / sectors_per_cluster b.

Lemma rds_v_le b : bounded b -> bytes_per_sector b <> 0 -> rds_v b <= 2162685.
Proof.
  intros [] Hz. unfold rds_v.
  pose proof (div_le_self (root_entries b * 32 + bytes_per_sector b - 1) (bytes_per_sector b) Hz). lia.
Qed.

Lemma root_dir_sectors_eq p b : bounded b -> bytes_per_sector b <> 0 -> root_dir_sectors p b = Ok (rds_v b).
Proof.
  intros [] Hz. unfold root_dir_sectors, DIR_ENTRY_SIZE, rds_v.
  rewrite p_mul_ok by lia. cbn [bind]. rewrite p_add_ok by lia. cbn [bind].
  rewrite p_sub_ok by lia. cbn [bind]. apply p_div_ok. assumption.
Qed.

Lemma fats_spf_le b : bounded b -> fats b * sectors_per_fat b <= 255 * 4294967295.
Proof.
  intros Hb. pose proof (spf_lt b Hb). destruct Hb. apply mul_le_bound; lia.
Qed.

Lemma first_data_sector_eq p b :
  bounded b -> bytes_per_sector b <> 0 -> fds_v b <= 4294967295 -> first_data_sector p b = Ok (fds_v b).
Proof.
  intros Hb Hz Hf. unfold first_data_sector, sectors_per_all_fats.
  rewrite root_dir_sectors_eq by assumption. cbn [bind]. unfold fds_v in *.
  rewrite p_mul_ok by lia. cbn [bind]. rewrite p_add_ok by lia. cbn [bind]. apply p_add_ok. lia.
Qed.

Lemma total_clusters_eq p b :
  bounded b -> bytes_per_sector b <> 0 -> sectors_per_cluster b <> 0 -> fds_v b < total_sectors b ->
  total_clusters p b = Ok (tc_v b).
Proof.
  intros Hb Hz Hs Hf. pose proof (ts_lt b Hb). unfold total_clusters.
  rewrite first_data_sector_eq by (assumption || lia). cbn [bind].
  rewrite p_sub_ok by lia. cbn [bind]. apply p_div_ok. assumption.
Qed.

Lemma cluster_size_eq p b : bounded b -> cluster_size p b = Ok (sectors_per_cluster b * bytes_per_sector b).
Proof.
  intros []. unfold cluster_size. apply p_mul_ok.
  pose proof (mul_le_bound (sectors_per_cluster b) (bytes_per_sector b) 255 65535). lia.
Qed.

(* ------------------------------------------------------------------ each validate_* as a pure condition *)
Definition ok_bps (b : bpb) : bool :=
  is_pow2 (bytes_per_sector b) && (512 <=? bytes_per_sector b) && (bytes_per_sector b <=? 4096).
Definition ok_spc (b : bpb) : bool := is_pow2 (sectors_per_cluster b).
Definition ok_reserved (b : bpb) : bool :=
  (1 <=? reserved_sectors b) &&
  (negb (is_fat32 b) || ((backup_boot_sector b <? reserved_sectors b) && (fs_info_sector b <? reserved_sectors b))).
Definition ok_fats (b : bpb) : bool := negb (fats b =? 0).
Definition ok_root_entries (b : bpb) : bool := Bool.eqb (is_fat32 b) (root_entries b =? 0).
Definition ok_total_fields (b : bpb) : bool :=
  (negb (is_fat32 b) || (total_sectors_16 b =? 0)) &&
  negb ((total_sectors_16 b =? 0) && (total_sectors_32 b =? 0)) &&
  ((total_sectors_16 b =? 0) || (total_sectors_32 b =? 0) || (total_sectors_16 b =? total_sectors_32 b)).
Definition ok_fits (b : bpb) : bool := fds_v b <? total_sectors b.
Definition ok_spf (b : bpb) : bool := negb (is_fat32 b && (sectors_per_fat_32 b =? 0)).
Definition ok_clusters (b : bpb) : bool :=
  let tc := tc_v b in
  let ft := fat_type_from_clusters tc in
  Bool.eqb (is_fat32 b) (is_Fat32 ft) &&
  (negb (is_Fat32 ft) ||
   ((tc <=? 0x0FFFFFFF) && (2 <=? root_dir_first_cluster b) && (root_dir_first_cluster b - 2 <? tc))).

Definition okres (c : bool) : res unit := if c then Ok tt else corrupted.

Lemma vbps_eq b : validate_bytes_per_sector b = okres (ok_bps b).
Proof.
  unfold validate_bytes_per_sector, ok_bps, okres.
  destruct (is_pow2 (bytes_per_sector b)); cbn [negb andb]; [|reflexivity].
  rewrite (N.leb_antisym (bytes_per_sector b) 512), (N.leb_antisym 4096 (bytes_per_sector b)).
  destruct (bytes_per_sector b <? 512); destruct (4096 <? bytes_per_sector b); reflexivity.
Qed.

Lemma vspc_eq p b : bounded b -> validate_sectors_per_cluster p b = okres (ok_spc b).
Proof.
  intros []. unfold validate_sectors_per_cluster, ok_spc, okres.
  destruct (is_pow2 (sectors_per_cluster b)); cbn [negb]; [|reflexivity].
  rewrite p_mul_ok; [reflexivity|].
  pose proof (mul_le_bound (bytes_per_sector b) (sectors_per_cluster b) 65535 255). lia.
Qed.

Lemma vres_eq b : validate_reserved_sectors b = okres (ok_reserved b).
Proof.
  unfold validate_reserved_sectors, ok_reserved, okres.
  rewrite (N.leb_antisym (reserved_sectors b) 1).
  rewrite (N.leb_antisym (backup_boot_sector b) (reserved_sectors b)), (N.leb_antisym (fs_info_sector b) (reserved_sectors b)).
  destruct (reserved_sectors b <? 1); cbn [negb andb]; [reflexivity|].
  destruct (is_fat32 b); cbn [negb andb orb]; [|reflexivity].
  destruct (backup_boot_sector b <? reserved_sectors b); cbn [negb andb]; [|reflexivity].
  destruct (fs_info_sector b <? reserved_sectors b); reflexivity.
Qed.

Lemma vfats_eq b : validate_fats b = okres (ok_fats b).
Proof. unfold validate_fats, ok_fats, okres. destruct (fats b =? 0); reflexivity. Qed.

Lemma vroot_eq p b : bounded b -> bytes_per_sector b <> 0 -> validate_root_entries p b = okres (ok_root_entries b).
Proof.
  intros [] Hz. unfold validate_root_entries, ok_root_entries, okres, DIR_ENTRY_SIZE.
  rewrite p_mul_ok by lia. cbn [bind]. rewrite p_rem_ok by assumption. cbn [bind].
  destruct (is_fat32 b); destruct (root_entries b =? 0); reflexivity.
Qed.

Lemma vts_eq p b : bounded b -> bytes_per_sector b <> 0 ->
  validate_total_sectors p b = okres (ok_total_fields b && ok_fits b).
Proof.
  intros Hb Hz. pose proof (ts_lt b Hb) as Hts. pose proof (fats_spf_le b Hb) as Hfs.
  pose proof (rds_v_le b Hb Hz) as Hr.
  unfold validate_total_sectors, ok_total_fields, ok_fits, okres.
  destruct (is_fat32 b); destruct (total_sectors_16 b =? 0) eqn:E16; cbn [negb andb orb]; try reflexivity;
    destruct (total_sectors_32 b =? 0) eqn:E32; cbn [negb andb orb]; try reflexivity;
    try (destruct (total_sectors_16 b =? total_sectors_32 b) eqn:Eeq; cbn [negb andb orb]; try reflexivity);
    (rewrite root_dir_sectors_eq by assumption; cbn [bind];
     destruct Hb; rewrite p64_mul_ok by lia; cbn [bind];
     rewrite p64_add_ok by lia; cbn [bind]; rewrite p64_add_ok by lia; cbn [bind];
     change (reserved_sectors b + fats b * sectors_per_fat b + rds_v b) with (fds_v b);
     rewrite (N.leb_antisym (fds_v b) (total_sectors b));
     destruct (fds_v b <? total_sectors b) eqn:Ef; cbn [negb]; [|reflexivity];
     b2p; rewrite first_data_sector_eq by (try constructor; assumption || lia); cbn [bind];
     rewrite (N.leb_antisym (fds_v b) (total_sectors b));
     (replace (fds_v b <? total_sectors b) with true by (symmetry; apply N.ltb_lt; assumption)); reflexivity).
Qed.

Lemma vspf_eq b : validate_sectors_per_fat b = okres (ok_spf b).
Proof.
  unfold validate_sectors_per_fat, ok_spf, okres. destruct (is_fat32 b && (sectors_per_fat_32 b =? 0)); reflexivity.
Qed.

Lemma tc_v_lt b : bounded b -> sectors_per_cluster b <> 0 -> tc_v b < 4294967296.
Proof.
  intros Hb Hs. pose proof (ts_lt b Hb). unfold tc_v.
  pose proof (div_le_self (total_sectors b - fds_v b) (sectors_per_cluster b) Hs). lia.
Qed.

Lemma vtc_eq p b :
  bounded b -> bytes_per_sector b <> 0 -> bytes_per_sector b <= 4096 -> sectors_per_cluster b <> 0 ->
  fds_v b < total_sectors b ->
  validate_total_clusters p b = okres (ok_clusters b).
Proof.
  intros Hb Hz Hle Hs Hf. pose proof (spf_lt b Hb) as Hspf. pose proof (tc_v_lt b Hb Hs) as Htc.
  unfold validate_total_clusters, ok_clusters, okres, RESERVED_FAT_ENTRIES.
  rewrite total_clusters_eq by assumption. cbn [bind].
  assert (Hmul : sectors_per_fat b * bytes_per_sector b <= 4294967295 * 4096) by (apply mul_le_bound; lia).
  assert (Hwarn : forall ft,
     (do x <- p64_mul p (sectors_per_fat b) (bytes_per_sector b);
      do y <- p64_mul p x 8;
      do total_fat_entries <- p_div y (bits_per_fat_entry ft); Ok tt) = Ok tt).
  { intros ft. rewrite p64_mul_ok by lia. cbn [bind]. rewrite p64_mul_ok by lia. cbn [bind].
    rewrite p_div_ok by (destruct ft; discriminate). reflexivity. }
  destruct (Bool.eqb (is_fat32 b) (is_Fat32 (fat_type_from_clusters (tc_v b)))); cbn [negb andb]; [|reflexivity].
  destruct (is_Fat32 (fat_type_from_clusters (tc_v b))); cbn [negb andb orb bind].
  - rewrite (N.leb_antisym 268435455 (tc_v b)).
    destruct (268435455 <? tc_v b); cbn [negb andb]; [reflexivity|].
    rewrite (N.leb_antisym (root_dir_first_cluster b) 2).
    destruct (root_dir_first_cluster b <? 2) eqn:Er; cbn [negb andb bind]; [reflexivity|].
    b2p. destruct Hb. rewrite p_sub_ok by lia. cbn [bind].
    rewrite (N.leb_antisym (root_dir_first_cluster b - 2) (tc_v b)).
    destruct (root_dir_first_cluster b - 2 <? tc_v b); cbn [negb]; [apply Hwarn|reflexivity].
  - apply Hwarn.
Qed.

(* ------------------------------------------------------------------ BiosParameterBlock::validate *)
Definition accepts (b : bpb) : bool :=
  (fs_version b =? 0) && ok_bps b && ok_spc b && ok_reserved b && ok_fats b && ok_root_entries b &&
  (ok_total_fields b && ok_fits b) && ok_spf b && ok_clusters b.

Lemma ok_bps_facts b : bounded b -> ok_bps b = true -> In (bytes_per_sector b) [512; 1024; 2048; 4096].
Proof.
  intros [] H. unfold ok_bps in H. b2p. apply pow2_u16; [assumption|assumption|lia].
Qed.

Lemma ok_spc_facts b : bounded b -> ok_spc b = true -> In (sectors_per_cluster b) [1; 2; 4; 8; 16; 32; 64; 128].
Proof. intros [] H. apply pow2_u8; assumption. Qed.

Lemma In4 (x a b c d : N) : In x [a; b; c; d] -> x = a \/ x = b \/ x = c \/ x = d.
Proof. cbn [In]. intuition. Qed.
Lemma In8 (x a b c d e f g h : N) : In x [a; b; c; d; e; f; g; h] ->
  x = a \/ x = b \/ x = c \/ x = d \/ x = e \/ x = f \/ x = g \/ x = h.
Proof. cbn [In]. intuition. Qed.

Lemma bps_range b : In (bytes_per_sector b) [512; 1024; 2048; 4096] -> bytes_per_sector b <> 0 /\ bytes_per_sector b <= 4096.
Proof. intros H. apply In4 in H. lia. Qed.
Lemma spc_range b : In (sectors_per_cluster b) [1; 2; 4; 8; 16; 32; 64; 128] -> sectors_per_cluster b <> 0.
Proof. intros H. apply In8 in H. lia. Qed.

Lemma bpb_validate_eq p b : bounded b -> bpb_validate p b = okres (accepts b).
Proof.
  intros Hb. unfold bpb_validate, accepts.
  destruct (fs_version b =? 0); cbn [negb andb]; [|reflexivity].
  rewrite vbps_eq. destruct (ok_bps b) eqn:E1; cbn [okres bind andb]; [|reflexivity].
  destruct (bps_range b (ok_bps_facts b Hb E1)) as [Hz Hle].
  rewrite vspc_eq by assumption. destruct (ok_spc b) eqn:E2; cbn [okres bind andb]; [|reflexivity].
  pose proof (spc_range b (ok_spc_facts b Hb E2)) as Hs.
  rewrite vres_eq. destruct (ok_reserved b); cbn [okres bind andb]; [|reflexivity].
  rewrite vfats_eq. destruct (ok_fats b); cbn [okres bind andb]; [|reflexivity].
  rewrite vroot_eq by assumption. destruct (ok_root_entries b); cbn [okres bind andb]; [|reflexivity].
  rewrite vts_eq by assumption. destruct (ok_total_fields b); cbn [okres bind andb]; [|reflexivity].
  destruct (ok_fits b) eqn:E7; cbn [okres bind andb]; [|reflexivity].
  rewrite vspf_eq. destruct (ok_spf b); cbn [okres bind andb]; [|reflexivity].
  unfold ok_fits in E7. b2p.
  rewrite vtc_eq by assumption. destruct (ok_clusters b); reflexivity.
Qed.

(* ------------------------------------------------------------------ FileSystem::new without machine arithmetic *)
Definition fix_opt (o : option N) (bound : N) : option N :=
  match o with Some n => if bound <? n then None else Some n | None => None end.

Definition sig_ok (bs : list N) : bool := (byte_at bs 510 =? 0x55) && (byte_at bs 511 =? 0xAA).

Definition mount_pure (bs fsi : list N) (strict : bool) : res mounted :=
  let b := bpb_deserialize bs in
  if len_N bs <? 512 then Err EIo
  else if strict && negb (sig_ok bs) then corrupted
  else if accepts b then
    let tc := tc_v b in
    let ft := fat_type_from_clusters tc in
    do fi0 <- (if is_Fat32 ft then fsinfo_deserialize fsi else Ok fsinfo_default);
    let dirty := decode_dirty (reserved_1 b) in
    Ok {| m_fat_type := ft;
          m_cluster_size := sectors_per_cluster b * bytes_per_sector b;
          m_total_clusters := tc;
          m_first_data_sector := fds_v b;
          m_root_dir_sectors := rds_v b;
          m_free := fix_opt (if dirty then None else fi_free fi0) tc;
          m_next := fix_opt (fi_next fi0) (tc + 2);
          m_dirty := dirty;
          m_io_error := decode_io_error (reserved_1 b);
          m_volume_id := volume_id b |}
  else corrupted.

Lemma ok_clusters_tc b : ok_clusters b = true -> tc_v b + 2 <= 4294967295.
Proof.
  unfold ok_clusters, fat_type_from_clusters, FAT16_MIN_CLUSTERS, FAT32_MIN_CLUSTERS. intros H.
  destruct (tc_v b <? 4085) eqn:E1; [b2p; lia|].
  destruct (tc_v b <? 65525) eqn:E2; [b2p; lia|].
  cbn [is_Fat32 negb orb] in H. b2p. lia.
Qed.

Lemma mount_eq p bs fsi strict : bytes bs -> mount p bs fsi strict = mount_pure bs fsi strict.
Proof.
  intros Hby. pose proof (bounded_deserialize bs Hby) as Hb.
  unfold mount, mount_pure, boot_deserialize.
  destruct (len_N bs <? 512); cbn [bind]; [reflexivity|].
  unfold boot_validate. cbn [bs_boot_sig bs_bpb fst snd]. fold (sig_ok bs).
  destruct (strict && negb (sig_ok bs)); [reflexivity|].
  rewrite bpb_validate_eq by assumption.
  set (b := bpb_deserialize bs) in *.
  destruct (accepts b) eqn:Ea; cbn [okres bind]; [|reflexivity].
  unfold accepts in Ea. b2p.
  match goal with H : ok_bps b = true |- _ => destruct (bps_range b (ok_bps_facts b Hb H)) as [Hz Hle] end.
  match goal with H : ok_spc b = true |- _ => pose proof (spc_range b (ok_spc_facts b Hb H)) as Hs end.
  match goal with H : ok_fits b = true |- _ => unfold ok_fits in H; apply N.ltb_lt in H; rename H into Hf end.
  match goal with H : ok_clusters b = true |- _ => pose proof (ok_clusters_tc b H) as Htc end.
  pose proof (ts_lt b Hb) as Hts.
  rewrite root_dir_sectors_eq by assumption. cbn [bind].
  rewrite first_data_sector_eq by (assumption || lia). cbn [bind].
  rewrite total_clusters_eq by assumption. cbn [bind].
  assert (Hoff : bytes_from_sectors p b (fs_info_sector b) = Ok (fs_info_sector b * bytes_per_sector b)).
  { unfold bytes_from_sectors. apply p64_mul_ok. destruct Hb.
    pose proof (mul_le_bound (fs_info_sector b) (bytes_per_sector b) 65535 65535). lia. }
  rewrite Hoff. cbn [bind].
  rewrite cluster_size_eq by assumption.
  destruct (is_Fat32 (fat_type_from_clusters (tc_v b))).
  - destruct (fsinfo_deserialize fsi) as [fi0| | |]; cbn [bind]; try reflexivity.
    unfold fsinfo_validate_and_fix, RESERVED_FAT_ENTRIES. rewrite p_add_ok by assumption. cbn [bind fi_free fi_next].
    destruct (decode_dirty (reserved_1 b)); reflexivity.
  - cbn [bind]. unfold fsinfo_validate_and_fix, RESERVED_FAT_ENTRIES. rewrite p_add_ok by assumption.
    cbn [bind fi_free fi_next fsinfo_default].
    destruct (decode_dirty (reserved_1 b)); reflexivity.
Qed.

(* the two build profiles cannot be told apart at mount: no u32/u64 operation leaves its range *)
Lemma mount_profile_irrelevant bs fsi strict : bytes bs ->
  mount Release bs fsi strict = mount Debug bs fsi strict.
Proof. intros H. rewrite !mount_eq by assumption. reflexivity. Qed.

Lemma fsinfo_deserialize_cases s :
  (exists fi, fsinfo_deserialize s = Ok fi) \/ fsinfo_deserialize s = Err EIo \/
  fsinfo_deserialize s = Err ECorruptedFileSystem.
Proof.
  unfold fsinfo_deserialize, corrupted.
  repeat match goal with |- context [if ?c then _ else _] =>
    lazymatch c with
    | len_N _ <? _ => destruct c; [right; left; reflexivity|]
    | negb _ => destruct c; [right; right; reflexivity|]
    end end.
  left. eexists. reflexivity.
Qed.

Lemma mount_total p bs fsi strict : bytes bs ->
  mount p bs fsi strict <> Panic /\ mount p bs fsi strict <> OutOfFuel.
Proof.
  intros H. rewrite mount_eq by assumption. unfold mount_pure, corrupted.
  destruct (len_N bs <? 512); [split; discriminate|].
  destruct (strict && negb (sig_ok bs)); [split; discriminate|].
  destruct (accepts (bpb_deserialize bs)); [|split; discriminate].
  destruct (is_Fat32 (fat_type_from_clusters (tc_v (bpb_deserialize bs)))).
  - destruct (fsinfo_deserialize_cases fsi) as [[fi ->]|[->| ->]]; cbn [bind]; split; discriminate.
  - cbn [bind]. split; discriminate.
Qed.

(* outcome classes: a mounted volume, CorruptedFileSystem, or (short device) the storage's own error *)
Lemma mount_outcomes p bs fsi strict : bytes bs ->
  (exists g, mount p bs fsi strict = Ok g) \/ mount p bs fsi strict = Err ECorruptedFileSystem \/
  (mount p bs fsi strict = Err EIo /\ ((length bs < 512)%nat \/ (length fsi < 512)%nat)).
Proof.
  intros H. rewrite mount_eq by assumption. unfold mount_pure, corrupted.
  destruct (len_N bs <? 512) eqn:El.
  { right; right. split; [reflexivity|]. left. unfold len_N in El. b2p. lia. }
  destruct (strict && negb (sig_ok bs)); [right; left; reflexivity|].
  destruct (accepts (bpb_deserialize bs)); [|right; left; reflexivity].
  destruct (is_Fat32 (fat_type_from_clusters (tc_v (bpb_deserialize bs)))).
  - unfold fsinfo_deserialize, corrupted.
    repeat match goal with |- context [if ?c then _ else _] =>
      lazymatch c with
      | len_N _ <? _ => destruct c eqn:?; [right; right; split; [reflexivity|right; unfold len_N in *; b2p; lia]|]
      | negb (_ =? _) => destruct c; [right; left; reflexivity|]
      end end.
    left. eexists. reflexivity.
  - left. eexists. reflexivity.
Qed.

(* ------------------------------------------------------------------ inversion of a successful mount *)
Record accepted_facts (b : bpb) : Prop := {
  af_version : fs_version b = 0;
  af_bps : In (bytes_per_sector b) [512; 1024; 2048; 4096];
  af_spc : In (sectors_per_cluster b) [1; 2; 4; 8; 16; 32; 64; 128];
  af_res : 1 <= reserved_sectors b;
  af_res32 : is_fat32 b = true -> backup_boot_sector b < reserved_sectors b /\ fs_info_sector b < reserved_sectors b;
  af_fats : fats b <> 0;
  af_root : is_fat32 b = true <-> root_entries b = 0;
  af_ts16 : is_fat32 b = true -> total_sectors_16 b = 0;
  af_ts : total_sectors b <> 0;
  af_ts_conflict : total_sectors_16 b = 0 \/ total_sectors_32 b = 0 \/ total_sectors_16 b = total_sectors_32 b;
  af_fits : fds_v b < total_sectors b;
  af_spf : sectors_per_fat b <> 0;
  af_type : is_fat32 b = is_Fat32 (fat_type_from_clusters (tc_v b));
  af_fat32 : is_Fat32 (fat_type_from_clusters (tc_v b)) = true ->
             tc_v b <= 0x0FFFFFFF /\ 2 <= root_dir_first_cluster b /\ root_dir_first_cluster b < tc_v b + 2
}.

Lemma accepts_facts b : bounded b -> accepts b = true -> accepted_facts b.
Proof.
  intros Hb H. unfold accepts in H.
  apply andb_true_iff in H; destruct H as [H Hcl].
  apply andb_true_iff in H; destruct H as [H Hspf].
  apply andb_true_iff in H; destruct H as [H Hts].
  apply andb_true_iff in Hts; destruct Hts as [Htf Hfit].
  apply andb_true_iff in H; destruct H as [H Hroot].
  apply andb_true_iff in H; destruct H as [H Hfats].
  apply andb_true_iff in H; destruct H as [H Hres].
  apply andb_true_iff in H; destruct H as [H Hspc].
  apply andb_true_iff in H; destruct H as [Hver Hbps].
  unfold ok_reserved in Hres. apply andb_true_iff in Hres; destruct Hres as [Hres1 Hres2].
  unfold ok_total_fields in Htf. apply andb_true_iff in Htf; destruct Htf as [Htf Htf3].
  apply andb_true_iff in Htf; destruct Htf as [Htf1 Htf2].
  unfold ok_clusters in Hcl. cbv zeta in Hcl. apply andb_true_iff in Hcl; destruct Hcl as [Hcl1 Hcl2].
  constructor.
  - b2p. assumption.
  - apply ok_bps_facts; assumption.
  - apply ok_spc_facts; assumption.
  - b2p. assumption.
  - intros Hf. rewrite Hf in Hres2. cbn [negb orb] in Hres2. b2p. split; assumption.
  - unfold ok_fats in Hfats. b2p. assumption.
  - unfold ok_root_entries in Hroot. apply eqb_prop in Hroot. rewrite Hroot.
    split; intros E; b2p; [assumption|apply N.eqb_eq; assumption].
  - intros Hf. rewrite Hf in Htf1. cbn [negb orb] in Htf1. b2p. assumption.
  - unfold total_sectors. destruct (total_sectors_16 b =? 0) eqn:E; b2p; [|assumption].
    cbn [andb] in Htf2. b2p. assumption.
  - apply orb_true_iff in Htf3. destruct Htf3 as [Hc|Hc]; [apply orb_true_iff in Hc; destruct Hc as [Hc|Hc]|]; b2p; auto.
  - unfold ok_fits in Hfit. b2p. assumption.
  - unfold ok_spf in Hspf. unfold sectors_per_fat. unfold is_fat32 in *.
    destruct (sectors_per_fat_16 b =? 0) eqn:E; b2p; [|assumption].
    cbn [andb] in Hspf. b2p. assumption.
  - apply eqb_prop in Hcl1. exact Hcl1.
  - intros Hf. rewrite Hf in Hcl2. cbn [negb orb] in Hcl2. b2p. lia.
Qed.

Lemma fix_opt_some o bound n : fix_opt o bound = Some n -> o = Some n /\ n <= bound.
Proof.
  unfold fix_opt. destruct o as [m|]; [|discriminate]. destruct (bound <? m) eqn:E; [discriminate|].
  intros H. injection H as ->. b2p. split; [reflexivity|assumption].
Qed.

Lemma mount_ok_inv p bs fsi strict g : bytes bs -> mount p bs fsi strict = Ok g ->
  let b := bpb_deserialize bs in
  let tc := tc_v b in
  let ft := fat_type_from_clusters tc in
  (length bs >= 512)%nat /\ (strict = true -> sig_ok bs = true) /\ accepts b = true /\
  m_fat_type g = ft /\ m_cluster_size g = sectors_per_cluster b * bytes_per_sector b /\ m_total_clusters g = tc /\
  m_first_data_sector g = fds_v b /\ m_root_dir_sectors g = rds_v b /\
  m_dirty g = decode_dirty (reserved_1 b) /\ m_io_error g = decode_io_error (reserved_1 b) /\
  (is_Fat32 ft = false -> m_free g = None /\ m_next g = None) /\
  (is_Fat32 ft = true -> exists fi0, fsinfo_deserialize fsi = Ok fi0 /\
      m_free g = fix_opt (if m_dirty g then None else fi_free fi0) tc /\ m_next g = fix_opt (fi_next fi0) (tc + 2)).
Proof.
  intros Hby. rewrite mount_eq by assumption. unfold mount_pure, corrupted.
  destruct (len_N bs <? 512) eqn:El; [discriminate|].
  destruct (strict && negb (sig_ok bs)) eqn:Es; [discriminate|].
  destruct (accepts (bpb_deserialize bs)) eqn:Ea; [|discriminate].
  cbv zeta. set (b := bpb_deserialize bs) in *.
  destruct (is_Fat32 (fat_type_from_clusters (tc_v b))) eqn:Et.
  - destruct (fsinfo_deserialize fsi) as [fi0| | |] eqn:Ef; cbn [bind]; try discriminate.
    intros H. injection H as <-.
    cbn [m_fat_type m_cluster_size m_total_clusters m_first_data_sector m_root_dir_sectors m_free m_next m_dirty m_io_error].
    repeat match goal with |- _ /\ _ => split end; try reflexivity.
    + unfold len_N in El. b2p. lia.
    + intros ->. cbn [andb] in Es. b2p. assumption.
    + intros E; discriminate E.
    + intros _. exists fi0. split; [reflexivity|split; reflexivity].
  - cbn [bind]. intros H. injection H as <-.
    cbn [m_fat_type m_cluster_size m_total_clusters m_first_data_sector m_root_dir_sectors m_free m_next m_dirty m_io_error].
    repeat match goal with |- _ /\ _ => split end; try reflexivity.
    + unfold len_N in El. b2p. lia.
    + intros ->. cbn [andb] in Es. b2p. assumption.
    + intros _. cbn [fsinfo_default fi_free fi_next fix_opt]. destruct (decode_dirty _); split; reflexivity.
    + intros E; discriminate E.
Qed.

(* ------------------------------------------------------------------ the independent parse reads the same fields *)
Lemma skipn_nth_cons (l : list N) i : (i < length l)%nat -> skipn i l = nth i l 0 :: skipn (S i) l.
Proof.
  revert i. induction l as [|x l IH]; intros [|i] H; cbn [length skipn nth] in *; try lia; try reflexivity.
  apply IH. lia.
Qed.

Lemma field1 bs off : (off < length bs)%nat -> field bs off 1 = Z.of_N (byte_at bs off).
Proof.
  intros H. unfold field, byte_at. rewrite (skipn_nth_cons bs off) by assumption.
  cbn [firstn fold_right]. lia.
Qed.

Lemma field2 bs off : (off + 1 < length bs)%nat -> field bs off 2 = Z.of_N (u16_at bs off).
Proof.
  intros H. unfold field, u16_at, byte_at. rewrite (skipn_nth_cons bs off) by lia.
  rewrite (skipn_nth_cons bs (S off)) by lia. rewrite Nat.add_1_r.
  cbn [firstn fold_right]. lia.
Qed.

Lemma field4 bs off : (off + 3 < length bs)%nat -> field bs off 4 = Z.of_N (u32_at bs off).
Proof.
  intros H. unfold field, u32_at, byte_at. rewrite (skipn_nth_cons bs off) by lia.
  rewrite (skipn_nth_cons bs (S off)) by lia. rewrite (skipn_nth_cons bs (S (S off))) by lia.
  rewrite (skipn_nth_cons bs (S (S (S off)))) by lia.
  replace (off + 1)%nat with (S off) by lia. replace (off + 2)%nat with (S (S off)) by lia.
  replace (off + 3)%nat with (S (S (S off))) by lia.
  cbn [firstn fold_right]. lia.
Qed.

Lemma zeqb0 n : (Z.of_N n =? 0)%Z = (n =? 0).
Proof. destruct n; reflexivity. Qed.

Section SpecFields.
  Variable bs : list N.
  Hypothesis Hlen : (length bs >= 512)%nat.
  Let b := bpb_deserialize bs.

  Lemma spec_bps : BPB_BytsPerSec bs = Z.of_N (bytes_per_sector b).
  Proof. unfold BPB_BytsPerSec. rewrite field2 by lia. reflexivity. Qed.
  Lemma spec_spc : BPB_SecPerClus bs = Z.of_N (sectors_per_cluster b).
  Proof. unfold BPB_SecPerClus. rewrite field1 by lia. reflexivity. Qed.
  Lemma spec_res : BPB_RsvdSecCnt bs = Z.of_N (reserved_sectors b).
  Proof. unfold BPB_RsvdSecCnt. rewrite field2 by lia. reflexivity. Qed.
  Lemma spec_fats : BPB_NumFATs bs = Z.of_N (fats b).
  Proof. unfold BPB_NumFATs. rewrite field1 by lia. reflexivity. Qed.
  Lemma spec_re : BPB_RootEntCnt bs = Z.of_N (root_entries b).
  Proof. unfold BPB_RootEntCnt. rewrite field2 by lia. reflexivity. Qed.
  Lemma spec_ts16 : BPB_TotSec16 bs = Z.of_N (total_sectors_16 b).
  Proof. unfold BPB_TotSec16. rewrite field2 by lia. reflexivity. Qed.
  Lemma spec_spf16 : BPB_FATSz16 bs = Z.of_N (sectors_per_fat_16 b).
  Proof. unfold BPB_FATSz16. rewrite field2 by lia. reflexivity. Qed.
  Lemma spec_ts32 : BPB_TotSec32 bs = Z.of_N (total_sectors_32 b).
  Proof. unfold BPB_TotSec32. rewrite field4 by lia. reflexivity. Qed.

  Lemma spec_fatsz : FATSz bs = Z.of_N (sectors_per_fat b).
  Proof.
    unfold FATSz. rewrite spec_spf16, zeqb0. unfold sectors_per_fat, is_fat32.
    destruct (sectors_per_fat_16 b =? 0) eqn:E; [|reflexivity].
    unfold BPB_FATSz32. rewrite field4 by lia. unfold b in *. unfold bpb_deserialize in *.
    cbn [sectors_per_fat_16 sectors_per_fat_32] in *. rewrite E. reflexivity.
  Qed.

  Lemma spec_totsec : TotSec bs = Z.of_N (total_sectors b).
  Proof.
    unfold TotSec. rewrite spec_ts16, zeqb0, spec_ts32. unfold total_sectors.
    destruct (total_sectors_16 b =? 0); reflexivity.
  Qed.

  Lemma spec_fat32_fields : is_fat32 b = true ->
    BPB_RootClus bs = Z.of_N (root_dir_first_cluster b) /\ BPB_FSInfo bs = Z.of_N (fs_info_sector b) /\
    BPB_BkBootSec bs = Z.of_N (backup_boot_sector b).
  Proof.
    unfold BPB_RootClus, BPB_FSInfo, BPB_BkBootSec. rewrite field4 by lia. rewrite !field2 by lia.
    unfold is_fat32, b, bpb_deserialize.
    cbn [sectors_per_fat_16 root_dir_first_cluster fs_info_sector backup_boot_sector].
    intros ->. repeat split; reflexivity.
  Qed.

  Lemma spec_rds : bytes_per_sector b <> 0 -> RootDirSectors bs = Z.of_N (rds_v b).
  Proof.
    intros Hz. unfold RootDirSectors, rds_v. rewrite spec_re, spec_bps.
    rewrite N2Z.inj_div, N2Z.inj_sub by lia. rewrite N2Z.inj_add, N2Z.inj_mul. f_equal. lia.
  Qed.

  Lemma spec_meta : bytes_per_sector b <> 0 -> MetaSec bs = Z.of_N (fds_v b).
  Proof.
    intros Hz. unfold MetaSec, fds_v. rewrite spec_res, spec_fats, spec_fatsz, spec_rds by assumption.
    rewrite !N2Z.inj_add, N2Z.inj_mul. reflexivity.
  Qed.

  Lemma spec_count : bytes_per_sector b <> 0 -> fds_v b <= total_sectors b ->
    CountofClusters bs = Z.of_N (tc_v b).
  Proof.
    intros Hz Hle. unfold CountofClusters, DataSec, tc_v. rewrite spec_totsec, spec_meta, spec_spc by assumption.
    rewrite N2Z.inj_div, N2Z.inj_sub by assumption. reflexivity.
  Qed.
End SpecFields.

Lemma fat_bits_spec n : fat_bits_of_count (Z.of_N n) = Z.of_N (bits_per_fat_entry (fat_type_from_clusters n)).
Proof.
  unfold fat_bits_of_count, fat_type_from_clusters, FAT16_MIN_CLUSTERS, FAT32_MIN_CLUSTERS.
  destruct (n <? 4085) eqn:E1; destruct (Z.of_N n <? 4085)%Z eqn:Z1; b2p;
    try (apply Z.ltb_lt in Z1); try (apply Z.ltb_ge in Z1); try lia; try reflexivity.
  destruct (n <? 65525) eqn:E2; destruct (Z.of_N n <? 65525)%Z eqn:Z2; b2p;
    try (apply Z.ltb_lt in Z2); try (apply Z.ltb_ge in Z2); try lia; reflexivity.
Qed.

Lemma bits32_iff t : Z.of_N (bits_per_fat_entry t) = 32%Z <-> is_Fat32 t = true.
Proof. destruct t; cbn; split; intros H; try reflexivity; try discriminate H. Qed.

(* ------------------------------------------------------------------ C07 theorems *)
Lemma mount_ok_facts p bs fsi strict g : bytes bs -> mount p bs fsi strict = Ok g ->
  (length bs >= 512)%nat /\ bounded (bpb_deserialize bs) /\ accepted_facts (bpb_deserialize bs).
Proof.
  intros Hby H. pose proof (mount_ok_inv p bs fsi strict g Hby H) as I. cbv zeta in I.
  destruct I as (Hlen & _ & Ha & _). pose proof (bounded_deserialize bs Hby) as Hb.
  split; [assumption|]. split; [assumption|]. apply accepts_facts; assumption.
Qed.

Theorem mount_ok_agrees_spec p bs fsi strict g : bytes bs -> mount p bs fsi strict = Ok g ->
  spec_geometry bs =
    (Z.of_N (bits_per_fat_entry (m_fat_type g)), Z.of_N (m_cluster_size g), Z.of_N (m_total_clusters g)) /\
  MetaSec bs = Z.of_N (m_first_data_sector g) /\ RootDirSectors bs = Z.of_N (m_root_dir_sectors g).
Proof.
  intros Hby H. destruct (mount_ok_facts p bs fsi strict g Hby H) as (Hlen & Hb & F).
  pose proof (mount_ok_inv p bs fsi strict g Hby H) as I. cbv zeta in I.
  destruct I as (_ & _ & _ & -> & -> & -> & -> & -> & _).
  destruct (bps_range _ (af_bps _ F)) as [Hz _]. pose proof (af_fits _ F) as Hf.
  unfold spec_geometry.
  rewrite (spec_count bs Hlen Hz) by lia. rewrite fat_bits_spec, (spec_bps bs Hlen), (spec_spc bs Hlen).
  rewrite (spec_meta bs Hlen Hz), (spec_rds bs Hlen Hz).
  split; [|split; reflexivity]. f_equal. f_equal. lia.
Qed.

Theorem mount_ok_coherent p bs fsi strict g : bytes bs -> mount p bs fsi strict = Ok g -> coherent bs.
Proof.
  intros Hby H. destruct (mount_ok_facts p bs fsi strict g Hby H) as (Hlen & Hb & F).
  destruct (bps_range _ (af_bps _ F)) as [Hz _]. pose proof (af_fits _ F) as Hf.
  pose proof (ts_lt _ Hb) as Hts.
  unfold coherent.
  rewrite (spec_count bs Hlen Hz) by lia. rewrite fat_bits_spec.
  rewrite (spec_bps bs Hlen), (spec_spc bs Hlen), (spec_fats bs Hlen), (spec_fatsz bs Hlen), (spec_res bs Hlen),
          (spec_meta bs Hlen Hz), (spec_totsec bs Hlen), (spec_spf16 bs Hlen).
  repeat match goal with |- _ /\ _ => split end.
  - pose proof (In4 _ _ _ _ _ (af_bps _ F)). cbn [In]. lia.
  - pose proof (In8 _ _ _ _ _ _ _ _ _ (af_spc _ F)). cbn [In]. lia.
  - pose proof (af_fats _ F). lia.
  - pose proof (af_spf _ F). lia.
  - pose proof (af_res _ F). lia.
  - lia.
  - lia.
  - rewrite bits32_iff. rewrite <- (af_type _ F). unfold is_fat32. split; intros E.
    + apply N.eqb_eq. lia.
    + apply N.eqb_eq in E. lia.
  - rewrite bits32_iff. intros E. destruct (af_fat32 _ F E) as (A1 & A2 & A3).
    assert (Hf32 : is_fat32 (bpb_deserialize bs) = true) by (rewrite (af_type _ F); exact E).
    destruct (spec_fat32_fields bs Hlen Hf32) as (-> & -> & ->).
    destruct (af_res32 _ F Hf32) as [B1 B2].
    repeat match goal with |- _ /\ _ => split end; lia.
Qed.

(* what else an accepted boot sector satisfies (checks of the code that the property does not list) *)
Theorem mount_ok_layout p bs fsi strict g : bytes bs -> mount p bs fsi strict = Ok g ->
  (strict = true -> byte_at bs 510 = 0x55 /\ byte_at bs 511 = 0xAA) /\ layout_ok bs.
Proof.
  intros Hby H. destruct (mount_ok_facts p bs fsi strict g Hby H) as (Hlen & Hb & F).
  pose proof (mount_ok_inv p bs fsi strict g Hby H) as I. cbv zeta in I. destruct I as (_ & Hsig & _).
  unfold layout_ok, BPB_FSVer.
  rewrite (spec_spf16 bs Hlen), (spec_re bs Hlen), (spec_ts16 bs Hlen), (spec_ts32 bs Hlen).
  repeat match goal with |- _ /\ _ => split end.
  - intros E. specialize (Hsig E). unfold sig_ok in Hsig. b2p. split; assumption.
  - pose proof (af_root _ F) as R. unfold is_fat32 in R. rewrite N.eqb_eq in R. lia.
  - intros E. assert (Hf32 : is_fat32 (bpb_deserialize bs) = true) by (apply N.eqb_eq; lia).
    split; [pose proof (af_ts16 _ F Hf32); lia|].
    rewrite field2 by lia. pose proof (af_version _ F) as V.
    unfold is_fat32, bpb_deserialize in Hf32, V. cbn [sectors_per_fat_16 fs_version] in Hf32, V.
    rewrite Hf32 in V. rewrite V. reflexivity.
  - pose proof (af_ts_conflict _ F). lia.
Qed.

Theorem mount_fsinfo_bounds p bs fsi strict g : bytes bs -> mount p bs fsi strict = Ok g ->
  let total := m_total_clusters g in
  (m_fat_type g <> Fat32 -> m_free g = None /\ m_next g = None) /\
  (m_fat_type g = Fat32 ->
     (length fsi >= 512)%nat /\
     u32_at fsi 0 = 0x41615252 /\ u32_at fsi 484 = 0x61417272 /\ u32_at fsi 508 = 0xAA550000 /\
     m_free g = (if m_dirty g then None
                 else if u32_at fsi 488 <=? total then Some (u32_at fsi 488) else None) /\
     m_next g = (if (2 <=? u32_at fsi 492) && (u32_at fsi 492 <=? total + 2) then Some (u32_at fsi 492) else None)) /\
  (forall n, m_free g = Some n -> n <= total /\ m_dirty g = false) /\
  (forall n, m_next g = Some n -> 2 <= n <= total + 2) /\
  total + 2 <= 0xFFFFFFFF.
Proof.
  intros Hby H. destruct (mount_ok_facts p bs fsi strict g Hby H) as (Hlen & Hb & F).
  pose proof (mount_ok_inv p bs fsi strict g Hby H) as I. cbv zeta in I.
  destruct I as (_ & _ & Ha & Et & _ & Etc & _ & _ & Ed & _ & I12 & I32).
  cbv zeta. rewrite Etc, Et.
  assert (Htc2 : tc_v (bpb_deserialize bs) + 2 <= 4294967295).
  { unfold accepts in Ha. apply andb_true_iff in Ha. destruct Ha as [_ Ha]. apply ok_clusters_tc. assumption. }
  set (tc := tc_v (bpb_deserialize bs)) in *.
  assert (Hcase : is_Fat32 (fat_type_from_clusters tc) = true -> fat_type_from_clusters tc = Fat32)
    by (destruct (fat_type_from_clusters tc); intros E; try discriminate E; reflexivity).
  destruct (is_Fat32 (fat_type_from_clusters tc)) eqn:E32.
  - destruct (I32 eq_refl) as (fi0 & Hfi & Hfree & Hnext). clear I12 I32.
    pose proof (af_fat32 _ F E32) as (Hmax & _). fold tc in Hmax.
    unfold fsinfo_deserialize, corrupted, LEAD_SIG, STRUC_SIG, TRAIL_SIG in Hfi.
    destruct (len_N fsi <? 4); [discriminate|].
    destruct (u32_at fsi 0 =? 1096897106) eqn:S1; cbn [negb] in Hfi; [|discriminate].
    destruct (len_N fsi <? 488); [discriminate|].
    destruct (u32_at fsi 484 =? 1631679090) eqn:S2; cbn [negb] in Hfi; [|discriminate].
    destruct (len_N fsi <? 512) eqn:L3; [discriminate|].
    destruct (u32_at fsi 508 =? 2857697280) eqn:S3; cbn [negb] in Hfi; [|discriminate].
    injection Hfi as <-. cbn [fi_free fi_next] in Hfree, Hnext.
    assert (Efree : m_free g = (if m_dirty g then None else if u32_at fsi 488 <=? tc then Some (u32_at fsi 488) else None)).
    { rewrite Hfree. destruct (m_dirty g); [reflexivity|].
      destruct (u32_at fsi 488 =? 4294967295) eqn:Q; cbn [fix_opt].
      - b2p. destruct (u32_at fsi 488 <=? tc) eqn:Q2; [b2p; lia|reflexivity].
      - rewrite (N.leb_antisym tc (u32_at fsi 488)). destruct (tc <? u32_at fsi 488); reflexivity. }
    assert (Enext : m_next g = (if (2 <=? u32_at fsi 492) && (u32_at fsi 492 <=? tc + 2) then Some (u32_at fsi 492) else None)).
    { rewrite Hnext.
      destruct (u32_at fsi 492 =? 4294967295) eqn:Q; cbn [fix_opt].
      - b2p. destruct (u32_at fsi 492 <=? tc + 2) eqn:Q2; [b2p; lia|]. rewrite andb_false_r. reflexivity.
      - destruct (u32_at fsi 492 =? 0) eqn:Q0; cbn [orb fix_opt].
        + b2p. rewrite Q0. reflexivity.
        + destruct (u32_at fsi 492 =? 1) eqn:Q1; cbn [orb fix_opt].
          * b2p. rewrite Q1. reflexivity.
          * b2p. replace (2 <=? u32_at fsi 492) with true by (symmetry; apply N.leb_le; lia). cbn [andb].
            rewrite (N.leb_antisym (tc + 2) (u32_at fsi 492)). destruct (tc + 2 <? u32_at fsi 492); reflexivity. }
    repeat match goal with |- _ /\ _ => split end.
    + intros C. exfalso. apply C. apply Hcase. reflexivity.
    + intros _. b2p. unfold len_N in L3. b2p.
      repeat match goal with |- _ /\ _ => split end; try assumption. lia.
    + intros n Hn. rewrite Efree in Hn. destruct (m_dirty g); [discriminate|].
      destruct (u32_at fsi 488 <=? tc) eqn:Q; [|discriminate]. injection Hn as <-. b2p. split; [assumption|reflexivity].
    + intros n Hn. rewrite Enext in Hn.
      destruct ((2 <=? u32_at fsi 492) && (u32_at fsi 492 <=? tc + 2)) eqn:Q; [|discriminate].
      injection Hn as <-. b2p. lia.
    + lia.
  - destruct (I12 eq_refl) as [-> ->].
    repeat match goal with |- _ /\ _ => split end.
    + intros _. split; reflexivity.
    + intros C. rewrite C in E32. discriminate E32.
    + intros n Hn. discriminate Hn.
    + intros n Hn. discriminate Hn.
    + lia.
Qed.

(* ------------------------------------------------------------------ the executable coherence test is the predicate *)
Lemma mem_In x l : mem x l = true <-> In x l.
Proof.
  unfold mem. rewrite existsb_exists. split.
  - intros [y [Hy E]]. apply Z.eqb_eq in E. subst. assumption.
  - intros H. exists x. split; [assumption|apply Z.eqb_refl].
Qed.

Lemma zeqb_eqb_iff (a b c d : Z) : Bool.eqb (a =? b)%Z (c =? d)%Z = true <-> (a = b <-> c = d).
Proof.
  destruct (Z.eqb_spec a b), (Z.eqb_spec c d); cbn [Bool.eqb]; split; intros H; try reflexivity; try discriminate H;
    try tauto.
Qed.

Lemma coherentb_iff bs : coherentb bs = true <-> coherent bs.
Proof.
  unfold coherentb, coherent.
  generalize (BPB_BytsPerSec bs) (BPB_SecPerClus bs) (BPB_NumFATs bs) (FATSz bs) (BPB_RsvdSecCnt bs)
             (MetaSec bs) (TotSec bs) (BPB_FATSz16 bs) (CountofClusters bs) (fat_bits_of_count (CountofClusters bs))
             (BPB_RootClus bs) (BPB_FSInfo bs) (BPB_BkBootSec bs).
  intros bps spc nf fsz rs ms ts f16 cnt bits rc fi bk.
  rewrite !andb_true_iff, !mem_In, zeqb_eqb_iff, !Z.ltb_lt.
  assert (L : negb (bits =? 32)%Z || ((cnt <=? 268435455)%Z && (2 <=? rc)%Z && (rc <? cnt + 2)%Z && (fi <? rs)%Z && (bk <? rs)%Z) = true
              <-> (bits = 32%Z -> (cnt <= 268435455)%Z /\ (2 <= rc < cnt + 2)%Z /\ (fi < rs)%Z /\ (bk < rs)%Z)).
  { destruct (Z.eqb_spec bits 32) as [E|E]; cbn [negb orb].
    - rewrite !andb_true_iff, !Z.ltb_lt, !Z.leb_le. intuition.
    - split; [intros _ C; contradiction|reflexivity]. }
  rewrite L. tauto.
Qed.

(* ------------------------------------------------------------------ completeness: nothing else is rejected *)
Lemma accepts_complete bs : bytes bs -> (length bs >= 512)%nat -> coherent bs -> layout_ok bs ->
  accepts (bpb_deserialize bs) = true.
Proof.
  intros Hby Hlen C L. pose proof (bounded_deserialize bs Hby) as Hb.
  destruct C as (C1 & C2 & C3 & C4 & C5 & C6 & C7 & C8 & C9). destruct L as (L1 & L2 & L3).
  rewrite (spec_bps bs Hlen) in C1. rewrite (spec_spc bs Hlen) in C2.
  rewrite (spec_fats bs Hlen) in C3. rewrite (spec_fatsz bs Hlen) in C4. rewrite (spec_res bs Hlen) in C5.
  rewrite (spec_spf16 bs Hlen), (spec_re bs Hlen) in L1.
  rewrite (spec_spf16 bs Hlen), (spec_ts16 bs Hlen) in L2. rewrite (spec_ts16 bs Hlen), (spec_ts32 bs Hlen) in L3.
  rewrite (spec_spf16 bs Hlen) in C8.
  unfold BPB_FSVer in L2. rewrite field2 in L2 by lia.
  set (b := bpb_deserialize bs) in *.
  assert (Hbps : In (bytes_per_sector b) [512; 1024; 2048; 4096]) by (cbn [In] in *; lia).
  assert (Hspc : In (sectors_per_cluster b) [1; 2; 4; 8; 16; 32; 64; 128]) by (cbn [In] in *; lia).
  destruct (bps_range b Hbps) as [Hz Hle]. pose proof (spc_range b Hspc) as Hs.
  rewrite (spec_meta bs Hlen Hz), (spec_totsec bs Hlen) in C6. fold b in C6.
  assert (Hf : fds_v b < total_sectors b) by lia.
  rewrite (spec_count bs Hlen Hz) in C8, C9 by (fold b; lia). fold b in C8, C9.
  rewrite fat_bits_spec, bits32_iff in C8, C9.
  assert (Hf32 : is_fat32 b = is_Fat32 (fat_type_from_clusters (tc_v b))).
  { unfold is_fat32. destruct (is_Fat32 (fat_type_from_clusters (tc_v b))).
    - apply N.eqb_eq. destruct C8 as [_ C8]. specialize (C8 eq_refl). lia.
    - apply N.eqb_neq. intros E. destruct C8 as [C8 _]. rewrite E in C8. specialize (C8 eq_refl). discriminate C8. }
  unfold accepts. rewrite !andb_true_iff. repeat match goal with |- _ /\ _ => split end.
  - (* fs_version *)
    apply N.eqb_eq. unfold b, bpb_deserialize. cbn [fs_version].
    destruct (u16_at bs 22 =? 0) eqn:E; [|reflexivity]. b2p.
    assert (Z.of_N (sectors_per_fat_16 b) = 0%Z) as E' by (unfold b, bpb_deserialize; cbn [sectors_per_fat_16]; lia).
    destruct (L2 E') as [_ V]. lia.
  - unfold ok_bps. apply In4 in Hbps. destruct Hbps as [E|[E|[E|E]]]; rewrite E; reflexivity.
  - unfold ok_spc. apply In8 in Hspc.
    destruct Hspc as [E|[E|[E|[E|[E|[E|[E|E]]]]]]]; rewrite E; reflexivity.
  - unfold ok_reserved. apply andb_true_iff. split; [apply N.leb_le; lia|].
    destruct (is_fat32 b) eqn:E; cbn [negb orb]; [|reflexivity].
    destruct (C9 (eq_sym Hf32)) as (_ & _ & D1 & D2).
    destruct (spec_fat32_fields bs Hlen E) as (_ & F1 & F2). fold b in F1, F2.
    pose proof (spec_res bs Hlen) as R. fold b in R.
    apply andb_true_iff. split; apply N.ltb_lt; lia.
  - unfold ok_fats. apply negb_true_iff. apply N.eqb_neq. lia.
  - unfold ok_root_entries, is_fat32.
    destruct (sectors_per_fat_16 b =? 0) eqn:E1; destruct (root_entries b =? 0) eqn:E2; try reflexivity; b2p; exfalso; lia.
  - unfold ok_total_fields. apply andb_true_iff. split; [apply andb_true_iff; split|].
    + unfold is_fat32. destruct (sectors_per_fat_16 b =? 0) eqn:E1; cbn [negb orb]; [|reflexivity].
      b2p. apply N.eqb_eq. lia.
    + apply negb_true_iff. apply andb_false_iff.
      unfold total_sectors in Hf.
      destruct (total_sectors_16 b =? 0) eqn:E1; [right|left; reflexivity]. apply N.eqb_neq. lia.
    + destruct (total_sectors_16 b =? 0) eqn:E1; cbn [orb]; [reflexivity|].
      destruct (total_sectors_32 b =? 0) eqn:E2; cbn [orb]; [reflexivity|]. b2p. apply N.eqb_eq. lia.
  - unfold ok_fits. apply N.ltb_lt. assumption.
  - unfold ok_spf. apply negb_true_iff. apply andb_false_iff.
    unfold sectors_per_fat in C4. destruct (is_fat32 b); [right|left; reflexivity]. apply N.eqb_neq. lia.
  - unfold ok_clusters. cbv zeta. rewrite <- Hf32. rewrite eqb_reflx. cbn [andb].
    destruct (is_fat32 b) eqn:E; cbn [negb orb]; [|reflexivity].
    destruct (C9 (eq_sym Hf32)) as (D0 & D1 & _).
    destruct (spec_fat32_fields bs Hlen E) as (F0 & _). fold b in F0.
    rewrite !andb_true_iff. repeat match goal with |- _ /\ _ => split end; [apply N.leb_le|apply N.leb_le|apply N.ltb_lt]; lia.
Qed.

Definition fsinfo_sigs_ok (fsi : list N) : Prop :=
  (length fsi >= 512)%nat /\ u32_at fsi 0 = 0x41615252 /\ u32_at fsi 484 = 0x61417272 /\ u32_at fsi 508 = 0xAA550000.

Theorem mount_complete p bs fsi strict : bytes bs -> (length bs >= 512)%nat ->
  coherent bs -> layout_ok bs ->
  (strict = true -> byte_at bs 510 = 0x55 /\ byte_at bs 511 = 0xAA) ->
  (fat_bits_of_count (CountofClusters bs) = 32%Z -> fsinfo_sigs_ok fsi) ->
  exists g, mount p bs fsi strict = Ok g.
Proof.
  intros Hby Hlen C L Hsig Hfsi. pose proof (accepts_complete bs Hby Hlen C L) as Ha.
  pose proof (accepts_facts _ (bounded_deserialize bs Hby) Ha) as F.
  destruct (bps_range _ (af_bps _ F)) as [Hz _]. pose proof (af_fits _ F) as Hf.
  rewrite (spec_count bs Hlen Hz), fat_bits_spec, bits32_iff in Hfsi by lia.
  rewrite mount_eq by assumption. unfold mount_pure.
  replace (len_N bs <? 512) with false by (symmetry; apply N.ltb_ge; unfold len_N; lia).
  assert (Es : strict && negb (sig_ok bs) = false).
  { destruct strict; [|reflexivity]. destruct (Hsig eq_refl) as [S1 S2]. unfold sig_ok. rewrite S1, S2. reflexivity. }
  rewrite Es, Ha.
  destruct (is_Fat32 (fat_type_from_clusters (tc_v (bpb_deserialize bs)))).
  - destruct (Hfsi eq_refl) as (Hl & S1 & S2 & S3).
    unfold fsinfo_deserialize, LEAD_SIG, STRUC_SIG, TRAIL_SIG. rewrite S1, S2, S3.
    replace (len_N fsi <? 4) with false by (symmetry; apply N.ltb_ge; unfold len_N; lia).
    replace (len_N fsi <? 488) with false by (symmetry; apply N.ltb_ge; unfold len_N; lia).
    replace (len_N fsi <? 512) with false by (symmetry; apply N.ltb_ge; unfold len_N; lia).
    cbn [N.eqb Pos.eqb negb bind]. eexists. reflexivity.
  - cbn [bind]. eexists. reflexivity.
Qed.

Lemma bytes_of_forallb l : forallb (fun b => b <? 256) l = true -> bytes l.
Proof.
  intros H. apply Forall_forall. intros x Hx. rewrite forallb_forall in H. apply N.ltb_lt. apply H. assumption.
Qed.

(* [coherent] spelled out (used to display the statement in Props/C07.v) *)
Lemma coherent_unfolded : forall bs, coherent bs <->
  (In (BPB_BytsPerSec bs) [512; 1024; 2048; 4096] /\
   In (BPB_SecPerClus bs) [1; 2; 4; 8; 16; 32; 64; 128] /\
   0 < BPB_NumFATs bs /\ 0 < FATSz bs /\ 0 < BPB_RsvdSecCnt bs /\
   BPB_RsvdSecCnt bs + BPB_NumFATs bs * FATSz bs + RootDirSectors bs < TotSec bs /\ TotSec bs < 2 ^ 32 /\
   (BPB_FATSz16 bs = 0 <-> fat_bits_of_count (CountofClusters bs) = 32) /\
   (fat_bits_of_count (CountofClusters bs) = 32 ->
      CountofClusters bs <= 0x0FFFFFFF /\ 2 <= BPB_RootClus bs < CountofClusters bs + 2 /\
      BPB_FSInfo bs < BPB_RsvdSecCnt bs /\ BPB_BkBootSec bs < BPB_RsvdSecCnt bs))%Z.
Proof. intros bs. reflexivity. Qed.
