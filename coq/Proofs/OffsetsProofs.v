From Coq Require Import NArith ZArith Lia.
From FatVerif Require Import Model.Base Model.Offsets.
Open Scope N_scope.

(* every cluster of an accepted volume is addressed without any 32- or 64-bit overflow, at the offset the
   specification formula gives, and the whole cluster lies inside the declared volume *)
Theorem offset_arith_exact g c : ogeom_ok g -> 2 <= c < o_clusters g + 2 ->
  exists off, offset_from_cluster g c = Ok off /\
    off = (o_first_data g + (c - 2) * o_spc g) * o_bps g /\
    off + cluster_size g <= o_total_sectors g * o_bps g /\
    off + cluster_size g <= 4294967295 * 4096.
Proof.
  intros (Hbps & Hspc & Hts & Hfit & Hcl) Hc.
  unfold offset_from_cluster, sector_from_cluster, sectors_from_clusters, bytes_from_sectors,
         u32_sub, u32_mul, u32_add, u32_max, u64_max, cluster_size, two32 in *.
  assert ((c - 2) * o_spc g + o_spc g <= o_clusters g * o_spc g) as Hin by nia.
  destruct (2 <=? c) eqn:E1; [|apply N.leb_gt in E1; lia]. cbn [bind].
  destruct ((c - 2) * o_spc g <=? 4294967295) eqn:E2; [|apply N.leb_gt in E2; nia]. cbn [bind].
  destruct (o_first_data g + (c - 2) * o_spc g <=? 4294967295) eqn:E3; [|apply N.leb_gt in E3; nia]. cbn [bind].
  apply N.leb_le in E3.
  destruct ((o_first_data g + (c - 2) * o_spc g) * o_bps g <=? 18446744073709551615) eqn:E4; [|apply N.leb_gt in E4; nia].
  eexists; split; [reflexivity|]. split; [reflexivity|]. split; nia.
Qed.

(* the last cluster ends at or before the declared end, also beyond the 4 GiB and 1 TiB marks *)
Corollary last_cluster_inside g : ogeom_ok g -> 1 <= o_clusters g ->
  exists off, offset_from_cluster g (o_clusters g + 1) = Ok off /\ off + cluster_size g <= o_total_sectors g * o_bps g.
Proof.
  intros Hg Hc. destruct (offset_arith_exact g (o_clusters g + 1) Hg ltac:(lia)) as (off & H1 & _ & H3 & _).
  exists off; split; assumption.
Qed.

(* FAT entry offsets never wrap for any cluster number a valid volume can have (and the two reserved ones) *)
Theorem fat_entry_offsets_exact c : c <= 268435457 ->
  fat16_entry_offset c = Ok (2 * c) /\ fat32_entry_offset c = Ok (4 * c) /\ fat12_entry_offset c = Ok (c + c / 2).
Proof.
  intros H. unfold fat16_entry_offset, fat32_entry_offset, fat12_entry_offset, u32_mul, u32_add, u32_max.
  assert (c / 2 <= c) by (apply N.div_le_upper_bound; lia).
  destruct (c * 2 <=? 4294967295) eqn:E1; [|apply N.leb_gt in E1; lia].
  destruct (c * 4 <=? 4294967295) eqn:E2; [|apply N.leb_gt in E2; lia].
  destruct (c + c / 2 <=? 4294967295) eqn:E3; [|apply N.leb_gt in E3; lia].
  repeat split; f_equal; lia.
Qed.

Example big_volume_example :
  let g := {| o_bps := 512; o_spc := 64; o_first_data := 1048600; o_total_sectors := 4294967295; o_clusters := 67092448 |} in
  offset_from_cluster g 67092449 = Ok 2199022186496.
Proof. vm_compute. reflexivity. Qed.
