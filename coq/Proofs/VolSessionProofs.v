(* VolSessionProofs.v: the two image-level halves of the whole-volume refinement composed through the directory entry
   (Model/VolSession.v): create_file in the fixed root (VolDir) ; any history on the new handle (VolFile) ; File::flush.
   After the flush the independent decoder Spec/Abs.abs shows the file node WITH its content.

   Contents:
   0. file layer, generic store: released clusters are free; the editor changes only by becoming dirty
   1. one image-level step / run with the FAT-value frame (relative to the clusters that were free at the start)
   2. the decoder on an image that differs only in free clusters: intact trees decode alike
   3. the root scan when one short slot is rewritten with the same name and attribute bytes
   4. the session: create_file writes bytes, geometry, open, stamps, flush on the image, the node of the open file;
      session_core (the state at the flush) and session_flush_decodes (= C04_session_flush_decodes)
   6. counting free clusters and Spec/Wf.wf_issues around one file     7. a well-formed volume has no broken chain
   The composition with format_volume (C04_session_format_decodes) and the state BEFORE the flush
   (C03_session_deferred_writeback) are in Proofs/VolSessionFormat.v; examples in Proofs/VolSessionExamples.v. *)
From Coq Require Import NArith ZArith Lia List Bool FMapPositive.
From FatVerif Require Import Model.Base Model.Str Model.Slot Model.Time Model.Table Model.Fat Model.FileM Model.Name
  Model.ShortName Model.DirSlots Model.VolDir Model.VolFile Model.FlushM Model.VolSession Spec.Image Spec.Abs Spec.ByteFile
  Proofs.ImageProofs Proofs.TableProofs Proofs.FatProofs Proofs.FileProofs Proofs.CrossProofs Proofs.RegionsProofs
  Proofs.DirSlotsProofs Proofs.VolDirProofs Proofs.VolFileProofs.
From FatVerif Require Spec.Wf Proofs.TimeProofs Proofs.FormatImageAbs.
Import ListNotations.
Open Scope N_scope.
Ltac Zify.zify_post_hook ::= Z.to_euclidean_division_equations.

(* ================================================================ 0. file layer over a generic store *)
Section Generic.
Variable T : Type.
Variable get : T -> N -> res fatv.
Variable set : T -> N -> fatv -> res T.
Variable val : T -> N -> fatv.
Variable okc : N -> Prop.
Variable okv : fatv -> Prop.
Variable inv : T -> Prop.
Hypothesis get_val : forall t c, inv t -> okc c -> get t c = Ok (val t c).
Hypothesis set_ok : forall t c v, inv t -> okc c -> okv v ->
  exists t', set t c v = Ok t' /\ inv t' /\ val t' c = v /\ forall c', c' <> c -> okc c' -> val t' c' = val t c'.
Hypothesis okv_free : okv Free.
Hypothesis okv_eoc : okv Eoc.
Variable cs total : N.
Hypothesis Hcs : 0 < cs.
Hypothesis Hokc : forall x, 2 <= x < total + 2 -> okc x.
Hypothesis Hokd : forall n, 2 <= n < total + 2 -> okv (Data n).

Let FileInv := FileInv T val cs total.
Let WorldInv := WorldInv T val inv cs total.

Lemma chain_fun t : forall l1 c l2, chain T val t c l1 -> chain T val t c l2 -> l1 = l2.
Proof.
  intros l1 c l2 H. revert l2. induction H as [c Hn|c n l Hv Hc IH]; intros l2 H2; inversion H2; subst.
  - reflexivity.
  - exfalso. eapply Hn. eassumption.
  - exfalso. match goal with H : forall n, val t c <> Data n |- _ => eapply H; eassumption end.
  - match goal with H : val t c = Data ?m |- _ => rewrite Hv in H; injection H as <- end. f_equal. apply IH. assumption.
Qed.

Lemma FileInv_chain_unique w h s1 l1 s2 l2 : FileInv w h s1 l1 -> FileInv w h s2 l2 -> l1 = l2.
Proof.
  intros I1 I2. pose proof (inv_chain _ _ _ _ _ _ _ _ I1) as C1. pose proof (inv_chain _ _ _ _ _ _ _ _ I2) as C2.
  destruct (h_first h) as [f|]; [exact (chain_fun _ _ _ _ C1 C2)|congruence].
Qed.

(* a cluster that leaves the chain (truncate) is free afterwards *)
Lemma file_step_released w h sz l op w' h' r sz' l' :
  WorldInv w -> FileInv w h sz l -> file_step T get set cs total w h op = (w', h', r) -> FileInv w' h' sz' l' ->
  forall x, In x l -> ~ In x l' -> val (w_fat T w') x = Free.
Proof.
  intros W I Hs I' x Hx Hnx.
  assert (forall l'' s'', FileInv w' h' s'' l'' -> l'' = l') as U by (intros; eapply FileInv_chain_unique; eassumption).
  destruct op as [n|d|p|]; unfold file_step in Hs.
  - destruct (file_read_spec T get set val okc okv inv get_val set_ok cs total Hcs Hokc Hokd w h sz l n W I)
      as (h1 & bs & Hr & _ & _ & _ & _ & I1).
    rewrite Hr in Hs. cbn [of_res] in Hs. injection Hs as <- <- <-. rewrite <- (U _ _ I1) in Hnx. contradiction.
  - pose proof (file_write_spec T get set val okc okv inv get_val set_ok okv_eoc cs total Hcs Hokc Hokd w h sz l d W I) as Hw.
    destruct (file_write T get set cs total w h d) as [[[w1 h1] k]|e| |]; cbn [of_res] in Hs; [| |contradiction|contradiction].
    + injection Hs as <- <- <-. destruct Hw as (_ & _ & _ & l1 & Hl1 & I1 & _). rewrite <- (U _ _ I1) in Hnx.
      destruct Hl1 as [->|(c & -> & _)]; [contradiction|]. exfalso. apply Hnx. apply in_or_app. left. exact Hx.
    + injection Hs as <- <- <-. rewrite <- (U _ _ I) in Hnx. contradiction.
  - pose proof (file_seek_spec T get set val okc okv inv get_val set_ok cs total Hcs Hokc Hokd w h sz l p W I) as Hk.
    cbv zeta in Hk. destruct (Z.ltb_spec (seek_target sz (h_off h) p) 0) as [Hneg|Hpos].
    + rewrite Hk in Hs. cbn [of_res] in Hs. injection Hs as <- <- <-. rewrite <- (U _ _ I) in Hnx. contradiction.
    + destruct Hk as (h1 & Hr & _ & I1). rewrite Hr in Hs. cbn [of_res] in Hs. injection Hs as <- <- <-.
      rewrite <- (U _ _ I1) in Hnx. contradiction.
  - destruct (file_truncate_spec T get set val okc okv inv get_val set_ok okv_free okv_eoc cs total Hcs Hokc Hokd w h sz l W I)
      as (w1 & h1 & Hr & _ & _ & I1 & _ & _ & Hfree & _).
    rewrite Hr in Hs. cbn [of_res] in Hs. injection Hs as <- <- <-. rewrite <- (U _ _ I1) in Hnx.
    apply Hfree. rewrite <- (firstn_skipn (N.to_nat (cdiv cs (h_off h))) l) in Hx. apply in_app_or in Hx.
    destruct Hx as [Hx|Hx]; [contradiction|exact Hx].
Qed.

(* ---- the editor part of the handle changes only by becoming dirty *)
Definition emono (a b : option editor) : Prop := b = a \/ exists e, b = Some e /\ FileM.ed_dirty e = true.

Lemma emono_refl a : emono a a. Proof. left. reflexivity. Qed.
Lemma emono_trans a b c : emono a b -> emono b c -> emono a c.
Proof. intros [->|H1] [->|H2]; try (left; reflexivity); right; assumption. Qed.

Lemma ed_set_first_mono e c : ed_set_first e c = e \/ FileM.ed_dirty (ed_set_first e c) = true.
Proof. unfold ed_set_first. destruct (opt_N_eqb c (ed_first e)); [left|right]; reflexivity. Qed.
Lemma ed_set_size_mono e s : ed_set_size e s = e \/ FileM.ed_dirty (ed_set_size e s) = true.
Proof. unfold ed_set_size. destruct (ed_size e) as [n|]; [|left; reflexivity]. destruct (s =? n); [left|right]; reflexivity. Qed.

Lemma emono_some e e' : e' = e \/ FileM.ed_dirty e' = true -> emono (Some e) (Some e').
Proof. intros [->|H]; [left; reflexivity|right; eexists; split; [reflexivity|exact H]]. Qed.

Lemma h_set_first_mono h c : emono (h_entry h) (h_entry (h_set_first h c)).
Proof. unfold h_set_first. cbn [h_entry]. destruct (h_entry h) as [e|]; [|apply emono_refl]. apply emono_some, ed_set_first_mono. Qed.

Lemma h_after_write_mono h : emono (h_entry h) (h_entry (h_after_write h)).
Proof.
  unfold h_after_write. cbn [h_entry]. destruct (h_entry h) as [e|]; [|apply emono_refl]. apply emono_some.
  destruct (ed_size e) as [s|] eqn:E; [|left; reflexivity]. destruct (s <? h_off h); [apply ed_set_size_mono|left; reflexivity].
Qed.

Lemma file_step_emono w h op w' h' r : file_step T get set cs total w h op = (w', h', r) -> emono (h_entry h) (h_entry h').
Proof.
  destruct op as [n|d|p|]; unfold file_step.
  - unfold file_read.
    destruct (if h_off h mod cs =? 0 then next_cluster_of T get (w_fat T w) h else Ok (h_cur h)) as [[cc|]| | |];
      cbn [bind of_res]; try (intros H; injection H as <- <- <-; apply emono_refl).
    destruct (match h_size h with Some s => u32_sub s (h_off h) | None => Ok (cs - h_off h mod cs) end) as [blf| | |];
      cbn [bind of_res]; try (intros H; injection H as <- <- <-; apply emono_refl).
    destruct (N.min (N.min n (cs - h_off h mod cs)) blf =? 0); cbn [of_res]; [intros H; injection H as <- <- <-; apply emono_refl|].
    destruct (len_N _ =? 0); cbn [of_res]; intros H; injection H as <- <- <-; apply emono_refl.
  - unfold file_write.
    destruct (N.min (N.min (len_N d) (cs - h_off h mod cs)) (MAX_FILE_SIZE - h_off h) =? 0); cbn [of_res];
      [intros H; injection H as <- <- <-; apply emono_refl|].
    match goal with |- context [bind ?X _] => destruct X as [[[w1 h1] cc]| | |] eqn:E end;
      cbn [bind of_res]; try (intros H; injection H as <- <- <-; apply emono_refl).
    intros H. injection H as <- <- <-.
    apply emono_trans with (h_entry h1); [|apply (h_after_write_mono {| h_first := h_first h1; h_cur := Some cc; h_off := _; h_entry := h_entry h1 |})].
    destruct (h_off h mod cs =? 0).
    + destruct (next_cluster_of T get (w_fat T w) h) as [[nx|]| | |]; cbn [bind] in E; try discriminate.
      * injection E as <- <- <-. apply emono_refl.
      * destruct (fs_alloc T get set (w_fat T w) (w_fi T w) (h_cur h) total) as [[[t' fi'] c]| | |]; cbn [bind] in E; try discriminate.
        injection E as <- <- <-. destruct (h_first h); [apply emono_refl|apply h_set_first_mono].
    + destruct (h_cur h); [|discriminate]. injection E as <- <- <-. apply emono_refl.
  - unfold file_seek.
    match goal with |- context [match ?X with Some new => _ | None => Err EInvalidInput end] => destruct X as [new|] end;
      cbn [of_res]; [|intros H; injection H as <- <- <-; apply emono_refl].
    destruct (new =? h_off h); cbn [of_res]; [intros H; injection H as <- <- <-; apply emono_refl|].
    match goal with |- context [bind ?X _] => destruct X as [[new' cl]| | |] end;
      cbn [bind of_res]; intros H; injection H as <- <- <-; apply emono_refl.
  - unfold file_truncate. destruct (h_entry h) as [e|] eqn:He; cbn [of_res]; [|intros H; injection H as <- <- <-; rewrite He; apply emono_refl].
    assert (emono (Some e) (Some (if h_off h =? 0 then ed_set_first (ed_set_size e (h_off h)) None else ed_set_size e (h_off h)))) as M.
    { destruct (h_off h =? 0).
      - apply emono_trans with (Some (ed_set_size e (h_off h))); apply emono_some; [apply ed_set_size_mono|apply ed_set_first_mono].
      - apply emono_some, ed_set_size_mono. }
    destruct (h_cur h) as [c|].
    + destruct (h_off h =? 0) eqn:E0; cbn [of_res]; [intros H; injection H as <- <- <-; rewrite He; apply emono_refl|].
      destruct (fs_truncate_chain T get set (w_fat T w) (w_fi T w) c (FileM.chain_fuel total)) as [[t' fi']| | |];
        cbn [bind of_res]; intros H; injection H as <- <- <-; cbn [h_entry]; try (rewrite He; apply emono_refl). exact M.
    + destruct (negb (h_off h =? 0)); cbn [of_res]; [intros H; injection H as <- <- <-; rewrite He; apply emono_refl|].
      destruct (h_first h) as [f|].
      * destruct (fs_free_chain T get set (w_fat T w) (w_fi T w) f (FileM.chain_fuel total)) as [[t' fi']| | |];
          cbn [bind of_res]; intros H; injection H as <- <- <-; cbn [h_entry]; try (rewrite He; apply emono_refl). exact M.
      * cbn [of_res]. intros H. injection H as <- <- <-. cbn [h_entry]. exact M.
Qed.
End Generic.

(* ================================================================ 1. the image-level machine, with the FAT-value frame *)
Section VolPlus.
Variable g : geom.
Hypothesis Hok : vgeom_ok g.

Let ft := ft_of g.
Let csz := g_cluster_size g.
Let total := g_clusters g.

Lemma fat_val_of_store im im' x : x < 268435447 ->
  val_ft ft (store_of g im') x = val_ft ft (store_of g im) x -> fat_val g im' x = fat_val g im x.
Proof.
  intros Hx E. apply fatv_of_inj. rewrite (fat_val_store g im' x Hx), (fat_val_store g im x Hx). exact E.
Qed.

(* ONE STEP (Proofs/VolFileProofs.vol_step_refines) with three more conclusions: the decoder's FAT value of every cluster
   outside the old and the new chain is unchanged; a cluster that leaves the chain is free afterwards; the handle's editor
   is the old one unless it is dirty *)
Theorem vol_step_plus im fi h sz l op :
  op_ok op -> VolInv g im fi h sz l ->
  exists im' fi' h' r sz' l', vol_step g (im, fi, h) op = ((im', fi', h'), r) /\
    VolInv g im' fi' h' sz' l' /\
    bf_step (vol_content g im l sz, h_off h) op r = Some (vol_content g im' l' sz', h_off h') /\
    (forall x, In x l' -> In x l \/ fat_val g im x = FFree) /\
    (forall a, ~ in_store_area g a -> (forall c, In c l' -> ~ in_cluster g c a) -> img_get im' a = img_get im a) /\
    (forall x, 2 <= x < total + 2 -> ~ In x l -> ~ In x l' -> fat_val g im' x = fat_val g im x) /\
    (forall x, In x l -> ~ In x l' -> fat_val g im' x = FFree) /\
    emono (h_entry h) (h_entry h').
Proof.
  intros Ho (Hb & W & I & NB).
  destruct (vstep_core g Hok (world_of g im fi) h sz l op W I NB)
    as (w' & h' & r & sz' & l' & Hs & W' & I' & NB' & Hbf & Hl' & Hds & G & Hout & Hvfr & _).
  set (im' := data_effect g (fs_img (w_fat fstore w')) h h' op r).
  assert (Embeds g im' w') as E'.
  { apply (embeds_step g Hok im (fs_img (w_fat fstore w')) (world_of g im fi) w' h h' op r (embeds_world_of g im fi) G Hds).
    - intros cc Hc. apply (inv_range _ _ _ _ _ _ _ _ I' cc). exact (inv_cur_in _ _ _ _ _ _ _ _ _ I' Hc).
    - intros a _. reflexivity.
    - intros a Ha. exact (Hout a Ha). }
  assert (FatProofs.bytes_ok im') as Hb'.
  { apply data_effect_bytes_ok; [exact Ho|]. destruct W' as ((_ & _ & _ & B) & _). exact B. }
  destruct (embeds_transfer g Hok im' w' h' sz' l' Hb' E' W' I') as (W2 & I2 & Hc2 & NB2).
  assert (forall x, In x l -> ~ In x l' -> val_ft ft (w_fat fstore w') x = Free) as Hrel.
  { pose proof (vol_mirrors_pos g Hok) as Hm. pose proof (cs_pos g Hok) as Hcs. destruct (Hrange g Hok) as (Hokc & Hokd).
    destruct W as (Wi & Wf & Wd).
    set (s0 := w_fat fstore (world_of g im fi)) in *.
    assert (forall n, 2 <= n < total + 2 -> okv_step ft (Data n)) as Hokd'
      by (intros n Hn; split; [exact (Hokd n Hn)|discriminate]).
    assert (FileProofs.WorldInv fstore (val_ft ft) (inv_step ft (vol_base g) (g_fat_bytes g) (vol_mirrors g) s0) csz total
              (world_of g im fi)) as W0.
    { split; [|split; [exact Wf|exact Wd]]. apply inv_step_refl. exact Wi. }
    exact (file_step_released fstore (fat_get ft) (fat_set ft) (val_ft ft) (okcg ft (g_fat_bytes g)) (okv_step ft)
             (inv_step ft (vol_base g) (g_fat_bytes g) (vol_mirrors g) s0)
             (law_step_get ft (vol_base g) (g_fat_bytes g) (vol_mirrors g) s0)
             (law_step_set ft (vol_base g) (g_fat_bytes g) (vol_mirrors g) Hm s0) (okv_step_free ft) (okv_step_eoc ft)
             csz total Hcs Hokc Hokd' (world_of g im fi) h sz l op w' h' r sz' l' W0 I Hs I'). }
  exists im', (w_fi fstore w'), h', r, sz', l'.
  split.
  { unfold vol_step. rewrite Hs. reflexivity. }
  split; [split; [exact Hb'|split; [exact W2|split; [exact I2|exact (NB2 NB')]]]|].
  split; [|split; [|split; [|split; [|split]]]].
  - rewrite <- (content_world_of g im fi), <- (content_world_of g im' (w_fi fstore w')), Hc2. exact Hbf.
  - intros x Hx. destruct (Hl' x Hx) as [Hin|(Hf & R)]; [left; exact Hin|right]. apply (free_decoded g Hok); assumption.
  - intros a Ha Hcl. unfold im'. rewrite (data_effect_frame g _ _ _ _ _ _ _ _ _ a Hds I' Hcl). exact (Hout a Ha).
  - intros x R H1 H2. apply fat_val_of_store; [exact (range_small g x Hok R)|].
    unfold ft. rewrite (embeds_val_range g Hok im' w' x E' R). rewrite (Hvfr x H1 H2 R). reflexivity.
  - intros x H1 H2. destruct (inv_range _ _ _ _ _ _ _ _ I x H1) as (R & _).
    apply (free_decoded g Hok im' x R). rewrite (embeds_val_range g Hok im' w' x E' R). exact (Hrel x H1 H2).
  - exact (file_step_emono fstore (fat_get ft) (fat_set ft) csz total _ _ _ _ _ _ Hs).
Qed.

(* ---- what a run may touch, relative to the image [im0] the session started from: only the FAT copies and clusters that
   were FREE in [im0] *)
Definition free0 (im0 : image) (x : N) : Prop := fat_val g im0 x = FFree.

Record RunFrame (im0 im : image) (l : list N) : Prop := {
  rf_chain : forall x, In x l -> free0 im0 x;
  rf_fat : forall x, 2 <= x < total + 2 -> ~ free0 im0 x -> fat_val g im x = fat_val g im0 x;
  rf_bytes : forall a, ~ in_store_area g a ->
               (forall c, 2 <= c < total + 2 -> free0 im0 c -> ~ in_cluster g c a) -> img_get im a = img_get im0 a;
  rf_else : forall x, 2 <= x < total + 2 -> ~ In x l -> free0 im0 x -> free0 im x }.

Lemma run_frame_start im0 : RunFrame im0 im0 [].
Proof. constructor; [intros x []|reflexivity|reflexivity|]. intros x _ _ H. exact H. Qed.

Lemma run_frame_step im0 im fi h sz l im' fi' h' sz' l' :
  VolInv g im fi h sz l -> VolInv g im' fi' h' sz' l' ->
  (forall x, In x l' -> In x l \/ fat_val g im x = FFree) ->
  (forall a, ~ in_store_area g a -> (forall c, In c l' -> ~ in_cluster g c a) -> img_get im' a = img_get im a) ->
  (forall x, 2 <= x < total + 2 -> ~ In x l -> ~ In x l' -> fat_val g im' x = fat_val g im x) ->
  (forall x, In x l -> ~ In x l' -> fat_val g im' x = FFree) ->
  RunFrame im0 im l -> RunFrame im0 im' l'.
Proof.
  intros V V' Hl' Hby Hfv Hrel [F1 F2 F3 F4].
  assert (forall x, In x l' -> 2 <= x < total + 2) as R'.
  { intros x Hx. destruct V' as (_ & _ & I' & _). apply (inv_range _ _ _ _ _ _ _ _ I' x Hx). }
  assert (forall x, In x l' -> free0 im0 x) as F1'.
  { intros x Hx. destruct (Hl' x Hx) as [Hin|Hf]; [exact (F1 x Hin)|].
    unfold free0. destruct (fat_val g im0 x) eqn:E0; try reflexivity; exfalso;
      (assert (~ free0 im0 x) as Hn by (unfold free0; rewrite E0; discriminate));
      rewrite (F2 x (R' x Hx) Hn), E0 in Hf; discriminate. }
  constructor.
  - exact F1'.
  - intros x R Hn. rewrite <- (F2 x R Hn). apply Hfv; [exact R| |]; intros Hin; apply Hn; [exact (F1 x Hin)|exact (F1' x Hin)].
  - intros a Ha Hc. rewrite <- (F3 a Ha Hc). apply Hby; [exact Ha|]. intros c Hin. exact (Hc c (R' c Hin) (F1' c Hin)).
  - intros x R Hn H0. destruct (in_dec N.eq_dec x l) as [Hin|Hnin].
    + exact (Hrel x Hin Hn).
    + unfold free0. rewrite (Hfv x R Hnin Hn). exact (F4 x R Hnin H0).
Qed.

(* HISTORIES, with the frame relative to the starting image and the editor *)
Theorem vol_run_plus im0 : forall ops im fi h sz l,
  Forall op_ok ops -> VolInv g im fi h sz l -> RunFrame im0 im l ->
  exists im' fi' h' rs sz' l', vol_run g (im, fi, h) ops = ((im', fi', h'), rs) /\
    VolInv g im' fi' h' sz' l' /\
    bf_run (vol_content g im l sz, h_off h) ops rs = Some (vol_content g im' l' sz', h_off h') /\
    chain_decodes g im' (h_first h') l' /\
    RunFrame im0 im' l' /\ emono (h_entry h) (h_entry h').
Proof.
  induction ops as [|o ops IH]; intros im fi h sz l Hf V F.
  - exists im, fi, h, [], sz, l. split; [reflexivity|]. split; [exact V|]. split; [reflexivity|].
    split; [exact (vol_inv_decodes g Hok _ _ _ _ _ V)|]. split; [exact F|apply emono_refl].
  - inversion Hf as [|? ? Ho Hf']; subst.
    destruct (vol_step_plus im fi h sz l o Ho V) as (im1 & fi1 & h1 & r & sz1 & l1 & Hs & V1 & Hb & A1 & A2 & A3 & A4 & A5).
    pose proof (run_frame_step im0 im fi h sz l im1 fi1 h1 sz1 l1 V V1 A1 A2 A3 A4 F) as F1.
    destruct (IH im1 fi1 h1 sz1 l1 Hf' V1 F1) as (im2 & fi2 & h2 & rs & sz2 & l2 & Hr & V2 & Hbr & Hd & F2 & M2).
    exists im2, fi2, h2, (r :: rs), sz2, l2. split.
    + cbn [vol_run]. rewrite Hs, Hr. reflexivity.
    + split; [exact V2|]. split; [cbn [bf_run]; rewrite Hb; exact Hbr|]. split; [exact Hd|].
      split; [exact F2|exact (emono_trans _ _ _ A5 M2)].
Qed.
End VolPlus.

(* ================================================================ 2. the decoder on an image that differs only in free clusters *)
Definition is_some {A} (o : option A) : bool := match o with Some _ => true | None => false end.

(* no entry of the tree has a broken cluster chain (the C03 clause WChainBroken, for files of any size): every node that
   names a first cluster has a chain the decoder could follow to its end *)
Fixpoint node_intact (n : node) : bool :=
  match n with
  | NDot _ => true
  | NFile e ch _ => (e_cluster e =? 0) || is_some ch
  | NDir e ch children _ _ =>
    ((e_cluster e =? 0) || is_some ch)
    && (fix sub (cs : list node) : bool := match cs with [] => true | c :: cr => node_intact c && sub cr end) children
  end.

Lemma node_intact_dir e ch children iss labels :
  node_intact (NDir e ch children iss labels) = ((e_cluster e =? 0) || is_some ch) && forallb node_intact children.
Proof.
  reflexivity.
Qed.

(* [im'] holds the FAT value and the data of every cluster that is not free in [im] *)
Definition same_nonfree (g : geom) (im im' : image) : Prop :=
  forall x, in_range g x = true -> fat_val g im x <> FFree ->
    fat_val g im' x = fat_val g im x /\ cluster_bytes g im' x = cluster_bytes g im x.

Lemma chain_from_nonfree g im im' : same_nonfree g im im' ->
  forall fuel c l, chain_from g im c fuel = Some l ->
    chain_from g im' c fuel = Some l /\ chain_bytes g im' l = chain_bytes g im l.
Proof.
  intros H. induction fuel as [|f IH]; intros c l; cbn [chain_from]; [discriminate|].
  destruct (in_range g c) eqn:R; [|discriminate].
  destruct (fat_val g im c) as [| | |n] eqn:E; try discriminate.
  - intros X. injection X as <-. destruct (H c R ltac:(rewrite E; discriminate)) as [F B]. rewrite F, E.
    split; [reflexivity|]. unfold chain_bytes. cbn [flat_map]. rewrite B. reflexivity.
  - destruct (chain_from g im n f) as [l0|] eqn:C; [|discriminate]. intros X. injection X as <-.
    destruct (H c R ltac:(rewrite E; discriminate)) as [F B]. rewrite F, E.
    destruct (IH n l0 C) as [C' B']. rewrite C'. split; [reflexivity|].
    unfold chain_bytes in *. cbn [flat_map]. rewrite B, B'. reflexivity.
Qed.

Lemma node_of_nonfree g im im' d e : same_nonfree g im im' ->
  (forall ces, forallb node_intact (decode_entries g im d ces) = true -> decode_entries g im' d ces = decode_entries g im d ces) ->
  node_intact (node_of g im d e) = true -> node_of g im' d e = node_of g im d e.
Proof.
  intros H IH. unfold node_of. destruct (e_is_dot e); [reflexivity|].
  destruct (e_cluster e =? 0) eqn:Z.
  - reflexivity.
  - destruct (chain_from g im (e_cluster e) (chain_fuel g)) as [l|] eqn:C.
    + destruct (chain_from_nonfree g im im' H _ _ _ C) as [C' B']. rewrite C', B'.
      destruct (e_is_dir e); [|reflexivity].
      destruct (dir_scan (slots_of (chain_bytes g im l)) 0 [] (g_bits g =? 32)) as [[ces labels] iss].
      rewrite node_intact_dir. intros X. apply andb_true_iff in X. destruct X as [_ X]. rewrite (IH ces X). reflexivity.
    + destruct (e_is_dir e); cbn [node_intact is_some]; rewrite Z; cbn [orb andb]; discriminate.
Qed.

(* THE DECODE FRAME: a tree without broken chains decodes alike on both images *)
Theorem decode_entries_nonfree g im im' : same_nonfree g im im' ->
  forall d es, forallb node_intact (decode_entries g im d es) = true -> decode_entries g im' d es = decode_entries g im d es.
Proof.
  intros H. induction d as [|d IH]; intros es; [reflexivity|].
  rewrite !decode_entries_S. intros X. rewrite forallb_forall in X.
  apply map_ext_in. intros e He. apply (node_of_nonfree g im im' d e H IH). apply X. apply in_map. exact He.
Qed.

(* what a run leaves alone is what the decoder needs *)
Lemma run_frame_nonfree g (Hok : vgeom_ok g) im0 im l : RunFrame g im0 im l -> same_nonfree g im0 im.
Proof.
  intros [F1 F2 F3 _] x R Hn. apply in_range_iff in R. split; [exact (F2 x R Hn)|].
  unfold cluster_bytes. apply img_read_ext. intros i Hi. rewrite N2Nat.id in Hi.
  assert (in_cluster g x (g_cluster_off g x + i)) as Hin by (unfold in_cluster; lia).
  apply F3.
  - exact (cluster_above_area g x _ Hok ltac:(lia) Hin).
  - intros c Rc Fc Hc. apply (clusters_disjoint g c x (g_cluster_off g x + i)); [lia|lia| |exact Hc|exact Hin].
    intros ->. exact (Hn Fc).
Qed.

(* ================================================================ 3. rewriting one short slot of a directory *)
Lemma nth_firstn_lt : forall n i (l : list N) d, (i < n)%nat -> nth i (firstn n l) d = nth i l d.
Proof.
  induction n as [|n IH]; intros i l d Hi; [lia|]. destruct l as [|x l]; [reflexivity|].
  destruct i as [|i]; [reflexivity|]. cbn [firstn nth]. apply IH. lia.
Qed.

Lemma firstn12_byte (s s' : list N) i : (i < 12)%nat -> firstn 12 s' = firstn 12 s -> byte_at s' i = byte_at s i.
Proof. intros Hi E. unfold byte_at. rewrite <- (nth_firstn_lt 12 i s' 0 Hi), <- (nth_firstn_lt 12 i s 0 Hi), E. reflexivity. Qed.

Lemma firstn12_name (s s' : list N) : firstn 12 s' = firstn 12 s -> firstn 11 s' = firstn 11 s.
Proof.
  intros E. assert (firstn 11 (firstn 12 s') = firstn 11 (firstn 12 s)) as X by (rewrite E; reflexivity).
  rewrite !firstn_firstn in X. exact X.
Qed.

Lemma mk_entry_same_ok pend s s' idx f : firstn 12 s' = firstn 12 s ->
  e_lfn_ok (mk_entry pend s' idx f) = e_lfn_ok (mk_entry pend s idx f).
Proof. intros E. unfold mk_entry. cbn [e_lfn_ok]. rewrite (firstn12_name s s' E). reflexivity. Qed.

(* the root scan lists the entry [e]: its short slot is slot [k]; when the slot is replaced by 32 bytes that agree with it
   on the name and attribute bytes, the scan lists the same entries, labels and issues, with [e] re-read from the new bytes
   behind the same pending long-name run [pk] *)
Lemma dir_scan_rewrite f : forall ss idx pend es ls iss, dir_scan ss idx pend f = (es, ls, iss) ->
  forall es1 e es2, es = es1 ++ e :: es2 ->
  exists k pk, (k < length ss)%nat /\ e_sfn_slot e = idx + N.of_nat k /\
    e = mk_entry pk (nth k ss []) (idx + N.of_nat k) f /\
    forall s', firstn 12 s' = firstn 12 (nth k ss []) ->
      dir_scan (set_nth k s' ss) idx pend f = (es1 ++ mk_entry pk s' (idx + N.of_nat k) f :: es2, ls, iss).
Proof.
  induction ss as [|s r IH]; intros idx pend es ls iss H es1 e es2 E.
  - cbn [dir_scan] in H. injection H as <- _ _. destruct es1; discriminate.
  - cbn [dir_scan] in H.
    assert (forall idx' pend' es' ls' iss' (wrap : list dissue -> list dissue) (wl : list (list N) -> list (list N)),
              dir_scan r idx' pend' f = (es', ls', iss') -> es' = es1 ++ e :: es2 -> idx' = idx + 1 ->
              (forall s' k, firstn 12 s' = firstn 12 (nth k r []) ->
                 dir_scan (set_nth (S k) s' (s :: r)) idx pend f =
                 (let '(a, b, c) := dir_scan (set_nth k s' r) idx' pend' f in (a, wl b, wrap c))) ->
              exists k pk, (k < length (s :: r))%nat /\ e_sfn_slot e = idx + N.of_nat k /\
                e = mk_entry pk (nth k (s :: r) []) (idx + N.of_nat k) f /\
                forall s', firstn 12 s' = firstn 12 (nth k (s :: r) []) ->
                  dir_scan (set_nth k s' (s :: r)) idx pend f =
                  (es1 ++ mk_entry pk s' (idx + N.of_nat k) f :: es2, wl ls', wrap iss')) as REC.
    { intros idx' pend' es' ls' iss' wrap wl Hr Ees -> Hstep.
      destruct (IH _ _ _ _ _ Hr es1 e es2 Ees) as (k & pk & Hk & Hslot & He & Hrw).
      exists (S k), pk. cbn [length nth].
      replace (idx + N.of_nat (S k)) with (idx + 1 + N.of_nat k) by lia.
      split; [lia|]. split; [exact Hslot|]. split; [exact He|].
      intros s' Hs'. rewrite (Hstep s' k Hs'). rewrite (Hrw s' Hs'). reflexivity. }
    destruct (byte_at s 0 =? 0) eqn:B0.
    { injection H as <- _ _. destruct es1; discriminate. }
    destruct (byte_at s 0 =? 229) eqn:B1.
    { destruct (dir_scan r (idx + 1) [] f) as [[es' ls'] iss'] eqn:Hr. injection H as <- <- <-.
      apply (REC (idx + 1) [] es' ls' iss' (fun c => (match pend with [] => [] | _ => [DOrphanLfn idx] end) ++ c) (fun b => b) Hr E eq_refl).
      intros s' k _. cbn [set_nth dir_scan]. rewrite B0, B1. reflexivity. }
    destruct (is_lfn_slot s) eqn:B2.
    { destruct (lfn_starts s && match pend with [] => false | _ => true end) eqn:B3.
      - destruct (dir_scan r (idx + 1) [s] f) as [[es' ls'] iss'] eqn:Hr. injection H as <- <- <-.
        apply (REC (idx + 1) [s] es' ls' iss' (fun c => DOrphanLfn idx :: c) (fun b => b) Hr E eq_refl).
        intros s' k _. cbn [set_nth dir_scan]. rewrite B0, B1, B2, B3. reflexivity.
      - destruct (dir_scan r (idx + 1) (s :: pend) f) as [[es' ls'] iss'] eqn:Hr. injection H as <- <- <-.
        apply (REC (idx + 1) (s :: pend) es' ls' iss' (fun c => c) (fun b => b) Hr E eq_refl).
        intros s' k _. cbn [set_nth dir_scan]. rewrite B0, B1, B2, B3.
        destruct (dir_scan (set_nth k s' r) (idx + 1) (s :: pend) f) as [[? ?] ?]. reflexivity. }
    destruct (is_label_slot s) eqn:B4.
    { destruct (dir_scan r (idx + 1) [] f) as [[es' ls'] iss'] eqn:Hr. injection H as <- <- <-.
      apply (REC (idx + 1) [] es' ls' iss' (fun c => (match pend with [] => [] | _ => [DOrphanLfn idx] end) ++ c)
               (fun b => firstn 11 s :: b) Hr E eq_refl).
      intros s' k _. cbn [set_nth dir_scan]. rewrite B0, B1, B2, B4. reflexivity. }
    destruct (dir_scan r (idx + 1) [] f) as [[es' ls'] iss'] eqn:Hr. injection H as <- <- <-.
    destruct es1 as [|e0 es1].
    + cbn [app] in E. injection E as <- <-.
      exists 0%nat, pend. cbn [length nth N.of_nat]. rewrite N.add_0_r.
      split; [lia|]. split; [reflexivity|]. split; [reflexivity|].
      intros s' Hs'. cbn [set_nth dir_scan app].
      rewrite (firstn12_byte s s' 0 ltac:(lia) Hs'), B0, B1.
      unfold is_lfn_slot, is_label_slot in *. rewrite (firstn12_byte s s' 11 ltac:(lia) Hs'), B2, B4.
      rewrite Hr. rewrite (mk_entry_same_ok pend s s' idx f Hs'). reflexivity.
    + cbn [app] in E. injection E as <- E.
      destruct (IH _ _ _ _ _ Hr es1 e es2 E) as (k & pk & Hk & Hslot & He & Hrw).
      exists (S k), pk. cbn [length nth]. replace (idx + N.of_nat (S k)) with (idx + 1 + N.of_nat k) by lia.
      split; [lia|]. split; [exact Hslot|]. split; [exact He|].
      intros s' Hs'. cbn [set_nth dir_scan]. rewrite B0, B1, B2, B4. rewrite (Hrw s' Hs'). reflexivity.
Qed.


(* ================================================================ 4. the session *)
(* ---------------------------------------------------------------- 4a. create_file writes bytes (values below 256) *)
Notation lt256 := (fun b : N => b < 256).

Lemma u16_bytes_lt v : Forall lt256 (u16_bytes v).
Proof. unfold u16_bytes. repeat constructor; lia. Qed.
Lemma u32_bytes_lt v : Forall lt256 (u32_bytes v).
Proof. unfold u32_bytes. repeat constructor; lia. Qed.
Lemma flat_u16_lt l : Forall lt256 (flat_map u16_bytes l).
Proof. induction l as [|x l IH]; cbn [flat_map]; [constructor|]. apply Forall_app. split; [apply u16_bytes_lt|exact IH]. Qed.

Lemma lfn_encode_lt e : le_order e < 256 -> le_attrs e < 256 -> le_entry_type e < 256 -> le_checksum e < 256 ->
  Forall lt256 (lfn_encode e).
Proof.
  intros H1 H2 H3 H4. unfold lfn_encode. cbn zeta.
  repeat (apply Forall_app; split); try apply flat_u16_lt; try apply u16_bytes_lt; repeat constructor; assumption.
Qed.

Lemma lfn_checksum_lt name : lfn_checksum name < 256.
Proof.
  unfold lfn_checksum.
  assert (forall l acc, acc < 256 -> fold_left (fun ck b => (ck * 128 mod 256 + ck / 2 + b) mod 256) l acc < 256) as X.
  { induction l as [|b l IH]; intros acc H; cbn [fold_left]; [exact H|]. apply IH. lia. }
  apply X. lia.
Qed.

Lemma lor64_lt x : x < 256 -> N.lor x 64 < 256.
Proof.
  intros H. assert (forallb (fun n => N.lor (N.of_nat n) 64 <? 256) (seq 0 256) = true) as X by (vm_compute; reflexivity).
  rewrite forallb_forall in X. specialize (X (N.to_nat x)). rewrite N2Nat.id in X. apply N.ltb_lt. apply X.
  apply in_seq. lia.
Qed.

Lemma lfn_gen_fields ck : forall parts num index e, In e (lfn_gen parts num index ck) ->
  le_order e < 256 /\ le_attrs e = 15 /\ le_entry_type e = 0 /\ le_checksum e = ck.
Proof.
  induction parts as [|p r IH]; intros num index e H; cbn [lfn_gen] in H; [contradiction|].
  destruct H as [<-|H]; [|exact (IH _ _ _ H)]. cbn [lfn_new le_order le_attrs le_entry_type le_checksum].
  split; [|repeat split]. unfold LFN_LAST_FLAG. destruct (index =? 0); [apply lor64_lt|]; lia.
Qed.

Lemma sfn_part_ok_lt : forall l, sfn_part_ok l = true -> Forall lt256 l.
Proof.
  induction l as [|b r IH]; intros H; [constructor|]. cbn [sfn_part_ok] in H. unfold SFN_PADDING in H.
  destruct (N.eqb_spec b 32) as [->|_].
  - constructor; [lia|]. rewrite forallb_forall in H. apply Forall_forall. intros x Hx. specialize (H x Hx).
    apply N.eqb_eq in H. lia.
  - apply andb_true_iff in H. destruct H as [H1 H2]. constructor; [|exact (IH H2)].
    unfold sfn_byte_ok in H1. rewrite !orb_true_iff, !andb_true_iff, !N.leb_le in H1.
    destruct H1 as [[H1|H1]|H1]; try lia.
    apply existsb_exists in H1. destruct H1 as (x & Hx & E). apply N.eqb_eq in E. subst x.
    assert (Forall lt256 sfn_punct) as P by (unfold sfn_punct; repeat constructor; lia).
    rewrite Forall_forall in P. exact (P b Hx).
Qed.

Lemma sfn_legal_lt a : sfn_legal_b a = true -> Forall lt256 a.
Proof.
  unfold sfn_legal_b. rewrite !andb_true_iff. intros [[[_ H2] H3] _].
  rewrite <- (firstn_skipn 8 a). apply Forall_app. split; apply sfn_part_ok_lt; assumption.
Qed.

Lemma sfn_encode_lt e : sfn_fields_ok e -> Forall lt256 (se_name e) -> Forall lt256 (sfn_encode e).
Proof.
  intros [H1 H2 H3 H4 H5 H6 H7 H8 H9 H10 H11 H12] Hn. unfold sfn_encode.
  repeat (apply Forall_app; split); try apply u16_bytes_lt; try apply u32_bytes_lt; try exact Hn.
  repeat constructor; lia.
Qed.

Lemma entry_run_lt n e : sfn_fields_ok e -> Forall lt256 (se_name e) -> Forall (Forall lt256) (entry_run n e).
Proof.
  intros F Hn. unfold entry_run. apply Forall_app. split.
  - apply Forall_forall. intros s Hs. apply in_map_iff in Hs. destruct Hs as [le [<- Hle]].
    unfold write_entry_lfn_slots in Hle. destruct (is_dot_name n); [contradiction|]. unfold lfn_entries in Hle.
    destruct (lfn_gen_fields _ _ _ _ _ Hle) as (O & A & Ty & Ck).
    apply lfn_encode_lt; [exact O|rewrite A; lia|rewrite Ty; lia|rewrite Ck; apply lfn_checksum_lt].
  - constructor; [|constructor]. apply sfn_encode_lt; assumption.
Qed.

Lemma set_nth_Forall {A} (P : A -> Prop) s : P s -> forall ss i, Forall P ss -> Forall P (set_nth i s ss).
Proof.
  intros Hs. induction ss as [|t r IH]; intros i H; [destruct i; exact H|].
  inversion H as [|? ? T1 T2]; subst. destruct i as [|j]; cbn [set_nth]; constructor; auto.
Qed.

Lemma write_run_fixed_Forall (P : list N -> Prop) free : forall run ss i r ss', Forall P run -> Forall P ss ->
  write_run FixedRoot free ss i run = (r, ss') -> Forall P ss'.
Proof.
  induction run as [|s run IH]; intros ss i r ss' Hr Hs H; cbn [write_run] in H.
  - injection H as _ <-. exact Hs.
  - inversion Hr as [|? ? R1 R2]; subst. destruct (Nat.ltb i (length ss)).
    + apply (IH _ _ _ _ R2 (set_nth_Forall P s R1 ss i Hs) H).
    + injection H as _ <-. exact Hs.
Qed.

Lemma create_entry_fixed_bytes upper oem free ss name now wd r ss' : TimeProofs.datetime_valid now = true ->
  Forall (Forall lt256) ss ->
  create_entry upper oem false FixedRoot free ss name 0 None now wd = (r, ss') -> Forall (Forall lt256) ss'.
Proof.
  intros Hnow Hs H. unfold create_entry, lift in H.
  destruct (check_for_existence upper oem ss name (Some wd)) as [[ev|a]| | |] eqn:C; try (injection H as _ <-; exact Hs).
  destruct (check_fresh_inv _ _ _ _ _ _ C) as (_ & HL & _).
  destruct (stamp_create now) as [st| | |] eqn:ST; try (injection H as _ <-; exact Hs).
  destruct (write_entry FixedRoot free ss name (create_sfn_entry false a 0 None st)) as [w ss1] eqn:W.
  injection H as _ <-. unfold write_entry, lift in W.
  destruct (validate_long_name name); try (injection W as _ <-; exact Hs).
  destruct (find_free_entries FixedRoot ss _) as [p| | |]; try (injection W as _ <-; exact Hs).
  destruct (write_run FixedRoot free ss (N.to_nat p) _) as [w1 ss2] eqn:WR. injection W as _ <-.
  refine (write_run_fixed_Forall _ free _ _ _ _ _ _ Hs WR).
  apply entry_run_lt.
  - apply (sl_fields _ (create_sfn_entry_live false a 0 None st HL ltac:(lia) eq_refl (stamp_create_ranges now st Hnow ST))).
  - cbn [create_sfn_entry se_name]. exact (sfn_legal_lt a HL).
Qed.

Lemma root_region_bytes g im : FatProofs.bytes_ok im -> Forall (Forall lt256) (root_region_slots g im).
Proof.
  intros Hb. apply Forall_concat. rewrite (proj2 (root_region_shape g im)). apply Forall_forall.
  exact (img_read_bytes_ok im Hb _ _).
Qed.

(* root_dir().create_file keeps the device a byte device *)
Theorem vol_create_bytes_ok upper oem im name now r im' : TimeProofs.datetime_valid now = true ->
  FatProofs.bytes_ok im -> vol_create_empty_file_root upper oem im name now = (r, im') -> FatProofs.bytes_ok im'.
Proof.
  intros Hnow Hb H. unfold vol_create_empty_file_root in H. rewrite vol_root_apply_eq in H. injection H as _ <-.
  set (g := parse_geom im).
  destruct (create_entry upper oem false FixedRoot 0 (root_region_slots g im) name 0 None now false) as [r0 ss'] eqn:E.
  cbn [snd]. unfold put_root_slots. apply img_write_bytes_ok; [exact Hb|].
  pose proof (create_entry_fixed_bytes _ _ _ _ _ _ _ _ _ Hnow (root_region_bytes g im Hb) E) as X.
  apply Forall_concat in X. rewrite Forall_forall in X. exact X.
Qed.

(* ---------------------------------------------------------------- 4b. geometry *)
Lemma g_bits_12_clusters g : g_bits g = 12 -> g_clusters g < 4085.
Proof. unfold g_bits. destruct (g_clusters g <? 4085) eqn:E; [intros _; apply N.ltb_lt; exact E|]. destruct (g_clusters g <? 65525); discriminate. Qed.
Lemma g_bits_16_clusters g : g_bits g = 16 -> g_clusters g < 65525.
Proof.
  unfold g_bits. destruct (g_clusters g <? 4085); [discriminate|].
  destruct (g_clusters g <? 65525) eqn:E; [intros _; apply N.ltb_lt; exact E|discriminate].
Qed.

(* a sane FAT12/16 geometry (VolDirProofs) is a geometry of the file-layer theorems (VolFileProofs) *)
Lemma fixed_root_vgeom_ok g : fixed_root_geom g -> vgeom_ok g.
Proof.
  intros Hg. split; [exact (fixed_root_sane g Hg)|]. split.
  - rewrite (g_active_fixed g (fg_bits g Hg)). pose proof (fg_fats g Hg). lia.
  - pose proof (fg_fat g Hg) as Hn. unfold fat_bytes_needed in Hn. pose proof (fg_bits g Hg) as Hb.
    destruct (VolFileProofs.g_bits_cases g) as [E|[E|E]]; [| |contradiction].
    + rewrite (ft_of_12 g E). rewrite E in Hn. cbn [N.eqb Pos.eqb] in Hn. pose proof (g_bits_12_clusters g E).
      unfold fat_fits, off12. split; lia.
    + rewrite (ft_of_16 g E). rewrite E in Hn. cbn [N.eqb Pos.eqb] in Hn. pose proof (g_bits_16_clusters g E).
      unfold fat_fits. split; lia.
Qed.

Lemma fixed_clusters_small g : fixed_root_geom g -> g_clusters g < 65525.
Proof.
  intros Hg. pose proof (fg_bits g Hg) as Hb. destruct (VolFileProofs.g_bits_cases g) as [E|[E|E]]; [| |contradiction].
  - pose proof (g_bits_12_clusters g E). lia.
  - exact (g_bits_16_clusters g E).
Qed.

Lemma is32_fixed g : fixed_root_geom g -> is32 g = false.
Proof. intros Hg. unfold is32. apply N.eqb_neq. exact (fg_bits g Hg). Qed.

(* the FAT copies end where the root region starts; offsets below 64 (the boot-sector fields the decoder reads) lie in front *)
Lemma store_area_before_root g a : fixed_root_geom g -> in_store_area g a -> 512 <= a < g_root_off g.
Proof.
  intros Hg. unfold in_store_area, vol_base, vol_mirrors, g_mirroring.
  rewrite (g_active_fixed g (fg_bits g Hg)). pose proof (fg_bits g Hg) as Hb. apply N.eqb_neq in Hb. rewrite Hb.
  pose proof (fg_bps g Hg). pose proof (fg_reserved g Hg). pose proof (fg_fats g Hg).
  unfold g_fat_off, g_fat_bytes, g_root_off. rewrite N2Nat.id. nia.
Qed.

Lemma root_not_store g a : fixed_root_geom g -> g_root_off g <= a -> ~ in_store_area g a.
Proof. intros Hg Ha Hs. pose proof (store_area_before_root g a Hg Hs). lia. Qed.

Lemma root_not_cluster g c a : fixed_root_geom g -> a < g_root_off g + root_bytes g -> ~ in_cluster g c a.
Proof.
  intros Hg Ha Hc. unfold in_cluster in Hc.
  pose proof (cluster_after_root g c ltac:(pose proof (fg_bps g Hg); lia)). lia.
Qed.

Lemma parse_geom_low im im' : (forall o, o < 64 -> img_get im' o = img_get im o) -> parse_geom im' = parse_geom im.
Proof. intros H. unfold parse_geom, img_u32, img_u16. rewrite !H by lia. reflexivity. Qed.

(* ---------------------------------------------------------------- 4c. the bytes of a serialised short entry, read back *)
Lemma list11 (l : list N) : length l = 11%nat ->
  exists a0 a1 a2 a3 a4 a5 a6 a7 a8 a9 a10, l = [a0; a1; a2; a3; a4; a5; a6; a7; a8; a9; a10].
Proof.
  intros H. do 11 (destruct l as [|? l]; [discriminate|]). destruct l; [|discriminate]. repeat eexists.
Qed.

Lemma sfn_encode_readback e : length (se_name e) = 11%nat ->
  let s := sfn_encode e in
  firstn 12 s = se_name e ++ [se_attrs e] /\ u16_at s 26 = se_first_cluster_lo e mod 65536 /\
  u32_at s 28 = se_size e mod 4294967296 /\ length s = 32%nat.
Proof.
  intros H1. destruct e as [nm at_ rs c0 c1 cd ad hi mt md lo sz].
  cbn [se_name se_attrs se_first_cluster_lo se_size] in *.
  destruct (list11 nm H1) as [a0 [a1 [a2 [a3 [a4 [a5 [a6 [a7 [a8 [a9 [a10 E]]]]]]]]]]]. subst nm.
  cbn zeta. unfold sfn_encode, u32_at, u16_at, byte_at.
  cbn [se_name se_attrs se_reserved_0 se_create_time_0 se_create_time_1 se_create_date se_access_date
       se_first_cluster_hi se_modify_time se_modify_date se_first_cluster_lo se_size
       firstn app u16_bytes u32_bytes nth length].
  split; [reflexivity|]. split; [lia|]. split; [lia|reflexivity].
Qed.

(* decoding the serialised record gives the record back: the handle create_file builds from the record it has just
   written is the handle [sess_open] builds from the device *)
Lemma sess_open_created e : sfn_fields_ok e -> N.land (se_attrs e) ATTR_LFN <> ATTR_LFN ->
  slot_decode (sfn_encode e) = SFile e.
Proof.
  intros F Hl. destruct (sfn_encode_fields e F) as (F0 & _ & F11 & F12 & F13 & F14 & F16 & F18 & F20 & F22 & F24 & F26 & F28 & _).
  cbn zeta in *. unfold slot_decode, attrs_truncate. rewrite F11.
  replace (se_attrs e mod 64) with (se_attrs e) by (pose proof (fo_attrs e F); lia).
  destruct (N.eqb_spec (N.land (se_attrs e) ATTR_LFN) ATTR_LFN) as [C|_]; [contradiction|].
  rewrite F0, F12, F13, F14, F16, F18, F20, F22, F24, F26, F28. destruct e; reflexivity.
Qed.

(* ---------------------------------------------------------------- 4d. the handle of a new, empty file entry *)
Lemma sess_open_empty g im k s : fixed_root_geom g -> root_slot_bytes g im k = s ->
  byte_at s 11 = 0 -> u16_at s 26 = 0 -> u32_at s 28 = 0 ->
  exists e0, sess_open g im k = Some (empty_file, {| en_slot := k; en_data := e0; en_tdirty := false |}) /\
             se_name e0 = firstn 11 s /\ se_attrs e0 = 0.
Proof.
  intros Hg Hs H11 H26 H28. unfold sess_open. rewrite Hs. unfold slot_decode, attrs_truncate. rewrite H11.
  change (N.land (0 mod 64) ATTR_LFN =? ATTR_LFN) with false. cbv iota.
  unfold sfn_is_dir, sfn_first_cluster. cbn [se_attrs se_first_cluster_hi se_first_cluster_lo se_size].
  change (negb (N.land (0 mod 64) ATTR_DIRECTORY =? 0)) with false. cbv iota.
  rewrite (is32_fixed g Hg), H26, H28. cbn [N.mul N.add N.eqb].
  eexists. split; [reflexivity|]. split; reflexivity.
Qed.

(* ---------------------------------------------------------------- 4e. stamping never fails under a valid clock and keeps
   slot, name and attributes; the image / FS-info / handle part of a session run is the run of Model/VolFile.v *)
Definition clocks_ok (ops : list (fop * datetime)) : Prop := Forall (fun on => TimeProofs.datetime_valid (snd on) = true) ops.

Definition same_ident (en en' : sentry) : Prop :=
  en_slot en' = en_slot en /\ se_name (en_data en') = se_name (en_data en) /\ se_attrs (en_data en') = se_attrs (en_data en).

Lemma same_ident_refl en : same_ident en en. Proof. repeat split. Qed.
Lemma same_ident_trans a b c : same_ident a b -> same_ident b c -> same_ident a c.
Proof. intros (A1 & A2 & A3) (B1 & B2 & B3). repeat split; congruence. Qed.

Lemma stamp_after_ok acc en o r now : TimeProofs.datetime_valid now = true ->
  exists en', stamp_after acc en o r now = Ok en' /\ same_ident en en'.
Proof.
  intros Hv. unfold TimeProofs.datetime_valid in Hv. apply andb_true_iff in Hv. destruct Hv as [Hd Ht].
  assert (forall x : res editor_t, (exists ed', x = Ok ed') ->
            exists en', (do ed' <- x; Ok {| en_slot := en_slot en; en_data := with_stamps (en_data en) (ed_st ed');
                                            en_tdirty := Time.ed_dirty ed' |}) = Ok en' /\ same_ident en en') as U.
  { intros x [ed' ->]. cbn [bind]. eexists. split; [reflexivity|]. repeat split. }
  unfold stamp_after. destruct o as [n|d|p|]; try (exists en; split; [destruct r; reflexivity|apply same_ident_refl]).
  - destruct r as [bs| | | | | |]; try (exists en; split; [reflexivity|apply same_ident_refl]).
    destruct bs as [|b bs]; [exists en; split; [reflexivity|apply same_ident_refl]|].
    apply U. unfold stamp_read. destruct acc; [|eexists; reflexivity].
    unfold ed_set_accessed. destruct (date_eqb _ _); [eexists; reflexivity|].
    unfold st_set_accessed. rewrite (TimeProofs.date_encode_arith _ Hd). cbn [bind]. eexists; reflexivity.
  - destruct r as [|k| | | | |]; try (exists en; split; [reflexivity|apply same_ident_refl]).
    destruct (k =? 0); [exists en; split; [reflexivity|apply same_ident_refl]|].
    apply U. unfold stamp_write, ed_set_modified. destruct (datetime_eqb _ _); [eexists; reflexivity|].
    unfold st_set_modified. rewrite (TimeProofs.date_encode_arith _ Hd). cbn [bind].
    rewrite (TimeProofs.time_encode_arith _ Ht). cbn [bind]. eexists; reflexivity.
Qed.

Lemma sess_run_proj g acc : forall ops st st' rs, clocks_ok ops -> sess_run g acc st ops = (st', rs) ->
  vol_run g (s_im st, s_fi st, s_h st) (map fst ops) = ((s_im st', s_fi st', s_h st'), rs) /\ same_ident (s_en st) (s_en st').
Proof.
  induction ops as [|[o now] ops IH]; intros st st' rs Hc H.
  - cbn [sess_run] in H. injection H as <- <-. split; [reflexivity|apply same_ident_refl].
  - inversion Hc as [|? ? Hnow Hc']; subst. cbn [snd] in Hnow. cbn [sess_run map fst vol_run] in *.
    unfold sess_step in H.
    destruct (vol_step g (s_im st, s_fi st, s_h st) o) as [[[im1 fi1] h1] r] eqn:Hs.
    destruct (stamp_after_ok acc (s_en st) o r now Hnow) as (en1 & E1 & S1). rewrite E1 in H.
    destruct (sess_run g acc {| s_im := im1; s_fi := fi1; s_h := h1; s_en := en1 |} ops) as [st2 rs2] eqn:Hr.
    injection H as <- <-.
    destruct (IH _ _ _ Hc' Hr) as (R & S2). cbn [s_im s_fi s_h s_en] in R, S2. rewrite R.
    split; [reflexivity|exact (same_ident_trans _ _ _ S1 S2)].
Qed.

(* a session run from ANY state exists and is that run *)
Lemma sess_run_total g acc ops st : exists st' rs, sess_run g acc st ops = (st', rs).
Proof. destruct (sess_run g acc st ops) as [st' rs]. eexists _, _. reflexivity. Qed.

(* ---------------------------------------------------------------- 4f. File::flush on the image *)
Lemma nth_set_nth {A} (d s : A) : forall ss i k, (k < length ss)%nat ->
  nth i (set_nth k s ss) d = if Nat.eqb i k then s else nth i ss d.
Proof.
  induction ss as [|t r IH]; intros i k Hk; cbn [length] in Hk; [lia|].
  destruct k as [|k]; destruct i as [|i]; cbn [set_nth nth Nat.eqb]; try reflexivity. apply IH. lia.
Qed.

Lemma flush_image_eq g st :
  s_im (vol_flush_entry g st) =
  if sess_dirty (s_h st) (s_en st)
  then img_write (s_im st) (root_slot_off g (en_slot (s_en st))) (sfn_encode (sess_entry g (s_h st) (s_en st)))
  else s_im st.
Proof.
  unfold vol_flush_entry, flush_events, file_flush. cbn [s_im fst]. destruct (sess_dirty (s_h st) (s_en st)); reflexivity.
Qed.

(* writing the 32 bytes of one slot = rewriting the region with that slot replaced *)
Lemma write_slot_is_put g im k s' : (k < root_slot_count g)%nat -> length s' = 32%nat ->
  img_same (put_root_slots g im (set_nth k s' (root_region_slots g im))) (img_write im (root_slot_off g (N.of_nat k)) s').
Proof.
  intros Hk Hl o. destruct (root_region_shape g im) as [Hsh _].
  pose proof (set_nth_shape (root_slot_count g) s' Hl _ k Hsh) as Hsh3.
  pose proof (root_bytes_nat g) as Hrb. unfold root_slot_off.
  destruct (N.lt_ge_cases o (g_root_off g)) as [Hlo|Hlo].
  { rewrite img_write_outside by lia. symmetry. apply put_root_slots_outside; [exact Hsh3|left; exact Hlo]. }
  destruct (N.lt_ge_cases o (g_root_off g + root_bytes g)) as [Hhi|Hhi].
  2:{ rewrite img_write_outside by lia. symmetry. apply put_root_slots_outside; [exact Hsh3|right; exact Hhi]. }
  set (d := N.to_nat (o - g_root_off g)).
  assert (d < 32 * root_slot_count g)%nat as Hd by (rewrite <- Hrb; unfold d; lia).
  pose proof (Nat.div_mod d 32 ltac:(lia)) as Hdm. pose proof (Nat.mod_upper_bound d 32 ltac:(lia)) as Hm.
  assert (d / 32 < root_slot_count g)%nat as Hi by (apply Nat.div_lt_upper_bound; lia).
  assert (o = g_root_off g + N.of_nat (32 * (d / 32) + d mod 32)) as Ho by (rewrite <- Hdm; unfold d; lia).
  rewrite Ho at 2. rewrite (put_root_slots_get g im _ (d / 32) (d mod 32) Hsh3 Hi Hm).
  rewrite (nth_set_nth [] s' _ (d / 32) k) by (rewrite (proj1 Hsh); exact Hk).
  destruct (Nat.eqb_spec (d / 32) k) as [E|E].
  - replace o with (g_root_off g + 32 * N.of_nat k + N.of_nat (d mod 32)) by lia.
    apply img_write_inside. lia.
  - rewrite (root_region_slot_bytes g im (d / 32) (d mod 32) Hi Hm). rewrite <- Ho.
    apply img_write_outside. rewrite Hl. 
    destruct (Nat.lt_ge_cases (d / 32) k) as [L|L]; [left|right]; nia.
Qed.

(* the node the decoder builds for the entry of the open file *)
Lemma file_node g (Hok : vgeom_ok g) im fi h sz l d e :
  g_clusters g < 65525 -> VolInv g im fi h sz l ->
  e_is_dot e = false -> e_is_dir e = false -> e_cluster e = first_field h -> e_size e = sz ->
  node_of g im d e = NFile e (if e_cluster e =? 0 then None else Some l) (vol_content g im l sz) /\
  (e_cluster e = 0 <-> sz = 0) /\
  (e_cluster e <> 0 -> chain_from g im (e_cluster e) (Abs.chain_fuel g) = Some l /\ nth_error l 0 = Some (e_cluster e)).
Proof.
  intros Hsm V Hdot Hdir Hc Hs. pose proof (vol_inv_decodes g Hok _ _ _ _ _ V) as Hd. destruct V as (_ & _ & I & _).
  pose proof (inv_head fstore (val_ft (ft_of g)) (g_cluster_size g) (g_clusters g) _ h sz l I) as Hh.
  pose proof (inv_len _ _ _ _ _ _ _ _ I) as Hlen. pose proof (cs_pos g Hok) as Hcs.
  pose proof (chain_fuel_enough g _ h sz l I ltac:(left; lia)) as Hf.
  unfold node_of. rewrite Hdot, Hdir, Hc, Hs. unfold first_field, chain_decodes in *.
  destruct (h_first h) as [f|].
  - assert (In f l) as Hin by (eapply nth_error_In; symmetry; exact Hh).
    destruct (inv_range _ _ _ _ _ _ _ _ I f Hin) as (R & _).
    destruct (N.eqb_spec f 0) as [Z|Z]; [lia|]. rewrite (Hd _ Hf).
    split; [reflexivity|]. split.
    + split; [lia|]. intros E. rewrite E, (cdiv_0 _ Hcs) in Hlen. destruct l; [destruct Hin|cbn [length] in Hlen; lia].
    + intros _. split; [reflexivity|symmetry; exact Hh].
  - subst l. rewrite N.eqb_refl. split; [unfold vol_content; cbn [chain_bytes flat_map]; rewrite firstn_nil; reflexivity|].
    split; [|intros C; contradiction]. split; [|reflexivity]. intros _. cbn [length N.of_nat] in Hlen.
    apply (cdiv_eq_0 _ Hcs). symmetry. exact Hlen.
Qed.

Lemma set_nth_same {A} (d : A) : forall ss k, (k < length ss)%nat -> set_nth k (nth k ss d) ss = ss.
Proof.
  induction ss as [|t r IH]; intros k Hk; cbn [length] in Hk; [lia|].
  destruct k as [|k]; cbn [set_nth nth]; [reflexivity|]. rewrite IH by lia. reflexivity.
Qed.

Lemma firstn_12_split (s : list N) : length s = 32%nat -> firstn 12 s = firstn 11 s ++ [byte_at s 11].
Proof. intros H. do 12 (destruct s as [|? s]; [discriminate|]). reflexivity. Qed.

Lemma mk_entry_same_id pend (s s' : list N) idx f : firstn 12 s' = firstn 12 s ->
  let a := mk_entry pend s idx f in let b := mk_entry pend s' idx f in
  e_lfn b = e_lfn a /\ e_lfn_ok b = e_lfn_ok a /\ e_sfn b = e_sfn a /\ e_attr b = e_attr a /\
  e_first_slot b = e_first_slot a /\ e_sfn_slot b = e_sfn_slot a.
Proof.
  intros E. cbv zeta. unfold mk_entry. cbn [e_lfn e_lfn_ok e_sfn e_attr e_first_slot e_sfn_slot].
  rewrite (firstn12_name s s' E), (firstn12_byte s s' 11 ltac:(lia) E). repeat split.
Qed.

Lemma vol_content_length g (Hok : vgeom_ok g) im fi h sz l : VolInv g im fi h sz l -> len_N (vol_content g im l sz) = sz.
Proof.
  intros (_ & _ & I & _). pose proof (inv_len _ _ _ _ _ _ _ _ I) as Hl. pose proof (cs_pos g Hok) as Hcs.
  unfold vol_content, len_N. rewrite firstn_length.
  assert (length (chain_bytes g im l) = (length l * N.to_nat (g_cluster_size g))%nat) as ->.
  { unfold chain_bytes. clear. induction l as [|c r IH]; [reflexivity|]. cbn [flat_map length]. rewrite app_length, IH.
    unfold cluster_bytes. rewrite img_read_length. lia. }
  assert (sz <= N.of_nat (length l) * g_cluster_size g) as Hcap.
  { rewrite Hl. destruct (N.eq_dec sz 0) as [->|Hz]; [lia|]. apply (cdiv_bounds _ Hcs sz). lia. }
  lia.
Qed.

Section SessionThm.
Variable upper : N -> list N.
Variable oem : N -> N.

(* the image after create_file at the level of the root scan: the new entry [ne], the index [k] of its short slot *)
Lemma create_scan im name now range im1 :
  fixed_root_geom (parse_geom im) -> v_root_issues (abs im) = [] -> TimeProofs.datetime_valid now = true ->
  vol_create_empty_file_root upper oem im name now = (Ok (Some range), im1) ->
  exists es ls es1 es2 ne ss' k pk,
    abs im = abs_fixed (parse_geom im) im es ls [] /\ es = es1 ++ es2 /\
    shape (root_slot_count (parse_geom im)) ss' /\ im1 = put_root_slots (parse_geom im) im ss' /\
    dir_scan ss' 0 [] false = (es1 ++ ne :: es2, ls, []) /\
    (k < root_slot_count (parse_geom im))%nat /\ e_sfn_slot ne = N.of_nat k /\
    ne = mk_entry pk (nth k ss' []) (N.of_nat k) false /\
    (forall s', firstn 12 s' = firstn 12 (nth k ss' []) ->
       dir_scan (set_nth k s' ss') 0 [] false = (es1 ++ mk_entry pk s' (N.of_nat k) false :: es2, ls, [])) /\
    e_lfn ne = stored_lfn name /\ e_lfn_ok ne = true /\ e_attr ne = 0 /\ e_size ne = 0 /\ e_cluster ne = 0 /\
    sfn_legal_b (e_sfn ne) = true /\ ~ In (e_sfn ne) (map e_sfn es) /\
    e_first_slot ne = fst range /\ e_sfn_slot ne + 1 = snd range /\
    (forall i, (i < root_slot_count (parse_geom im))%nat -> (N.of_nat i < fst range \/ snd range <= N.of_nat i) ->
       nth i ss' [] = nth i (root_region_slots (parse_geom im) im) []).
Proof.
  intros Hg Hiss Hnow H. set (g := parse_geom im) in *.
  destruct (abs_scan_of im (fg_bits g Hg)) as (es & ls & iss & Hscan & Habs). fold g in Hscan, Habs.
  rewrite Habs in Hiss. cbn [abs_fixed v_root_issues] in Hiss. subst iss.
  unfold vol_create_empty_file_root in H. rewrite vol_root_apply_eq in H. fold g in H.
  destruct (create_entry upper oem false FixedRoot 0 (root_region_slots g im) name 0 None now false) as [r0 ss'] eqn:E.
  cbn [fst snd] in H. injection H as -> <-.
  pose proof (create_entry_fixed_shape _ _ _ _ _ _ _ _ _ _ _ _ _ (proj1 (root_region_shape g im)) E) as Hsh.
  destruct (create_entry_full upper oem FixedRoot 0 _ name 0 None now false es ls range ss' Hscan
              (root_len_bound g im (fg_root g Hg)) ltac:(lia) eq_refl Hnow E)
    as (es1 & es2 & ne & a & st & E1 & E2 & _ & ST & E3 & E4 & E5 & HL & HU & E6 & E7 & E8 & E9 & _ & _ & _ & _ & _ & _ & P1 & P2 & _).
  destruct (dir_scan_rewrite false ss' 0 [] _ _ _ E2 es1 ne es2 eq_refl) as (k & pk & Hk & Hslot & He & Hrw).
  rewrite N.add_0_l in Hslot, He, Hrw. rewrite (proj1 Hsh) in Hk.
  exists es, ls, es1, es2, ne, ss', k, pk.
  split; [exact Habs|]. split; [exact E1|]. split; [exact Hsh|]. split; [reflexivity|]. split; [exact E2|].
  split; [exact Hk|]. split; [exact Hslot|]. split; [exact He|]. split; [exact Hrw|].
  split; [exact E3|]. split; [exact E4|]. split; [exact E6|]. split; [exact E8|]. split; [rewrite E9; reflexivity|].
  split; [rewrite E5; exact HL|]. split; [rewrite E5; exact HU|]. split; [exact P1|]. split; [exact P2|].
  (* the slot frame of write_entry *)
  unfold create_entry, lift in E.
  destruct (check_for_existence upper oem (root_region_slots g im) name (Some false)) as [[ev|a']| | |] eqn:C; try discriminate.
  destruct (check_fresh_inv _ _ _ _ _ _ C) as (_ & HL' & _).
  destruct (stamp_create now) as [st'| | |] eqn:ST'; try discriminate.
  destruct (write_entry FixedRoot 0 (root_region_slots g im) name (create_sfn_entry false a' 0 None st')) as [w ss''] eqn:W.
  destruct w as [[p q]| | |]; try discriminate. cbn [bind] in E. injection E as <- <-.
  pose proof (create_sfn_entry_live false a' 0 None st' HL' ltac:(lia) eq_refl (stamp_create_ranges now st' Hnow ST')) as Hlive.
  destruct (write_entry_refines FixedRoot 0 false _ name _ es ls p q ss'' Hscan (root_len_bound g im (fg_root g Hg)) Hlive W)
    as (_ & _ & _ & _ & _ & _ & _ & _ & _ & _ & _ & _ & _ & _ & _ & _ & _ & _ & _ & _ & _ & Hfr & _ & _ & Hlen).
  intros i Hi Hout. cbn [fst snd] in Hout.
  pose proof (proj1 (proj1 (root_region_shape g im))) as L0. pose proof (Hlen eq_refl) as L1.
  assert (i < length (root_region_slots g im))%nat as Hi0 by (rewrite L0; exact Hi).
  assert (i < length ss'')%nat as Hi1 by (rewrite L1; exact Hi0).
  specialize (Hfr i Hi0 Hout).
  rewrite (nth_error_nth' ss'' [] Hi1), (nth_error_nth' (root_region_slots g im) [] Hi0) in Hfr.
  injection Hfr as Hfr. exact Hfr.
Qed.

(* the state in which a session is when its file is flushed, and what the flush writes: [s'] = the 32 bytes of the short
   slot afterwards *)
Lemma session_core acc im fi name now ops range im1 :
  let g := parse_geom im in
  fixed_root_geom g -> FatProofs.bytes_ok im ->
  fi_inv fstore (val_ft (ft_of g)) (store_of g im) fi (g_clusters g) ->
  v_root_issues (abs im) = [] -> TimeProofs.datetime_valid now = true ->
  Forall op_ok (map fst ops) -> clocks_ok ops ->
  vol_create_empty_file_root upper oem im name now = (Ok (Some range), im1) ->
  exists es ls es1 es2 ne ss' k pk st1 st2 rs sz2 l2 s',
    abs im = abs_fixed g im es ls [] /\ es = es1 ++ es2 /\
    shape (root_slot_count g) ss' /\ im1 = put_root_slots g im ss' /\ parse_geom im1 = g /\
    dir_scan ss' 0 [] false = (es1 ++ ne :: es2, ls, []) /\
    (k < root_slot_count g)%nat /\ ne = mk_entry pk (nth k ss' []) (N.of_nat k) false /\
    (forall s', firstn 12 s' = firstn 12 (nth k ss' []) ->
       dir_scan (set_nth k s' ss') 0 [] false = (es1 ++ mk_entry pk s' (N.of_nat k) false :: es2, ls, [])) /\
    e_lfn ne = stored_lfn name /\ e_lfn_ok ne = true /\ e_attr ne = 0 /\ e_size ne = 0 /\ e_cluster ne = 0 /\
    sfn_legal_b (e_sfn ne) = true /\ ~ In (e_sfn ne) (map e_sfn es) /\
    e_first_slot ne = fst range /\ e_sfn_slot ne + 1 = snd range /\ e_sfn_slot ne = N.of_nat k /\
    (forall i, (i < root_slot_count g)%nat -> (N.of_nat i < fst range \/ snd range <= N.of_nat i) ->
       nth i ss' [] = nth i (root_region_slots g im) []) /\
    (* the session *)
    sess_create upper oem im fi name now = Some st1 /\ s_im st1 = im1 /\
    sess_run g acc st1 ops = (st2, rs) /\
    VolInv g (s_im st2) (s_fi st2) (s_h st2) sz2 l2 /\
    bf_run ([], 0) (map fst ops) rs = Some (vol_content g (s_im st2) l2 sz2, h_off (s_h st2)) /\
    RunFrame g im1 (s_im st2) l2 /\ root_region_slots g (s_im st2) = ss' /\ parse_geom (s_im st2) = g /\
    (* the flush *)
    length s' = 32%nat /\ firstn 12 s' = firstn 12 (nth k ss' []) /\
    u16_at s' 26 = first_field (s_h st2) /\ u32_at s' 28 = sz2 /\
    img_same (put_root_slots g (s_im st2) (set_nth k s' ss')) (s_im (vol_flush_entry g st2)).
Proof.
  intros g Hg Hb Hfi Hiss Hnow Hops Hclk Hc.
  pose proof (fixed_root_vgeom_ok g Hg) as Hok.
  destruct (create_scan im name now range im1 Hg Hiss Hnow Hc)
    as (es & ls & es1 & es2 & ne & ss' & k & pk & Habs & Ees & Hsh & Him1 & Hscan1 & Hk & Hslot & Hne & Hrw
        & L1 & L2 & A1 & S1 & C1 & HL & HU & P1 & P2 & Hsf).
  fold g in Habs, Hsh, Him1, Hk, Hsf.
  pose proof (vol_create_confined upper oem im name now _ im1 Hg Hc) as (Hout & _ & Hpg1 & _ & Hfv1 & _).
  fold g in Hout, Hpg1, Hfv1.
  pose proof (vol_create_bytes_ok upper oem im name now _ im1 Hnow Hb Hc) as Hb1.
  assert (root_region_slots g im1 = ss') as Hrs1 by (rewrite Him1; apply root_region_put; exact Hsh).
  set (s := nth k ss' []) in *.
  assert (length s = 32%nat) as Hls.
  { destruct Hsh as [S1' S2]. rewrite Forall_forall in S2. apply S2. apply nth_In. lia. }
  assert (root_slot_bytes g im1 (N.of_nat k) = s) as Hsb.
  { unfold root_slot_bytes, root_slot_off. apply img_read_eq; [exact Hls|]. intros j Hj.
    pose proof (root_region_slot_bytes g im1 k j Hk Hj) as X. rewrite Hrs1 in X. fold s in X. rewrite X. f_equal. lia. }
  assert (byte_at s 11 = 0) as B11 by (rewrite <- A1, Hne; reflexivity).
  assert (u16_at s 26 = 0) as B26 by (rewrite <- C1, Hne; reflexivity).
  assert (u32_at s 28 = 0) as B28 by (rewrite <- S1, Hne; reflexivity).
  assert (e_sfn ne = firstn 11 s) as Hsfn by (rewrite Hne; reflexivity).
  destruct (sess_open_empty g im1 (N.of_nat k) s Hg Hsb B11 B26 B28) as (e0 & Hopen & N0 & At0).
  set (st1 := {| s_im := im1; s_fi := fi; s_h := empty_file;
                 s_en := {| en_slot := N.of_nat k; en_data := e0; en_tdirty := false |} |}).
  assert (sess_create upper oem im fi name now = Some st1) as Hcreate.
  { unfold sess_create. rewrite Hc. destruct range as [p q]. cbn [snd] in P2. rewrite Hpg1.
    replace (q - 1) with (N.of_nat k) by lia. rewrite Hopen. reflexivity. }
  (* the FS-info latch is consistent with the image after the create as well *)
  assert (fi_inv fstore (val_ft (ft_of g)) (store_of g im1) fi (g_clusters g)) as Hfi1.
  { destruct Hfi as [F1 F2]. split; [|exact F2]. destruct (fi_free fi) as [n|]; [|exact I]. rewrite F1.
    unfold count_spec. apply (cnt_ext g). intros x Hx.
    assert (2 <= x < g_clusters g + 2) as R by lia.
    rewrite <- (fat_val_store g im x (range_small g x Hok R)), <- (fat_val_store g im1 x (range_small g x Hok R)).
    rewrite (Hfv1 x (in_range_intro g x R)). reflexivity. }
  pose proof (vol_inv_empty g Hok im1 fi Hb1 Hfi1) as V1.
  destruct (sess_run_total g acc ops st1) as (st2 & rs & Hrun).
  destruct (sess_run_proj g acc ops st1 st2 rs Hclk Hrun) as (Hvr & Sid).
  destruct (vol_run_plus g Hok im1 (map fst ops) im1 fi empty_file 0 [] Hops V1 (run_frame_start g im1))
    as (im2 & fi2 & h2 & rs' & sz2 & l2 & Hvr' & V2 & Hbf & _ & F2 & M2).
  cbn [st1 s_im s_fi s_h] in Hvr. rewrite Hvr' in Hvr. injection Hvr as E_im E_fi E_h E_rs.
  rewrite E_im, E_fi, E_h in V2. rewrite E_im, E_h, E_rs in Hbf. rewrite E_im in F2. rewrite E_h in M2.
  clear im2 fi2 h2 rs' Hvr' E_im E_fi E_h E_rs.
  (* root region and boot sector are untouched by the run *)
  assert (forall a, a < g_root_off g + root_bytes g -> ~ in_store_area g a -> img_get (s_im st2) a = img_get im1 a) as Hlow.
  { intros a Ha Hns. apply (rf_bytes g im1 _ _ F2 a Hns). intros c _ _. exact (root_not_cluster g c a Hg Ha). }
  assert (root_region_slots g (s_im st2) = ss') as Hrs2.
  { rewrite <- Hrs1. unfold root_region_slots. f_equal. apply img_read_ext. intros i Hi.
    apply Hlow; [unfold root_bytes in *; lia|]. apply (root_not_store g _ Hg). lia. }
  assert (parse_geom (s_im st2) = g) as Hpg2.
  { rewrite <- Hpg1. apply parse_geom_low. intros o Ho. pose proof (root_off_ge g Hg). apply Hlow; [lia|].
    intros Hs'. pose proof (store_area_before_root g o Hg Hs'). lia. }
  (* the handle at the flush *)
  destruct V2 as (Hb2 & W2 & I2 & NB2).
  destruct (inv_entry _ _ _ _ _ _ _ _ I2) as (ed2 & Hed2 & Hef2 & Hes2).
  pose proof (inv_size _ _ _ _ _ _ _ _ I2) as Hsz2. unfold u32_max in Hsz2.
  assert (first_field (s_h st2) < 65536) as Hff.
  { unfold first_field. pose proof (inv_head fstore _ _ _ _ _ _ _ I2) as Hh. destruct (h_first (s_h st2)) as [f|]; [|lia].
    assert (In f l2) as Hin by (eapply nth_error_In; symmetry; exact Hh).
    destruct (inv_range _ _ _ _ _ _ _ _ I2 f Hin) as (R & _). pose proof (fixed_clusters_small g Hg). lia. }
  destruct Sid as (Sl & Sn & Sa). cbn [st1 s_en en_slot en_data] in Sl, Sn, Sa.
  assert (exists s', length s' = 32%nat /\ firstn 12 s' = firstn 12 s /\
            u16_at s' 26 = first_field (s_h st2) /\ u32_at s' 28 = sz2 /\
            img_same (put_root_slots g (s_im st2) (set_nth k s' ss')) (s_im (vol_flush_entry g st2))) as (s' & X1 & X2 & X3 & X4 & X5).
  { rewrite flush_image_eq. destruct (sess_dirty (s_h st2) (s_en st2)) eqn:Dirty.
    - set (e' := sess_entry g (s_h st2) (s_en st2)).
      assert (se_name e' = firstn 11 s /\ se_attrs e' = 0 /\ se_first_cluster_lo e' = first_field (s_h st2) mod 65536 /\ se_size e' = sz2)
        as (Nm & At & Lo & Sz).
      { unfold e', sess_entry. rewrite Hed2, Hes2, Hef2. unfold sfn_set_size, sfn_set_first, first_field.
        cbn [se_name se_attrs se_first_cluster_lo se_size]. rewrite Sn, Sa, N0, At0. repeat split. }
      assert (length (se_name e') = 11%nat) as Ln by (rewrite Nm, firstn_length; lia).
      destruct (sfn_encode_readback e' Ln) as (R12 & R26 & R28 & RL). cbv zeta in R12, R26, R28, RL.
      exists (sfn_encode e'). split; [exact RL|]. split.
      { rewrite R12, Nm, At, (firstn_12_split s Hls), B11. reflexivity. }
      split; [rewrite R26, Lo; lia|]. split; [rewrite R28, Sz; lia|].
      rewrite Sl. rewrite <- Hrs2 at 1. apply write_slot_is_put; [exact Hk|exact RL].
    - exists s. split; [exact Hls|]. split; [reflexivity|].
      assert (h_entry (s_h st2) = h_entry empty_file) as Same.
      { destruct M2 as [E|(e & E & D)]; [exact E|]. exfalso. unfold sess_dirty in Dirty. rewrite E, D in Dirty. discriminate. }
      rewrite Hed2 in Same. cbn [empty_file file_new h_entry] in Same. injection Same as Same. subst ed2.
      cbn [ed_first ed_size] in Hef2, Hes2. injection Hes2 as <-.
      split; [unfold first_field; rewrite <- Hef2; exact B26|]. split; [exact B28|].
      unfold s. rewrite (set_nth_same [] ss' k) by (rewrite (proj1 Hsh); exact Hk). rewrite <- Hrs2.
      intros o. symmetry. apply put_root_slots_same. }
  exists es, ls, es1, es2, ne, ss', k, pk, st1, st2, rs, sz2, l2, s'.
  repeat (split; [assumption || reflexivity|]).
  split; [split; [exact Hb2|split; [exact W2|split; [exact I2|exact NB2]]]|].
  split; [exact Hbf|]. repeat (split; [assumption|]). exact X5.
Qed.

(* (a) create_file(name) ; any calls on the new handle ; flush.  The independent decoder finds the old root nodes exactly as
   before and, at the position of the new entry, the FILE WITH ITS CONTENT: the byte array of the byte-array machine after
   the same calls; size field = its length; chain = the decoder's walk from the entry's first cluster (none iff empty) of
   ceil(size / cluster size) distinct clusters, each free before; no decode issue; labels, geometry, status byte as before.
   Frame: outside the root region, the FAT copies and clusters that were free before, no byte differs; every cluster that
   was not free keeps its FAT value and its data. *)
Theorem session_flush_decodes acc im fi name now ops range im1 :
  let g := parse_geom im in
  fixed_root_geom g -> FatProofs.bytes_ok im ->
  fi_inv fstore (val_ft (ft_of g)) (store_of g im) fi (g_clusters g) ->
  v_root_issues (abs im) = [] -> forallb node_intact (v_root (abs im)) = true ->
  TimeProofs.datetime_valid now = true -> Forall op_ok (map fst ops) -> clocks_ok ops ->
  vol_create_empty_file_root upper oem im name now = (Ok (Some range), im1) ->
  exists st rs content pos e l ns1 ns2,
    vol_session upper oem acc im fi name now ops = Some (st, rs) /\
    bf_run ([], 0) (map fst ops) rs = Some (content, pos) /\
    v_root (abs im) = ns1 ++ ns2 /\
    v_root (abs (s_im st)) = ns1 ++ NFile e (if e_cluster e =? 0 then None else Some l) content :: ns2 /\
    e_lfn e = stored_lfn name /\ e_lfn_ok e = true /\ e_attr e = 0 /\ sfn_legal_b (e_sfn e) = true /\
    ~ In (e_sfn e) (map e_sfn (map node_entry (v_root (abs im)))) /\
    e_first_slot e = fst range /\ e_sfn_slot e + 1 = snd range /\
    e_size e = len_N content /\ (e_cluster e = 0 <-> content = []) /\
    (e_cluster e <> 0 -> chain_from g (s_im st) (e_cluster e) (Abs.chain_fuel g) = Some l /\ nth_error l 0 = Some (e_cluster e)) /\
    N.of_nat (length l) = cdiv (g_cluster_size g) (len_N content) /\ NoDup l /\
    (forall c, In c l -> 2 <= c < g_clusters g + 2 /\ fat_val g im c = FFree /\ fat_val g (s_im st) c <> FFree) /\
    v_root_issues (abs (s_im st)) = [] /\ v_labels (abs (s_im st)) = v_labels (abs im) /\
    v_geom (abs (s_im st)) = v_geom (abs im) /\ v_root_chain (abs (s_im st)) = v_root_chain (abs im) /\
    v_status (abs (s_im st)) = v_status (abs im) /\
    (forall a, (a < g_root_off g \/ g_root_off g + root_bytes g <= a) -> ~ in_store_area g a ->
       (forall c, 2 <= c < g_clusters g + 2 -> fat_val g im c = FFree -> ~ in_cluster g c a) ->
       img_get (s_im st) a = img_get im a) /\
    (forall c, 2 <= c < g_clusters g + 2 -> fat_val g im c <> FFree ->
       fat_val g (s_im st) c = fat_val g im c /\ cluster_bytes g (s_im st) c = cluster_bytes g im c) /\
    (forall c, 2 <= c < g_clusters g + 2 -> fat_val g im c = FFree -> ~ In c l -> fat_val g (s_im st) c = FFree) /\
    (forall i, (i < root_slot_count g)%nat -> (N.of_nat i < fst range \/ snd range <= N.of_nat i) ->
       nth i (root_region_slots g (s_im st)) [] = nth i (root_region_slots g im) []).
Proof.
  intros g Hg Hb Hfi Hiss Hint Hnow Hops Hclk Hc.
  pose proof (fixed_root_vgeom_ok g Hg) as Hok.
  destruct (session_core acc im fi name now ops range im1 Hg Hb Hfi Hiss Hnow Hops Hclk Hc)
    as (es & ls & es1 & es2 & ne & ss' & k & pk & st1 & st2 & rs & sz2 & l2 & s'
        & Habs & Ees & Hsh & Him1 & Hpg1 & Hscan1 & Hk & Hne & Hrw & L1 & L2 & A1 & S1 & C1 & HL & HU & P1 & P2 & Hslot & Hsf
        & Hcreate & Hst1 & Hrun & V2 & Hbf & F2 & Hrs2 & Hpg2 & X1 & X2 & X3 & X4 & X5).
  fold g in Habs, Hsh, Him1, Hpg1, Hk, Hrun, V2, Hbf, F2, Hrs2, Hpg2, X5, Hsf.
  set (im2 := s_im st2) in *. set (st3 := vol_flush_entry g st2) in *. set (im3 := s_im st3) in *.
  set (s := nth k ss' []) in *. set (ne' := mk_entry pk s' (N.of_nat k) false).
  destruct (mk_entry_same_id pk s s' (N.of_nat k) false X2) as (I1 & I2 & I3 & I4 & I5 & I6). cbv zeta in I1, I2, I3, I4, I5, I6.
  fold ne' in I1, I2, I3, I4, I5, I6. rewrite <- Hne in I1, I2, I3, I4, I5, I6.
  assert (e_cluster ne' = first_field (s_h st2)) as Hcl by (unfold ne', mk_entry; cbn [e_cluster]; rewrite X3; lia).
  assert (e_size ne' = sz2) as Hsz by (unfold ne', mk_entry; cbn [e_size]; exact X4).
  (* the images: im -> im1 (root region), im1 -> im2 (FAT copies, free clusters), im2 -> im3 (one root slot) *)
  pose proof (put_same_outside g im ss' Hsh) as Hout01. rewrite <- Him1 in Hout01.
  pose proof (run_frame_nonfree g Hok im1 im2 l2 F2) as SNF.
  set (ss3 := set_nth k s' ss').
  assert (shape (root_slot_count g) ss3) as Hsh3 by (apply set_nth_shape; [exact X1|exact Hsh]).
  assert (fixed_root_geom (parse_geom im2)) as Hg2 by (rewrite Hpg2; exact Hg).
  destruct (abs_put_root im2 ss3 _ _ _ Hg2 ltac:(rewrite Hpg2; exact Hsh3) (Hrw s' X2)) as [HpgP HabsP]. rewrite Hpg2 in HpgP, HabsP.
  assert (fixed_root_geom (parse_geom (put_root_slots g im2 ss3))) as HgP by (rewrite HpgP; exact Hg).
  destruct (img_same_abs (fun x => x) _ im3 HgP X5) as (Hpg3 & Habs3 & _ & _). rewrite HpgP in Hpg3. rewrite HabsP in Habs3.
  assert (same_outside_root g im2 im3) as Hout23.
  { intros o Ho. rewrite (X5 o). apply put_root_slots_outside; [exact Hsh3|exact Ho]. }
  (* old entries decode as before *)
  assert (forall esx, forallb node_intact (decode_entries g im MAX_DEPTH esx) = true ->
            decode_entries g im2 MAX_DEPTH esx = decode_entries g im MAX_DEPTH esx) as Hold.
  { intros esx Hi. rewrite (decode_entries_nonfree g im1 im2 SNF MAX_DEPTH esx).
    - apply (decode_entries_frame g im im1 Hg Hout01).
    - rewrite (decode_entries_frame g im im1 Hg Hout01). exact Hi. }
  rewrite Habs in Hint. cbn [abs_fixed v_root] in Hint. rewrite Ees in Hint. change MAX_DEPTH with (S 23) in Hint.
  rewrite decode_entries_S, map_app, forallb_app in Hint. apply andb_true_iff in Hint. destruct Hint as [Hint1 Hint2].
  rewrite <- decode_entries_S in Hint1, Hint2.
  (* the node of the file *)
  assert (e_is_dot ne' = false) as Hdot.
  { unfold e_is_dot. rewrite I3. destruct (sfn_legal_not_dot _ HL) as [-> ->]. reflexivity. }
  assert (e_is_dir ne' = false) as Hdir by (unfold e_is_dir; rewrite I4, A1; reflexivity).
  destruct (file_node g Hok im2 (s_fi st2) (s_h st2) sz2 l2 23 ne' (fixed_clusters_small g Hg) V2 Hdot Hdir Hcl Hsz) as (Hnode & Hz & Hch).
  pose proof (vol_content_length g Hok _ _ _ _ _ V2) as Hlen.
  destruct V2 as (Hb2 & W2 & I2' & NB2).
  exists st3, rs, (vol_content g im2 l2 sz2), (h_off (s_h st2)), ne', l2,
         (decode_entries g im MAX_DEPTH es1), (decode_entries g im MAX_DEPTH es2).
  change (s_im st3) with im3.
  split. { unfold vol_session. rewrite Hcreate, Hst1, Hpg1, Hrun. reflexivity. }
  split; [exact Hbf|].
  split. { rewrite Habs. cbn [abs_fixed v_root]. rewrite Ees. change MAX_DEPTH with (S 23). rewrite !decode_entries_S, map_app. reflexivity. }
  split.
  { rewrite Habs3. cbn [abs_fixed v_root]. rewrite <- (Hold es1 Hint1), <- (Hold es2 Hint2).
    change MAX_DEPTH with (S 23). rewrite !decode_entries_S, map_app. cbn [map]. fold ne'. rewrite Hnode. reflexivity. }
  split; [rewrite I1; exact L1|]. split; [rewrite I2; exact L2|]. split; [rewrite I4; exact A1|]. split; [rewrite I3; exact HL|].
  split. { rewrite I3. rewrite Habs. cbn [abs_fixed v_root]. change MAX_DEPTH with (S 23). rewrite decode_entries_S, map_node_entry. exact HU. }
  split; [rewrite I5; exact P1|]. split; [rewrite I6; exact P2|].
  split; [rewrite Hsz, Hlen; reflexivity|].
  split.
  { rewrite Hz. split; [intros ->; rewrite <- Hlen|intros E; rewrite <- Hlen, E; reflexivity].
    destruct (vol_content g im2 l2 0); [reflexivity|discriminate]. }
  split.
  { intros Hnz. destruct (Hch Hnz) as [Hc1 Hc2]. split; [|exact Hc2]. rewrite (chain_from_frame g im2 im3 Hg Hout23). exact Hc1. }
  split; [rewrite Hlen; exact (inv_len _ _ _ _ _ _ _ _ I2')|]. split; [exact (inv_nodup _ _ _ _ _ _ _ _ I2')|].
  split.
  { intros c Hin. destruct (inv_range _ _ _ _ _ _ _ _ I2' c Hin) as (R & NF). split; [exact R|]. split.
    - rewrite <- (fat_val_frame g im im1 c Hg Hout01 (in_range_intro g c R)). exact (rf_chain g im1 im2 l2 F2 c Hin).
    - rewrite (fat_val_frame g im2 im3 c Hg Hout23 (in_range_intro g c R)). intros E. apply NF. cbn [world_of w_fat].
      rewrite <- (fat_val_store g im2 c (range_small g c Hok R)), E. reflexivity. }
  rewrite Habs3, Habs. cbn [abs_fixed v_root_issues v_labels v_geom v_root_chain v_status].
  do 4 (split; [reflexivity|]).
  assert (forall a, (a < g_root_off g \/ g_root_off g + root_bytes g <= a) -> ~ in_store_area g a ->
            (forall c, 2 <= c < g_clusters g + 2 -> fat_val g im c = FFree -> ~ in_cluster g c a) ->
            img_get im2 a = img_get im a) as Hfr02.
  { intros a Ha Hns Hcl'. rewrite <- (Hout01 a Ha). apply (rf_bytes g im1 im2 l2 F2 a Hns).
    intros c R Fc. apply (Hcl' c R). rewrite <- (fat_val_frame g im im1 c Hg Hout01 (in_range_intro g c R)). exact Fc. }
  split.
  { rewrite (g_status_off_fixed g (fg_bits g Hg)). pose proof (root_off_ge g Hg) as Hro. apply Hfr02; [left; lia| |].
    - intros Hs'. pose proof (store_area_before_root g 37 Hg Hs'). lia.
    - intros c _ _. apply (root_not_cluster g c 37 Hg). lia. }
  split.
  { intros a Ha Hns Hcl'. rewrite (Hout23 a Ha). exact (Hfr02 a Ha Hns Hcl'). }
  split.
  { intros c R Hnf.
    assert (fat_val g im1 c <> FFree) as Hnf1 by (rewrite (fat_val_frame g im im1 c Hg Hout01 (in_range_intro g c R)); exact Hnf).
    destruct (SNF c (in_range_intro g c R) Hnf1) as [Fv Cb]. split.
    - rewrite (fat_val_frame g im2 im3 c Hg Hout23 (in_range_intro g c R)), Fv. apply (fat_val_frame g im im1 c Hg Hout01 (in_range_intro g c R)).
    - rewrite (cluster_bytes_frame g im2 im3 c ltac:(pose proof (fg_bps g Hg); lia) Hout23), Cb.
      apply (cluster_bytes_frame g im im1 c ltac:(pose proof (fg_bps g Hg); lia) Hout01). }
  split.
  { intros c R Hf Hnin. rewrite (fat_val_frame g im2 im3 c Hg Hout23 (in_range_intro g c R)).
    apply (rf_else g im1 im2 l2 F2 c R Hnin). unfold free0.
    rewrite (fat_val_frame g im im1 c Hg Hout01 (in_range_intro g c R)). exact Hf. }
  intros i Hi Hrange.
  rewrite (root_region_same g _ im3 X5), (root_region_put g im2 (set_nth k s' ss') Hsh3).
  rewrite (nth_set_nth [] s' ss' i k) by (rewrite (proj1 Hsh); exact Hk).
  assert (e_first_slot ne <= N.of_nat k) as Hle by (rewrite Hne; unfold mk_entry; cbn [e_first_slot]; lia).
  destruct (Nat.eqb_spec i k) as [->|_]; [exfalso; lia|]. exact (Hsf i Hi Hrange).
Qed.
End SessionThm.

(* ================================================================ 6. counting and well-formedness around one file *)
Lemma count_free_from_le g im : forall n c, count_free_from g im c n <= N.of_nat n.
Proof. induction n as [|n IH]; intros c; cbn [count_free_from]; [lia|]. specialize (IH (c + 1)). destruct (fat_val g im c); lia. Qed.

(* a free count equal to the number of entries: every entry is free *)
Lemma all_free_of_count g im : forall n c, count_free_from g im c n = N.of_nat n ->
  forall x, c <= x < c + N.of_nat n -> fat_val g im x = FFree.
Proof.
  induction n as [|n IH]; intros c H x Hx; [lia|]. cbn [count_free_from] in H.
  pose proof (count_free_from_le g im n (c + 1)) as Hle.
  destruct (N.eq_dec x c) as [->|Hne].
  - destruct (fat_val g im c); try reflexivity; lia.
  - apply (IH (c + 1)); [|lia]. destruct (fat_val g im c); lia.
Qed.

Lemma conv_fatv_of v : FormatImageAbs.conv (fatv_of v) = v.
Proof. destruct v; reflexivity. Qed.

Lemma count_free_cnt g im : count_free g im = cnt (fun x => fatv_of (fat_val g im x)) 2 (N.to_nat (g_clusters g)).
Proof. unfold count_free. apply FormatImageAbs.count_free_from_cnt. intros x _. rewrite conv_fatv_of. reflexivity. Qed.

(* every cluster was free; now exactly the (distinct, in-range) clusters of [l] are allocated: the free count dropped by
   their number *)
Lemma count_free_after g im im' l : NoDup l ->
  (forall x, In x l -> 2 <= x < g_clusters g + 2 /\ fat_val g im x = FFree /\ fat_val g im' x <> FFree) ->
  (forall x, 2 <= x < g_clusters g + 2 -> ~ In x l -> fat_val g im' x = fat_val g im x) ->
  count_free g im = count_free g im' + N.of_nat (length l).
Proof.
  intros Hnd Hin Hout. rewrite !count_free_cnt. apply cnt_free_list; [exact Hnd| | |].
  - intros x Hx. destruct (Hin x Hx) as (R & _ & NF). split; [lia|]. intros E. apply NF.
    destruct (fat_val g im' x); try discriminate. reflexivity.
  - intros x Hx. destruct (Hin x Hx) as (_ & F & _). rewrite F. reflexivity.
  - intros x R Hn. rewrite (Hout x ltac:(lia) Hn). reflexivity.
Qed.

(* ownership map of one chain without repetition: no cross-link; exactly its clusters are owned *)
Lemma succ_pos_inj a b : N.succ_pos a = N.succ_pos b -> a = b.
Proof. intros H. rewrite <- (N.pos_pred_succ a), <- (N.pos_pred_succ b), H. reflexivity. Qed.

Lemma own_clusters_nodup : forall l m, NoDup l -> (forall x, In x l -> PositiveMap.find (N.succ_pos x) m = None) ->
  exists m', Wf.own_clusters l m = (m', []) /\
    forall x, PositiveMap.find (N.succ_pos x) m' = (if in_dec N.eq_dec x l then Some tt else PositiveMap.find (N.succ_pos x) m).
Proof.
  induction l as [|c l IH]; intros m Hnd Hfree.
  - exists m. split; [reflexivity|]. intros x. reflexivity.
  - inversion Hnd as [|? ? Hnotin Hnd']; subst. cbn [Wf.own_clusters]. rewrite (Hfree c (or_introl eq_refl)).
    destruct (IH (PositiveMap.add (N.succ_pos c) tt m) Hnd') as (m' & E & Hm').
    { intros x Hx. rewrite PositiveMap.gso; [apply Hfree; right; exact Hx|].
      intros C. apply succ_pos_inj in C. subst x. contradiction. }
    exists m'. split; [exact E|]. intros x. rewrite Hm'.
    destruct (in_dec N.eq_dec x l) as [Hi|Hi]; destruct (in_dec N.eq_dec x (c :: l)) as [Hj|Hj]; try reflexivity.
    + exfalso. apply Hj. right. exact Hi.
    + destruct Hj as [<-|Hj]; [apply PositiveMap.gss|contradiction].
    + rewrite PositiveMap.gso; [reflexivity|]. intros C. apply succ_pos_inj in C. subst x. apply Hj. left. reflexivity.
Qed.

(* a FAT12/16 volume whose root holds exactly one plain file: chain length matches the size, the chain has no repetition
   and every allocated cluster belongs to it => no C03 issue at all *)
Lemma wf_single fold im e l content :
  let g := v_geom (abs im) in
  g_bits g <> 32 -> v_root_chain (abs im) = None -> v_root_issues (abs im) = [] ->
  v_root (abs im) = [NFile e (if e_cluster e =? 0 then None else Some l) content] ->
  (e_cluster e = 0 <-> e_size e = 0) ->
  (e_cluster e <> 0 -> len_N l = Wf.ceil_div (e_size e) (g_cluster_size g)) -> NoDup l ->
  (forall x, 2 <= x < g_clusters g + 2 -> fat_val g im x = FFree \/ (e_cluster e <> 0 /\ In x l)) ->
  Wf.wf_issues fold im = [].
Proof.
  intros g Hb Hrc Hri Hr Hz Hlen Hnd Hall. unfold Wf.wf_issues. cbv zeta. fold g. rewrite Hrc, Hri, Hr.
  apply N.eqb_neq in Hb. rewrite Hb. cbn [app map].
  assert (Wf.names_issues fold 0 [NFile e (if e_cluster e =? 0 then None else Some l) content] = []) as ->.
  { unfold Wf.names_issues. cbn [map node_entry Wf.has_dup existsb orb app filter].
    destruct (negb match e_lfn e with [] => true | _ :: _ => false end); reflexivity. }
  cbn [app]. unfold Wf.nodes_issues, Wf.nodes_chains. cbn [flat_map app Wf.node_issues Wf.node_chains].
  destruct (N.eqb_spec (e_cluster e) 0) as [Z|NZ].
  - rewrite (proj2 (N.eqb_eq _ _) (proj1 Hz Z)). cbn [concat Wf.own_clusters app].
    rewrite (FormatImageAbs.lost_from_nil g im); [reflexivity|].
    intros x Hx. destruct (Hall x ltac:(lia)) as [F|[C _]]; [left; exact F|contradiction].
  - assert (e_size e <> 0) as SZ by (intros C; apply NZ; apply Hz; exact C).
    rewrite (proj2 (N.eqb_neq _ _) SZ). rewrite (Hlen NZ), N.eqb_refl. cbn [concat app]. rewrite app_nil_r.
    destruct (own_clusters_nodup l (PositiveMap.empty unit) Hnd) as (m' & E & Hm').
    { intros x _. apply PositiveMap.gempty. }
    rewrite E. cbn [app].
    rewrite (FormatImageAbs.lost_from_nil g im m'); [reflexivity|].
    intros x Hx. destruct (Hall x ltac:(lia)) as [F|[_ Hin]]; [left; exact F|right; right].
    rewrite Hm'. destruct (in_dec N.eq_dec x l); [reflexivity|contradiction].
Qed.

(* ================================================================ 7. a well-formed volume has no broken chain *)
(* a node without C03 issue has no broken chain, and neither has any node below it *)
Fixpoint node_issues_intact fold g (n : node) {struct n} : forall pc, Wf.node_issues fold g pc n = [] -> node_intact n = true.
Proof.
  destruct n as [e ch content|e ch children iss labels|e]; intros pc H.
  - cbn [Wf.node_issues] in H. cbn [node_intact].
    destruct (e_size e =? 0).
    + destruct (e_cluster e =? 0); [reflexivity|discriminate].
    + destruct (e_cluster e =? 0); [discriminate|]. destruct ch; [reflexivity|discriminate].
  - rewrite node_intact_dir. cbn [Wf.node_issues] in H.
    destruct (e_cluster e =? 0); [discriminate|]. destruct ch as [l|]; [|discriminate]. cbn [orb is_some andb].
    apply app_eq_nil in H. destruct H as [_ H]. apply app_eq_nil in H. destruct H as [_ H].
    apply app_eq_nil in H. destruct H as [_ H].
    induction children as [|c cr IH]; [reflexivity|].
    apply app_eq_nil in H. destruct H as [H1 H2]. cbn [forallb].
    rewrite (node_issues_intact fold g c _ H1). exact (IH H2).
  - reflexivity.
Qed.

Lemma wf_intact fold im : g_bits (parse_geom im) <> 32 -> Wf.wf_issues fold im = [] -> forallb node_intact (v_root (abs im)) = true.
Proof.
  intros Hb H. destruct (abs_scan_of im Hb) as (es & ls & iss & _ & Habs).
  rewrite (wf_issues_fixed fold im _ im es ls iss Hb Habs) in H. cbv zeta in H.
  destruct (Wf.own_clusters _ _) as [owned cross].
  apply app_eq_nil in H. destruct H as [_ H]. apply app_eq_nil in H. destruct H as [_ H].
  apply app_eq_nil in H. destruct H as [H _].
  rewrite Habs. cbn [abs_fixed v_root]. unfold Wf.nodes_issues in H.
  induction (decode_entries (parse_geom im) im MAX_DEPTH es) as [|n r IH]; [reflexivity|].
  cbn [flat_map] in H. apply app_eq_nil in H. destruct H as [H1 H2]. cbn [forallb].
  rewrite (node_issues_intact fold _ n _ H1). exact (IH H2).
Qed.

Lemma wf_root_issues fold im : g_bits (parse_geom im) <> 32 -> Wf.wf_issues fold im = [] -> v_root_issues (abs im) = [].
Proof.
  intros Hb H. destruct (abs_scan_of im Hb) as (es & ls & iss & _ & Habs).
  rewrite (wf_issues_fixed fold im _ im es ls iss Hb Habs) in H. cbv zeta in H.
  destruct (Wf.own_clusters _ _) as [owned cross].
  apply app_eq_nil in H. destruct H as [H _]. apply map_eq_nil in H. rewrite Habs. exact H.
Qed.

Lemma wf_session_premises fold im : g_bits (parse_geom im) <> 32 -> Wf.wf_issues fold im = [] ->
  v_root_issues (abs im) = [] /\ forallb node_intact (v_root (abs im)) = true.
Proof. intros Hb H. exact (conj (wf_root_issues fold im Hb H) (wf_intact fold im Hb H)). Qed.
