(* VolRemoveProofs.v: root_dir().remove(name) of a file that owns clusters, on whole device images (Model/VolRemove.v),
   decoded by the independent decoder Spec/Abs.abs and judged by Spec/Wf.wf_issues: the image-level form of C05
   "removing a file gives back all of its clusters".

   Contents:
   1. the decoder's chain walk is a chain of the library's table (converse of VolFileProofs.chain_decodes_from)
   2. the ownership map of Spec/Wf.v: no cross-link <-> no repetition
   3. the decoder on an image that differs only in the FAT entries of clusters the tree does not use
   4. FileSystem::free_cluster_chain on the image                5. facts of a well-formed volume around one root file
   6. the theorems (a)-(d) about vol_remove_file_root            7. failure cases
   8. format ; create ; calls ; flush ; remove, and n fill / delete cycles *)
From Coq Require Import NArith ZArith Lia List Bool FMapPositive.
From FatVerif Require Import Model.Base Model.Str Model.Slot Model.Time Model.Table Model.Fat Model.FileM Model.Name
  Model.ShortName Model.DirSlots Model.VolDir Model.VolFile Model.FlushM Model.VolSession Model.VolRemove
  Spec.Image Spec.Abs Spec.ByteFile
  Proofs.ImageProofs Proofs.TableProofs Proofs.FatProofs Proofs.FileProofs Proofs.CrossProofs Proofs.RegionsProofs
  Proofs.DirSlotsProofs Proofs.VolDirProofs Proofs.VolFileProofs Proofs.VolSessionProofs.
From FatVerif Require Spec.Wf Model.Lfn Proofs.TimeProofs Proofs.FormatImageAbs Proofs.LfnProofs Proofs.NameProofs
  Proofs.DupLongProofs.
Import ListNotations.
Open Scope N_scope.
Ltac Zify.zify_post_hook ::= Z.to_euclidean_division_equations.

(* ================================================================ 1. decoder's chain -> library's chain *)
Section ChainConv.
Variable g : geom.
Hypothesis Hok : vgeom_ok g.
Let ft := ft_of g.
Let total := g_clusters g.

Lemma chain_from_library im : forall fuel c l, chain_from g im c fuel = Some l ->
  chain fstore (val_ft ft) (store_of g im) c l /\
  (forall x, In x l -> 2 <= x < total + 2 /\ val_ft ft (store_of g im) x <> Free /\ val_ft ft (store_of g im) x <> Bad) /\
  (length l <= fuel)%nat.
Proof.
  induction fuel as [|f IH]; intros c l; cbn [chain_from]; [discriminate|].
  destruct (in_range g c) eqn:R; [|discriminate]. apply in_range_iff in R.
  pose proof (fat_val_store g im c (range_small g c Hok R)) as E. fold ft in E.
  destruct (fat_val g im c) as [| | |n] eqn:F; try discriminate; cbn [fatv_of] in E.
  - intros X. injection X as <-. split; [|split].
    + apply chain_end. intros n C. rewrite <- E in C. discriminate.
    + intros x [<-|[]]. split; [exact R|]. rewrite <- E. split; discriminate.
    + cbn [length]. lia.
  - destruct (chain_from g im n f) as [l0|] eqn:C; [|discriminate]. intros X. injection X as <-.
    destruct (IH n l0 C) as (C1 & C2 & C3). split; [|split].
    + apply chain_step with n; [symmetry; exact E|exact C1].
    + intros x [<-|Hx]; [|exact (C2 x Hx)]. split; [exact R|]. rewrite <- E. split; discriminate.
    + cbn [length]. lia.
Qed.
End ChainConv.

(* ================================================================ 2. the ownership map *)
Lemma own_clusters_spec : forall l m m' cr, Wf.own_clusters l m = (m', cr) ->
  (cr = [] -> NoDup l /\ forall x, In x l -> PositiveMap.find (N.succ_pos x) m = None) /\
  (forall x, PositiveMap.find (N.succ_pos x) m' =
             if in_dec N.eq_dec x l then Some tt else PositiveMap.find (N.succ_pos x) m).
Proof.
  induction l as [|c l IH]; intros m m' cr H; cbn [Wf.own_clusters] in H.
  - injection H as <- <-. split; [intros _; split; [constructor|intros x []]|]. intros x. reflexivity.
  - destruct (PositiveMap.find (N.succ_pos c) m) as [u|] eqn:F.
    + destruct (Wf.own_clusters l m) as [m1 iss] eqn:E. injection H as <- <-.
      split; [discriminate|]. intros x. destruct (IH m m1 iss E) as [_ Hm]. rewrite Hm.
      destruct (in_dec N.eq_dec x l) as [Hi|Hi]; destruct (in_dec N.eq_dec x (c :: l)) as [Hj|Hj]; try reflexivity.
      * exfalso. apply Hj. right. exact Hi.
      * destruct Hj as [<-|Hj]; [|contradiction]. rewrite F. destruct u. reflexivity.
    + destruct (IH _ _ _ H) as [Hnd Hm]. split.
      * intros Hcr. destruct (Hnd Hcr) as [N1 N2]. split.
        -- constructor; [|exact N1]. intros Hin. specialize (N2 c Hin). rewrite PositiveMap.gss in N2. discriminate.
        -- intros x [<-|Hx]; [exact F|]. specialize (N2 x Hx).
           destruct (N.eq_dec x c) as [->|Hne]; [exact F|].
           rewrite PositiveMap.gso in N2; [exact N2|]. intros C. apply succ_pos_inj in C. contradiction.
      * intros x. rewrite Hm.
        destruct (in_dec N.eq_dec x l) as [Hi|Hi]; destruct (in_dec N.eq_dec x (c :: l)) as [Hj|Hj]; try reflexivity.
        -- exfalso. apply Hj. right. exact Hi.
        -- destruct Hj as [<-|Hj]; [apply PositiveMap.gss|contradiction].
        -- rewrite PositiveMap.gso; [reflexivity|]. intros C. apply succ_pos_inj in C. subst x. apply Hj. left. reflexivity.
Qed.

Lemma nodes_chains_app a b : Wf.nodes_chains (a ++ b) = Wf.nodes_chains a ++ Wf.nodes_chains b.
Proof. unfold Wf.nodes_chains. apply flat_map_app. Qed.

Lemma nodes_chains_cons n b : Wf.nodes_chains (n :: b) = Wf.node_chains n ++ Wf.nodes_chains b.
Proof. reflexivity. Qed.

Lemma node_chains_dir e ch children iss labels :
  Wf.node_chains (NDir e ch children iss labels) = (match ch with Some l => [l] | None => [] end) ++ Wf.nodes_chains children.
Proof.
  cbn [Wf.node_chains]. apply f_equal. induction children as [|c cr IH]; [reflexivity|].
  rewrite nodes_chains_cons, <- IH. reflexivity.
Qed.

Lemma node_chains_in_nodes n ns x : In n ns -> In x (concat (Wf.node_chains n)) -> In x (concat (Wf.nodes_chains ns)).
Proof.
  intros Hn Hx. apply in_split in Hn. destruct Hn as (a & b & ->).
  rewrite nodes_chains_app, nodes_chains_cons, !concat_app. apply in_or_app. right. apply in_or_app. left. exact Hx.
Qed.

(* ================================================================ 3. the decoder and FAT entries the tree does not use *)
(* [im'] holds the FAT value and the data of every cluster outside [l] *)
Definition same_off (g : geom) (im im' : image) (l : list N) : Prop :=
  forall x, in_range g x = true -> ~ In x l ->
    fat_val g im' x = fat_val g im x /\ cluster_bytes g im' x = cluster_bytes g im x.

Lemma chain_from_off g im im' l : same_off g im im' l ->
  forall fuel c l0, chain_from g im c fuel = Some l0 -> (forall x, In x l0 -> ~ In x l) ->
    chain_from g im' c fuel = Some l0 /\ chain_bytes g im' l0 = chain_bytes g im l0.
Proof.
  intros H. induction fuel as [|f IH]; intros c l0; cbn [chain_from]; [discriminate|].
  destruct (in_range g c) eqn:R; [|discriminate].
  destruct (fat_val g im c) as [| | |n] eqn:E; try discriminate.
  - intros X Hav. injection X as <-. destruct (H c R (Hav c (or_introl eq_refl))) as [F B]. rewrite F, E.
    split; [reflexivity|]. unfold chain_bytes. cbn [flat_map]. rewrite B. reflexivity.
  - destruct (chain_from g im n f) as [l1|] eqn:C; [|discriminate]. intros X Hav. injection X as <-.
    destruct (H c R (Hav c (or_introl eq_refl))) as [F B]. rewrite F, E.
    destruct (IH n l1 C (fun x Hx => Hav x (or_intror Hx))) as [C' B']. rewrite C'. split; [reflexivity|].
    unfold chain_bytes in *. cbn [flat_map]. rewrite B, B'. reflexivity.
Qed.

Lemma node_of_off g im im' l d e : same_off g im im' l ->
  (forall ces, forallb node_intact (decode_entries g im d ces) = true ->
     (forall x, In x (concat (Wf.nodes_chains (decode_entries g im d ces))) -> ~ In x l) ->
     decode_entries g im' d ces = decode_entries g im d ces) ->
  node_intact (node_of g im d e) = true ->
  (forall x, In x (concat (Wf.node_chains (node_of g im d e))) -> ~ In x l) ->
  node_of g im' d e = node_of g im d e.
Proof.
  intros H IH. unfold node_of. destruct (e_is_dot e); [reflexivity|].
  destruct (e_cluster e =? 0) eqn:Z.
  - reflexivity.
  - destruct (chain_from g im (e_cluster e) (chain_fuel g)) as [l0|] eqn:C.
    + destruct (e_is_dir e).
      * destruct (dir_scan (slots_of (chain_bytes g im l0)) 0 [] (g_bits g =? 32)) as [[ces labels] iss] eqn:DS.
        rewrite node_intact_dir, node_chains_dir. intros X Hav. apply andb_true_iff in X. destruct X as [_ X].
        destruct (chain_from_off g im im' l H _ _ _ C) as [C' B'].
        { intros x Hx. apply Hav. cbn [app concat]. apply in_or_app. left. exact Hx. }
        rewrite C', B', DS. rewrite (IH ces X); [reflexivity|].
        intros x Hx. apply Hav. cbn [app concat]. apply in_or_app. right. exact Hx.
      * intros _ Hav. cbn [Wf.node_chains concat] in Hav. rewrite app_nil_r in Hav.
        destruct (chain_from_off g im im' l H _ _ _ C Hav) as [C' B']. rewrite C', B'. reflexivity.
    + destruct (e_is_dir e); cbn [node_intact is_some]; rewrite Z; cbn [orb andb]; discriminate.
Qed.

(* THE DECODE FRAME: a tree without broken chains, none of whose chains meets [l], decodes alike on both images *)
Theorem decode_entries_off g im im' l : same_off g im im' l ->
  forall d es, forallb node_intact (decode_entries g im d es) = true ->
    (forall x, In x (concat (Wf.nodes_chains (decode_entries g im d es))) -> ~ In x l) ->
    decode_entries g im' d es = decode_entries g im d es.
Proof.
  intros H. induction d as [|d IH]; intros es; [reflexivity|].
  rewrite !decode_entries_S. intros X Hav. rewrite forallb_forall in X.
  apply map_ext_in. intros e He. apply (node_of_off g im im' l d e H IH).
  - apply X. apply in_map. exact He.
  - intros x Hx. apply Hav. apply (node_chains_in_nodes (node_of g im d e)); [apply in_map; exact He|exact Hx].
Qed.

(* ================================================================ 4. free_cluster_chain on the image *)
Lemma store_of_img g t : fs_base t = vol_base g -> fs_size t = g_fat_bytes g -> fs_mirrors t = vol_mirrors g ->
  store_of g (fs_img t) = t.
Proof. destruct t as [i b s m]. cbn [fs_base fs_size fs_mirrors fs_img]. intros -> -> ->. reflexivity. Qed.

Section FreeChain.
Variable g : geom.
Hypothesis Hok : vgeom_ok g.
Let ft := ft_of g.
Let total := g_clusters g.

Lemma count_free_store im : count_free g im = count_spec fstore (val_ft ft) (store_of g im) 2 (N.to_nat total).
Proof.
  rewrite count_free_cnt. unfold count_spec. apply (cnt_ext g). intros x Hx.
  apply (fat_val_store g im x). apply (range_small g x Hok). fold total. lia.
Qed.

Theorem vol_free_chain_spec im fi c l :
  FatProofs.bytes_ok im -> fi_inv fstore (val_ft ft) (store_of g im) fi total ->
  c <> 0 -> chain_from g im c (Abs.chain_fuel g) = Some l -> NoDup l ->
  exists im1, vol_free_chain g im fi c = Ok (im1, map_free fi (fun n => n + N.of_nat (length l))) /\
    FatProofs.bytes_ok im1 /\
    fi_inv fstore (val_ft ft) (store_of g im1) (map_free fi (fun n => n + N.of_nat (length l))) total /\
    (forall a, ~ in_store_area g a -> img_get im1 a = img_get im a) /\
    (forall x, In x l -> fat_val g im1 x = FFree) /\
    (forall x, 2 <= x < total + 2 -> ~ In x l -> fat_val g im1 x = fat_val g im x) /\
    (forall x, In x l -> 2 <= x < total + 2 /\ fat_val g im x <> FFree) /\
    count_free g im1 = count_free g im + N.of_nat (length l).
Proof.
  intros Hb Hfi Hc Hch Hnd.
  destruct (chain_from_library g Hok im _ _ _ Hch) as (Lc & Lr & _). fold ft total in Lc, Lr.
  pose proof (vol_mirrors_pos g Hok) as Hm. destruct (Hrange g Hok) as (Hokc & Hokd). fold ft total in Hokc, Hokd.
  set (s0 := store_of g im).
  assert (inv_step ft (vol_base g) (g_fat_bytes g) (vol_mirrors g) s0 s0) as Hinv0.
  { apply inv_step_refl. unfold inv_g, s0, store_of. cbn [fs_base fs_size fs_mirrors fs_img]. repeat split. exact Hb. }
  assert (length l < FileM.chain_fuel total)%nat as Hfuel.
  { pose proof (nodup_range_length l total Hnd (fun x Hx => proj1 (Lr x Hx))). unfold FileM.chain_fuel. lia. }
  destruct (fs_free_chain_inv fstore (fat_get ft) (fat_set ft) (val_ft ft) (okcg ft (g_fat_bytes g)) (okv_step ft)
              (inv_step ft (vol_base g) (g_fat_bytes g) (vol_mirrors g) s0)
              (law_step_get ft (vol_base g) (g_fat_bytes g) (vol_mirrors g) s0)
              (law_step_set ft (vol_base g) (g_fat_bytes g) (vol_mirrors g) Hm s0) (okv_step_free ft)
              s0 fi total c l (FileM.chain_fuel total) Hinv0 Hokc Hfi Lc Hnd
              (fun x Hx => conj (Hokc x (proj1 (Lr x Hx))) (conj (proj1 (Lr x Hx)) (proj1 (proj2 (Lr x Hx))))) Hfuel)
    as (t' & fi' & Hr & Hinv' & Hfi' & Hgrow & Hall & Hfr).
  destruct (ci_free_spec fstore (fat_get ft) (fat_set ft) (val_ft ft) (okcg ft (g_fat_bytes g)) (okv_step ft)
              (inv_step ft (vol_base g) (g_fat_bytes g) (vol_mirrors g) s0)
              (law_step_get ft (vol_base g) (g_fat_bytes g) (vol_mirrors g) s0)
              (law_step_set ft (vol_base g) (g_fat_bytes g) (vol_mirrors g) Hm s0) (okv_step_free ft)
              l s0 c (FileM.chain_fuel total) Hinv0 Lc Hnd (fun x Hx => Hokc x (proj1 (Lr x Hx))) Hfuel)
    as (t2 & Hr2 & _).
  assert (fi' = map_free fi (fun n => n + N.of_nat (length l))) as ->.
  { unfold fs_free_chain in Hr. rewrite Hr2 in Hr. cbn [bind] in Hr. injection Hr as _ <-.
    (* the checked addition cannot overflow: a latched count is the table's (<= total), the chain has at most total clusters *)
    apply map_free_opt_add. intros n En. destruct Hfi as [Hcnt _]. rewrite En in Hcnt.
    pose proof (cnt_le (val_ft ft (store_of g im)) (N.to_nat total) 2) as Hle. unfold count_spec in Hcnt.
    assert (total + 2 <= 268435447) as Hsm.
    { destruct Hok as (_ & _ & Hf). fold total in Hf. destruct (ft_of g); cbn [fat_fits] in Hf; lia. }
    unfold FileM.chain_fuel in Hfuel. unfold u32_max. lia. }
  destruct Hinv' as ((B & S & M & Hb1) & Hout & _).
  pose proof (store_of_img g t' B S M) as Est.
  exists (fs_img t').
  split.
  { unfold vol_free_chain. apply N.eqb_neq in Hc. rewrite Hc. fold ft total s0. rewrite Hr. reflexivity. }
  split; [exact Hb1|]. split; [rewrite Est; exact Hfi'|].
  assert (forall x, 2 <= x < total + 2 -> fatv_of (fat_val g (fs_img t') x) = val_ft ft t' x) as Hv1.
  { intros x R. rewrite (fat_val_store g (fs_img t') x (range_small g x Hok R)). fold ft. rewrite Est. reflexivity. }
  split.
  { intros a Ha. apply Hout. unfold in_store_area in Ha. lia. }
  split.
  { intros x Hx. destruct (Lr x Hx) as (R & _). pose proof (Hv1 x R) as E. rewrite (Hall x Hx) in E.
    destruct (fat_val g (fs_img t') x); cbn [fatv_of] in E; try discriminate. reflexivity. }
  split.
  { intros x R Hn. apply fatv_of_inj. rewrite (Hv1 x R), (Hfr x Hn (Hokc x R)).
    symmetry. apply (fat_val_store g im x (range_small g x Hok R)). }
  split.
  { intros x Hx. destruct (Lr x Hx) as (R & NF & _). split; [exact R|]. intros E. apply NF.
    pose proof (fat_val_store g im x (range_small g x Hok R)) as E2. fold ft in E2. rewrite <- E2, E. reflexivity. }
  rewrite !count_free_store. fold ft total. rewrite Est. exact Hgrow.
Qed.
End FreeChain.

(* ================================================================ 5. list and well-formedness helpers *)
Lemma NoDup_app_mid {A} (a l b : list A) : NoDup (a ++ l ++ b) ->
  NoDup (a ++ b) /\ NoDup l /\ (forall x, In x (a ++ b) -> ~ In x l).
Proof.
  induction l as [|c l IH]; intros H.
  - split; [exact H|]. split; [constructor|]. intros x _ [].
  - cbn [app] in H. apply NoDup_remove in H. destruct H as [H Hc]. destruct (IH H) as (N1 & N2 & N3).
    split; [exact N1|]. split.
    + constructor; [|exact N2]. intros Hin. apply Hc. apply in_or_app. right. apply in_or_app. left. exact Hin.
    + intros x Hx [<-|Hl]; [|exact (N3 x Hx Hl)]. apply Hc. apply in_app_or in Hx.
      apply in_or_app. destruct Hx as [Hx|Hx]; [left; exact Hx|right; apply in_or_app; right; exact Hx].
Qed.

Lemma nth_of_nth_error {A} (d : A) (a b : list A) i : nth_error a i = nth_error b i -> nth i a d = nth i b d.
Proof. intros H. rewrite <- !nth_default_eq. unfold nth_default. rewrite H. reflexivity. Qed.

Lemma lost_from_nil_inv g im m : forall n c, Wf.lost_from g im m c n = [] ->
  forall x, c <= x < c + N.of_nat n ->
    fat_val g im x = FFree \/ fat_val g im x = FBad \/ PositiveMap.find (N.succ_pos x) m = Some tt.
Proof.
  induction n as [|n IH]; intros c H x Hx; [lia|]. cbn [Wf.lost_from] in H. apply app_eq_nil in H. destruct H as [H1 H2].
  destruct (N.eq_dec x c) as [->|Hne]; [|apply (IH (c + 1) H2); lia].
  destruct (fat_val g im c); [left; reflexivity|right; left; reflexivity| |];
    (destruct (PositiveMap.find (N.succ_pos c) m) as [[]|]; [right; right; reflexivity|discriminate]).
Qed.

Lemma depth_exceeded_remove a n b d : Wf.depth_exceeded (a ++ n :: b) d = false -> Wf.depth_exceeded (a ++ b) d = false.
Proof.
  destruct d; cbn [Wf.depth_exceeded]; rewrite !existsb_app; cbn [existsb]; rewrite !orb_false_iff;
    intros (H1 & _ & H2); split; assumption.
Qed.

Lemma NoDup_app_remove_mid1 {A} (x : A) a b : NoDup (a ++ x :: b) -> NoDup (a ++ b).
Proof. intros H. apply NoDup_remove in H. exact (proj1 H). Qed.

Lemma names_issues_remove fold a n b : Wf.names_issues fold 0 (a ++ n :: b) = [] -> Wf.names_issues fold 0 (a ++ b) = [].
Proof.
  unfold Wf.names_issues. cbv zeta. intros H. apply app_eq_nil in H. destruct H as [H1 H2]. fold has_lfn in *.
  destruct (Wf.has_dup list_eqb (map e_sfn (map node_entry (a ++ n :: b)))) eqn:D1; [discriminate|].
  destruct (Wf.has_dup list_eqb (map fold (filter has_lfn (map e_lfn (map node_entry (a ++ n :: b)))))) eqn:D2; [discriminate|].
  apply has_dup_NoDup in D1. apply has_dup_NoDup in D2.
  rewrite !map_app in *. cbn [map] in *.
  apply NoDup_app_remove_mid1 in D1. apply has_dup_NoDup in D1. rewrite D1. cbn [app].
  rewrite filter_app in *. cbn [filter] in D2.
  assert (NoDup (map fold (filter has_lfn (map e_lfn (map node_entry a)) ++ filter has_lfn (map e_lfn (map node_entry b))))) as D3.
  { destruct (has_lfn (e_lfn (node_entry n))); rewrite !map_app in *; [|exact D2].
    cbn [map] in D2. exact (NoDup_app_remove_mid1 _ _ _ D2). }
  apply has_dup_NoDup in D3. rewrite D3. reflexivity.
Qed.

Lemma skipn_In {A} n (l : list A) x : In x (skipn n l) -> In x l.
Proof. intros H. rewrite <- (firstn_skipn n l). apply in_or_app. right. exact H. Qed.

(* deleting a slot keeps its attribute byte up to the two undefined bits: the library's and the decoder's long-name-slot
   tests still agree on it *)
Lemma mark_deleted_slot_sane s : (12 <= length s)%nat -> attrs_sane s -> attrs_sane (mark_deleted_slot s).
Proof.
  intros Hl Hs. assert (byte_at (mark_deleted_slot s) 11 = byte_at s 11 mod 64) as E.
  { unfold mark_deleted_slot, slot_decode.
    destruct (N.land (attrs_truncate (byte_at s 11)) ATTR_LFN =? ATTR_LFN); cbn [set_deleted slot_encode].
    - unfold lfn_encode, byte_at. cbn [le_order le_name le_attrs le_entry_type le_checksum le_reserved_0 firstn skipn flat_map
        u16_bytes app nth]. reflexivity.
    - unfold sfn_encode, byte_at. cbn [se_name se_attrs].
      do 12 (destruct s as [|? s]; [cbn [length] in Hl; lia|]). cbn [firstn tl app nth]. reflexivity. }
  unfold attrs_sane, is_lfn_slot, attrs_truncate in *. rewrite E. rewrite N.mod_mod by discriminate. exact Hs.
Qed.

Lemma mark_deleted_sane ss a b : Forall len32 ss -> Forall attrs_sane ss -> Forall attrs_sane (mark_deleted ss a b).
Proof.
  intros Hl Hs. unfold mark_deleted. apply Forall_app. split; [apply Forall_firstn'; exact Hs|].
  apply Forall_app. split; [|apply Forall_skipn'; exact Hs].
  apply Forall_forall. intros s Hin. apply in_map_iff in Hin. destruct Hin as (s0 & <- & Hin).
  assert (In s0 ss) as Hin0 by (apply (firstn_incl _ _ _) in Hin; exact (skipn_In _ _ _ Hin)).
  rewrite Forall_forall in Hl, Hs. apply mark_deleted_slot_sane; [rewrite (Hl s0 Hin0); lia|exact (Hs s0 Hin0)].
Qed.

(* ================================================================ 6. root_dir().remove(name) of a file, on the image *)
Section RemoveThm.
Variable upper : N -> list N.
Variable oem : N -> N.

(* the FS-info latch afterwards: free_cluster_chain is only called for an entry with a first cluster *)
Definition fi_after_remove (fi : fsinfo) (first : N) (k : nat) : fsinfo :=
  if first =? 0 then fi else map_free fi (fun n => n + N.of_nat k).

(* THE THEOREM.  A well-formed FAT12/16 volume (no issue of Spec/Wf.v) whose root slots are [attrs_sane]; [name] resolves
   (by the library's own lookup) to a file [ev] that is not stored under a dot short name.  Then remove succeeds and:
   (a) the decoded root has lost exactly the node of that file - NFile e chain content, with e the entry the lookup found
       (short name, first cluster, size) and chain = the decoder's walk [l] - every other node is there exactly as decoded
       before, in order; no decode issue; labels, geometry, status byte as before;
   (b) every cluster of [l] (distinct, in range, allocated before) is FFree for the decoder, every other FAT entry is as
       before, every data cluster holds the bytes it held; count_free grew by exactly length l; the FS-info latch is
       map_free (+ length l) and consistent with the new table (the conclusion of C05_remove_reclaims_all on the image);
   (c) the volume is still well formed;
   (d) nothing changes outside the mirrored FAT copies and the root region; in the root region only the entry's slots. *)
Theorem vol_remove_file_decodes fold im fi name ev :
  let g := parse_geom im in
  fixed_root_geom g -> FatProofs.bytes_ok im ->
  fi_inv fstore (val_ft (ft_of g)) (store_of g im) fi (g_clusters g) ->
  Wf.wf_issues fold im = [] -> Forall attrs_sane (root_region_slots g im) ->
  root_lookup upper oem im name = Ok ev -> Lfn.ev_is_dir ev = false ->
  list_eqb (Lfn.ev_raw_name ev) DOT || list_eqb (Lfn.ev_raw_name ev) DOTDOT = false ->
  exists im' ns1 e l content ns2,
    vol_remove_file_root upper oem im fi name = Some (Ok tt, im', fi_after_remove fi (e_cluster e) (length l)) /\
    (* a *)
    v_root (abs im) = ns1 ++ NFile e (if e_cluster e =? 0 then None else Some l) content :: ns2 /\
    v_root (abs im') = ns1 ++ ns2 /\
    matches upper oem name ev = true /\ e_sfn e = Lfn.ev_raw_name ev /\ e_cluster e = Lfn.ev_cluster_lo ev /\
    e_size e = Lfn.ev_size ev /\
    (e_cluster e = 0 -> l = []) /\
    (e_cluster e <> 0 -> chain_from g im (e_cluster e) (Abs.chain_fuel g) = Some l) /\
    len_N l = Wf.ceil_div (e_size e) (g_cluster_size g) /\
    v_root_issues (abs im') = [] /\ v_labels (abs im') = v_labels (abs im) /\ v_geom (abs im') = v_geom (abs im) /\
    v_root_chain (abs im') = v_root_chain (abs im) /\ v_status (abs im') = v_status (abs im) /\ parse_geom im' = g /\
    (* b *)
    NoDup l /\
    (forall x, In x l -> 2 <= x < g_clusters g + 2 /\ fat_val g im x <> FFree /\ fat_val g im' x = FFree) /\
    (forall x, 2 <= x < g_clusters g + 2 -> ~ In x l -> fat_val g im' x = fat_val g im x) /\
    (forall c, 2 <= c -> cluster_bytes g im' c = cluster_bytes g im c) /\
    count_free g im' = count_free g im + N.of_nat (length l) /\
    FatProofs.bytes_ok im' /\
    fi_inv fstore (val_ft (ft_of g)) (store_of g im') (fi_after_remove fi (e_cluster e) (length l)) (g_clusters g) /\
    (* c *)
    Wf.wf_issues fold im' = [] /\
    (* d *)
    (forall a, ~ in_store_area g a -> (a < g_root_off g \/ g_root_off g + root_bytes g <= a) -> img_get im' a = img_get im a) /\
    (forall i, (N.of_nat i < e_first_slot e \/ e_sfn_slot e < N.of_nat i) ->
       nth i (root_region_slots g im') [] = nth i (root_region_slots g im) []) /\
    Forall attrs_sane (root_region_slots g im').
Proof.
  intros g Hg Hb Hfi Hwf Hsane Hlk Hnd Hdot.
  pose proof (fixed_root_vgeom_ok g Hg) as Hok.
  destruct (wf_session_premises fold im (fg_bits g Hg) Hwf) as [Hiss Hint].
  destruct (abs_scan_of im (fg_bits g Hg)) as (es & ls & iss & Hscan & Habs). fold g in Hscan, Habs.
  rewrite Habs in Hiss. cbn [abs_fixed v_root_issues] in Hiss. subst iss.
  set (ss := root_region_slots g im) in *.
  assert (remove_entry upper oem ss name false = (Ok tt, delete_entry ss ev)) as Hre.
  { unfold remove_entry, lift. unfold root_lookup in Hlk. fold g ss in Hlk. rewrite Hlk. unfold is_special. rewrite Hnd. reflexivity. }
  destruct (remove_entry_full upper oem ss name false es ls _ Hscan Hsane Hre)
    as (ev' & e & es1 & es2 & F & M & Hnm & Hd & Hc & Hz & E1 & E2 & E3).
  assert (ev' = ev) as -> by (unfold root_lookup in Hlk; fold g ss in Hlk; congruence).
  pose proof (remove_entry_shape _ _ _ _ _ _ _ _ (proj1 (root_region_shape g im)) Hre) as Hsh. fold ss in Hsh.
  set (ss' := delete_entry ss ev) in *.
  (* the node of the file *)
  assert (e_is_dot e = false) as Edot by (unfold e_is_dot; rewrite <- Hnm; exact Hdot).
  assert (e_is_dir e = false) as Edir by (rewrite Hd; exact Hnd).
  pose proof (node_of_file g im 23 e Edot Edir) as Hnode.
  set (ns1 := map (node_of g im 23) es1). set (ns2 := map (node_of g im 23) es2).
  assert (decode_entries g im MAX_DEPTH es = ns1 ++ NFile e (file_chain g im e) (file_content g im e) :: ns2) as Hroot.
  { change MAX_DEPTH with (S 23). rewrite decode_entries_S, E1, map_app. cbn [map]. rewrite Hnode. reflexivity. }
  assert (decode_entries g im MAX_DEPTH (es1 ++ es2) = ns1 ++ ns2) as Hroot'.
  { change MAX_DEPTH with (S 23). rewrite decode_entries_S, map_app. reflexivity. }
  (* what well-formedness says *)
  rewrite (wf_issues_fixed fold im g im es ls [] (fg_bits g Hg) Habs) in Hwf. cbv zeta in Hwf. rewrite Hroot in Hwf.
  destruct (Wf.own_clusters (concat (Wf.nodes_chains (ns1 ++ NFile e (file_chain g im e) (file_content g im e) :: ns2)))
              (PositiveMap.empty unit)) as [owned cross] eqn:Eown.
  cbn [map app] in Hwf.
  apply app_eq_nil in Hwf. destruct Hwf as [Wn Hwf]. apply app_eq_nil in Hwf. destruct Hwf as [Wi Hwf].
  apply app_eq_nil in Hwf. destruct Hwf as [Wc Hwf]. apply app_eq_nil in Hwf. destruct Hwf as [Wl Wd].
  subst cross.
  unfold Wf.nodes_issues in Wi. rewrite flat_map_app in Wi. cbn [flat_map] in Wi.
  apply app_eq_nil in Wi. destruct Wi as [Wi1 Wi]. apply app_eq_nil in Wi. destruct Wi as [Wie Wi2].
  (* the chain of the file *)
  assert (exists l, file_chain g im e = (if e_cluster e =? 0 then None else Some l) /\
                    (e_cluster e = 0 -> l = []) /\
                    (e_cluster e <> 0 -> chain_from g im (e_cluster e) (Abs.chain_fuel g) = Some l) /\
                    len_N l = Wf.ceil_div (e_size e) (g_cluster_size g)) as (l & Hfc & Hl0 & Hlc & Hlen).
  { cbn [Wf.node_issues] in Wie. unfold file_chain in *. pose proof (cs_pos g Hok) as Hcs.
    destruct (N.eqb_spec (e_cluster e) 0) as [Z|NZ].
    - exists []. split; [reflexivity|]. split; [reflexivity|]. split; [intros C; contradiction|].
      destruct (N.eqb_spec (e_size e) 0) as [->|_]; [|discriminate]. unfold Wf.ceil_div, len_N. cbn [length N.of_nat].
      symmetry. apply N.div_small. lia.
    - destruct (e_size e =? 0); [discriminate|].
      destruct (chain_from g im (e_cluster e) (chain_fuel g)) as [l|]; [|discriminate].
      exists l. split; [reflexivity|]. split; [intros C; contradiction|]. split; [reflexivity|].
      destruct (N.eqb_spec (len_N l) (Wf.ceil_div (e_size e) (g_cluster_size g))) as [E|_]; [exact E|discriminate]. }
  rewrite Hfc in Hroot, Eown.
  set (A := concat (Wf.nodes_chains ns1)) in *. set (B := concat (Wf.nodes_chains ns2)) in *.
  assert (concat (Wf.nodes_chains (ns1 ++ NFile e (if e_cluster e =? 0 then None else Some l) (file_content g im e) :: ns2))
          = A ++ l ++ B) as Hcc.
  { rewrite nodes_chains_app, nodes_chains_cons, !concat_app. fold A B. f_equal. f_equal.
    cbn [Wf.node_chains]. destruct (N.eqb_spec (e_cluster e) 0) as [Z|NZ]; [rewrite (Hl0 Z); reflexivity|].
    cbn [concat]. apply app_nil_r. }
  rewrite Hcc in Eown.
  destruct (own_clusters_spec _ _ _ _ Eown) as [Hnd0 Hown]. destruct (Hnd0 eq_refl) as [Hnodup _].
  destruct (NoDup_app_mid A l B Hnodup) as (NAB & Nl & Ndis).
  (* the FAT step *)
  assert (exists im1, vol_free_chain g im fi (e_cluster e) = Ok (im1, fi_after_remove fi (e_cluster e) (length l)) /\
            FatProofs.bytes_ok im1 /\
            fi_inv fstore (val_ft (ft_of g)) (store_of g im1) (fi_after_remove fi (e_cluster e) (length l)) (g_clusters g) /\
            (forall a, ~ in_store_area g a -> img_get im1 a = img_get im a) /\
            (forall x, In x l -> fat_val g im1 x = FFree) /\
            (forall x, 2 <= x < g_clusters g + 2 -> ~ In x l -> fat_val g im1 x = fat_val g im x) /\
            (forall x, In x l -> 2 <= x < g_clusters g + 2 /\ fat_val g im x <> FFree) /\
            count_free g im1 = count_free g im + N.of_nat (length l))
    as (im1 & Hfree & Hb1 & Hfi1 & Hout1 & Hfreed & Hkept & Hlr & Hcount).
  { unfold fi_after_remove, vol_free_chain. destruct (N.eqb_spec (e_cluster e) 0) as [Z|NZ].
    - rewrite (Hl0 Z). exists im. split; [reflexivity|]. split; [exact Hb|]. split; [exact Hfi|]. split; [reflexivity|].
      split; [intros x []|]. split; [reflexivity|]. split; [intros x []|]. cbn [length N.of_nat]. lia.
    - destruct (vol_free_chain_spec g Hok im fi (e_cluster e) l Hb Hfi NZ (Hlc NZ) Nl) as (im1 & R & X).
      exists im1. unfold vol_free_chain in R. apply N.eqb_neq in NZ. rewrite NZ in R. split; [exact R|exact X]. }
  (* root region and geometry after the FAT step *)
  assert (forall a, g_root_off g <= a -> img_get im1 a = img_get im a) as Hhigh
    by (intros a Ha; apply Hout1; exact (root_not_store g a Hg Ha)).
  assert (root_region_slots g im1 = ss) as Hrs1.
  { unfold ss, root_region_slots. f_equal. apply VolFileProofs.img_read_ext. intros i Hi. apply Hhigh. lia. }
  assert (parse_geom im1 = g) as Hpg1.
  { apply parse_geom_low. intros o Ho. apply Hout1. intros Hs. pose proof (store_area_before_root g o Hg Hs). lia. }
  set (im' := put_root_slots g im1 ss').
  assert (vol_remove_file_root upper oem im fi name = Some (Ok tt, im', fi_after_remove fi (e_cluster e) (length l))) as Hres.
  { unfold vol_remove_file_root. cbv zeta. rewrite Hlk, Hnd. unfold root_entry_cluster. rewrite <- Hc. fold g. rewrite Hfree.
    rewrite Hrs1. reflexivity. }
  assert (fixed_root_geom (parse_geom im1)) as Hg1 by (rewrite Hpg1; exact Hg).
  destruct (abs_put_root im1 ss' _ _ _ Hg1 ltac:(rewrite Hpg1; exact Hsh) E2) as [Hpg' Habs']. rewrite Hpg1 in Hpg', Habs'.
  fold im' in Hpg', Habs'.
  pose proof (put_same_outside g im1 ss' Hsh) as Hout12. fold im' in Hout12.
  (* the other nodes decode as before *)
  assert (same_off g im im1 l) as Hoff.
  { intros x R Hn. apply in_range_iff in R. split; [exact (Hkept x R Hn)|].
    unfold cluster_bytes. apply VolFileProofs.img_read_ext. intros i Hi. rewrite N2Nat.id in Hi. apply Hout1.
    apply (cluster_above_area g x _ Hok ltac:(lia)). unfold in_cluster. lia. }
  assert (forallb node_intact (ns1 ++ ns2) = true) as Hint'.
  { rewrite Habs in Hint. cbn [abs_fixed v_root] in Hint. rewrite Hroot in Hint. rewrite forallb_app in Hint |- *. cbn [forallb] in Hint.
    apply andb_true_iff in Hint. destruct Hint as [I1 I2]. apply andb_true_iff in I2. rewrite I1, (proj2 I2). reflexivity. }
  assert (decode_entries g im1 MAX_DEPTH (es1 ++ es2) = ns1 ++ ns2) as Hdec1.
  { rewrite <- Hroot'. apply (decode_entries_off g im im1 l Hoff); rewrite Hroot'; [exact Hint'|].
    intros x Hx. apply Ndis. rewrite nodes_chains_app, concat_app in Hx. exact Hx. }
  (* FAT values of the result *)
  assert (forall x, 2 <= x < g_clusters g + 2 -> fat_val g im' x = fat_val g im1 x) as Hfv'
    by (intros x R; exact (fat_val_frame g im1 im' x Hg Hout12 (in_range_intro g x R))).
  assert (forall c, 2 <= c -> cluster_bytes g im' c = cluster_bytes g im c) as Hcb.
  { intros c Hc2. rewrite (cluster_bytes_frame g im1 im' c ltac:(pose proof (fg_bps g Hg); lia) Hout12).
    unfold cluster_bytes. apply VolFileProofs.img_read_ext. intros i Hi. rewrite N2Nat.id in Hi. apply Hout1.
    apply (cluster_above_area g c _ Hok Hc2). unfold in_cluster. lia. }
  exists im', ns1, e, l, (file_content g im e), ns2.
  split; [exact Hres|].
  split; [rewrite Habs; cbn [abs_fixed v_root]; exact Hroot|].
  split; [rewrite Habs'; cbn [abs_fixed v_root]; exact Hdec1|].
  split; [exact M|]. split; [symmetry; exact Hnm|]. split; [exact Hc|]. split; [exact Hz|].
  split; [exact Hl0|]. split; [exact Hlc|]. split; [exact Hlen|].
  split; [rewrite Habs'; reflexivity|]. split; [rewrite Habs', Habs; reflexivity|]. split; [rewrite Habs', Habs; reflexivity|].
  split; [rewrite Habs', Habs; reflexivity|].
  split.
  { rewrite Habs', Habs. cbn [abs_fixed v_status]. rewrite (g_status_off_fixed g (fg_bits g Hg)). apply Hout1.
    intros Hs. pose proof (store_area_before_root g 37 Hg Hs). lia. }
  split; [exact Hpg'|].
  split; [exact Nl|].
  split.
  { intros x Hx. destruct (Hlr x Hx) as [R NF]. split; [exact R|]. split; [exact NF|]. rewrite (Hfv' x R). exact (Hfreed x Hx). }
  split; [intros x R Hn; rewrite (Hfv' x R); exact (Hkept x R Hn)|].
  split; [exact Hcb|].
  split; [rewrite (count_free_frame g im1 im' Hg Hout12); exact Hcount|].
  assert (FatProofs.bytes_ok im') as Hb'.
  { unfold im', put_root_slots. apply img_write_bytes_ok; [exact Hb1|].
    assert (Forall (Forall (fun b : N => b < 256)) ss') as X.
    { rewrite E3. unfold mark_deleted.
      pose proof (root_region_bytes g im Hb) as Hss. fold ss in Hss.
      apply Forall_app. split; [apply Forall_firstn'; exact Hss|]. apply Forall_app. split; [|apply Forall_skipn'; exact Hss].
      apply Forall_forall. intros s Hin. apply in_map_iff in Hin. destruct Hin as (s0 & <- & Hin).
      assert (In s0 ss) as Hin0 by (apply (firstn_incl _ _ _) in Hin; exact (skipn_In _ _ _ Hin)).
      rewrite Forall_forall in Hss. specialize (Hss s0 Hin0). clear - Hss.
      unfold mark_deleted_slot, slot_decode, attrs_truncate.
      assert (forall i, byte_at s0 i < 256) as Hby.
      { intros i. unfold byte_at. destruct (Nat.lt_ge_cases i (length s0)) as [L|L].
        - rewrite Forall_forall in Hss. apply Hss. apply nth_In. exact L.
        - rewrite nth_overflow by exact L. lia. }
      destruct (N.land (byte_at s0 11 mod 64) ATTR_LFN =? ATTR_LFN); cbn [set_deleted slot_encode].
      - apply lfn_encode_lt; cbn [le_order le_attrs le_entry_type le_checksum]; try apply Hby; unfold DELETED_FLAG; lia.
      - unfold sfn_encode. cbn [se_name se_attrs se_reserved_0 se_create_time_0 se_create_time_1 se_create_date
          se_access_date se_first_cluster_hi se_modify_time se_modify_date se_first_cluster_lo se_size].
        repeat (apply Forall_app; split); try apply u16_bytes_lt; try apply u32_bytes_lt.
        + constructor; [unfold DELETED_FLAG; lia|]. destruct (firstn 11 s0) as [|b r] eqn:Ef; [constructor|]. cbn [tl].
          assert (Forall (fun b : N => b < 256) (firstn 11 s0)) as Y by (apply Forall_firstn'; exact Hss).
          rewrite Ef in Y. inversion Y; assumption.
        + repeat constructor; try apply Hby. lia. }
    apply Forall_concat in X. rewrite Forall_forall in X. exact X. }
  split; [exact Hb'|].
  split.
  { destruct Hfi1 as [F1 F2]. split; [|exact F2].
    destruct (fi_free (fi_after_remove fi (e_cluster e) (length l))) as [n|]; [|exact I]. rewrite F1.
    unfold count_spec. apply (cnt_ext g). intros x Hx.
    assert (2 <= x < g_clusters g + 2) as R by lia.
    rewrite <- (fat_val_store g im1 x (range_small g x Hok R)), <- (fat_val_store g im' x (range_small g x Hok R)).
    rewrite (Hfv' x R). reflexivity. }
  split.
  { (* (c) still well formed *)
    rewrite (wf_issues_fixed fold im' g im1 (es1 ++ es2) ls [] (fg_bits g Hg) Habs'). cbv zeta. rewrite Hdec1.
    destruct (own_clusters_nodup (concat (Wf.nodes_chains (ns1 ++ ns2))) (PositiveMap.empty unit)) as (m' & Em & Hm').
    { rewrite nodes_chains_app, concat_app. exact NAB. }
    { intros x _. apply PositiveMap.gempty. }
    rewrite Em. cbn [map app].
    rewrite (names_issues_remove fold ns1 _ ns2 Wn). cbn [app].
    unfold Wf.nodes_issues. rewrite flat_map_app. unfold Wf.nodes_issues in Wi1, Wi2. rewrite Wi1, Wi2. cbn [app].
    rewrite (FormatImageAbs.lost_from_nil g im' m').
    - cbn [app].
      destruct (Wf.depth_exceeded (ns1 ++ NFile e (file_chain g im e) (file_content g im e) :: ns2) MAX_DEPTH) eqn:D; [discriminate|].
      rewrite (depth_exceeded_remove ns1 _ ns2 MAX_DEPTH D). reflexivity.
    - intros x Hx. assert (2 <= x < g_clusters g + 2) as R by lia. rewrite (Hfv' x R).
      destruct (in_dec N.eq_dec x l) as [Hin|Hnin]; [left; exact (Hfreed x Hin)|].
      rewrite (Hkept x R Hnin).
      destruct (lost_from_nil_inv g im owned _ _ Wl x Hx) as [X|[X|X]]; [left; exact X|right; left; exact X|right; right].
      rewrite Hown in X. rewrite PositiveMap.gempty in X. rewrite Hm', PositiveMap.gempty.
      rewrite nodes_chains_app, concat_app. fold A B.
      destruct (in_dec N.eq_dec x (A ++ l ++ B)) as [Hi|_]; [|discriminate].
      destruct (in_dec N.eq_dec x (A ++ B)) as [_|Hn]; [reflexivity|]. exfalso. apply Hn.
      apply in_app_or in Hi. destruct Hi as [Hi|Hi]; [apply in_or_app; left; exact Hi|].
      apply in_app_or in Hi. destruct Hi as [Hi|Hi]; [contradiction|apply in_or_app; right; exact Hi]. }
  split.
  { intros a Hns Hr. rewrite (Hout12 a Hr). exact (Hout1 a Hns). }
  assert (root_region_slots g im' = ss') as Hrs' by (apply root_region_put; exact Hsh).
  split.
  { intros i Hi. rewrite Hrs'. fold ss. rewrite E3.
    assert (In e es) as Hin by (rewrite E1; apply in_or_app; right; left; reflexivity).
    destruct (mark_deleted_refines false ss es ls e Hscan Hin) as (_ & _ & _ & _ & _ & Hfr & _). cbv zeta in Hfr.
    apply nth_of_nth_error. exact (Hfr i Hi). }
  rewrite Hrs'. rewrite E3. apply mark_deleted_sane; [exact (proj2 (proj1 (root_region_shape g im)))|exact Hsane].
Qed.

(* ================================================================ 7. the other outcomes *)
(* the lookup fails (NotFound, ...): that is the call's answer; image and FS-info latch are returned as they were *)
Theorem vol_remove_file_failed_unchanged im fi name r im' fi' :
  vol_remove_file_root upper oem im fi name = Some (r, im', fi') -> r <> Ok tt ->
  im' = im /\ fi' = fi /\ (forall ev, root_lookup upper oem im name <> Ok ev) /\
  match r with Err e => root_lookup upper oem im name = Err e | Panic => root_lookup upper oem im name = Panic
             | OutOfFuel => root_lookup upper oem im name = OutOfFuel | Ok _ => False end.
Proof.
  unfold vol_remove_file_root. cbv zeta. intros H Hr.
  destruct (root_lookup upper oem im name) as [ev|e| |] eqn:L.
  - destruct (Lfn.ev_is_dir ev); [discriminate|].
    destruct (vol_free_chain (parse_geom im) im fi (root_entry_cluster ev)) as [[im1 fi1]| | |]; try discriminate.
    injection H as <- _ _. exfalso. apply Hr. reflexivity.
  - injection H as <- <- <-. repeat split; [intros ev; discriminate].
  - injection H as <- <- <-. repeat split; [intros ev; discriminate].
  - injection H as <- <- <-. repeat split; [intros ev; discriminate].
Qed.

(* the model declines (None) exactly when the name resolves to a directory, or to a file whose chain walk fails *)
Theorem vol_remove_file_none im fi name :
  vol_remove_file_root upper oem im fi name = None <->
  exists ev, root_lookup upper oem im name = Ok ev /\
    (Lfn.ev_is_dir ev = true \/
     (Lfn.ev_is_dir ev = false /\ forall x, vol_free_chain (parse_geom im) im fi (root_entry_cluster ev) <> Ok x)).
Proof.
  unfold vol_remove_file_root. cbv zeta.
  destruct (root_lookup upper oem im name) as [ev|e| |]; try (split; [discriminate|intros (ev0 & X & _); discriminate]).
  destruct (Lfn.ev_is_dir ev) eqn:D.
  - split; [intros _; exists ev; split; [reflexivity|left; exact D]|reflexivity].
  - destruct (vol_free_chain (parse_geom im) im fi (root_entry_cluster ev)) as [[im1 fi1]|e| |] eqn:V.
    + split; [discriminate|]. intros (ev0 & X & [C|(_ & C)]); injection X as <-; [congruence|]. exfalso. exact (C _ V).
    + split; [|reflexivity]. intros _. exists ev. split; [reflexivity|]. right. split; [exact D|]. intros x. rewrite V. discriminate.
    + split; [|reflexivity]. intros _. exists ev. split; [reflexivity|]. right. split; [exact D|]. intros x. rewrite V. discriminate.
    + split; [|reflexivity]. intros _. exists ev. split; [reflexivity|]. right. split; [exact D|]. intros x. rewrite V. discriminate.
Qed.

(* it subsumes the cluster-less remove of Model/VolDir.v *)
Theorem vol_remove_file_extends_empty im fi name r im' :
  vol_remove_empty_file_root upper oem im name = Some (r, im') ->
  vol_remove_file_root upper oem im fi name = Some (r, im', fi) \/
  ((forall ev, root_lookup upper oem im name <> Ok ev) /\ img_same im im' /\
   exists r0, vol_remove_file_root upper oem im fi name = Some (r0, im, fi)).
Proof.
  unfold vol_remove_empty_file_root, vol_remove_file_root. cbv zeta. rewrite vol_root_apply_eq.
  unfold remove_entry, lift, root_lookup.
  destruct (find_entry upper oem (root_region_slots (parse_geom im) im) name None) as [ev|e| |] eqn:F.
  - destruct (Lfn.ev_is_dir ev) eqn:D; cbn [orb]; [discriminate|].
    unfold root_entry_cluster, vol_free_chain. destruct (Lfn.ev_cluster_lo ev =? 0); cbn [negb]; [|discriminate].
    unfold is_special. rewrite D. cbn [andb fst snd]. intros H. injection H as <- <-. left. reflexivity.
  - cbn [fst snd]. intros H. injection H as <- <-. right. split; [intros ev; discriminate|].
    split; [intros o; apply put_root_slots_same|eexists; reflexivity].
  - cbn [fst snd]. intros H. injection H as <- <-. right. split; [intros ev; discriminate|].
    split; [intros o; apply put_root_slots_same|eexists; reflexivity].
  - cbn [fst snd]. intros H. injection H as <- <-. right. split; [intros ev; discriminate|].
    split; [intros o; apply put_root_slots_same|eexists; reflexivity].
Qed.
End RemoveThm.

(* ================================================================ 8. a session followed by remove; fill / delete cycles *)
(* ---------------------------------------------------------------- 8a. the flush keeps the device a byte device *)
Definition en_lt (en : sentry) : Prop :=
  Forall lt256 (se_name (en_data en)) /\ se_attrs (en_data en) < 256 /\ se_reserved_0 (en_data en) < 256 /\
  se_create_time_0 (en_data en) < 256.

Lemma byte_at_lt l i : Forall lt256 l -> byte_at l i < 256.
Proof.
  intros H. unfold byte_at. destruct (Nat.lt_ge_cases i (length l)) as [L|L].
  - rewrite Forall_forall in H. apply H. apply nth_In. exact L.
  - rewrite nth_overflow by exact L. lia.
Qed.

Lemma img_read_lt im : FatProofs.bytes_ok im -> forall n off, Forall lt256 (img_read im off n).
Proof. intros Hb n off. apply Forall_forall. exact (img_read_bytes_ok im Hb n off). Qed.

Lemma sess_open_lt g im k h en : FatProofs.bytes_ok im -> sess_open g im k = Some (h, en) -> en_lt en.
Proof.
  intros Hb. unfold sess_open. pose proof (img_read_lt im Hb 32 (root_slot_off g k)) as Hbs. fold (root_slot_bytes g im k) in Hbs.
  set (bs := root_slot_bytes g im k) in *. clearbody bs. unfold slot_decode.
  destruct (N.land (attrs_truncate (byte_at bs 11)) ATTR_LFN =? ATTR_LFN); [discriminate|].
  match goal with |- context [sfn_is_dir ?e] => remember e as e0 eqn:Ee0; destruct (sfn_is_dir e0) end; [discriminate|].
  intros H. injection H as _ <-. unfold en_lt. cbn [en_data]. rewrite Ee0. cbn [se_name se_attrs se_reserved_0 se_create_time_0].
  split; [apply Forall_firstn'; exact Hbs|]. split; [unfold attrs_truncate; lia|]. split; apply byte_at_lt; exact Hbs.
Qed.

Lemma stamp_after_fields acc en o r now en' : stamp_after acc en o r now = Ok en' ->
  se_name (en_data en') = se_name (en_data en) /\ se_attrs (en_data en') = se_attrs (en_data en) /\
  se_reserved_0 (en_data en') = se_reserved_0 (en_data en) /\ se_create_time_0 (en_data en') = se_create_time_0 (en_data en).
Proof.
  assert (forall x : res editor_t,
            (forall ed', x = Ok ed' -> create_time_0 (ed_st ed') = se_create_time_0 (en_data en)) ->
            (do ed' <- x; Ok {| en_slot := en_slot en; en_data := with_stamps (en_data en) (ed_st ed');
                                en_tdirty := Time.ed_dirty ed' |}) = Ok en' ->
            se_name (en_data en') = se_name (en_data en) /\ se_attrs (en_data en') = se_attrs (en_data en) /\
            se_reserved_0 (en_data en') = se_reserved_0 (en_data en) /\
            se_create_time_0 (en_data en') = se_create_time_0 (en_data en)) as U.
  { intros x Hx H. destruct x as [ed'| | |]; try discriminate. cbn [bind] in H. injection H as <-.
    cbn [en_data with_stamps se_name se_attrs se_reserved_0 se_create_time_0]. repeat split. exact (Hx ed' eq_refl). }
  unfold stamp_after. set (ed := {| ed_st := stamps_of (en_data en); Time.ed_dirty := en_tdirty en |}).
  assert (forall r0, (Ok en = r0 :> res sentry) -> r0 = Ok en' ->
            se_name (en_data en') = se_name (en_data en) /\ se_attrs (en_data en') = se_attrs (en_data en) /\
            se_reserved_0 (en_data en') = se_reserved_0 (en_data en) /\
            se_create_time_0 (en_data en') = se_create_time_0 (en_data en)) as Same.
  { intros r0 <- H. injection H as <-. repeat split. }
  destruct o as [n|d|p|]; try (destruct r; apply (Same _ eq_refl)).
  - destruct r as [bs| | | | | |]; try apply (Same _ eq_refl). destruct bs as [|b bs]; [apply (Same _ eq_refl)|].
    apply U. intros ed'. unfold stamp_read. destruct acc; [|intros H; injection H as <-; reflexivity].
    unfold ed_set_accessed. destruct (date_eqb _ _); [intros H; injection H as <-; reflexivity|].
    unfold st_set_accessed. destruct (date_encode _) as [w| | |]; cbn [bind]; try discriminate.
    intros H. injection H as <-. reflexivity.
  - destruct r as [|k| | | | |]; try apply (Same _ eq_refl). destruct (k =? 0); [apply (Same _ eq_refl)|].
    apply U. intros ed'. unfold stamp_write, ed_set_modified. destruct (datetime_eqb _ _); [intros H; injection H as <-; reflexivity|].
    unfold st_set_modified. destruct (date_encode _) as [w| | |]; cbn [bind]; try discriminate.
    destruct (time_encode _) as [w2 hi]. intros H. injection H as <-. reflexivity.
Qed.

Lemma sess_run_en_lt g acc : forall ops st st' rs, sess_run g acc st ops = (st', rs) -> en_lt (s_en st) -> en_lt (s_en st').
Proof.
  induction ops as [|[o now] ops IH]; intros st st' rs H Hl.
  - cbn [sess_run] in H. injection H as <- _. exact Hl.
  - cbn [sess_run] in H. destruct (sess_step g acc st (o, now)) as [st1 r] eqn:Hs.
    destruct (sess_run g acc st1 ops) as [st2 rs2] eqn:Hr. injection H as <- _.
    apply (IH _ _ _ Hr). unfold sess_step in Hs.
    destruct (vol_step g (s_im st, s_fi st, s_h st) o) as [[[im1 fi1] h1] r1].
    destruct (stamp_after acc (s_en st) o r1 now) as [en1| | |] eqn:Est; injection Hs as <- _; cbn [s_en]; try exact Hl.
    destruct (stamp_after_fields _ _ _ _ _ _ Est) as (A & B & C & D). destruct Hl as (L1 & L2 & L3 & L4).
    unfold en_lt. rewrite A, B, C, D. repeat split; assumption.
Qed.

Lemma sfn_encode_lt4 e : Forall lt256 (se_name e) -> se_attrs e < 256 -> se_reserved_0 e < 256 -> se_create_time_0 e < 256 ->
  Forall lt256 (sfn_encode e).
Proof.
  intros H1 H2 H3 H4. unfold sfn_encode.
  repeat (apply Forall_app; split); try apply u16_bytes_lt; try apply u32_bytes_lt; try exact H1. repeat constructor; assumption.
Qed.

Lemma sess_entry_lt g h en : en_lt en -> Forall lt256 (sfn_encode (sess_entry g h en)).
Proof.
  intros (L1 & L2 & L3 & L4). unfold sess_entry.
  destruct (h_entry h) as [ed|]; [|apply sfn_encode_lt4; assumption].
  destruct (ed_size ed) as [s|]; apply sfn_encode_lt4; cbn [sfn_set_size sfn_set_first se_name se_attrs se_reserved_0 se_create_time_0];
    assumption.
Qed.

Lemma flush_bytes_ok g st : FatProofs.bytes_ok (s_im st) -> en_lt (s_en st) -> FatProofs.bytes_ok (s_im (vol_flush_entry g st)).
Proof.
  intros Hb Hl. rewrite flush_image_eq. destruct (sess_dirty (s_h st) (s_en st)); [|exact Hb].
  apply img_write_bytes_ok; [exact Hb|]. pose proof (sess_entry_lt g (s_h st) (s_en st) Hl) as X.
  rewrite Forall_forall in X. exact X.
Qed.

(* ---------------------------------------------------------------- 8b. the slots create_file / flush write are attrs_sane *)
Lemma attrs_sane_of_byte s s' : byte_at s' 11 = byte_at s 11 -> attrs_sane s -> attrs_sane s'.
Proof. unfold attrs_sane, is_lfn_slot. intros ->. exact (fun H => H). Qed.

Lemma attrs_sane_const s : byte_at s 11 = 0 \/ byte_at s 11 = 15 \/ byte_at s 11 = 8 -> attrs_sane s.
Proof. unfold attrs_sane, is_lfn_slot. intros [ -> | [ -> | -> ] ]; reflexivity. Qed.

Lemma lfn_encode_attr le : (13 <= length (le_name le))%nat -> byte_at (lfn_encode le) 11 = le_attrs le.
Proof.
  intros H. unfold lfn_encode. cbv zeta. destruct (le_name le) as [|a0 n]; [cbn [length] in H; lia|].
  do 4 (destruct n as [|? n]; [cbn [length] in H; lia|]). reflexivity.
Qed.

Lemma sfn_encode_attr e : length (se_name e) = 11%nat -> byte_at (sfn_encode e) 11 = se_attrs e.
Proof.
  intros H. unfold sfn_encode. destruct (list11 _ H) as [b0 [b1 [b2 [b3 [b4 [b5 [b6 [b7 [b8 [b9 [b10 E]]]]]]]]]]]. rewrite E. reflexivity.
Qed.

Lemma entry_run_sane n e : length (se_name e) = 11%nat -> se_attrs e = 0 -> Forall attrs_sane (entry_run n e).
Proof.
  intros Hn Ha. unfold entry_run. apply Forall_app. split.
  - apply Forall_forall. intros s Hs. apply in_map_iff in Hs. destruct Hs as [le [<- Hle]].
    unfold write_entry_lfn_slots in Hle. destruct (is_dot_name n); [contradiction|]. unfold lfn_entries in Hle.
    destruct (lfn_gen_fields _ _ _ _ _ Hle) as (_ & A & _). apply attrs_sane_const. right. left.
    rewrite (lfn_encode_attr le (lfn_gen_names _ _ _ _ _ Hle)). exact A.
  - constructor; [|constructor]. apply attrs_sane_const. left. rewrite (sfn_encode_attr e Hn). exact Ha.
Qed.

Lemma create_entry_fixed_sane upper oem free ss name now wd r ss' : Forall attrs_sane ss ->
  create_entry upper oem false FixedRoot free ss name 0 None now wd = (r, ss') -> Forall attrs_sane ss'.
Proof.
  intros Hs H. unfold create_entry, lift in H.
  destruct (check_for_existence upper oem ss name (Some wd)) as [[ev|a]| | |] eqn:C; try (injection H as _ <-; exact Hs).
  destruct (check_fresh_inv _ _ _ _ _ _ C) as (_ & HL & _).
  destruct (stamp_create now) as [st| | |] eqn:ST; try (injection H as _ <-; exact Hs).
  destruct (write_entry FixedRoot free ss name (create_sfn_entry false a 0 None st)) as [w ss1] eqn:W.
  injection H as _ <-. unfold write_entry, lift in W.
  destruct (validate_long_name name); try (injection W as _ <-; exact Hs).
  destruct (find_free_entries FixedRoot ss _) as [p| | |]; try (injection W as _ <-; exact Hs).
  destruct (write_run FixedRoot free ss (N.to_nat p) _) as [w1 ss2] eqn:WR. injection W as _ <-.
  refine (write_run_fixed_Forall _ free _ _ _ _ _ _ Hs WR).
  apply entry_run_sane; cbn [create_sfn_entry se_name se_attrs]; [exact (sfn_legal_len a HL)|reflexivity].
Qed.

(* ---------------------------------------------------------------- 8c. one fill / delete cycle *)
Lemma v_geom_abs im : v_geom (abs im) = parse_geom im.
Proof.
  unfold abs. destruct (root_slots (parse_geom im) im) as [rc ss].
  destruct (dir_scan ss 0 [] (g_bits (parse_geom im) =? 32)) as [[es ls] iss]. reflexivity.
Qed.

Lemma utf16_encode_nonempty n : n <> [] -> utf16_encode n <> [].
Proof.
  destruct n as [|c r]; [intros H; contradiction|]. intros _. unfold utf16_encode. cbn [flat_map]. unfold utf16_encode_char.
  destruct (c <? 65536); discriminate.
Qed.

Section Cycle.
Variable upper : N -> list N.
Variable oem : N -> N.

(* the state between cycles: an empty, well-formed volume with every cluster free *)
Definition EmptyVol (g : geom) (im : image) (fi : fsinfo) : Prop :=
  parse_geom im = g /\ FatProofs.bytes_ok im /\
  fi_inv fstore (val_ft (ft_of g)) (store_of g im) fi (g_clusters g) /\
  v_root (abs im) = [] /\ v_root_issues (abs im) = [] /\
  Forall attrs_sane (root_region_slots g im) /\ count_free g im = g_clusters g.

(* create_file(name) ; any calls ; flush ; remove(name) on an empty volume: the remove SUCCEEDS (the library's lookup finds
   the file just written), gives back every cluster, and the volume is empty and well formed again - with the same labels and
   with every data byte where the session left it *)
Theorem cycle_step fold acc g im fi name now ops range im1 :
  fixed_root_geom g -> EmptyVol g im fi ->
  TimeProofs.datetime_valid now = true -> Forall op_ok (map fst ops) -> clocks_ok ops ->
  str_valid name = true -> name <> [] -> is_dot_name name = false ->
  vol_create_empty_file_root upper oem im name now = (Ok (Some range), im1) ->
  exists st rs content pos (l : list N) im' fi',
    vol_session upper oem acc im fi name now ops = Some (st, rs) /\
    bf_run ([], 0) (map fst ops) rs = Some (content, pos) /\
    N.of_nat (length l) = cdiv (g_cluster_size g) (len_N content) /\
    count_free g (s_im st) + N.of_nat (length l) = g_clusters g /\
    Wf.wf_issues fold (s_im st) = [] /\
    vol_remove_file_root upper oem (s_im st) (s_fi st) name = Some (Ok tt, im', fi') /\
    EmptyVol g im' fi' /\ v_labels (abs im') = v_labels (abs im) /\ Wf.wf_issues fold im' = [] /\
    (forall c, 2 <= c -> cluster_bytes g im' c = cluster_bytes g (s_im st) c).
Proof.
  intros Hg (Hpg & Hb & Hfi & Hroot & Hiss & Hsane & Hcf) Hnow Hops Hclk Hsv Hne Hdn Hc. subst g.
  set (g := parse_geom im) in *.
  pose proof (fixed_root_vgeom_ok g Hg) as Hok.
  assert (forall x, 2 <= x < g_clusters g + 2 -> fat_val g im x = FFree) as Hallfree.
  { intros x Hx. apply (all_free_of_count g im (N.to_nat (g_clusters g)) 2); [|lia]. fold (count_free g im). rewrite Hcf. lia. }
  (* the session, inside and outside *)
  pose proof (session_core upper oem acc im fi name now ops range im1) as SC. cbv zeta in SC. fold g in SC.
  destruct (SC Hg Hb Hfi Hiss Hnow Hops Hclk Hc)
    as (es & ls & es1 & es2 & ne & ss' & k & pk & st1 & st2 & rs2 & sz2 & l2 & s'
        & _ & _ & Hsh & Him1 & Hpg1 & _ & Hk & _ & _ & _ & _ & _ & _ & _ & _ & _ & _ & _ & _ & _
        & Hcreate & Hst1 & Hrun & V2 & _ & _ & Hrs2 & Hpg2 & X1 & X2 & _ & _ & X5). clear SC.
  pose proof (session_flush_decodes upper oem acc im fi name now ops range im1) as SF. cbv zeta in SF. fold g in SF.
  destruct (SF Hg Hb Hfi Hiss ltac:(rewrite Hroot; reflexivity) Hnow Hops Hclk Hc)
    as (st & rs & content & pos & e & l & ns1 & ns2 & R1 & R2 & R3 & R4 & E1 & _ & E3 & E4 & _ & _ & _ & E5 & E6 & E7 & E8 & E9 & E10
        & I1 & I2 & I3 & I4 & _ & _ & _ & Felse & _). clear SF.
  rewrite Hroot in R3. symmetry in R3. apply app_eq_nil in R3. destruct R3 as [-> ->]. cbn [app] in R4.
  assert (st = vol_flush_entry g st2) as Hst.
  { unfold vol_session in R1. rewrite Hcreate, Hst1, Hpg1, Hrun in R1. injection R1 as <- _. reflexivity. }
  set (im3 := s_im st) in *.
  assert (parse_geom im3 = g) as Hpg3 by (rewrite !v_geom_abs in I3; exact I3).
  (* a byte device *)
  pose proof (vol_create_bytes_ok upper oem im name now _ im1 Hnow Hb Hc) as Hb1.
  assert (en_lt (s_en st1)) as Hl1.
  { unfold sess_create in Hcreate. rewrite Hc in Hcreate. destruct range as [p q].
    destruct (sess_open (parse_geom im1) im1 (q - 1)) as [[h0 en0]|] eqn:Eo; [|discriminate].
    injection Hcreate as <-. cbn [s_en]. exact (sess_open_lt _ _ _ _ _ Hb1 Eo). }
  pose proof (sess_run_en_lt g acc ops st1 st2 rs2 Hrun Hl1) as Hl2.
  assert (FatProofs.bytes_ok im3) as Hb3.
  { unfold im3. rewrite Hst. apply flush_bytes_ok; [apply V2|exact Hl2]. }
  (* FAT and data bytes of the flushed image are those before the flush *)
  set (ss3 := set_nth k s' ss') in *.
  assert (shape (root_slot_count g) ss3) as Hsh3 by (apply set_nth_shape; [exact X1|exact Hsh]).
  assert (same_outside_root g (s_im st2) im3) as Hout23.
  { intros o Ho. unfold im3. rewrite Hst. rewrite (X5 o). apply put_root_slots_outside; [exact Hsh3|exact Ho]. }
  assert (fi_inv fstore (val_ft (ft_of g)) (store_of g im3) (s_fi st) (g_clusters g)) as Hfi3.
  { rewrite Hst. cbn [vol_flush_entry s_fi]. destruct V2 as (_ & (_ & (F1 & F2) & _) & _). cbn [world_of w_fat w_fi] in F1, F2.
    split; [|exact F2]. destruct (fi_free (s_fi st2)) as [n|]; [|exact I]. rewrite F1.
    unfold count_spec. apply (cnt_ext g). intros x Hx. assert (2 <= x < g_clusters g + 2) as R by lia.
    rewrite <- (fat_val_store g (s_im st2) x (range_small g x Hok R)), <- (fat_val_store g im3 x (range_small g x Hok R)).
    rewrite (fat_val_frame g (s_im st2) im3 x Hg Hout23 (in_range_intro g x R)). reflexivity. }
  (* the free count after the session *)
  assert (count_free g im3 + N.of_nat (length l) = g_clusters g) as Hcf3.
  { pose proof (count_free_after g im im3 l E9 E10) as X. rewrite Hcf in X. symmetry. apply X.
    intros x R Hn. rewrite (Hallfree x R). exact (Felse x R (Hallfree x R) Hn). }
  (* well formed after the session *)
  assert (l <> [] -> e_cluster e <> 0) as Hnz.
  { intros Hl C. apply E6 in C. subst content. cbn [len_N length N.of_nat] in E8.
    rewrite (cdiv_0 _ (cs_pos g Hok)) in E8. destruct l; [contradiction|cbn [length] in E8; lia]. }
  assert (Wf.wf_issues fold im3 = []) as Hwf3.
  { apply (wf_single fold im3 e l content); rewrite ?v_geom_abs, ?Hpg3.
    - exact (fg_bits g Hg).
    - rewrite I4. destruct (abs_scan_of im (fg_bits g Hg)) as (es0 & ls0 & iss0 & _ & A0). rewrite A0. reflexivity.
    - exact I1.
    - exact R4.
    - rewrite E5. split; [intros C; apply E6 in C; subst content; reflexivity|].
      intros C. apply E6. destruct content; [reflexivity|discriminate].
    - intros _. unfold len_N at 1. rewrite E8, E5. reflexivity.
    - exact E9.
    - intros x R. destruct (in_dec N.eq_dec x l) as [Hin|Hnin].
      + right. split; [|exact Hin]. apply Hnz. intros ->. destruct Hin.
      + left. exact (Felse x R (Hallfree x R) Hnin). }
  (* the root slots after the session *)
  assert (root_region_slots g im3 = ss3) as Hrs3.
  { unfold im3. rewrite Hst. rewrite (root_region_same g _ _ X5). apply root_region_put. exact Hsh3. }
  assert (Forall attrs_sane (root_region_slots g im3)) as Hsane3.
  { rewrite Hrs3. unfold ss3.
    assert (Forall attrs_sane ss') as Hs'.
    { assert (root_region_slots g im1 = ss') as <- by (rewrite Him1; apply root_region_put; exact Hsh).
      unfold vol_create_empty_file_root in Hc. rewrite vol_root_apply_eq in Hc. fold g in Hc.
      destruct (create_entry upper oem false FixedRoot 0 (root_region_slots g im) name 0 None now false) as [r0 ss0] eqn:Ec.
      cbn [fst snd] in Hc. injection Hc as _ <-.
      rewrite root_region_put by exact (create_entry_fixed_shape _ _ _ _ _ _ _ _ _ _ _ _ _ (proj1 (root_region_shape g im)) Ec).
      exact (create_entry_fixed_sane _ _ _ _ _ _ _ _ _ Hsane Ec). }
    apply set_nth_Forall; [|exact Hs'].
    apply (attrs_sane_of_byte (nth k ss' [])); [exact (firstn12_byte _ _ 11 ltac:(lia) X2)|].
    rewrite Forall_forall in Hs'. apply Hs'. apply nth_In. rewrite (proj1 Hsh). exact Hk. }
  (* the library's lookup finds the file *)
  assert (g_bits (parse_geom im3) <> 32) as Hb32 by (rewrite Hpg3; exact (fg_bits g Hg)).
  destruct (abs_scan_of im3 Hb32) as (es3 & ls3 & iss3 & Hscan3 & Habs3). rewrite Hpg3 in Hscan3, Habs3.
  rewrite Habs3 in R4, I1. cbn [abs_fixed v_root v_root_issues] in R4, I1. subst iss3.
  change MAX_DEPTH with (S 23) in R4. rewrite decode_entries_S in R4.
  destruct es3 as [|e3 [|e4 es3]]; cbn [map] in R4; try discriminate. injection R4 as R4.
  assert (e3 = e) as -> by (rewrite <- (node_entry_of g im3 23 e3), R4; reflexivity).
  assert (e_lfn e = utf16_encode name) as Hlfn by (rewrite E1; unfold stored_lfn; rewrite Hdn; reflexivity).
  destruct (LfnProofs.read_dir_total Lfn.VecBuf oem true (root_region_slots g im3)) as (lst & Hlst).
  destruct (DupLongProofs.decoded_lfn_listed false oem _ lst [e] ls3 [] e Hlst Hscan3 (or_introl eq_refl)
              ltac:(rewrite Hlfn; exact (utf16_encode_nonempty name Hne))) as (ev1 & Hin1 & Hraw1 & Hl1' & _).
  assert (matches upper oem name ev1 = true) as Hm1.
  { unfold matches. rewrite Hl1', Hlfn. exact (proj1 (NameProofs.lookup_self upper oem name _ Hsv Hne)). }
  destruct (find (matches upper oem name) lst) as [ev0|] eqn:Hfind;
    [|pose proof (find_none _ _ Hfind ev1 Hin1); congruence].
  assert (root_lookup upper oem im3 name = Ok ev0) as Hlk.
  { unfold root_lookup, find_entry. rewrite Hpg3. unfold dir_entries. rewrite Hlst. cbn [bind]. rewrite Hfind. reflexivity. }
  destruct (find_entry_listed upper oem _ name None ev0 ltac:(unfold root_lookup in Hlk; rewrite Hpg3 in Hlk; exact Hlk)) as [HL0 _].
  destruct (listed_view_decoded oem _ [e] ls3 ev0 Hscan3 Hsane3 HL0) as (e' & Hin' & Hn' & _ & _ & Hd' & _).
  destruct Hin' as [<-|[]].
  assert (Lfn.ev_is_dir ev0 = false) as Hnd0 by (rewrite <- Hd'; unfold e_is_dir; rewrite E3; reflexivity).
  assert (list_eqb (Lfn.ev_raw_name ev0) DOT || list_eqb (Lfn.ev_raw_name ev0) DOTDOT = false) as Hdot0.
  { rewrite Hn'. destruct (sfn_legal_not_dot _ E4) as [-> ->]. reflexivity. }
  (* remove *)
  pose proof (vol_remove_file_decodes upper oem fold im3 (s_fi st) name ev0) as RM. cbv zeta in RM. rewrite Hpg3 in RM.
  destruct (RM Hg Hb3 Hfi3 Hwf3 Hsane3 Hlk Hnd0 Hdot0)
    as (im' & ms1 & e' & l' & content' & ms2 & Q1 & Q2 & Q3 & _ & _ & _ & _ & Ql0 & Qlc & Qlen & Qi & Qlab & Qg & _ & _ & Qpg
        & _ & _ & _ & Qcb & Qcf & Qb & Qfi & Qwf & _ & _ & Qsane). clear RM.
  rewrite Habs3 in Q2. cbn [abs_fixed v_root] in Q2. change MAX_DEPTH with (S 23) in Q2. rewrite decode_entries_S in Q2.
  cbn [map] in Q2. rewrite R4 in Q2.
  destruct ms1 as [|m ms1]; [|destruct ms1; discriminate]. cbn [app] in Q2, Q3. injection Q2 as Qe Qch Qco Qms. subst ms2 e'.
  assert (length l' = length l) as Hll.
  { assert (len_N l' = len_N l) as X; [|unfold len_N in X; lia].
    rewrite Qlen. unfold len_N at 1. rewrite E8, E5. reflexivity. }
  exists st, rs, content, pos, l, im', (fi_after_remove (s_fi st) (e_cluster e) (length l')).
  split; [exact R1|]. split; [exact R2|]. split; [exact E8|]. split; [exact Hcf3|]. split; [exact Hwf3|].
  split; [exact Q1|].
  split.
  { split; [exact Qpg|]. split; [exact Qb|]. split; [exact Qfi|]. split; [exact Q3|]. split; [exact Qi|]. split; [exact Qsane|].
    rewrite Qcf, Hll. exact Hcf3. }
  split; [rewrite Qlab; exact I2|]. split; [exact Qwf|exact Qcb].
Qed.
End Cycle.

(* ---------------------------------------------------------------- 8d. n cycles *)
Section Cycles.
Variable upper : N -> list N.
Variable oem : N -> N.

Definition cycle_ok (c : cycle) : Prop :=
  TimeProofs.datetime_valid (cy_now c) = true /\ Forall op_ok (map fst (cy_ops c)) /\ clocks_ok (cy_ops c) /\
  str_valid (cy_name c) = true /\ cy_name c <> [] /\ is_dot_name (cy_name c) = false.

(* an empty volume with every cluster free has no issue *)
Lemma empty_vol_wf fold g im fi : fixed_root_geom g -> EmptyVol g im fi -> Wf.wf_issues fold im = [].
Proof.
  intros Hg (Hpg & _ & _ & Hroot & Hiss & _ & Hcf). subst g. set (g := parse_geom im) in *.
  destruct (abs_scan_of im (fg_bits g Hg)) as (es & ls & iss & _ & Habs). fold g in Habs.
  rewrite Habs in Hroot, Hiss. cbn [abs_fixed v_root v_root_issues] in Hroot, Hiss. subst iss.
  rewrite (wf_issues_fixed fold im g im es ls [] (fg_bits g Hg) Habs). cbv zeta. rewrite Hroot.
  cbn [Wf.nodes_chains flat_map concat Wf.own_clusters map app Wf.names_issues node_entry Wf.has_dup filter Wf.nodes_issues].
  rewrite (FormatImageAbs.lost_from_nil g im); [reflexivity|].
  intros x Hx. left. apply (all_free_of_count g im (N.to_nat (g_clusters g)) 2); [|lia]. fold (count_free g im). rewrite Hcf. lia.
Qed.

(* one cycle, as the function of Model/VolRemove.v: it runs iff create_file creates the entry *)
Theorem vol_cycle_spec fold acc g im fi c :
  fixed_root_geom g -> EmptyVol g im fi -> cycle_ok c ->
  (forall im2 fi2, vol_cycle upper oem acc im fi c = Some (im2, fi2) ->
     EmptyVol g im2 fi2 /\ v_labels (abs im2) = v_labels (abs im) /\ Wf.wf_issues fold im2 = []) /\
  (forall range im1, vol_create_empty_file_root upper oem im (cy_name c) (cy_now c) = (Ok (Some range), im1) ->
     exists im2 fi2, vol_cycle upper oem acc im fi c = Some (im2, fi2)).
Proof.
  intros Hg He (Hnow & Hops & Hclk & Hsv & Hne & Hdn).
  assert (forall range im1, vol_create_empty_file_root upper oem im (cy_name c) (cy_now c) = (Ok (Some range), im1) ->
            exists im2 fi2, vol_cycle upper oem acc im fi c = Some (im2, fi2) /\
              EmptyVol g im2 fi2 /\ v_labels (abs im2) = v_labels (abs im) /\ Wf.wf_issues fold im2 = []) as Step.
  { intros range im1 Hc.
    destruct (cycle_step upper oem fold acc g im fi (cy_name c) (cy_now c) (cy_ops c) range im1 Hg He Hnow Hops Hclk Hsv Hne Hdn Hc)
      as (st & rs & content & pos & l & im' & fi' & S1 & _ & _ & _ & _ & S2 & S3 & S4 & S5 & _).
    exists im', fi'. unfold vol_cycle. rewrite S1, S2. split; [reflexivity|]. split; [exact S3|]. split; [exact S4|exact S5]. }
  split.
  - intros im2 fi2 H.
    destruct (vol_create_empty_file_root upper oem im (cy_name c) (cy_now c)) as [r im1] eqn:Hc.
    assert (exists range, r = Ok (Some range)) as (range & ->).
    { unfold vol_cycle, vol_session, sess_create in H. rewrite Hc in H.
      destruct r as [[[p q]|]| | |]; try discriminate. eexists. reflexivity. }
    destruct (Step range im1 eq_refl) as (im2' & fi2' & H' & X). rewrite H in H'. injection H' as <- <-. exact X.
  - intros range im1 Hc. destruct (Step range im1 Hc) as (im2 & fi2 & H & _). exists im2, fi2. exact H.
Qed.

(* FILL / DELETE CYCLES NEVER SHRINK CAPACITY: after any number of cycles (any names, contents, clocks) the volume is empty,
   well formed, and every cluster is free again - the next fill finds exactly the capacity the first one found *)
Theorem vol_cycles_keep_capacity fold acc g : fixed_root_geom g -> forall cs im fi im' fi',
  EmptyVol g im fi -> Forall cycle_ok cs -> vol_cycles upper oem acc im fi cs = Some (im', fi') ->
  EmptyVol g im' fi' /\ count_free g im' = g_clusters g /\ v_root (abs im') = [] /\
  v_labels (abs im') = v_labels (abs im) /\ Wf.wf_issues fold im' = [].
Proof.
  intros Hg. induction cs as [|c cs IH]; intros im fi im' fi' He Hok H.
  - cbn [vol_cycles] in H. injection H as <- <-. pose proof He as (E1 & E2 & E3 & E4 & E5 & E6 & E7).
    split; [exact He|]. split; [exact E7|]. split; [exact E4|]. split; [reflexivity|]. exact (empty_vol_wf fold g im fi Hg He).
  - inversion Hok as [|? ? Hc Hok']; subst. cbn [vol_cycles] in H.
    destruct (vol_cycle upper oem acc im fi c) as [[im1 fi1]|] eqn:Hcy; [|discriminate].
    destruct (proj1 (vol_cycle_spec fold acc g im fi c Hg He Hc) im1 fi1 Hcy) as (He1 & Hl1 & _).
    destruct (IH im1 fi1 im' fi' He1 Hok' H) as (A & B & C & D & E). rewrite Hl1 in D.
    split; [exact A|]. split; [exact B|]. split; [exact C|]. split; [exact D|exact E].
Qed.
End Cycles.

(* ================================================================ 9. the theorem read per property *)
Section Views.
Variable upper : N -> list N.
Variable oem : N -> N.

(* C01: the tree.  remove(name) of a file takes exactly its node out of the decoded root *)
Theorem vol_remove_file_tree fold im fi name ev :
  let g := parse_geom im in
  fixed_root_geom g -> FatProofs.bytes_ok im ->
  fi_inv fstore (val_ft (ft_of g)) (store_of g im) fi (g_clusters g) ->
  Wf.wf_issues fold im = [] -> Forall attrs_sane (root_region_slots g im) ->
  root_lookup upper oem im name = Ok ev -> Lfn.ev_is_dir ev = false ->
  list_eqb (Lfn.ev_raw_name ev) DOT || list_eqb (Lfn.ev_raw_name ev) DOTDOT = false ->
  exists im' fi' ns1 e chain content ns2,
    vol_remove_file_root upper oem im fi name = Some (Ok tt, im', fi') /\
    v_root (abs im) = ns1 ++ NFile e chain content :: ns2 /\ v_root (abs im') = ns1 ++ ns2 /\
    matches upper oem name ev = true /\ e_sfn e = Lfn.ev_raw_name ev /\ e_cluster e = Lfn.ev_cluster_lo ev /\
    e_size e = Lfn.ev_size ev /\
    v_root_issues (abs im') = [] /\ v_labels (abs im') = v_labels (abs im) /\ v_geom (abs im') = v_geom (abs im) /\
    v_root_chain (abs im') = v_root_chain (abs im) /\ v_status (abs im') = v_status (abs im) /\
    (forall a, ~ in_store_area g a -> (a < g_root_off g \/ g_root_off g + root_bytes g <= a) -> img_get im' a = img_get im a) /\
    (forall i, (N.of_nat i < e_first_slot e \/ e_sfn_slot e < N.of_nat i) ->
       nth i (root_region_slots g im') [] = nth i (root_region_slots g im) []).
Proof.
  intros g Hg Hb Hfi Hwf Hsane Hlk Hnd Hdot.
  destruct (vol_remove_file_decodes upper oem fold im fi name ev Hg Hb Hfi Hwf Hsane Hlk Hnd Hdot)
    as (im' & ns1 & e & l & content & ns2 & Q1 & Q2 & Q3 & Q4 & Q5 & Q6 & Q7 & _ & _ & _ & Q8 & Q9 & Q10 & Q11 & Q12 & _
        & _ & _ & _ & _ & _ & _ & _ & _ & Q13 & Q14 & _).
  exists im', (fi_after_remove fi (e_cluster e) (length l)), ns1, e, (if e_cluster e =? 0 then None else Some l), content, ns2.
  repeat (split; [assumption|]). assumption.
Qed.

(* C03: the invariants.  remove(name) of a file keeps the volume well formed - and keeps every premise of this theorem, so it
   can be applied again to the result *)
Theorem vol_remove_file_keeps_wf fold im fi name ev :
  let g := parse_geom im in
  fixed_root_geom g -> FatProofs.bytes_ok im ->
  fi_inv fstore (val_ft (ft_of g)) (store_of g im) fi (g_clusters g) ->
  Wf.wf_issues fold im = [] -> Forall attrs_sane (root_region_slots g im) ->
  root_lookup upper oem im name = Ok ev -> Lfn.ev_is_dir ev = false ->
  list_eqb (Lfn.ev_raw_name ev) DOT || list_eqb (Lfn.ev_raw_name ev) DOTDOT = false ->
  exists im' fi',
    vol_remove_file_root upper oem im fi name = Some (Ok tt, im', fi') /\
    Wf.wf_issues fold im' = [] /\ parse_geom im' = g /\ FatProofs.bytes_ok im' /\
    fi_inv fstore (val_ft (ft_of g)) (store_of g im') fi' (g_clusters g) /\
    Forall attrs_sane (root_region_slots g im').
Proof.
  intros g Hg Hb Hfi Hwf Hsane Hlk Hnd Hdot.
  destruct (vol_remove_file_decodes upper oem fold im fi name ev Hg Hb Hfi Hwf Hsane Hlk Hnd Hdot)
    as (im' & ns1 & e & l & content & ns2 & Q1 & _ & _ & _ & _ & _ & _ & _ & _ & _ & _ & _ & _ & _ & _ & Q2
        & _ & _ & _ & _ & _ & Q3 & Q4 & Q5 & _ & _ & Q6).
  exists im', (fi_after_remove fi (e_cluster e) (length l)). repeat (split; [assumption|]). assumption.
Qed.
End Views.
