(* FormatImageExamples.v: concrete evaluations of Model/FormatImage.v (vm_compute) that are too slow to be repeated at
   every run of ./check C06: a small FAT32 volume, decoded by the independent decoder Spec/Abs.v (tie g of C06). *)
From Coq Require Import NArith List.
From FatVerif Require Import Model.Base Model.Slot Model.Table Spec.Image Model.Fat Model.Format Spec.FormatSpec
  Model.FormatImage Spec.FormatImageSpec Proofs.FatProofs Proofs.FormatImageProofs.
From FatVerif Require Spec.Abs Spec.Wf.
Import ListNotations.
Open Scope N_scope.

(* 66100 sectors of 512 bytes, 512-byte clusters, forced FAT32, one FAT, device filled with 0xD1 *)
Definition ex_img32_request : fmt_options :=
  {| o_bytes_per_sector := 512; o_total_sectors := None; o_bytes_per_cluster := Some 512; o_fat_type := Some Format.Fat32;
     o_max_root_dir_entries := 512; o_fats := 1; o_media := 248; o_sectors_per_track := 32; o_heads := 64;
     o_drive_num := None; o_volume_id := 305419896; o_volume_label := None |}.
Example ex_img_fat32 :
  exists bs, format_boot_sector_validated ex_img32_request 66100 = Ok (bs, Format.Fat32) /\
    sp_fat_entries (fbs_bpb bs) Format.Fat32 = 65664 /\
    sp_clusters (fbs_bpb bs) = 65579 /\ fi_fat_pos (fbs_bpb bs) = 4096 /\ fi_root_pos (fbs_bpb bs) = 266752 /\
    match format_image ex_img32_request 66100 (img_empty 209) with
    | Ok im =>
        img_read im 4096 16 = [248; 255; 255; 15; 255; 255; 255; 255; 255; 255; 255; 15; 0; 0; 0; 0] /\
        img_u32 im (512 + 488) = 65578 /\ img_u32 im (512 + 492) = 3 /\
        img_read im 3072 3 = [235; 88; 144] /\ img_read im 1024 2 = [209; 209] /\
        img_read im (266752 + 510) 4 = [0; 0; 209; 209] /\
        Abs.g_clusters (Abs.parse_geom im) = 65579 /\ Abs.g_bits (Abs.parse_geom im) = 32 /\
        Abs.v_root_chain (Abs.abs im) = Some [2] /\ Abs.v_root (Abs.abs im) = [] /\ Abs.v_labels (Abs.abs im) = [] /\
        Abs.v_fsinfo_free (Abs.abs im) = 65578 /\ Abs.count_free (Abs.parse_geom im) im = 65578 /\
        Wf.wf_issues (fun l => l) im = []
    | _ => False
    end.
Proof.
  eexists. split; [vm_compute; reflexivity|]. vm_compute. repeat (split; [reflexivity|]). reflexivity.
Qed.

