(* TimeProofs.v: round-trip and frame theorems for the DOS date/time codec (C18). *)
From Coq Require Import NArith ZArith Lia Bool.
From FatVerif Require Import Model.Base Model.Time Proofs.BaseProofs.
Open Scope N_scope.
Ltac Zify.zify_post_hook ::= Z.to_euclidean_division_equations.

Lemma date_valid_bounds d : date_valid d = true ->
  1980 <= year d <= 2107 /\ 1 <= month d <= 12 /\ 1 <= day d <= 31.
Proof.
  unfold date_valid, MIN_YEAR, MAX_YEAR. rewrite !andb_true_iff, !N.leb_le. lia.
Qed.

Lemma time_valid_bounds t : time_valid t = true ->
  hour t <= 23 /\ min t <= 59 /\ sec t <= 59 /\ millis t <= 999.
Proof. unfold time_valid. rewrite !andb_true_iff, !N.leb_le. lia. Qed.

(* arithmetic form of the encoder on valid dates *)
Lemma date_encode_arith d : date_valid d = true ->
  date_encode d = Ok ((year d - 1980) * 512 + month d * 32 + day d).
Proof.
  intros Hv. apply date_valid_bounds in Hv. destruct Hv as (Hy & Hm & Hd).
  unfold date_encode, MIN_YEAR, two16.
  destruct (year d <? 1980) eqn:E; [apply N.ltb_lt in E; lia|]. f_equal.
  rewrite (N.mod_small ((year d - 1980) * 512)) by lia.
  rewrite (N.mod_small (month d * 32)) by lia.
  rewrite lor_mul_512_add by lia.
  remember (year d - 1980) as yy eqn:Hyy.
  assert (yy <= 127) by lia.
  replace (yy * 512 + month d * 32) with ((yy * 16 + month d) * 32) by lia.
  rewrite lor_mul_32_add by lia. lia.
Qed.

Lemma div_eq a b q r : r < b -> a = b * q + r -> a / b = q.
Proof. intros H1 H2. symmetry. apply (N.div_unique a b q r H1 H2). Qed.
Lemma mod_eq a b q r : r < b -> a = b * q + r -> a mod b = r.
Proof. intros H1 H2. symmetry. apply (N.mod_unique a b q r H1 H2). Qed.

Theorem date_roundtrip d : date_valid d = true ->
  exists w, date_encode d = Ok w /\ w < 65536 /\ date_decode w = d.
Proof.
  intros Hv. rewrite (date_encode_arith d Hv). apply date_valid_bounds in Hv.
  destruct Hv as (Hy & Hm & Hd). eexists; split; [reflexivity|]. split; [lia|].
  unfold date_decode, MIN_YEAR. destruct d as [y m dd]; cbn [year month day] in *.
  remember (y - 1980) as yy eqn:Hyy. assert (y = yy + 1980) as -> by lia.
  rewrite (div_eq (yy * 512 + m * 32 + dd) 512 yy (m * 32 + dd)) by lia.
  rewrite (div_eq (yy * 512 + m * 32 + dd) 32 (yy * 16 + m) dd) by lia.
  rewrite (mod_eq (yy * 16 + m) 16 yy m) by lia.
  rewrite (mod_eq (yy * 512 + m * 32 + dd) 32 (yy * 16 + m) dd) by lia.
  reflexivity.
Qed.

(* the decoder is total and always yields a year in range, month < 16, day < 32 *)
Theorem date_decode_total w : w < 65536 ->
  1980 <= year (date_decode w) <= 2107 /\ month (date_decode w) < 16 /\ day (date_decode w) < 32.
Proof.
  intros H. unfold date_decode, MIN_YEAR; cbn [year month day].
  assert (w / 512 < 128) by (apply N.div_lt_upper_bound; lia).
  split; [split; lia|]. split; apply N.mod_lt; discriminate.
Qed.

Lemma time_encode_arith t : time_valid t = true ->
  time_encode t = (hour t * 2048 + min t * 32 + sec t / 2, millis t / 10 + (sec t mod 2) * 100).
Proof.
  intros Hv. apply time_valid_bounds in Hv. destruct Hv as (Hh & Hm & Hs & Hms).
  unfold time_encode, two16. f_equal.
  - rewrite (N.mod_small (hour t * 2048)) by lia.
    rewrite (N.mod_small (min t * 32)) by lia.
    rewrite lor_mul_2048_add by lia.
    replace (hour t * 2048 + min t * 32) with ((hour t * 64 + min t) * 32) by lia.
    rewrite lor_mul_32_add by lia. lia.
  - apply N.mod_small. lia.
Qed.

Theorem time_roundtrip_created t : time_valid t = true ->
  let '(w, hi) := time_encode t in
  w < 65536 /\ hi < 200 /\ time_decode w hi = round_created t.
Proof.
  intros Hv. rewrite (time_encode_arith t Hv). apply time_valid_bounds in Hv.
  destruct Hv as (Hh & Hm & Hs & Hms).
  split; [lia|]. split; [lia|].
  unfold time_decode, round_created. destruct t as [h m s ms]; cbn [hour min sec millis] in *.
  remember (s / 2) as s2 eqn:Hs2. remember (s mod 2) as sb eqn:Hsb.
  remember (ms / 10) as c eqn:Hc.
  assert (s = 2 * s2 + sb /\ sb < 2) as [Hs' Hsb'] by lia.
  assert (c <= 99) by lia.
  rewrite (div_eq (h * 2048 + m * 32 + s2) 2048 h (m * 32 + s2)) by lia.
  rewrite (div_eq (h * 2048 + m * 32 + s2) 32 (h * 64 + m) s2) by lia.
  rewrite (mod_eq (h * 64 + m) 64 h m) by lia.
  rewrite (mod_eq (h * 2048 + m * 32 + s2) 32 (h * 64 + m) s2) by lia.
  rewrite (div_eq (c + sb * 100) 100 sb c) by lia.
  rewrite (mod_eq (c + sb * 100) 100 sb c) by lia.
  f_equal; lia.
Qed.

Theorem time_roundtrip_modified t : time_valid t = true ->
  let '(w, _) := time_encode t in
  time_decode w 0 = round_modified t.
Proof.
  intros Hv. rewrite (time_encode_arith t Hv). apply time_valid_bounds in Hv.
  destruct Hv as (Hh & Hm & Hs & Hms).
  unfold time_decode, round_modified. destruct t as [h m s ms]; cbn [hour min sec millis] in *.
  remember (s / 2) as s2 eqn:Hs2.
  assert (s2 <= 29) by lia.
  rewrite (div_eq (h * 2048 + m * 32 + s2) 2048 h (m * 32 + s2)) by lia.
  rewrite (div_eq (h * 2048 + m * 32 + s2) 32 (h * 64 + m) s2) by lia.
  rewrite (mod_eq (h * 64 + m) 64 h m) by lia.
  rewrite (mod_eq (h * 2048 + m * 32 + s2) 32 (h * 64 + m) s2) by lia.
  change (0 / 100) with 0. change (0 mod 100) with 0.
  f_equal; lia.
Qed.

(* stamps: what is set reads back at the documented resolution, the other stamps are untouched *)
Definition datetime_valid (dt : datetime) : bool := date_valid (dt_date dt) && time_valid (dt_time dt).

Theorem set_created_spec s dt : datetime_valid dt = true ->
  exists s', st_set_created s dt = Ok s' /\
    st_created s' = {| dt_date := dt_date dt; dt_time := round_created (dt_time dt) |} /\
    access_date s' = access_date s /\ modify_time s' = modify_time s /\ modify_date s' = modify_date s.
Proof.
  unfold datetime_valid. rewrite andb_true_iff. intros [Hd Ht].
  destruct (date_roundtrip _ Hd) as (w & Hw & _ & Hdec).
  pose proof (time_roundtrip_created _ Ht) as Hrt.
  unfold st_set_created. rewrite Hw. cbn [bind].
  destruct (time_encode (dt_time dt)) as [tw hi]. destruct Hrt as (_ & _ & Hrt).
  eexists; split; [reflexivity|]. unfold st_created, datetime_decode; cbn.
  rewrite Hdec, Hrt. repeat split; reflexivity.
Qed.

Theorem set_modified_spec s dt : datetime_valid dt = true ->
  exists s', st_set_modified s dt = Ok s' /\
    st_modified s' = {| dt_date := dt_date dt; dt_time := round_modified (dt_time dt) |} /\
    access_date s' = access_date s /\ create_time_0 s' = create_time_0 s /\
    create_time_1 s' = create_time_1 s /\ create_date s' = create_date s.
Proof.
  unfold datetime_valid. rewrite andb_true_iff. intros [Hd Ht].
  destruct (date_roundtrip _ Hd) as (w & Hw & _ & Hdec).
  pose proof (time_roundtrip_modified _ Ht) as Hrt.
  unfold st_set_modified. rewrite Hw. cbn [bind].
  destruct (time_encode (dt_time dt)) as [tw hi].
  eexists; split; [reflexivity|]. unfold st_modified, datetime_decode; cbn.
  rewrite Hdec, Hrt. repeat split; reflexivity.
Qed.

Theorem set_accessed_spec s d : date_valid d = true ->
  exists s', st_set_accessed s d = Ok s' /\ st_accessed s' = d /\
    create_time_0 s' = create_time_0 s /\ create_time_1 s' = create_time_1 s /\
    create_date s' = create_date s /\ modify_time s' = modify_time s /\ modify_date s' = modify_date s.
Proof.
  intros Hd. destruct (date_roundtrip _ Hd) as (w & Hw & _ & Hdec).
  unfold st_set_accessed. rewrite Hw. cbn [bind].
  eexists; split; [reflexivity|]. unfold st_accessed; cbn. rewrite Hdec. repeat split; reflexivity.
Qed.

(* The editor compares with the decoded stored value first; either way the value read back
   afterwards is the requested one at the documented resolution. *)
Lemma date_eqb_eq a b : date_eqb a b = true -> a = b.
Proof.
  unfold date_eqb. rewrite !andb_true_iff, !N.eqb_eq. destruct a, b; simpl. intros [[-> ->] ->]. reflexivity.
Qed.
Lemma time_eqb_eq a b : time_eqb a b = true -> a = b.
Proof.
  unfold time_eqb. rewrite !andb_true_iff, !N.eqb_eq. destruct a, b; simpl. intros [[[-> ->] ->] ->]. reflexivity.
Qed.
Lemma datetime_eqb_eq a b : datetime_eqb a b = true -> a = b.
Proof.
  unfold datetime_eqb. rewrite andb_true_iff. intros [H1 H2].
  apply date_eqb_eq in H1. apply time_eqb_eq in H2. destruct a as [ad at_], b as [bd bt]; cbn [dt_date dt_time] in *. subst. reflexivity.
Qed.

Lemma round_created_decoded w hi : round_created (time_decode w hi) = time_decode w hi.
Proof. unfold round_created, time_decode; cbn [year month day hour min sec millis dt_date dt_time]. f_equal. lia. Qed.

Theorem editor_set_created_readback e dt : datetime_valid dt = true ->
  exists e', ed_set_created e dt = Ok e' /\
    st_created (ed_st e') = {| dt_date := dt_date dt; dt_time := round_created (dt_time dt) |}.
Proof.
  intros Hv. unfold ed_set_created.
  destruct (datetime_eqb dt (st_created (ed_st e))) eqn:E.
  - apply datetime_eqb_eq in E. subst dt. eexists; split; [reflexivity|].
    unfold st_created, datetime_decode; cbn [dt_date dt_time].
    rewrite round_created_decoded. reflexivity.
  - destruct (set_created_spec (ed_st e) dt Hv) as (s' & Hs & Hc & _).
    rewrite Hs. cbn [bind]. eexists; split; [reflexivity|]. exact Hc.
Qed.

Lemma round_modified_decoded w : round_modified (time_decode w 0) = time_decode w 0.
Proof. unfold round_modified, time_decode; cbn [year month day hour min sec millis dt_date dt_time]. f_equal; lia. Qed.

Theorem editor_set_modified_readback e dt : datetime_valid dt = true ->
  exists e', ed_set_modified e dt = Ok e' /\
    st_modified (ed_st e') = {| dt_date := dt_date dt; dt_time := round_modified (dt_time dt) |}.
Proof.
  intros Hv. unfold ed_set_modified.
  destruct (datetime_eqb dt (st_modified (ed_st e))) eqn:E.
  - apply datetime_eqb_eq in E. subst dt. eexists; split; [reflexivity|].
    unfold st_modified, datetime_decode; cbn [dt_date dt_time].
    rewrite round_modified_decoded. reflexivity.
  - destruct (set_modified_spec (ed_st e) dt Hv) as (s' & Hs & Hc & _).
    rewrite Hs. cbn [bind]. eexists; split; [reflexivity|]. exact Hc.
Qed.

Theorem editor_set_accessed_readback e d : date_valid d = true ->
  exists e', ed_set_accessed e d = Ok e' /\ st_accessed (ed_st e') = d.
Proof.
  intros Hv. unfold ed_set_accessed.
  destruct (date_eqb d (st_accessed (ed_st e))) eqn:E.
  - apply date_eqb_eq in E. eexists; split; [reflexivity|]. symmetry; exact E.
  - destruct (set_accessed_spec (ed_st e) d Hv) as (s' & Hs & Hc & _).
    rewrite Hs. cbn [bind]. eexists; split; [reflexivity|]. exact Hc.
Qed.

(* stamping rules *)
Theorem stamp_create_spec now : datetime_valid now = true ->
  exists s, stamp_create now = Ok s /\
    st_created s = {| dt_date := dt_date now; dt_time := round_created (dt_time now) |} /\
    st_modified s = {| dt_date := dt_date now; dt_time := round_modified (dt_time now) |} /\
    st_accessed s = dt_date now.
Proof.
  intros Hv. unfold stamp_create.
  destruct (set_created_spec stamps_zero now Hv) as (s1 & H1 & Hc1 & _).
  rewrite H1; cbn [bind].
  assert (date_valid (dt_date now) = true) as Hd
    by (unfold datetime_valid in Hv; apply andb_true_iff in Hv; tauto).
  destruct (set_accessed_spec s1 (dt_date now) Hd) as (s2 & H2 & Ha2 & Hf0 & Hf1 & Hf2 & _).
  rewrite H2; cbn [bind].
  destruct (set_modified_spec s2 now Hv) as (s3 & H3 & Hm3 & Ha3 & Hg0 & Hg1 & Hg2).
  exists s3. split; [exact H3|]. split; [|split; [exact Hm3|]].
  - unfold st_created in *. rewrite Hg0, Hg1, Hg2, Hf0, Hf1, Hf2. exact Hc1.
  - unfold st_accessed in *. rewrite Ha3. exact Ha2.
Qed.

Theorem stamp_write_spec e now : datetime_valid now = true ->
  exists e', stamp_write e now = Ok e' /\
    st_modified (ed_st e') = {| dt_date := dt_date now; dt_time := round_modified (dt_time now) |} /\
    st_created (ed_st e') = st_created (ed_st e) /\ st_accessed (ed_st e') = st_accessed (ed_st e).
Proof.
  intros Hv. unfold stamp_write, ed_set_modified.
  destruct (datetime_eqb now (st_modified (ed_st e))) eqn:E.
  - apply datetime_eqb_eq in E. subst now. eexists; split; [reflexivity|].
    split; [|split; reflexivity].
    unfold st_modified, datetime_decode; cbn [dt_date dt_time]. rewrite round_modified_decoded. reflexivity.
  - destruct (set_modified_spec (ed_st e) now Hv) as (s' & Hs & Hm & Ha & H0 & H1 & H2).
    rewrite Hs; cbn [bind]. eexists; split; [reflexivity|]. cbn [ed_st].
    split; [exact Hm|]. unfold st_created, st_accessed. rewrite H0, H1, H2, Ha. split; reflexivity.
Qed.

Theorem stamp_read_spec e upd today : date_valid today = true ->
  exists e', stamp_read e upd today = Ok e' /\
    st_accessed (ed_st e') = (if upd then today else st_accessed (ed_st e)) /\
    st_created (ed_st e') = st_created (ed_st e) /\ st_modified (ed_st e') = st_modified (ed_st e) /\
    (upd = false -> e' = e).
Proof.
  intros Hv. unfold stamp_read. destruct upd.
  - unfold ed_set_accessed. destruct (date_eqb today (st_accessed (ed_st e))) eqn:E.
    + apply date_eqb_eq in E. eexists; split; [reflexivity|]. repeat split; try reflexivity; try discriminate. symmetry; exact E.
    + destruct (set_accessed_spec (ed_st e) today Hv) as (s' & Hs & Ha & H0 & H1 & H2 & H3 & H4).
      rewrite Hs; cbn [bind]. eexists; split; [reflexivity|]. cbn [ed_st].
      split; [exact Ha|]. unfold st_created, st_modified. rewrite H0, H1, H2, H3, H4.
      repeat split; try reflexivity; discriminate.
  - eexists; split; [reflexivity|]. repeat split; reflexivity.
Qed.

(* non-vacuity: the hypotheses are satisfiable and the statements compute *)
Example date_example : date_valid {| year := 2107; month := 12; day := 31 |} = true /\
  date_encode {| year := 2107; month := 12; day := 31 |} = Ok 65439.
Proof. split; vm_compute; reflexivity. Qed.
Example time_example : time_valid {| hour := 23; min := 59; sec := 59; millis := 999 |} = true /\
  time_encode {| hour := 23; min := 59; sec := 59; millis := 999 |} = (49021, 199).
Proof. split; vm_compute; reflexivity. Qed.
