(* VolDirFormat.v: from a blank device to a populated root directory, end to end over images:
   format_volume (Model/FormatImage.v, proved in Proofs/FormatImageProofs.v / FormatImageAbs.v) followed by creates in the
   fixed root (Model/VolDir.v, Proofs/VolDirProofs.v), decoded by the independent decoder Spec/Abs.abs. *)
From Coq Require Import NArith ZArith Lia List Bool Permutation.
From FatVerif Require Import Model.Base Model.Str Model.Slot Model.Time Model.Name Model.DirSlots Spec.Image
  Model.Format Spec.FormatSpec Model.FormatImage Spec.FormatImageSpec Model.VolDir
  Proofs.FatProofs Proofs.FormatProofs Proofs.FormatImageProofs Proofs.FormatImageAbs Proofs.VolDirProofs.
From FatVerif Require Spec.Abs Spec.Wf Proofs.TimeProofs Model.ShortName.
Import ListNotations.
Open Scope N_scope.
Ltac Zify.zify_post_hook ::= Z.to_euclidean_division_equations.

(* a boot sector that satisfies the format specification (Spec/FormatSpec.v) with a FAT12/16 layout whose root directory
   fills its sectors decodes to a geometry of [fixed_root_geom]: the predicate is not vacuous *)
Lemma valid_geometry_fixed_root b ts t req : valid_format_geometry b ts t req -> t <> Format.Fat32 ->
  fb_root_entries b < 65536 -> (fb_root_entries b * 32) mod fb_bytes_per_sector b = 0 -> fixed_root_geom (geom_of b).
Proof.
  unfold valid_format_geometry. cbv zeta.
  intros ((_ & B1) & ((k & Hk) & _) & (R1 & F1) & (T1 & _) & (M1 & _) & Ty & _ & En & _ & (_ & Mx) & _) Ht Hre Hfill.
  assert (1 <= fb_bytes_per_sector b) as Hb1 by lia.
  pose proof (g_clusters_of b Hb1) as Hcl.
  assert (Abs.g_root_sectors (geom_of b) = sp_root_dir_sectors b) as Hrs.
  { unfold Abs.g_root_sectors, sp_root_dir_sectors. cbn [geom_of Abs.g_root_entries Abs.g_bps].
    replace (fb_root_entries b * 32 + fb_bytes_per_sector b - 1) with (fb_root_entries b * 32 + (fb_bytes_per_sector b - 1)) by lia.
    reflexivity. }
  assert (Abs.g_first_data (geom_of b) = sp_meta_sectors b) as Hfd.
  { unfold Abs.g_first_data. rewrite Hrs. reflexivity. }
  assert (Abs.g_bits (geom_of b) = sp_bits t) as Hbits.
  { unfold Abs.g_bits. rewrite Hcl. unfold sp_type_of_clusters in Ty.
    destruct (sp_clusters b <? 4085); [subst t; reflexivity|]. destruct (sp_clusters b <? 65525); subst t; reflexivity. }
  constructor.
  - rewrite Hbits. destruct t; cbn [sp_bits]; try discriminate. contradiction.
  - cbn [geom_of Abs.g_bps]. lia.
  - cbn [geom_of Abs.g_spc]. rewrite Hk. pose proof (N.pow_nonzero 2 k ltac:(discriminate)). lia.
  - cbn [geom_of Abs.g_reserved]. lia.
  - cbn [geom_of Abs.g_fats]. lia.
  - cbn [geom_of Abs.g_root_entries]. exact Hre.
  - unfold root_fills_sectors. cbn [geom_of Abs.g_root_entries Abs.g_bps]. exact Hfill.
  - unfold fat_bytes_needed, Abs.g_fat_bytes. rewrite Hbits, Hcl. cbn [geom_of Abs.g_spf Abs.g_bps].
    unfold sp_fat_entries in En. set (X := sp_fat_size b * fb_bytes_per_sector b) in *.
    destruct t; cbn [sp_bits N.eqb Pos.eqb] in *; try contradiction; lia.
  - rewrite Hfd. cbn [geom_of Abs.g_total_sectors]. lia.
Qed.

(* every FAT12/16 volume format_volume makes, when the requested root-entry count fills whole sectors (the default 512
   always does) *)
Theorem formatted_fixed_root_geom o ts bs t : builder_range o -> ts < 4294967296 ->
  format_boot_sector_validated o ts = Ok (bs, t) -> t <> Format.Fat32 ->
  (o_max_root_dir_entries o * 32) mod o_bytes_per_sector o = 0 ->
  fixed_root_geom (geom_of (fbs_bpb bs)) /\ sp_clusters (fbs_bpb bs) <= 65524.
Proof.
  intros Hb Hts Hv Ht Hfill.
  destruct (format_ok_valid o ts bs t Hb Hts Hv) as (Hviol & Hbps & _ & _ & _ & _ & _ & _ & _ & Hre & _).
  unfold boot_violations in Hviol. apply app_eq_nil in Hviol. destruct Hviol as [Hviol _].
  apply violations_nil_iff in Hviol.
  assert (fb_root_entries (fbs_bpb bs) = o_max_root_dir_entries o) as Hre'.
  { rewrite Hre. destruct t; try reflexivity. contradiction. }
  split.
  - apply (valid_geometry_fixed_root _ ts t (o_fat_type o) Hviol Ht).
    + rewrite Hre'. destruct Hb as (_ & _ & _ & Hr & _). lia.
    + rewrite Hre', Hbps. exact Hfill.
  - unfold valid_format_geometry in Hviol. cbv zeta in Hviol.
    destruct Hviol as (_ & _ & _ & _ & _ & _ & _ & _ & _ & (_ & Mx) & _).
    destruct t; cbn [sp_max_clusters] in Mx; try lia. contradiction.
Qed.

(* (d) THE PAYOFF, end to end from any device content: format_volume of a FAT12/16 volume, then one successful
   create_file(name) in the root.  The independent decoder finds exactly one root node: a plain file named [name]
   (long name = its UTF-16 form; "." / ".." are stored without long name: known class D21), empty, without cluster,
   stamped with [now], under a legal alias; no decode issue, the label of the request, the geometry of the boot sector;
   every cluster still free; no well-formedness issue of Spec/Wf.v for any case folding; nothing outside the root
   region differs from the formatted device. *)
Theorem format_create_decodes fold upper oem o ts im0 bs t im name now range im1 :
  builder_range o -> ts < 4294967296 -> bytes_ok im0 ->
  format_boot_sector_validated o ts = Ok (bs, t) -> t <> Format.Fat32 ->
  (o_max_root_dir_entries o * 32) mod o_bytes_per_sector o = 0 ->
  format_image o ts im0 = Ok im -> TimeProofs.datetime_valid now = true ->
  vol_create_empty_file_root upper oem im name now = (Ok (Some range), im1) ->
  let g := geom_of (fbs_bpb bs) in
  exists ne st,
    Abs.v_root (Abs.abs im1) = [Abs.NFile ne None []] /\
    Abs.e_lfn ne = stored_lfn name /\ Abs.e_lfn_ok ne = true /\
    Abs.e_size ne = 0 /\ Abs.e_cluster ne = 0 /\ Abs.e_attr ne = 0 /\
    stamp_create now = Ok st /\
    Abs.e_ctime_ms ne = create_time_0 st /\ Abs.e_ctime ne = create_time_1 st /\ Abs.e_cdate ne = create_date st /\
    Abs.e_adate ne = access_date st /\ Abs.e_mtime ne = modify_time st /\ Abs.e_mdate ne = modify_date st /\
    ShortName.sfn_legal_b (Abs.e_sfn ne) = true /\
    Abs.v_root_issues (Abs.abs im1) = [] /\ Abs.v_labels (Abs.abs im1) = expected_labels o /\
    Abs.parse_geom im1 = g /\ fixed_root_geom g /\
    Abs.count_free g im1 = sp_clusters (fbs_bpb bs) /\
    Wf.wf_issues fold im1 = [] /\
    (forall x, (x < Abs.g_root_off g \/ Abs.g_root_off g + root_bytes g <= x) -> img_get im1 x = img_get im x).
Proof.
  intros Hb Hts Hb0 Hv Ht Hfill Hf Hnow Hc g.
  destruct (image_decodes_empty o ts im0 bs t im fold Hb Hts Hb0 Hv Hf) as (Hpg & _ & _ & Hroot & Hiss & Hlab & _ & _ & Hcf & Hwf).
  destruct (formatted_fixed_root_geom o ts bs t Hb Hts Hv Ht Hfill) as [Hg Hmax]. fold g in Hg, Hpg.
  assert (fixed_root_geom (Abs.parse_geom im)) as Hg' by (rewrite Hpg; exact Hg).
  pose proof (vol_create_confined upper oem im name now _ im1 Hg' Hc) as (Hout & _ & Hpg1 & Hcf1 & _). rewrite Hpg in Hout, Hpg1, Hcf1.
  destruct (vol_create_decodes upper oem im name now range im1 Hg' Hiss Hnow Hc)
    as (ns1 & ns2 & ne & st & R1 & R2 & E3 & E4 & E5 & E6 & E7 & _ & ST & T1 & T2 & T3 & T4 & T5 & T6 & _ & _ & HL & _ & I1 & L1 & _).
  rewrite Hroot in R1. symmetry in R1. apply app_eq_nil in R1. destruct R1 as [-> ->]. cbn [app] in R2.
  exists ne, st.
  do 14 (split; [assumption|]).
  split; [exact I1|]. split; [rewrite L1; exact Hlab|]. split; [exact Hpg1|]. split; [exact Hg|].
  split.
  { rewrite Hcf1. rewrite Hpg in Hcf. rewrite Hcf.
    assert (sp_is32 t = false) as -> by (destruct t; try reflexivity; contradiction).
    unfold bad_range_clusters. lia. }
  split; [|exact Hout].
  apply (vol_create_keeps_wf fold upper oem im name now range im1 Hg' Hwf Hnow Hc).
  intros _. rewrite Hroot. intros [].
Qed.

(* ... and by induction: ANY sequence of creates that each made a new entry (none found its name in use, none ran out of
   room).  The root holds exactly one node per request - a permutation of the requests in creation order, because
   find_free_entries is first fit and these directories have no deleted slots it is in fact the creation order, but the
   statement does not need that -: plain empty files carrying exactly the requested names, with pairwise distinct aliases;
   no decode issue; label, geometry and free count of the formatted volume; nothing outside the root region touched.
   When moreover the folded names are pairwise distinct (and none is "." / ".."), no well-formedness issue. *)
Theorem format_create_many_decodes upper oem o ts im0 bs t im reqs im' :
  builder_range o -> ts < 4294967296 -> bytes_ok im0 ->
  format_boot_sector_validated o ts = Ok (bs, t) -> t <> Format.Fat32 ->
  (o_max_root_dir_entries o * 32) mod o_bytes_per_sector o = 0 ->
  format_image o ts im0 = Ok im ->
  Forall (fun q => TimeProofs.datetime_valid (snd q) = true) reqs ->
  vol_create_many upper oem im reqs = Some im' ->
  let g := geom_of (fbs_bpb bs) in
  exists nodes,
    Permutation (Abs.v_root (Abs.abs im')) nodes /\
    map (fun n => Abs.e_lfn (Abs.node_entry n)) nodes = map (fun q => stored_lfn (fst q)) reqs /\
    Forall (fun n => exists e, n = Abs.NFile e None [] /\ Abs.e_size e = 0 /\ Abs.e_cluster e = 0 /\ Abs.e_lfn_ok e = true) nodes /\
    NoDup (map Abs.e_sfn (map Abs.node_entry (Abs.v_root (Abs.abs im')))) /\
    length (Abs.v_root (Abs.abs im')) = length reqs /\
    Abs.v_root_issues (Abs.abs im') = [] /\ Abs.v_labels (Abs.abs im') = expected_labels o /\
    Abs.parse_geom im' = g /\ Abs.count_free g im' = sp_clusters (fbs_bpb bs) /\
    (forall x, (x < Abs.g_root_off g \/ Abs.g_root_off g + root_bytes g <= x) -> img_get im' x = img_get im x) /\
    (forall fold, Forall (fun q => is_dot_name (fst q) = false) reqs ->
                  NoDup (map (fun q => fold (Str.utf16_encode (fst q))) reqs) -> Wf.wf_issues fold im' = []).
Proof.
  intros Hb Hts Hb0 Hv Ht Hfill Hf Hnow Hc g.
  destruct (image_decodes_empty o ts im0 bs t im (fun l => l) Hb Hts Hb0 Hv Hf) as (Hpg & _ & _ & Hroot & Hiss & Hlab & _ & _ & Hcf & _).
  destruct (formatted_fixed_root_geom o ts bs t Hb Hts Hv Ht Hfill) as [Hg Hmax]. fold g in Hg, Hpg.
  assert (fixed_root_geom (Abs.parse_geom im)) as Hg' by (rewrite Hpg; exact Hg).
  destruct (vol_create_many_decodes upper oem reqs im im' Hg' Hiss Hnow Hc) as (P1 & P2 & P3 & P4 & P5 & news & Q1 & Q2 & Q3 & Q4).
  rewrite Hpg in P1, P4, P5. rewrite Hroot in Q1, Q4. cbn [app map] in Q1, Q4.
  exists news. split; [exact Q1|]. split; [exact Q2|]. split; [exact Q3|]. split; [apply Q4; constructor|].
  split; [rewrite (Permutation_length Q1), <- (map_length (fun n => Abs.e_lfn (Abs.node_entry n))), Q2, map_length; reflexivity|].
  split; [exact P2|]. split; [rewrite P3; exact Hlab|]. split; [exact P1|].
  split.
  { rewrite P4. rewrite Hpg in Hcf. rewrite Hcf.
    assert (sp_is32 t = false) as -> by (destruct t; try reflexivity; contradiction).
    unfold bad_range_clusters. lia. }
  split; [exact P5|].
  intros fold Hd Hnd.
  destruct (image_decodes_empty o ts im0 bs t im fold Hb Hts Hb0 Hv Hf) as (_ & _ & _ & _ & _ & _ & _ & _ & _ & Hwf).
  apply (vol_create_many_keeps_wf fold upper oem reqs im im' Hg' Hwf Hnow Hd Hnd); [|exact Hc].
  intros q _. unfold root_lfns_folded. rewrite Hroot. intros [].
Qed.

(* ================================================================ examples: the 64-sector FAT12 volume of Props/C06.v
   (ex_img_request: 16 root entries, 2 FATs, label "ABCDEFGHIJK", device filled with 0xD1; 60 clusters, root at 1536..2047) *)
Definition ex_vol_request : fmt_options :=
  {| o_bytes_per_sector := 512; o_total_sectors := None; o_bytes_per_cluster := None; o_fat_type := None;
     o_max_root_dir_entries := 16; o_fats := 2; o_media := 248; o_sectors_per_track := 32; o_heads := 64;
     o_drive_num := None; o_volume_id := 305419896;
     o_volume_label := Some [65; 66; 67; 68; 69; 70; 71; 72; 73; 74; 75] |}.
Definition ex_vol_im : image :=
  match format_image ex_vol_request 64 (img_empty 209) with Ok im => im | _ => img_empty 0 end.
Definition ex_vol_now : datetime := {| dt_date := {| year := 2024; month := 2; day := 29 |};
                                       dt_time := {| hour := 13; min := 37; sec := 59; millis := 990 |} |}.
Definition ex_vol_name1 : str := [104; 101; 108; 108; 111; 32; 119; 111; 114; 108; 100; 46; 116; 120; 116].  (* "hello world.txt" *)

Lemma ex_vol_request_in_range : builder_range ex_vol_request.
Proof.
  unfold builder_range; cbn [ex_vol_request o_bytes_per_sector o_bytes_per_cluster o_max_root_dir_entries o_fats o_media
    o_sectors_per_track o_heads o_drive_num o_volume_id o_volume_label].
  repeat split; intros; try lia; try discriminate; try reflexivity;
    match goal with H : Some _ = Some _ |- _ => injection H as <- end; try reflexivity; try lia.
  repeat constructor; lia.
Qed.

(* the premises of the theorems hold for it *)
Lemma ex_vol_premises :
  exists bs, format_boot_sector_validated ex_vol_request 64 = Ok (bs, Format.Fat12) /\
    format_image ex_vol_request 64 (img_empty 209) = Ok ex_vol_im /\
    (o_max_root_dir_entries ex_vol_request * 32) mod o_bytes_per_sector ex_vol_request = 0 /\
    fixed_root_geom (Abs.parse_geom ex_vol_im) /\ TimeProofs.datetime_valid ex_vol_now = true.
Proof.
  eexists. split; [vm_compute; reflexivity|]. split; [vm_compute; reflexivity|]. split; [reflexivity|]. split; [|reflexivity].
  constructor; vm_compute; try reflexivity; try discriminate.
Qed.

(* ... and the success premise of format_create_decodes is not vacuous: on a freshly formatted FAT12/16 volume whose root has
   at least 22 entries (label + 20 long-name slots + 1 short slot: room for ANY accepted name) create_file succeeds for
   every name validate_long_name accepts, under every valid clock value *)
Theorem format_create_succeeds upper oem o ts im0 bs t im name now :
  builder_range o -> ts < 4294967296 -> bytes_ok im0 ->
  format_boot_sector_validated o ts = Ok (bs, t) -> t <> Format.Fat32 ->
  (o_max_root_dir_entries o * 32) mod o_bytes_per_sector o = 0 -> 22 <= o_max_root_dir_entries o ->
  format_image o ts im0 = Ok im ->
  validate_long_name name = Ok tt -> TimeProofs.datetime_valid now = true ->
  exists range im1, vol_create_empty_file_root upper oem im name now = (Ok (Some range), im1).
Proof.
  intros Hb Hts Hb0 Hv Ht Hfill Hroom Hf V Hnow.
  destruct (image_decodes_empty o ts im0 bs t im (fun l => l) Hb Hts Hb0 Hv Hf) as (Hpg & _ & _ & Hroot & Hiss & _).
  destruct (formatted_fixed_root_geom o ts bs t Hb Hts Hv Ht Hfill) as [Hg _].
  destruct (image_root_dir o ts im0 bs t im Hb Hts Hb0 Hv Hf) as (Hbytes & _).
  destruct (format_ok_valid o ts bs t Hb Hts Hv) as (_ & _ & _ & _ & _ & _ & _ & _ & _ & Hre & _).
  assert (fb_root_entries (fbs_bpb bs) = o_max_root_dir_entries o) as Hre'.
  { rewrite Hre. destruct t; try reflexivity. contradiction. }
  set (b := fbs_bpb bs) in *. set (g := geom_of b) in *.
  assert (fixed_root_geom (Abs.parse_geom im)) as Hg' by (rewrite Hpg; exact Hg).
  apply (vol_create_succeeds upper oem im name now Hg' Hroot Hiss); try assumption; rewrite Hpg; fold g.
  - intros k Hk. unfold Slot.byte_at. rewrite (root_region_slot_bytes g im k 0) by lia.
    change (Abs.g_root_off g) with (fi_root_pos b).
    assert (N.of_nat (32 * k + 0) < fi_root_len b t) as Hlt.
    { unfold fi_root_len. assert (sp_is32 t = false) as -> by (destruct t; try reflexivity; contradiction).
      pose proof (root_sectors_cover g ltac:(pose proof (fg_bps g Hg); lia)) as Hc.
      unfold root_bytes, root_slot_count in *.
      assert (Abs.g_root_sectors g = sp_root_dir_sectors b) as <-.
      { unfold Abs.g_root_sectors, sp_root_dir_sectors. unfold g. cbn [geom_of Abs.g_root_entries Abs.g_bps].
        pose proof (fg_bps g Hg) as Hbp. unfold g in Hbp. cbn [geom_of Abs.g_bps] in Hbp.
        replace (fb_root_entries b * 32 + fb_bytes_per_sector b - 1) with (fb_root_entries b * 32 + (fb_bytes_per_sector b - 1)) by lia.
        reflexivity. }
      change (fb_bytes_per_sector b) with (Abs.g_bps g). lia. }
    rewrite (Hbytes _ Hlt). rewrite Nat2N.id.
    apply nth_overflow. unfold label_bytes. destruct (o_volume_label o) as [l|] eqn:El; [|cbn [length]; lia].
    destruct Hb as (_ & _ & _ & _ & _ & _ & _ & _ & _ & _ & Hlab). destruct (Hlab l El) as [Hl11 _].
    unfold sfn_encode. rewrite !app_length. cbn [label_entry Slot.se_name length Slot.u16_bytes Slot.u32_bytes]. lia.
  - unfold g. cbn [geom_of Abs.g_root_entries]. fold b. rewrite Hre'. exact Hroom.
Qed.
