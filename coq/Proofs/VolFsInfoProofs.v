(* VolFsInfoProofs.v: the FS-information sector and the FAT32 status byte inside the image model (Model/VolFsInfo.v).
   1. bridge: what Model/Bpb.v reads from the first 512 bytes of an image = what the decoder's parse_geom reads; a successful
      vol32_mount in terms of the image (status byte 0x41, the two FS-info words, the signatures, the layout facts)
   2. layout of a FAT32 volume: boot sector / status byte / FS-info sector / FAT copies / data area are disjoint
   3. the FS-info latch under the calls (what a step can do to it) and flush_fs_info / unmount byte by byte
   4. the mounted session: invariant, one step, histories
   5. the theorems: C05 (sector = decoder's count after unmount, stats exact), C12 (status byte 0x41), C13 (read-only sessions,
      the statistics exception and the known finding D16) *)
From Coq Require Import NArith ZArith Lia List Bool.
From FatVerif Require Import Model.Base Model.Slot Model.Table Model.Fat Model.FileM Model.Flags Model.FormatImage Model.VolFile
  Model.VolRemove Model.VolStatus Model.VolFsInfo Spec.Image Spec.Abs Spec.ByteFile
  Proofs.ImageProofs Proofs.TableProofs Proofs.FatProofs Proofs.FileProofs Proofs.CrossProofs Proofs.RegionsProofs Proofs.FlagsProofs
  Proofs.VolFileProofs Proofs.VolSessionProofs Proofs.VolRemoveProofs Proofs.VolStatusProofs.
From FatVerif Require Model.Bpb Proofs.BpbProofs.
Import ListNotations.
Open Scope N_scope.
Ltac Zify.zify_post_hook ::= Z.to_euclidean_division_equations.

(* ================================================================ 1. bridge Bpb <-> parse_geom *)
Lemma byte_at_read im off n i : (i < n)%nat -> Bpb.byte_at (img_read im off n) i = img_get im (off + N.of_nat i).
Proof. intros H. unfold Bpb.byte_at. apply img_read_nth. exact H. Qed.

Lemma u16_at_read im off n i : (i + 1 < n)%nat -> Bpb.u16_at (img_read im off n) i = img_u16 im (off + N.of_nat i).
Proof.
  intros H. unfold Bpb.u16_at, img_u16. rewrite !byte_at_read by lia.
  replace (off + N.of_nat (i + 1)) with (off + N.of_nat i + 1) by lia. reflexivity.
Qed.

Lemma u32_at_read im off n i : (i + 3 < n)%nat -> Bpb.u32_at (img_read im off n) i = img_u32 im (off + N.of_nat i).
Proof.
  intros H. unfold Bpb.u32_at, img_u32, img_u16. rewrite !byte_at_read by lia.
  replace (off + N.of_nat (i + 1)) with (off + N.of_nat i + 1) by lia.
  replace (off + N.of_nat (i + 2)) with (off + N.of_nat i + 2) by lia.
  replace (off + N.of_nat (i + 3)) with (off + N.of_nat i + 2 + 1) by lia. lia.
Qed.

Lemma bytes_of_read im off n : bytes_ok im -> BpbProofs.bytes (img_read im off n).
Proof. intros H. apply Forall_forall. intros b Hb. exact (img_read_bytes_ok im H n off b Hb). Qed.

Definition boot_bytes (im : image) : list N := img_read im 0 512.

(* the fields of the BPB the library deserialises are the fields the decoder reads *)
Lemma bridge_fields im :
  let b := Bpb.bpb_deserialize (boot_bytes im) in let g := parse_geom im in
  Bpb.bytes_per_sector b = g_bps g /\ Bpb.sectors_per_cluster b = g_spc g /\ Bpb.reserved_sectors b = g_reserved g /\
  Bpb.fats b = g_fats g /\ Bpb.root_entries b = g_root_entries g /\ Bpb.total_sectors b = g_total_sectors g /\
  Bpb.sectors_per_fat b = g_spf g /\ Bpb.fs_info_sector b = g_fsinfo_sector g /\
  Bpb.is_fat32 b = (img_u16 im 22 =? 0) /\
  Bpb.reserved_1 b = img_get im (if img_u16 im 22 =? 0 then 65 else 37).
Proof.
  cbv zeta. unfold boot_bytes, Bpb.bpb_deserialize, parse_geom, Bpb.total_sectors, Bpb.sectors_per_fat, Bpb.is_fat32.
  cbn [Bpb.bytes_per_sector Bpb.sectors_per_cluster Bpb.reserved_sectors Bpb.fats Bpb.root_entries Bpb.total_sectors_16
       Bpb.total_sectors_32 Bpb.sectors_per_fat_16 Bpb.sectors_per_fat_32 Bpb.fs_info_sector Bpb.reserved_1
       g_bps g_spc g_reserved g_fats g_root_entries g_total_sectors g_spf g_fsinfo_sector].
  rewrite !(u16_at_read im 0 512) by lia. rewrite !(u32_at_read im 0 512) by lia.
  rewrite !(byte_at_read im 0 512) by (destruct (img_u16 im (0 + N.of_nat 22) =? 0); cbn; lia).
  change (0 + N.of_nat 11) with 11. change (0 + N.of_nat 13) with 13. change (0 + N.of_nat 14) with 14.
  change (0 + N.of_nat 16) with 16. change (0 + N.of_nat 17) with 17. change (0 + N.of_nat 19) with 19.
  change (0 + N.of_nat 22) with 22. change (0 + N.of_nat 32) with 32. change (0 + N.of_nat 36) with 36.
  change (0 + N.of_nat 48) with 48.
  repeat split; try reflexivity.
  - destruct (img_u16 im 22 =? 0); reflexivity.
  - destruct (img_u16 im 22 =? 0); reflexivity.
Qed.

Lemma bridge_clusters im : BpbProofs.tc_v (Bpb.bpb_deserialize (boot_bytes im)) = g_clusters (parse_geom im).
Proof.
  destruct (bridge_fields im) as (B1 & B2 & B3 & B4 & B5 & B6 & B7 & _). cbv zeta in *.
  unfold BpbProofs.tc_v, BpbProofs.fds_v, BpbProofs.rds_v, g_clusters, g_first_data, g_root_sectors.
  rewrite B1, B2, B3, B4, B5, B6, B7. reflexivity.
Qed.

Lemma bridge_fsinfo_offset im : Bpb.fsinfo_offset (boot_bytes im) = fsi_off (parse_geom im).
Proof.
  destruct (bridge_fields im) as (B1 & _ & _ & _ & _ & _ & _ & B8 & _). cbv zeta in *.
  unfold Bpb.fsinfo_offset, fsi_off. rewrite B1, B8. reflexivity.
Qed.

Lemma g_bits_32_clusters g : g_bits g = 32 <-> 65525 <= g_clusters g.
Proof.
  unfold g_bits. destruct (g_clusters g <? 4085) eqn:E1; [apply N.ltb_lt in E1; split; [discriminate|lia]|].
  destruct (g_clusters g <? 65525) eqn:E2; [apply N.ltb_lt in E2; split; [discriminate|lia]|].
  apply N.ltb_ge in E2. split; [intros _; exact E2|reflexivity].
Qed.

Lemma fat_type_32 tc : 65525 <= tc -> Bpb.fat_type_from_clusters tc = Bpb.Fat32.
Proof.
  intros H. unfold Bpb.fat_type_from_clusters, Bpb.FAT16_MIN_CLUSTERS, Bpb.FAT32_MIN_CLUSTERS.
  destruct (tc <? 4085) eqn:E1; [apply N.ltb_lt in E1; lia|]. destruct (tc <? 65525) eqn:E2; [apply N.ltb_lt in E2; lia|]. reflexivity.
Qed.

Lemma decode_dirty_odd b : Bpb.decode_dirty b = N.odd b.
Proof.
  unfold Bpb.decode_dirty. rewrite odd_mod2. assert (b mod 2 = 0 \/ b mod 2 = 1) as [E|E] by lia; rewrite E; reflexivity.
Qed.

(* the mount-time latch as a function of the image: a dirty status byte discards the stored count; a count above the cluster
   count is dropped; a hint outside 2 .. total + 2 is dropped *)
Definition mount_free (g : geom) (im : image) : option N :=
  if N.odd (img_get im 65) then None
  else if fsi_free_word g im <=? g_clusters g then Some (fsi_free_word g im) else None.
Definition mount_next (g : geom) (im : image) : option N :=
  if (2 <=? fsi_next_word g im) && (fsi_next_word g im <=? g_clusters g + 2) then Some (fsi_next_word g im) else None.

Definition LEAD_SIG : N := 1096897106.     (* 0x41615252 *)
Definition STRUC_SIG : N := 1631679090.    (* 0x61417272 *)
Definition TRAIL_SIG : N := 2857697280.    (* 0xAA550000 *)
Definition sigs_ok (g : geom) (im : image) : Prop :=
  img_u32 im (fsi_off g) = LEAD_SIG /\ img_u32 im (fsi_off g + 484) = STRUC_SIG /\ img_u32 im (fsi_off g + 508) = TRAIL_SIG.

Theorem vol32_mount_facts strict im fi s :
  let g := parse_geom im in
  bytes_ok im -> g_bits g = 32 -> vol32_mount strict im = Ok (fi, s) ->
  s = st_mount (img_get im 65) /\ img_get im 65 < 256 /\
  fi = {| fi_free := mount_free g im; fi_next := mount_next g im; fi_dirty := false |} /\
  sigs_ok g im /\ g_fsinfo_sector g < g_reserved g /\ 512 <= g_bps g /\ g_bps g <= 4096 /\ img_u16 im 22 = 0 /\
  g_clusters g + 2 <= 4294967295.
Proof.
  cbv zeta. intros Hb H32 Hm. unfold vol32_mount in Hm. fold (boot_bytes im) in Hm.
  rewrite bridge_fsinfo_offset in Hm.
  set (g := parse_geom im) in *. set (bs := boot_bytes im) in *.
  set (fsi := img_read im (fsi_off g) 512) in *.
  destruct (Bpb.mount Bpb.Debug bs fsi strict) as [m| | |] eqn:Em; cbn [bind] in Hm; try discriminate.
  injection Hm as <- <-.
  assert (BpbProofs.bytes bs) as Hbs by (apply bytes_of_read; exact Hb).
  destruct (BpbProofs.mount_ok_facts _ _ _ _ _ Hbs Em) as (_ & Hbd & F).
  pose proof (BpbProofs.mount_ok_inv _ _ _ _ _ Hbs Em) as I. cbv zeta in I.
  destruct I as (_ & _ & _ & Et & _ & Etc & _ & _ & Ed & _).
  destruct (BpbProofs.mount_fsinfo_bounds _ _ _ _ _ Hbs Em) as (_ & M32 & _ & _ & Hmax). cbv zeta in M32, Hmax.
  pose proof (bridge_clusters im) as Bc. fold bs g in Bc. rewrite Bc in Et, Etc.
  pose proof (proj1 (g_bits_32_clusters g) H32) as Hcl.
  rewrite (fat_type_32 _ Hcl) in Et. rewrite Etc in M32, Hmax.
  destruct (M32 Et) as (_ & S1 & S2 & S3 & Hfree & Hnext).
  destruct (bridge_fields im) as (B1 & _ & B3 & _ & _ & _ & _ & B8 & B9 & B10). cbv zeta in B1, B3, B8, B9, B10. fold bs g in B1, B3, B8, B9, B10.
  assert (Bpb.is_fat32 (Bpb.bpb_deserialize bs) = true) as Hf32.
  { rewrite (BpbProofs.af_type _ F), Bc, (fat_type_32 _ Hcl). reflexivity. }
  rewrite Hf32 in B9. symmetry in B9. rewrite B9 in B10.
  unfold fsi in S1, S2, S3, Hfree, Hnext.
  rewrite (u32_at_read im (fsi_off g) 512) in S1, S2, S3, Hfree, Hnext by lia.
  change (N.of_nat 0) with 0 in S1. rewrite N.add_0_r in S1.
  change (N.of_nat 484) with 484 in S2. change (N.of_nat 508) with 508 in S3.
  change (N.of_nat 488) with 488 in Hfree. change (N.of_nat 492) with 492 in Hnext.
  rewrite Ed, decode_dirty_odd, B10 in Hfree.
  split; [rewrite <- B10; reflexivity|].
  split; [rewrite <- B10; apply (BpbProofs.bd_r1 _ Hbd)|].
  split.
  { unfold mount_free, mount_next, fsi_free_word, fsi_next_word. rewrite Hfree, Hnext. reflexivity. }
  split; [split; [exact S1|split; [exact S2|exact S3]]|].
  destruct (BpbProofs.af_res32 _ F Hf32) as [_ Hfs]. rewrite B8, B3 in Hfs.
  split; [exact Hfs|].
  pose proof (BpbProofs.af_bps _ F) as Hbps. rewrite B1 in Hbps. cbn [In] in Hbps.
  apply N.eqb_eq in B9.
  split; [lia|]. split; [lia|]. split; [exact B9|exact Hmax].
Qed.

(* ================================================================ 2. layout of a FAT32 volume *)
(* what the theorems need of the geometry: VolFileProofs.vgeom_ok, the FAT32 width, and an FS-info sector that is neither the
   boot sector itself (NOT checked by the library's mount, see VolFsInfoExamples.ex_fsi0) nor outside the reserved sectors
   (checked by mount: vol32_mount_facts) *)
Record Vol32 (g : geom) : Prop := {
  v32_ok : vgeom_ok g;
  v32_bits : g_bits g = 32;
  v32_fsi_lo : 1 <= g_fsinfo_sector g;
  v32_fsi_hi : g_fsinfo_sector g < g_reserved g;
  v32_bps : 512 <= g_bps g }.

Lemma vol32b_ok g : vol32b g = true -> Vol32 g.
Proof.
  unfold vol32b. rewrite !andb_true_iff, N.eqb_eq, !N.leb_le, N.ltb_lt. intros ((((H1 & H2) & H3) & H4) & H5).
  constructor; try assumption. apply vgeom_okb_ok. exact H1.
Qed.

Definition reserved_area (g : geom) (a : N) : Prop := a < g_reserved g * g_bps g.
Definition in_fsi (g : geom) (a : N) : Prop := fsi_off g <= a < fsi_off g + 512.
Definition in_fsi_words (g : geom) (a : N) : Prop := fsi_off g + 488 <= a < fsi_off g + 496.

Lemma status_off_32 g : g_bits g = 32 -> g_status_off g = 65.
Proof. intros H. unfold g_status_off. rewrite H. reflexivity. Qed.

Lemma ft_of_vol32 g : Vol32 g -> ft_of g = Fat32.
Proof. intros H. apply ft_of_32. apply (v32_bits g H). Qed.

Lemma vol32_total g : Vol32 g -> 65525 <= g_clusters g /\ g_clusters g + 2 <= 268435447.
Proof.
  intros H. split; [apply g_bits_32_clusters; apply (v32_bits g H)|].
  destruct (v32_ok g H) as (_ & _ & Hf). rewrite (ft_of_vol32 g H) in Hf. cbn [fat_fits] in Hf. lia.
Qed.

Lemma fsi_layout g a : Vol32 g -> in_fsi g a -> reserved_area g a /\ 512 <= a.
Proof. intros [_ _ L H B] [A1 A2]. unfold reserved_area, fsi_off in *. split; nia. Qed.

Lemma status_reserved g : Vol32 g -> reserved_area g 65.
Proof. intros [_ _ L H B]. unfold reserved_area. nia. Qed.

Lemma fsi_not_status g a : Vol32 g -> in_fsi g a -> a <> 65.
Proof. intros HV Ha. destruct (fsi_layout g a HV Ha). lia. Qed.

Lemma reserved_not_store g a : vgeom_ok g -> reserved_area g a -> ~ in_store_area g a.
Proof.
  intros Hok R [S1 _]. destruct (store_area_in_fat g Hok) as [L _]. unfold g_fat_off in L. unfold reserved_area in R.
  rewrite N.mul_0_l, N.add_0_r in L. lia.
Qed.

Lemma reserved_not_cluster g c a : reserved_area g a -> ~ in_cluster g c a.
Proof.
  intros R [C1 _]. pose proof (layout_order g) as [L1 L2]. unfold g_cluster_off in C1. unfold reserved_area in R.
  assert (g_first_data g * g_bps g <= (g_first_data g + (c - 2) * g_spc g) * g_bps g) by nia. lia.
Qed.

(* the decoder's free count and the latch invariant see the FAT store only *)
Lemma val_ft_store_ext g im im' x : vgeom_ok g -> (forall a, in_store_area g a -> img_get im' a = img_get im a) ->
  2 <= x < g_clusters g + 2 -> val_ft (ft_of g) (store_of g im') x = val_ft (ft_of g) (store_of g im) x.
Proof.
  intros Hok H Hx. apply val_ft_ext; [reflexivity| |].
  - cbn [store_of fs_size]. apply (proj1 (Hrange g Hok)). exact Hx.
  - cbn [store_of fs_size fs_base fs_img]. intros o Ho. apply H. unfold in_store_area.
    pose proof (vol_mirrors_pos g Hok). nia.
Qed.

Lemma count_spec_store_ext g im im' : vgeom_ok g -> (forall a, in_store_area g a -> img_get im' a = img_get im a) ->
  count_spec fstore (val_ft (ft_of g)) (store_of g im') 2 (N.to_nat (g_clusters g)) =
  count_spec fstore (val_ft (ft_of g)) (store_of g im) 2 (N.to_nat (g_clusters g)).
Proof.
  intros Hok H. unfold count_spec. apply (cnt_ext g). intros x Hx. apply val_ft_store_ext; [exact Hok|exact H|lia].
Qed.

Lemma count_free_store_ext g im im' : vgeom_ok g -> (forall a, in_store_area g a -> img_get im' a = img_get im a) ->
  count_free g im' = count_free g im.
Proof. intros Hok H. rewrite !(count_free_store g Hok). apply count_spec_store_ext; assumption. Qed.

Lemma fi_inv_store_ext g im im' fi : vgeom_ok g -> (forall a, in_store_area g a -> img_get im' a = img_get im a) ->
  fi_inv fstore (val_ft (ft_of g)) (store_of g im) fi (g_clusters g) ->
  fi_inv fstore (val_ft (ft_of g)) (store_of g im') fi (g_clusters g).
Proof.
  intros Hok H [A B]. split; [|exact B]. destruct (fi_free fi) as [n|]; [|exact I].
  rewrite (count_spec_store_ext g im im' Hok H). exact A.
Qed.

Lemma count_free_le g im : count_free g im <= g_clusters g.
Proof. unfold count_free. pose proof (count_free_from_le g im (N.to_nat (g_clusters g)) 2). lia. Qed.

(* ================================================================ 3. the latch *)
(* what ONE call other than stats can do to the latch (no invariant needed): nothing, or it is dirty afterwards, an unknown count
   stays unknown, and the hint is the old one or a cluster number in range.  (That a KNOWN count stays known - it is never
   "forgotten" by checked_sub / checked_add - needs the latch invariant: section Keeps below.) *)
Definition latch_step (total : N) (fi fi' : fsinfo) : Prop :=
  fi' = fi \/
  (fi_dirty fi' = true /\ (fi_free fi = None -> fi_free fi' = None) /\
   (fi_next fi' = fi_next fi \/ exists h, fi_next fi' = Some h /\ 2 <= h < total + 2)).

Lemma latch_step_refl total fi : latch_step total fi fi.
Proof. left. reflexivity. Qed.

Lemma map_free_opt_latch total fi f : latch_step total fi (map_free_opt fi f).
Proof.
  unfold map_free_opt. destruct (fi_free fi) as [n|] eqn:E; [|left; reflexivity].
  right. cbn [fi_dirty fi_free fi_next]. split; [reflexivity|]. split; [rewrite E; discriminate|left; reflexivity].
Qed.
Lemma map_free_latch total fi f : latch_step total fi (map_free fi f).
Proof. apply map_free_opt_latch. Qed.

Section Latch.
Variable T : Type.
Variable get : T -> N -> res fatv.
Variable set : T -> N -> fatv -> res T.

Lemma find_free_from_ge t : forall n c x, find_free_from T get t c n = Ok x -> c <= x.
Proof.
  induction n as [|n IH]; intros c x; cbn [find_free_from]; [discriminate|].
  destruct (get t c) as [v| | |]; cbn [bind]; try discriminate.
  destruct v; [intros H; injection H as <-; lia| | |]; intros H; apply IH in H; lia.
Qed.

Lemma alloc_cluster_ge t prev hint total t' c : hint_ok hint ->
  alloc_cluster T get set t prev hint total = Ok (t', c) -> 2 <= c.
Proof.
  intros Hh. unfold alloc_cluster, RESERVED_FAT_ENTRIES. cbv zeta.
  set (start := match hint with Some n => if n <? total + 2 then n else 2 | None => 2 end).
  assert (2 <= start) as Hs.
  { unfold start. destruct hint as [n|]; [|lia]. cbn [hint_ok] in Hh. destruct (n <? total + 2); lia. }
  unfold find_free.
  assert (forall x, match find_free_from T get t start (N.to_nat (total + 2 - start)) with
                    | Ok n => Ok n
                    | Err ENotEnoughSpace => if 2 <? start then find_free_from T get t 2 (N.to_nat (start - 2)) else Err ENotEnoughSpace
                    | Err e => Err e | Panic => Panic | OutOfFuel => OutOfFuel end = Ok x -> 2 <= x) as Hx.
  { intros x. destruct (find_free_from T get t start _) as [n|e| |] eqn:E1; try discriminate.
    - intros H. injection H as <-. apply find_free_from_ge in E1. lia.
    - destruct e; try discriminate. destruct (2 <? start); [|discriminate]. intros H. apply find_free_from_ge in H. exact H. }
  match goal with |- bind ?r _ = _ -> _ => destruct r as [x| | |] eqn:E end; cbn [bind]; try discriminate.
  specialize (Hx x eq_refl).
  destruct (set t x Eoc) as [t1| | |]; cbn [bind]; try discriminate.
  destruct prev as [p|]; [destruct (set t1 p (Data x)) as [t2| | |]; cbn [bind]; try discriminate|];
    intros H; injection H as _ <-; exact Hx.
Qed.

Lemma fs_alloc_latch t fi prev total t' fi' c : hint_ok (fi_next fi) -> 0 < total ->
  fs_alloc T get set t fi prev total = Ok (t', fi', c) -> latch_step total fi fi'.
Proof.
  intros Hh Ht. unfold fs_alloc, RESERVED_FAT_ENTRIES.
  destruct (alloc_cluster T get set t prev (fi_next fi) total) as [[t1 c1]| | |] eqn:E; cbn [bind]; try discriminate.
  pose proof (alloc_cluster_ge _ _ _ _ _ _ Hh E) as Hc.
  assert (2 <= (if c1 + 1 <? total + 2 then c1 + 1 else 2) < total + 2) as Hn.
  { destruct (c1 + 1 <? total + 2) eqn:L; [apply N.ltb_lt in L; lia|lia]. }
  intros H. injection H as _ <- _. right. unfold map_free_opt. cbn [fi_free fi_next fi_dirty].
  destruct (fi_free fi) as [n|] eqn:Ef; cbn [fi_dirty fi_free fi_next].
  - split; [reflexivity|]. split; [discriminate|]. right. eexists. split; [reflexivity|exact Hn].
  - split; [reflexivity|]. split; [intros _; reflexivity|]. right. eexists. split; [reflexivity|exact Hn].
Qed.

(* how many entries ClusterIterator::free / truncate can have released: fewer than the fuel *)
Lemma ci_free_count_le : forall fuel t it t' k, ci_free T get set t it fuel = Ok (t', k) -> k <= N.of_nat fuel.
Proof.
  induction fuel as [|fuel IH]; intros t it t' k; cbn [ci_free]; [discriminate|].
  destruct (ci_cluster it) as [n|]; [|intros H; injection H as _ <-; lia].
  destruct (ci_next T get t it) as [it' r].
  destruct r as [[x|e| |]|]; try discriminate;
    (destruct (set t n Free) as [t1| | |]; cbn [bind]; try discriminate;
     destruct (ci_free T get set t1 it' fuel) as [[t2 cnt]| | |] eqn:E; cbn [bind]; try discriminate;
     intros H; injection H as _ <-; apply IH in E; lia).
Qed.

Lemma ci_truncate_count_le fuel t it t' k : ci_truncate T get set t it fuel = Ok (t', k) -> k <= N.of_nat fuel.
Proof.
  unfold ci_truncate. destruct (ci_cluster it) as [n|]; [|intros H; injection H as _ <-; lia].
  destruct (ci_next T get t it) as [it' r].
  destruct r as [[x|e| |]|]; try discriminate;
    (destruct (set t n Eoc) as [t1| | |]; cbn [bind]; try discriminate; apply ci_free_count_le).
Qed.

Lemma file_write_latch cs total w h d w' h' k : hint_ok (fi_next (w_fi T w)) -> 0 < total ->
  file_write T get set cs total w h d = Ok (w', h', k) -> latch_step total (w_fi T w) (w_fi T w').
Proof.
  intros Hh Ht. unfold file_write. cbv zeta.
  destruct (N.min (N.min (len_N d) (cs - h_off h mod cs)) (MAX_FILE_SIZE - h_off h) =? 0).
  { intros H. injection H as <- _ _. apply latch_step_refl. }
  destruct (h_off h mod cs =? 0).
  - destruct (next_cluster_of T get (w_fat T w) h) as [[n|]| | |]; cbn [bind]; try discriminate.
    + intros H. injection H as <- _ _. cbn [w_fi]. apply latch_step_refl.
    + destruct (fs_alloc T get set (w_fat T w) (w_fi T w) (h_cur h) total) as [[[t1 fi1] c1]| | |] eqn:Ea; cbn [bind]; try discriminate.
      intros H. injection H as <- _ _. cbn [w_fi]. exact (fs_alloc_latch _ _ _ _ _ _ _ Hh Ht Ea).
  - destruct (h_cur h) as [n|]; cbn [bind]; [|discriminate].
    intros H. injection H as <- _ _. cbn [w_fi]. apply latch_step_refl.
Qed.

Lemma file_truncate_latch total w h w' h' :
  file_truncate T get set total w h = Ok (w', h') -> latch_step total (w_fi T w) (w_fi T w').
Proof.
  unfold file_truncate. destruct (h_entry h) as [e|]; [|discriminate].
  destruct (h_cur h) as [c|].
  - destruct (h_off h =? 0); [discriminate|]. unfold fs_truncate_chain.
    destruct (ci_truncate T get set (w_fat T w) (ci_new c) (FileM.chain_fuel total)) as [[t1 k]| | |]; cbn [bind]; try discriminate.
    intros H. injection H as <- _. cbn [w_fi]. apply map_free_opt_latch.
  - destruct (negb (h_off h =? 0)); [discriminate|]. destruct (h_first h) as [n|].
    + unfold fs_free_chain.
      destruct (ci_free T get set (w_fat T w) (ci_new n) (FileM.chain_fuel total)) as [[t1 k]| | |]; cbn [bind]; try discriminate.
      intros H. injection H as <- _. cbn [w_fi]. apply map_free_opt_latch.
    + intros H. injection H as <- _. apply latch_step_refl.
Qed.

Lemma file_step_latch cs total w h o w' h' r : hint_ok (fi_next (w_fi T w)) -> 0 < total ->
  file_step T get set cs total w h o = (w', h', r) -> latch_step total (w_fi T w) (w_fi T w').
Proof.
  intros Hh Ht H. destruct o as [n|d|p|].
  - rewrite (file_step_unmarked T get set cs total w h (FRead n) w' h' r H eq_refl). apply latch_step_refl.
  - unfold file_step in H. destruct (file_write T get set cs total w h d) as [[[w1 h1] k]|e| |] eqn:E; cbn [of_res] in H;
      injection H as <- _ _; try apply latch_step_refl. exact (file_write_latch _ _ _ _ _ _ _ _ Hh Ht E).
  - rewrite (file_step_unmarked T get set cs total w h (FSeek p) w' h' r H eq_refl). apply latch_step_refl.
  - unfold file_step in H. destruct (file_truncate T get set total w h) as [[w1 h1]|e| |] eqn:E; cbn [of_res] in H;
      injection H as <- _ _; try apply latch_step_refl. exact (file_truncate_latch _ _ _ _ _ E).
Qed.

Lemma fs_stats_cases t fi total fi' n : fs_stats T get t fi total = Ok (fi', n) ->
  (fi_free fi = Some n /\ fi' = fi) \/
  (fi_free fi = None /\ fi' = {| fi_free := Some n; fi_next := fi_next fi; fi_dirty := true |}).
Proof.
  unfold fs_stats. destruct (fi_free fi) as [m|].
  - intros H. injection H as <- <-. left. split; reflexivity.
  - destruct (Table.count_free T get t total) as [m| | |]; cbn [bind]; try discriminate.
    intros H. injection H as <- <-. right. split; reflexivity.
Qed.
End Latch.

(* ---------------------------------------------------------------- a KNOWN count stays known: under the latch invariant the
   checked arithmetic of map_free_clusters never forgets a count - a successful allocation found a free entry, so the (right)
   count is >= 1; a release adds at most the number of clusters to a count that is at most the number of clusters *)
Section Keeps.
Variable T : Type.
Variable get : T -> N -> res fatv.
Variable set : T -> N -> fatv -> res T.
Variable val : T -> N -> fatv.
Variable okc : N -> Prop.
Variable okv : fatv -> Prop.
Variable inv : T -> Prop.
Hypothesis get_val : forall t c, inv t -> okc c -> get t c = Ok (val t c).
Hypothesis set_ok : forall t c v, inv t -> okc c -> okv v ->
  exists t', set t c v = Ok t' /\ inv t' /\ val t' c = v /\ forall c', c' <> c -> okc c' -> val t' c' = val t c'.
Hypothesis okv_eoc : okv Eoc.
Variable cs total : N.
Hypothesis Hokc : forall x, 2 <= x < total + 2 -> okc x.
Hypothesis Hokd : forall n, 2 <= n < total + 2 -> okv (Data n).
Hypothesis Hbound : total + 2 <= 268435447.

Lemma fs_alloc_keeps t fi prev t' fi' c : inv t -> fi_inv T val t fi total ->
  (match prev with Some p => okc p | None => True end) ->
  fs_alloc T get set t fi prev total = Ok (t', fi', c) -> fi_free fi' = None -> fi_free fi = None.
Proof.
  intros Hinv [Hcnt Hh] Hp Ea Hn.
  pose proof (fs_alloc_any_count T get set val okc okv inv get_val set_ok okv_eoc t fi prev total Hinv Hh Hokc) as A.
  assert (match prev with Some p => okc p /\ (forall n, 2 <= n < total + 2 -> okv (Data n)) | None => True end) as Hp'.
  { destruct prev; [split; [exact Hp|exact Hokd]|exact I]. }
  specialize (A Hp'). rewrite Ea in A. destruct A as (_ & Hc & Hfree & _ & Ef). rewrite Hn in Ef.
  destruct (fi_free fi) as [n|]; [|reflexivity]. exfalso.
  pose proof (cnt_pos (val t) c (N.to_nat total) 2 ltac:(lia) Hfree) as Hpos. unfold count_spec in Hcnt.
  destruct (n =? 0) eqn:E0; [apply N.eqb_eq in E0; lia|discriminate].
Qed.

Lemma count_le t : count_spec T val t 2 (N.to_nat total) <= total.
Proof. unfold count_spec. pose proof (cnt_le (val t) (N.to_nat total) 2). lia. Qed.

Lemma add_keeps t fi k : fi_inv T val t fi total -> k <= total + 2 ->
  fi_free (map_free_opt fi (fun n => checked_add32 n k)) = None -> fi_free fi = None.
Proof.
  intros [Hcnt _] Hk. rewrite map_free_opt_free. destruct (fi_free fi) as [n|]; [|reflexivity].
  pose proof (count_le t). unfold checked_add32, u32_max. destruct (n + k <=? 4294967295) eqn:E; [discriminate|].
  apply N.leb_gt in E. lia.
Qed.

Lemma file_step_keeps w h sz l o w' h' r :
  WorldInv T val inv cs total w -> FileInv T val cs total w h sz l ->
  file_step T get set cs total w h o = (w', h', r) -> fi_free (w_fi T w') = None -> fi_free (w_fi T w) = None.
Proof.
  intros (Wi & Wf & _) I H Hn. destruct o as [n|d|p|].
  - rewrite (file_step_unmarked T get set cs total w h (FRead n) w' h' r H eq_refl) in Hn. exact Hn.
  - unfold file_step in H. destruct (file_write T get set cs total w h d) as [[[w1 h1] k]|e| |] eqn:E; cbn [of_res] in H;
      injection H as <- _ _; try exact Hn.
    unfold file_write in E. cbv zeta in E.
    destruct (N.min (N.min (len_N d) (cs - h_off h mod cs)) (MAX_FILE_SIZE - h_off h) =? 0); [injection E as <- _ _; exact Hn|].
    destruct (h_off h mod cs =? 0).
    + destruct (next_cluster_of T get (w_fat T w) h) as [[nx|]| | |]; cbn [bind] in E; try discriminate.
      * injection E as <- _ _. exact Hn.
      * destruct (fs_alloc T get set (w_fat T w) (w_fi T w) (h_cur h) total) as [[[t1 fi1] c1]| | |] eqn:Ea; cbn [bind] in E; try discriminate.
        injection E as <- _ _. cbn [w_fi] in Hn. apply (fs_alloc_keeps _ _ _ _ _ _ Wi Wf) in Ea; [exact Ea| |exact Hn].
        destruct (h_cur h) as [pc|] eqn:Ec; [|exact Logic.I]. apply Hokc.
        apply (inv_range T val cs total w h sz l I pc). exact (inv_cur_in T val cs total w h sz l pc I Ec).
    + destruct (h_cur h) as [nc|]; cbn [bind] in E; [|discriminate]. injection E as <- _ _. exact Hn.
  - rewrite (file_step_unmarked T get set cs total w h (FSeek p) w' h' r H eq_refl) in Hn. exact Hn.
  - unfold file_step in H. destruct (file_truncate T get set total w h) as [[w1 h1]|e| |] eqn:E; cbn [of_res] in H;
      injection H as <- _ _; try exact Hn.
    unfold file_truncate in E. destruct (h_entry h) as [e|]; [|discriminate].
    destruct (h_cur h) as [c|].
    + destruct (h_off h =? 0); [discriminate|]. unfold fs_truncate_chain in E.
      destruct (ci_truncate T get set (w_fat T w) (ci_new c) (FileM.chain_fuel total)) as [[t1 k]| | |] eqn:Et; cbn [bind] in E; try discriminate.
      injection E as <- _. cbn [w_fi] in Hn. apply (add_keeps (w_fat T w) _ k Wf); [|exact Hn].
      apply ci_truncate_count_le in Et. unfold FileM.chain_fuel in Et. lia.
    + destruct (negb (h_off h =? 0)); [discriminate|]. destruct (h_first h) as [nf|].
      * unfold fs_free_chain in E.
        destruct (ci_free T get set (w_fat T w) (ci_new nf) (FileM.chain_fuel total)) as [[t1 k]| | |] eqn:Et; cbn [bind] in E; try discriminate.
        injection E as <- _. cbn [w_fi] in Hn. apply (add_keeps (w_fat T w) _ k Wf); [|exact Hn].
        apply ci_free_count_le in Et. unfold FileM.chain_fuel in Et. lia.
      * injection E as <- _. exact Hn.
Qed.
End Keeps.

(* ---------------------------------------------------------------- the bytes of the sector *)
Lemma img_u32_get im p b0 b1 b2 b3 : img_get im p = b0 -> img_get im (p + 1) = b1 -> img_get im (p + 2) = b2 ->
  img_get im (p + 3) = b3 -> img_u32 im p = b0 + 256 * b1 + 65536 * (b2 + 256 * b3).
Proof.
  intros <- <- <- <-. unfold img_u32, img_u16. replace (p + 2 + 1) with (p + 3) by lia. lia.
Qed.

Lemma img_u32_ext im im' p : (forall k, k < 4 -> img_get im' (p + k) = img_get im (p + k)) -> img_u32 im' p = img_u32 im p.
Proof.
  intros H. assert (img_get im' p = img_get im p) as H0 by (rewrite <- (N.add_0_r p); apply H; lia).
  unfold img_u32, img_u16. replace (p + 2 + 1) with (p + 3) by lia. rewrite (H 1), (H 2), (H 3), H0 by lia. reflexivity.
Qed.

Lemma sector_get im off l : img_read im off 512 = l -> forall i, (i < 512)%nat -> img_get im (off + N.of_nat i) = nth i l 0.
Proof. intros H i Hi. rewrite <- H. symmetry. apply img_read_nth. exact Hi. Qed.

Lemma sector_words g im f n : f < 4294967296 -> n < 4294967296 ->
  img_read im (fsi_off g) 512 = fsinfo_bytes f n ->
  fsi_free_word g im = f /\ fsi_next_word g im = n /\ sigs_ok g im.
Proof.
  intros Hf Hn H. pose proof (sector_get im (fsi_off g) _ H) as G.
  set (l := fsinfo_bytes f n) in *. set (o := fsi_off g) in *.
  assert (forall k, (k + 3 < 512)%nat ->
            img_u32 im (o + N.of_nat k) = nth k l 0 + 256 * nth (k + 1) l 0 + 65536 * (nth (k + 2) l 0 + 256 * nth (k + 3) l 0)) as U.
  { intros k Hk. apply img_u32_get.
    - apply G. lia.
    - rewrite <- (G (k + 1)%nat) by lia. f_equal. lia.
    - rewrite <- (G (k + 2)%nat) by lia. f_equal. lia.
    - rewrite <- (G (k + 3)%nat) by lia. f_equal. lia. }
  split; [|split; [|split; [|split]]].
  - unfold fsi_free_word. fold o. change 488 with (N.of_nat 488). rewrite U by lia. cbn [Nat.add].
    change (nth 488 l 0) with (f mod 256). change (nth 489 l 0) with ((f / 256) mod 256).
    change (nth 490 l 0) with ((f / 65536) mod 256). change (nth 491 l 0) with ((f / 16777216) mod 256).
    pose proof (FatProofs.u32_word f Hf). lia.
  - unfold fsi_next_word. fold o. change 492 with (N.of_nat 492). rewrite U by lia. cbn [Nat.add].
    change (nth 492 l 0) with (n mod 256). change (nth 493 l 0) with ((n / 256) mod 256).
    change (nth 494 l 0) with ((n / 65536) mod 256). change (nth 495 l 0) with ((n / 16777216) mod 256).
    pose proof (FatProofs.u32_word n Hn). lia.
  - fold o. replace o with (o + N.of_nat 0) by (cbn [N.of_nat]; lia). rewrite U by lia. cbn [Nat.add].
    reflexivity.
  - fold o. change 484 with (N.of_nat 484). rewrite U by lia. cbn [Nat.add]. reflexivity.
  - fold o. change 508 with (N.of_nat 508). rewrite U by lia. cbn [Nat.add]. reflexivity.
Qed.

Lemma fsinfo_bytes_split f n :
  fsinfo_bytes f n = firstn 488 (fsinfo_bytes 0 0) ++ u32_bytes f ++ u32_bytes n ++ skipn 496 (fsinfo_bytes 0 0).
Proof. reflexivity. Qed.

Lemma fsinfo_bytes_nth_outside f n f' n' i : (i < 488 \/ 496 <= i)%nat ->
  nth i (fsinfo_bytes f n) 0 = nth i (fsinfo_bytes f' n') 0.
Proof.
  intros H. rewrite (fsinfo_bytes_split f n), (fsinfo_bytes_split f' n').
  set (P := firstn 488 (fsinfo_bytes 0 0)). set (Q := skipn 496 (fsinfo_bytes 0 0)).
  assert (length P = 488%nat) as LP by reflexivity.
  assert (forall x, length (u32_bytes x) = 4%nat) as L4 by reflexivity.
  destruct H as [H|H].
  - rewrite !(app_nth1 P) by lia. reflexivity.
  - rewrite !(app_nth2 P) by lia. rewrite LP.
    rewrite (app_nth2 (u32_bytes f)), (app_nth2 (u32_bytes f')) by (rewrite L4; lia). rewrite !L4.
    rewrite (app_nth2 (u32_bytes n)), (app_nth2 (u32_bytes n')) by (rewrite L4; lia). rewrite !L4. reflexivity.
Qed.

(* the sector is the serialisation of its own two words: signatures intact, reserved bytes zero (every formatted volume:
   C06_image_fsinfo_count_exact) *)
Definition sector_wf (g : geom) (im : image) : Prop :=
  img_read im (fsi_off g) 512 = fsinfo_bytes (fsi_free_word g im) (fsi_next_word g im).

Lemma word_of_lt o bound : (forall n, o = Some n -> n <= bound) -> bound < 4294967295 -> word_of o < 4294967296.
Proof. intros H Hb. destruct o as [n|]; cbn [word_of]; [specialize (H n eq_refl); lia|unfold UNKNOWN32; lia]. Qed.

(* flush_fs_info *)
Lemma flush_spec g im fi :
  let im' := fst (vol32_flush_fs_info g im fi) in
  (forall a, ~ in_fsi g a -> img_get im' a = img_get im a) /\
  (flushes g fi = false -> vol32_flush_fs_info g im fi = (im, fi)) /\
  (flushes g fi = true -> img_read im' (fsi_off g) 512 = fsinfo_sector_bytes fi /\
                          snd (vol32_flush_fs_info g im fi) = fi_clean fi) /\
  (bytes_ok im -> bytes_ok im').
Proof.
  cbv zeta. unfold vol32_flush_fs_info. destruct (flushes g fi); cbn [fst snd].
  - split; [|split; [discriminate|split]].
    + intros a Ha. apply img_write_outside. unfold in_fsi in Ha.
      change (length (fsinfo_sector_bytes fi)) with 512%nat. change (N.of_nat 512) with 512. lia.
    + intros _. split; [|reflexivity]. apply (img_read_write_same (fsinfo_sector_bytes fi)).
    + intros Hb. apply img_write_bytes_ok; [exact Hb|]. apply FormatImageProofs.fsinfo_bytes_facts.
  - split; [reflexivity|]. split; [reflexivity|]. split; [discriminate|exact (fun H => H)].
Qed.

Lemma apply_writes_unmount g im fi s :
  fst (fst (vol32_unmount g im fi s)) = apply_writes im (vol32_unmount_writes g fi s).
Proof.
  unfold vol32_unmount, vol32_unmount_writes, vol32_flush_fs_info, vol_set_dirty_flag, apply_writes.
  destruct (flushes g fi); destruct (flags_change s false); reflexivity.
Qed.

(* ================================================================ 4. the mounted session *)
Definition is_stats (c : v32call) : bool := match c with CStats => true | _ => false end.

Lemma stat_inv_bits g im s : StatInv g im s ->
  img_get im (g_status_off g) / 4 = mount_byte s / 4 /\ N.odd (img_get im (g_status_off g) / 2) = N.odd (mount_byte s / 2).
Proof.
  intros (A & (I1 & I2 & I3) & C).
  destruct (status_bits (sf_encode (current s)) (mount_byte s / 4) (encode_lt4 _)) as (B1 & B2 & B3).
  rewrite A, I1. split; [exact B1|]. rewrite B2, encode_io, I2. reflexivity.
Qed.

Section Session.
Variable g : geom.
Hypothesis HV : Vol32 g.
Let Hok : vgeom_ok g := v32_ok g HV.
Let ft := ft_of g.
Let total := g_clusters g.
Variable im0 : image.     (* the image at mount *)
Variable fi0 : fsinfo.    (* the latch at mount *)
Variable b : N.           (* the status byte at mount *)
Hypothesis Hn0 : forall n, fi_next fi0 = Some n -> 2 <= n <= total + 2.

(* [computed]: a statistics call has been made since mount *)
Record SInv (computed : bool) (st : v32state) : Prop := {
  si_bytes : bytes_ok (v_im st);
  si_fi : fi_inv fstore (val_ft ft) (store_of g (v_im st)) (v_fi st) total;
  si_stat : StatInv g (v_im st) (v_s st);
  si_mb : mount_byte (v_s st) = b;
  si_res : forall a, reserved_area g a -> a <> 65 -> img_get (v_im st) a = img_get im0 a;
  si_clean : fi_dirty (v_fi st) = false -> v_fi st = fi0;
  si_next : fi_next (v_fi st) = fi_next fi0 \/ exists h, fi_next (v_fi st) = Some h /\ 2 <= h < total + 2;
  si_none : fi_free (v_fi st) = None <-> (fi_free fi0 = None /\ computed = false);
  si_dirty : (N.odd (img_get (v_im st) 65) = true /\ sf_dirty (current (v_s st)) = true) \/
             (v_im st = im0 /\ v_s st = st_mount b) }.

Lemma Hso : g_status_off g = 65.
Proof. apply status_off_32. apply (v32_bits g HV). Qed.

Lemma store_inv_g im : bytes_ok im -> inv_g (vol_base g) (g_fat_bytes g) (vol_mirrors g) (store_of g im).
Proof. intros H. unfold inv_g, store_of. cbn [fs_base fs_size fs_mirrors fs_img]. repeat split. exact H. Qed.

(* an operation that left [im1], [fi1] - bytes fine, latch consistent with the table of [im1], the reserved sectors untouched,
   the latch moved by one latch_step - followed by the status mark *)
Lemma sinv_after computed im fi h s im1 fi1 h1 marks :
  SInv computed {| v_im := im; v_fi := fi; v_h := h; v_s := s |} ->
  bytes_ok im1 -> fi_inv fstore (val_ft ft) (store_of g im1) fi1 total ->
  (forall a, reserved_area g a -> img_get im1 a = img_get im a) ->
  latch_step total fi fi1 -> (fi_free fi1 = None -> fi_free fi = None) -> (marks = false -> im1 = im) ->
  SInv computed {| v_im := fst (marked g marks im1 s); v_fi := fi1; v_h := h1; v_s := snd (marked g marks im1 s) |}.
Proof.
  intros [Sb Sf Ss Sm Sr Sc Sn So Sd] Hb1 Hf1 Hres Hl Hkeep Hun. cbn [v_im v_fi v_s] in *.
  pose proof Hso as E65.
  destruct (marked_spec g marks im im1 s Ss) as (P1 & P2 & P3 & _ & _ & _ & P7 & P8).
  { rewrite E65. apply Hres. apply status_reserved. exact HV. }
  { intros Hm. rewrite (Hun Hm). intros o. reflexivity. }
  cbv zeta in *. set (im2 := fst (marked g marks im1 s)) in *. set (s2 := snd (marked g marks im1 s)) in *.
  unfold status_only in P1. rewrite E65 in P1.
  constructor; cbn [v_im v_fi v_s].
  - intros o. destruct (N.eq_dec o 65) as [->|Hne].
    + pose proof (stat_inv_byte_lt g im2 s2 P2) as L. rewrite E65 in L. exact L.
    + rewrite (P1 o Hne). apply Hb1.
  - apply (fi_inv_store_ext g im1 im2 fi1 Hok); [|exact Hf1]. intros a Ha. apply P1. intros ->.
    exact (reserved_not_store g 65 Hok (status_reserved g HV) Ha).
  - exact P2.
  - rewrite P3. exact Sm.
  - intros a Ha Hne. rewrite (P1 a Hne), (Hres a Ha). exact (Sr a Ha Hne).
  - intros Hd. destruct Hl as [->|(Hd1 & _)]; [exact (Sc Hd)|congruence].
  - destruct Hl as [->|(_ & _ & [Hn|Hn])]; [exact Sn|rewrite Hn; exact Sn|right; exact Hn].
  - destruct Hl as [->|(_ & Hstay & _)]; [exact So|]. rewrite <- So. split; [exact Hkeep|exact Hstay].
  - destruct marks.
    + left. rewrite <- E65. exact (P7 eq_refl).
    + destruct (P8 eq_refl) as [E1 E2]. rewrite E1, E2, (Hun eq_refl). exact Sd.
Qed.

(* which calls the theorems speak about: statistics always; an allocation linked behind a cluster that is in use; the release
   of a chain the decoder walks; a call on the handle while the file layer's invariant (C02: VolInv) holds of it *)
Definition call_ok (st : v32state) (c : v32call) : Prop :=
  match c with
  | CStats => True
  | CAlloc prev =>
    match prev with Some p => 2 <= p < total + 2 /\ fat_val g (v_im st) p <> FFree /\ fat_val g (v_im st) p <> FBad | None => True end
  | CFree first => first = 0 \/ exists l, chain_from g (v_im st) first (Abs.chain_fuel g) = Some l /\ NoDup l
  | CFile o => op_ok o /\ exists sz l, VolInv g (v_im st) (v_fi st) (v_h st) sz l
  end.

Lemma total_pos : 0 < total.
Proof. destruct (vol32_total g HV). unfold total. lia. Qed.

Lemma stats_step computed st : SInv computed st ->
  exists fi', vol32_stats g (v_im st) (v_fi st) = Ok (fi', (g_cluster_size g, total, count_free g (v_im st))) /\
    SInv true {| v_im := v_im st; v_fi := fi'; v_h := v_h st; v_s := v_s st |}.
Proof.
  intros [Sb Sf Ss Sm Sr Sc Sn So Sd]. destruct st as [im fi h s]. cbn [v_im v_fi v_h v_s] in *.
  destruct (Hrange g Hok) as (Hokc & _). fold ft total in Hokc.
  destruct (fs_stats_exact fstore (fat_get ft) (val_ft ft) (okcg ft (g_fat_bytes g))
              (inv_g (vol_base g) (g_fat_bytes g) (vol_mirrors g)) (lawg_get ft _ _ _)
              (store_of g im) fi total (store_inv_g im Sb) Sf Hokc) as (fi' & Est & Hf').
  exists fi'. unfold vol32_stats. fold ft total. rewrite Est. cbn [bind].
  split; [rewrite (count_free_store g Hok); reflexivity|].
  destruct (fs_stats_cases _ _ _ _ _ _ _ Est) as [(E1 & ->)|(E1 & ->)].
  - constructor; cbn [v_im v_fi v_s]; try assumption. rewrite E1. split; [discriminate|intros [_ H]; discriminate].
  - constructor; cbn [v_im v_fi v_s fi_dirty fi_next fi_free]; try assumption.
    + discriminate.
    + split; [discriminate|intros [_ H]; discriminate].
Qed.

Lemma sinv_computed_mono computed st : SInv computed st -> fi_free (v_fi st) <> None -> SInv true st.
Proof.
  intros [Sb Sf Ss Sm Sr Sc Sn So Sd] Hne. constructor; try assumption.
  split; [intros H; contradiction|intros [_ H]; discriminate].
Qed.

Theorem v32_step_inv computed st c : SInv computed st -> call_ok st c ->
  SInv (computed || is_stats c) (fst (v32_step g st c)).
Proof.
  intros S Hc. destruct c as [|prev|first|o]; cbn [is_stats].
  - (* stats *)
    destruct (stats_step computed st S) as (fi' & E & S'). unfold v32_step. rewrite E. cbn [fst]. rewrite orb_true_r. exact S'.
  - (* alloc *)
    rewrite orb_false_r. destruct st as [im fi h s]. pose proof S as [Sb Sf Ss Sm Sr Sc Sn So Sd]. cbn [v_im v_fi v_h v_s] in *.
    unfold v32_step, vol32_alloc. cbn [v_im v_fi v_h v_s]. fold ft total.
    destruct (Hrange g Hok) as (Hokc & Hokd). fold ft total in Hokc, Hokd.
    pose proof (vol_mirrors_pos g Hok) as Hm.
    set (s0 := store_of g im).
    assert (inv_step ft (vol_base g) (g_fat_bytes g) (vol_mirrors g) s0 s0) as Hinv0.
    { apply inv_step_refl. apply store_inv_g. exact Sb. }
    pose proof (fs_alloc_inv fstore (fat_get ft) (fat_set ft) (val_ft ft) (okcg ft (g_fat_bytes g)) (okv_step ft)
                  (inv_step ft (vol_base g) (g_fat_bytes g) (vol_mirrors g) s0)
                  (law_step_get ft (vol_base g) (g_fat_bytes g) (vol_mirrors g) s0)
                  (law_step_set ft (vol_base g) (g_fat_bytes g) (vol_mirrors g) Hm s0) (okv_step_eoc ft)
                  s0 fi prev total Hinv0 Sf Hokc) as A.
    assert (match prev with
            | Some p => okcg ft (g_fat_bytes g) p /\ (forall n, 2 <= n < total + 2 -> okv_step ft (Data n)) /\ val_ft ft s0 p <> Free
            | None => True end) as Hprev.
    { destruct prev as [p|]; [|exact I]. cbn [call_ok v_im] in Hc. destruct Hc as (R & NF & NB).
      split; [exact (Hokc p R)|]. split; [intros n Hn; split; [exact (Hokd n Hn)|discriminate]|].
      intros E. apply NF. pose proof (fat_val_store g im p (range_small g p Hok R)) as F. fold ft s0 in F. rewrite E in F.
      destruct (fat_val g im p); cbn [fatv_of] in F; try discriminate. reflexivity. }
    specialize (A Hprev).
    destruct (fs_alloc fstore (fat_get ft) (fat_set ft) s0 fi prev total) as [[[t' fi'] c]|e| |] eqn:Ea; try contradiction.
    + destruct A as (((B & Sz & M & Hb1) & Hout & _) & Hf' & _).
      pose proof (store_of_img g t' B Sz M) as Est.
      destruct (marked g true (fs_img t') s) as [im2 s2] eqn:Mk. cbn [fst].
      pose proof (sinv_after computed im fi h s (fs_img t') fi' h true S Hb1) as X.
      rewrite Mk in X. cbn [fst snd] in X. apply X.
      * rewrite Est. exact Hf'.
      * intros a Ha. rewrite Hout; [reflexivity|]. pose proof (reserved_not_store g a Hok Ha) as Hn. unfold in_store_area in Hn. lia.
      * exact (fs_alloc_latch _ _ _ _ _ _ _ _ _ _ (proj2 Sf) total_pos Ea).
      * assert (forall n, 2 <= n < total + 2 -> okv_step ft (Data n)) as Hokd'
          by (intros n Hn; split; [exact (Hokd n Hn)|discriminate]).
        apply (fs_alloc_keeps fstore (fat_get ft) (fat_set ft) (val_ft ft) (okcg ft (g_fat_bytes g)) (okv_step ft)
                 (inv_step ft (vol_base g) (g_fat_bytes g) (vol_mirrors g) s0)
                 (law_step_get ft (vol_base g) (g_fat_bytes g) (vol_mirrors g) s0)
                 (law_step_set ft (vol_base g) (g_fat_bytes g) (vol_mirrors g) Hm s0) (okv_step_eoc ft) total Hokc Hokd'
                 (proj2 (vol32_total g HV)) s0 fi prev t' fi' c Hinv0 Sf); [|exact Ea].
        destruct prev as [p|]; [exact (proj1 Hprev)|exact I].
      * discriminate.
    + cbn [fst]. exact S.
  - (* free *)
    rewrite orb_false_r. destruct st as [im fi h s]. pose proof S as [Sb Sf Ss Sm Sr Sc Sn So Sd]. cbn [v_im v_fi v_h v_s] in *.
    unfold v32_step, vol32_free_chain. cbn [v_im v_fi v_h v_s]. cbn [call_ok v_im] in Hc.
    destruct (N.eq_dec first 0) as [->|Hne].
    + unfold vol_free_chain. cbn [N.eqb negb marked fst]. exact S.
    + destruct Hc as [->|(l & Hch & Hnd)]; [contradiction|].
      destruct (vol_free_chain_spec g Hok im fi first l Sb Sf Hne Hch Hnd) as (im1 & E & Hb1 & Hf1 & Hout & _).
      rewrite E. apply N.eqb_neq in Hne. rewrite Hne. cbn [negb].
      destruct (marked g true im1 s) as [im2 s2] eqn:Mk. cbn [fst].
      pose proof (sinv_after computed im fi h s im1 _ h true S Hb1 Hf1) as X.
      rewrite Mk in X. cbn [fst snd] in X. apply X.
      * intros a Ha. apply Hout. exact (reserved_not_store g a Hok Ha).
      * apply map_free_latch.
      * rewrite map_free_free. destruct (fi_free fi); [discriminate|reflexivity].
      * discriminate.
  - (* a call on the handle *)
    rewrite orb_false_r. destruct st as [im fi h s]. pose proof S as [Sb Sf Ss Sm Sr Sc Sn So Sd]. cbn [v_im v_fi v_h v_s] in *.
    cbn [call_ok v_im v_fi v_h] in Hc. destruct Hc as (Ho & sz & l & V).
    destruct (vol_step_refines g Hok im fi h sz l o Ho V) as (im1 & fi1 & h1 & r & sz' & l' & E & V1 & _ & _ & Hfr & _).
    unfold v32_step, vols_step. cbn [v_im v_fi v_h v_s]. rewrite E. cbn [snd].
    destruct (marked g (step_marks (g_cluster_size g) h o r) im1 s) as [im2 s2] eqn:Mk. cbn [fst].
    pose proof (sinv_after computed im fi h s im1 fi1 h1 (step_marks (g_cluster_size g) h o r) S) as X.
    rewrite Mk in X. cbn [fst snd] in X. destruct V1 as (Hb1 & (_ & Hf1 & _) & _). apply X.
    + exact Hb1.
    + exact Hf1.
    + intros a Ha. apply Hfr; [exact (reserved_not_store g a Hok Ha)|]. intros c _. exact (reserved_not_cluster g c a Ha).
    + unfold vol_step in E.
      destruct (file_step fstore (fat_get (ft_of g)) (fat_set (ft_of g)) (g_cluster_size g) (g_clusters g) (world_of g im fi) h o)
        as [[w' h'] r'] eqn:Ef.
      injection E as _ <- _ _.
      exact (file_step_latch fstore _ _ _ _ (world_of g im fi) h o w' h' r' (proj2 Sf) total_pos Ef).
    + unfold vol_step in E.
      destruct (file_step fstore (fat_get (ft_of g)) (fat_set (ft_of g)) (g_cluster_size g) (g_clusters g) (world_of g im fi) h o)
        as [[w' h'] r'] eqn:Ef.
      injection E as _ <- _ _.
      destruct (Hrange g Hok) as (Hokc & Hokd). pose proof (vol_mirrors_pos g Hok) as Hm.
      destruct V as (_ & W & I & _).
      exact (file_step_keeps fstore (fat_get (ft_of g)) (fat_set (ft_of g)) (val_ft (ft_of g)) (okcg (ft_of g) (g_fat_bytes g))
               (okv_ft (ft_of g)) (inv_g (vol_base g) (g_fat_bytes g) (vol_mirrors g))
               (lawg_get (ft_of g) _ _ _) (lawg_set (ft_of g) _ _ _ Hm) (okv_ft_eoc (ft_of g)) (g_cluster_size g) (g_clusters g)
               Hokc Hokd (proj2 (vol32_total g HV)) (world_of g im fi) h sz l o w' h' r' W I Ef).
    + intros Hm. exact (proj1 (vol_step_unmarked g im fi h o im1 fi1 h1 r E Hm)).
Qed.

Fixpoint run_ok (st : v32state) (cs : list v32call) : Prop :=
  match cs with [] => True | c :: r => call_ok st c /\ run_ok (fst (v32_step g st c)) r end.

Lemma v32_run_cons st c r : fst (v32_run g st (c :: r)) = fst (v32_run g (fst (v32_step g st c)) r).
Proof. cbn [v32_run]. destruct (v32_step g st c) as [st1 x]. cbn [fst]. destruct (v32_run g st1 r). reflexivity. Qed.

Theorem v32_run_inv : forall cs computed st, SInv computed st -> run_ok st cs ->
  SInv (computed || existsb is_stats cs) (fst (v32_run g st cs)).
Proof.
  induction cs as [|c r IH]; intros computed st S Hr.
  - cbn [existsb v32_run fst]. rewrite orb_false_r. exact S.
  - destruct Hr as [Hc Hr]. rewrite v32_run_cons. cbn [existsb]. rewrite orb_assoc.
    apply IH; [|exact Hr]. apply v32_step_inv; assumption.
Qed.
End Session.

(* ================================================================ 5. mount, unmount, whole sessions *)
(* the weakest premise under which the mount-time latch is consistent with the table: IF mount latches a count (clean status
   byte, stored word not above the cluster count), the count is the decoder's *)
Definition mount_coherent (g : geom) (im : image) : Prop := forall n, mount_free g im = Some n -> n = count_free g im.

Lemma mount_next_range g im n : mount_next g im = Some n -> 2 <= n <= g_clusters g + 2.
Proof.
  unfold mount_next. destruct ((2 <=? fsi_next_word g im) && (fsi_next_word g im <=? g_clusters g + 2)) eqn:E; [|discriminate].
  intros H. injection H as <-. apply andb_true_iff in E. rewrite !N.leb_le in E. exact E.
Qed.

Lemma mount_free_cases g im :
  mount_free g im = None <->
  (N.odd (img_get im 65) = true \/ g_clusters g < fsi_free_word g im).
Proof.
  unfold mount_free. destruct (N.odd (img_get im 65)); [split; [left; reflexivity|reflexivity]|].
  destruct (fsi_free_word g im <=? g_clusters g) eqn:E.
  - apply N.leb_le in E. split; [discriminate|intros [H|H]; [discriminate|lia]].
  - apply N.leb_gt in E. split; [right; exact E|reflexivity].
Qed.

Definition mount_latch (g : geom) (im : image) : fsinfo :=
  {| fi_free := mount_free g im; fi_next := mount_next g im; fi_dirty := false |}.

Theorem mount_sinv strict im fi s h :
  let g := parse_geom im in
  bytes_ok im -> Vol32 g -> vol32_mount strict im = Ok (fi, s) -> mount_coherent g im ->
  fi = mount_latch g im /\ s = st_mount (img_get im 65) /\ sigs_ok g im /\
  SInv g im fi (img_get im 65) false {| v_im := im; v_fi := fi; v_h := h; v_s := s |}.
Proof.
  cbv zeta. intros Hb HV Hm Hco.
  destruct (vol32_mount_facts strict im fi s Hb (v32_bits _ HV) Hm) as (Es & Hlt & Efi & Hs & _). cbv zeta in *.
  set (g := parse_geom im) in *. pose proof (v32_ok g HV) as Hok.
  split; [exact Efi|]. split; [exact Es|]. split; [exact Hs|].
  pose proof (status_off_32 g (v32_bits g HV)) as E65.
  constructor; cbn [v_im v_fi v_s].
  - exact Hb.
  - rewrite Efi. split; cbn [fi_free fi_next].
    + destruct (mount_free g im) as [n|] eqn:E; [|exact I]. rewrite <- (count_free_store g Hok). exact (Hco n E).
    + destruct (mount_next g im) as [n|] eqn:E; [|exact I]. cbn [hint_ok]. apply (mount_next_range g im n E).
  - rewrite Es. rewrite <- E65. apply mount_stat_inv. rewrite E65. exact Hlt.
  - rewrite Es. reflexivity.
  - reflexivity.
  - reflexivity.
  - left. reflexivity.
  - split; [intros H; split; [exact H|reflexivity]|intros [H _]; exact H].
  - right. split; [reflexivity|exact Es].
Qed.

Section Unmount.
Variable g : geom.
Hypothesis HV : Vol32 g.
Variable im0 : image.
Variable fi0 : fsinfo.
Variable b : N.

Lemma flushes_dirty fi : flushes g fi = fi_dirty fi.
Proof. unfold flushes. rewrite (v32_bits g HV). reflexivity. Qed.

Theorem unmount_spec computed st : SInv g im0 fi0 b computed st ->
  let im' := fst (fst (vol32_unmount g (v_im st) (v_fi st) (v_s st))) in
  img_get im' 65 = b /\ bytes_ok im' /\
  (forall a, a <> 65 -> ~ in_fsi g a -> img_get im' a = img_get (v_im st) a) /\
  (fi_dirty (v_fi st) = false -> forall a, a <> 65 -> img_get im' a = img_get (v_im st) a) /\
  (fi_dirty (v_fi st) = true -> img_read im' (fsi_off g) 512 = fsinfo_sector_bytes (v_fi st)) /\
  count_free g im' = count_free g (v_im st).
Proof.
  intros [Sb Sf Ss Sm Sr Sc Sn So Sd]. destruct st as [im fi h s]. cbn [v_im v_fi v_h v_s] in *. cbv zeta.
  pose proof (v32_ok g HV) as Hok. pose proof (status_off_32 g (v32_bits g HV)) as E65.
  destruct (flush_spec g im fi) as (F1 & F2 & F3 & F4). cbv zeta in *.
  unfold vol32_unmount. destruct (vol32_flush_fs_info g im fi) as [im1 fi1] eqn:Ef. cbn [fst snd] in *.
  assert (StatInv g im1 s) as Ss1.
  { destruct Ss as (A & B & C). split; [|split; assumption]. rewrite <- A, E65. apply F1. intros Hin.
    exact (fsi_not_status g 65 HV Hin eq_refl). }
  destruct (vol_set_dirty_flag_spec g im1 s false Ss1) as (P1 & P2 & _ & _ & _ & _ & _ & P8 & _). cbv zeta in *.
  destruct (vol_set_dirty_flag g im1 s false) as [im2 s2] eqn:Ed. cbn [fst snd] in *.
  unfold status_only in P1. rewrite E65 in P1, P8.
  assert (forall a, in_store_area g a -> img_get im2 a = img_get im a) as Hst.
  { intros a Ha. rewrite P1.
    - apply F1. intros Hin. exact (reserved_not_store g a Hok (proj1 (fsi_layout g a HV Hin)) Ha).
    - intros ->. exact (reserved_not_store g 65 Hok (status_reserved g HV) Ha). }
  split; [rewrite (P8 eq_refl); exact Sm|].
  split.
  { intros o. destruct (N.eq_dec o 65) as [->|Hne].
    - pose proof (stat_inv_byte_lt g im2 s2 P2) as L. rewrite E65 in L. exact L.
    - rewrite (P1 o Hne). apply F4. exact Sb. }
  split; [intros a Hne Hin; rewrite (P1 a Hne); exact (F1 a Hin)|].
  split.
  { intros Hd a Hne. rewrite (P1 a Hne). rewrite <- flushes_dirty in Hd. pose proof (F2 Hd) as E2. injection E2 as -> _. reflexivity. }
  split.
  { intros Hd. rewrite <- flushes_dirty in Hd. destruct (F3 Hd) as [R _]. rewrite <- R.
    apply img_read_ext. intros i Hi. apply P1. intros E.
    apply (fsi_not_status g (fsi_off g + i) HV); [unfold in_fsi; change (N.of_nat 512) with 512 in Hi; lia|exact E]. }
  apply (count_free_store_ext g im im2 Hok Hst).
Qed.
End Unmount.

(* ---------------------------------------------------------------- THE SESSION THEOREM *)
(* mount ; any admissible calls ; unmount.  [imL] is the image just before unmount, [im'] the image after it. *)
Record session_facts (g : geom) (im imL im' : image) (fiL : fsinfo) (cs : list v32call) : Prop := {
  sf_geom : parse_geom im' = g;
  sf_status : img_get im' 65 = img_get im 65;
  sf_sigs : sigs_ok g im';
  (* the free-count word: the decoder's count of the final image, or unknown, or (never latched, latch never dirty: the
     sector was not written) the word found at mount *)
  sf_count : fsi_free_word g im' = count_free g im' \/ fsi_free_word g im' = UNKNOWN32 \/
             (fsi_free_word g im' = fsi_free_word g im /\ mount_free g im = None /\ fi_dirty fiL = false);
  sf_count_written : fi_dirty fiL = true ->
             fsi_free_word g im' = match fi_free fiL with Some _ => count_free g im' | None => UNKNOWN32 end;
  sf_latched : fi_free fiL = None <-> (mount_free g im = None /\ existsb is_stats cs = false);
  (* a latch that is not dirty is the mount-time latch, and the sector is the sector found at mount *)
  sf_unwritten : fi_dirty fiL = false ->
             fsi_free_word g im' = fsi_free_word g im /\ fsi_next_word g im' = fsi_next_word g im /\ fiL = mount_latch g im;
  (* the hint: unknown, a cluster number, or the word found at mount *)
  sf_next : fsi_next_word g im' = UNKNOWN32 \/ 2 <= fsi_next_word g im' < g_clusters g + 2 \/
            fsi_next_word g im' = fsi_next_word g im;
  (* frame of unmount: the status byte and the 512 bytes of the sector; with a well-formed sector only its two words *)
  sf_frame : forall a, a <> 65 -> ~ in_fsi g a -> img_get im' a = img_get imL a;
  sf_frame_clean : fi_dirty fiL = false -> forall a, a <> 65 -> img_get im' a = img_get imL a;
  sf_frame_wf : sector_wf g im -> forall a, a <> 65 -> ~ in_fsi_words g a -> img_get im' a = img_get imL a;
  sf_sector_mounted : forall a, in_fsi g a -> img_get imL a = img_get im a;
  sf_table : count_free g im' = count_free g imL;
  sf_bytes : bytes_ok im' }.

Theorem vol32_session_fsinfo strict im cs fi s h :
  let g := parse_geom im in
  bytes_ok im -> Vol32 g -> vol32_mount strict im = Ok (fi, s) -> mount_coherent g im ->
  let st0 := {| v_im := im; v_fi := fi; v_h := h; v_s := s |} in
  run_ok g st0 cs ->
  let stL := fst (v32_run g st0 cs) in
  let im' := fst (fst (vol32_unmount g (v_im stL) (v_fi stL) (v_s stL))) in
  session_facts g im (v_im stL) im' (v_fi stL) cs.
Proof.
  cbv zeta. intros Hb HV Hm Hco Hr. set (g := parse_geom im) in *.
  destruct (mount_sinv strict im fi s h Hb HV Hm Hco) as (Efi & Es & Hsig & S0). fold g in Efi, Hsig, S0.
  pose proof (v32_ok g HV) as Hok. destruct (vol32_total g HV) as [Ht1 Ht2].
  assert (forall n, fi_next fi = Some n -> 2 <= n <= g_clusters g + 2) as Hn0.
  { intros n E. rewrite Efi in E. cbn [mount_latch fi_next] in E. exact (mount_next_range g im n E). }
  pose proof (v32_run_inv g HV im fi (img_get im 65) Hn0 cs false _ S0 Hr) as SL. cbn [orb] in SL.
  set (stL := fst (v32_run g {| v_im := im; v_fi := fi; v_h := h; v_s := s |} cs)) in *.
  destruct (unmount_spec g HV im fi (img_get im 65) _ stL SL) as (U1 & U2 & U3 & U4 & U5 & U6). cbv zeta in *.
  set (im' := fst (fst (vol32_unmount g (v_im stL) (v_fi stL) (v_s stL)))) in *.
  destruct SL as [Sb Sf Ss Sm Sr Sc Sn So Sd].
  assert (fi_free fi = mount_free g im) as Ef0 by (rewrite Efi; reflexivity).
  assert (fi_next fi = mount_next g im) as En0 by (rewrite Efi; reflexivity).
  (* the sector before unmount is the sector at mount *)
  assert (forall a, in_fsi g a -> img_get (v_im stL) a = img_get im a) as Hsec.
  { intros a Ha. apply Sr; [exact (proj1 (fsi_layout g a HV Ha))|exact (fsi_not_status g a HV Ha)]. }
  (* the words of the final sector *)
  assert (fi_dirty (v_fi stL) = true ->
          fsi_free_word g im' = word_of (fi_free (v_fi stL)) /\ fsi_next_word g im' = word_of (fi_next (v_fi stL)) /\ sigs_ok g im') as Hw.
  { intros Hd. apply sector_words; [| |exact (U5 Hd)].
    - apply (word_of_lt _ (g_clusters g)); [|lia]. intros n E. destruct Sf as [Sf1 _]. rewrite E in Sf1.
      rewrite Sf1, <- (count_free_store g Hok). apply count_free_le.
    - apply (word_of_lt _ (g_clusters g + 2)); [|lia]. intros n E. destruct Sn as [Sn|(x & Sn & Hx)].
      + rewrite Sn in E. apply (Hn0 n E).
      + rewrite Sn in E. injection E as <-. lia. }
  assert (fi_dirty (v_fi stL) = false -> forall a, in_fsi g a -> img_get im' a = img_get im a) as Hun.
  { intros Hd a Ha. rewrite (U4 Hd a (fsi_not_status g a HV Ha)). exact (Hsec a Ha). }
  assert (fi_dirty (v_fi stL) = false ->
          fsi_free_word g im' = fsi_free_word g im /\ fsi_next_word g im' = fsi_next_word g im /\ sigs_ok g im') as Hk.
  { intros Hd. assert (forall p, fsi_off g <= p -> p + 4 <= fsi_off g + 512 -> img_u32 im' p = img_u32 im p) as G.
    { intros p H1 H2. apply img_u32_ext. intros k Hk. apply (Hun Hd). unfold in_fsi. lia. }
    unfold fsi_free_word, fsi_next_word. rewrite !G by lia. split; [reflexivity|]. split; [reflexivity|].
    destruct Hsig as (G1 & G2 & G3). unfold sigs_ok. rewrite !G by lia. split; [exact G1|split; [exact G2|exact G3]]. }
  assert (count_free g (v_im stL) = count_spec fstore (val_ft (ft_of g)) (store_of g (v_im stL)) 2 (N.to_nat (g_clusters g))) as Ecs
    by apply (count_free_store g Hok).
  constructor.
  - (* geometry *)
    change g with (parse_geom im). apply parse_geom_low. intros o Ho.
    assert (o <> 65) by lia. assert (~ in_fsi g o) as Hn by (intros Hin; destruct (fsi_layout g o HV Hin); lia).
    rewrite (U3 o H Hn). apply Sr; [|exact H]. destruct HV as [_ _ L Hh B]. unfold reserved_area. nia.
  - exact U1.
  - destruct (fi_dirty (v_fi stL)) eqn:Hd; [exact (proj2 (proj2 (Hw eq_refl)))|exact (proj2 (proj2 (Hk eq_refl)))].
  - destruct (fi_dirty (v_fi stL)) eqn:Hd.
    + destruct (Hw eq_refl) as (W1 & _). destruct (fi_free (v_fi stL)) as [n|] eqn:E.
      * left. rewrite W1. cbn [word_of]. destruct Sf as [Sf1 _]. rewrite E in Sf1. rewrite U6, Ecs. exact Sf1.
      * right. left. rewrite W1. reflexivity.
    + destruct (Hk eq_refl) as (K1 & _). pose proof (Sc eq_refl) as Efi'.
      destruct (mount_free g im) as [n|] eqn:E.
      * left. rewrite K1. pose proof (Hco n E) as Hn.
        destruct Sf as [Sf1 _]. rewrite Efi', Ef0 in Sf1. rewrite U6, Ecs, <- Sf1.
        unfold mount_free in E. destruct (N.odd (img_get im 65)); [discriminate|].
        destruct (fsi_free_word g im <=? g_clusters g); [|discriminate]. injection E as E. exact E.
      * right. right. split; [exact K1|]. split; reflexivity.
  - intros Hd. destruct (Hw Hd) as (W1 & _). rewrite W1. destruct (fi_free (v_fi stL)) as [n|] eqn:E; [|reflexivity].
    cbn [word_of]. destruct Sf as [Sf1 _]. rewrite E in Sf1. rewrite U6, Ecs. exact Sf1.
  - rewrite So, Ef0. split; intros [A B]; split; try exact A; [destruct (existsb is_stats cs); [discriminate|reflexivity]|rewrite B; reflexivity].
  - intros Hd. destruct (Hk Hd) as (K1 & K2 & _). split; [exact K1|]. split; [exact K2|]. rewrite (Sc Hd). exact Efi.
  - destruct (fi_dirty (v_fi stL)) eqn:Hd.
    + destruct (Hw eq_refl) as (_ & W2 & _). rewrite W2. destruct Sn as [Sn|(x & Sn & Hx)].
      * rewrite Sn, En0. destruct (mount_next g im) as [n|] eqn:E; cbn [word_of]; [|left; reflexivity].
        right. right. unfold mount_next in E.
        destruct ((2 <=? fsi_next_word g im) && (fsi_next_word g im <=? g_clusters g + 2)); [|discriminate]. injection E as E. symmetry. exact E.
      * rewrite Sn. cbn [word_of]. right. left. exact Hx.
    + right. right. exact (proj1 (proj2 (Hk eq_refl))).
  - exact U3.
  - exact U4.
  - (* a well-formed sector: only the two words can change *)
    intros Hwf a Hne Hnw. destruct (fi_dirty (v_fi stL)) eqn:Hd; [|exact (U4 eq_refl a Hne)].
    destruct (N.lt_ge_cases a (fsi_off g)) as [Hlo|Hlo]; [apply U3; [exact Hne|unfold in_fsi; lia]|].
    destruct (N.lt_ge_cases a (fsi_off g + 512)) as [Hhi|Hhi]; [|apply U3; [exact Hne|unfold in_fsi; lia]].
    set (i := N.to_nat (a - fsi_off g)). assert (a = fsi_off g + N.of_nat i) as Ea by (unfold i; lia).
    assert (i < 512)%nat as Hi by (unfold i; lia).
    assert (i < 488 \/ 496 <= i)%nat as Hout by (unfold in_fsi_words in Hnw; unfold i; lia).
    rewrite Ea. rewrite (sector_get im' (fsi_off g) _ (U5 eq_refl) i Hi).
    assert (img_read (v_im stL) (fsi_off g) 512 = fsinfo_bytes (fsi_free_word g im) (fsi_next_word g im)) as HL.
    { rewrite <- Hwf. apply img_read_ext. intros k Hk0. apply Hsec. unfold in_fsi. change (N.of_nat 512) with 512 in Hk0. lia. }
    rewrite (sector_get (v_im stL) (fsi_off g) _ HL i Hi). apply fsinfo_bytes_nth_outside. exact Hout.
  - exact Hsec.
  - exact U6.
  - exact U2.
Qed.

(* ---------------------------------------------------------------- C05: a clean mount whose stored count is unknown or right *)
Lemma clean_coherent g im : N.odd (img_get im 65) = false ->
  (fsi_free_word g im = UNKNOWN32 \/ fsi_free_word g im = count_free g im) -> g_clusters g < UNKNOWN32 ->
  mount_coherent g im /\ (mount_free g im = None <-> fsi_free_word g im = UNKNOWN32).
Proof.
  intros Hc Hw Ht. unfold mount_coherent, mount_free. rewrite Hc. pose proof (count_free_le g im) as Hle.
  destruct (fsi_free_word g im <=? g_clusters g) eqn:E.
  - apply N.leb_le in E. split.
    + intros n H. injection H as <-. destruct Hw as [Hw|Hw]; [lia|exact Hw].
    + split; [discriminate|intros H; lia].
  - apply N.leb_gt in E. split; [discriminate|]. split; [intros _; destruct Hw as [Hw|Hw]; [exact Hw|lia]|reflexivity].
Qed.

Theorem vol32_session_fsinfo_clean strict im cs fi s h :
  let g := parse_geom im in
  bytes_ok im -> Vol32 g -> vol32_mount strict im = Ok (fi, s) ->
  N.odd (img_get im 65) = false ->
  (fsi_free_word g im = UNKNOWN32 \/ fsi_free_word g im = count_free g im) ->
  let st0 := {| v_im := im; v_fi := fi; v_h := h; v_s := s |} in
  run_ok g st0 cs ->
  let stL := fst (v32_run g st0 cs) in
  let im' := fst (fst (vol32_unmount g (v_im stL) (v_fi stL) (v_s stL))) in
  parse_geom im' = g /\
  (* the count: unknown exactly when it was unknown at mount and statistics were never asked for; otherwise the decoder's *)
  (fsi_free_word g im' = UNKNOWN32 <-> fsi_free_word g im = UNKNOWN32 /\ existsb is_stats cs = false) /\
  (fsi_free_word g im' <> UNKNOWN32 -> fsi_free_word g im' = count_free g im') /\
  (fsi_next_word g im' = UNKNOWN32 \/ 2 <= fsi_next_word g im' < g_clusters g + 2 \/ fsi_next_word g im' = fsi_next_word g im) /\
  sigs_ok g im' /\ img_get im' 65 = img_get im 65 /\
  (* the flush (unmount) changes nothing but the status byte and the sector - of a well-formed sector only the two words *)
  (forall a, a <> 65 -> ~ in_fsi g a -> img_get im' a = img_get (v_im stL) a) /\
  (sector_wf g im -> forall a, a <> 65 -> ~ in_fsi_words g a -> img_get im' a = img_get (v_im stL) a) /\
  count_free g im' = count_free g (v_im stL).
Proof.
  cbv zeta. intros Hb HV Hm Hc Hw Hr. set (g := parse_geom im) in *.
  destruct (vol32_total g HV) as [Ht1 Ht2].
  destruct (clean_coherent g im Hc Hw ltac:(unfold UNKNOWN32; lia)) as [Hco Hnone].
  destruct (vol32_session_fsinfo strict im cs fi s h Hb HV Hm Hco Hr) as [F1 F2 F3 F4 F5 F6 F6' F7 F8 F9 F10 F11 F12 F13].
  fold g in F1, F2, F3, F4, F5, F6, F6', F7, F8, F9, F10, F11, F12, F13.
  set (stL := fst (v32_run g {| v_im := im; v_fi := fi; v_h := h; v_s := s |} cs)) in *.
  set (im' := fst (fst (vol32_unmount g (v_im stL) (v_fi stL) (v_s stL)))) in *.
  pose proof (count_free_le g im') as Hle.
  split; [exact F1|]. split.
  { destruct (fi_dirty (v_fi stL)) eqn:Hd.
    - rewrite (F5 eq_refl). destruct (fi_free (v_fi stL)) as [n|] eqn:E.
      + split; [intros H; unfold UNKNOWN32 in H; lia|]. intros [A B]. exfalso.
        assert (Some n = None) as X by (apply F6; split; [apply Hnone; exact A|exact B]). discriminate X.
      + split; [intros _|reflexivity]. destruct (proj1 F6 eq_refl) as [A B]. split; [apply Hnone; exact A|exact B].
    - destruct (F6' eq_refl) as (K1 & _ & K3). rewrite K1. split; [|intros [A _]; exact A].
      intros A. split; [exact A|]. apply (proj1 F6). rewrite K3. cbn [mount_latch fi_free]. apply Hnone. exact A. }
  split.
  { intros Hne. destruct F4 as [A|[A|(A & B & _)]]; [exact A|contradiction|]. exfalso. apply Hne. rewrite A. apply Hnone. exact B. }
  split; [exact F7|]. split; [exact F3|]. split; [exact F2|]. split; [exact F8|]. split; [exact F10|exact F12].
Qed.

(* ---------------------------------------------------------------- C05: statistics are exact *)
Theorem vol32_stats_exact strict im cs fi s h :
  let g := parse_geom im in
  bytes_ok im -> Vol32 g -> vol32_mount strict im = Ok (fi, s) -> mount_coherent g im ->
  let st0 := {| v_im := im; v_fi := fi; v_h := h; v_s := s |} in
  run_ok g st0 cs ->
  let stL := fst (v32_run g st0 cs) in
  exists fi', v32_step g stL CStats =
    ({| v_im := v_im stL; v_fi := fi'; v_h := v_h stL; v_s := v_s stL |},
     RStats (Ok (g_cluster_size g, g_clusters g, count_free g (v_im stL)))).
Proof.
  cbv zeta. intros Hb HV Hm Hco Hr. set (g := parse_geom im) in *.
  destruct (mount_sinv strict im fi s h Hb HV Hm Hco) as (Efi & Es & Hsig & S0). fold g in Efi, Hsig, S0.
  assert (forall n, fi_next fi = Some n -> 2 <= n <= g_clusters g + 2) as Hn0.
  { intros n E. rewrite Efi in E. cbn [mount_latch fi_next] in E. exact (mount_next_range g im n E). }
  pose proof (v32_run_inv g HV im fi (img_get im 65) Hn0 cs false _ S0 Hr) as SL.
  destruct (stats_step g HV im fi (img_get im 65) _ _ SL) as (fi' & E & _).
  exists fi'. unfold v32_step. rewrite E. reflexivity.
Qed.

(* ---------------------------------------------------------------- C12 at offset 0x41 *)
Theorem vol32_set_dirty_flag_spec g im s d : g_bits g = 32 -> StatInv g im s ->
  let im' := fst (vol_set_dirty_flag g im s d) in let s' := snd (vol_set_dirty_flag g im s d) in
  (forall a, a <> 65 -> img_get im' a = img_get im a) /\ StatInv g im' s' /\ mount_byte s' = mount_byte s /\
  s' = set_dirty_flag s d /\
  img_get im' 65 / 4 = mount_byte s / 4 /\ N.odd (img_get im' 65 / 2) = N.odd (mount_byte s / 2) /\
  (d = true -> N.odd (img_get im' 65) = true /\ sf_dirty (current s') = true) /\
  (d = false -> img_get im' 65 = mount_byte s) /\
  (flags_change s d = false -> im' = im /\ s' = s).
Proof.
  intros H32 Hs. pose proof (vol_set_dirty_flag_spec g im s d Hs) as X. cbv zeta in *.
  unfold status_only in X. rewrite (status_off_32 g H32) in X. exact X.
Qed.

Theorem vol32_reachable strict im cs fi s h :
  let g := parse_geom im in
  bytes_ok im -> Vol32 g -> vol32_mount strict im = Ok (fi, s) -> mount_coherent g im ->
  let st0 := {| v_im := im; v_fi := fi; v_h := h; v_s := s |} in
  run_ok g st0 cs ->
  let stL := fst (v32_run g st0 cs) in
  StatInv g (v_im stL) (v_s stL) /\ mount_byte (v_s stL) = img_get im 65 /\
  img_get (v_im stL) 65 / 4 = img_get im 65 / 4 /\ N.odd (img_get (v_im stL) 65 / 2) = N.odd (img_get im 65 / 2) /\
  (* bytes of the reserved sectors other than the status byte never change while mounted *)
  (forall a, reserved_area g a -> a <> 65 -> img_get (v_im stL) a = img_get im a) /\
  (* the dirty bit is on the device, or nothing whatsoever has been written since mount *)
  ((N.odd (img_get (v_im stL) 65) = true /\ sf_dirty (current (v_s stL)) = true) \/ (v_im stL = im /\ v_s stL = s)).
Proof.
  cbv zeta. intros Hb HV Hm Hco Hr. set (g := parse_geom im) in *.
  destruct (mount_sinv strict im fi s h Hb HV Hm Hco) as (Efi & Es & Hsig & S0). fold g in Efi, Hsig, S0.
  assert (forall n, fi_next fi = Some n -> 2 <= n <= g_clusters g + 2) as Hn0.
  { intros n E. rewrite Efi in E. cbn [mount_latch fi_next] in E. exact (mount_next_range g im n E). }
  pose proof (v32_run_inv g HV im fi (img_get im 65) Hn0 cs false _ S0 Hr) as [Sb Sf Ss Sm Sr Sc Sn So Sd].
  destruct (stat_inv_bits g _ _ Ss) as [B1 B2]. rewrite (status_off_32 g (v32_bits g HV)), Sm in B1, B2.
  split; [exact Ss|]. split; [exact Sm|]. split; [exact B1|]. split; [exact B2|]. split; [exact Sr|].
  destruct Sd as [Sd|[E1 E2]]; [left; exact Sd|right]. split; [exact E1|rewrite E2, Es; reflexivity].
Qed.

Lemma flags_change_mount b0 : flags_change (st_mount b0) false = false.
Proof.
  unfold flags_change, st_mount. cbn [mount_byte current]. rewrite orb_false_r. apply negb_false_iff.
  unfold sf_eqb. destruct (sf_decode b0) as [[|] [|]]; reflexivity.
Qed.

Theorem vol32_unmount_restores strict im cs fi s h :
  let g := parse_geom im in
  bytes_ok im -> Vol32 g -> vol32_mount strict im = Ok (fi, s) -> mount_coherent g im ->
  let st0 := {| v_im := im; v_fi := fi; v_h := h; v_s := s |} in
  run_ok g st0 cs ->
  let stL := fst (v32_run g st0 cs) in
  let im' := fst (fst (vol32_unmount g (v_im stL) (v_fi stL) (v_s stL))) in
  img_get im' 65 = img_get im 65 /\
  (forall a, a <> 65 -> ~ in_fsi g a -> img_get im' a = img_get (v_im stL) a) /\
  im' = apply_writes (v_im stL) (vol32_unmount_writes g (v_fi stL) (v_s stL)) /\
  (* nothing marked and the latch never dirty: unmount issues no write *)
  (v_im stL = im -> v_s stL = s -> fi_dirty (v_fi stL) = false ->
     vol32_unmount_writes g (v_fi stL) (v_s stL) = [] /\ im' = im).
Proof.
  cbv zeta. intros Hb HV Hm Hco Hr. set (g := parse_geom im) in *.
  destruct (vol32_session_fsinfo strict im cs fi s h Hb HV Hm Hco Hr) as [F1 F2 F3 F4 F5 F6 F6' F7 F8 F9 F10 F11 F12 F13].
  fold g in F2, F8.
  set (stL := fst (v32_run g {| v_im := im; v_fi := fi; v_h := h; v_s := s |} cs)) in *.
  split; [exact F2|]. split; [exact F8|]. split; [apply apply_writes_unmount|].
  intros E1 E2 Hd.
  assert (vol32_unmount_writes g (v_fi stL) (v_s stL) = []) as Hw.
  { unfold vol32_unmount_writes. rewrite (flushes_dirty g HV), Hd, E2.
    destruct (mount_sinv strict im fi s h Hb HV Hm Hco) as (_ & Es & _). rewrite Es, flags_change_mount. reflexivity. }
  split; [exact Hw|]. rewrite apply_writes_unmount, Hw, E1. reflexivity.
Qed.

(* ---------------------------------------------------------------- C13 *)
(* (a) a read-only call leaves image, latch and status latch alone when the latch holds a count - no invariant needed *)
Lemma ro_step g st c : read_only_call c = true -> fi_free (v_fi st) <> None ->
  let st' := fst (v32_step g st c) in v_im st' = v_im st /\ v_fi st' = v_fi st /\ v_s st' = v_s st.
Proof.
  intros Hro Hk. cbv zeta. destruct st as [im fi h s]. cbn [v_im v_fi v_h v_s] in *. destruct c as [| | |o]; try discriminate.
  - unfold v32_step, vol32_stats, fs_stats. cbn [v_im v_fi v_h v_s]. destruct (fi_free fi) as [n|]; [|contradiction].
    cbn [bind fst v_im v_fi v_s]. repeat split.
  - unfold v32_step, vols_step. cbn [v_im v_fi v_h v_s].
    destruct (vol_step g (im, fi, h) o) as [[[im1 fi1] h1] r] eqn:E. cbn [snd].
    assert (step_marks (g_cluster_size g) h o r = false) as Hm by (destruct o; try discriminate; reflexivity).
    destruct (vol_step_unmarked g im fi h o im1 fi1 h1 r E Hm) as [-> ->]. rewrite Hm. cbn [marked fst v_im v_fi v_s]. repeat split.
Qed.

Lemma ro_run g : forall cs st, forallb read_only_call cs = true -> fi_free (v_fi st) <> None ->
  let st' := fst (v32_run g st cs) in v_im st' = v_im st /\ v_fi st' = v_fi st /\ v_s st' = v_s st.
Proof.
  induction cs as [|c r IH]; intros st H Hk; cbv zeta.
  - cbn [v32_run fst]. repeat split.
  - cbn [forallb] in H. apply andb_true_iff in H. destruct H as [Hc H]. rewrite v32_run_cons.
    destruct (ro_step g st c Hc Hk) as (A1 & A2 & A3). cbv zeta in *.
    destruct (IH (fst (v32_step g st c)) H ltac:(rewrite A2; exact Hk)) as (B1 & B2 & B3). cbv zeta in *.
    rewrite B1, B2, B3. split; [exact A1|split; [exact A2|exact A3]].
Qed.

Lemma vol32_mount_shape strict im fi s : vol32_mount strict im = Ok (fi, s) -> fi_dirty fi = false /\ exists b0, s = st_mount b0.
Proof.
  unfold vol32_mount. destruct (Bpb.mount _ _ _ _) as [m| | |]; cbn [bind]; try discriminate.
  intros H. injection H as <- <-. split; [reflexivity|]. eexists. reflexivity.
Qed.

Theorem vol32_read_only_writes_nothing strict im cs fi s h : vol32_mount strict im = Ok (fi, s) ->
  fi_free fi <> None -> forallb read_only_call cs = true ->
  let g := parse_geom im in
  let stL := fst (v32_run g {| v_im := im; v_fi := fi; v_h := h; v_s := s |} cs) in
  v_im stL = im /\ v_fi stL = fi /\ v_s stL = s /\
  vol32_unmount_writes g (v_fi stL) (v_s stL) = [] /\
  vol32_unmount g (v_im stL) (v_fi stL) (v_s stL) = (im, fi, s).
Proof.
  intros Hm Hk Hro. cbv zeta.
  destruct (ro_run (parse_geom im) cs {| v_im := im; v_fi := fi; v_h := h; v_s := s |} Hro Hk) as (A1 & A2 & A3).
  cbv zeta in *. cbn [v_im v_fi v_s] in *. rewrite A1, A2, A3.
  destruct (vol32_mount_shape strict im fi s Hm) as (Hd & b0 & ->).
  split; [reflexivity|]. split; [reflexivity|]. split; [reflexivity|].
  unfold vol32_unmount_writes, vol32_unmount, vol32_flush_fs_info, vol_set_dirty_flag, flushes.
  rewrite Hd, andb_false_r, flags_change_mount. rewrite (flags_change_false _ _ (flags_change_mount b0)). split; reflexivity.
Qed.

(* the latch holds a count after mount exactly outside the two classes of C13 *)
Lemma mount_free_classes g im : g_clusters g < UNKNOWN32 ->
  (mount_free g im = None <->
   (lacks_count (fsi_free_word g im) (g_clusters g) = true \/ d16_class (img_get im 65) (fsi_free_word g im) (g_clusters g) = true)).
Proof.
  intros Ht. rewrite mount_free_cases. unfold d16_class, lacks_count.
  destruct (N.eqb_spec (fsi_free_word g im) UNKNOWN32) as [E1|E1];
    destruct (N.ltb_spec (g_clusters g) (fsi_free_word g im)) as [E2|E2];
    destruct (N.odd (img_get im 65)); cbn [orb andb negb];
    intuition (first [reflexivity | discriminate | lia]).
Qed.

(* (b) mount without a usable count (unknown / out of range / dirty status byte) ; stats ; unmount: ONE device write, the
   serialised sector with the decoder's count and the mount-time hint *)
Theorem vol32_stats_unknown_count_writes_fsinfo strict im fi s h :
  let g := parse_geom im in
  bytes_ok im -> Vol32 g -> vol32_mount strict im = Ok (fi, s) -> fi_free fi = None ->
  let st0 := {| v_im := im; v_fi := fi; v_h := h; v_s := s |} in
  let stL := fst (v32_run g st0 [CStats]) in
  let im' := fst (fst (vol32_unmount g (v_im stL) (v_fi stL) (v_s stL))) in
  let sector := fsinfo_bytes (count_free g im) (word_of (mount_next g im)) in
  snd (v32_run g st0 [CStats]) = [RStats (Ok (g_cluster_size g, g_clusters g, count_free g im))] /\
  v_im stL = im /\
  vol32_unmount_writes g (v_fi stL) (v_s stL) = [(fsi_off g, sector)] /\
  im' = img_write im (fsi_off g) sector /\
  fsi_free_word g im' = count_free g im /\ fsi_next_word g im' = word_of (mount_next g im) /\
  (forall a, ~ in_fsi g a -> img_get im' a = img_get im a) /\
  (sector_wf g im -> forall a, ~ in_fsi_words g a -> img_get im' a = img_get im a) /\
  (fsi_free_word g im <> count_free g im -> im' <> im).
Proof.
  cbv zeta. intros Hb HV Hm Hnone. set (g := parse_geom im) in *.
  assert (mount_coherent g im) as Hco.
  { destruct (vol32_mount_facts strict im fi s Hb (v32_bits _ HV) Hm) as (_ & _ & Efi & _). cbv zeta in Efi. fold g in Efi.
    rewrite Efi in Hnone. cbn [fi_free] in Hnone. intros n E. rewrite Hnone in E. discriminate. }
  destruct (mount_sinv strict im fi s h Hb HV Hm Hco) as (Efi & Es & Hsig & S0). fold g in Efi, Hsig, S0.
  destruct (vol32_total g HV) as [Ht1 Ht2]. pose proof (v32_ok g HV) as Hok.
  destruct (stats_step g HV im fi (img_get im 65) _ _ S0) as (fi' & E & _). cbn [v_im v_fi v_h v_s] in E.
  assert (fi' = {| fi_free := Some (count_free g im); fi_next := mount_next g im; fi_dirty := true |}) as Efi'.
  { unfold vol32_stats in E. destruct (fs_stats fstore (fat_get (ft_of g)) (store_of g im) fi (g_clusters g)) as [[f1 n1]| | |] eqn:Es1;
      cbn [bind] in E; try discriminate. injection E as <- <-.
    destruct (fs_stats_cases _ _ _ _ _ _ _ Es1) as [(X & _)|(_ & ->)]; [congruence|]. rewrite Efi. reflexivity. }
  assert (v32_run g {| v_im := im; v_fi := fi; v_h := h; v_s := s |} [CStats] =
          ({| v_im := im; v_fi := fi'; v_h := h; v_s := s |}, [RStats (Ok (g_cluster_size g, g_clusters g, count_free g im))])) as Erun.
  { cbn [v32_run]. unfold v32_step. cbn [v_im v_fi v_h v_s]. rewrite E. reflexivity. }
  rewrite Erun. cbn [fst snd v_im v_fi v_s].
  split; [reflexivity|]. split; [reflexivity|].
  assert (vol32_unmount_writes g fi' s = [(fsi_off g, fsinfo_bytes (count_free g im) (word_of (mount_next g im)))]) as Hw.
  { unfold vol32_unmount_writes. rewrite (flushes_dirty g HV), Efi', Es, flags_change_mount. reflexivity. }
  split; [exact Hw|].
  assert (fst (fst (vol32_unmount g im fi' s)) = img_write im (fsi_off g) (fsinfo_bytes (count_free g im) (word_of (mount_next g im)))) as Him.
  { rewrite apply_writes_unmount, Hw. reflexivity. }
  split; [exact Him|]. rewrite Him.
  set (sector := fsinfo_bytes (count_free g im) (word_of (mount_next g im))).
  assert (img_read (img_write im (fsi_off g) sector) (fsi_off g) 512 = sector) as Hrd by apply (img_read_write_same sector).
  destruct (sector_words g (img_write im (fsi_off g) sector) (count_free g im) (word_of (mount_next g im))) as (W1 & W2 & _).
  { pose proof (count_free_le g im). lia. }
  { apply (word_of_lt _ (g_clusters g + 2)); [|lia]. intros n En. apply (mount_next_range g im n En). }
  { exact Hrd. }
  split; [exact W1|]. split; [exact W2|].
  assert (forall a, ~ in_fsi g a -> img_get (img_write im (fsi_off g) sector) a = img_get im a) as Hout.
  { intros a Ha. apply img_write_outside. unfold in_fsi in Ha. change (length sector) with 512%nat. change (N.of_nat 512) with 512. lia. }
  split; [exact Hout|]. split.
  - intros Hwf a Hnw.
    destruct (N.lt_ge_cases a (fsi_off g)) as [Hlo|Hlo]; [apply Hout; unfold in_fsi; lia|].
    destruct (N.lt_ge_cases a (fsi_off g + 512)) as [Hhi|Hhi]; [|apply Hout; unfold in_fsi; lia].
    set (i := N.to_nat (a - fsi_off g)). assert (a = fsi_off g + N.of_nat i) as Ea by (unfold i; lia).
    assert (i < 512)%nat as Hi by (unfold i; lia).
    assert (i < 488 \/ 496 <= i)%nat as Ho by (unfold in_fsi_words in Hnw; unfold i; lia).
    rewrite Ea. rewrite (sector_get _ (fsi_off g) _ Hrd i Hi). rewrite (sector_get im (fsi_off g) _ Hwf i Hi).
    apply fsinfo_bytes_nth_outside. exact Ho.
  - intros Hne Heq. apply Hne. rewrite <- W1. rewrite Heq. reflexivity.
Qed.

(* ================================================================ 6. the premise run_ok is satisfiable: file calls and statistics
   on a handle that satisfies the file layer's invariant are always admissible (C02_image_step keeps VolInv; the status mark and
   a latched count do not disturb it) *)
Lemma marked_frame g marks im1 s a : a <> g_status_off g -> img_get (fst (marked g marks im1 s)) a = img_get im1 a.
Proof.
  intros Ha. unfold marked, vol_set_dirty_flag, vol_mark_dirty. destruct marks; [|reflexivity]. cbn [fst].
  destruct (flags_change s true); [|reflexivity]. apply img_get_set_other. congruence.
Qed.

Lemma vol_inv_transfer g im1 im2 fi fi' h sz l : vgeom_ok g ->
  VolInv g im1 fi h sz l -> bytes_ok im2 -> (forall a, ~ reserved_area g a -> img_get im2 a = img_get im1 a) ->
  fi_inv fstore (val_ft (ft_of g)) (store_of g im1) fi' (g_clusters g) -> VolInv g im2 fi' h sz l.
Proof.
  intros Hok (Hb1 & (Wi & _ & Wd) & I & NB) Hb2 Hsame Hfi.
  set (w := world_of g im1 fi').
  apply (embeds_vol_inv g Hok im2 w h sz l Hb2).
  - constructor; try reflexivity.
    + intros a Ha. cbn [w world_of w_fat store_of fs_img]. symmetry. apply Hsame. intros R. exact (reserved_not_store g a Hok R Ha).
    + intros c Hc. cbn [w world_of w_data]. unfold cluster_bytes. apply img_read_ext. intros i Hi. symmetry. apply Hsame.
      intros R. apply (reserved_not_cluster g c _ R). unfold in_cluster. rewrite N2Nat.id in Hi. lia.
  - split; [exact Wi|]. split; [exact Hfi|exact Wd].
  - apply (FileInv_frame fstore (val_ft (ft_of g)) (g_cluster_size g) (g_clusters g) (world_of g im1 fi) w h sz l I). intros x _. reflexivity.
  - exact NB.
Qed.

Definition fs_call (c : v32call) : Prop := match c with CStats => True | CFile o => op_ok o | _ => False end.

Theorem run_ok_file_stats g (HV : Vol32 g) im0 fi0 b (Hn0 : forall n, fi_next fi0 = Some n -> 2 <= n <= g_clusters g + 2) :
  forall cs computed st sz l, SInv g im0 fi0 b computed st -> VolInv g (v_im st) (v_fi st) (v_h st) sz l ->
  Forall fs_call cs -> run_ok g st cs.
Proof.
  pose proof (v32_ok g HV) as Hok. pose proof (status_off_32 g (v32_bits g HV)) as E65.
  induction cs as [|c r IH]; intros computed st sz l S V Hf; [exact I|].
  inversion Hf as [|? ? Hc Hf']; subst. cbn [run_ok].
  destruct c as [| | |o]; cbn [fs_call] in Hc; try contradiction.
  - split; [exact I|].
    destruct (stats_step g HV im0 fi0 b computed st S) as (fi' & E & S').
    assert (fst (v32_step g st CStats) = {| v_im := v_im st; v_fi := fi'; v_h := v_h st; v_s := v_s st |}) as Est
      by (unfold v32_step; rewrite E; reflexivity).
    rewrite Est. apply (IH true _ sz l S'); [|exact Hf']. cbn [v_im v_fi v_h].
    apply (vol_inv_transfer g (v_im st) (v_im st) (v_fi st) fi' _ _ _ Hok V (si_bytes _ _ _ _ _ _ S) (fun a _ => eq_refl)).
    exact (si_fi _ _ _ _ _ _ S').
  - assert (call_ok g st (CFile o)) as Hco by (split; [exact Hc|exists sz, l; exact V]).
    split; [exact Hco|].
    pose proof (v32_step_inv g HV im0 fi0 b Hn0 computed st (CFile o) S Hco) as S1.
    destruct st as [im fi h s]. cbn [v_im v_fi v_h v_s] in *.
    destruct (vol_step_refines g Hok im fi h sz l o Hc V) as (im1 & fi1 & h1 & r1 & sz' & l' & E & V1 & _).
    assert (fst (v32_step g {| v_im := im; v_fi := fi; v_h := h; v_s := s |} (CFile o)) =
            {| v_im := fst (marked g (step_marks (g_cluster_size g) h o r1) im1 s); v_fi := fi1; v_h := h1;
               v_s := snd (marked g (step_marks (g_cluster_size g) h o r1) im1 s) |}) as Est.
    { unfold v32_step, vols_step. cbn [v_im v_fi v_h v_s]. rewrite E. cbn [snd].
      destruct (marked g (step_marks (g_cluster_size g) h o r1) im1 s). reflexivity. }
    rewrite Est in S1 |- *. apply (IH _ _ sz' l' S1); [|exact Hf']. cbn [v_im v_fi v_h].
    apply (vol_inv_transfer g im1 _ fi1 fi1 _ _ _ Hok V1 (si_bytes _ _ _ _ _ _ S1)).
    + intros a Ha. apply marked_frame. rewrite E65. intros ->. apply Ha. exact (status_reserved g HV).
    + destruct V1 as (_ & (_ & Hf1 & _) & _). exact Hf1.
Qed.

(* the whole premise of the session theorems from checkable facts: mount succeeded, the geometry passes vol32b, the mount is
   coherent; then every list of file calls and statistics on the fresh handle is admissible *)
Theorem session_premises strict im fi s cs :
  let g := parse_geom im in
  bytes_ok im -> Vol32 g -> vol32_mount strict im = Ok (fi, s) -> mount_coherent g im -> Forall fs_call cs ->
  run_ok g {| v_im := im; v_fi := fi; v_h := fresh_handle; v_s := s |} cs.
Proof.
  cbv zeta. intros Hb HV Hm Hco Hf. set (g := parse_geom im) in *.
  destruct (mount_sinv strict im fi s fresh_handle Hb HV Hm Hco) as (Efi & _ & _ & S0). fold g in Efi, S0.
  assert (forall n, fi_next fi = Some n -> 2 <= n <= g_clusters g + 2) as Hn0.
  { intros n E. rewrite Efi in E. cbn [mount_latch fi_next] in E. exact (mount_next_range g im n E). }
  apply (run_ok_file_stats g HV im fi (img_get im 65) Hn0 cs false _ 0 [] S0); [|exact Hf].
  cbn [v_im v_fi v_h]. apply (vol_inv_empty g (v32_ok g HV) im fi Hb). exact (si_fi _ _ _ _ _ _ S0).
Qed.

(* ================================================================ 7. statements in the form pinned in Props/ *)
(* the general session theorem with its record of facts spelled out *)
Theorem vol32_session_fsinfo_any strict im cs fi s h :
  let g := parse_geom im in
  bytes_ok im -> Vol32 g -> vol32_mount strict im = Ok (fi, s) -> mount_coherent g im ->
  let st0 := {| v_im := im; v_fi := fi; v_h := h; v_s := s |} in
  run_ok g st0 cs ->
  let stL := fst (v32_run g st0 cs) in
  let imL := v_im stL in let fiL := v_fi stL in
  let im' := fst (fst (vol32_unmount g imL fiL (v_s stL))) in
  parse_geom im' = g /\ img_get im' 65 = img_get im 65 /\ sigs_ok g im' /\ bytes_ok im' /\
  (fsi_free_word g im' = count_free g im' \/ fsi_free_word g im' = UNKNOWN32 \/
   (fsi_free_word g im' = fsi_free_word g im /\ mount_free g im = None /\ fi_dirty fiL = false)) /\
  (fi_dirty fiL = true ->
     fsi_free_word g im' = match fi_free fiL with Some _ => count_free g im' | None => UNKNOWN32 end) /\
  (fi_free fiL = None <-> (mount_free g im = None /\ existsb is_stats cs = false)) /\
  (fi_dirty fiL = false ->
     fsi_free_word g im' = fsi_free_word g im /\ fsi_next_word g im' = fsi_next_word g im /\ fiL = mount_latch g im) /\
  (fsi_next_word g im' = UNKNOWN32 \/ 2 <= fsi_next_word g im' < g_clusters g + 2 \/ fsi_next_word g im' = fsi_next_word g im) /\
  (forall a, a <> 65 -> ~ in_fsi g a -> img_get im' a = img_get imL a) /\
  (fi_dirty fiL = false -> forall a, a <> 65 -> img_get im' a = img_get imL a) /\
  (sector_wf g im -> forall a, a <> 65 -> ~ in_fsi_words g a -> img_get im' a = img_get imL a) /\
  (forall a, in_fsi g a -> img_get imL a = img_get im a) /\
  count_free g im' = count_free g imL.
Proof.
  cbv zeta. intros Hb HV Hm Hco Hr.
  destruct (vol32_session_fsinfo strict im cs fi s h Hb HV Hm Hco Hr) as [F1 F2 F3 F4 F5 F6 F6' F7 F8 F9 F10 F11 F12 F13].
  repeat (split; [assumption|]). assumption.
Qed.

(* C13 (a) in terms of the two classes *)
Theorem vol32_read_only_no_write strict im cs fi s h :
  let g := parse_geom im in
  bytes_ok im -> g_bits g = 32 -> vol32_mount strict im = Ok (fi, s) ->
  lacks_count (fsi_free_word g im) (g_clusters g) = false ->
  d16_class (img_get im 65) (fsi_free_word g im) (g_clusters g) = false ->
  forallb read_only_call cs = true ->
  let stL := fst (v32_run g {| v_im := im; v_fi := fi; v_h := h; v_s := s |} cs) in
  vol32_unmount_writes g (v_fi stL) (v_s stL) = [] /\
  fst (fst (vol32_unmount g (v_im stL) (v_fi stL) (v_s stL))) = im /\ v_im stL = im.
Proof.
  cbv zeta. intros Hb H32 Hm Hl Hd Hro.
  destruct (vol32_mount_facts strict im fi s Hb H32 Hm) as (_ & _ & Efi & _ & _ & _ & _ & _ & Hmax). cbv zeta in Efi, Hmax.
  assert (fi_free fi <> None) as Hk.
  { rewrite Efi. cbn [fi_free]. intros E. apply (mount_free_classes (parse_geom im) im) in E; [|unfold UNKNOWN32; lia].
    destruct E as [E|E]; congruence. }
  destruct (vol32_read_only_writes_nothing strict im cs fi s h Hm Hk Hro) as (A1 & A2 & A3 & A4 & A5). cbv zeta in *.
  split; [exact A4|]. split; [rewrite A5; reflexivity|exact A1].
Qed.
