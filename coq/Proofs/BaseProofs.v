(* BaseProofs.v: arithmetic facts shared by the codec proofs. *)
From Coq Require Import NArith Lia List.
From FatVerif Require Import Model.Base.
Open Scope N_scope.

Lemma land_mul_pow2_small a b k : b < 2 ^ k -> N.land (a * 2 ^ k) b = 0.
Proof.
  intros Hb. apply N.bits_inj_0. intro n. rewrite N.land_spec.
  destruct (N.lt_ge_cases n k) as [Hn|Hn].
  - rewrite N.mul_pow2_bits_low by assumption. reflexivity.
  - assert (N.testbit b n = false) as ->; [|apply Bool.andb_false_r].
    destruct (N.eq_dec b 0) as [->|Hnz]; [apply N.bits_0|].
    apply N.bits_above_log2. apply N.lt_le_trans with k; [|assumption].
    apply N.log2_lt_pow2; lia.
Qed.

Lemma lor_mul_pow2_add a b k : b < 2 ^ k -> N.lor (a * 2 ^ k) b = a * 2 ^ k + b.
Proof.
  intros Hb. pose proof (land_mul_pow2_small a b k Hb) as H0.
  rewrite (N.add_nocarry_lxor _ _ H0). symmetry. apply N.lxor_lor. exact H0.
Qed.

Lemma lor_mul_512_add a b : b < 512 -> N.lor (a * 512) b = a * 512 + b.
Proof. change 512 with (2 ^ 9). apply lor_mul_pow2_add. Qed.
Lemma lor_mul_32_add a b : b < 32 -> N.lor (a * 32) b = a * 32 + b.
Proof. change 32 with (2 ^ 5). apply lor_mul_pow2_add. Qed.
Lemma lor_mul_2048_add a b : b < 2048 -> N.lor (a * 2048) b = a * 2048 + b.
Proof. change 2048 with (2 ^ 11). apply lor_mul_pow2_add. Qed.
Lemma lor_mul_16_add a b : b < 16 -> N.lor (a * 16) b = a * 16 + b.
Proof. change 16 with (2 ^ 4). apply lor_mul_pow2_add. Qed.
Lemma lor_mul_256_add a b : b < 256 -> N.lor (a * 256) b = a * 256 + b.
Proof. change 256 with (2 ^ 8). apply lor_mul_pow2_add. Qed.
Lemma lor_mul_4096_add a b : b < 4096 -> N.lor (a * 4096) b = a * 4096 + b.
Proof. change 4096 with (2 ^ 12). apply lor_mul_pow2_add. Qed.
Lemma lor_mul_65536_add a b : b < 65536 -> N.lor (a * 65536) b = a * 65536 + b.
Proof. change 65536 with (2 ^ 16). apply lor_mul_pow2_add. Qed.
