(* VolStatusExamples.v: the dirty bit on the 64-sector FAT12 volume of Proofs/VolSessionExamples.v, mounted with status byte 0x00
   (as formatted) and with 0x84 (reserved bits 2 and 7 set by someone else: the D11 witness): create_file "a.txt" ; three writes ;
   flush ; remove ; unmount - the status byte after every call, and the final image against the unmounted pipeline. *)
From Coq Require Import NArith ZArith List Lia Bool.
From FatVerif Require Import Model.Base Model.Str Model.Time Model.Table Model.Fat Model.FileM Model.Name Model.DirSlots Model.Flags
  Model.VolDir Model.VolFile Model.VolSession Model.VolRemove Model.VolStatus Spec.Image Spec.Abs Spec.ByteFile
  Proofs.VolDirProofs Proofs.VolDirFormat Proofs.VolSessionExamples Proofs.VolRemoveExamples Proofs.VolStatusProofs.
From FatVerif Require Spec.Wf.
Import ListNotations.
Open Scope N_scope.

Definition ex_g : geom := parse_geom ex_vol_im.

(* mount ; create ; calls ; flush ; remove ; unmount - the status byte after each stage and the final image *)
Definition ex_status_trace (im0 : image) : option (list N * image) :=
  let s0 := vol_mount_status ex_g im0 in
  match sesss_create ex_U ex_O im0 ex_sfi s0 ex_sname ex_vol_now with
  | Some (st1, s1) =>
    let '(st2, s2, _) := sesss_run ex_g false st1 s1 ex_sops in
    let '(st3, s3) := sesss_flush ex_g st2 s2 in
    match vols_remove_file_root ex_U ex_O (s_im st3) (s_fi st3) s3 ex_sname with
    | Some (_, im4, _, s4) =>
      let '(im5, _) := vol_unmount ex_g im4 s4 in
      Some ([img_get im0 37; img_get (s_im st1) 37; img_get (s_im st2) 37; img_get (s_im st3) 37; img_get im4 37; img_get im5 37], im5)
    | None => None
    end
  | None => None
  end.

(* the same pipeline without the status byte (Model/VolSession.v, Model/VolRemove.v) *)
Definition ex_plain (im0 : image) : option image :=
  match vol_session ex_U ex_O false im0 ex_sfi ex_sname ex_vol_now ex_sops with
  | Some (st, _) => match vol_remove_file_root ex_U ex_O (s_im st) (s_fi st) ex_sname with Some (_, im', _) => Some im' | None => None end
  | None => None
  end.

(* the two sparse maps hold the same bytes at the same offsets, and the fill byte is the same: the same device content *)
Definition img_eqb (a b : image) : bool :=
  FMapPositive.PositiveMap.equal N.eqb (img_map a) (img_map b) && (img_fill a =? img_fill b).

Example ex_status_clean_mount :
  match ex_status_trace ex_vol_im, ex_plain ex_vol_im with
  | Some (bytes, im5), Some im' => bytes = [0; 1; 1; 1; 1; 0] /\ img_eqb im5 im' = true
  | _, _ => False
  end.
Proof. vm_compute. split; reflexivity. Qed.

Example ex_status_reserved_bits :
  match ex_status_trace (img_set ex_vol_im 37 132), ex_plain (img_set ex_vol_im 37 132) with
  | Some (bytes, im5), Some im' => bytes = [132; 133; 133; 133; 133; 132] /\ img_eqb im5 im' = true
  | _, _ => False
  end.
Proof. vm_compute. split; reflexivity. Qed.

(* a volume mounted dirty (0x01): nothing is ever written to the status byte, unmount leaves it dirty *)
Example ex_status_dirty_mount :
  match ex_status_trace (img_set ex_vol_im 37 1) with
  | Some (bytes, _) => bytes = [1; 1; 1; 1; 1; 1]
  | None => False
  end.
Proof. vm_compute. reflexivity. Qed.

(* a read-only session and a refused create: not a single byte of the image differs, the latch is the mount latch *)
Example ex_status_read_only :
  let s0 := vol_mount_status ex_g ex_rm_im in
  (let '(r, im1, s1) := vols_create_empty_file_root ex_U ex_O ex_rm_im s0 ex_sname ex_vol_now in
   r = Ok None /\ img_eqb im1 ex_rm_im = true /\ s1 = s0) /\
  (match sess_open ex_g ex_rm_im 2 with
   | Some (h, _) =>
     let '((im1, _, _), s1, rs) := vols_run ex_g (ex_rm_im, ex_rm_fi, h) s0 [FRead 600; FSeek (FromStart 3); FRead 5; FSeek (FromEnd 0%Z)] in
     im1 = ex_rm_im /\ s1 = s0 /\ rs = [RBytes (repeat 7 509 ++ [1; 2; 3]); RPos 3; RBytes [7; 7; 7; 7; 7]; RPos 515]
   | None => False
   end).
Proof. vm_compute. repeat split. Qed.

(* the premises of the theorems: StatInv after mounting, the geometry, BPB_FATSz16 <> 0 *)
Example ex_status_hyps :
  fixed_root_geom ex_g /\ fatsz16_set ex_vol_im /\ StatInv ex_g ex_vol_im (vol_mount_status ex_g ex_vol_im) /\
  fatsz16_set ex_rm_im /\ StatInv ex_g ex_rm_im (vol_mount_status ex_g ex_rm_im).
Proof.
  destruct ex_vol_premises as (bs & _ & _ & _ & Hg & _).
  split; [exact Hg|]. split; [vm_compute; discriminate|]. split; [apply mount_stat_inv; vm_compute; reflexivity|].
  split; [vm_compute; discriminate|apply mount_stat_inv; vm_compute; reflexivity].
Qed.
