(* VolSessionExamples.v: the session theorems on a concrete image - the 64-sector FAT12 volume of Props/C06.v /
   Proofs/VolDirFormat.v (ex_vol_request: 16 root entries, label "ABCDEFGHIJK" in slot 0, two FAT copies at 512 and 1024,
   root region 1536..2047, data area at 2048, 512-byte clusters, 60 clusters, device fill byte 0xD1).
   "a.txt" is created (long-name slot 1, short slot 2 at device offset 1600), 515 bytes are written in three calls so that
   the six bytes [1..6] straddle clusters 2 and 3 (the history of Proofs/VolFileExamples.v), under a clock that advances;
   then the file is flushed. *)
From Coq Require Import NArith ZArith List Lia Bool.
From FatVerif Require Import Model.Base Model.Str Model.Time Model.Table Model.Format Model.FormatImage Model.Fat Model.FileM
  Model.Name Model.VolDir Model.VolFile Model.VolSession Spec.Image Spec.Abs Spec.ByteFile
  Proofs.TableProofs Proofs.FatProofs Proofs.FileProofs Proofs.VolDirProofs Proofs.VolDirFormat Proofs.VolFileProofs
  Proofs.VolSessionProofs.
From FatVerif Require Spec.Wf Proofs.TimeProofs.
Import ListNotations.
Open Scope N_scope.

Definition ex_sname : str := [97; 46; 116; 120; 116].                               (* "a.txt" *)
Definition ex_sfi : fsinfo := {| fi_free := None; fi_next := None; fi_dirty := false |}.   (* a FAT12/16 mount *)
Definition ex_clock2 : datetime := {| dt_date := {| year := 2024; month := 3; day := 1 |};
                                      dt_time := {| hour := 10; min := 0; sec := 7; millis := 500 |} |}.
Definition ex_sops : list (fop * datetime) :=
  [(FWrite (repeat 7 509), ex_vol_now); (FWrite [1; 2; 3; 4; 5; 6], ex_clock2); (FWrite [4; 5; 6], ex_clock2)].

Definition ex_U := upper_ascii.
Definition ex_O := oem_decode_lossy.

(* the hypotheses of session_flush_decodes / format_session_decodes hold *)
Example ex_session_hyps :
  let g := parse_geom ex_vol_im in
  fixed_root_geom g /\ FatProofs.bytes_ok ex_vol_im /\
  fi_inv fstore (val_ft (ft_of g)) (store_of g ex_vol_im) ex_sfi (g_clusters g) /\
  v_root_issues (abs ex_vol_im) = [] /\ forallb node_intact (v_root (abs ex_vol_im)) = true /\
  TimeProofs.datetime_valid ex_vol_now = true /\ Forall op_ok (map fst ex_sops) /\ clocks_ok ex_sops /\
  fst (vol_create_empty_file_root ex_U ex_O ex_vol_im ex_sname ex_vol_now) = Ok (Some (1, 3)).
Proof.
  cbv zeta. destruct ex_vol_premises as (bs & _ & _ & _ & Hg & Hnow).
  split; [exact Hg|]. split; [apply bytes_ok_check; vm_compute; reflexivity|]. split; [split; exact I|].
  split; [vm_compute; reflexivity|]. split; [vm_compute; reflexivity|]. split; [exact Hnow|].
  split.
  { repeat constructor; intros b Hb; cbn [In] in Hb; try (apply repeat_spec in Hb; subst b; reflexivity);
      repeat (destruct Hb as [<-|Hb]; [reflexivity|]); destruct Hb. }
  split; [repeat constructor|]. vm_compute. reflexivity.
Qed.

(* AFTER the flush: one root node, the file with its 515 bytes; entry: size 515, first cluster 2, chain 2 -> 3, modification
   stamp of the clock of the last write (2024-03-01 10:00:07 -> time word 10*2048 + 0*32 + 3, date word 44*512 + 3*32 + 1),
   creation stamp of the create; no issue of any kind; 58 of 60 clusters free; the short slot on the device (offset 1600):
   cluster field 02 00, size 03 02 00 00 *)
Example ex_session_flush :
  match vol_session ex_U ex_O false ex_vol_im ex_sfi ex_sname ex_vol_now ex_sops with
  | Some (st, rs) =>
    rs = [RCount 509; RCount 3; RCount 3] /\
    bf_run ([], 0) (map fst ex_sops) rs = Some (repeat 7 509 ++ [1; 2; 3; 4; 5; 6], 515) /\
    (exists e, v_root (abs (s_im st)) = [NFile e (Some [2; 3]) (repeat 7 509 ++ [1; 2; 3; 4; 5; 6])] /\
               e_lfn e = ex_sname /\ e_sfn e = [65; 32; 32; 32; 32; 32; 32; 32; 84; 88; 84] /\
               e_size e = 515 /\ e_cluster e = 2 /\ e_first_slot e = 1 /\ e_sfn_slot e = 2 /\
               e_mtime e = 20483 /\ e_mdate e = 22625 /\ e_cdate e = 22621) /\
    v_root_issues (abs (s_im st)) = [] /\ v_labels (abs (s_im st)) = [[65; 66; 67; 68; 69; 70; 71; 72; 73; 74; 75]] /\
    Wf.wf_issues (fun l => l) (s_im st) = [] /\ count_free (parse_geom ex_vol_im) (s_im st) = 58 /\
    img_read (s_im st) (1600 + 26) 6 = [2; 0; 3; 2; 0; 0] /\
    img_read (s_im st) (512 + 3) 3 = [3; 240; 255] /\ img_read (s_im st) (2048 + 509) 6 = [1; 2; 3; 4; 5; 6] /\
    sess_dirty (s_h st) (s_en st) = false
  | None => False
  end.
Proof. vm_compute. repeat (split; [reflexivity|]). split; [|repeat (split; [reflexivity|]); reflexivity].
  eexists. repeat (split; [reflexivity|]). reflexivity.
Qed.

(* BEFORE the flush (the same calls, the handle still open and dirty): the device shows an EMPTY file - size 0, no first
   cluster - and the two clusters the handle has allocated are LOST: the witness of the finding class
   "deferred-entry-writeback" *)
Example ex_session_unflushed :
  match sess_create ex_U ex_O ex_vol_im ex_sfi ex_sname ex_vol_now with
  | Some st1 =>
    let '(st2, rs) := sess_run (parse_geom ex_vol_im) false st1 ex_sops in
    h_size (s_h st2) = Some 515 /\ h_first (s_h st2) = Some 2 /\ sess_dirty (s_h st2) (s_en st2) = true /\
    (exists e, v_root (abs (s_im st2)) = [NFile e None []] /\ e_lfn e = ex_sname /\ e_size e = 0 /\ e_cluster e = 0) /\
    Wf.wf_issues (fun l => l) (s_im st2) = [Wf.WLost 2; Wf.WLost 3] /\
    count_free (parse_geom ex_vol_im) (s_im st2) = 58
  | None => False
  end.
Proof. vm_compute. repeat (split; [reflexivity|]). split; [|split; reflexivity].
  eexists. repeat (split; [reflexivity|]). reflexivity.
Qed.
