(* Vol32RootExamples.v: the FAT32 root theorems (Proofs/Vol32RootProofs.v, Vol32RootFormat.v) on a concrete FAT32 volume: the
   image Model/FormatImage.v produces for 66100 sectors of 512 bytes, 512-byte clusters (16 slots), one FAT, on a device filled
   with 0xD1 (Proofs/FormatImageExamples.ex_img32_request: 65579 clusters, FAT at 4096, root cluster 2 at 266752).
   Everything is evaluated on the sparse image representation (Spec/Image.v: a map of the bytes that differ from the fill
   byte), by vm_compute; each computed fact is its own lemma. *)
From Coq Require Import NArith List Bool Lia.
From FatVerif Require Import Model.Base Model.Str Model.Slot Model.Time Model.Name Model.DirSlots Model.Format Model.FormatImage
  Model.VolDir Model.VolChainDir Model.FileM Model.VolSession Model.Vol32Root Spec.Image Spec.Abs Spec.FormatSpec
  Proofs.FatProofs Proofs.FormatImageExamples Proofs.VolDirProofs Proofs.VolDirFormat Proofs.VolChainDirProofs
  Proofs.VolChainGrowExamples Proofs.Vol32RootProofs Proofs.Vol32RootFormat.
From FatVerif Require Spec.Wf Proofs.TimeProofs.
Import ListNotations.
Open Scope N_scope.

Definition res_img32 (r : res image) : image := match r with Ok im => im | _ => img_empty 0 end.
Definition ex32r_im : image := res_img32 (format_image ex_img32_request 66100 (img_empty 209)).

Definition opt_img {A} (r : option (res A * image)) : image := match r with Some (_, im) => im | None => img_empty 0 end.
Definition opt_res {A} (r : option (res A * image)) : option (res A) := match r with Some (x, _) => Some x | None => None end.

(* "hello world.txt" (2 long-name slots + 1), "A.TXT" (1 slot), the respelling "Hello World.TXT" *)
Definition ex32_name1 : str := ex_vol_name1.
Definition ex32_name2 : str := [65; 46; 84; 88; 84].
Definition ex32_name3 : str := [72; 101; 108; 108; 111; 32; 87; 111; 114; 108; 100; 46; 84; 88; 84].

Definition ex32r_im1 : image := opt_img (vol32_root_create upper_ascii oem_decode_lossy ex32r_im ex32_name1 ex_vol_now).
Definition ex32r_im2 : image := opt_img (vol32_root_create upper_ascii oem_decode_lossy ex32r_im1 ex32_name2 ex_vol_now).
Definition ex32r_im3 : image := opt_img (vol32_root_rename upper_ascii oem_decode_lossy ex32r_im2 ex32_name1 ex32_name3).
Definition ex32r_im4 : image := opt_img (vol32_root_remove upper_ascii oem_decode_lossy ex32r_im3 ex32_name2).

(* ---------------------------------------------------------------- the premises hold *)
Lemma ex32r_geom : fat32_geom (parse_geom ex32r_im).
Proof. constructor; vm_compute; first [reflexivity | discriminate]. Qed.

Lemma ex32r_chain : root32_chain ex32r_im = Some [2].
Proof. vm_compute. reflexivity. Qed.

Lemma ex32r_scan : dir_scan (chain_dir_slots (parse_geom ex32r_im) ex32r_im [2]) 0 [] true = ([], [], []).
Proof. vm_compute. reflexivity. Qed.

Lemma ex32r_small : chain_small (parse_geom ex32r_im) [2].
Proof. vm_compute. reflexivity. Qed.

Lemma ex32r_ok : root32_ok ex32r_im [2] [] [].
Proof.
  constructor; [exact ex32r_geom|exact ex32r_chain|constructor; [intros []|constructor]|exact ex32r_small|exact ex32r_scan].
Qed.

Lemma ex32r_root_empty : v_root (abs ex32r_im) = [].
Proof. vm_compute. reflexivity. Qed.

(* ---------------------------------------------------------------- the calls *)
Lemma ex32r_create1 : opt_res (vol32_root_create upper_ascii oem_decode_lossy ex32r_im ex32_name1 ex_vol_now) = Some (Ok (Some (0, 3))).
Proof. vm_compute. reflexivity. Qed.
Lemma ex32r_create2 : opt_res (vol32_root_create upper_ascii oem_decode_lossy ex32r_im1 ex32_name2 ex_vol_now) = Some (Ok (Some (3, 5))).
Proof. vm_compute. reflexivity. Qed.
Lemma ex32r_create2_again : opt_res (vol32_root_create upper_ascii oem_decode_lossy ex32r_im2 ex32_name2 ex_vol_now) = Some (Ok None).
Proof. vm_compute. reflexivity. Qed.
Lemma ex32r_rename : opt_res (vol32_root_rename upper_ascii oem_decode_lossy ex32r_im2 ex32_name1 ex32_name3) = Some (Ok tt).
Proof. vm_compute. reflexivity. Qed.
Lemma ex32r_remove : opt_res (vol32_root_remove upper_ascii oem_decode_lossy ex32r_im3 ex32_name2) = Some (Ok tt).
Proof. vm_compute. reflexivity. Qed.
Lemma ex32r_remove_missing : opt_res (vol32_root_remove upper_ascii oem_decode_lossy ex32r_im4 ex32_name2) = Some (Err ENotFound).
Proof. vm_compute. reflexivity. Qed.

(* what the independent decoder sees after each call: long names of the root's nodes, all plain files without chain *)
Definition root_view (im : image) : list (list N * N * N) :=
  map (fun n => match n with NFile e None [] => (e_lfn e, e_cluster e, e_size e) | _ => ([], 1, 1) end) (v_root (abs im)).

Lemma ex32r_view1 : root_view ex32r_im1 = [(utf16_encode ex32_name1, 0, 0)] /\ Wf.wf_issues (fun l => l) ex32r_im1 = [].
Proof. vm_compute. split; reflexivity. Qed.
Lemma ex32r_view2 : root_view ex32r_im2 = [(utf16_encode ex32_name1, 0, 0); (utf16_encode ex32_name2, 0, 0)] /\ Wf.wf_issues (fun l => l) ex32r_im2 = [].
Proof. vm_compute. split; reflexivity. Qed.
(* the renamed entry takes the first free run: the three slots of the source are deleted AFTER the new run was written,
   so the new run lies behind "A.TXT" *)
Lemma ex32r_view3 : root_view ex32r_im3 = [(utf16_encode ex32_name2, 0, 0); (utf16_encode ex32_name3, 0, 0)] /\ Wf.wf_issues (fun l => l) ex32r_im3 = [].
Proof. vm_compute. split; reflexivity. Qed.
Lemma ex32r_view4 : root_view ex32r_im4 = [(utf16_encode ex32_name3, 0, 0)] /\ Wf.wf_issues (fun l => l) ex32r_im4 = [] /\
  count_free (parse_geom ex32r_im) ex32r_im4 = 65578 /\ v_root_chain (abs ex32r_im4) = Some [2].
Proof. vm_compute. repeat split; reflexivity. Qed.

(* a root that is full: 16 slots, five 3-slot entries take 15, the next 3-slot entry would make the root grow: outside this
   model (None), Model/VolChainGrow.v *)
Definition ex32_name_k (k : N) : str := [110; 97; 109; 101; 32; 48 + k; 32; 108; 111; 110; 103; 46; 116; 120; 116].  (* "name k long.txt" *)
Definition ex32r_full : image :=
  res_img32 (match vol32_root_create_many upper_ascii oem_decode_lossy ex32r_im
                     (map (fun k => (ex32_name_k k, ex_vol_now)) [0; 1; 2; 3; 4]) with Some im => Ok im | None => Err EInvalidInput end).
Lemma ex32r_full_many : length (v_root (abs ex32r_full)) = 5%nat /\ Wf.wf_issues (fun l => l) ex32r_full = [].
Proof. vm_compute. split; reflexivity. Qed.
Lemma ex32r_full_declines : vol32_root_create upper_ascii oem_decode_lossy ex32r_full (ex32_name_k 5) ex_vol_now = None.
Proof. vm_compute. reflexivity. Qed.

(* ---------------------------------------------------------------- the entry write-back: BOTH first-cluster words
   "hello world.txt" of ex32r_im1 (short slot 2) gets the chain [65540] (FAT entry 65540 := end of chain, written by hand at
   4096 + 4 * 65540; 65540 = 0x10004 needs the high word) and size 5 through the write-back of its handle; then the file is
   truncated to nothing (first cluster None, size 0: the FAT entry freed by hand) and written back again. *)
Definition ex32_handle (fc : option N) (sz : N) : fhandle :=
  {| h_first := fc; h_cur := None; h_off := 0; h_entry := Some {| ed_first := fc; ed_size := Some sz; FileM.ed_dirty := true |} |}.
Definition opt_im (r : option image) : image := match r with Some im => im | None => img_empty 0 end.
Definition ex32r_hi0 : image := img_write ex32r_im1 (4096 + 4 * 65540) [255; 255; 255; 15].
Definition ex32r_hi1 : image := opt_im (vol32_root_flush_entry ex32r_hi0 2 (ex32_handle (Some 65540) 5)).
Definition ex32r_hi2 : image :=
  opt_im (vol32_root_flush_entry (img_write ex32r_hi1 (4096 + 4 * 65540) [0; 0; 0; 0]) 2 (ex32_handle None 0)).
Definition slot_words (im : image) : list N * list N * list N :=
  (img_read im (266752 + 64 + 20) 2, img_read im (266752 + 64 + 26) 2, img_read im (266752 + 64 + 28) 4).
Definition root_nodes_view (im : image) : list (N * N * option (list N) * list N) :=
  map (fun n => match n with NFile e ch ct => (e_cluster e, e_size e, ch, ct) | _ => (0, 0, None, []) end) (v_root (abs im)).

Lemma ex32r_hi_before : slot_words ex32r_hi0 = ([0; 0], [0; 0], [0; 0; 0; 0]).
Proof. vm_compute. reflexivity. Qed.
(* a first cluster >= 0x10000: high word 1, low word 4; the decoder follows the chain [65540] and reads 5 bytes of it *)
Lemma ex32r_hi_set : slot_words ex32r_hi1 = ([1; 0], [4; 0], [5; 0; 0; 0]) /\ root_nodes_view ex32r_hi1 = [(65540, 5, Some [65540], [209; 209; 209; 209; 209])] /\ Wf.wf_issues (fun l => l) ex32r_hi1 = [].
Proof. vm_compute. repeat split; reflexivity. Qed.
(* clearing the first cluster clears the HIGH word too: both words zero, the decoder sees an empty file without chain *)
Lemma ex32r_hi_cleared : slot_words ex32r_hi2 = ([0; 0], [0; 0], [0; 0; 0; 0]) /\ root_nodes_view ex32r_hi2 = [(0, 0, None, [])] /\ Wf.wf_issues (fun l => l) ex32r_hi2 = [].
Proof. vm_compute. repeat split; reflexivity. Qed.
(* what a write-back that left the high word alone would produce (the seeded regressions): the decoder reads first cluster
   0x10000 for a file of size 0 - a well-formedness issue *)
Lemma ex32r_hi_stale : let bad := img_write ex32r_hi2 (266752 + 64 + 20) [1; 0] in
  map (fun x => fst (fst (fst x))) (root_nodes_view bad) = [65536] /\ Wf.wf_issues (fun l => l) bad <> [].
Proof. vm_compute. split; [reflexivity|discriminate]. Qed.
