(* placeholder *)
