(* TableProofs.v: specifications of the cluster-chain logic (C05, C10, C20, C09) over any FAT store that
   satisfies the get/set laws.  The byte-level stores of Model/Fat.v are shown to satisfy these laws in
   Proofs/FatProofs.v. *)
From Coq Require Import NArith ZArith Lia List Bool.
From FatVerif Require Import Model.Base Model.Table.
Open Scope N_scope.

Lemma to_nat_succ_sub a b : a < b -> N.to_nat (b - a) = S (N.to_nat (b - (a + 1))).
Proof. intros H. lia. Qed.

Section Laws.
Variable T : Type.
Variable get : T -> N -> res fatv.
Variable set : T -> N -> fatv -> res T.
Variable val : T -> N -> fatv.            (* what the store holds *)
Variable okc : N -> Prop.                  (* addressable entries *)
Variable okv : fatv -> Prop.               (* storable values *)
Variable inv : T -> Prop.                  (* store invariant kept by [set] (byte-level stores: fixed slice geometry,
                                              every image byte < 256); [fun _ => True] for the pure store *)

(* [val] of an entry outside [okc] is unspecified: for the byte-level stores it decodes bytes beyond the first
   table copy, which a mirrored write does change; hence the [okc c'] premise of the frame clause. *)
Hypothesis get_val : forall t c, inv t -> okc c -> get t c = Ok (val t c).
Hypothesis set_ok : forall t c v, inv t -> okc c -> okv v ->
  exists t', set t c v = Ok t' /\ inv t' /\ val t' c = v /\ forall c', c' <> c -> okc c' -> val t' c' = val t c'.
Hypothesis okv_free : okv Free.
Hypothesis okv_eoc : okv Eoc.

(* ------------------------------------------------------------ find_free *)
Lemma find_free_from_spec t (Hinv : inv t) : forall n c,
  (forall x, c <= x < c + N.of_nat n -> okc x) ->
  match find_free_from T get t c n with
  | Ok r => c <= r < c + N.of_nat n /\ val t r = Free /\ forall x, c <= x < r -> val t x <> Free
  | Err e => e = ENotEnoughSpace /\ forall x, c <= x < c + N.of_nat n -> val t x <> Free
  | Panic => False
  | OutOfFuel => False
  end.
Proof.
  induction n as [|n IH]; intros c Hokr; cbn [find_free_from].
  - split; [reflexivity|]. intros x Hx. lia.
  - rewrite (get_val t c Hinv) by (apply Hokr; lia). cbn [bind].
    assert (forall x, c + 1 <= x < c + 1 + N.of_nat n -> okc x) as Hokr' by (intros x Hx; apply Hokr; lia).
    destruct (val t c) eqn:Ec.
    + split; [lia|]. split; [exact Ec|]. intros x Hx. lia.
    + specialize (IH (c + 1) Hokr'). destruct (find_free_from T get t (c + 1) n) as [r|e| |].
      * destruct IH as (Hr & Hf & Hb). split; [lia|]. split; [exact Hf|].
        intros x Hx. destruct (N.eq_dec x c) as [->|Hne]; [rewrite Ec; discriminate|]. apply Hb. lia.
      * destruct IH as (He & Hb). split; [exact He|]. intros x Hx.
        destruct (N.eq_dec x c) as [->|Hne]; [rewrite Ec; discriminate|]. apply Hb. lia.
      * exact IH. * exact IH.
    + specialize (IH (c + 1) Hokr'). destruct (find_free_from T get t (c + 1) n) as [r|e| |].
      * destruct IH as (Hr & Hf & Hb). split; [lia|]. split; [exact Hf|].
        intros x Hx. destruct (N.eq_dec x c) as [->|Hne]; [rewrite Ec; discriminate|]. apply Hb. lia.
      * destruct IH as (He & Hb). split; [exact He|]. intros x Hx.
        destruct (N.eq_dec x c) as [->|Hne]; [rewrite Ec; discriminate|]. apply Hb. lia.
      * exact IH. * exact IH.
    + specialize (IH (c + 1) Hokr'). destruct (find_free_from T get t (c + 1) n) as [r|e| |].
      * destruct IH as (Hr & Hf & Hb). split; [lia|]. split; [exact Hf|].
        intros x Hx. destruct (N.eq_dec x c) as [->|Hne]; [rewrite Ec; discriminate|]. apply Hb. lia.
      * destruct IH as (He & Hb). split; [exact He|]. intros x Hx.
        destruct (N.eq_dec x c) as [->|Hne]; [rewrite Ec; discriminate|]. apply Hb. lia.
      * exact IH. * exact IH.
Qed.

Lemma find_free_spec t s e : inv t ->
  (forall x, s <= x < e -> okc x) ->
  match find_free T get t s e with
  | Ok r => s <= r < e /\ val t r = Free /\ forall x, s <= x < r -> val t x <> Free
  | Err er => er = ENotEnoughSpace /\ forall x, s <= x < e -> val t x <> Free
  | Panic => False
  | OutOfFuel => False
  end.
Proof.
  intros Hinv Hokr. unfold find_free.
  pose proof (find_free_from_spec t Hinv (N.to_nat (e - s)) s ltac:(intros x Hx; apply Hokr; lia)) as H.
  destruct (find_free_from T get t s (N.to_nat (e - s))) as [r|er| |]; try exact H.
  - destruct H as (Hr & Hf & Hb). split; [lia|]. split; assumption.
  - destruct H as (He & Hb). split; [exact He|]. intros x Hx. apply Hb. lia.
Qed.

(* ------------------------------------------------------------ alloc_cluster *)
Definition hint_ok (hint : option N) : Prop := match hint with Some n => 2 <= n | None => True end.

Lemma alloc_find t hint total : inv t ->
  hint_ok hint -> (forall x, 2 <= x < total + 2 -> okc x) ->
  let end_ := total + 2 in
  let start := match hint with Some n => if n <? end_ then n else 2 | None => 2 end in
  match (match find_free T get t start end_ with
         | Ok n => Ok n
         | Err ENotEnoughSpace => if 2 <? start then find_free T get t 2 start else Err ENotEnoughSpace
         | Err e => Err e
         | Panic => Panic
         | OutOfFuel => OutOfFuel
         end) with
  | Ok c => 2 <= c < total + 2 /\ val t c = Free
  | Err e => e = ENotEnoughSpace /\ forall x, 2 <= x < total + 2 -> val t x <> Free
  | Panic => False
  | OutOfFuel => False
  end.
Proof.
  intros Hinv Hh Hokc end_ start.
  assert (2 <= start /\ (start < end_ \/ start = 2)) as [Hs2 Hse].
  { unfold start, end_. destruct hint as [n|]; [|lia]. cbn [hint_ok] in Hh.
    destruct (n <? total + 2) eqn:E; [apply N.ltb_lt in E; lia|lia]. }
  pose proof (find_free_spec t start end_ Hinv ltac:(intros x Hx; apply Hokc; unfold end_ in *; lia)) as H1.
  destruct (find_free T get t start end_) as [r|e| |]; try exact H1.
  - destruct H1 as (Hr & Hf & _). split; [unfold end_ in *; lia|exact Hf].
  - destruct H1 as (-> & Hb1). destruct (2 <? start) eqn:E.
    + apply N.ltb_lt in E.
      pose proof (find_free_spec t 2 start Hinv ltac:(intros x Hx; apply Hokc; unfold end_ in *; lia)) as H2.
      destruct (find_free T get t 2 start) as [r|e| |]; try exact H2.
      * destruct H2 as (Hr & Hf & _). split; [unfold end_ in *; lia|exact Hf].
      * destruct H2 as (-> & Hb2). split; [reflexivity|]. intros x Hx.
        destruct (N.lt_ge_cases x start); [apply Hb2; lia|apply Hb1; unfold end_; lia].
    + apply N.ltb_ge in E. split; [reflexivity|]. intros x Hx. apply Hb1. unfold end_. lia.
Qed.

(* Success: the returned cluster is a valid data cluster that was free; afterwards it ends a chain, the
   previous cluster (if any) links to it, and no other entry changed. *)
Theorem alloc_ok t prev hint total t' c :
  inv t ->
  hint_ok hint ->
  (forall x, 2 <= x < total + 2 -> okc x) ->
  (match prev with Some p => okc p /\ (forall n, 2 <= n < total + 2 -> okv (Data n)) | None => True end) ->
  alloc_cluster T get set t prev hint total = Ok (t', c) ->
  inv t' /\ 2 <= c < total + 2 /\ val t c = Free /\
  (match prev with
   | Some p => val t' p = Data c /\ (p <> c -> val t' c = Eoc) /\
               forall x, x <> c -> x <> p -> okc x -> val t' x = val t x
   | None => val t' c = Eoc /\ forall x, x <> c -> okc x -> val t' x = val t x
   end).
Proof.
  intros Hinv Hh Hokc Hprev. unfold alloc_cluster, RESERVED_FAT_ENTRIES.
  pose proof (alloc_find t hint total Hinv Hh Hokc) as Hf. cbv zeta in Hf.
  destruct (match find_free T get t _ (total + 2) with Ok n => Ok n | Err ENotEnoughSpace => _ | Err e => Err e
            | Panic => Panic | OutOfFuel => OutOfFuel end) as [c0|e| |]; cbn [bind]; try discriminate.
  destruct Hf as (Hc0 & Hfree).
  destruct (set_ok t c0 Eoc Hinv (Hokc c0 Hc0) okv_eoc) as (t1 & Hs1 & Hi1 & Hv1 & Hfr1).
  rewrite Hs1. cbn [bind].
  destruct prev as [p|].
  - destruct Hprev as (Hokp & Hokd).
    destruct (set_ok t1 p (Data c0) Hi1 Hokp (Hokd c0 Hc0)) as (t2 & Hs2 & Hi2 & Hv2 & Hfr2).
    rewrite Hs2. cbn [bind]. intros E. injection E as <- <-.
    split; [exact Hi2|]. split; [exact Hc0|]. split; [exact Hfree|]. split; [exact Hv2|]. split.
    + intros Hne. rewrite Hfr2; [exact Hv1|intro; subst; apply Hne; reflexivity|exact (Hokc c0 Hc0)].
    + intros x Hx1 Hx2 Hxo. rewrite Hfr2; [|exact Hx2|exact Hxo]. apply Hfr1; assumption.
  - cbn [bind]. intros E. injection E as <- <-.
    split; [exact Hi1|]. split; [exact Hc0|]. split; [exact Hfree|]. split; [exact Hv1|exact Hfr1].
Qed.

(* Failure (fault-free store): only NotEnoughSpace, and only when no data cluster is free: the two scans
   [start,end) and [2,start) together cover [2,end). *)
Theorem alloc_err t prev hint total e :
  inv t ->
  hint_ok hint ->
  (forall x, 2 <= x < total + 2 -> okc x) ->
  (match prev with Some p => okc p /\ (forall n, 2 <= n < total + 2 -> okv (Data n)) | None => True end) ->
  alloc_cluster T get set t prev hint total = Err e ->
  e = ENotEnoughSpace /\ forall x, 2 <= x < total + 2 -> val t x <> Free.
Proof.
  intros Hinv Hh Hokc Hprev. unfold alloc_cluster, RESERVED_FAT_ENTRIES.
  pose proof (alloc_find t hint total Hinv Hh Hokc) as Hf. cbv zeta in Hf.
  destruct (match find_free T get t _ (total + 2) with Ok n => Ok n | Err ENotEnoughSpace => _ | Err e => Err e
            | Panic => Panic | OutOfFuel => OutOfFuel end) as [c0|e0| |]; cbn [bind]; try discriminate.
  - destruct Hf as (Hc0 & Hfree).
    destruct (set_ok t c0 Eoc Hinv (Hokc c0 Hc0) okv_eoc) as (t1 & Hs1 & Hi1 & Hv1 & Hfr1).
    rewrite Hs1. cbn [bind]. destruct prev as [p|]; cbn [bind]; [|discriminate].
    destruct Hprev as (Hokp & Hokd).
    destruct (set_ok t1 p (Data c0) Hi1 Hokp (Hokd c0 Hc0)) as (t2 & Hs2 & _).
    rewrite Hs2. cbn [bind]. discriminate.
  - intros E. injection E as <-. exact Hf.
Qed.

Theorem alloc_no_panic t prev hint total :
  inv t ->
  hint_ok hint ->
  (forall x, 2 <= x < total + 2 -> okc x) ->
  (match prev with Some p => okc p /\ (forall n, 2 <= n < total + 2 -> okv (Data n)) | None => True end) ->
  alloc_cluster T get set t prev hint total <> Panic /\ alloc_cluster T get set t prev hint total <> OutOfFuel.
Proof.
  intros Hinv Hh Hokc Hprev. unfold alloc_cluster, RESERVED_FAT_ENTRIES.
  pose proof (alloc_find t hint total Hinv Hh Hokc) as Hf. cbv zeta in Hf.
  destruct (match find_free T get t _ (total + 2) with Ok n => Ok n | Err ENotEnoughSpace => _ | Err e => Err e
            | Panic => Panic | OutOfFuel => OutOfFuel end) as [c0|e0| |]; cbn [bind]; try (split; discriminate); try contradiction.
  destruct Hf as (Hc0 & Hfree).
  destruct (set_ok t c0 Eoc Hinv (Hokc c0 Hc0) okv_eoc) as (t1 & Hs1 & Hi1 & _).
  rewrite Hs1. cbn [bind]. destruct prev as [p|]; cbn [bind]; [|split; discriminate].
  destruct Hprev as (Hokp & Hokd).
  destruct (set_ok t1 p (Data c0) Hi1 Hokp (Hokd c0 Hc0)) as (t2 & Hs2 & _).
  rewrite Hs2. cbn [bind]. split; discriminate.
Qed.


(* ------------------------------------------------------------ chains *)
Inductive chain (t : T) : N -> list N -> Prop :=
| chain_end c : (forall n, val t c <> Data n) -> chain t c [c]
| chain_step c n l : val t c = Data n -> chain t n l -> chain t c (c :: l).

Lemma chain_head t c l : chain t c l -> exists l', l = c :: l'.
Proof. intros H; inversion H; eauto. Qed.

Lemma chain_frame t t' c l : chain t c l -> (forall x, In x l -> val t' x = val t x) -> chain t' c l.
Proof.
  intros H. induction H as [c Hn|c n l Hv Hc IH]; intros Hf.
  - apply chain_end. intros n. rewrite Hf by (left; reflexivity). apply Hn.
  - apply chain_step with n.
    + rewrite Hf by (left; reflexivity). exact Hv.
    + apply IH. intros x Hx. apply Hf. right. exact Hx.
Qed.

Lemma get_next_val t c : inv t -> okc c -> get_next T get t c = Ok (match val t c with Data n => Some n | _ => None end).
Proof. intros Hinv H. unfold get_next. rewrite (get_val t c Hinv H). reflexivity. Qed.

(* ClusterIterator::free releases exactly the clusters of the chain, reports their number, touches nothing else *)
Theorem ci_free_spec : forall l t c fuel,
  inv t -> chain t c l -> NoDup l -> (forall x, In x l -> okc x) -> (length l < fuel)%nat ->
  exists t', ci_free T get set t (ci_new c) fuel = Ok (t', N.of_nat (length l)) /\ inv t' /\
             (forall x, In x l -> val t' x = Free) /\ (forall x, ~ In x l -> okc x -> val t' x = val t x).
Proof.
  induction l as [|a l IH]; intros t c fuel Hinv Hc Hnd Hok Hfuel.
  - inversion Hc.
  - destruct fuel as [|k]; [cbn [length] in Hfuel; lia|].
    assert (c = a) as -> by (inversion Hc; reflexivity).
    unfold ci_new. cbn [ci_free ci_cluster]. unfold ci_next. cbn [ci_err ci_cluster].
    rewrite (get_next_val t a Hinv) by (apply Hok; left; reflexivity).
    inversion Hc as [c0 Hn E1 E2|c0 n l0 Hv Hc' E1 E2]; subst.
    + (* last cluster *)
      assert ((match val t a with Data n => Some n | _ => None end) = None) as ->.
      { destruct (val t a) eqn:E; try reflexivity. exfalso. eapply Hn. reflexivity. }
      destruct (set_ok t a Free Hinv (Hok a (or_introl eq_refl)) okv_free) as (t1 & Hs & Hi1 & Hv1 & Hfr).
      rewrite Hs. cbn [bind]. destruct k as [|k]; [cbn [length] in Hfuel; lia|].
      cbn [ci_free ci_cluster bind]. exists t1. split; [reflexivity|]. split; [exact Hi1|]. split.
      * intros x [<-|[]]. exact Hv1.
      * intros x Hx Hxo. apply Hfr; [|exact Hxo]. intro; subst. apply Hx. left; reflexivity.
    + rewrite Hv.
      destruct (set_ok t a Free Hinv (Hok a (or_introl eq_refl)) okv_free) as (t1 & Hs & Hi1 & Hv1 & Hfr).
      rewrite Hs. cbn [bind].
      inversion Hnd as [|? ? Hnotin Hnd']; subst.
      assert (chain t1 n l) as Hc1.
      { eapply chain_frame; [exact Hc'|]. intros x Hx. apply Hfr; [|apply Hok; right; exact Hx].
        intro; subst. contradiction. }
      destruct (IH t1 n k Hi1 Hc1 Hnd' (fun x Hx => Hok x (or_intror Hx))) as (t2 & Hr & Hi2 & Hall & Hfr2).
      { cbn [length] in Hfuel. lia. }
      unfold ci_new in Hr. rewrite Hr. cbn [bind]. exists t2. split.
      * f_equal. f_equal. cbn [length]. lia.
      * split; [exact Hi2|]. split.
        -- intros x [<-|Hx]; [|apply Hall; exact Hx].
           rewrite Hfr2; [exact Hv1|exact Hnotin|apply Hok; left; reflexivity].
        -- intros x Hx Hxo. rewrite Hfr2; [|intro; apply Hx; right; assumption|exact Hxo].
           apply Hfr; [|exact Hxo]. intro; subst. apply Hx. left; reflexivity.
Qed.

(* ClusterIterator::truncate keeps the first cluster as the new end of the chain and frees the rest *)
Theorem ci_truncate_spec : forall l t c fuel,
  inv t -> chain t c (c :: l) -> NoDup (c :: l) -> (forall x, In x (c :: l) -> okc x) -> (length l < fuel)%nat ->
  exists t', ci_truncate T get set t (ci_new c) fuel = Ok (t', N.of_nat (length l)) /\ inv t' /\
             val t' c = Eoc /\ (forall x, In x l -> val t' x = Free) /\
             (forall x, ~ In x (c :: l) -> okc x -> val t' x = val t x).
Proof.
  intros l t c fuel Hinv Hc Hnd Hok Hfuel.
  unfold ci_truncate, ci_new. cbn [ci_cluster]. unfold ci_next. cbn [ci_err ci_cluster].
  rewrite (get_next_val t c Hinv) by (apply Hok; left; reflexivity).
  inversion Hnd as [|? ? Hnotin Hnd']; subst.
  destruct (set_ok t c Eoc Hinv (Hok c (or_introl eq_refl)) okv_eoc) as (t1 & Hs & Hi1 & Hv1 & Hfr).
  inversion Hc as [c0 Hn E1 E2|c0 n l0 Hv Hc' E1 E2]; subst.
  - assert ((match val t c with Data n => Some n | _ => None end) = None) as ->.
    { destruct (val t c) eqn:E; try reflexivity. exfalso. eapply Hn. reflexivity. }
    rewrite Hs. cbn [bind]. destruct fuel as [|k]; [cbn [length] in Hfuel; lia|].
    cbn [ci_free ci_cluster]. exists t1. split; [reflexivity|]. split; [exact Hi1|]. split; [exact Hv1|]. split.
    + intros x [].
    + intros x Hx Hxo. apply Hfr; [|exact Hxo]. intro; subst. apply Hx. left; reflexivity.
  - rewrite Hv. rewrite Hs. cbn [bind].
    assert (chain t1 n l) as Hc1.
    { eapply chain_frame; [exact Hc'|]. intros x Hx. apply Hfr; [|apply Hok; right; exact Hx].
      intro; subst. contradiction. }
    destruct (ci_free_spec l t1 n fuel Hi1 Hc1 Hnd' (fun x Hx => Hok x (or_intror Hx)) Hfuel) as (t2 & Hr & Hi2 & Hall & Hfr2).
    unfold ci_new in Hr. rewrite Hr. exists t2. split; [reflexivity|]. split; [exact Hi2|]. split.
    + rewrite Hfr2; [exact Hv1|exact Hnotin|apply Hok; left; reflexivity].
    + split; [exact Hall|]. intros x Hx Hxo. rewrite Hfr2; [|intro; apply Hx; right; assumption|exact Hxo].
      apply Hfr; [|exact Hxo]. intro; subst. apply Hx. left; reflexivity.
Qed.

(* ------------------------------------------------------------ counting free clusters *)
Definition is_free (v : fatv) : bool := match v with Free => true | _ => false end.

Fixpoint cnt (f : N -> fatv) (c : N) (n : nat) : N :=
  match n with O => 0 | S k => (if is_free (f c) then 1 else 0) + cnt f (c + 1) k end.

Definition count_spec (t : T) (c : N) (n : nat) : N := cnt (val t) c n.

Theorem count_free_from_spec t (Hinv : inv t) : forall n c,
  (forall x, c <= x < c + N.of_nat n -> okc x) -> count_free_from T get t c n = Ok (count_spec t c n).
Proof.
  unfold count_spec. induction n as [|n IH]; intros c Hokr; cbn [count_free_from cnt]; [reflexivity|].
  rewrite (get_val t c Hinv) by (apply Hokr; lia). cbn [bind]. rewrite IH by (intros x Hx; apply Hokr; lia). cbn [bind]. destruct (val t c); cbn [is_free]; rewrite ?N.add_0_l; reflexivity.
Qed.

Theorem count_free_spec t total : inv t ->
  (forall x, 2 <= x < total + 2 -> okc x) -> count_free T get t total = Ok (count_spec t 2 (N.to_nat total)).
Proof. intros Hinv H. apply count_free_from_spec; [exact Hinv|]. intros x Hx. apply H. lia. Qed.

Lemma cnt_le f : forall n c, cnt f c n <= N.of_nat n.
Proof.
  induction n as [|n IH]; intros c; cbn [cnt]; [lia|].
  specialize (IH (c + 1)). destruct (is_free (f c)); lia.
Qed.

Lemma cnt_ext_free f g : forall n c,
  (forall x, c <= x < c + N.of_nat n -> is_free (g x) = is_free (f x)) -> cnt g c n = cnt f c n.
Proof.
  induction n as [|n IH]; intros c H; cbn [cnt]; [reflexivity|].
  rewrite H by lia. rewrite IH; [reflexivity|]. intros x Hx. apply H. lia.
Qed.

(* changing one entry inside the counted range moves the count by the change of that entry's freeness *)
Lemma cnt_update f g x : forall n c,
  c <= x < c + N.of_nat n -> (forall y, y <> x -> g y = f y) ->
  cnt g c n + (if is_free (f x) then 1 else 0) = cnt f c n + (if is_free (g x) then 1 else 0).
Proof.
  induction n as [|n IH]; intros c Hx Hfr; [lia|].
  cbn [cnt]. destruct (N.eq_dec c x) as [->|Hne].
  - rewrite (cnt_ext_free f g n (x + 1)); [lia|]. intros y Hy. rewrite Hfr by lia. reflexivity.
  - rewrite (Hfr c Hne). specialize (IH (c + 1) ltac:(lia) Hfr). lia.
Qed.

Lemma cnt_pos f x : forall n c, c <= x < c + N.of_nat n -> f x = Free -> 1 <= cnt f c n.
Proof.
  induction n as [|n IH]; intros c Hx Hf; [lia|]. cbn [cnt].
  destruct (N.eq_dec c x) as [->|Hne]; [rewrite Hf; cbn [is_free]; lia|].
  specialize (IH (c + 1) ltac:(lia) Hf). lia.
Qed.

(* freeing a set of distinct, allocated entries inside the range raises the count by their number *)
Lemma cnt_free_list f : forall l g n c,
  NoDup l -> (forall x, In x l -> c <= x < c + N.of_nat n /\ f x <> Free) ->
  (forall x, In x l -> g x = Free) -> (forall x, c <= x < c + N.of_nat n -> ~ In x l -> g x = f x) ->
  cnt g c n = cnt f c n + N.of_nat (length l).
Proof.
  induction l as [|a l IH]; intros g n c Hnd Hin Hfree Hfr.
  - cbn [length]. rewrite N.add_0_r. apply cnt_ext_free. intros x Hx. rewrite (Hfr x Hx) by (intros []). reflexivity.
  - inversion Hnd as [|? ? Hnotin Hnd']; subst.
    (* intermediate map: everything of l freed, a still as in f *)
    set (h := fun x => if x =? a then f a else g x).
    assert (cnt h c n = cnt f c n + N.of_nat (length l)) as Hh.
    { apply IH; [exact Hnd'| | |].
      - intros x Hx. apply Hin. right; exact Hx.
      - intros x Hx. unfold h. destruct (N.eqb_spec x a) as [->|]; [contradiction|]. apply Hfree. right; exact Hx.
      - intros x Hxr Hx. unfold h. destruct (N.eqb_spec x a) as [->|Hne]; [reflexivity|].
        apply Hfr; [exact Hxr|]. intros [<-|Hx']; [apply Hne; reflexivity|contradiction]. }
    destruct (Hin a (or_introl eq_refl)) as (Hra & Hnf).
    pose proof (cnt_update h g a n c Hra) as Hu.
    assert (forall y, y <> a -> g y = h y) as Hgh.
    { intros y Hy. unfold h. destruct (N.eqb_spec y a); [contradiction|reflexivity]. }
    specialize (Hu Hgh).
    assert (h a = f a) as Hha by (unfold h; rewrite N.eqb_refl; reflexivity).
    rewrite Hha in Hu. rewrite (Hfree a (or_introl eq_refl)) in Hu. cbn [is_free] in Hu.
    assert (is_free (f a) = false) as Hfa by (destruct (f a); try reflexivity; contradiction).
    rewrite Hfa in Hu. cbn [length]. lia.
Qed.

(* ------------------------------------------------------------ the free-space latch invariant (C05) *)
Definition fi_inv (t : T) (fi : fsinfo) (total : N) : Prop :=
  (match fi_free fi with Some n => n = count_spec t 2 (N.to_nat total) | None => True end) /\ hint_ok (fi_next fi).

Lemma map_free_opt_free fi f : fi_free (map_free_opt fi f) = match fi_free fi with Some n => f n | None => None end.
Proof. unfold map_free_opt. destruct (fi_free fi) eqn:E; cbn [fi_free]; [reflexivity|exact E]. Qed.
Lemma map_free_opt_next fi f : fi_next (map_free_opt fi f) = fi_next fi.
Proof. unfold map_free_opt. destruct (fi_free fi); reflexivity. Qed.
Lemma map_free_free fi f : fi_free (map_free fi f) = option_map f (fi_free fi).
Proof. unfold map_free. rewrite map_free_opt_free. destruct (fi_free fi); reflexivity. Qed.
Lemma map_free_next fi f : fi_next (map_free fi f) = fi_next fi.
Proof. apply map_free_opt_next. Qed.
(* while the sum stays a u32 the checked map is the plain one *)
Lemma map_free_opt_add fi k : (forall n, fi_free fi = Some n -> n + k <= u32_max) ->
  map_free_opt fi (fun n => checked_add32 n k) = map_free fi (fun n => n + k).
Proof.
  intros H. unfold map_free, map_free_opt, checked_add32. destruct (fi_free fi) as [n|]; [|reflexivity].
  specialize (H n eq_refl). apply N.leb_le in H. rewrite H. reflexivity.
Qed.

(* allocation keeps the cached count exact, never underflows it, and leaves an in-range hint;
   it fails only with NotEnoughSpace and only when no data cluster is free *)
Theorem fs_alloc_inv t fi prev total :
  inv t ->
  fi_inv t fi total ->
  (forall x, 2 <= x < total + 2 -> okc x) ->
  (match prev with
   | Some p => okc p /\ (forall n, 2 <= n < total + 2 -> okv (Data n)) /\ val t p <> Free
   | None => True end) ->
  match fs_alloc T get set t fi prev total with
  | Ok (t', fi', c) => inv t' /\ fi_inv t' fi' total /\ 2 <= c < total + 2 /\ val t c = Free /\
                       (exists h, fi_next fi' = Some h /\ 2 <= h < total + 2)
  | Err e => e = ENotEnoughSpace /\ forall x, 2 <= x < total + 2 -> val t x <> Free
  | Panic => False
  | OutOfFuel => False
  end.
Proof.
  intros Hinv [Hcnt Hh] Hokc Hprev. unfold fs_alloc.
  assert (match prev with Some p => okc p /\ (forall n, 2 <= n < total + 2 -> okv (Data n)) | None => True end) as Hprev'.
  { destruct prev; [|exact I]. tauto. }
  destruct (alloc_cluster T get set t prev (fi_next fi) total) as [[t' c]|e| |] eqn:Ea; cbn [bind].
  - destruct (alloc_ok t prev (fi_next fi) total t' c Hinv Hh Hokc Hprev' Ea) as (Hi' & Hc & Hfree & Hpost).
    (* the count drops by exactly one *)
    assert (count_spec t' 2 (N.to_nat total) + 1 = count_spec t 2 (N.to_nat total)) as Hdrop.
    { unfold count_spec.
      set (tm := fun x => if x =? c then Eoc else val t x).
      assert (cnt tm 2 (N.to_nat total) + 1 = cnt (val t) 2 (N.to_nat total)) as H1.
      { pose proof (cnt_update (val t) tm c (N.to_nat total) 2 ltac:(lia)) as Hu.
        assert (forall y, y <> c -> tm y = val t y) as Hy.
        { intros y Hy. unfold tm. destruct (N.eqb_spec y c); [contradiction|reflexivity]. }
        specialize (Hu Hy).
        assert (tm c = Eoc) as Htc by (unfold tm; rewrite N.eqb_refl; reflexivity).
        rewrite Htc, Hfree in Hu. cbn [is_free] in Hu. lia. }
      rewrite <- H1. f_equal. apply cnt_ext_free. intros x Hxr. unfold tm.
      assert (okc x) as Hxo by (apply Hokc; lia).
      destruct prev as [p|].
      - destruct Hpost as (Hp & Hce & Hfr). destruct Hprev as (_ & _ & Hpnf).
        destruct (N.eq_dec p c) as [->|Hne]; [contradiction|].
        destruct (N.eqb_spec x c) as [->|Hxc]; [rewrite (Hce Hne); reflexivity|].
        destruct (N.eq_dec x p) as [->|Hxp].
        + rewrite Hp. cbn [is_free]. destruct (val t p); try reflexivity. contradiction.
        + rewrite Hfr by assumption. reflexivity.
      - destruct Hpost as (Hce & Hfr).
        destruct (N.eqb_spec x c) as [->|Hxc]; [rewrite Hce; reflexivity|]. rewrite Hfr by assumption. reflexivity. }
    split; [exact Hi'|]. split; [|split; [exact Hc|split; [exact Hfree|]]].
    + split.
      * (* a latched count is right, hence >= 1 here: it is decremented (a count of 0 would be forgotten) *)
        rewrite map_free_opt_free. cbn [fi_free]. destruct (fi_free fi) as [n0|] eqn:Ef; [|exact I].
        unfold checked_sub1. destruct (n0 =? 0) eqn:E0; [exact I|]. apply N.eqb_neq in E0. lia.
      * rewrite map_free_opt_next. cbn [fi_next hint_ok].
        destruct (c + 1 <? total + RESERVED_FAT_ENTRIES); unfold RESERVED_FAT_ENTRIES; lia.
    + rewrite map_free_opt_next. cbn [fi_next]. eexists; split; [reflexivity|].
      unfold RESERVED_FAT_ENTRIES. destruct (c + 1 <? total + 2) eqn:E; [apply N.ltb_lt in E|]; lia.
  - exact (alloc_err t prev (fi_next fi) total e Hinv Hh Hokc Hprev' Ea).
  - destruct (alloc_no_panic t prev (fi_next fi) total Hinv Hh Hokc Hprev') as [H _]. exact (H Ea).
  - destruct (alloc_no_panic t prev (fi_next fi) total Hinv Hh Hokc Hprev') as [_ H]. exact (H Ea).
Qed.

(* removing a file: every cluster of its chain is given back and the cached count grows by exactly that many *)
Theorem fs_free_chain_inv t fi total c l fuel :
  inv t -> (forall x, 2 <= x < total + 2 -> okc x) ->
  fi_inv t fi total -> chain t c l -> NoDup l ->
  (forall x, In x l -> okc x /\ 2 <= x < total + 2 /\ val t x <> Free) -> (length l < fuel)%nat ->
  exists t' fi', fs_free_chain T get set t fi c fuel = Ok (t', fi') /\ inv t' /\ fi_inv t' fi' total /\
    count_spec t' 2 (N.to_nat total) = count_spec t 2 (N.to_nat total) + N.of_nat (length l) /\
    (forall x, In x l -> val t' x = Free) /\ (forall x, ~ In x l -> okc x -> val t' x = val t x).
Proof.
  intros Hinv Hokc [Hcnt Hh] Hc Hnd Hin Hfuel. unfold fs_free_chain.
  destruct (ci_free_spec l t c fuel Hinv Hc Hnd (fun x Hx => proj1 (Hin x Hx)) Hfuel) as (t' & Hr & Hi' & Hall & Hfr).
  rewrite Hr. cbn [bind].
  assert (count_spec t' 2 (N.to_nat total) = count_spec t 2 (N.to_nat total) + N.of_nat (length l)) as Hgrow.
  { unfold count_spec. apply cnt_free_list; [exact Hnd| |exact Hall|].
    - intros x Hx. destruct (Hin x Hx) as (_ & Hr2 & Hnf). split; [lia|exact Hnf].
    - intros x Hxr Hx. apply Hfr; [exact Hx|]. apply Hokc. lia. }
  eexists _, _. split; [reflexivity|]. split; [exact Hi'|]. split; [|split; [exact Hgrow|split; assumption]].
  split.
  - rewrite map_free_opt_free. destruct (fi_free fi) as [n0|]; [|exact I].
    unfold checked_add32. destruct (n0 + N.of_nat (length l) <=? u32_max); [lia|exact I].
  - rewrite map_free_opt_next. exact Hh.
Qed.

(* truncating at a cluster: it becomes the end of the chain, everything after it is given back *)
Theorem fs_truncate_chain_inv t fi total c l fuel :
  inv t -> (forall x, 2 <= x < total + 2 -> okc x) ->
  fi_inv t fi total -> chain t c (c :: l) -> NoDup (c :: l) ->
  (forall x, In x (c :: l) -> okc x /\ 2 <= x < total + 2 /\ val t x <> Free) -> (length l < fuel)%nat ->
  exists t' fi', fs_truncate_chain T get set t fi c fuel = Ok (t', fi') /\ inv t' /\ fi_inv t' fi' total /\
    val t' c = Eoc /\ (forall x, In x l -> val t' x = Free) /\
    (forall x, ~ In x (c :: l) -> okc x -> val t' x = val t x) /\
    count_spec t' 2 (N.to_nat total) = count_spec t 2 (N.to_nat total) + N.of_nat (length l).
Proof.
  intros Hinv Hokc [Hcnt Hh] Hc Hnd Hin Hfuel. unfold fs_truncate_chain.
  destruct (ci_truncate_spec l t c fuel Hinv Hc Hnd (fun x Hx => proj1 (Hin x Hx)) Hfuel) as (t' & Hr & Hi' & Hce & Hall & Hfr).
  rewrite Hr. cbn [bind].
  inversion Hnd as [|? ? Hnotin Hnd']; subst.
  assert (count_spec t' 2 (N.to_nat total) = count_spec t 2 (N.to_nat total) + N.of_nat (length l)) as Hgrow.
  { unfold count_spec.
    (* c goes from allocated to Eoc (still not free); l is freed *)
    set (f0 := fun x => if x =? c then Eoc else val t x).
    assert (cnt f0 2 (N.to_nat total) = cnt (val t) 2 (N.to_nat total)) as H0.
    { apply cnt_ext_free. intros x _. unfold f0. destruct (N.eqb_spec x c) as [->|]; [|reflexivity].
      destruct (Hin c (or_introl eq_refl)) as (_ & _ & Hnf). destruct (val t c); try reflexivity. contradiction. }
    rewrite <- H0. apply cnt_free_list; [exact Hnd'| |exact Hall|].
    - intros x Hx. destruct (Hin x (or_intror Hx)) as (_ & Hr2 & Hnf). split; [lia|].
      unfold f0. destruct (N.eqb_spec x c) as [->|]; [discriminate|exact Hnf].
    - intros x Hxr Hx. unfold f0. destruct (N.eqb_spec x c) as [->|Hne]; [exact Hce|].
      apply Hfr; [|apply Hokc; lia]. intros [<-|Hx']; [apply Hne; reflexivity|contradiction]. }
  eexists _, _. split; [reflexivity|]. split; [exact Hi'|].
  split; [|split; [exact Hce|split; [exact Hall|split; [exact Hfr|exact Hgrow]]]].
  split.
  - rewrite map_free_opt_free. destruct (fi_free fi) as [n0|]; [|exact I].
    unfold checked_add32. destruct (n0 + N.of_nat (length l) <=? u32_max); [lia|exact I].
  - rewrite map_free_opt_next. exact Hh.
Qed.

(* ANY latched count - no fi_inv: a volume whose FS-info sector was written by another implementation and is wrong -:
   allocation never panics (the count is decremented with checked_sub, a count of 0 is FORGOTTEN), succeeds exactly when a data
   cluster is free, and says what happens to the count *)
Theorem fs_alloc_any_count t fi prev total :
  inv t -> hint_ok (fi_next fi) ->
  (forall x, 2 <= x < total + 2 -> okc x) ->
  (match prev with Some p => okc p /\ (forall n, 2 <= n < total + 2 -> okv (Data n)) | None => True end) ->
  match fs_alloc T get set t fi prev total with
  | Ok (t', fi', c) => inv t' /\ 2 <= c < total + 2 /\ val t c = Free /\ hint_ok (fi_next fi') /\
                       fi_free fi' = match fi_free fi with Some n => if n =? 0 then None else Some (n - 1) | None => None end
  | Err e => e = ENotEnoughSpace /\ forall x, 2 <= x < total + 2 -> val t x <> Free
  | Panic => False
  | OutOfFuel => False
  end.
Proof.
  intros Hinv Hh Hokc Hprev. unfold fs_alloc.
  destruct (alloc_cluster T get set t prev (fi_next fi) total) as [[t' c]|e| |] eqn:Ea; cbn [bind].
  - destruct (alloc_ok t prev (fi_next fi) total t' c Hinv Hh Hokc Hprev Ea) as (Hi' & Hc & Hfree & _).
    split; [exact Hi'|]. split; [exact Hc|]. split; [exact Hfree|]. split.
    + rewrite map_free_opt_next. cbn [fi_next hint_ok].
      destruct (c + 1 <? total + RESERVED_FAT_ENTRIES); unfold RESERVED_FAT_ENTRIES; lia.
    + rewrite map_free_opt_free. reflexivity.
  - exact (alloc_err t prev (fi_next fi) total e Hinv Hh Hokc Hprev Ea).
  - destruct (alloc_no_panic t prev (fi_next fi) total Hinv Hh Hokc Hprev) as [H _]. exact (H Ea).
  - destruct (alloc_no_panic t prev (fi_next fi) total Hinv Hh Hokc Hprev) as [_ H]. exact (H Ea).
Qed.

(* once the count is forgotten (or was never known) the statistics call counts the table: exact whatever was stored before *)
Theorem fs_stats_exact_unknown t fi total :
  inv t -> fi_free fi = None -> (forall x, 2 <= x < total + 2 -> okc x) ->
  fs_stats T get t fi total =
    Ok ({| fi_free := Some (count_spec t 2 (N.to_nat total)); fi_next := fi_next fi; fi_dirty := true |},
        count_spec t 2 (N.to_nat total)).
Proof. intros Hinv E Hokc. unfold fs_stats. rewrite E, (count_free_spec t total Hinv Hokc). reflexivity. Qed.

(* the statistics call reports exactly the number of free entries of the table, whatever path it takes *)
Theorem fs_stats_exact t fi total :
  inv t -> fi_inv t fi total -> (forall x, 2 <= x < total + 2 -> okc x) ->
  exists fi', fs_stats T get t fi total = Ok (fi', count_spec t 2 (N.to_nat total)) /\ fi_inv t fi' total.
Proof.
  intros Hinv [Hcnt Hh] Hokc. unfold fs_stats. destruct (fi_free fi) as [n0|] eqn:Ef.
  - exists fi. split; [rewrite Hcnt; reflexivity|]. split; [rewrite Ef; exact Hcnt|exact Hh].
  - rewrite (count_free_spec t total Hinv Hokc). cbn [bind]. eexists. split; [reflexivity|]. split; [reflexivity|exact Hh].
Qed.

End Laws.
