(* Vol32RootFormat.v: from ANY device content to a populated FAT32 root, end to end over images: format_volume of a FAT32
   request (Model/FormatImage.v; Proofs/FormatImageProofs.v / FormatImageAbs.v: root cluster 2 allocated and zeroed) followed
   by creates in the root (Model/Vol32Root.v, Proofs/Vol32RootProofs.v), decoded by the independent decoder Spec/Abs.abs.
   The analogue of Proofs/VolDirFormat.v (FAT12/16, fixed root). *)
From Coq Require Import NArith ZArith Lia List Bool Permutation.
From FatVerif Require Import Model.Base Model.Str Model.Slot Model.Time Model.Name Model.DirSlots Spec.Image Spec.Abs
  Model.Format Spec.FormatSpec Model.FormatImage Spec.FormatImageSpec Model.VolDir Model.VolChainDir Model.Vol32Root
  Proofs.FatProofs Proofs.FormatProofs Proofs.FormatImageProofs Proofs.FormatImageAbs Proofs.VolDirProofs
  Proofs.VolChainDirProofs Proofs.Vol32RootProofs.
From FatVerif Require Spec.Wf Proofs.TimeProofs Model.ShortName.
Import ListNotations.
Open Scope N_scope.
Ltac Zify.zify_post_hook ::= Z.to_euclidean_division_equations.

(* ================================================================ 1. a formatted FAT32 volume is a [fat32_geom] *)

Lemma pow2_ge512_mod32 k : 512 <= 2 ^ k -> (2 ^ k) mod 32 = 0.
Proof.
  intros H. assert (9 <= k) as Hk.
  { destruct (N.le_gt_cases 9 k) as [L|L]; [exact L|]. exfalso.
    assert (k <= 8) as L' by lia. pose proof (N.pow_le_mono_r 2 k 8 ltac:(discriminate) L') as P. change (2 ^ 8) with 256 in P. lia. }
  replace k with (5 + (k - 5)) by lia. rewrite N.pow_add_r. change (2 ^ 5) with 32. rewrite N.mul_comm. apply N.mod_mul. discriminate.
Qed.

Lemma valid_geometry_fat32 b ts req : valid_format_geometry b ts Format.Fat32 req ->
  fat32_geom (geom_of b) /\ (forall c, chain_small (geom_of b) [c]) /\ g_root_cluster (geom_of b) = fb_root_dir_first_cluster b.
Proof.
  unfold valid_format_geometry. cbv zeta.
  intros (((kb & Hkb) & B1) & ((k & Hk) & S1) & (R1 & F1) & (T1 & _) & (M1 & _) & Ty & _ & En & N9 & (_ & Mx) & _).
  cbn [sp_is32] in N9. destruct N9 as (_ & _ & _ & _ & _ & _ & Hre & _ & _ & Hfl & _).
  assert (1 <= fb_bytes_per_sector b) as Hb1 by lia.
  pose proof (g_clusters_of b Hb1) as Hcl.
  assert (g_root_sectors (geom_of b) = sp_root_dir_sectors b) as Hrs.
  { unfold g_root_sectors, sp_root_dir_sectors. cbn [geom_of g_root_entries g_bps].
    replace (fb_root_entries b * 32 + fb_bytes_per_sector b - 1) with (fb_root_entries b * 32 + (fb_bytes_per_sector b - 1)) by lia.
    reflexivity. }
  assert (g_first_data (geom_of b) = sp_meta_sectors b) as Hfd.
  { unfold g_first_data. rewrite Hrs. reflexivity. }
  assert (g_bits (geom_of b) = 32) as Hbits.
  { unfold g_bits. rewrite Hcl. unfold sp_type_of_clusters in Ty.
    destruct (sp_clusters b <? 4085); [discriminate|]. destruct (sp_clusters b <? 65525); [discriminate|reflexivity]. }
  assert (1 <= fb_sectors_per_cluster b) as Hs1 by (rewrite Hk; pose proof (N.pow_nonzero 2 k ltac:(discriminate)); lia).
  split; [|split; [|reflexivity]].
  - constructor.
    + exact Hbits.
    + cbn [geom_of g_bps]. lia.
    + cbn [geom_of g_spc]. exact Hs1.
    + cbn [geom_of g_reserved]. lia.
    + cbn [geom_of g_fats]. lia.
    + rewrite (g_active_0 b Hfl). cbn [geom_of g_fats]. lia.
    + unfold g_fat_bytes. rewrite Hcl. cbn [geom_of g_spf g_bps].
      unfold sp_fat_entries in En. cbn [sp_bits] in En. set (X := sp_fat_size b * fb_bytes_per_sector b) in *. lia.
    + unfold g_cluster_size. cbn [geom_of g_bps g_spc]. rewrite Hkb in B1 |- *.
      pose proof (pow2_ge512_mod32 kb ltac:(lia)) as Hm.
      rewrite N.mul_mod by discriminate. rewrite Hm. reflexivity.
    + rewrite Hfd. cbn [geom_of g_total_sectors]. lia.
  - intros c. unfold chain_small, cluster_slots, g_cluster_size. cbn [geom_of g_bps g_spc length].
    assert (fb_bytes_per_sector b * fb_sectors_per_cluster b <= 524288) by nia.
    set (X := fb_bytes_per_sector b * fb_sectors_per_cluster b) in *. lia.
Qed.

(* ================================================================ 2. reading root32_ok off the decoded volume *)

Lemma root_slots_32_none g im : g_bits g = 32 -> chain_from g im (g_root_cluster g) (chain_fuel g) = None ->
  root_slots g im = (None, []).
Proof. intros H1 H2. unfold root_slots. rewrite H1, H2. reflexivity. Qed.

Lemma abs_root32_inv im l : g_bits (parse_geom im) = 32 -> v_root_chain (abs im) = Some l ->
  root32_chain im = Some l /\
  exists es ls iss, dir_scan (chain_dir_slots (parse_geom im) im l) 0 [] true = (es, ls, iss) /\
                    abs im = abs_root32 (parse_geom im) im l es ls iss.
Proof.
  intros Hb Hc. unfold root32_chain. cbv zeta.
  destruct (chain_from (parse_geom im) im (g_root_cluster (parse_geom im)) (chain_fuel (parse_geom im))) as [l'|] eqn:E.
  - destruct (dir_scan (chain_dir_slots (parse_geom im) im l') 0 [] true) as [[es ls] iss] eqn:S.
    pose proof (abs_root32_of im l' es ls iss Hb E S) as Ha. rewrite Ha in Hc. cbn [abs_root32 v_root_chain] in Hc.
    injection Hc as ->. split; [reflexivity|]. exists es, ls, iss. split; [exact S|exact Ha].
  - exfalso. unfold abs in Hc. cbv zeta in Hc. rewrite (root_slots_32_none _ im Hb E) in Hc.
    destruct (dir_scan [] 0 [] (g_bits (parse_geom im) =? 32)) as [[a b0] c0]. cbn [v_root_chain] in Hc. discriminate.
Qed.

(* every FAT32 volume format_volume makes, from ANY device content: the premises of the root theorems hold, with the root
   chain [2], no entry, the label of the request *)
Theorem formatted_root32_ok o ts im0 bs im : builder_range o -> ts < 4294967296 -> bytes_ok im0 ->
  format_boot_sector_validated o ts = Ok (bs, Format.Fat32) -> format_image o ts im0 = Ok im ->
  root32_ok im [2] [] (expected_labels o) /\ v_root (abs im) = [] /\ parse_geom im = geom_of (fbs_bpb bs).
Proof.
  intros Hb Hts Hb0 Hv Hf.
  destruct (image_decodes_empty o ts im0 bs Format.Fat32 im (fun l => l) Hb Hts Hb0 Hv Hf) as (Hpg & _ & Hbits & Hroot & Hiss & Hlab & Hch & _).
  cbn [sp_is32 bits_per_fat_entry] in Hch, Hbits.
  destruct (format_ok_valid o ts bs Format.Fat32 Hb Hts Hv) as (Hviol & _).
  unfold boot_violations in Hviol. apply app_eq_nil in Hviol. destruct Hviol as [Hviol _].
  apply violations_nil_iff in Hviol.
  destruct (valid_geometry_fat32 _ ts _ Hviol) as (Hg & Hsm & _).
  assert (g_bits (parse_geom im) = 32) as Hb32 by (rewrite Hpg; exact Hbits).
  destruct (abs_root32_inv im [2] Hb32 Hch) as (Hrc & es & ls & iss & Hscan & Habs).
  rewrite Habs in Hroot, Hiss, Hlab. cbn [abs_root32 v_root v_root_issues v_labels] in Hroot, Hiss, Hlab.
  change MAX_DEPTH with (S 23) in Hroot. rewrite decode_entries_S in Hroot. apply map_eq_nil in Hroot. subst es iss ls.
  split; [|split; [rewrite Habs; reflexivity|exact Hpg]].
  constructor.
  - rewrite Hpg. exact Hg.
  - exact Hrc.
  - constructor; [intros []|constructor].
  - rewrite Hpg. apply Hsm.
  - exact Hscan.
Qed.

(* ================================================================ 3. any sequence of successful creates in the root *)

Definition empty_file_node (n : node) : Prop := exists e, n = NFile e None [] /\ e_size e = 0 /\ e_cluster e = 0 /\ e_lfn_ok e = true.

Lemma avoids_empty_file l e : avoids l (NFile e None []).
Proof. intros c Hc. unfold node_clusters in Hc. cbn [Wf.node_chains concat] in Hc. destruct Hc. Qed.

(* outside the clusters of the chain *)
Definition outside_chain (g : geom) (l : list N) (o : N) : Prop :=
  forall c, In c l -> o < g_cluster_off g c \/ g_cluster_off g c + g_cluster_size g <= o.

Theorem vol32_root_create_many_decodes upper oem : forall reqs im im' l es ls,
  root32_ok im l es ls -> Forall (avoids l) (v_root (abs im)) ->
  Forall (fun q => TimeProofs.datetime_valid (snd q) = true) reqs ->
  vol32_root_create_many upper oem im reqs = Some im' ->
  (exists es', root32_ok im' l es' ls) /\ Forall (avoids l) (v_root (abs im')) /\
  parse_geom im' = parse_geom im /\ v_root_issues (abs im') = [] /\ v_labels (abs im') = v_labels (abs im) /\
  v_root_chain (abs im') = Some l /\
  count_free (parse_geom im) im' = count_free (parse_geom im) im /\
  (forall c, in_range (parse_geom im) c = true -> fat_val (parse_geom im) im' c = fat_val (parse_geom im) im c) /\
  (forall o, outside_chain (parse_geom im) l o -> img_get im' o = img_get im o) /\
  exists news,
    Permutation (v_root (abs im')) (v_root (abs im) ++ news) /\
    map (fun n => e_lfn (node_entry n)) news = map (fun q => stored_lfn (fst q)) reqs /\
    Forall empty_file_node news /\
    (NoDup (map e_sfn (map node_entry (v_root (abs im)))) -> NoDup (map e_sfn (map node_entry (v_root (abs im'))))).
Proof.
  induction reqs as [|q r IH]; intros im im' l es ls Hok Hav Hv H; cbn [vol32_root_create_many] in H.
  - injection H as <-. split; [exists es; exact Hok|]. split; [exact Hav|]. split; [reflexivity|].
    pose proof (root32_abs im l es ls Hok) as Ha.
    split; [rewrite Ha; reflexivity|]. split; [reflexivity|]. split; [rewrite Ha; reflexivity|].
    split; [reflexivity|]. split; [intros; reflexivity|]. split; [intros; reflexivity|].
    exists []. rewrite app_nil_r. split; [apply Permutation_refl|]. split; [reflexivity|]. split; [constructor|]. auto.
  - inversion Hv as [|? ? Hq Hr]; subst.
    destruct (vol32_root_create upper oem im (fst q) (snd q)) as [[r0 im1]|] eqn:E; [|discriminate].
    destruct r0 as [[range|]| | |]; try discriminate.
    destruct (vol32_root_create_decodes upper oem im l es ls _ _ range im1 Hok Hav Hq E)
      as (ns1 & ns2 & ne & st & R1 & R2 & E3 & E4 & E5 & E6 & _ & _ & _ & _ & _ & _ & _ & _ & _ & _ & _ & _ & HU & I1 & L1 & C1 & _ & G1 & Hframe & es1 & Hok1).
    destruct Hframe as (Hout & _ & Hpg & Hcf & Hfat & _).
    assert (Forall (avoids l) (v_root (abs im1))) as Hav1.
    { rewrite R2. rewrite R1 in Hav. apply Forall_app in Hav. destruct Hav as [A1 A2]. apply Forall_app. split; [exact A1|].
      constructor; [apply avoids_empty_file|exact A2]. }
    destruct (IH im1 im' l es1 ls Hok1 Hav1 Hr H) as (P0 & Pav & P1 & P2 & P3 & Pc & P4 & Pf & P5 & news & Q1 & Q2 & Q3 & Q4).
    rewrite Hpg in P1, P4, Pf, P5.
    split; [exact P0|]. split; [exact Pav|]. split; [exact P1|]. split; [exact P2|]. split; [rewrite P3; exact L1|]. split; [exact Pc|].
    split; [rewrite P4; exact Hcf|]. split; [intros c Hc; rewrite (Pf c Hc); exact (Hfat c Hc)|].
    split; [intros o Ho; rewrite (P5 o Ho); apply Hout; exact Ho|].
    exists (NFile ne None [] :: news). split; [|split; [|split]].
    + rewrite R1. eapply Permutation_trans; [exact Q1|]. rewrite R2. rewrite <- !app_assoc. cbn [app].
      apply Permutation_app_head. apply Permutation_middle.
    + cbn [map node_entry]. rewrite Q2. unfold stored_lfn at 2. rewrite E3. reflexivity.
    + constructor; [exists ne; repeat split; assumption|exact Q3].
    + intros ND. apply Q4. rewrite R2. rewrite !map_app. cbn [map node_entry].
      rewrite R1, !map_app in ND, HU. apply NoDup_insert; assumption.
Qed.

(* THE PAYOFF, end to end from ANY device content: format_volume of a FAT32 request, then any sequence of creates in the
   root that each made a new entry inside the root's one cluster.  The independent decoder finds exactly one root node per
   request: plain empty files (both first-cluster words zero) carrying exactly the requested names, pairwise distinct aliases;
   no decode issue; the label, root chain [2], geometry, FAT and free count of the formatted volume; nothing outside the root
   cluster differs from the formatted device. *)
Theorem format32_create_many_decodes upper oem o ts im0 bs im reqs im' :
  builder_range o -> ts < 4294967296 -> bytes_ok im0 ->
  format_boot_sector_validated o ts = Ok (bs, Format.Fat32) ->
  format_image o ts im0 = Ok im ->
  Forall (fun q => TimeProofs.datetime_valid (snd q) = true) reqs ->
  vol32_root_create_many upper oem im reqs = Some im' ->
  let g := geom_of (fbs_bpb bs) in
  exists nodes,
    Permutation (v_root (abs im')) nodes /\
    map (fun n => e_lfn (node_entry n)) nodes = map (fun q => stored_lfn (fst q)) reqs /\
    Forall empty_file_node nodes /\
    NoDup (map e_sfn (map node_entry (v_root (abs im')))) /\
    length (v_root (abs im')) = length reqs /\
    v_root_issues (abs im') = [] /\ v_labels (abs im') = expected_labels o /\ v_root_chain (abs im') = Some [2] /\
    parse_geom im' = g /\ count_free g im' = count_free g im /\
    (forall c, in_range g c = true -> fat_val g im' c = fat_val g im c) /\
    (forall x, (x < g_cluster_off g 2 \/ g_cluster_off g 2 + g_cluster_size g <= x) -> img_get im' x = img_get im x).
Proof.
  intros Hb Hts Hb0 Hv Hf Hnow Hc g.
  destruct (formatted_root32_ok o ts im0 bs im Hb Hts Hb0 Hv Hf) as (Hok & Hroot & Hpg). fold g in Hpg.
  assert (Forall (avoids [2]) (v_root (abs im))) as Hav by (rewrite Hroot; constructor).
  destruct (vol32_root_create_many_decodes upper oem reqs im im' [2] [] _ Hok Hav Hnow Hc)
    as (_ & _ & P1 & P2 & P3 & Pc & P4 & Pf & P5 & news & Q1 & Q2 & Q3 & Q4).
  rewrite Hpg in P1, P4, Pf, P5. rewrite Hroot in Q1, Q4. cbn [app map] in Q1, Q4.
  exists news. split; [exact Q1|]. split; [exact Q2|]. split; [exact Q3|]. split; [apply Q4; constructor|].
  split; [rewrite (Permutation_length Q1), <- (map_length (fun n => e_lfn (node_entry n))), Q2, map_length; reflexivity|].
  split; [exact P2|]. split; [rewrite P3, (root32_abs im _ _ _ Hok); reflexivity|]. split; [exact Pc|]. split; [exact P1|].
  split; [exact P4|]. split; [exact Pf|].
  intros x Hx. apply P5. intros c [<-|[]]. exact Hx.
Qed.

(* ================================================================ 4. well-formedness (Spec/Wf.v) is kept *)

Lemma wf_issues_root32 fold im g imf l es ls iss : g_bits g = 32 -> abs im = abs_root32 g imf l es ls iss ->
  Wf.wf_issues fold im =
    (let ns := decode_entries g imf MAX_DEPTH es in
     let '(owned, cross) := Wf.own_clusters (concat ([l] ++ Wf.nodes_chains ns)) (FMapPositive.PositiveMap.empty unit) in
     map (Wf.dir_issue (g_root_cluster g)) iss ++ Wf.names_issues fold (g_root_cluster g) ns ++ Wf.nodes_issues fold g 0 ns ++ cross
     ++ Wf.lost_from g im owned 2 (N.to_nat (g_clusters g))
     ++ (if Wf.depth_exceeded ns MAX_DEPTH then [Wf.WDepth] else [])).
Proof.
  intros Hb Habs. unfold Wf.wf_issues. rewrite Habs. cbv zeta.
  cbn [abs_root32 v_geom v_root_chain v_root v_root_issues]. rewrite Hb. change (32 =? 32) with true. cbv iota.
  destruct (Wf.own_clusters _ _) as [owned cross]. reflexivity.
Qed.

Lemma names_issues_nil_dc fold dc dc' ns : Wf.names_issues fold dc ns = [] -> Wf.names_issues fold dc' ns = [].
Proof.
  unfold Wf.names_issues. cbv zeta.
  destruct (Wf.has_dup list_eqb (map e_sfn (map node_entry ns))); [discriminate|].
  destruct (Wf.has_dup list_eqb _); [discriminate|]. reflexivity.
Qed.

(* a successful create in the root of a well-formed FAT32 volume leaves it well formed, provided the new long name does not
   collide with an existing one under the folding [fold] the WDupLong clause is checked with *)
Theorem vol32_root_create_keeps_wf fold upper oem im l es ls name now range im' :
  root32_ok im l es ls -> Forall (avoids l) (v_root (abs im)) ->
  Wf.wf_issues fold im = [] -> TimeProofs.datetime_valid now = true ->
  vol32_root_create upper oem im name now = Some (Ok (Some range), im') ->
  (is_dot_name name = false ->
   ~ In (fold (utf16_encode name)) (map fold (filter has_lfn (map e_lfn (map node_entry (v_root (abs im))))))) ->
  Wf.wf_issues fold im' = [].
Proof.
  intros Hok Hav Hwf Hnow H Hlong. set (g := parse_geom im) in *.
  pose proof (f32_bits _ (r32_geom _ _ _ _ Hok)) as Hbits. fold g in Hbits.
  destruct (vol32_root_create_decodes upper oem im l es ls name now range im' Hok Hav Hnow H)
    as (ns1 & ns2 & ne & st & R1 & R2 & E3 & _ & E5 & E6 & _ & _ & _ & _ & _ & _ & _ & _ & _ & _ & _ & _ & HU & _ & _ & _ & _ & _ & Hframe & es' & Hok').
  destruct Hframe as (_ & _ & Hpg & _ & _ & Hlost & _). fold g in Hpg, Hlost.
  pose proof (root32_abs im l es ls Hok) as Habs. fold g in Habs.
  pose proof (root32_abs im' l es' ls Hok') as Habs'. rewrite Hpg in Habs'.
  rewrite (wf_issues_root32 fold im g im l es ls [] Hbits Habs) in Hwf. cbv zeta in Hwf.
  rewrite (wf_issues_root32 fold im' g im' l es' ls [] Hbits Habs'). cbv zeta.
  rewrite Habs in R1, HU, Hlong. rewrite Habs' in R2. cbn [abs_root32 v_root] in R1, R2, HU, Hlong.
  rewrite R2. rewrite R1 in Hwf, HU, Hlong.
  rewrite nodes_chains_insert, (nodes_issues_insert fold g ns1 ns2 ne E5 E6), depth_exceeded_insert.
  destruct (Wf.own_clusters _ _) as [ow cr]. rewrite Hlost.
  cbn [map app] in Hwf |- *.
  apply app_eq_nil in Hwf. destruct Hwf as [Hn Hrest]. rewrite Hrest, app_nil_r.
  apply (names_issues_nil_dc fold 0). apply names_issues_insert; [exact (names_issues_nil_dc fold _ 0 _ Hn)|exact HU|].
  intros Hl. rewrite E3 in *. destruct (is_dot_name name); [discriminate|]. apply Hlong. reflexivity.
Qed.

Theorem vol32_root_create_many_keeps_wf fold upper oem : forall reqs im im' l es ls,
  root32_ok im l es ls -> Forall (avoids l) (v_root (abs im)) -> Wf.wf_issues fold im = [] ->
  Forall (fun q => TimeProofs.datetime_valid (snd q) = true) reqs ->
  Forall (fun q => is_dot_name (fst q) = false) reqs ->
  NoDup (map (fun q => fold (utf16_encode (fst q))) reqs) ->
  (forall q, In q reqs -> ~ In (fold (utf16_encode (fst q))) (root_lfns_folded fold im)) ->
  vol32_root_create_many upper oem im reqs = Some im' -> Wf.wf_issues fold im' = [].
Proof.
  induction reqs as [|q r IH]; intros im im' l es ls Hok Hav Hwf Hv Hd Hnd Hfresh H; cbn [vol32_root_create_many] in H.
  - injection H as <-. exact Hwf.
  - inversion Hv as [|? ? Hq Hr]; subst. inversion Hd as [|? ? Dq Dr]; subst.
    cbn [map] in Hnd. inversion Hnd as [|? ? N1 N2]; subst.
    destruct (vol32_root_create upper oem im (fst q) (snd q)) as [[r0 im1]|] eqn:E; [|discriminate].
    destruct r0 as [[range|]| | |]; try discriminate.
    assert (Wf.wf_issues fold im1 = []) as Hwf1.
    { apply (vol32_root_create_keeps_wf fold upper oem im l es ls (fst q) (snd q) range im1 Hok Hav Hwf Hq E). intros _.
      apply (Hfresh q). left; reflexivity. }
    destruct (vol32_root_create_decodes upper oem im l es ls _ _ range im1 Hok Hav Hq E)
      as (ns1 & ns2 & ne & st & R1 & R2 & E3 & _ & _ & _ & _ & _ & _ & _ & _ & _ & _ & _ & _ & _ & _ & _ & _ & _ & _ & _ & _ & _ & _ & es1 & Hok1).
    assert (Forall (avoids l) (v_root (abs im1))) as Hav1.
    { rewrite R2. rewrite R1 in Hav. apply Forall_app in Hav. destruct Hav as [A1 A2]. apply Forall_app. split; [exact A1|].
      constructor; [apply avoids_empty_file|exact A2]. }
    apply (IH im1 im' l es1 ls Hok1 Hav1 Hwf1 Hr Dr N2); [|exact H].
    intros q' Hin C.
    unfold root_lfns_folded in C. rewrite R2 in C. rewrite !map_app, filter_app, map_app in C. cbn [map node_entry filter] in C.
    rewrite E3, Dq in C.
    assert (In (fold (utf16_encode (fst q'))) (root_lfns_folded fold im) \/ fold (utf16_encode (fst q')) = fold (utf16_encode (fst q))) as [C'|C'].
    { unfold root_lfns_folded. rewrite R1. rewrite !map_app, filter_app, map_app.
      apply in_app_or in C. destruct C as [C|C]; [left; apply in_or_app; left; exact C|].
      destruct (has_lfn (utf16_encode (fst q))); cbn [map] in C.
      - destruct C as [C|C]; [right; symmetry; exact C|left; apply in_or_app; right; exact C].
      - left; apply in_or_app; right; exact C. }
    + apply (Hfresh q'); [right; exact Hin|exact C'].
    + apply N1. rewrite <- C'. apply (in_map (fun q0 => fold (utf16_encode (fst q0))) r q' Hin).
Qed.

(* ... and the formatted volume with its creates has no well-formedness issue when the folded names are pairwise distinct and
   none is a dot name *)
Theorem format32_create_many_wf fold upper oem o ts im0 bs im reqs im' :
  builder_range o -> ts < 4294967296 -> bytes_ok im0 ->
  format_boot_sector_validated o ts = Ok (bs, Format.Fat32) ->
  format_image o ts im0 = Ok im ->
  Forall (fun q => TimeProofs.datetime_valid (snd q) = true) reqs ->
  Forall (fun q => is_dot_name (fst q) = false) reqs ->
  NoDup (map (fun q => fold (utf16_encode (fst q))) reqs) ->
  vol32_root_create_many upper oem im reqs = Some im' -> Wf.wf_issues fold im' = [].
Proof.
  intros Hb Hts Hb0 Hv Hf Hnow Hd Hnd Hc.
  destruct (formatted_root32_ok o ts im0 bs im Hb Hts Hb0 Hv Hf) as (Hok & Hroot & _).
  destruct (image_decodes_empty o ts im0 bs Format.Fat32 im fold Hb Hts Hb0 Hv Hf) as (_ & _ & _ & _ & _ & _ & _ & _ & _ & Hwf).
  assert (Forall (avoids [2]) (v_root (abs im))) as Hav by (rewrite Hroot; constructor).
  apply (vol32_root_create_many_keeps_wf fold upper oem reqs im im' [2] [] _ Hok Hav Hwf Hnow Hd Hnd); [|exact Hc].
  intros q _. unfold root_lfns_folded. rewrite Hroot. intros [].
Qed.
