(* VolStatusProofs.v: the dirty bit of the status byte inside the image model (Model/VolStatus.v).
   1. the byte vol_set_dirty_flag writes; the invariant [StatInv] between the image and the status latch
   2. a marked operation: only the status byte differs from the unmarked image; dirty bit and mount bits
   3. the decoder (Spec/Abs.abs, Spec/Wf.wf_issues, count_free) and the file-layer invariant do not see the status byte -
      except v_status: every decode theorem of the unwrapped operations transfers
   4. the wrapped operations: create / remove / rename in the root, remove of a file with clusters, the file calls
   5. histories: every wrapped history keeps StatInv and the mount byte; unmount restores the byte exactly; read-only
      histories leave image and latch untouched *)
From Coq Require Import NArith ZArith Lia List Bool FMapPositive.
From FatVerif Require Import Model.Base Model.Str Model.Slot Model.Time Model.Table Model.Fat Model.FileM Model.Name
  Model.ShortName Model.DirSlots Model.Flags Model.VolDir Model.VolFile Model.FlushM Model.VolSession Model.VolRemove
  Model.VolStatus Spec.Image Spec.Abs Spec.ByteFile
  Proofs.ImageProofs Proofs.TableProofs Proofs.FatProofs Proofs.FileProofs Proofs.CrossProofs Proofs.RegionsProofs
  Proofs.FlagsProofs Proofs.DirSlotsProofs Proofs.VolDirProofs Proofs.VolFileProofs Proofs.VolSessionProofs
  Proofs.VolRemoveProofs.
From FatVerif Require Spec.Wf Model.Lfn Proofs.TimeProofs.
Import ListNotations.
Open Scope N_scope.
Ltac Zify.zify_post_hook ::= Z.to_euclidean_division_equations.

(* ================================================================ 1. the byte and the invariant *)
Lemma flags_change_false s d : flags_change s d = false -> set_dirty_flag s d = s.
Proof. unfold flags_change, set_dirty_flag. cbv zeta. intros H. apply negb_false_iff in H. rewrite H. reflexivity. Qed.

Lemma flags_change_true s d : flags_change s d = true ->
  disk_byte (set_dirty_flag s d) = status_value (mount_byte s) d /\ mount_byte (set_dirty_flag s d) = mount_byte s.
Proof.
  unfold flags_change, set_dirty_flag, status_value. cbv zeta. intros H. apply negb_true_iff in H. rewrite H.
  cbn [disk_byte mount_byte]. split; reflexivity.
Qed.

Lemma set_dirty_flag_mount s d : mount_byte (set_dirty_flag s d) = mount_byte s.
Proof. unfold set_dirty_flag. destruct (sf_eqb _ _); reflexivity. Qed.

(* the image carries the byte the latch believes is on the device *)
Definition StatInv (g : geom) (im : image) (s : fstat) : Prop :=
  img_get im (g_status_off g) = disk_byte s /\ st_inv s /\ mount_byte s < 256.

Lemma mount_stat_inv g im : img_get im (g_status_off g) < 256 -> StatInv g im (vol_mount_status g im).
Proof.
  intros H. unfold StatInv, vol_mount_status. split; [reflexivity|]. split; [apply st_mount_inv|exact H].
Qed.

(* every byte but the status byte *)
Definition status_only (g : geom) (im im' : image) : Prop := forall a, a <> g_status_off g -> img_get im' a = img_get im a.

Lemma status_only_refl g im : status_only g im im. Proof. intros a _. reflexivity. Qed.
Lemma status_only_trans g a b c : status_only g a b -> status_only g b c -> status_only g a c.
Proof. intros H1 H2 x Hx. rewrite (H2 x Hx). exact (H1 x Hx). Qed.
Lemma status_only_sym g a b : status_only g a b -> status_only g b a.
Proof. intros H x Hx. symmetry. exact (H x Hx). Qed.

(* bits of a status byte b = e + 4 k *)
Lemma status_bits e k : e < 4 -> (e + k * 4) / 4 = k /\ N.odd ((e + k * 4) / 2) = N.odd (e / 2) /\ N.odd (e + k * 4) = N.odd e.
Proof. intros H. rewrite !odd_mod2. split; [lia|]. split; f_equal; lia. Qed.

Lemma encode_io f : N.odd (sf_encode f / 2) = sf_io_error f.
Proof. destruct f as [[|] [|]]; reflexivity. Qed.

(* FileSystem::set_dirty_flag on the image *)
Theorem vol_set_dirty_flag_spec g im s d : StatInv g im s ->
  let im' := fst (vol_set_dirty_flag g im s d) in let s' := snd (vol_set_dirty_flag g im s d) in
  status_only g im im' /\ StatInv g im' s' /\ mount_byte s' = mount_byte s /\ s' = set_dirty_flag s d /\
  img_get im' (g_status_off g) / 4 = mount_byte s / 4 /\
  N.odd (img_get im' (g_status_off g) / 2) = N.odd (mount_byte s / 2) /\
  (d = true -> N.odd (img_get im' (g_status_off g)) = true /\ sf_dirty (current s') = true) /\
  (d = false -> img_get im' (g_status_off g) = mount_byte s) /\
  (flags_change s d = false -> im' = im /\ s' = s).
Proof.
  intros (Hbyte & Hinv & Hlt). cbv zeta. unfold vol_set_dirty_flag. cbn [fst snd].
  pose proof (set_dirty_flag_inv s d Hinv) as Hinv'. pose proof (set_dirty_flag_mount s d) as Hm.
  assert (img_get (if flags_change s d then (if d then vol_mark_dirty g im (mount_byte s) else vol_unmount_status g im (mount_byte s)) else im)
            (g_status_off g) = disk_byte (set_dirty_flag s d)) as Hb'.
  { destruct (flags_change s d) eqn:F.
    - destruct (flags_change_true s d F) as [-> _]. destruct d; unfold vol_mark_dirty, vol_unmount_status; apply img_get_set_same.
    - rewrite (flags_change_false s d F). exact Hbyte. }
  split.
  { intros a Ha. destruct (flags_change s d); [|reflexivity].
    destruct d; unfold vol_mark_dirty, vol_unmount_status; apply img_get_set_other; congruence. }
  split; [split; [exact Hb'|split; [exact Hinv'|rewrite Hm; exact Hlt]]|]. split; [exact Hm|]. split; [reflexivity|].
  rewrite Hb'. destruct Hinv' as (I1 & I2 & I3). rewrite Hm in I1, I2, I3.
  destruct (status_bits (sf_encode (current (set_dirty_flag s d))) (mount_byte s / 4) (encode_lt4 _)) as (B1 & B2 & B3).
  rewrite I1. split; [exact B1|]. split.
  { rewrite B2, encode_io, I2. reflexivity. }
  split.
  { intros ->. destruct (dirty_after_structural s Hinv) as [D1 D2]. cbv zeta in D2. rewrite I1 in D2. split; [exact D2|exact D1]. }
  split.
  { intros ->. assert (current (set_dirty_flag s false) = sf_decode (mount_byte s)) as Hc.
    { unfold set_dirty_flag. destruct (sf_eqb _ (current s)) eqn:E.
      - apply sf_eqb_eq in E. rewrite <- E. rewrite orb_false_r. destruct (sf_decode (mount_byte s)); reflexivity.
      - cbn [current]. rewrite orb_false_r. destruct (sf_decode (mount_byte s)); reflexivity. }
    rewrite Hc, encode_decode_low. lia. }
  intros F. rewrite F. split; [reflexivity|exact (flags_change_false s d F)].
Qed.

(* ================================================================ 2. a marked operation *)
(* [im] before, [im1] = what the unwrapped operation leaves, [marks] = whether the code passes set_dirty_flag(true) in it.
   Premises: the unwrapped operation does not touch the status byte; when the code does not mark, the operation changed
   nothing.  Then: only the status byte differs from [im1]; whenever the operation changed ANY byte the dirty bit is set on the
   device, bits 1-7 are those of the mount-time byte; the invariant is kept; without a mark nothing at all happens. *)
Theorem marked_spec g marks im im1 s : StatInv g im s ->
  img_get im1 (g_status_off g) = img_get im (g_status_off g) -> (marks = false -> img_same im im1) ->
  let im2 := fst (marked g marks im1 s) in let s2 := snd (marked g marks im1 s) in
  status_only g im1 im2 /\ StatInv g im2 s2 /\ mount_byte s2 = mount_byte s /\
  img_get im2 (g_status_off g) / 4 = mount_byte s / 4 /\
  N.odd (img_get im2 (g_status_off g) / 2) = N.odd (mount_byte s / 2) /\
  ((exists a, img_get im1 a <> img_get im a) -> N.odd (img_get im2 (g_status_off g)) = true /\ sf_dirty (current s2) = true) /\
  (marks = true -> N.odd (img_get im2 (g_status_off g)) = true /\ sf_dirty (current s2) = true) /\
  (marks = false -> im2 = im1 /\ s2 = s).
Proof.
  intros Hs Hfr Hun. assert (StatInv g im1 s) as Hs1.
  { destruct Hs as (A & B & C). split; [rewrite Hfr; exact A|split; assumption]. }
  cbv zeta. unfold marked. destruct marks.
  - destruct (vol_set_dirty_flag_spec g im1 s true Hs1) as (P1 & P2 & P3 & _ & P4 & P5 & P6 & _). cbv zeta in *.
    split; [exact P1|]. split; [exact P2|]. split; [exact P3|]. split; [exact P4|]. split; [exact P5|].
    split; [intros _; exact (P6 eq_refl)|]. split; [intros _; exact (P6 eq_refl)|discriminate].
  - cbn [fst snd]. split; [apply status_only_refl|]. split; [exact Hs1|]. split; [reflexivity|].
    destruct Hs1 as (A & (I1 & I2 & I3) & C).
    destruct (status_bits (sf_encode (current s)) (mount_byte s / 4) (encode_lt4 _)) as (B1 & B2 & B3).
    rewrite A, I1. split; [exact B1|]. split.
    { rewrite B2, encode_io, I2. reflexivity. }
    split; [|split; [discriminate|intros _; split; reflexivity]].
    intros (a & Ha). exfalso. apply Ha. apply (Hun eq_refl).
Qed.

(* ================================================================ 3. the decoder does not see the status byte *)
(* BPB_FATSz16 <> 0, as on every FAT12/16 volume: the decoder then never reads offset 0x25 as part of the geometry *)
Definition fatsz16_set (im : image) : Prop := img_u16 im 22 <> 0.

Lemma parse_geom_status_only im im' : fatsz16_set im -> (forall a, a <> 37 -> img_get im' a = img_get im a) ->
  parse_geom im' = parse_geom im.
Proof.
  intros H16 H. unfold fatsz16_set in H16. apply N.eqb_neq in H16.
  assert (img_u16 im' 22 = img_u16 im 22) as E22 by (unfold img_u16; rewrite !H by lia; reflexivity).
  unfold parse_geom. rewrite E22, H16. cbv iota. unfold img_u32, img_u16. rewrite !H by lia. reflexivity.
Qed.

Lemma decode_entries_ext g im im' :
  (forall c, fat_val g im' c = fat_val g im c) -> (forall c, cluster_bytes g im' c = cluster_bytes g im c) ->
  forall d es, decode_entries g im' d es = decode_entries g im d es.
Proof.
  intros Hf Hc.
  assert (forall fuel c, chain_from g im' c fuel = chain_from g im c fuel) as Hch.
  { induction fuel as [|f IH]; intros c; cbn [chain_from]; [reflexivity|]. rewrite Hf. destruct (in_range g c); [|reflexivity].
    destruct (fat_val g im c); try reflexivity. rewrite IH. reflexivity. }
  assert (forall l, chain_bytes g im' l = chain_bytes g im l) as Hcb.
  { intros l. unfold chain_bytes. induction l as [|c r IH]; cbn [flat_map]; [reflexivity|]. rewrite IH, Hc. reflexivity. }
  induction d as [|d IH]; intros es; [reflexivity|].
  rewrite !decode_entries_S. apply map_ext. intros e. unfold node_of. rewrite Hch.
  destruct (e_is_dot e); [reflexivity|].
  destruct (if e_cluster e =? 0 then None else chain_from g im (e_cluster e) (chain_fuel g)) as [l|]; [|reflexivity].
  rewrite Hcb. destruct (e_is_dir e); [|reflexivity].
  destruct (dir_scan (slots_of (chain_bytes g im l)) 0 [] (g_bits g =? 32)) as [[ces labels] iss]. rewrite IH. reflexivity.
Qed.

(* images that agree everywhere but at the status byte of a FAT12/16 volume *)
Section Transfer.
Variables (im im' : image) (g : geom).
Hypothesis Hg : fixed_root_geom g.
Hypothesis Hso : status_only g im im'.
Hypothesis Hpg : parse_geom im = g.        (* used by so_geom and abs_status_only only *)
Hypothesis H16 : fatsz16_set im.

Lemma so_high a : 512 <= a -> img_get im' a = img_get im a.
Proof. intros Ha. apply Hso. rewrite (g_status_off_fixed g (fg_bits g Hg)). lia. Qed.

Lemma so_geom : parse_geom im' = g.
Proof.
  rewrite <- Hpg. apply parse_geom_status_only; [exact H16|]. intros a Ha. apply Hso. rewrite (g_status_off_fixed g (fg_bits g Hg)). exact Ha.
Qed.

Lemma so_fat_val c : fat_val g im' c = fat_val g im c.
Proof.
  unfold fat_val. f_equal. unfold fat_raw. rewrite (g_active_fixed g (fg_bits g Hg)).
  assert (512 <= g_fat_off g 0) as Hb.
  { unfold g_fat_off. pose proof (fg_bps g Hg). pose proof (fg_reserved g Hg). nia. }
  destruct (g_bits g =? 12); [unfold img_u16; rewrite !so_high by lia; reflexivity|].
  destruct (g_bits g =? 16); [unfold img_u16; rewrite !so_high by lia; reflexivity|].
  unfold img_u32, img_u16. rewrite !so_high by lia. reflexivity.
Qed.

Lemma so_cluster_bytes c : cluster_bytes g im' c = cluster_bytes g im c.
Proof.
  unfold cluster_bytes. apply VolFileProofs.img_read_ext. intros i _. apply so_high.
  pose proof (cluster_after_root g c ltac:(pose proof (fg_bps g Hg); lia)). pose proof (root_off_ge g Hg). lia.
Qed.

Lemma so_root_slots : root_region_slots g im' = root_region_slots g im.
Proof. unfold root_region_slots. f_equal. apply VolFileProofs.img_read_ext. intros i _. apply so_high. pose proof (root_off_ge g Hg). lia. Qed.

(* THE TRANSFER LEMMA: everything the independent decoder and the well-formedness check compute is the same, except v_status,
   which is the status byte *)
Theorem abs_status_only fold :
  parse_geom im' = parse_geom im /\
  v_root (abs im') = v_root (abs im) /\ v_root_issues (abs im') = v_root_issues (abs im) /\
  v_labels (abs im') = v_labels (abs im) /\ v_geom (abs im') = v_geom (abs im) /\
  v_root_chain (abs im') = v_root_chain (abs im) /\
  v_fsinfo_free (abs im') = v_fsinfo_free (abs im) /\ v_fsinfo_next (abs im') = v_fsinfo_next (abs im) /\
  v_status (abs im') = img_get im' (g_status_off g) /\ v_status (abs im) = img_get im (g_status_off g) /\
  Wf.wf_issues fold im' = Wf.wf_issues fold im /\ count_free g im' = count_free g im /\
  root_region_slots g im' = root_region_slots g im /\
  (forall c, fat_val g im' c = fat_val g im c) /\ (forall c, cluster_bytes g im' c = cluster_bytes g im c).
Proof.
  pose proof so_geom as Hpg'.
  destruct (dir_scan (root_region_slots g im) 0 [] false) as [[es ls] iss] eqn:Hs.
  assert (abs im = abs_fixed g im es ls iss) as Habs.
  { rewrite <- Hpg. apply abs_fixed_root; rewrite Hpg; [exact (fg_bits g Hg)|exact Hs]. }
  assert (abs im' = abs_fixed g im' es ls iss) as Habs'.
  { rewrite <- Hpg'. apply abs_fixed_root; rewrite Hpg'; [exact (fg_bits g Hg)|]. rewrite so_root_slots. exact Hs. }
  assert (decode_entries g im' MAX_DEPTH es = decode_entries g im MAX_DEPTH es) as Hdec
    by (apply decode_entries_ext; [exact so_fat_val|exact so_cluster_bytes]).
  split; [rewrite Hpg', Hpg; reflexivity|]. rewrite Habs, Habs'. cbn [abs_fixed v_root v_root_issues v_labels v_geom v_root_chain v_fsinfo_free v_fsinfo_next v_status].
  split; [exact Hdec|]. do 6 (split; [reflexivity|]). split; [reflexivity|]. split; [reflexivity|].
  split.
  { rewrite (wf_issues_fixed fold im' g im' es ls iss (fg_bits g Hg) Habs'), (wf_issues_fixed fold im g im es ls iss (fg_bits g Hg) Habs).
    cbv zeta. rewrite Hdec. destruct (Wf.own_clusters _ _) as [owned cross].
    assert (forall n c, Wf.lost_from g im' owned c n = Wf.lost_from g im owned c n) as ->; [|reflexivity].
    induction n as [|n IH]; intros c; cbn [Wf.lost_from]; [reflexivity|]. rewrite so_fat_val, IH. reflexivity. }
  split.
  { unfold count_free. assert (forall n c, count_free_from g im' c n = count_free_from g im c n) as X; [|apply X].
    induction n as [|n IH]; intros c; cbn [count_free_from]; [reflexivity|]. rewrite so_fat_val, IH. reflexivity. }
  split; [exact so_root_slots|]. split; [exact so_fat_val|exact so_cluster_bytes].
Qed.

Lemma so_bytes_ok : FatProofs.bytes_ok im -> img_get im' (g_status_off g) < 256 -> FatProofs.bytes_ok im'.
Proof. intros Hb Hs a. destruct (N.eq_dec a (g_status_off g)) as [->|Hne]; [exact Hs|]. rewrite (Hso a Hne). apply Hb. Qed.

(* the file-layer invariant of Proofs/VolFileProofs.v and the decoder's view of the file *)
Lemma so_vol_inv fi h sz l : img_get im' (g_status_off g) < 256 -> VolInv g im fi h sz l ->
  VolInv g im' fi h sz l /\ vol_content g im' l sz = vol_content g im l sz.
Proof.
  intros Hs V. pose proof (fixed_root_vgeom_ok g Hg) as Hok. pose proof V as (Hb & W & I & NB).
  assert (Embeds g im' (world_of g im fi)) as E.
  { constructor; try reflexivity.
    - intros a Ha. cbn [world_of w_fat store_of fs_img]. symmetry. apply so_high. exact (proj1 (store_area_before_root g a Hg Ha)).
    - intros c _. cbn [world_of w_data]. symmetry. apply so_cluster_bytes. }
  split; [exact (embeds_vol_inv g Hok im' (world_of g im fi) h sz l (so_bytes_ok Hb Hs) E W I NB)|].
  unfold vol_content. f_equal. unfold chain_bytes.
  assert (forall l0, flat_map (cluster_bytes g im') l0 = flat_map (cluster_bytes g im) l0) as X; [|apply X].
  induction l0 as [|c r IH]; cbn [flat_map]; [reflexivity|]. rewrite so_cluster_bytes, IH. reflexivity.
Qed.
End Transfer.

(* ================================================================ 4. the wrapped operations *)
(* the conclusion of marked_spec, for an operation from [im] whose unwrapped image is [im1], wrapped image [im2] *)
Definition MarkedOK (g : geom) (im im1 im2 : image) (s s2 : fstat) (marks : bool) : Prop :=
  status_only g im1 im2 /\ StatInv g im2 s2 /\ mount_byte s2 = mount_byte s /\
  img_get im2 (g_status_off g) / 4 = mount_byte s / 4 /\
  N.odd (img_get im2 (g_status_off g) / 2) = N.odd (mount_byte s / 2) /\
  ((exists a, img_get im1 a <> img_get im a) -> N.odd (img_get im2 (g_status_off g)) = true /\ sf_dirty (current s2) = true) /\
  (marks = true -> N.odd (img_get im2 (g_status_off g)) = true /\ sf_dirty (current s2) = true) /\
  (marks = false -> im2 = im1 /\ s2 = s).

Lemma marked_ok g marks im im1 s im2 s2 : StatInv g im s ->
  img_get im1 (g_status_off g) = img_get im (g_status_off g) -> (marks = false -> img_same im im1) ->
  marked g marks im1 s = (im2, s2) -> MarkedOK g im im1 im2 s s2 marks.
Proof.
  intros Hs Hfr Hun M. pose proof (marked_spec g marks im im1 s Hs Hfr Hun) as X. cbv zeta in X. rewrite M in X. exact X.
Qed.

Lemma status_below_root g : fixed_root_geom g -> g_status_off g < g_root_off g.
Proof. intros Hg. rewrite (g_status_off_fixed g (fg_bits g Hg)). pose proof (root_off_ge g Hg). lia. Qed.

Lemma slots_eqb_eq : forall a b, slots_eqb a b = true -> a = b.
Proof.
  induction a as [|x a IH]; intros [|y b] H; cbn [slots_eqb] in H; try reflexivity; try discriminate.
  apply andb_true_iff in H. destruct H as [H1 H2]. apply list_eqb_eq in H1. rewrite H1, (IH b H2). reflexivity.
Qed.

Section Wrapped.
Variable upper : N -> list N.
Variable oem : N -> N.

(* root_dir().create_file(name), mounted *)
Theorem vols_create_spec im s name now :
  let g := parse_geom im in
  fixed_root_geom g -> StatInv g im s ->
  exists r im1 im2 s2,
    vol_create_empty_file_root upper oem im name now = (r, im1) /\
    vols_create_empty_file_root upper oem im s name now = (r, im2, s2) /\
    MarkedOK g im im1 im2 s s2 (created r).
Proof.
  intros g Hg Hs. destruct (vol_create_empty_file_root upper oem im name now) as [r im1] eqn:E.
  destruct (marked g (created r) im1 s) as [im2 s2] eqn:M. exists r, im1, im2, s2. split; [reflexivity|].
  split; [unfold vols_create_empty_file_root; rewrite E; fold g; rewrite M; reflexivity|].
  apply (marked_ok g (created r) im im1 s im2 s2 Hs); [| |exact M].
  - destruct (vol_create_confined upper oem im name now r im1 Hg E) as (Hout & _). apply Hout. left. exact (status_below_root g Hg).
  - intros Hc. destruct (vol_create_failed_unchanged (fun l => l) upper oem im name now r im1 Hg E) as (X & _); [|exact X].
    intros range ->. discriminate.
Qed.

(* root_dir().remove(name) of a cluster-less file, mounted *)
Theorem vols_remove_empty_spec im s name r im1 :
  let g := parse_geom im in
  fixed_root_geom g -> StatInv g im s -> vol_remove_empty_file_root upper oem im name = Some (r, im1) ->
  exists im2 s2, vols_remove_empty_file_root upper oem im s name = Some (r, im2, s2) /\ MarkedOK g im im1 im2 s s2 (res_ok r).
Proof.
  intros g Hg Hs E. destruct (marked g (res_ok r) im1 s) as [im2 s2] eqn:M. exists im2, s2.
  split; [unfold vols_remove_empty_file_root; rewrite E; fold g; rewrite M; reflexivity|].
  apply (marked_ok g (res_ok r) im im1 s im2 s2 Hs); [| |exact M].
  - destruct (vol_remove_confined upper oem im name r im1 Hg E) as (Hout & _). apply Hout. left. exact (status_below_root g Hg).
  - intros Hc. destruct (vol_remove_failed_unchanged (fun l => l) upper oem im name r im1 Hg E) as (X & _); [|exact X].
    intros ->. discriminate.
Qed.

(* root_dir().rename(src, root, dst) of a file, mounted *)
Theorem vols_rename_spec im s src dst r im1 :
  let g := parse_geom im in
  fixed_root_geom g -> StatInv g im s -> vol_rename_in_root upper oem im src dst = Some (r, im1) ->
  exists im2 s2 wrote, vols_rename_in_root upper oem im s src dst = Some (r, im2, s2) /\ MarkedOK g im im1 im2 s s2 wrote /\
    wrote = negb (slots_eqb (root_region_slots g im) (root_region_slots g im1)).
Proof.
  intros g Hg Hs E. set (wrote := negb (slots_eqb (root_region_slots g im) (root_region_slots g im1))).
  destruct (marked g wrote im1 s) as [im2 s2] eqn:M. exists im2, s2, wrote.
  split; [unfold vols_rename_in_root; rewrite E; cbv zeta; fold g wrote; rewrite M; reflexivity|]. split; [|reflexivity].
  pose proof (vol_rename_confined upper oem im src dst r im1 Hg E) as (Hout & _). fold g in Hout.
  apply (marked_ok g wrote im im1 s im2 s2 Hs); [| |exact M].
  - apply Hout. left. exact (status_below_root g Hg).
  - intros Hw. unfold wrote in Hw. apply negb_false_iff in Hw. apply slots_eqb_eq in Hw. intros o.
    destruct (N.lt_ge_cases o (g_root_off g)) as [Lo|Lo]; [apply Hout; left; exact Lo|].
    destruct (N.lt_ge_cases o (g_root_off g + root_bytes g)) as [Hi|Hi]; [|apply Hout; right; exact Hi].
    (* inside the root region: the slots are the same *)
    set (d := N.to_nat (o - g_root_off g)). pose proof (root_bytes_nat g) as Hrb.
    assert (d < 32 * root_slot_count g)%nat as Hd by (rewrite <- Hrb; unfold d; lia).
    pose proof (Nat.div_mod d 32 ltac:(lia)) as Hdm. pose proof (Nat.mod_upper_bound d 32 ltac:(lia)) as Hm.
    assert (d / 32 < root_slot_count g)%nat as Hi' by (apply Nat.div_lt_upper_bound; lia).
    assert (o = g_root_off g + N.of_nat (32 * (d / 32) + d mod 32)) as Ho by (rewrite <- Hdm; unfold d; lia).
    rewrite Ho. rewrite <- !(root_region_slot_bytes g _ (d / 32) (d mod 32) Hi' Hm). rewrite Hw. reflexivity.
Qed.

(* root_dir().remove(name) of a file with or without clusters, mounted: the success case under the premises of
   C05_vol_remove_reclaims_all ... *)
Theorem vols_remove_file_spec fold im fi s name ev :
  let g := parse_geom im in
  fixed_root_geom g -> FatProofs.bytes_ok im ->
  fi_inv fstore (val_ft (ft_of g)) (store_of g im) fi (g_clusters g) ->
  Wf.wf_issues fold im = [] -> Forall attrs_sane (root_region_slots g im) ->
  root_lookup upper oem im name = Ok ev -> Lfn.ev_is_dir ev = false ->
  list_eqb (Lfn.ev_raw_name ev) DOT || list_eqb (Lfn.ev_raw_name ev) DOTDOT = false ->
  StatInv g im s ->
  exists im1 fi1 im2 s2,
    vol_remove_file_root upper oem im fi name = Some (Ok tt, im1, fi1) /\
    vols_remove_file_root upper oem im fi s name = Some (Ok tt, im2, fi1, s2) /\
    MarkedOK g im im1 im2 s s2 true.
Proof.
  intros g Hg Hb Hfi Hwf Hsane Hlk Hnd Hdot Hs.
  destruct (vol_remove_file_decodes upper oem fold im fi name ev Hg Hb Hfi Hwf Hsane Hlk Hnd Hdot)
    as (im1 & ns1 & e & l & content & ns2 & Q1 & _ & _ & _ & _ & _ & _ & _ & _ & _ & _ & _ & _ & _ & _ & _
        & _ & _ & _ & _ & _ & _ & _ & _ & Qfr & _).
  destruct (marked g true im1 s) as [im2 s2] eqn:M.
  exists im1, (fi_after_remove fi (e_cluster e) (length l)), im2, s2. split; [exact Q1|].
  split; [unfold vols_remove_file_root; rewrite Q1; fold g; cbn [res_ok]; rewrite M; reflexivity|].
  apply (marked_ok g true im im1 s im2 s2 Hs); [|discriminate|exact M].
  apply Qfr; [|left; exact (status_below_root g Hg)].
  intros Hsa. pose proof (store_area_before_root g _ Hg Hsa). rewrite (g_status_off_fixed g (fg_bits g Hg)) in *. lia.
Qed.

(* ... and every other outcome: no status write, nothing at all *)
Theorem vols_remove_file_failed im fi s name r im1 fi1 :
  vol_remove_file_root upper oem im fi name = Some (r, im1, fi1) -> r <> Ok tt ->
  vols_remove_file_root upper oem im fi s name = Some (r, im, fi, s).
Proof.
  intros E Hr. destruct (vol_remove_file_failed_unchanged upper oem im fi name r im1 fi1 E Hr) as (-> & -> & _).
  unfold vols_remove_file_root. rewrite E. destruct r as [[]| | |]; [contradiction| | |]; reflexivity.
Qed.
End Wrapped.

(* ---------------------------------------------------------------- the file calls *)
(* a call the code does not mark leaves image and FS-info latch exactly as they were - unconditionally *)
Lemma file_step_unmarked (T : Type) get set cs total (w : fworld T) h o w' h' r :
  file_step T get set cs total w h o = (w', h', r) -> step_marks cs h o r = false -> w' = w.
Proof.
  destruct o as [n|d|p|]; unfold file_step, step_marks.
  - intros H _. unfold file_read in H.
    destruct (if h_off h mod cs =? 0 then next_cluster_of T get (w_fat T w) h else Ok (h_cur h)) as [[cc|]| | |];
      cbn [bind of_res] in H; try (injection H as <- _ _; reflexivity).
    destruct (match h_size h with Some s => u32_sub s (h_off h) | None => Ok (cs - h_off h mod cs) end) as [blf| | |];
      cbn [bind of_res] in H; try (injection H as <- _ _; reflexivity).
    destruct (N.min (N.min n (cs - h_off h mod cs)) blf =? 0); cbn [of_res] in H; [injection H as <- _ _; reflexivity|].
    destruct (len_N _ =? 0); cbn [of_res] in H; injection H as <- _ _; reflexivity.
  - intros H Hm. apply negb_false_iff in Hm. unfold write_size in Hm. unfold file_write in H. rewrite Hm in H.
    cbn [of_res] in H. injection H as <- _ _. reflexivity.
  - intros H _. unfold file_seek in H.
    match type of H with context [match ?X with Some new => _ | None => Err EInvalidInput end] => destruct X as [new|] end;
      cbn [of_res] in H; [|injection H as <- _ _; reflexivity].
    destruct (new =? h_off h); cbn [of_res] in H; [injection H as <- _ _; reflexivity|].
    match type of H with context [bind ?X _] => destruct X as [[new' cl]| | |] end;
      cbn [bind of_res] in H; injection H as <- _ _; reflexivity.
  - unfold file_truncate.
    destruct (h_entry h) as [e|]; cbn [of_res]; [|intros H _; injection H as <- _ _; reflexivity].
    destruct (h_cur h) as [c|].
    + destruct (h_off h =? 0); cbn [of_res]; [intros H _; injection H as <- _ _; reflexivity|].
      destruct (fs_truncate_chain T get set (w_fat T w) (w_fi T w) c (FileM.chain_fuel total)) as [[t' fi']| | |];
        cbn [bind of_res]; intros H Hm; [injection H as _ _ <-; discriminate Hm| | |]; injection H as <- _ _; reflexivity.
    + destruct (negb (h_off h =? 0)); cbn [of_res]; [intros H _; injection H as <- _ _; reflexivity|].
      destruct (h_first h) as [f|].
      * destruct (fs_free_chain T get set (w_fat T w) (w_fi T w) f (FileM.chain_fuel total)) as [[t' fi']| | |];
          cbn [bind of_res]; intros H Hm; [injection H as _ _ <-; discriminate Hm| | |]; injection H as <- _ _; reflexivity.
      * cbn [of_res]. intros H _. injection H as <- _ _. reflexivity.
Qed.

Theorem vol_step_unmarked g im fi h o im' fi' h' r :
  vol_step g (im, fi, h) o = ((im', fi', h'), r) -> step_marks (g_cluster_size g) h o r = false -> im' = im /\ fi' = fi.
Proof.
  unfold vol_step.
  destruct (file_step fstore (fat_get (ft_of g)) (fat_set (ft_of g)) (g_cluster_size g) (g_clusters g) (world_of g im fi) h o)
    as [[w' h1] r1] eqn:E.
  intros H Hm. injection H. intros <- <- <- <-.
  pose proof (file_step_unmarked fstore _ _ _ _ _ _ _ _ _ _ E Hm) as ->. cbn [world_of w_fat w_fi store_of fs_img]. split; [|reflexivity].
  unfold data_effect, step_write. destruct o as [n|d|p|]; try reflexivity.
  destruct r1; try reflexivity. destruct (h_cur h1); [|reflexivity].
  (* an unmarked write: write_size = 0, the count is 0 *)
  unfold step_marks in Hm. apply negb_false_iff in Hm. unfold write_size in Hm.
  unfold file_step, file_write in E. rewrite Hm in E. cbn [of_res] in E. injection E. intros. subst. reflexivity.
Qed.


Lemma status_value_lt mb d : mb < 256 -> status_value mb d < 256.
Proof.
  intros H. unfold status_value. rewrite status_byte_arith.
  pose proof (encode_lt4 {| sf_dirty := sf_dirty (sf_decode mb) || d; sf_io_error := sf_io_error (sf_decode mb) |}). lia.
Qed.

Lemma stat_inv_byte_lt g im s : StatInv g im s -> img_get im (g_status_off g) < 256.
Proof. intros (A & (I1 & _) & C). rewrite A, I1. pose proof (encode_lt4 (current s)). lia. Qed.

Section FileCalls.
Variable g : geom.
Hypothesis Hg : fixed_root_geom g.

Lemma status_not_store_cluster : ~ in_store_area g (g_status_off g) /\ forall c, ~ in_cluster g c (g_status_off g).
Proof.
  rewrite (g_status_off_fixed g (fg_bits g Hg)). split.
  - intros Hs. pose proof (store_area_before_root g 37 Hg Hs). lia.
  - intros c. apply (root_not_cluster g c 37 Hg). pose proof (root_off_ge g Hg). lia.
Qed.

(* ONE CALL, mounted: Proofs/VolFileProofs.vol_step_refines with the status byte.  The wrapped machine refines the byte-array
   machine exactly as the unwrapped one does (the decoder's view of the file ignores the status byte), keeps the file-layer
   invariant, and its image is the unwrapped image but for the status byte, which is dirty whenever anything changed *)
Theorem vols_step_spec im fi h sz l s o :
  op_ok o -> VolInv g im fi h sz l -> StatInv g im s ->
  exists im1 fi1 h1 r im2 s2 sz' l',
    vol_step g (im, fi, h) o = ((im1, fi1, h1), r) /\
    vols_step g (im, fi, h) s o = ((im2, fi1, h1), s2, r) /\
    MarkedOK g im im1 im2 s s2 (step_marks (g_cluster_size g) h o r) /\
    VolInv g im2 fi1 h1 sz' l' /\
    bf_step (vol_content g im l sz, h_off h) o r = Some (vol_content g im2 l' sz', h_off h1) /\
    (step_marks (g_cluster_size g) h o r = false -> im2 = im /\ fi1 = fi /\ s2 = s).
Proof.
  intros Ho V Hs. pose proof (fixed_root_vgeom_ok g Hg) as Hok.
  destruct (vol_step_refines g Hok im fi h sz l o Ho V) as (im1 & fi1 & h1 & r & sz' & l' & E & V1 & Hbf & _ & Hfr & _).
  set (marks := step_marks (g_cluster_size g) h o r).
  destruct (marked g marks im1 s) as [im2 s2] eqn:M.
  exists im1, fi1, h1, r, im2, s2, sz', l'. split; [exact E|].
  split; [unfold vols_step; rewrite E; cbn [snd]; fold marks; rewrite M; reflexivity|].
  destruct status_not_store_cluster as [N1 N2].
  assert (MarkedOK g im im1 im2 s s2 marks) as MO.
  { apply (marked_ok g marks im im1 s im2 s2 Hs); [| |exact M].
    - apply Hfr; [exact N1|intros c _; exact (N2 c)].
    - intros Hm. destruct (vol_step_unmarked g im fi h o im1 fi1 h1 r E Hm) as [-> _]. intros a. reflexivity. }
  split; [exact MO|]. destruct MO as (SO & SI & _ & _ & _ & _ & _ & Hun).
  destruct (so_vol_inv im1 im2 g Hg SO fi1 h1 sz' l' (stat_inv_byte_lt g im2 s2 SI) V1) as [V2 Hc2].
  split; [exact V2|]. split; [rewrite Hc2; exact Hbf|].
  intros Hm. destruct (Hun Hm) as [-> ->]. destruct (vol_step_unmarked g im fi h o im1 fi1 h1 r E Hm) as [-> ->]. repeat split.
Qed.

(* HISTORIES, mounted: the run refines the byte-array machine; the invariants are kept; the mount byte is remembered *)
Theorem vols_run_spec : forall ops im fi h sz l s,
  Forall op_ok ops -> VolInv g im fi h sz l -> StatInv g im s ->
  exists im' fi' h' s' rs sz' l',
    vols_run g (im, fi, h) s ops = ((im', fi', h'), s', rs) /\
    VolInv g im' fi' h' sz' l' /\ StatInv g im' s' /\ mount_byte s' = mount_byte s /\
    bf_run (vol_content g im l sz, h_off h) ops rs = Some (vol_content g im' l' sz', h_off h') /\
    chain_decodes g im' (h_first h') l'.
Proof.
  pose proof (fixed_root_vgeom_ok g Hg) as Hok.
  induction ops as [|o ops IH]; intros im fi h sz l s Hf V Hs.
  - exists im, fi, h, s, [], sz, l. split; [reflexivity|]. split; [exact V|]. split; [exact Hs|]. split; [reflexivity|].
    split; [reflexivity|exact (vol_inv_decodes g Hok _ _ _ _ _ V)].
  - inversion Hf as [|? ? Ho Hf']; subst.
    destruct (vols_step_spec im fi h sz l s o Ho V Hs) as (im1 & fi1 & h1 & r & im2 & s2 & sz1 & l1 & _ & E & MO & V2 & Hbf & _).
    destruct MO as (_ & SI & Hmb & _).
    destruct (IH im2 fi1 h1 sz1 l1 s2 Hf' V2 SI) as (im' & fi' & h' & s' & rs & sz' & l' & R & V' & S' & Hmb' & Hbr & Hd).
    exists im', fi', h', s', (r :: rs), sz', l'. split; [cbn [vols_run]; rewrite E, R; reflexivity|].
    split; [exact V'|]. split; [exact S'|]. split; [rewrite Hmb'; exact Hmb|]. split; [cbn [bf_run]; rewrite Hbf; exact Hbr|exact Hd].
Qed.
End FileCalls.

(* READ-ONLY USE: reads and seeks (any arguments, any outcome) leave the image, the FS-info latch and the status latch exactly
   as they were - no premise at all *)
Definition read_only_op (o : fop) : bool := match o with FRead _ | FSeek _ => true | _ => false end.

Theorem vols_run_read_only g : forall ops im fi h s, forallb read_only_op ops = true ->
  exists h' rs, vols_run g (im, fi, h) s ops = ((im, fi, h'), s, rs).
Proof.
  induction ops as [|o ops IH]; intros im fi h s H.
  - exists h, []. reflexivity.
  - cbn [forallb] in H. apply andb_true_iff in H. destruct H as [Ho H].
    cbn [vols_run]. unfold vols_step.
    destruct (vol_step g (im, fi, h) o) as [[[im1 fi1] h1] r] eqn:E. cbn [snd].
    assert (step_marks (g_cluster_size g) h o r = false) as Hm by (destruct o; try discriminate; reflexivity).
    destruct (vol_step_unmarked g im fi h o im1 fi1 h1 r E Hm) as [-> ->]. rewrite Hm. cbn [marked].
    destruct (IH im fi h1 s H) as (h' & rs & R). rewrite R. exists h', (r :: rs). reflexivity.
Qed.

(* ================================================================ 5. histories of marked operations; unmount *)
(* every image / latch pair reachable from a mount with status byte [b] by operations that do not touch the status byte
   themselves, each with or without the mark; [dirty]: some operation so far was marked *)
Inductive vreach (g : geom) (b : N) : bool -> image -> fstat -> Prop :=
| vr_mount im : img_get im (g_status_off g) = b -> b < 256 -> vreach g b false im (vol_mount_status g im)
| vr_op dirty im s im1 marks : vreach g b dirty im s -> img_get im1 (g_status_off g) = img_get im (g_status_off g) ->
    vreach g b (dirty || marks) (fst (marked g marks im1 s)) (snd (marked g marks im1 s)).

Theorem vreach_inv g b dirty im s : vreach g b dirty im s ->
  StatInv g im s /\ mount_byte s = b /\ img_get im (g_status_off g) / 4 = b / 4 /\
  N.odd (img_get im (g_status_off g) / 2) = N.odd (b / 2) /\
  (dirty = true -> N.odd (img_get im (g_status_off g)) = true /\ sf_dirty (current s) = true) /\
  (dirty = false -> img_get im (g_status_off g) = b).
Proof.
  induction 1 as [im Hb Hlt|dirty im s im1 marks R IH Hfr].
  - split; [apply mount_stat_inv; rewrite Hb; exact Hlt|]. unfold vol_mount_status. cbn [st_mount mount_byte]. rewrite Hb.
    split; [reflexivity|]. split; [reflexivity|]. split; [reflexivity|]. split; [discriminate|reflexivity].
  - destruct IH as (SI & Hm & H4 & H2 & Hd & Hc).
    assert (StatInv g im1 s) as SI1 by (destruct SI as (A & B & C); split; [rewrite Hfr; exact A|split; assumption]).
    unfold marked. destruct marks.
    + destruct (vol_set_dirty_flag_spec g im1 s true SI1) as (_ & P2 & P3 & _ & P4 & P5 & P6 & _). cbv zeta in *.
      split; [exact P2|]. split; [rewrite P3; exact Hm|]. split; [rewrite P4, Hm; reflexivity|]. split; [rewrite P5, Hm; reflexivity|].
      split; [intros _; exact (P6 eq_refl)|]. rewrite orb_true_r. discriminate.
    + cbn [fst snd]. rewrite orb_false_r. split; [exact SI1|]. split; [exact Hm|]. rewrite Hfr.
      split; [exact H4|]. split; [exact H2|]. split; [exact Hd|exact Hc].
Qed.

(* UNMOUNT restores the status byte exactly - for every mount-time byte and every history - and touches nothing else *)
Theorem vol_unmount_restores g b dirty im s : vreach g b dirty im s ->
  let im' := fst (vol_unmount g im s) in
  img_get im' (g_status_off g) = b /\ status_only g im im' /\ (dirty = false -> im' = im).
Proof.
  intros R. destruct (vreach_inv g b dirty im s R) as (SI & Hm & _ & _ & _ & Hc). cbv zeta. unfold vol_unmount.
  destruct (vol_set_dirty_flag_spec g im s false SI) as (P1 & _ & _ & _ & _ & _ & _ & P7 & P8). cbv zeta in *.
  split; [rewrite (P7 eq_refl); exact Hm|]. split; [exact P1|].
  intros Hd. specialize (Hc Hd). unfold vol_set_dirty_flag. cbn [fst].
  destruct (flags_change s false) eqn:F; [|reflexivity].
  (* a clean latch never changes on unmount *)
  exfalso. destruct SI as (A & (I1 & I2 & I3) & C). unfold flags_change in F. apply negb_true_iff in F.
  assert (current s = sf_decode (mount_byte s)) as Hcur.
  { assert (disk_byte s = mount_byte s) as Hdm by (rewrite <- A, Hc, Hm; reflexivity). rewrite I1 in Hdm.
    assert (sf_encode (current s) = mount_byte s mod 4) as Hen by (pose proof (encode_lt4 (current s)); lia).
    rewrite <- (decode_encode (current s)), Hen. unfold sf_decode. f_equal; rewrite !odd_mod2; f_equal; lia. }
  rewrite Hcur, orb_false_r in F. destruct (sf_decode (mount_byte s)) as [[|] [|]]; discriminate.
Qed.

(* the session machine of Model/VolSession.v, mounted: image, latches, handle and status latch of [sesss_step] are those of
   [vols_step] on the (image, FS-info, handle) part of the state - the time stamps live in the handle's editor only *)
Lemma sesss_step_is_vols_step g acc st s on :
  let '(st1, s1, _) := sesss_step g acc st s on in
  let '((im2, fi2, h2), s2, _) := vols_step g (s_im st, s_fi st, s_h st) s (fst on) in
  s_im st1 = im2 /\ s_fi st1 = fi2 /\ s_h st1 = h2 /\ s1 = s2.
Proof.
  destruct on as [o now]. unfold sesss_step, vols_step, sess_step. cbn [fst snd].
  destruct (vol_step g (s_im st, s_fi st, s_h st) o) as [[[im1 fi1] h1] r] eqn:E.
  assert (forall r', (r' = r \/ (r' = RPanic /\ (forall d, o <> FWrite d) /\ o <> FTruncate) \/ (exists d, o = FWrite d)) ->
            step_marks (g_cluster_size g) (s_h st) o r' = step_marks (g_cluster_size g) (s_h st) o r) as Same.
  { intros r' [->|[(-> & N1 & N2)|(d & ->)]]; try reflexivity. destruct o; try reflexivity. exfalso. apply N2. reflexivity. }
  destruct (stamp_after acc (s_en st) o r now) as [en1| | |] eqn:Est; cbn [s_im s_fi s_h].
  - destruct (marked g (step_marks (g_cluster_size g) (s_h st) o r) im1 s) as [im2 s2]. cbn [s_im s_fi s_h]. repeat split.
  - (* a failing stamp (a clock the time provider cannot give): only after a write or read *)
    rewrite (Same RPanic).
    + destruct (marked g (step_marks (g_cluster_size g) (s_h st) o r) im1 s) as [im2 s2]. cbn [s_im s_fi s_h]. repeat split.
    + unfold stamp_after in Est. destruct o as [n|d|p|]; [| |destruct r; discriminate|destruct r; discriminate].
      * right. left. split; [reflexivity|]. split; [intros d; discriminate|discriminate].
      * right. right. exists d. reflexivity.
  - rewrite (Same RPanic).
    + destruct (marked g (step_marks (g_cluster_size g) (s_h st) o r) im1 s) as [im2 s2]. cbn [s_im s_fi s_h]. repeat split.
    + unfold stamp_after in Est. destruct o as [n|d|p|]; [| |destruct r; discriminate|destruct r; discriminate].
      * right. left. split; [reflexivity|]. split; [intros d; discriminate|discriminate].
      * right. right. exists d. reflexivity.
  - rewrite (Same RPanic).
    + destruct (marked g (step_marks (g_cluster_size g) (s_h st) o r) im1 s) as [im2 s2]. cbn [s_im s_fi s_h]. repeat split.
    + unfold stamp_after in Est. destruct o as [n|d|p|]; [| |destruct r; discriminate|destruct r; discriminate].
      * right. left. split; [reflexivity|]. split; [intros d; discriminate|discriminate].
      * right. right. exists d. reflexivity.
Qed.
